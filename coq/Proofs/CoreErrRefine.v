(* The interpreter implements the ERROR JUDGEMENT of Spec/CoreErr.v: when [fails ... e arg chain]
   is derivable, Stack.run (exec_cmds) returns the compile error of class e whose trace is the
   pile of the stack followed by one frame per element of the chain -- frames of the compiled
   file, the line number in [snd (fr_line fr)], second line [fr_line2] empty except (arg = true)
   on the last frame where it repeats the line -- and nothing else happens (same glob).
   Mutual induction on the derivation; the success premises go through CoreRefine.refine_all. *)
From Coq Require Import NArith ZArith List Bool Lia.
From DS Require Import Base PyStr Values Expr TabParse Tables Constants Interp IdentSpec IdentProofs.
From DS Require Import ScopeProofs LimitProofs ChainProofs LoopUnroll LoopBlock.
From DS Require Import PipelineProofs GroupProofs DollarForm NameChecks CoreLang CoreWf CoreLines CoreRefine.
From DS Require Import CoreErr CoreErrLines.
Import ListNotations.

Arguments IOk {A}. Arguments IErr {A}. Arguments ICrash {A}. Arguments IUnmod {A}.
Arguments s_g {fo}. Arguments s_env {fo}. Arguments s_line2 {fo}. Arguments mkSt {fo}.

(* ================================================================== the shape of a trace *)
(* one frame per line number of the chain, outermost first; all of [file]; the frames of the block
   heads have no second line; the last frame has the line itself as second line iff [a] *)
Inductive shape (file : option path) (a : bool) : list Z -> list frame -> Prop :=
| Sh_last : forall c n,
    shape file a [n] [mkFrame file (c, n) (if a then Some (c, n) else None)]
| Sh_head : forall c n ch tr,
    shape file a ch tr -> shape file a (n :: ch) (mkFrame file (c, n) None :: tr).

Lemma shape_numbers : forall file a ch tr, shape file a ch tr -> map (fun fr => snd (fr_line fr)) tr = ch.
Proof. intros file a ch tr H. induction H as [c n|c n ch tr H IH]; cbn; [reflexivity|rewrite IH; reflexivity]. Qed.

Lemma shape_files : forall file a ch tr, shape file a ch tr -> Forall (fun fr => fr_file fr = file) tr.
Proof. intros file a ch tr H. induction H; constructor; try reflexivity; try assumption. constructor. Qed.

Lemma shape_nonempty : forall file a ch tr, shape file a ch tr -> tr <> [] /\ ch <> [].
Proof. intros file a ch tr H. destruct H; split; discriminate. Qed.

(* second lines: None on every frame but the last; on the last, the line itself iff a *)
Lemma shape_line2 : forall file a ch tr, shape file a ch tr ->
  exists heads lastf, tr = heads ++ [lastf] /\
    Forall (fun fr => fr_line2 fr = None) heads /\
    fr_line2 lastf = if a then Some (fr_line lastf) else None.
Proof.
  intros file a ch tr H. induction H as [c n|c n ch tr H (heads & lastf & -> & Hh & Hl)].
  - exists [], (mkFrame file (c, n) (if a then Some (c, n) else None)). split; [reflexivity|].
    split; [constructor|]. destruct a; reflexivity.
  - exists (mkFrame file (c, n) None :: heads), lastf. split; [reflexivity|].
    split; [constructor; [reflexivity|exact Hh]|exact Hl].
Qed.

Section Refine.
Variable fo : FloatOps.
Variable sys : store fo.
Hypothesis Hsys : nodup_keys sys.

Notation value := (value fo).
Notation st := (st fo).
Notation R := (CoreRefine.R fo sys).
Notation child_of := (CoreRefine.child_of fo).

(* the result is the error er with trace pile ++ (frames of shape ch), glob g *)
Definition fail_res {A} (cx : ctx) (g : glob) (er : errcls) (a : bool) (ch : list Z) (r : st * ires A) : Prop :=
  exists s' tr, r = (s', IErr er (Some (c_pile cx ++ tr))) /\ s_g s' = g /\ shape (c_file cx) a ch tr.

Lemma fail_res_bind : forall A B cx g er a ch (m : M fo A) (k : A -> M fo B) s,
  fail_res cx g er a ch (m s) -> fail_res cx g er a ch (bindM fo m k s).
Proof.
  intros A B cx g er a ch m k s (s' & tr & E & Hg & Hsh). exists s', tr. unfold bindM. rewrite E.
  split; [reflexivity|]. split; assumption.
Qed.

Lemma fail_res_here : forall A cx g er a c n (s' : st),
  s_g s' = g ->
  @fail_res A cx g er a [n] (s', IErr er (Some (here cx (c, n) (if a then Some (c, n) else None)))).
Proof.
  intros A cx g er a c n s' Hg. exists s', [mkFrame (c_file cx) (c, n) (if a then Some (c, n) else None)].
  split; [reflexivity|]. split; [exact Hg|constructor].
Qed.

Lemma err_R : forall g F f vs s e er, R g F f vs s -> eval_err fo sys f vs e er ->
  tokenize fo (all_vars fo (s_env s)) e = Err er.
Proof. intros g F f vs s e er HR He. rewrite (all_vars_R fo sys g F f vs s HR). exact He. Qed.

(* ------------------------------------------------------------------ concrete form under wfx *)
Lemma wfx_items_nonempty : forall s n, wfx s -> stmt_items n s <> [].
Proof.
  intros s n H. destruct s as [name text|name e|x e|arms els|c e b|c e b| |]; try discriminate.
  rewrite stmt_items_if. destruct arms as [|[c b] r]; [destruct H as [H _]; contradiction|discriminate].
Qed.

Lemma wfx_list_items_nonempty : forall p n, p <> [] -> wfx_list p -> items_from n p <> [].
Proof.
  intros [|s r] n Hne H; [contradiction|]. destruct H as [Hs _].
  rewrite items_from_cons. intro E. apply app_eq_nil in E. destruct E as [E _].
  exact (wfx_items_nonempty s n Hs E).
Qed.

Lemma arms_okx : forall arms first n els,
  all_list wfx_arm arms -> wfx_else els -> Forall arm_ok (arms_of first n arms els).
Proof.
  induction arms as [|[c b] r IH]; intros first n els Ha He.
  - cbn. destruct els as [b|]; [|constructor]. destruct He as [Hne Hwf].
    constructor; [|constructor]. apply else_arm_ok. apply wfx_list_items_nonempty; assumption.
  - destruct Ha as [(Hc & Hne & Hwf) Hr]. cbn [arms_of]. constructor.
    + apply cond_arm_ok; [destruct first; discriminate|apply expr_ok_blank; exact Hc|].
      apply wfx_list_items_nonempty; assumption.
    + apply IH; assumption.
Qed.

(* ------------------------------------------------------------------ the statements proved by the induction *)
Definition P_fails (f : option bool) (vs : store fo) (n : Z) (stm : stmt) (er : errcls) (a : bool) (ch : list Z) : Prop :=
  forall d cx rest acc s g F,
    R g F f vs s -> wfx stm -> fits d cx (nesting stm) -> head_ok rest ->
    fail_res cx g er a ch (exec_cmds fo (child_of d) cx (stmt_items n stm ++ rest) acc s).

Definition P_fails_list (f : option bool) (vs : store fo) (n : Z) (p : list stmt) (er : errcls) (a : bool) (ch : list Z) : Prop :=
  forall d cx acc s g F,
    R g F f vs s -> wfx_list p -> fits d cx (nesting_list p) ->
    fail_res cx g er a ch (exec_cmds fo (child_of d) cx (items_from n p) acc s).

Definition P_fails_arms (b : bool) (vs : store fo) (n : Z) (arms : list (str * list stmt)) (els : option (list stmt))
           (er : errcls) (a : bool) (ch : list Z) : Prop :=
  forall (first : bool) d cx rest acc s g F,
    (if first then exists f, R g F f vs s /\ b = flag_or_false f /\ arms <> []
     else R g F (Some false) vs s /\ b = false) ->
    all_list wfx_arm arms -> wfx_else els -> fits d cx (nest_arms arms els) ->
    fail_res cx g er a ch (exec_cmds fo (child_of d) cx (arms_items first n arms els ++ rest) acc s).

Definition P_fails_repeat (f : option bool) (c : option str) (e : str) (body : list stmt) (n k : Z)
           (vs : store fo) (er : errcls) (a : bool) (ch : list Z) : Prop :=
  forall d cx ctext fuel acc0 s g F,
    R g F f vs s -> s_line2 s = None ->
    CoreWf.counter_ok c -> body <> [] -> wfx_list body -> fits d cx (S (nesting_list body)) ->
    (loop_max - k < Z.of_nat fuel)%Z ->
    fail_res cx g er a ch
      (repeat_loop fo (child_of d) cx (ctext, n) fuel c e (items_from (n + 1)%Z body) k (mkCret acc0 SNormal) s).

Definition P_fails_while (c : option str) (e : str) (body : list stmt) (n k : Z)
           (vs : store fo) (er : errcls) (a : bool) (ch : list Z) : Prop :=
  forall d cx ctext fuel acc0 s g F f,
    R g F f vs s -> s_line2 s = None ->
    CoreWf.counter_ok c -> body <> [] -> wfx_list body -> fits d cx (S (nesting_list body)) ->
    (loop_max - k < Z.of_nat fuel)%Z ->
    fail_res cx g er a ch
      (while_loop fo (child_of d) cx (ctext, n) fuel c e (items_from (n + 1)%Z body) k (mkCret acc0 SNormal) s).

(* ------------------------------------------------------------------ a body that fails inside its block *)
Lemma body_block_err : forall d cx ctext n body setup pre s g F f vs inner er a ch,
  P_fails_list None inner (n + 1)%Z body er a ch ->
  R g F f vs s -> s_line2 s = None -> wfx_list body -> fits d cx (S (nesting_list body)) -> nodup_keys inner ->
  setup (mkEnv fo sys vs [] (upd_all F [])) = Ok (mkEnv fo sys inner [] (upd_all F [])) ->
  pre (mkEnv fo sys inner [] (upd_all F [])) = Ok true ->
  fail_res cx g er a (n :: ch)
    (run_child_with fo (child_of d) cx (ctext, n) (items_from (n + 1)%Z body) (c_file cx) false setup pre s).
Proof.
  intros d cx ctext n body setup pre s g F f vs inner er a ch IH HR Hl2 Hwf Hfit Hnd Hsetup Hpre.
  destruct (fits_S d cx _ Hfit) as (d' & -> & Hlim & Hfit').
  destruct (IH d' (inner_cx cx (ctext, n) None (c_file cx)) [] (state_of fo sys g (upd_all F []) None inner None)
               g (upd_all F []) (state_of_R fo sys g (upd_all F []) None inner None Hnd) Hwf
               (Hfit' (ctext, n) None (c_file cx)))
    as (s2 & tr & E & Hg2 & Hsh).
  pose proof HR as (H1 & _).
  exists (mkSt g (s_env s) (s_line2 s)), (mkFrame (c_file cx) (ctext, n) None :: tr).
  split; [|split; [reflexivity|constructor; exact Hsh]].
  unfold run_child_with. rewrite Hlim, (entry_env_R fo sys Hsys g F f vs s HR), Hsetup, Hpre.
  cbn [CoreRefine.child_of]. rewrite run_child_of. unfold run_with.
  unfold inner_cx, state_of in E. cbn [flag_var c_pile c_file] in E. rewrite Hl2, H1.
  cbn [c_opts c_fs] in E |- *. rewrite E, Hg2.
  unfold here. rewrite <- app_assoc. reflexivity.
Qed.

Lemma body_block_plain_err : forall d cx ctext n body s g F f vs er a ch,
  P_fails_list None vs (n + 1)%Z body er a ch ->
  R g F f vs s -> s_line2 s = None -> wfx_list body -> fits d cx (S (nesting_list body)) ->
  fail_res cx g er a (n :: ch)
    (run_child fo (child_of d) cx (ctext, n) (items_from (n + 1)%Z body) (c_file cx) false (fun e => Ok e) s).
Proof.
  intros d cx ctext n body s g F f vs er a ch IH HR Hl2 Hwf Hfit.
  unfold run_child. apply fail_res_bind.
  exact (body_block_err d cx ctext n body (fun e => Ok e) (fun _ => Ok true) s g F f vs vs er a ch
           IH HR Hl2 Hwf Hfit (R_nodup fo sys g F f vs s HR) eq_refl eq_refl).
Qed.

(* ------------------------------------------------------------------ simple statements *)
Lemma case_f_emit_eval : forall f vs n name e er,
  eval_err fo sys f vs e er -> P_fails f vs n (SEmitEval name e) er true [n].
Proof.
  intros f vs n name e er Hv d cx rest acc s g F HR Hwf _ Hh. destruct Hwf as [Hname He].
  cbn [stmt_items app].
  rewrite (emit_eval_line_err fo (child_of d) cx name e n rest acc s er Hname He Hh (err_R g F f vs s e er HR Hv)).
  apply (fail_res_here cret cx g er true). destruct HR as (H1 & _). exact H1.
Qed.

Lemma case_f_var_expr : forall f vs n x e er,
  eval_err fo sys f vs e er -> P_fails f vs n (SVar x e) er true [n].
Proof.
  intros f vs n x e er Hv d cx rest acc s g F HR Hwf _ Hh. destruct Hwf as [Hx He].
  cbn [stmt_items app].
  rewrite (var_line_expr_err fo (child_of d) cx x e n rest acc s er Hx He Hh (err_R g F f vs s e er HR Hv)).
  apply (fail_res_here cret cx g er true). destruct HR as (H1 & _). exact H1.
Qed.

Lemma case_f_var_name : forall f vs n x e v,
  eval fo sys f vs e v -> identb x = false -> P_fails f vs n (SVar x e) EUnacceptableVarName true [n].
Proof.
  intros f vs n x e v Hv Hid d cx rest acc s g F HR Hwf _ Hh. destruct Hwf as [Hx He].
  cbn [stmt_items app].
  rewrite (var_line_name_err fo (child_of d) cx x e n rest acc s v Hx He Hh (eval_R fo sys g F f vs s e v HR Hv) Hid).
  apply (fail_res_here cret cx g EUnacceptableVarName true). destruct HR as (H1 & _). exact H1.
Qed.

(* ------------------------------------------------------------------ statement lists *)
Lemma case_fl_here : forall f vs n s r er a ch,
  P_fails f vs n s er a ch -> P_fails_list f vs n (s :: r) er a ch.
Proof.
  intros f vs n stm r er a ch IH d cx acc s g F HR [Hwf Hwfr] Hfit.
  rewrite items_from_cons.
  exact (IH d cx (items_from (n + size stm)%Z r) acc s g F HR Hwf
            (fits_le d cx _ _ Hfit (Nat.le_max_l _ _)) (items_from_head r _)).
Qed.

Lemma case_fl_later : forall f vs n s r f1 vs1 o1 er a ch,
  exec fo sys f vs s Normal f1 vs1 o1 -> names_ok s ->
  P_fails_list f1 vs1 (n + size s)%Z r er a ch -> P_fails_list f vs n (s :: r) er a ch.
Proof.
  intros f vs n stm r f1 vs1 o1 er a ch Hex Hnm IH d cx acc s g F HR [Hwf Hwfr] Hfit.
  rewrite items_from_cons.
  destruct (refine_all fo sys Hsys) as (Hexec & _).
  destruct (Hexec f vs stm Normal f1 vs1 o1 Hex d cx n (items_from (n + size stm)%Z r) acc s g F HR
              (wf_of_wfx stm Hwf Hnm) (fits_le d cx _ _ Hfit (Nat.le_max_l _ _)) (items_from_head r _))
    as (s1 & ol1 & HR1 & _ & E1).
  rewrite E1. cbn [continue_with].
  exact (IH d cx (acc ++ ol1) s1 g F HR1 Hwfr (fits_le d cx _ _ Hfit (Nat.le_max_r _ _))).
Qed.

(* ------------------------------------------------------------------ REPEAT *)
Lemma case_fr_count : forall f c e body n k vs er,
  eval_err fo sys f vs e er -> P_fails_repeat f c e body n k vs er false [n].
Proof.
  intros f c e body n k vs er Hv d cx ctext fuel acc0 s g F HR Hl2 _ _ _ _ _.
  pose proof (tokenize_count_err_eval fo cx (ctext, n) e s er (err_R g F f vs s e er HR Hv)) as Htc.
  rewrite Hl2 in Htc.
  destruct fuel; cbn [repeat_loop]; unfold bindM at 1; rewrite Htc;
    apply (fail_res_here cret cx g er false); destruct HR as (H1 & _); exact H1.
Qed.

Lemma case_fr_notcount : forall f c e body n k vs v,
  eval fo sys f vs e v -> count_of fo v = None -> P_fails_repeat f c e body n k vs EInvalidArguments false [n].
Proof.
  intros f c e body n k vs v Hv Hn d cx ctext fuel acc0 s g F HR Hl2 _ _ _ _ _.
  pose proof (tokenize_count_err_kind fo cx (ctext, n) e s v (eval_R fo sys g F f vs s e v HR Hv) Hn) as Htc.
  rewrite Hl2 in Htc.
  destruct fuel; cbn [repeat_loop]; unfold bindM at 1; rewrite Htc;
    apply (fail_res_here cret cx g EInvalidArguments false); destruct HR as (H1 & _); exact H1.
Qed.

Lemma case_fr_range : forall f c e body n k vs v m,
  eval fo sys f vs e v -> count_of fo v = Some m -> ~ (0 <= m <= loop_max)%Z ->
  P_fails_repeat f c e body n k vs EInvalidArguments false [n].
Proof.
  intros f c e body n k vs v m Hv Hn Hr d cx ctext fuel acc0 s g F HR Hl2 _ _ _ _ _.
  pose proof (tokenize_count_err_range fo cx (ctext, n) e s v m (eval_R fo sys g F f vs s e v HR Hv) Hn Hr) as Htc.
  rewrite Hl2 in Htc.
  destruct fuel; cbn [repeat_loop]; unfold bindM at 1; rewrite Htc;
    apply (fail_res_here cret cx g EInvalidArguments false); destruct HR as (H1 & _); exact H1.
Qed.

Lemma case_fr_body : forall f c e body n k vs v m er a ch,
  eval fo sys f vs e v -> count_of fo v = Some m -> (0 <= m <= loop_max)%Z -> (k < m)%Z ->
  P_fails_list None (with_counter fo c k vs) (n + 1)%Z body er a ch ->
  P_fails_repeat f c e body n k vs er a (n :: ch).
Proof.
  intros f c e body n k vs v m er a ch Hv Hn Hrange Hk IHb d cx ctext fuel acc0 s g F HR Hl2 Hc Hne Hwf Hfit Hfuel.
  pose proof (tokenize_count_ok fo cx (ctext, n) e s v m (eval_R fo sys g F f vs s e v HR Hv) Hn Hrange) as Htc.
  assert (Hlt : (k <? m)%Z = true) by (apply Z.ltb_lt; lia).
  destruct fuel as [|fuel']; [unfold loop_max in *; lia|].
  cbn [repeat_loop]. unfold bindM at 1. rewrite Htc, Hlt. apply fail_res_bind.
  unfold run_child. apply fail_res_bind.
  exact (body_block_err d cx ctext n body (bind_counter fo c k) (fun _ => Ok true) s g F f vs
           (with_counter fo c k vs) er a ch IHb HR Hl2 Hwf Hfit
           (nodup_with_counter fo c k vs (R_nodup fo sys g F f vs s HR))
           (bind_counter_entry fo sys c k vs _ Hc) eq_refl).
Qed.

Lemma case_fr_iter : forall f c e body n k vs v m sg f1 vs1 o1 er a ch,
  eval fo sys f vs e v -> count_of fo v = Some m -> (0 <= m <= loop_max)%Z -> (k < m)%Z ->
  exec_list fo sys None (with_counter fo c k vs) body sg f1 vs1 o1 -> sg <> Broke ->
  names_ok_list body ->
  P_fails_repeat f c e body n (k + 1)%Z (copy_back fo vs vs1) er a ch ->
  P_fails_repeat f c e body n k vs er a ch.
Proof.
  intros f c e body n k vs v m sg f1 vs1 o1 er a ch Hv Hn Hrange Hk Hex Hsg Hnm IHr
         d cx ctext fuel acc0 s g F HR Hl2 Hc Hne Hwf Hfit Hfuel.
  pose proof (tokenize_count_ok fo cx (ctext, n) e s v m (eval_R fo sys g F f vs s e v HR Hv) Hn Hrange) as Htc.
  assert (Hlt : (k <? m)%Z = true) by (apply Z.ltb_lt; lia).
  destruct fuel as [|fuel']; [unfold loop_max in *; lia|].
  destruct (refine_all fo sys Hsys) as (_ & Hlist & _).
  destruct (body_block_counter fo sys Hsys d cx (ctext, n) (n + 1)%Z body c k s g F f vs sg f1 vs1 o1
              (Hlist _ _ _ _ _ _ _ Hex) HR Hc (wf_list_of_wfx body Hwf Hnm) Hfit)
    as (s1 & ol1 & HR1 & Hl1 & Ho1 & Hrun).
  cbn [repeat_loop]. unfold bindM at 1. rewrite Htc, Hlt. unfold bindM at 1. rewrite Hrun.
  cbn [cr_sig cr_data].
  assert (Hls : loop_signal (sig_of sg) = (SNormal, false)) by (destruct sg; [reflexivity|contradiction|reflexivity]).
  rewrite Hls.
  apply (IHr d cx ctext fuel' (acc0 ++ ol1) s1 g F HR1); try assumption; [rewrite Hl1; exact Hl2|lia].
Qed.

(* ------------------------------------------------------------------ WHILE *)
Lemma while_limit_hit : forall k, (loop_max < k)%Z -> cmp_eval while_limit_op k while_limit = true.
Proof.
  intros k H. unfold while_limit_op, while_limit, loop_max in *. cbn [cmp_eval]. apply Z.ltb_lt. lia.
Qed.

Lemma case_fw_limit : forall c e body n k vs,
  (loop_max < k)%Z -> P_fails_while c e body n k vs EExceededLimit false [n].
Proof.
  intros c e body n k vs Hk d cx ctext fuel acc0 s g F f HR Hl2 _ _ _ _ _.
  destruct fuel; cbn [while_loop]; rewrite (while_limit_hit k Hk); unfold raise; rewrite Hl2;
    apply (fail_res_here cret cx g EExceededLimit false); destruct HR as (H1 & _); exact H1.
Qed.

Lemma while_cond_err : forall e inner F' er,
  nodup_keys inner -> eval_err fo sys None inner e er ->
  while_cond fo e (mkEnv fo sys inner [] F') = Err er.
Proof.
  intros e inner F' er Hnd Hv. unfold while_cond.
  change (mkEnv fo sys inner [] F') with (s_env (state_of fo sys (mkGlob [] []) F' None inner None)).
  rewrite (all_vars_R fo sys _ F' None inner _ (state_of_R fo sys (mkGlob [] []) F' None inner None Hnd)).
  unfold eval_err in Hv. rewrite Hv. reflexivity.
Qed.

Lemma case_fw_cond : forall c e body n k vs er,
  (k <= loop_max)%Z -> eval_err fo sys None (with_counter fo c k vs) e er ->
  P_fails_while c e body n k vs er false [n].
Proof.
  intros c e body n k vs er Hk Hv d cx ctext fuel acc0 s g F f HR Hl2 Hc Hne Hwf Hfit Hfuel.
  destruct fuel as [|fuel']; [lia|].
  destruct (fits_S d cx _ Hfit) as (d' & -> & Hlim & _).
  pose proof (nodup_with_counter fo c k vs (R_nodup fo sys g F f vs s HR)) as Hnd.
  cbn [while_loop]. rewrite (while_limit_ok k Hk). apply fail_res_bind. fold (while_cond fo e).
  unfold run_child_with.
  rewrite Hlim, (entry_env_R fo sys Hsys g F f vs s HR), (bind_counter_entry fo sys c k vs _ Hc),
          (while_cond_err e _ _ er Hnd Hv), Hl2.
  apply (fail_res_here (option cret) cx g er false). destruct HR as (H1 & _). exact H1.
Qed.

Lemma case_fw_body : forall c e body n k vs v er a ch,
  (k <= loop_max)%Z -> eval fo sys None (with_counter fo c k vs) e v -> truthy fo v = true ->
  P_fails_list None (with_counter fo c k vs) (n + 1)%Z body er a ch ->
  P_fails_while c e body n k vs er a (n :: ch).
Proof.
  intros c e body n k vs v er a ch Hk Hv Ht IHb d cx ctext fuel acc0 s g F f HR Hl2 Hc Hne Hwf Hfit Hfuel.
  destruct fuel as [|fuel']; [lia|].
  pose proof (nodup_with_counter fo c k vs (R_nodup fo sys g F f vs s HR)) as Hnd.
  cbn [while_loop]. rewrite (while_limit_ok k Hk). apply fail_res_bind. fold (while_cond fo e).
  apply (body_block_err d cx ctext n body (bind_counter fo c k) (while_cond fo e) s g F f vs
           (with_counter fo c k vs) er a ch IHb HR Hl2 Hwf Hfit Hnd (bind_counter_entry fo sys c k vs _ Hc)).
  rewrite (while_cond_eval fo sys e _ _ v Hnd Hv), Ht. reflexivity.
Qed.

Lemma case_fw_iter : forall c e body n k vs v sg f1 vs1 o1 er a ch,
  (k <= loop_max)%Z -> eval fo sys None (with_counter fo c k vs) e v -> truthy fo v = true ->
  exec_list fo sys None (with_counter fo c k vs) body sg f1 vs1 o1 -> sg <> Broke ->
  names_ok_list body ->
  P_fails_while c e body n (k + 1)%Z (copy_back fo vs vs1) er a ch ->
  P_fails_while c e body n k vs er a ch.
Proof.
  intros c e body n k vs v sg f1 vs1 o1 er a ch Hk Hv Ht Hex Hsg Hnm IHw
         d cx ctext fuel acc0 s g F f HR Hl2 Hc Hne Hwf Hfit Hfuel.
  destruct fuel as [|fuel']; [lia|].
  destruct (refine_all fo sys Hsys) as (_ & Hlist & _).
  destruct (while_body_block fo sys Hsys d cx (ctext, n) (n + 1)%Z body c e k s g F f vs v sg f1 vs1 o1
              (Hlist _ _ _ _ _ _ _ Hex) Hv Ht HR Hc (wf_list_of_wfx body Hwf Hnm) Hfit)
    as (s1 & ol1 & HR1 & Hl1 & Ho1 & Hrun).
  cbn [while_loop]. rewrite (while_limit_ok k Hk). unfold bindM at 1. fold (while_cond fo e). rewrite Hrun.
  cbn [cr_sig cr_data].
  assert (Hls : loop_signal (sig_of sg) = (SNormal, false)) by (destruct sg; [reflexivity|contradiction|reflexivity]).
  rewrite Hls.
  apply (IHw d cx ctext fuel' (acc0 ++ ol1) s1 g F f HR1); try assumption; [rewrite Hl1; exact Hl2|lia].
Qed.

(* ------------------------------------------------------------------ the loop lines *)
Lemma case_f_repeat : forall f vs n c e body er a ch,
  P_fails_repeat f c e body n 0 vs er a ch -> P_fails f vs n (SRepeat c e body) er a ch.
Proof.
  intros f vs n c e body er a ch IH d cx rest acc s g F HR Hwf Hfit Hh.
  destruct Hwf as (Hc & He & Hne & Hwf).
  destruct (loop_arg_facts c e Hc He) as (Hblank & Hstrip & Hsplit & Hcok).
  pose proof (wfx_list_items_nonempty body (n + 1)%Z Hne Hwf) as Hine.
  rewrite <- Hstrip in Hsplit.
  assert (E : exec_cmds fo (child_of d) cx (stmt_items n (SRepeat c e body) ++ rest) acc s =
              bindM fo (repeat_loop fo (child_of d) cx (kw_REPEAT ++ sp :: loop_arg c e, n) loop_fuel c e
                          (items_from (n + 1)%Z body) 0 (mkCret [] SNormal))
                    (after_branch fo (child_of d) cx rest acc) (clear_line2 fo s))
    by exact (repeat_line_lemma fo (child_of d) cx (loop_arg c e) n (items_from (n + 1)%Z body) rest acc s c e
                Hblank Hine Hsplit Hcok).
  rewrite E. apply fail_res_bind.
  exact (IH d cx (kw_REPEAT ++ sp :: loop_arg c e) loop_fuel [] (clear_line2 fo s) g F
            (R_clear fo sys g F f vs s HR) eq_refl Hc Hne Hwf Hfit loop_fuel_enough).
Qed.

Lemma case_f_while : forall f vs n c e body er a ch,
  P_fails_while c e body n 0 vs er a ch -> P_fails f vs n (SWhile c e body) er a ch.
Proof.
  intros f vs n c e body er a ch IH d cx rest acc s g F HR Hwf Hfit Hh.
  destruct Hwf as (Hc & He & Hne & Hwf).
  destruct (loop_arg_facts c e Hc He) as (Hblank & Hstrip & Hsplit & Hcok).
  pose proof (wfx_list_items_nonempty body (n + 1)%Z Hne Hwf) as Hine.
  rewrite <- Hstrip in Hsplit.
  assert (E : exec_cmds fo (child_of d) cx (stmt_items n (SWhile c e body) ++ rest) acc s =
              bindM fo (while_loop fo (child_of d) cx (kw_WHILE ++ sp :: loop_arg c e, n) loop_fuel c e
                          (items_from (n + 1)%Z body) 0 (mkCret [] SNormal))
                    (after_branch fo (child_of d) cx rest acc) (clear_line2 fo s))
    by exact (while_line_lemma fo (child_of d) cx (loop_arg c e) n (items_from (n + 1)%Z body) rest acc s c e
                Hblank Hine Hsplit).
  rewrite E. apply fail_res_bind.
  exact (IH d cx (kw_WHILE ++ sp :: loop_arg c e) loop_fuel [] (clear_line2 fo s) g F f
            (R_clear fo sys g F f vs s HR) eq_refl Hc Hne Hwf Hfit loop_fuel_enough).
Qed.

(* ------------------------------------------------------------------ IF chains *)
(* after the taken arm: the ELIFs whose condition evaluates are skipped, the first that does not fails *)
Lemma later_err : forall vsx n rest er m,
  later_fails fo sys vsx n rest er m ->
  forall d cx g F s' els tail acc,
    R g F (Some true) vsx s' -> s_line2 s' = None -> all_list wfx_arm rest ->
    fail_res cx g er false [m]
      (exec_cmds fo (child_of d) cx (chain_items (arms_of false n rest els) ++ tail) acc s').
Proof.
  intros vsx n rest er m H.
  induction H as [n c body rest er Hv|n c body rest v er m Hv Hl IH];
    intros d cx g F s' els tail acc HR Hl2 Hwf;
    destruct if_family_dispatch as [bc [Hbc Hd]];
    destruct Hwf as [(Hc & Hbne & Hwfb) Hwfr];
    cbn [arms_of chain_items flat_map];
    fold (chain_items (arms_of false (n + 1 + sum_sizes size body)%Z rest els));
    rewrite <- app_assoc;
    set (a1 := cond_arm AElif c n (items_from (n + 1)%Z body));
    assert (Hok1 : arm_ok a1)
      by (apply cond_arm_ok; [discriminate|apply expr_ok_blank; exact Hc|apply wfx_list_items_nonempty; assumption]).
  - pose proof (R_clear fo sys g F (Some true) vsx s' HR) as HRc.
    rewrite (arm_cond_err fo (child_of d) cx bc a1 _ acc s' er Hbc Hd Hok1).
    + apply (fail_res_here cret cx g er false (a_line a1) n). rewrite ensure_flag_g. destruct HR as (H1 & _). exact H1.
    + discriminate.
    + apply cond_errs_cond_arm; [apply expr_ok_blank; exact Hc|]. rewrite (expr_ok_strip c Hc).
      rewrite (R_ensure_id fo sys g F true vsx _ HRc). exact (err_R g F (Some true) vsx _ c er HRc Hv).
  - pose proof (skip_later fo (child_of d) cx bc Hbc Hd [a1]
                  (chain_items (arms_of false (n + 1 + sum_sizes size body)%Z rest els) ++ tail) acc s') as E.
    cbn [chain_items flat_map] in E. rewrite app_nil_r in E. rewrite E.
    + exact (IH d cx g F s' els tail acc HR Hl2 Hwfr).
    + constructor; [exact Hok1|constructor].
    + constructor; [apply non_if_elif|constructor].
    + exact (R_flag_of fo sys g F true vsx s' HR).
    + exact Hl2.
    + constructor; [|constructor]. exists (truthy fo v).
      exact (cond_evals fo sys g F (Some true) vsx s' AElif c n _ v HR Hc Hv).
Qed.

Lemma case_fa_cond : forall b vs n c body rest els er,
  eval_err fo sys (Some b) vs c er -> P_fails_arms b vs n ((c, body) :: rest) els er false [n].
Proof.
  intros b vs n c body rest els er Hv first d cx tail acc s g F Hfirst Hwfa Hwfe Hfit.
  destruct if_family_dispatch as [bc [Hbc Hd]].
  destruct Hwfa as [(Hc & Hbne & Hwfb) Hwfr].
  rewrite arms_items_chain. cbn [arms_of chain_items flat_map].
  fold (chain_items (arms_of false (n + 1 + sum_sizes size body)%Z rest els)).
  rewrite <- app_assoc.
  set (a1 := cond_arm (if first then AIf else AElif) c n (items_from (n + 1)%Z body)).
  assert (Hok1 : arm_ok a1).
  { apply cond_arm_ok; [destruct first; discriminate|apply expr_ok_blank; exact Hc|].
    apply wfx_list_items_nonempty; assumption. }
  assert (HRe : R g F (Some b) vs (ensure_flag fo (clear_line2 fo s))).
  { destruct first.
    - destruct Hfirst as (f0 & HR & -> & _). apply R_ensure_flag. apply R_clear. exact HR.
    - destruct Hfirst as (HR & ->). pose proof (R_clear fo sys g F (Some false) vs s HR) as HRc.
      rewrite (R_ensure_id fo sys g F false vs _ HRc). exact HRc. }
  rewrite (arm_cond_err fo (child_of d) cx bc a1 _ acc s er Hbc Hd Hok1).
  - apply (fail_res_here cret cx g er false (a_line a1) n). destruct HRe as (H1 & _). exact H1.
  - intro Hk. destruct first; discriminate Hk.
  - apply cond_errs_cond_arm; [apply expr_ok_blank; exact Hc|]. rewrite (expr_ok_strip c Hc).
    exact (err_R g F (Some b) vs _ c er HRe Hv).
Qed.

(* the arm whose condition is true is entered: Stack.run reaches the block of that arm *)
Lemma enter_arm : forall (first : bool) d cx n c body later tail acc s g F b vs v,
  (if first then exists f, R g F f vs s /\ b = flag_or_false f
   else R g F (Some false) vs s /\ b = false) ->
  expr_ok c -> body <> [] -> wfx_list body ->
  Forall arm_ok later -> Forall non_if later ->
  eval fo sys (Some b) vs c v -> truthy fo v = true ->
  let a1 := cond_arm (if first then AIf else AElif) c n (items_from (n + 1)%Z body) in
  exists sT, R g F (Some true) vs sT /\ s_line2 sT = None /\
    exec_cmds fo (child_of d) cx (arm_items a1 ++ chain_items later ++ tail) acc s =
    take_arm fo (child_of d) cx a1 (chain_items later ++ tail) acc sT.
Proof.
  intros first d cx n c body later tail acc s g F b vs v Hfirst Hc Hbne Hwfb Hokl Hnil Hv Ht a1.
  destruct if_family_dispatch as [bc [Hbc Hd]].
  assert (Hok1 : arm_ok a1).
  { apply cond_arm_ok; [destruct first; discriminate|apply expr_ok_blank; exact Hc|].
    apply wfx_list_items_nonempty; assumption. }
  destruct first.
  - destruct Hfirst as (f0 & HR & ->).
    exists (with_flag fo true (clear_line2 fo s)). split; [apply (R_with_flag fo sys g F f0); exact HR|]. split; [reflexivity|].
    apply (if_arm_true fo (child_of d) cx bc Hbc Hd a1 _ acc s Hok1 eq_refl).
    rewrite <- Ht. apply (cond_evals fo sys g F (Some (flag_or_false f0)) vs); [|exact Hc|exact Hv].
    apply R_ensure_flag. exact HR.
  - destruct Hfirst as (HR & ->).
    exists (with_flag fo true (clear_line2 fo s)). split; [apply (R_with_flag fo sys g F (Some false)); exact HR|]. split; [reflexivity|].
    unfold arm_items. cbn [app]. rewrite exec_cmds_clear by (apply arm_line_nonblank; exact Hok1).
    apply (search_take fo (child_of d) cx bc Hbc Hd [] a1 later tail acc (clear_line2 fo s)).
    + cbn [app]. constructor; [exact Hok1|exact Hokl].
    + cbn [app]. constructor; [apply non_if_elif|exact Hnil].
    + exact (R_flag_of fo sys g F false vs (clear_line2 fo s) HR).
    + exact (R_ensure_id fo sys g F false vs (clear_line2 fo s) HR).
    + reflexivity.
    + constructor.
    + rewrite <- Ht. apply (cond_evals fo sys g F (Some false) vs); [exact HR|exact Hc|exact Hv].
Qed.

Lemma first_hyp_weaken : forall (first : bool) g F b vs s (arms : list (str * list stmt)),
  (if first then exists f, R g F f vs s /\ b = flag_or_false f /\ arms <> []
   else R g F (Some false) vs s /\ b = false) ->
  (if first then exists f, R g F f vs s /\ b = flag_or_false f
   else R g F (Some false) vs s /\ b = false).
Proof. intros [|] g F b vs s arms H; [destruct H as (f & H1 & H2 & _); exists f; split; assumption|exact H]. Qed.

Lemma case_fa_body : forall b vs n c body rest els v er a ch,
  eval fo sys (Some b) vs c v -> truthy fo v = true ->
  P_fails_list None vs (n + 1)%Z body er a ch ->
  P_fails_arms b vs n ((c, body) :: rest) els er a (n :: ch).
Proof.
  intros b vs n c body rest els v er a ch Hv Ht IHb first d cx tail acc s g F Hfirst Hwfa Hwfe Hfit.
  destruct Hwfa as [(Hc & Hbne & Hwfb) Hwfr].
  rewrite arms_items_chain. cbn [arms_of chain_items flat_map].
  fold (chain_items (arms_of false (n + 1 + sum_sizes size body)%Z rest els)).
  rewrite <- app_assoc.
  destruct (enter_arm first d cx n c body (arms_of false (n + 1 + sum_sizes size body)%Z rest els) tail acc s g F b vs v
              (first_hyp_weaken first g F b vs s _ Hfirst) Hc Hbne Hwfb
              (arms_okx rest false _ els Hwfr Hwfe) (arms_non_if rest _ els) Hv Ht) as (sT & HRT & HlT & Hstep).
  rewrite Hstep. unfold take_arm. apply fail_res_bind.
  exact (body_block_plain_err d cx _ n body sT g F (Some true) vs er a ch IHb HRT HlT Hwfb
           (fits_le d cx _ _ Hfit (nest_arms_cons_body c body rest els))).
Qed.

Lemma case_fa_later : forall b vs n c body rest els v f1 vs1 out er m,
  eval fo sys (Some b) vs c v -> truthy fo v = true ->
  exec_list fo sys None vs body Normal f1 vs1 out -> names_ok_list body ->
  later_fails fo sys (copy_back fo vs vs1) (n + 1 + sum_sizes size body)%Z rest er m ->
  P_fails_arms b vs n ((c, body) :: rest) els er false [m].
Proof.
  intros b vs n c body rest els v f1 vs1 out er m Hv Ht Hex Hnm Hlater first d cx tail acc s g F Hfirst Hwfa Hwfe Hfit.
  destruct Hwfa as [(Hc & Hbne & Hwfb) Hwfr].
  rewrite arms_items_chain. cbn [arms_of chain_items flat_map].
  fold (chain_items (arms_of false (n + 1 + sum_sizes size body)%Z rest els)).
  rewrite <- app_assoc.
  destruct (enter_arm first d cx n c body (arms_of false (n + 1 + sum_sizes size body)%Z rest els) tail acc s g F b vs v
              (first_hyp_weaken first g F b vs s _ Hfirst) Hc Hbne Hwfb
              (arms_okx rest false _ els Hwfr Hwfe) (arms_non_if rest _ els) Hv Ht) as (sT & HRT & HlT & Hstep).
  rewrite Hstep.
  destruct (refine_all fo sys Hsys) as (_ & Hlist & _).
  destruct (body_block_plain fo sys Hsys d cx
              (kw_of (if first then AIf else AElif) ++ 32%N :: c, n) (n + 1)%Z body sT g F (Some true) vs
              Normal f1 vs1 out (Hlist _ _ _ _ _ _ _ Hex) HRT (wf_list_of_wfx body Hwfb Hnm)
              (fits_le d cx _ _ Hfit (nest_arms_cons_body c body rest els)))
    as (s' & ol & HR' & Hl' & Ho & Hrun).
  unfold take_arm. unfold bindM at 1.
  match goal with |- context [run_child ?a1 ?a2 ?a3 ?a4 ?a5 ?a6 ?a7 ?a8 ?a9] =>
    replace (run_child a1 a2 a3 a4 a5 a6 a7 a8 a9) with (s', @IOk cret (mkCret ol (sig_of Normal)))
      by (symmetry; exact Hrun) end.
  rewrite go_on_after_branch. change SNormal with (sig_of Normal). rewrite go_on_continue. cbn [continue_with].
  apply (later_err _ _ _ _ _ Hlater d cx g F s' els tail (acc ++ ol) HR'); [rewrite Hl'; exact HlT|exact Hwfr].
Qed.

Lemma case_fa_skip : forall b vs n c body rest els v er a ch,
  eval fo sys (Some b) vs c v -> truthy fo v = false ->
  P_fails_arms false vs (n + 1 + sum_sizes size body)%Z rest els er a ch ->
  P_fails_arms b vs n ((c, body) :: rest) els er a ch.
Proof.
  intros b vs n c body rest els v er a ch Hv Ht IH first d cx tail acc s g F Hfirst Hwfa Hwfe Hfit.
  destruct if_family_dispatch as [bc [Hbc Hd]].
  destruct Hwfa as [(Hc & Hbne & Hwfb) Hwfr].
  rewrite arms_items_chain. cbn [arms_of chain_items flat_map].
  fold (chain_items (arms_of false (n + 1 + sum_sizes size body)%Z rest els)).
  rewrite <- app_assoc. rewrite <- arms_items_chain.
  set (a1 := cond_arm (if first then AIf else AElif) c n (items_from (n + 1)%Z body)).
  assert (Hok1 : arm_ok a1).
  { apply cond_arm_ok; [destruct first; discriminate|apply expr_ok_blank; exact Hc|].
    apply wfx_list_items_nonempty; assumption. }
  assert (Hstep : exists s1, R g F (Some false) vs s1 /\
            forall T, exec_cmds fo (child_of d) cx (arm_items a1 ++ T) acc s = exec_cmds fo (child_of d) cx T acc s1).
  { destruct first.
    - destruct Hfirst as (f0 & HR & -> & _).
      exists (with_flag fo false (clear_line2 fo s)). split; [apply (R_with_flag fo sys g F f0); exact HR|]. intro T.
      apply (if_arm_false fo (child_of d) cx bc Hbc Hd a1 T acc s Hok1 eq_refl).
      rewrite <- Ht. apply (cond_evals fo sys g F (Some (flag_or_false f0)) vs); [|exact Hc|exact Hv].
      apply R_ensure_flag. exact HR.
    - destruct Hfirst as (HR & ->).
      exists (clear_line2 fo s). split; [exact HR|]. intro T.
      unfold arm_items. cbn [app]. rewrite exec_cmds_clear by (apply arm_line_nonblank; exact Hok1).
      apply (search_none fo (child_of d) cx bc Hbc Hd [a1] T acc (clear_line2 fo s)).
      + constructor; [exact Hok1|constructor].
      + constructor; [apply non_if_elif|constructor].
      + exact (R_flag_of fo sys g F false vs (clear_line2 fo s) HR).
      + exact (R_ensure_id fo sys g F false vs (clear_line2 fo s) HR).
      + reflexivity.
      + constructor; [|constructor]. rewrite <- Ht.
        apply (cond_evals fo sys g F (Some false) vs); [exact HR|exact Hc|exact Hv]. }
  destruct Hstep as (s1 & HR1 & Hstep). rewrite Hstep.
  apply (IH false d cx tail acc s1 g F (conj HR1 eq_refl) Hwfr Hwfe
           (fits_le d cx _ _ Hfit (nest_arms_cons_rest c body rest els))).
Qed.

Lemma case_fa_else : forall b vs n body er a ch,
  P_fails_list None vs (n + 1)%Z body er a ch ->
  P_fails_arms b vs n [] (Some body) er a (n :: ch).
Proof.
  intros b vs n body er a ch IHb first d cx tail acc s g F Hfirst _ Hwfe Hfit.
  destruct if_family_dispatch as [bc [Hbc Hd]].
  destruct first; [destruct Hfirst as (f0 & _ & _ & Hne); contradiction|].
  destruct Hfirst as (HR & ->). destruct Hwfe as [Hbne Hwfb].
  rewrite arms_items_chain. cbn [arms_of].
  set (a1 := else_arm n (items_from (n + 1)%Z body)).
  assert (Hok1 : arm_ok a1) by (apply else_arm_ok; apply wfx_list_items_nonempty; assumption).
  assert (Hstep : exec_cmds fo (child_of d) cx (chain_items [a1] ++ tail) acc s =
                  take_arm fo (child_of d) cx a1 (chain_items (arms_of false 0%Z [] None) ++ tail) acc
                           (with_flag fo true (clear_line2 fo s))).
  { cbn [chain_items flat_map arm_items app]. rewrite exec_cmds_clear by (apply arm_line_nonblank; exact Hok1).
    apply (search_take fo (child_of d) cx bc Hbc Hd [] a1 [] tail acc (clear_line2 fo s)).
    + constructor; [exact Hok1|constructor].
    + constructor; [apply non_if_else|constructor].
    + exact (R_flag_of fo sys g F false vs (clear_line2 fo s) HR).
    + exact (R_ensure_id fo sys g F false vs (clear_line2 fo s) HR).
    + reflexivity.
    + constructor.
    + apply evals_else_arm. reflexivity. }
  rewrite Hstep. unfold take_arm. apply fail_res_bind.
  exact (body_block_plain_err d cx _ n body _ g F (Some true) vs er a ch IHb
           (R_with_flag fo sys g F (Some false) vs (clear_line2 fo s) true HR) eq_refl Hwfb
           (fits_le d cx _ _ Hfit (nest_arms_else body))).
Qed.

Lemma case_f_if : forall f vs n arms els er a ch,
  P_fails_arms (flag_or_false f) vs n arms els er a ch -> P_fails f vs n (SIf arms els) er a ch.
Proof.
  intros f vs n arms els er a ch IH d cx rest acc s g F HR Hwf Hfit _.
  apply wfx_if_unfold in Hwf. destruct Hwf as (Hne & Hwfa & Hwfe).
  rewrite stmt_items_if.
  apply (IH true d cx rest acc s g F); [|exact Hwfa|exact Hwfe|exact Hfit].
  exists f. split; [exact HR|]. split; [reflexivity|exact Hne].
Qed.

(* ------------------------------------------------------------------ the induction *)
Theorem refine_fails_all :
  (forall f vs n stm er a ch, fails fo sys f vs n stm er a ch -> P_fails f vs n stm er a ch) /\
  (forall f vs n p er a ch, fails_list fo sys f vs n p er a ch -> P_fails_list f vs n p er a ch) /\
  (forall b vs n arms els er a ch, fails_arms fo sys b vs n arms els er a ch -> P_fails_arms b vs n arms els er a ch) /\
  (forall f c e body n k vs er a ch, fails_repeat fo sys f c e body n k vs er a ch -> P_fails_repeat f c e body n k vs er a ch) /\
  (forall c e body n k vs er a ch, fails_while fo sys c e body n k vs er a ch -> P_fails_while c e body n k vs er a ch).
Proof.
  apply (fails_all_mind fo sys P_fails P_fails_list P_fails_arms P_fails_repeat P_fails_while).
  - intros. apply case_f_emit_eval; assumption.
  - intros. apply case_f_var_expr; assumption.
  - intros. eapply case_f_var_name; eassumption.
  - intros. apply case_f_if; assumption.
  - intros. apply case_f_repeat; assumption.
  - intros. apply case_f_while; assumption.
  - intros. apply case_fl_here; assumption.
  - intros. eapply case_fl_later; eassumption.
  - intros. apply case_fa_cond; assumption.
  - intros. eapply case_fa_body; eassumption.
  - intros. eapply case_fa_later; eassumption.
  - intros. eapply case_fa_skip; eassumption.
  - intros. apply case_fa_else; assumption.
  - intros. apply case_fr_count; assumption.
  - intros. eapply case_fr_notcount; eassumption.
  - intros. eapply case_fr_range; eassumption.
  - intros. eapply case_fr_body; eassumption.
  - intros. eapply case_fr_iter; eassumption.
  - intros. apply case_fw_limit; assumption.
  - intros. apply case_fw_cond; assumption.
  - intros. eapply case_fw_body; eassumption.
  - intros. eapply case_fw_iter; eassumption.
Qed.

(* ------------------------------------------------------------------ Stack.run of a whole program *)
Theorem refine_fails_exec_cmds : forall f vs n p er a ch d cx acc s g F,
  fails_list fo sys f vs n p er a ch ->
  wfx_list p -> fits d cx (nesting_list p) -> R g F f vs s ->
  exists s' tr, s_g s' = g /\ shape (c_file cx) a ch tr /\
    exec_cmds fo (child_of d) cx (items_from n p) acc s = (s', IErr er (Some (c_pile cx ++ tr))).
Proof.
  intros f vs n p er a ch d cx acc s g F Hf Hwf Hfit HR.
  destruct refine_fails_all as (_ & Hl & _).
  destruct (Hl f vs n p er a ch Hf d cx acc s g F HR Hwf Hfit) as (s' & tr & E & Hg & Hsh).
  exists s', tr. split; [exact Hg|]. split; [exact Hsh|exact E].
Qed.

Theorem refine_fails_run : forall vs n p er a ch d cx g F,
  fails_list fo sys None vs n p er a ch ->
  wfx_list p -> fits d cx (nesting_list p) -> nodup_keys vs ->
  exists tr, shape (c_file cx) a ch tr /\
    run fo d cx g (mkEnv fo sys vs [] F) (items_from n p) = (g, IErr er (Some (c_pile cx ++ tr))).
Proof.
  intros vs n p er a ch d cx g F Hf Hwf Hfit Hnd.
  destruct (refine_fails_exec_cmds None vs n p er a ch d cx [] (state_of fo sys g F None vs None) g F Hf Hwf Hfit
              (state_of_R fo sys g F None vs None Hnd)) as (s' & tr & Hg & Hsh & E).
  exists tr. split; [exact Hsh|].
  rewrite run_child_of. unfold run_with. unfold state_of in E. cbn [flag_var] in E. rewrite E, Hg. reflexivity.
Qed.

End Refine.

(* ================================================================== Compiler.compile *)
Section Top.
Variable fo : FloatOps.

Theorem refine_fails_compile_items : forall o fs file p er a ch,
  fails_prog fo p er a ch -> wfx_list p -> (Z.of_nat (nesting_list p) < stack_limit o)%Z ->
  exists tr, shape file a ch tr /\
    compile_items fo o fs file (items_of p) = (mkGlob [] [], IErr er (Some tr)).
Proof.
  intros o fs file p er a ch Hf Hwf Hnest. unfold fails_prog in Hf.
  assert (Hfit : fits (run_depth o) (mkCtx o fs [] file) (nesting_list p)).
  { unfold fits, run_depth. cbn [c_pile c_opts length]. split; lia. }
  destruct (refine_fails_run fo (initial_sys fo) (initial_sys_nodup fo) [] 1%Z p er a ch (run_depth o)
              (mkCtx o fs [] file) (mkGlob [] []) [] Hf Hwf Hfit) as (tr & Hsh & E).
  { constructor. }
  exists tr. split; [exact Hsh|].
  unfold compile_items. rewrite initial_env_eq. unfold items_of. rewrite E. reflexivity.
Qed.

(* the readable consequences of [shape] *)
Corollary refine_fails_compile_items_chain : forall o fs file p er a ch,
  fails_prog fo p er a ch -> wfx_list p -> (Z.of_nat (nesting_list p) < stack_limit o)%Z ->
  exists tr,
    compile_items fo o fs file (items_of p) = (mkGlob [] [], IErr er (Some tr)) /\
    map (fun fr => snd (fr_line fr)) tr = ch /\
    Forall (fun fr => fr_file fr = file) tr /\
    exists heads lastf, tr = heads ++ [lastf] /\
      Forall (fun fr => fr_line2 fr = None) heads /\
      fr_line2 lastf = if a then Some (fr_line lastf) else None.
Proof.
  intros o fs file p er a ch Hf Hwf Hnest.
  destruct (refine_fails_compile_items o fs file p er a ch Hf Hwf Hnest) as (tr & Hsh & E).
  exists tr. split; [exact E|]. split; [exact (shape_numbers _ _ _ _ Hsh)|].
  split; [exact (shape_files _ _ _ _ Hsh)|exact (shape_line2 _ _ _ _ Hsh)].
Qed.

End Top.
