(* C05 -- IF / ELIF / ELSE chains through Stack.run (exec_cmds): the body of the first arm whose
   condition is true (ELSE counting as true) runs once, in the state where $IF_SUCCESS is true,
   and no other body of the chain runs; when no arm is true nothing runs and the flag is false.
   Assembled from the per-command lemmas of ScopeProofs.v. *)
From Coq Require Import NArith ZArith List Bool Lia.
From DS Require Import Base PyStr Values Expr TabParse Tables Constants Interp ScopeProofs LimitProofs.
Import ListNotations.

(* ================================================================== strings *)
Lemma lstrip_head_nonspace' : forall s c r, lstrip s = c :: r -> isspace_c c = false.
Proof.
  induction s as [|a s IH]; intros c r H; cbn [lstrip] in H; [discriminate|].
  destruct (isspace_c a) eqn:Ha; [exact (IH _ _ H)|]. injection H as <- _. exact Ha.
Qed.

Lemma lstrip_idem' : forall s, lstrip (lstrip s) = lstrip s.
Proof.
  intro s. destruct (lstrip s) as [|c r] eqn:E; [reflexivity|].
  cbn [lstrip]. rewrite (lstrip_head_nonspace' _ _ _ E). reflexivity.
Qed.

Definition no_ws (s : str) : Prop := forallb (fun c => negb (isspace_c c)) s = true.

Lemma take_word_kw : forall kw c, no_ws kw -> take_word (kw ++ 32%N :: c) = (kw, 32%N :: c).
Proof.
  induction kw as [|x kw IH]; intros c H.
  - reflexivity.
  - unfold no_ws in H. cbn [forallb] in H. apply andb_true_iff in H. destruct H as [Hx Hr].
    apply negb_true_iff in Hx. cbn [app take_word]. rewrite Hx, (IH c Hr). reflexivity.
Qed.

(* "KW cond": the first word is KW, the argument is the condition without its leading blanks *)
Lemma split_ws1_kw : forall kw c, kw <> [] -> no_ws kw ->
  split_ws1 (kw ++ 32%N :: c) = match lstrip c with [] => [kw] | r => [kw; r] end.
Proof.
  intros kw c Hne Hkw. unfold split_ws1.
  assert (Hl : lstrip (kw ++ 32%N :: c) = kw ++ 32%N :: c).
  { destruct kw as [|x kw]; [contradiction|]. unfold no_ws in Hkw. cbn [forallb] in Hkw.
    apply andb_true_iff in Hkw. destruct Hkw as [Hx _]. apply negb_true_iff in Hx.
    cbn [app lstrip]. rewrite Hx. reflexivity. }
  rewrite Hl. destruct (kw ++ 32%N :: c) as [|y t] eqn:E.
  - destruct kw; discriminate E.
  - rewrite <- E, (take_word_kw kw c Hkw).
    change (lstrip (32%N :: c)) with (lstrip c). reflexivity.
Qed.

Lemma split_ws1_word : forall kw, kw <> [] -> no_ws kw -> split_ws1 kw = [kw].
Proof.
  intros kw Hne Hkw. unfold split_ws1.
  assert (Hl : lstrip kw = kw).
  { destruct kw as [|x kw]; [contradiction|]. unfold no_ws in Hkw. cbn [forallb] in Hkw.
    apply andb_true_iff in Hkw. destruct Hkw as [Hx _]. apply negb_true_iff in Hx.
    cbn [lstrip]. rewrite Hx. reflexivity. }
  assert (Ht : take_word kw = (kw, [])).
  { clear -Hkw. induction kw as [|x kw IH]; [reflexivity|].
    unfold no_ws in Hkw. cbn [forallb] in Hkw. apply andb_true_iff in Hkw. destruct Hkw as [Hx Hr].
    apply negb_true_iff in Hx. cbn [take_word]. rewrite Hx, (IH Hr). reflexivity. }
  rewrite Hl. destruct kw as [|y t]; [contradiction|]. rewrite Ht. reflexivity.
Qed.

(* ================================================================== dispatch depends on the word only through upper
   (as PipelineProofs.find_command_upper; restated here because that file changes the implicit
   arguments of the constructors used below) *)
Definition starts_dollar (cmd : str) : bool := match cmd with 36%N :: _ => true | _ => false end.

Lemma is_this_command_upper : forall c cmd k cb,
  upper cmd = k -> upper k = k -> starts_dollar cmd = false -> starts_dollar k = false ->
  is_this_command c cmd cb = is_this_command c k cb.
Proof.
  intros c cmd k cb Hu Hk Hd1 Hd2. unfold is_this_command. rewrite Hu, Hk.
  destruct c as [sc|bc]; [reflexivity|].
  unfold starts_dollar in Hd1, Hd2.
  destruct cmd as [|c0 r0]; destruct k as [|k0 kr]; try reflexivity.
  - destruct k0 as [|p]; [reflexivity|]. repeat (destruct p as [p|p|]; try reflexivity). discriminate.
  - destruct c0 as [|p]; [reflexivity|]. repeat (destruct p as [p|p|]; try reflexivity). discriminate.
  - assert (E1 : match c0 :: r0 with 36%N :: _ => str_in (tl (k0 :: kr)) (b_names bc) | _ => false end = false).
    { destruct c0 as [|p]; [reflexivity|]. repeat (destruct p as [p|p|]; try reflexivity). discriminate. }
    assert (E2 : match k0 :: kr with 36%N :: _ => str_in (tl (k0 :: kr)) (b_names bc) | _ => false end = false).
    { destruct k0 as [|p]; [reflexivity|]. repeat (destruct p as [p|p|]; try reflexivity). discriminate. }
    rewrite E1, E2. reflexivity.
Qed.

Lemma find_command_upper : forall pal cmd k cb,
  upper cmd = k -> upper k = k -> starts_dollar cmd = false -> starts_dollar k = false ->
  find_command pal cmd cb = find_command pal k cb.
Proof.
  induction pal as [|[n c] r IH]; intros cmd k cb Hu Hk Hd1 Hd2; [reflexivity|].
  cbn [find_command]. rewrite (is_this_command_upper c cmd k cb Hu Hk Hd1 Hd2).
  destruct (is_this_command c k cb); [reflexivity|]. apply IH; assumption.
Qed.

(* ================================================================== dispatch of the three keywords *)
Definition s_ELIF : str := [69;76;73;70]%N.

Inductive akind := AIf | AElif | AElse.
Definition kw_of (k : akind) : str :=
  match k with AIf => s_IF | AElif => s_ELIF | AElse => s_ELSE end.

Lemma kw_no_ws : forall k, no_ws (kw_of k).
Proof. intros [| |]; vm_compute; reflexivity. Qed.
Lemma kw_nonempty : forall k, kw_of k <> [].
Proof. intros [| |]; discriminate. Qed.
Lemma kw_upper : forall k, upper (kw_of k) = kw_of k.
Proof. intros [| |]; vm_compute; reflexivity. Qed.
Lemma kw_no_dollar : forall k, starts_dollar (kw_of k) = false.
Proof. intros [| |]; reflexivity. Qed.

(* the three keywords, followed by a non-empty block, are claimed by the class "If" of the
   generated palette (computed on the generated table) *)
Lemma kw_dispatch_lookup : forall k i r,
  find_command palette (kw_of k) (Some (i :: r)) = option_map (pair s_If) (lookup s_If palette).
Proof. intros [| |] i r; vm_compute; reflexivity. Qed.

Lemma if_family_dispatch :
  exists bc, is_if_class bc /\
    forall k w body, upper w = kw_of k -> starts_dollar w = false -> body <> [] ->
      find_command palette w (Some body) = Some (s_If, Block bc).
Proof.
  destruct palette_if_class as [bc [Hl [Hc _]]]. exists bc. split; [exact Hc|].
  intros k w body Hu Hd Hb. destruct body as [|i r]; [contradiction|].
  rewrite (find_command_upper palette w (kw_of k) (Some (i :: r)) Hu (kw_upper k) Hd (kw_no_dollar k)).
  rewrite kw_dispatch_lookup, Hl. reflexivity.
Qed.

(* ================================================================== chains *)
Section Chain.
Variable fo : FloatOps.
Variable child : runner fo.
Variable cx : ctx.

Notation st := (st fo).
Notation exec_cmds := (exec_cmds fo child cx).
Notation exec_line := (exec_line fo child cx).
Notation block_compile := (block_compile fo child cx).
Notation run_child := (run_child fo child cx).
Notation with_flag := (with_flag fo).
Notation ensure_flag := (ensure_flag fo).
Notation flag_of := (flag_of fo).
Notation s_env := (s_env fo).
Notation s_g := (s_g fo).
Notation s_line2 := (s_line2 fo).
Notation mkSt := (mkSt fo).

(* one arm: its line (keyword and condition), the line number, the block that follows *)
Record arm := mkArm { a_kind : akind; a_line : str; a_num : Z; a_body : list item }.

Definition word_of (c : str) : str := match split_ws1 c with w :: _ => w | [] => [] end.
Definition arg_of (c : str) : option str := match split_ws1 c with _ :: a :: _ => Some a | _ => None end.

(* the line is KW [cond] in any casing of the keyword; IF / ELIF carry a condition, ELSE none *)
Definition arm_ok (a : arm) : Prop :=
  split_ws1 (a_line a) <> [] /\
  upper (word_of (a_line a)) = kw_of (a_kind a) /\
  starts_dollar (word_of (a_line a)) = false /\
  a_body a <> [] /\
  match a_kind a with
  | AElse => arg_of (a_line a) = None
  | _ => exists c, arg_of (a_line a) = Some c
  end.

Definition arm_items (a : arm) : list item := [Ln (a_line a) (a_num a); Blk (a_body a)].
Definition chain_items (arms : list arm) : list item := flat_map arm_items arms.

(* the arm's condition evaluates, in state s, to a value of truthiness b (ELSE: true).  The text
   that is evaluated is the argument after strip_arg *)
Definition evals (s : st) (a : arm) (b : bool) : Prop :=
  match arg_of (a_line a) with
  | None => b = true
  | Some c => exists v, tokenize fo (all_vars fo (s_env s)) (norm_arg c) = Ok v /\ truthy fo v = b
  end.

Definition evaluates (s : st) (a : arm) : Prop := exists b, evals s a b.

(* what happens after the body of the chosen arm: its output is appended; a Normal end goes on
   with the commands after the chain, any other signal ends this stack *)
Definition after_branch (rest : list item) (acc : list oline) (cr : cret) : M fo cret :=
  match cr_sig cr with
  | SNormal => exec_cmds rest (acc ++ cr_data cr)
  | sg => ret fo (mkCret (acc ++ cr_data cr) sg)
  end.

(* run the block of arm a as a child stack (current line = the arm's line), then go on *)
Definition take_arm (a : arm) (rest : list item) (acc : list oline) : M fo cret :=
  bindM fo (run_child (a_line a, a_num a) (a_body a) (c_file cx) false (fun e => Ok e))
        (after_branch rest acc).

Definition clear_line2 (s : st) : st := mkSt (s_g s) (s_env s) None.

Lemma clear_line2_id : forall s, s_line2 s = None -> clear_line2 s = s.
Proof. intros [g e l] H. cbn in H. subst l. reflexivity. Qed.

Lemma is_blank_split : forall c, split_ws1 c <> [] -> is_blank c = false.
Proof.
  intros c H. unfold is_blank. unfold split_ws1 in H. destruct (lstrip c); [contradiction|reflexivity].
Qed.

(* ---- one arm in exec_cmds: the line is dispatched to block_compile of the If class *)
Lemma arm_step : forall bc a tail acc s,
  (forall k w body, upper w = kw_of k -> starts_dollar w = false -> body <> [] ->
      find_command palette w (Some body) = Some (s_If, Block bc)) ->
  arm_ok a ->
  exec_cmds (arm_items a ++ tail) acc s =
  bindM fo (block_compile (a_line a, a_num a) bc s_If (word_of (a_line a)) (a_num a)
                          (arg_of (a_line a)) (Some (a_body a)))
    (fun r => match r with
              | RNone => exec_cmds tail acc
              | RLines ls => exec_cmds tail (acc ++ map (mkO (ByCommand s_If)) ls)
              | RComp cr => after_branch tail acc cr
              end) (clear_line2 s).
Proof.
  intros bc a tail acc s Hdisp (Hsp & Hup & Hnd & Hbody & Harg).
  unfold arm_items. cbn [app Interp.exec_cmds].
  rewrite (is_blank_split _ Hsp).
  unfold bindM at 1. unfold set_line2 at 1. fold (clear_line2 s).
  unfold Interp.exec_line. unfold word_of, arg_of in *.
  destruct (split_ws1 (a_line a)) as [|cmd more] eqn:Es; [contradiction|].
  rewrite (Hdisp (a_kind a) cmd (a_body a) Hup Hnd Hbody).
  cbn [is_start_class andb].
  assert (Ha : match more with a0 :: _ => Some a0 | [] => None end
               = match more with a0 :: _ => Some a0 | [] => None end) by reflexivity.
  unfold bindM.
  destruct (Interp.block_compile _ _ _ _ _ _ _ _ _ _ (clear_line2 s)) as [s1 [r| | |]]; try reflexivity.
  destruct r as [|ls|cr]; unfold ret.
  - cbn [cr_data cr_sig]. rewrite app_nil_r. reflexivity.
  - cbn [cr_data cr_sig]. reflexivity.
  - unfold after_branch. destruct (cr_sig cr); reflexivity.
Qed.

Section WithClass.
Variable bc : block_cls.
Hypothesis Hbc : is_if_class bc.
Hypothesis Hdisp : forall k w body, upper w = kw_of k -> starts_dollar w = false -> body <> [] ->
      find_command palette w (Some body) = Some (s_If, Block bc).

Lemma arm_skip : forall a tail acc s s1,
  arm_ok a ->
  block_compile (a_line a, a_num a) bc s_If (word_of (a_line a)) (a_num a)
                (arg_of (a_line a)) (Some (a_body a)) (clear_line2 s) = (s1, IOk _ RNone) ->
  exec_cmds (arm_items a ++ tail) acc s = exec_cmds tail acc s1.
Proof.
  intros a tail acc s s1 Hok H. rewrite (arm_step bc a tail acc s Hdisp Hok).
  unfold bindM. rewrite H. reflexivity.
Qed.

Lemma arm_take : forall a tail acc s sT,
  arm_ok a ->
  block_compile (a_line a, a_num a) bc s_If (word_of (a_line a)) (a_num a)
                (arg_of (a_line a)) (Some (a_body a)) (clear_line2 s)
  = run_branch fo child cx (a_line a, a_num a) (Some (a_body a)) sT ->
  exec_cmds (arm_items a ++ tail) acc s = take_arm a tail acc sT.
Proof.
  intros a tail acc s sT Hok H. rewrite (arm_step bc a tail acc s Hdisp Hok).
  unfold bindM at 1. rewrite H. unfold run_branch, take_arm, bindM.
  destruct (Interp.run_child _ _ _ _ _ _ _ _ sT) as [s2 [cr| | |]]; reflexivity.
Qed.

Lemma kw_if_flags : forall w k, upper w = kw_of k ->
  str_eqb (upper w) s_IF = match k with AIf => true | _ => false end /\
  str_eqb (upper w) s_ELSE = match k with AElse => true | _ => false end.
Proof. intros w k H. rewrite H. destruct k; split; reflexivity. Qed.

Definition non_if (a : arm) : Prop := a_kind a <> AIf.

(* ---- (A) once an arm of the chain was taken (flag true), every later ELIF / ELSE is skipped:
        an ELIF still evaluates its condition (an error there is an error of the program), no
        body runs, the state does not change *)
Lemma skip_later : forall later rest acc s,
  Forall arm_ok later -> Forall non_if later ->
  flag_of s = true -> s_line2 s = None ->
  Forall (evaluates s) later ->
  exec_cmds (chain_items later ++ rest) acc s = exec_cmds rest acc s.
Proof.
  induction later as [|a later IH]; intros rest acc s Hok Hni Hflag Hl2 Hev; [reflexivity|].
  inversion Hok as [|? ? Hoka Hokl]; subst. inversion Hni as [|? ? Hnia Hnil]; subst.
  inversion Hev as [|? ? Heva Hevl]; subst.
  unfold chain_items. cbn [flat_map]. rewrite <- app_assoc. fold (chain_items later).
  rewrite (arm_skip a (chain_items later ++ rest) acc s s Hoka).
  - apply IH; assumption.
  - rewrite (clear_line2_id s Hl2).
    destruct Hoka as (Hsp & Hup & Hnd & Hbody & Harg).
    destruct (kw_if_flags _ _ Hup) as [Hif Helse].
    unfold non_if in Hnia. destruct Heva as [b Heva]. unfold evals in Heva.
    destruct (a_kind a) eqn:Ek; [contradiction| |].
    + destruct Harg as [c Hc]. rewrite Hc in *. destruct Heva as [v [Htok _]].
      eapply elif_skipped_when_flag_gen; try eassumption.
      apply tokenizeM_ok. exact Htok.
    + rewrite Harg. eapply else_skipped_when_flag_gen; eassumption.
Qed.

(* ---- (B) no arm taken yet (flag present and false): ELIFs with a false condition change
        nothing; the first true one (or an ELSE) runs its body with the flag set *)
Lemma search_none : forall arms tail acc s,
  Forall arm_ok arms -> Forall non_if arms ->
  flag_of s = false -> ensure_flag s = s -> s_line2 s = None ->
  Forall (fun a => evals s a false) arms ->
  exec_cmds (chain_items arms ++ tail) acc s = exec_cmds tail acc s.
Proof.
  induction arms as [|a arms IH]; intros tail acc s Hok Hni Hflag Hens Hl2 Hev; [reflexivity|].
  inversion Hok as [|? ? Hoka Hokl]; subst. inversion Hni as [|? ? Hnia Hnil]; subst.
  inversion Hev as [|? ? Heva Hevl]; subst.
  unfold chain_items. cbn [flat_map]. rewrite <- app_assoc. fold (chain_items arms).
  rewrite (arm_skip a (chain_items arms ++ tail) acc s s Hoka).
  - apply IH; assumption.
  - rewrite (clear_line2_id s Hl2).
    destruct Hoka as (Hsp & Hup & Hnd & Hbody & Harg).
    destruct (kw_if_flags _ _ Hup) as [Hif Helse].
    unfold non_if in Hnia. unfold evals in Heva.
    destruct (a_kind a) eqn:Ek; [contradiction| |].
    + destruct Harg as [c Hc]. rewrite Hc in *. destruct Heva as [v [Htok Hv]].
      rewrite <- Hens at 2.
      eapply elif_not_taken; try eassumption.
      rewrite Hens. apply tokenizeM_ok. exact Htok.
    + rewrite Harg in Heva. discriminate Heva.
Qed.

Lemma search_take : forall earlier a later tail acc s,
  Forall arm_ok (earlier ++ a :: later) -> Forall non_if (earlier ++ a :: later) ->
  flag_of s = false -> ensure_flag s = s -> s_line2 s = None ->
  Forall (fun x => evals s x false) earlier -> evals s a true ->
  exec_cmds (chain_items (earlier ++ a :: later) ++ tail) acc s =
  take_arm a (chain_items later ++ tail) acc (with_flag true s).
Proof.
  intros earlier a later tail acc s Hok Hni Hflag Hens Hl2 Hev Ha.
  apply Forall_app in Hok. destruct Hok as [Hoke Hok]. apply Forall_app in Hni. destruct Hni as [Hnie Hni].
  inversion Hok as [|? ? Hoka Hokl]; subst. inversion Hni as [|? ? Hnia Hnil]; subst.
  unfold chain_items. rewrite flat_map_app, <- app_assoc. fold (chain_items earlier).
  rewrite (search_none earlier _ acc s Hoke Hnie Hflag Hens Hl2 Hev).
  cbn [flat_map]. rewrite <- app_assoc. fold (chain_items later).
  apply (arm_take a (chain_items later ++ tail) acc s (with_flag true s) Hoka).
  rewrite (clear_line2_id s Hl2).
  destruct Hoka as (Hsp & Hup & Hnd & Hbody & Harg).
  destruct (kw_if_flags _ _ Hup) as [Hif Helse].
  unfold non_if in Hnia. unfold evals in Ha.
  destruct (a_kind a) eqn:Ek; [contradiction| |].
  - destruct Harg as [c Hc]. rewrite Hc in *. destruct Ha as [v [Htok Hv]].
    eapply elif_taken; try eassumption.
    rewrite Hens. apply tokenizeM_ok. exact Htok.
  - rewrite Harg. eapply else_runs_when_no_flag; eassumption.
Qed.

(* ---- (C) after the taken body the remaining arms are skipped *)
Lemma take_then_skip : forall a later rest acc s0,
  Forall arm_ok later -> Forall non_if later ->
  s_line2 s0 = None ->
  (forall s' cr,
     run_child (a_line a, a_num a) (a_body a) (c_file cx) false (fun e => Ok e) (with_flag true s0) = (s', IOk _ cr) ->
     cr_sig cr = SNormal -> Forall (evaluates s') later) ->
  take_arm a (chain_items later ++ rest) acc (with_flag true s0) =
  take_arm a rest acc (with_flag true s0).
Proof.
  intros a later rest acc s0 Hok Hni Hl2 Hlater. unfold take_arm.
  apply bindM_ext. intros cr s' Hr. unfold after_branch.
  destruct (cr_sig cr) eqn:Esig; try reflexivity.
  pose proof (run_child_frame fo child cx _ _ _ _ _ _ _ _ Hr) as (Ht & Hl & _).
  apply skip_later; try assumption.
  - unfold ScopeProofs.flag_of. rewrite Ht. apply flag_of_with_flag.
  - rewrite Hl. exact Hl2.
  - apply (Hlater s' cr); assumption.
Qed.

(* ================================================================== the chain theorem *)
(* a chain: an IF arm, then ELIF / ELSE arms *)
Definition chain_ok (arms : list arm) : Prop :=
  match arms with
  | [] => False
  | a1 :: others => a_kind a1 = AIf /\ Forall arm_ok arms /\ Forall non_if others
  end.

(* the state in which the condition of the arm after [earlier] is evaluated: the IF's own
   condition sees the flag as the previous chain left it (created false if there was none);
   every later condition is reached only with the flag false *)
Definition cond_state (s0 : st) (earlier : list arm) : st :=
  match earlier with [] => ensure_flag s0 | _ => with_flag false s0 end.

(* all arms of [earlier] have a condition that evaluates to false where it is evaluated *)
Definition all_false (s0 : st) (earlier : list arm) : Prop :=
  match earlier with
  | [] => True
  | a1 :: r => evals (ensure_flag s0) a1 false /\ Forall (fun x => evals (with_flag false s0) x false) r
  end.

Lemma sF_facts : forall s0, s_line2 s0 = None ->
  flag_of (with_flag false s0) = false /\ ensure_flag (with_flag false s0) = with_flag false s0 /\
  s_line2 (with_flag false s0) = None.
Proof.
  intros s0 H. split; [apply flag_of_with_flag|]. split; [|exact H].
  eapply ensure_flag_has. apply lookup_with_flag.
Qed.

Lemma if_arm_false : forall a1 tail acc s,
  arm_ok a1 -> a_kind a1 = AIf -> evals (ensure_flag (clear_line2 s)) a1 false ->
  exec_cmds (arm_items a1 ++ tail) acc s = exec_cmds tail acc (with_flag false (clear_line2 s)).
Proof.
  intros a1 tail acc s Hok Hk Hev. apply (arm_skip a1 tail acc s _ Hok).
  destruct Hok as (Hsp & Hup & Hnd & Hbody & Harg).
  destruct (kw_if_flags _ _ Hup) as [Hif Helse]. rewrite Hk in *.
  destruct Harg as [c Hc]. unfold evals in Hev. rewrite Hc in *. destruct Hev as [v [Htok Hv]].
  eapply if_resets_flag; try eassumption. apply tokenizeM_ok. exact Htok.
Qed.

Lemma if_arm_true : forall a1 tail acc s,
  arm_ok a1 -> a_kind a1 = AIf -> evals (ensure_flag (clear_line2 s)) a1 true ->
  exec_cmds (arm_items a1 ++ tail) acc s = take_arm a1 tail acc (with_flag true (clear_line2 s)).
Proof.
  intros a1 tail acc s Hok Hk Hev. apply (arm_take a1 tail acc s _ Hok).
  destruct Hok as (Hsp & Hup & Hnd & Hbody & Harg).
  destruct (kw_if_flags _ _ Hup) as [Hif Helse]. rewrite Hk in *.
  destruct Harg as [c Hc]. unfold evals in Hev. rewrite Hc in *. destruct Hev as [v [Htok Hv]].
  eapply if_taken; try eassumption. apply tokenizeM_ok. exact Htok.
Qed.

(* arm k = length earlier is the first whose condition is true: its body, and only its body, runs *)
Theorem chain_first_true_lemma : forall arms earlier a later rest acc s,
  chain_ok arms -> arms = earlier ++ a :: later ->
  let s0 := clear_line2 s in
  all_false s0 earlier ->
  evals (cond_state s0 earlier) a true ->
  (forall s' cr,
     run_child (a_line a, a_num a) (a_body a) (c_file cx) false (fun e => Ok e) (with_flag true s0) = (s', IOk _ cr) ->
     cr_sig cr = SNormal -> Forall (evaluates s') later) ->
  exec_cmds (chain_items arms ++ rest) acc s = take_arm a rest acc (with_flag true s0).
Proof.
  intros arms earlier a later rest acc s Hchain Harms s0 Hfalse Htrue Hlater.
  assert (Hl0 : s_line2 s0 = None) by reflexivity.
  destruct arms as [|a1 others]; [contradiction|]. destruct Hchain as (Hk1 & Hok & Hni).
  destruct earlier as [|e1 earlier].
  - (* the IF itself *)
    cbn [app] in Harms. injection Harms as -> ->.
    inversion Hok as [|? ? Hok1 Hokl]; subst.
    unfold chain_items. cbn [flat_map]. rewrite <- app_assoc. fold (chain_items later).
    rewrite (if_arm_true a _ acc s Hok1 Hk1 Htrue).
    apply take_then_skip; assumption.
  - cbn [app] in Harms. injection Harms as <- ->.
    inversion Hok as [|? ? Hok1 Hokl]; subst.
    destruct Hfalse as [Hf1 Hfr]. cbn [cond_state] in Htrue.
    unfold chain_items. cbn [flat_map]. rewrite <- app_assoc. fold (chain_items (earlier ++ a :: later)).
    rewrite (if_arm_false a1 _ acc s Hok1 Hk1 Hf1). fold s0.
    destruct (sF_facts s0 Hl0) as (HF1 & HF2 & HF3).
    rewrite (search_take earlier a later rest acc (with_flag false s0) Hokl Hni HF1 HF2 HF3 Hfr Htrue).
    rewrite with_flag_with_flag.
    apply Forall_app in Hokl. destruct Hokl as [_ Hokl]. apply Forall_app in Hni. destruct Hni as [_ Hni].
    inversion Hokl; subst. inversion Hni; subst.
    apply take_then_skip; assumption.
Qed.

(* no arm is true: nothing of the chain runs, and the commands after it start with the flag false *)
Theorem chain_none_true_lemma : forall arms rest acc s,
  chain_ok arms ->
  let s0 := clear_line2 s in
  all_false s0 arms ->
  exec_cmds (chain_items arms ++ rest) acc s = exec_cmds rest acc (with_flag false s0).
Proof.
  intros arms rest acc s Hchain s0 Hfalse.
  assert (Hl0 : s_line2 s0 = None) by reflexivity.
  destruct arms as [|a1 others]; [contradiction|]. destruct Hchain as (Hk1 & Hok & Hni).
  inversion Hok as [|? ? Hok1 Hokl]; subst. destruct Hfalse as [Hf1 Hfr].
  unfold chain_items. cbn [flat_map]. rewrite <- app_assoc. fold (chain_items others).
  rewrite (if_arm_false a1 _ acc s Hok1 Hk1 Hf1). fold s0.
  destruct (sF_facts s0 Hl0) as (HF1 & HF2 & HF3).
  apply search_none; assumption.
Qed.

End WithClass.
End Chain.

(* ================================================================== the palette class discharged *)
Section Final.
Variable fo : FloatOps.
Variable child : runner fo.
Variable cx : ctx.

Theorem chain_first_true : forall arms earlier a later rest acc s,
  chain_ok arms -> arms = earlier ++ a :: later ->
  let s0 := clear_line2 fo s in
  all_false fo s0 earlier ->
  evals fo (cond_state fo s0 earlier) a true ->
  (forall s' cr,
     run_child fo child cx (a_line a, a_num a) (a_body a) (c_file cx) false (fun e => Ok e) (with_flag fo true s0)
       = (s', IOk _ cr) ->
     cr_sig cr = SNormal -> Forall (evaluates fo s') later) ->
  exec_cmds fo child cx (chain_items arms ++ rest) acc s = take_arm fo child cx a rest acc (with_flag fo true s0).
Proof.
  intros arms earlier a later rest acc s Hc Ha s0 Hf Ht Hl.
  destruct if_family_dispatch as [bc [Hbc Hd]].
  exact (chain_first_true_lemma fo child cx bc Hbc Hd arms earlier a later rest acc s Hc Ha Hf Ht Hl).
Qed.

Theorem chain_none_true : forall arms rest acc s,
  chain_ok arms ->
  let s0 := clear_line2 fo s in
  all_false fo s0 arms ->
  exec_cmds fo child cx (chain_items arms ++ rest) acc s = exec_cmds fo child cx rest acc (with_flag fo false s0).
Proof.
  intros arms rest acc s Hc s0 Hf.
  destruct if_family_dispatch as [bc [Hbc Hd]].
  exact (chain_none_true_lemma fo child cx bc Hbc Hd arms rest acc s Hc Hf).
Qed.

(* ---- arms written with the upper-case keywords *)
Definition cond_arm (k : akind) (c : str) (n : Z) (body : list item) : arm :=
  mkArm k (kw_of k ++ 32%N :: c) n body.
Definition else_arm (n : Z) (body : list item) : arm := mkArm AElse s_ELSE n body.

Lemma strip_lstrip : forall c, strip (lstrip c) = strip c.
Proof. intro c. unfold strip. rewrite lstrip_idem'. reflexivity. Qed.

Lemma cond_arm_split : forall k c, is_blank c = false ->
  split_ws1 (kw_of k ++ 32%N :: c) = [kw_of k; lstrip c].
Proof.
  intros k c Hb. rewrite (split_ws1_kw (kw_of k) c (kw_nonempty k) (kw_no_ws k)).
  unfold is_blank in Hb. destruct (lstrip c); [discriminate|reflexivity].
Qed.

Lemma cond_arm_ok : forall k c n body, k <> AElse -> is_blank c = false -> body <> [] ->
  arm_ok (cond_arm k c n body).
Proof.
  intros k c n body Hk Hb Hbody. unfold arm_ok, cond_arm, word_of, arg_of. cbn [a_line a_kind a_body].
  rewrite (cond_arm_split k c Hb).
  split; [discriminate|]. split; [apply kw_upper|]. split; [apply kw_no_dollar|]. split; [exact Hbody|].
  destruct k; [eexists; reflexivity|eexists; reflexivity|contradiction].
Qed.

Lemma else_arm_ok : forall n body, body <> [] -> arm_ok (else_arm n body).
Proof.
  intros n body Hbody. unfold arm_ok, else_arm, word_of, arg_of. cbn [a_line a_kind a_body].
  repeat split; try reflexivity; try discriminate. exact Hbody.
Qed.

(* the text that is evaluated is the condition without surrounding blanks *)
Lemma evals_cond_arm : forall s k c n body b, is_blank c = false ->
  (evals fo s (cond_arm k c n body) b <->
   exists v, tokenize fo (all_vars fo (s_env fo s)) (strip c) = Ok v /\ truthy fo v = b).
Proof.
  intros s k c n body b Hb. unfold evals, cond_arm, arg_of. cbn [a_line].
  rewrite (cond_arm_split k c Hb).
  assert (Hn : norm_arg (lstrip c) = strip c).
  { unfold is_blank in Hb. unfold norm_arg. destruct (lstrip c) as [|x r] eqn:E; [discriminate|].
    rewrite <- E. apply strip_lstrip. }
  rewrite Hn. reflexivity.
Qed.

Lemma evals_else_arm : forall s n body b, evals fo s (else_arm n body) b <-> b = true.
Proof. intros. unfold evals, else_arm, arg_of. cbn. reflexivity. Qed.

Lemma non_if_elif : forall c n body, non_if (cond_arm AElif c n body).
Proof. intros c n body H. discriminate H. Qed.
Lemma non_if_else : forall n body, non_if (else_arm n body).
Proof. intros n body H. discriminate H. Qed.

(* ---- (a) the two-arm instance: IF c / ELSE *)
Theorem if_else_chain : forall c n1 b1 n2 b2 rest acc s v,
  is_blank c = false -> b1 <> [] -> b2 <> [] ->
  let s0 := clear_line2 fo s in
  tokenize fo (all_vars fo (s_env fo (ensure_flag fo s0))) (strip c) = Ok v ->
  exec_cmds fo child cx ([Ln (s_IF ++ 32%N :: c) n1; Blk b1; Ln s_ELSE n2; Blk b2] ++ rest) acc s =
  if truthy fo v
  then take_arm fo child cx (cond_arm AIf c n1 b1) rest acc (with_flag fo true s0)
  else take_arm fo child cx (else_arm n2 b2) rest acc (with_flag fo true s0).
Proof.
  intros c n1 b1 n2 b2 rest acc s v Hc Hb1 Hb2 s0 Htok.
  set (a1 := cond_arm AIf c n1 b1). set (a2 := else_arm n2 b2).
  assert (Hok1 : arm_ok a1) by (apply cond_arm_ok; [discriminate|assumption|assumption]).
  assert (Hok2 : arm_ok a2) by (apply else_arm_ok; assumption).
  assert (Hchain : chain_ok [a1; a2]).
  { split; [reflexivity|]. split; [repeat (apply Forall_cons; [assumption|]); apply Forall_nil|].
    apply Forall_cons; [apply non_if_else|apply Forall_nil]. }
  change ([Ln (s_IF ++ 32%N :: c) n1; Blk b1; Ln s_ELSE n2; Blk b2]) with (chain_items [a1; a2]).
  destruct (truthy fo v) eqn:Ev.
  - apply (chain_first_true [a1; a2] [] a1 [a2] rest acc s Hchain eq_refl).
    + exact I.
    + apply evals_cond_arm; [exact Hc|]. exists v. split; assumption.
    + intros s' cr _ _. constructor; [|constructor]. exists true. apply evals_else_arm. reflexivity.
  - apply (chain_first_true [a1; a2] [a1] a2 [] rest acc s Hchain eq_refl).
    + split; [|constructor]. apply evals_cond_arm; [exact Hc|]. exists v. split; assumption.
    + apply evals_else_arm. reflexivity.
    + intros s' cr _ _. constructor.
Qed.

(* IF c alone: one arm *)
Theorem if_alone_chain : forall c n1 b1 rest acc s v,
  is_blank c = false -> b1 <> [] ->
  let s0 := clear_line2 fo s in
  tokenize fo (all_vars fo (s_env fo (ensure_flag fo s0))) (strip c) = Ok v ->
  exec_cmds fo child cx ([Ln (s_IF ++ 32%N :: c) n1; Blk b1] ++ rest) acc s =
  if truthy fo v
  then take_arm fo child cx (cond_arm AIf c n1 b1) rest acc (with_flag fo true s0)
  else exec_cmds fo child cx rest acc (with_flag fo false s0).
Proof.
  intros c n1 b1 rest acc s v Hc Hb1 s0 Htok.
  set (a1 := cond_arm AIf c n1 b1).
  assert (Hok1 : arm_ok a1) by (apply cond_arm_ok; [discriminate|assumption|assumption]).
  assert (Hchain : chain_ok [a1]).
  { split; [reflexivity|]. split; [repeat (apply Forall_cons; [assumption|]); apply Forall_nil|].
    apply Forall_nil. }
  change ([Ln (s_IF ++ 32%N :: c) n1; Blk b1]) with (chain_items [a1]).
  destruct (truthy fo v) eqn:Ev.
  - apply (chain_first_true [a1] [] a1 [] rest acc s Hchain eq_refl).
    + exact I.
    + apply evals_cond_arm; [exact Hc|]. exists v. split; assumption.
    + intros s' cr _ _. constructor.
  - apply (chain_none_true [a1] rest acc s Hchain).
    split; [|constructor]. apply evals_cond_arm; [exact Hc|]. exists v. split; assumption.
Qed.

(* ---- (a) the three-arm instance: IF c1 / ELIF c2 / ELSE.
        c2 is evaluated either where nothing was taken (flag false), or -- when the IF was taken
        and its body ended normally -- in the state the body left, where it only has to evaluate *)
Theorem if_elif_else_chain : forall c1 n1 b1 c2 n2 b2 n3 b3 rest acc s v1 v2,
  is_blank c1 = false -> is_blank c2 = false -> b1 <> [] -> b2 <> [] -> b3 <> [] ->
  let s0 := clear_line2 fo s in
  tokenize fo (all_vars fo (s_env fo (ensure_flag fo s0))) (strip c1) = Ok v1 ->
  (truthy fo v1 = false ->
   tokenize fo (all_vars fo (s_env fo (with_flag fo false s0))) (strip c2) = Ok v2) ->
  (truthy fo v1 = true -> forall s' cr,
     run_child fo child cx (s_IF ++ 32%N :: c1, n1) b1 (c_file cx) false (fun e => Ok e) (with_flag fo true s0)
       = (s', IOk _ cr) ->
     cr_sig cr = SNormal ->
     exists v, tokenize fo (all_vars fo (s_env fo s')) (strip c2) = Ok v) ->
  exec_cmds fo child cx
    ([Ln (s_IF ++ 32%N :: c1) n1; Blk b1; Ln (s_ELIF ++ 32%N :: c2) n2; Blk b2; Ln s_ELSE n3; Blk b3] ++ rest) acc s =
  if truthy fo v1
  then take_arm fo child cx (cond_arm AIf c1 n1 b1) rest acc (with_flag fo true s0)
  else if truthy fo v2
  then take_arm fo child cx (cond_arm AElif c2 n2 b2) rest acc (with_flag fo true s0)
  else take_arm fo child cx (else_arm n3 b3) rest acc (with_flag fo true s0).
Proof.
  intros c1 n1 b1 c2 n2 b2 n3 b3 rest acc s v1 v2 Hc1 Hc2 Hb1 Hb2 Hb3 s0 Htok1 Htok2 Hafter.
  set (a1 := cond_arm AIf c1 n1 b1). set (a2 := cond_arm AElif c2 n2 b2). set (a3 := else_arm n3 b3).
  assert (Hok1 : arm_ok a1) by (apply cond_arm_ok; [discriminate|assumption|assumption]).
  assert (Hok2 : arm_ok a2) by (apply cond_arm_ok; [discriminate|assumption|assumption]).
  assert (Hok3 : arm_ok a3) by (apply else_arm_ok; assumption).
  assert (Hchain : chain_ok [a1; a2; a3]).
  { split; [reflexivity|]. split; [repeat (apply Forall_cons; [assumption|]); apply Forall_nil|].
    apply Forall_cons; [apply non_if_elif|]. apply Forall_cons; [apply non_if_else|apply Forall_nil]. }
  change ([Ln (s_IF ++ 32%N :: c1) n1; Blk b1; Ln (s_ELIF ++ 32%N :: c2) n2; Blk b2; Ln s_ELSE n3; Blk b3])
    with (chain_items [a1; a2; a3]).
  assert (He3 : forall s', evaluates fo s' a3).
  { intro s'. exists true. apply evals_else_arm. reflexivity. }
  destruct (truthy fo v1) eqn:Ev1.
  - apply (chain_first_true [a1; a2; a3] [] a1 [a2; a3] rest acc s Hchain eq_refl).
    + exact I.
    + apply evals_cond_arm; [exact Hc1|]. exists v1. split; assumption.
    + intros s' cr Hr Hsig. constructor; [|constructor; [apply He3|constructor]].
      destruct (Hafter eq_refl s' cr Hr Hsig) as [v Hv].
      exists (truthy fo v). apply evals_cond_arm; [exact Hc2|]. exists v. split; [exact Hv|reflexivity].
  - specialize (Htok2 eq_refl).
    assert (Hf1 : evals fo (ensure_flag fo s0) a1 false).
    { apply evals_cond_arm; [exact Hc1|]. exists v1. split; assumption. }
    destruct (truthy fo v2) eqn:Ev2.
    + apply (chain_first_true [a1; a2; a3] [a1] a2 [a3] rest acc s Hchain eq_refl).
      * split; [exact Hf1|constructor].
      * apply evals_cond_arm; [exact Hc2|]. exists v2. split; assumption.
      * intros s' cr _ _. constructor; [apply He3|constructor].
    + apply (chain_first_true [a1; a2; a3] [a1; a2] a3 [] rest acc s Hchain eq_refl).
      * split; [exact Hf1|]. constructor; [|constructor].
        apply evals_cond_arm; [exact Hc2|]. exists v2. split; assumption.
      * apply evals_else_arm. reflexivity.
      * intros s' cr _ _. constructor.
Qed.

End Final.
