(* Two laws of the indentation parser (Model/TabParse.v), for ANY text:
   (1) blank lines leave no trace: the parser sees only the non-blank lines (with their numbers);
   (2) line numbers are only carried along: renumbering the lines of the text by any function
       nu with  nu m = 0 <-> m = 0  renumbers the tree (and the line named by an error) and
       changes nothing else.
   Together: inserting blank lines anywhere in a text only moves line numbers. *)
From Coq Require Import NArith ZArith List Bool Lia.
From DS Require Import Base PyStr TabParse BlockTree TabProofs CoreText.
Import ListNotations.

(* ================================================================== (1) blank lines *)
Lemma pd_loop_filter : forall rec text tab newc ret free first,
  pd_loop rec text tab newc ret free first =
  pd_loop rec (filter nonblank_line text) tab newc ret free first.
Proof.
  intro rec. induction text as [|[c n] rest IH]; intros tab newc ret free first; [reflexivity|].
  cbn [filter]. unfold nonblank_line at 1. cbn [fst].
  destruct (is_blank c) eqn:Hb; cbn [negb].
  - cbn [pd_loop]. rewrite Hb. apply IH.
  - cbn [pd_loop]. rewrite Hb.
    destruct (startswith triple_quote c && (first || negb (free =? 0)%Z)); [apply IH|].
    destruct (negb (free =? 0)%Z); [apply IH|].
    destruct (has_tab c tab n) as [[| |u']|e]; [| | |reflexivity].
    + destruct newc as [|x l]; [apply IH|]. destruct (rec (rev (x :: l)) tab); [apply IH|reflexivity].
    + destruct first; [reflexivity|]. destruct tab; [apply IH|reflexivity].
    + destruct first; [reflexivity|]. apply IH.
Qed.

Theorem parse_doc_filter : forall fuel text tab,
  parse_doc fuel text tab = parse_doc fuel (filter nonblank_line text) tab.
Proof. intros [|fuel] text tab; [reflexivity|]. cbn [parse_doc]. apply pd_loop_filter. Qed.

(* ================================================================== (2) renumbering *)
Definition renum_line (nu : Z -> Z) (l : preline) : preline := (fst l, nu (snd l)).

Definition renum_err (nu : Z -> Z) (e : taberr) : taberr :=
  match e with
  | TabMismatch n => TabMismatch (nu n)
  | TabUnexpected n => TabUnexpected (nu n)
  | QuoteUnclosed n => QuoteUnclosed (nu n)
  | TabImpossible => TabImpossible
  | TabFuel => TabFuel
  end.

Definition renum_res (nu : Z -> Z) (r : tabres (list item)) : tabres (list item) :=
  match r with TOk t => TOk (renum nu t) | TErr e => TErr (renum_err nu e) end.

Section Renumber.
Variable nu : Z -> Z.
Hypothesis nu_zero : forall m, (nu m =? 0)%Z = (m =? 0)%Z.

Lemma nu_0 : nu 0%Z = 0%Z.
Proof. apply Z.eqb_eq. rewrite nu_zero. reflexivity. Qed.

Lemma has_tab_renum : forall c tab n,
  has_tab c tab (nu n) =
  match has_tab c tab n with TOk k => TOk k | TErr e => TErr (renum_err nu e) end.
Proof.
  intros c tab n. unfold has_tab.
  destruct tab as [u|].
  - destruct (startswith u c); [reflexivity|].
    destruct c as [|x r]; [reflexivity|].
    destruct (isspace_c x); [reflexivity|].
    destruct ((x =? sp)%N || (x =? tb)%N); reflexivity.
  - destruct c as [|x r]; [reflexivity|]. destruct ((x =? sp)%N || (x =? tb)%N); reflexivity.
Qed.

Lemma renum_rev : forall t, renum nu (rev t) = rev (renum nu t).
Proof. intro t. unfold renum. apply map_rev. Qed.

Section Loop.
Variables rec rec' : list preline -> option str -> tabres (list item).
Hypothesis Hrec : forall text tab, rec' (map (renum_line nu) text) tab = renum_res nu (rec text tab).

Lemma pd_loop_renum : forall text tab newc ret free first,
  pd_loop rec' (map (renum_line nu) text) tab (map (renum_line nu) newc) (renum nu ret) (nu free) first =
  renum_res nu (pd_loop rec text tab newc ret free first).
Proof.
  induction text as [|[c n] rest IH]; intros tab newc ret free first.
  - cbn [map pd_loop]. rewrite nu_zero.
    destruct (negb (free =? 0)%Z); [reflexivity|].
    destruct newc as [|x l].
    + cbn [map renum_res]. rewrite renum_rev. reflexivity.
    + change (map (renum_line nu) (x :: l)) with (renum_line nu x :: map (renum_line nu) l).
      change (renum_line nu x :: map (renum_line nu) l) with (map (renum_line nu) (x :: l)).
      rewrite <- map_rev. rewrite Hrec.
      assert (Hm : forall (A : Type) (a b : A), match map (renum_line nu) (x :: l) with [] => a | _ :: _ => b end = b)
        by reflexivity.
      rewrite Hm.
      destruct (rec (rev (x :: l)) tab) as [b|e]; cbn [renum_res]; [|reflexivity].
      rewrite renum_rev. reflexivity.
  - cbn [map]. unfold renum_line at 1. cbn [fst snd pd_loop].
    destruct (is_blank c); [apply IH|].
    rewrite nu_zero.
    destruct (startswith triple_quote c && (first || negb (free =? 0)%Z)).
    + replace (if (free =? 0)%Z then nu n else 0%Z) with (nu (if (free =? 0)%Z then n else 0%Z))
        by (destruct (free =? 0)%Z; [reflexivity|apply nu_0]).
      apply IH.
    + destruct (negb (free =? 0)%Z).
      * change (Ln c (nu n) :: renum nu ret) with (renum nu (Ln c n :: ret)). apply IH.
      * rewrite has_tab_renum.
        destruct (has_tab c tab n) as [[| |u']|e]; [| | |reflexivity].
        -- destruct newc as [|x l].
           ++ cbn [map]. change (Ln c (nu n) :: renum nu ret) with (renum nu (Ln c n :: ret)).
              change (@nil preline) with (map (renum_line nu) []). apply IH.
           ++ assert (Hm : forall (A : Type) (a b : A), match map (renum_line nu) (x :: l) with [] => a | _ :: _ => b end = b)
                by reflexivity.
              rewrite Hm. rewrite <- map_rev. rewrite Hrec.
              destruct (rec (rev (x :: l)) tab) as [b|e]; cbn [renum_res]; [|reflexivity].
              change (Ln c (nu n) :: Blk (renum nu b) :: renum nu ret) with (renum nu (Ln c n :: Blk b :: ret)).
              change (@nil preline) with (map (renum_line nu) []). apply IH.
        -- destruct first; [reflexivity|]. destruct tab as [u|]; [|reflexivity].
           change ((match removeprefix u c with Some x => x | None => c end, nu n) :: map (renum_line nu) newc)
             with (map (renum_line nu) ((match removeprefix u c with Some x => x | None => c end, n) :: newc)).
           apply IH.
        -- destruct first; [reflexivity|].
           change ((match removeprefix u' c with Some x => x | None => c end, nu n) :: map (renum_line nu) newc)
             with (map (renum_line nu) ((match removeprefix u' c with Some x => x | None => c end, n) :: newc)).
           apply IH.
Qed.
End Loop.

Theorem parse_doc_renum : forall fuel text tab,
  parse_doc fuel (map (renum_line nu) text) tab = renum_res nu (parse_doc fuel text tab).
Proof.
  induction fuel as [|fuel IH]; intros text tab; [reflexivity|].
  cbn [parse_doc].
  pose proof (pd_loop_renum (parse_doc fuel) (parse_doc fuel) IH text tab [] [] 0%Z true) as H.
  cbn [map renum] in H. rewrite nu_0 in H. exact H.
Qed.
End Renumber.

(* ================================================================== any numbering is a renumbering *)
(* the k-th line (from 1) gets the k-th number of ns; other arguments are left alone *)
Definition nu_of (ns : list Z) (k : Z) : Z :=
  match k with
  | Zpos _ => nth (Z.to_nat (k - 1)) ns k
  | _ => k
  end.

Lemma nu_of_zero : forall ns, Forall (fun m => m <> 0%Z) ns -> forall k, (nu_of ns k =? 0)%Z = (k =? 0)%Z.
Proof.
  intros ns Hns k. destruct k as [|q|q]; try reflexivity.
  unfold nu_of. apply Z.eqb_neq.
  destruct (nth_in_or_default (Z.to_nat (Z.pos q - 1)) ns (Z.pos q)) as [Hin|Hd].
  - rewrite Forall_forall in Hns. apply Hns. exact Hin.
  - rewrite Hd. discriminate.
Qed.

Lemma renumber_any : forall (L : list preline) pre,
  map (renum_line (nu_of (pre ++ map snd L))) (number_from (1 + Z.of_nat (length pre))%Z (map fst L)) = L.
Proof.
  induction L as [|[c n] L IH]; intro pre; [reflexivity|].
  cbn [map fst snd number_from]. f_equal.
  - unfold renum_line. cbn [fst snd]. f_equal.
    unfold nu_of. destruct (1 + Z.of_nat (length pre))%Z eqn:E; try lia.
    rewrite <- E. replace (Z.to_nat (1 + Z.of_nat (length pre) - 1)) with (length pre) by lia.
    rewrite app_nth2 by lia. rewrite Nat.sub_diag. reflexivity.
  - specialize (IH (pre ++ [n])). rewrite <- app_assoc in IH. cbn [app] in IH.
    rewrite app_length in IH. cbn [length] in IH.
    replace (1 + Z.of_nat (length pre + 1))%Z with (1 + Z.of_nat (length pre) + 1)%Z in IH by lia.
    exact IH.
Qed.

(* the numbers given by [number_from] from 1 are not 0 *)
Lemma number_from_pos : forall ls n, (0 < n)%Z -> Forall (fun l : preline => (0 < snd l)%Z) (number_from n ls).
Proof.
  induction ls as [|l ls IH]; intros n Hn; [constructor|].
  cbn [number_from]. constructor; [exact Hn|]. apply IH. lia.
Qed.

Lemma filter_number_fst : forall ls n,
  map fst (filter nonblank_line (number_from n ls)) = filter (fun l => negb (is_blank l)) ls.
Proof.
  induction ls as [|l r IH]; intro n; [reflexivity|].
  cbn [number_from filter]. unfold nonblank_line at 1. cbn [fst].
  destruct (negb (is_blank l)); [cbn [map fst]; f_equal|]; apply IH.
Qed.

(* ================================================================== blank lines only move numbers *)
(* a text (as lines) whose non-blank lines are [ls], blank lines anywhere: the parser returns the
   tree of [ls] renumbered -- the k-th line of [ls] carries its line number in the text *)
Theorem blank_lines_move_numbers : forall ls ls' fuel tab,
  with_blanks ls ls' ->
  exists nu,
    (forall m, (nu m =? 0)%Z = (m =? 0)%Z) /\
    map (renum_line nu) (number_from 1%Z ls) = filter nonblank_line (number_from 1%Z ls') /\
    parse_doc fuel (number_from 1%Z ls') tab = renum_res nu (parse_doc fuel (number_from 1%Z ls) tab).
Proof.
  intros ls ls' fuel tab Hb.
  set (L := filter nonblank_line (number_from 1%Z ls')).
  assert (Hfst : map fst L = ls).
  { unfold L, with_blanks in *. rewrite <- Hb. apply filter_number_fst. }
  assert (Hpos : Forall (fun m => m <> 0%Z) (map snd L)).
  { apply Forall_forall. intros m Hin. apply in_map_iff in Hin. destruct Hin as (l & <- & Hin).
    unfold L in Hin. apply filter_In in Hin. destruct Hin as [Hin _].
    pose proof (number_from_pos ls' 1%Z ltac:(lia)) as Hall. rewrite Forall_forall in Hall.
    specialize (Hall l Hin). lia. }
  exists (nu_of (map snd L)).
  pose proof (nu_of_zero (map snd L) Hpos) as Hz.
  pose proof (renumber_any L []) as Hre. cbn [app length Z.of_nat] in Hre. rewrite Hfst in Hre.
  change (1 + 0)%Z with 1%Z in Hre.
  split; [exact Hz|]. split; [exact Hre|].
  rewrite parse_doc_filter. fold L.
  transitivity (parse_doc fuel (map (renum_line (nu_of (map snd L))) (number_from 1%Z ls)) tab).
  - rewrite Hre. reflexivity.
  - apply parse_doc_renum. exact Hz.
Qed.
