(* Blank lines in the text of a core program are irrelevant: a text whose non-blank lines are the
   lines of [text_of u p] is parsed to [items_of p] with other line numbers
   (Proofs/TabRenumber.v), and the refinement theorem holds for any numbering
   (Proofs/CoreRefineNum.v). *)
From Coq Require Import String NArith ZArith List Bool Lia.
From DS Require Import Base PyStr Values Expr TabParse Tables Constants Interp.
From DS Require Import BlockTree TabProofs TabRoundTrip GraphText TabRenumber.
From DS Require Import ChainLoopExamples CoreLang CoreWf CoreRefine CoreRefineNum CoreExample CoreText CoreTextForest CoreTextParse CoreTextExample.
Import ListNotations.

Arguments IOk {A}. Arguments IErr {A}. Arguments ICrash {A}. Arguments IUnmod {A}.

Definition code_line (l : str) : bool := negb (is_blank l).

(* splitting the joined lines gives them back, except that no line at all comes back as one
   empty line: the non-blank lines are the same *)
Lemma split_join_blanks : forall ls, Forall no_nl ls ->
  Forall no_nl (lines_of_text (join [nl] ls)) /\
  filter code_line (lines_of_text (join [nl] ls)) = filter code_line ls.
Proof.
  intros [|l ls] H.
  - split; [constructor; [reflexivity|constructor]|reflexivity].
  - unfold lines_of_text, nl. rewrite (split_join_lines 10%N ls l H). split; [exact H|reflexivity].
Qed.

Lemma filter_length_le : forall (A : Type) (f : A -> bool) l, length (filter f l) <= length l.
Proof.
  intros A f. induction l as [|a r IH]; [apply le_n|]. cbn [filter]. destruct (f a); cbn [length]; lia.
Qed.

Lemma filter_all_idem : forall (A : Type) (f : A -> bool) l, filter f (filter f l) = filter f l.
Proof.
  intros A f. induction l as [|a r IH]; [reflexivity|]. cbn [filter].
  destruct (f a) eqn:E; [cbn [filter]; rewrite E, IH; reflexivity|exact IH].
Qed.

(* the parser on a text with blank lines: the tree of the program, renumbered *)
Theorem prepare_text_blanks : forall u p ls',
  wf_unit u -> wf_list p ->
  with_blanks (lines_of u p) ls' -> Forall no_nl ls' ->
  exists nu, prepare_text (join [nl] ls') = TOk (renum nu (items_of p)).
Proof.
  intros u p ls' Hu Hwf Hb Hnl. unfold prepare_text, parse_document, convert_to.
  destruct (split_join_blanks ls' Hnl) as [_ Hf].
  set (ls2 := lines_of_text (join [nl] ls')) in *.
  assert (Hb2 : with_blanks (lines_of u p) ls2).
  { unfold with_blanks in *. fold code_line in *. rewrite Hf. exact Hb. }
  destruct (blank_lines_move_numbers (lines_of u p) ls2 (S (length (number_from 1%Z ls2))) None Hb2)
    as (nu & _ & _ & E).
  exists nu. rewrite E. unfold lines_of.
  rewrite (parse_doc_render u Hu _ (forest_of p) 1%Z None (wf_list_forest p Hwf)).
  - cbn [renum_res]. rewrite (expected_forest_items p 1%Z (wf_list_blocks_nonempty p Hwf)). reflexivity.
  - left. reflexivity.
  - rewrite number_from_length. rewrite <- render_length with (u := u). fold (lines_of u p).
    unfold with_blanks in Hb2. rewrite <- Hb2.
    pose proof (filter_length_le str (fun l => negb (is_blank l)) ls2). lia.
Qed.

(* THE END-TO-END THEOREM WITH BLANK LINES: any text whose lines, blank lines removed, are the
   lines of the program *)
Theorem text_refinement_blanks : forall fo o fs file u p ls' sg f' vs' out,
  wf_unit u -> wf_list p -> (Z.of_nat (nesting_list p) < stack_limit o)%Z ->
  with_blanks (lines_of u p) ls' -> Forall no_nl ls' ->
  runs fo p sg f' vs' out ->
  exists ol, map o_text ol = out /\
    compile_text fo o fs file (join [nl] ls') =
    (mkGlob [] (stray_warnings sg),
     IOk (mkCompiled fo ol (stray_warnings sg) (mkEnv fo (initial_sys fo) vs' (flag_var fo f') []) [])).
Proof.
  intros fo o fs file u p ls' sg f' vs' out Hu Hwf Hnest Hb Hnl Hrun.
  destruct (prepare_text_blanks u p ls' Hu Hwf Hb Hnl) as [nu E].
  unfold compile_text. rewrite E.
  exact (refine_compile_items_num fo nu o fs file p sg f' vs' out Hrun Hwf Hnest).
Qed.

(* with and without blank lines: same output texts, same signal (warnings), same variables, same flag *)
Theorem blank_lines_irrelevant : forall fo o fs file u p ls' sg f' vs' out,
  wf_unit u -> wf_list p -> (Z.of_nat (nesting_list p) < stack_limit o)%Z ->
  with_blanks (lines_of u p) ls' -> Forall no_nl ls' ->
  runs fo p sg f' vs' out ->
  exists ol ol', map o_text ol = out /\ map o_text ol' = out /\
    compile_text fo o fs file (text_of u p) =
    (mkGlob [] (stray_warnings sg),
     IOk (mkCompiled fo ol (stray_warnings sg) (mkEnv fo (initial_sys fo) vs' (flag_var fo f') []) [])) /\
    compile_text fo o fs file (join [nl] ls') =
    (mkGlob [] (stray_warnings sg),
     IOk (mkCompiled fo ol' (stray_warnings sg) (mkEnv fo (initial_sys fo) vs' (flag_var fo f') []) [])).
Proof.
  intros fo o fs file u p ls' sg f' vs' out Hu Hwf Hnest Hb Hnl Hrun.
  assert (Hb0 : with_blanks (lines_of u p) (lines_of u p)).
  { unfold with_blanks. rewrite <- Hb. apply filter_all_idem. }
  assert (Hnl0 : Forall no_nl (lines_of u p)).
  { unfold with_blanks in Hb. rewrite <- Hb. apply Forall_forall. intros l Hin. apply filter_In in Hin.
    rewrite Forall_forall in Hnl. apply Hnl. apply Hin. }
  destruct (text_refinement_blanks fo o fs file u p (lines_of u p) sg f' vs' out Hu Hwf Hnest Hb0 Hnl0 Hrun)
    as (ol & Ho & E).
  destruct (text_refinement_blanks fo o fs file u p ls' sg f' vs' out Hu Hwf Hnest Hb Hnl Hrun)
    as (ol' & Ho' & E').
  exists ol, ol'. split; [exact Ho|]. split; [exact Ho'|]. split; [exact E|exact E'].
Qed.

(* ================================================================== non-vacuity *)
Open Scope string_scope.
Open Scope list_scope.

(* the main example with an empty line, a line of blanks, a line of tabs, and blank lines at
   both ends *)
Definition main_with_blanks : list str :=
  [ lit "";
    lit "VAR total 0";
    lit "   ";
    lit "REPEAT i,3";
    tab_unit ++ lit "VAR tmp i*2";
    tab_unit ++ tab_unit ++ tab_unit;
    tab_unit ++ lit "IF i==1";
    tab_unit ++ tab_unit ++ lit "VAR total total+10";
    lit "";
    lit "";
    tab_unit ++ lit "ELSE";
    tab_unit ++ tab_unit ++ lit "VAR total total+tmp";
    tab_unit ++ lit "$STRING total";
    lit " ";
    lit "$STRING total";
    lit "" ].

Lemma main_with_blanks_ok :
  with_blanks (lines_of tab_unit prog_main) main_with_blanks /\ Forall no_nl main_with_blanks.
Proof.
  split; [vm_compute; reflexivity|].
  unfold main_with_blanks. repeat (constructor; [vm_compute; reflexivity|]). constructor.
Qed.

(* the parser: the same tree, the numbers are the positions in the text with blank lines *)
Lemma main_with_blanks_parsed :
  exists nu, prepare_text (join [nl] main_with_blanks) = TOk (renum nu (items_of prog_main)) /\
    map nu [1; 2; 3; 4; 5; 6; 7; 8; 9]%Z = [2; 4; 5; 7; 8; 11; 12; 13; 15]%Z.
Proof.
  exists (nu_of [2; 4; 5; 7; 8; 11; 12; 13; 15]%Z). split; vm_compute; reflexivity.
Qed.

Lemma main_with_blanks_result : forall fo,
  match compile_text fo default_options (fun _ => None) None (join [nl] main_with_blanks) with
  | (_, IOk c) => Some (map o_text (out fo c), e_user fo (final_env fo c), e_temp fo (final_env fo c), warnings fo c)
  | _ => None
  end = Some (out_main, vars_main fo, [], []).
Proof. intro fo. vm_compute. reflexivity. Qed.
