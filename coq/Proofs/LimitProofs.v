(* C14 -- depth and iteration limits are exact and end in compile errors, never in a hang
   (model fuel) or a host-language stack failure (KRecursion). *)
From Coq Require Import NArith ZArith List Bool Lia ZifyBool.
From DS Require Import Base PyStr Values Expr TabParse Tables Constants Interp LimitSpec CrashKinds.
Import ListNotations.

(* ================================================================== L1: the depth limit *)
Section Depth.
Variable fo : FloatOps.

Definition notrec (k : crashkind) : Prop := k <> KRecursion.

(* a runner that, given [bound] more levels of model depth than the configured limit can use,
   never fails with KRecursion *)
Definition NoRec (r : runner fo) (bound : nat) : Prop :=
  forall cx g e cmds,
    (stack_limit (c_opts cx) <= Z.of_nat (length (c_pile cx)) + 1 + Z.of_nat bound)%Z ->
    forall g' k, r cx g e cmds = (g', ICrash _ k) -> k <> KRecursion.

Lemma here_length : forall cx cur l2, length (here cx cur l2) = (length (c_pile cx) + 1)%nat.
Proof. intros. unfold here. rewrite app_length. reflexivity. Qed.

(* the limit check refuses every push once the pile has reached the limit *)
Lemma limit_check_refuses : forall cx,
  (stack_limit (c_opts cx) <= Z.of_nat (length (c_pile cx)) + 1)%Z ->
  cmp_eval stack_limit_op (pile_len cx) (stack_limit (c_opts cx)) = true.
Proof.
  intros cx H. unfold stack_limit_op, pile_len. cbn [cmp_eval]. apply Z.leb_le. lia.
Qed.

Lemma run_with_NoRec_0 : forall child, NoRec (run_with fo child) 0.
Proof.
  intros child cx g e cmds Hlim g' k Hrun.
  refine (run_with_kinds fo notrec child cx _ _ _ _ _ _ _ g e cmds k _); unfold notrec; try discriminate.
  - intro Hcmp. rewrite limit_check_refuses in Hcmp by lia. discriminate Hcmp.
  - rewrite Hrun. reflexivity.
Qed.

Lemma run_with_NoRec_S : forall child b, NoRec child b -> NoRec (run_with fo child) (S b).
Proof.
  intros child b Hc cx g e cmds Hlim g' k Hrun.
  refine (run_with_kinds fo notrec child cx _ _ _ _ _ _ _ g e cmds k _); unfold notrec; try discriminate.
  - intros _ cur l2 file g0 e0 code k0 Hk0.
    destruct (child _ g0 e0 code) as [g1 r1] eqn:Hch. cbn [snd] in Hk0. subst r1.
    refine (Hc _ _ _ _ _ _ _ Hch). cbn [c_opts c_pile]. rewrite here_length. lia.
  - rewrite Hrun. reflexivity.
Qed.

Lemma run_NoRec : forall d, NoRec (run fo d) d.
Proof.
  induction d as [|d IH]; cbn [run].
  - apply run_with_NoRec_0.
  - apply run_with_NoRec_S. exact IH.
Qed.

(* L1 *)
Theorem depth_limit_no_recursion_lemma : forall d cx g e cmds,
  (stack_limit (c_opts cx) <= Z.of_nat (length (c_pile cx)) + 1 + Z.of_nat d)%Z ->
  forall g' k, run fo d cx g e cmds = (g', ICrash _ k) -> k <> KRecursion.
Proof. intros d cx g e cmds H. exact (run_NoRec d cx g e cmds H). Qed.

(* corollary: Compiler.compile never fails with a host-language recursion error, for every
   options value (limits <= 0 included: then every push is refused) *)
Theorem compile_items_no_recursion_lemma : forall o fs file cmds g,
  compile_items fo o fs file cmds <> (g, ICrash _ KRecursion).
Proof.
  intros o fs file cmds g H. unfold compile_items in H.
  destruct (run fo (run_depth o) _ _ _ cmds) as [g1 [[cr e1]|er t|k|]] eqn:Hrun; try discriminate H.
  injection H as _ Hk. subst k.
  refine (depth_limit_no_recursion_lemma _ _ _ _ _ _ _ _ Hrun eq_refl).
  cbn [c_opts c_pile length]. unfold run_depth. lia.
Qed.

Theorem compile_raw_no_recursion_lemma : forall o fs file lines g,
  compile_raw fo o fs file lines <> (g, ICrash _ KRecursion).
Proof. intros. unfold compile_raw. apply compile_items_no_recursion_lemma. Qed.

Theorem compile_text_no_recursion_lemma : forall o fs file text g,
  compile_text fo o fs file text <> (g, ICrash _ KRecursion).
Proof.
  intros o fs file text g. unfold compile_text.
  destruct (prepare_text text) as [cmds|[| | | |]]; try discriminate.
  apply compile_items_no_recursion_lemma.
Qed.

End Depth.

(* ================================================================== L2: loop fuel suffices *)
Lemma loop_fuel_value : Z.of_nat loop_fuel = 20003%Z.
Proof. unfold loop_fuel. rewrite Z2Nat.id by (vm_compute; discriminate). reflexivity. Qed.

Section Loops.
Variable fo : FloatOps.

Lemma bindM_ok_inv : forall A B (m : M fo A) (f : A -> M fo B) s s' b,
  bindM fo m f s = (s', IOk _ b) -> exists a s1, m s = (s1, IOk _ a) /\ f a s1 = (s', IOk _ b).
Proof.
  intros A B m f s s' b H. unfold bindM in H.
  destruct (m s) as [s1 [a|er t|k|]]; try discriminate H.
  exists a, s1. split; [reflexivity | exact H].
Qed.

Lemma bindM_ext : forall A B (m : M fo A) (f g : A -> M fo B) s,
  (forall a s1, m s = (s1, IOk _ a) -> f a s1 = g a s1) -> bindM fo m f s = bindM fo m g s.
Proof.
  intros A B m f g s H. unfold bindM.
  destruct (m s) as [s1 [a|er t|k|]]; try reflexivity. apply H. reflexivity.
Qed.

Lemma ires_ok_bind_dep : forall (K : crashkind -> Prop) A B (m : M fo A) (f : A -> M fo B) s,
  ires_ok K (m s) -> (forall a s1, m s = (s1, IOk _ a) -> ires_ok K (f a s1)) ->
  ires_ok K (bindM fo m f s).
Proof.
  intros K A B m f s Hm Hf. unfold bindM.
  destruct (m s) as [s1 [a|er t|k|]].
  - apply Hf. reflexivity.
  - intros k Hk. discriminate Hk.
  - intros k' Hk. cbn [snd] in Hk. injection Hk as <-. apply Hm. reflexivity.
  - intros k Hk. discriminate Hk.
Qed.

(* Repeat.tokenize_count only succeeds with a count inside the configured bounds *)
Lemma tokenize_count_range : forall cx cur argument s s' n,
  tokenize_count fo cx cur argument s = (s', IOk _ n) -> (0 <= n <= 20000)%Z.
Proof.
  intros cx cur argument s s' n H. unfold tokenize_count in H.
  apply bindM_ok_inv in H. destruct H as [v [s1 [_ H]]].
  apply bindM_ok_inv in H. destruct H as [n0 [s2 [_ H]]].
  destruct (cmp_eval repeat_low_op n0 repeat_low || cmp_eval repeat_high_op n0 repeat_high) eqn:E.
  - discriminate H.
  - unfold ret in H. injection H as _ Hn. subst n0.
    apply orb_false_iff in E. destruct E as [E1 E2].
    unfold repeat_low_op, repeat_low in E1. unfold repeat_high_op, repeat_high in E2.
    cbn [cmp_eval] in E1, E2. apply Z.ltb_ge in E1. apply Z.ltb_ge in E2. lia.
Qed.

Section WithStack.
Variable child : runner fo.
Variable cx : ctx.
Variable cur : preline.

(* ---- (a) fuel independence: beyond the threshold the amount of fuel does not matter, i.e. the
        out-of-fuel branch of the loop itself is never taken.  Unconditional. *)
Lemma repeat_loop_fuel_indep : forall var_name argument code f1 f2 count acc s,
  (20000 <= Z.of_nat f1 + count)%Z -> (20000 <= Z.of_nat f2 + count)%Z ->
  repeat_loop fo child cx cur f1 var_name argument code count acc s =
  repeat_loop fo child cx cur f2 var_name argument code count acc s.
Proof.
  intros var_name argument code f1.
  induction f1 as [|f1 IH]; intros f2 count acc s H1 H2; destruct f2 as [|f2]; cbn [repeat_loop];
    try reflexivity; apply bindM_ext; intros n s1 Htc; apply tokenize_count_range in Htc;
    destruct (count <? n)%Z eqn:E; try reflexivity.
  - apply Z.ltb_lt in E. lia.
  - apply Z.ltb_lt in E. lia.
  - apply bindM_ext. intros cr s2 _.
    destruct (loop_signal (cr_sig cr)) as [sg brk]. destruct brk; [reflexivity|].
    apply IH; lia.
Qed.

Lemma while_loop_fuel_indep : forall var_name argument code f1 f2 count acc s,
  (20001 <= Z.of_nat f1 + count)%Z -> (20001 <= Z.of_nat f2 + count)%Z ->
  while_loop fo child cx cur f1 var_name argument code count acc s =
  while_loop fo child cx cur f2 var_name argument code count acc s.
Proof.
  intros var_name argument code f1.
  induction f1 as [|f1 IH]; intros f2 count acc s H1 H2; destruct f2 as [|f2]; cbn [while_loop];
    try reflexivity;
    destruct (cmp_eval while_limit_op count while_limit) eqn:E; try reflexivity;
    unfold while_limit_op, while_limit in E; cbn [cmp_eval] in E; apply Z.ltb_ge in E;
    try lia.
  apply bindM_ext. intros r s1 _. destruct r as [cr|]; [|reflexivity].
  destruct (loop_signal (cr_sig cr)) as [sg brk]. destruct brk; [reflexivity|].
  apply IH; lia.
Qed.

(* ---- (b) crash kinds of the loops without assuming K KOutOfFuel *)
Variable K : crashkind -> Prop.
Hypothesis Hchild : child_ok fo K child cx.
Hypothesis Htok : forall vars s, res_ok K (tokenize fo vars s).
Hypothesis HOther : K KOther.

Lemma repeat_loop_enough_fuel_ok : forall var_name argument code fuel count acc,
  (20000 <= Z.of_nat fuel + count)%Z ->
  M_ok K (repeat_loop fo child cx cur fuel var_name argument code count acc).
Proof.
  intros var_name argument code fuel.
  induction fuel as [|f IH]; intros count acc Hf s; cbn [repeat_loop];
    (apply ires_ok_bind_dep; [apply tokenize_count_ok; exact Htok|]);
    intros n s1 Htc; apply tokenize_count_range in Htc;
    destruct (count <? n)%Z eqn:E; try apply M_ok_ret.
  - apply Z.ltb_lt in E. lia.
  - revert s1. apply M_ok_bind.
    + apply run_child_ok; try assumption. intro; apply bind_counter_ok.
    + intro cr. destruct (loop_signal (cr_sig cr)) as [sg brk].
      destruct brk; [apply M_ok_ret | apply IH; lia].
Qed.

Lemma while_loop_enough_fuel_ok : forall var_name argument code fuel count acc,
  (20001 <= Z.of_nat fuel + count)%Z ->
  M_ok K (while_loop fo child cx cur fuel var_name argument code count acc).
Proof.
  intros var_name argument code fuel.
  induction fuel as [|f IH]; intros count acc Hf; cbn [while_loop];
    destruct (cmp_eval while_limit_op count while_limit) eqn:E; try apply M_ok_raise;
    unfold while_limit_op, while_limit in E; cbn [cmp_eval] in E; apply Z.ltb_ge in E;
    try lia.
  apply M_ok_bind.
  - apply run_child_with_ok; try assumption; [intro; apply bind_counter_ok|].
    intro ce. apply res_ok_bind; [apply Htok | intro; ok_leaf].
  - intros [cr|]; [|apply M_ok_ret].
    destruct (loop_signal (cr_sig cr)) as [sg brk].
    destruct brk; [apply M_ok_ret | apply IH; lia].
Qed.

End WithStack.

(* ---- L2, final forms, with the generated constants and loop_fuel *)
Theorem repeat_loop_fuel_irrelevant_lemma : forall child cx cur var_name argument code acc extra s,
  repeat_loop fo child cx cur (loop_fuel + extra) var_name argument code 0 acc s =
  repeat_loop fo child cx cur loop_fuel var_name argument code 0 acc s.
Proof.
  intros. apply repeat_loop_fuel_indep; rewrite ?Nat2Z.inj_add, loop_fuel_value; lia.
Qed.

Theorem while_loop_fuel_irrelevant_lemma : forall child cx cur var_name argument code acc extra s,
  while_loop fo child cx cur (loop_fuel + extra) var_name argument code 0 acc s =
  while_loop fo child cx cur loop_fuel var_name argument code 0 acc s.
Proof.
  intros. apply while_loop_fuel_indep; rewrite ?Nat2Z.inj_add, loop_fuel_value; lia.
Qed.

Definition not_fuel (k : crashkind) : Prop := k <> KOutOfFuel.

Theorem repeat_loop_no_fuel_crash_lemma : forall child cx cur var_name argument code acc,
  (forall vars s, tokenize fo vars s <> Crash KOutOfFuel) ->
  (forall cx' g e c g', child cx' g e c <> (g', ICrash _ KOutOfFuel)) ->
  forall s s',
    repeat_loop fo child cx cur loop_fuel var_name argument code 0 acc s <> (s', ICrash _ KOutOfFuel).
Proof.
  intros child cx cur var_name argument code acc Htok Hchild s s' H.
  refine (repeat_loop_enough_fuel_ok child cx cur not_fuel _ _ _ var_name argument code
            loop_fuel 0%Z acc _ s KOutOfFuel _ eq_refl); unfold not_fuel.
  - intros _ cur0 l2 file g e c k Hk Hk0. subst k.
    destruct (child _ g e c) as [g1 r1] eqn:Hch. cbn [snd] in Hk. subst r1.
    exact (Hchild _ _ _ _ _ Hch).
  - intros vars s0 k Hk Hk0. subst k. exact (Htok _ _ Hk).
  - discriminate.
  - rewrite loop_fuel_value. lia.
  - rewrite H. reflexivity.
Qed.

Theorem while_loop_no_fuel_crash_lemma : forall child cx cur var_name argument code acc,
  (forall vars s, tokenize fo vars s <> Crash KOutOfFuel) ->
  (forall cx' g e c g', child cx' g e c <> (g', ICrash _ KOutOfFuel)) ->
  forall s s',
    while_loop fo child cx cur loop_fuel var_name argument code 0 acc s <> (s', ICrash _ KOutOfFuel).
Proof.
  intros child cx cur var_name argument code acc Htok Hchild s s' H.
  refine (while_loop_enough_fuel_ok child cx cur not_fuel _ _ var_name argument code
            loop_fuel 0%Z acc _ s KOutOfFuel _ eq_refl); unfold not_fuel.
  - intros _ cur0 l2 file g e c k Hk Hk0. subst k.
    destruct (child _ g e c) as [g1 r1] eqn:Hch. cbn [snd] in Hk. subst r1.
    exact (Hchild _ _ _ _ _ Hch).
  - intros vars s0 k Hk Hk0. subst k. exact (Htok _ _ Hk).
  - rewrite loop_fuel_value. lia.
  - rewrite H. reflexivity.
Qed.

End Loops.

(* ================================================================== L3: exactness on nested IFs *)
Lemma nest_at_nonempty : forall k n, nest_at n k <> [].
Proof. intros [|k] n; cbn [nest_at]; discriminate. Qed.

Section Exact.
Variable fo : FloatOps.

Notation env_if := (env_if fo).
Notation env_after := (env_after fo).

Lemma tok_TRUE :
  tokenize fo [(default_delay_var, VInt 0); (if_success, VBool false)] [84;82;85;69]%N = Ok (VBool true).
Proof. vm_compute. reflexivity. Qed.

Lemma update_env_if_after : forall k, update_from_env fo env_if (env_after k) = env_if.
Proof. intros [|k]; vm_compute; reflexivity. Qed.

Section Step.
Variable child : runner fo.
Variable cx : ctx.

Lemma run_with_string : forall n g,
  run_with fo child cx g (initial_env fo) [Ln s_STRING_x n] =
  (g, IOk _ (mkCret [mkO (ByCommand s_String) s_STRING_x] SNormal, initial_env fo)).
Proof. intros n g. unfold run_with. cbn. reflexivity. Qed.

(* one IF level: the limit check, then the block in a child stack whose pile is one longer *)
Lemma run_with_if : forall n b g, b <> [] ->
  run_with fo child cx g (initial_env fo) [Ln s_IF_TRUE n; Blk b] =
  if cmp_eval stack_limit_op (pile_len cx) (stack_limit (c_opts cx))
  then (g, IErr _ EStackOverflow (Some (here cx (s_IF_TRUE, n) None)))
  else match child (mkCtx (c_opts cx) (c_fs cx) (here cx (s_IF_TRUE, n) None) (c_file cx))
                   g (initial_env fo) b with
       | (g', IOk _ (cr, cenv2)) =>
           (g', IOk _ (mkCret (cr_data cr) (cr_sig cr), update_from_env fo env_if cenv2))
       | (g', IErr _ e t) => (g', IErr _ e t)
       | (g', ICrash _ k) => (g', ICrash _ k)
       | (g', IUnmod _) => (g', IUnmod _)
       end.
Proof.
  intros n b g Hb. destruct b as [|x r]; [contradiction|]. unfold run_with.
  cbn -[run_child_with].
  unfold block_compile.
  unfold bindM, ret, get_env, set_temp_flag, get_temp_flag, tokenizeM, lift, set_env.
  cbn -[run_child_with tokenize].
  rewrite tok_TRUE.
  unfold run_child, bindM, run_child_with.
  cbn -[cmp_eval pile_len here].
  change (append_env fo (empty_env fo) _) with (initial_env fo).
  change (mkEnv fo [(default_delay_var, VInt 0)] [] [(if_success, VBool true)] []) with env_if.
  unfold stack_limit_op. cbn [cmp_eval].
  destruct (stack_limit (c_opts cx) <=? pile_len cx)%Z; [reflexivity|].
  destruct (child _ g (initial_env fo) (x :: r)) as [g' [[cr cenv2]|e t|k|]]; try reflexivity.
  cbn. destruct (cr_sig cr); reflexivity.
Qed.

End Step.

Lemma limit_check_passes : forall cx,
  (Z.of_nat (length (c_pile cx)) + 1 < stack_limit (c_opts cx))%Z ->
  cmp_eval stack_limit_op (pile_len cx) (stack_limit (c_opts cx)) = false.
Proof.
  intros cx H. unfold stack_limit_op, pile_len. cbn [cmp_eval]. apply Z.leb_gt. lia.
Qed.

(* (A) too deep: the chain ends in StackOverflowError (a compile error), whatever the model depth
   beyond what the limit can use *)
Lemma nest_overflow : forall o fs file k d pile n g,
  (1 <= k)%nat ->
  (stack_limit o <= Z.of_nat (length pile) + Z.of_nat k)%Z ->
  (stack_limit o - Z.of_nat (length pile) - 1 <= Z.of_nat d)%Z ->
  exists t, run fo d (mkCtx o fs pile file) g (initial_env fo) (nest_at n k)
            = (g, IErr _ EStackOverflow (Some t)).
Proof.
  intros o fs file k. induction k as [|k IH]; intros d pile n g Hk HL Hd; [lia|].
  cbn [nest_at].
  assert (Hrun : run fo d = run_with fo (match d with O => no_child fo | S d' => run fo d' end))
    by (destruct d; reflexivity).
  rewrite Hrun. rewrite run_with_if by apply nest_at_nonempty.
  destruct (cmp_eval stack_limit_op _ _) eqn:Hcmp; [eexists; reflexivity|].
  unfold stack_limit_op, pile_len in Hcmp. cbn [cmp_eval c_pile c_opts] in Hcmp.
  apply Z.leb_gt in Hcmp.
  destruct d as [|d']; [lia|].
  cbn [c_opts c_fs c_file].
  destruct (IH d' (here (mkCtx o fs pile file) (s_IF_TRUE, n) None) (n + 1)%Z g) as [t Ht].
  - lia.
  - rewrite here_length. cbn [c_pile]. lia.
  - rewrite here_length. cbn [c_pile]. lia.
  - rewrite Ht. eexists; reflexivity.
Qed.

(* (B) within the limit: the chain compiles, to the single line STRING x *)
Lemma nest_within : forall o fs file k d pile n g,
  (Z.of_nat (length pile) + Z.of_nat k < stack_limit o)%Z ->
  (k <= d)%nat ->
  run fo d (mkCtx o fs pile file) g (initial_env fo) (nest_at n k)
  = (g, IOk _ (mkCret [mkO (ByCommand s_String) s_STRING_x] SNormal, env_after k)).
Proof.
  intros o fs file k. induction k as [|k IH]; intros d pile n g HL Hd.
  - cbn [nest_at env_after].
    assert (Hrun : run fo d = run_with fo (match d with O => no_child fo | S d' => run fo d' end))
      by (destruct d; reflexivity).
    rewrite Hrun. apply run_with_string.
  - destruct d as [|d']; [lia|]. cbn [nest_at run env_after].
    rewrite run_with_if by apply nest_at_nonempty.
    rewrite limit_check_passes by (cbn [c_pile c_opts]; lia).
    cbn [c_opts c_fs c_file].
    rewrite IH.
    + rewrite update_env_if_after. reflexivity.
    + rewrite here_length. cbn [c_pile]. lia.
    + lia.
Qed.

(* L3: through Compiler.compile, for every limit L >= 1 *)
Theorem nest_compile_within_lemma : forall o fs file n k,
  (Z.of_nat k < stack_limit o)%Z ->
  compile_items fo o fs file (nest_at n k) =
  (mkGlob [] [], IOk _ (mkCompiled fo [mkO (ByCommand s_String) s_STRING_x] [] (env_after k) [])).
Proof.
  intros o fs file n k H. unfold compile_items.
  rewrite nest_within; [reflexivity | cbn [length]; lia | unfold run_depth; lia].
Qed.

Theorem nest_compile_overflow_lemma : forall o fs file n k,
  (1 <= stack_limit o)%Z -> (stack_limit o <= Z.of_nat k)%Z ->
  exists t, compile_items fo o fs file (nest_at n k) = (mkGlob [] [], IErr _ EStackOverflow (Some t)).
Proof.
  intros o fs file n k H1 H. unfold compile_items.
  destruct (nest_overflow o fs file k (run_depth o) [] n (mkGlob [] [])) as [t Ht].
  - lia.
  - cbn [length]. lia.
  - unfold run_depth. cbn [length]. lia.
  - rewrite Ht. exists t. reflexivity.
Qed.

Theorem nest_exact_lemma : forall o fs file n k,
  (1 <= stack_limit o)%Z ->
  ((exists g c, compile_items fo o fs file (nest_at n k) = (g, IOk _ c)) <-> (Z.of_nat k < stack_limit o)%Z).
Proof.
  intros o fs file n k H1. split.
  - intros [g [c Hc]]. destruct (Z_lt_le_dec (Z.of_nat k) (stack_limit o)) as [Hlt|Hge]; [exact Hlt|].
    destruct (nest_compile_overflow_lemma o fs file n k H1 Hge) as [t Ht].
    rewrite Ht in Hc. discriminate Hc.
  - intro Hlt. eexists. eexists. apply nest_compile_within_lemma. exact Hlt.
Qed.

End Exact.

(* sanity: [nest_at 1 k] is what the tab parser produces for the tab-indented source text
   "IF TRUE\n\tIF TRUE\n\t\tSTRING x" (k = 2) *)
Example nest_at_is_parsed_text :
  prepare_text (s_IF_TRUE ++ [10;9] ++ s_IF_TRUE ++ [10;9;9] ++ s_STRING_x)%N = TOk (nest_at 1 2).
Proof. vm_compute. reflexivity. Qed.
