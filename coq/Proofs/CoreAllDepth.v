(* CoreAllDepth -- EXACTNESS OF THE DEPTH INDEX of the unified reference semantics (Spec/CoreAll.v)
   against the failure judgement (Spec/CoreAllErr.v), on the specifications alone:
     [exec_or_overflow_all]   a derivation at index D gives, at EVERY index d <= D, either the same
                              derivation or a FAILURE derivation of class StackOverflow;
     [depth_needed]           below the minimal depth of a program every index fails with StackOverflow,
                              from the minimal depth on every index succeeds with the same results;
     [min_depth_app]          statements that follow one another consume no depth (max);
     [min_depth_S]            a block / call / import consumes exactly one level. *)
From Coq Require Import NArith ZArith List Bool Lia.
From DS Require Import Base PyStr Values Expr TabParse IdentSpec CoreLang CoreFunc CoreErr CoreAll CoreAllErr CoreAllDet.
Import ListNotations.

(* the least index at which R holds *)
Definition min_depth (R : nat -> Prop) (d0 : nat) : Prop := R d0 /\ forall d, d < d0 -> ~ R d.

Lemma min_depth_unique : forall R a b, min_depth R a -> min_depth R b -> a = b.
Proof.
  intros R a b [Ha Hla] [Hb Hlb].
  destruct (Nat.lt_trichotomy a b) as [H|[H|H]]; [exfalso; exact (Hlb a H Ha)|exact H|exfalso; exact (Hla b H Hb)].
Qed.

(* a block: R d <-> d = S d' and B d' *)
Lemma min_depth_S : forall (R B : nat -> Prop) b,
  (forall d, R d <-> exists d', d = S d' /\ B d') -> min_depth B b -> min_depth R (S b).
Proof.
  intros R B b HR [Hb Hlb]. split.
  - apply HR. exists b. split; [reflexivity|exact Hb].
  - intros d Hd Hr. apply HR in Hr. destruct Hr as (d' & -> & Hd'). apply (Hlb d'); [lia|exact Hd'].
Qed.

Section Depth.
Variable fo : FloatOps.
Variable sys : store fo.
Variable prog : program.
Variable inc : bool.
Variable sup : bool.

Notation exec := (CoreAll.exec fo sys prog inc sup).
Notation exec_list := (CoreAll.exec_list fo sys prog inc sup).
Notation exec_arms := (CoreAll.exec_arms fo sys prog inc sup).
Notation exec_repeat := (CoreAll.exec_repeat fo sys prog inc sup).
Notation exec_while := (CoreAll.exec_while fo sys prog inc sup).
Notation fails := (CoreAllErr.fails fo sys prog inc sup).
Notation fails_list := (CoreAllErr.fails_list fo sys prog inc sup).
Notation fails_arms := (CoreAllErr.fails_arms fo sys prog inc sup).
Notation fails_repeat := (CoreAllErr.fails_repeat fo sys prog inc sup).
Notation fails_while := (CoreAllErr.fails_while fo sys prog inc sup).

(* ================================================================== more stacks never hurt *)
Lemma mono_S_all :
  (forall d pile cf n F f vs s sg F' f' vs' out ev,
     exec d pile cf n F f vs s sg F' f' vs' out ev -> exec (S d) pile cf n F f vs s sg F' f' vs' out ev) /\
  (forall d pile cf n F f vs p sg F' f' vs' out ev,
     exec_list d pile cf n F f vs p sg F' f' vs' out ev -> exec_list (S d) pile cf n F f vs p sg F' f' vs' out ev) /\
  (forall d pile cf first n F b vs arms els sg taken vs' out ev,
     exec_arms d pile cf first n F b vs arms els sg taken vs' out ev ->
     exec_arms (S d) pile cf first n F b vs arms els sg taken vs' out ev) /\
  (forall d pile cf n F f c e body k vs sg vs' out ev,
     exec_repeat d pile cf n F f c e body k vs sg vs' out ev ->
     exec_repeat (S d) pile cf n F f c e body k vs sg vs' out ev) /\
  (forall d pile cf n F c e body k vs sg vs' out ev,
     exec_while d pile cf n F c e body k vs sg vs' out ev ->
     exec_while (S d) pile cf n F c e body k vs sg vs' out ev).
Proof.
  apply (CoreAll.exec_all_mind fo sys prog inc sup
           (fun d pile cf n F f vs s sg F' f' vs' out ev => exec (S d) pile cf n F f vs s sg F' f' vs' out ev)
           (fun d pile cf n F f vs p sg F' f' vs' out ev => exec_list (S d) pile cf n F f vs p sg F' f' vs' out ev)
           (fun d pile cf first n F b vs arms els sg taken vs' out ev =>
              exec_arms (S d) pile cf first n F b vs arms els sg taken vs' out ev)
           (fun d pile cf n F f c e body k vs sg vs' out ev => exec_repeat (S d) pile cf n F f c e body k vs sg vs' out ev)
           (fun d pile cf n F c e body k vs sg vs' out ev => exec_while (S d) pile cf n F c e body k vs sg vs' out ev));
    intros; econstructor; eauto.
Qed.

Lemma exec_mono_le : forall d d' pile cf n F f vs s sg F' f' vs' out ev,
  d <= d' -> exec d pile cf n F f vs s sg F' f' vs' out ev -> exec d' pile cf n F f vs s sg F' f' vs' out ev.
Proof.
  intros d d' pile cf n F f vs s sg F' f' vs' out ev Hle H. induction Hle as [|m Hle IH]; [exact H|].
  exact (proj1 mono_S_all _ _ _ _ _ _ _ _ _ _ _ _ _ _ IH).
Qed.

Lemma exec_list_mono_le : forall d d' pile cf n F f vs p sg F' f' vs' out ev,
  d <= d' -> exec_list d pile cf n F f vs p sg F' f' vs' out ev -> exec_list d' pile cf n F f vs p sg F' f' vs' out ev.
Proof.
  intros d d' pile cf n F f vs p sg F' f' vs' out ev Hle H. induction Hle as [|m Hle IH]; [exact H|].
  exact (proj1 (proj2 mono_S_all) _ _ _ _ _ _ _ _ _ _ _ _ _ _ IH).
Qed.

(* the results do not depend on the index *)
Lemma exec_list_same_results : forall d1 d2 pile cf n F f vs p sg1 F1 f1 vs1 o1 e1 sg2 F2 f2 vs2 o2 e2,
  exec_list d1 pile cf n F f vs p sg1 F1 f1 vs1 o1 e1 ->
  exec_list d2 pile cf n F f vs p sg2 F2 f2 vs2 o2 e2 ->
  sg1 = sg2 /\ F1 = F2 /\ f1 = f2 /\ vs1 = vs2 /\ o1 = o2 /\ e1 = e2.
Proof.
  intros d1 d2 pile cf n F f vs p sg1 F1 f1 vs1 o1 e1 sg2 F2 f2 vs2 o2 e2 H1 H2.
  apply (exec_list_mono_le d1 (Nat.max d1 d2)) in H1; [|lia].
  apply (exec_list_mono_le d2 (Nat.max d1 d2)) in H2; [|lia].
  exact (exec_list_det fo sys prog inc sup _ _ _ _ _ _ _ _ _ _ _ _ _ _ _ _ _ _ _ _ H1 H2).
Qed.

(* ================================================================== with less room: the same, or StackOverflow *)
Hypothesis Hprog : prog_names_ok prog.

Definition O_stmt (D : nat) pile cf n F f vs s (sg : fsig) (F' : utable) (f' : option bool) (vs' : store fo)
           (out : list uline) (ev : list event) : Prop :=
  forall d, d <= D -> tab_names_ok F -> unames_ok s ->
    exec d pile cf n F f vs s sg F' f' vs' out ev \/
    exists ch ev', fails d pile cf n F f vs s EStackOverflow ch ev'.
Definition O_list (D : nat) pile cf n F f vs p (sg : fsig) (F' : utable) (f' : option bool) (vs' : store fo)
           (out : list uline) (ev : list event) : Prop :=
  forall d, d <= D -> tab_names_ok F -> unames_ok_list p ->
    exec_list d pile cf n F f vs p sg F' f' vs' out ev \/
    exists ch ev', fails_list d pile cf n F f vs p EStackOverflow ch ev'.
Definition O_arms (D : nat) pile cf first n F b vs arms els (sg : fsig) (t : bool) (vs' : store fo)
           (out : list uline) (ev : list event) : Prop :=
  forall d, d <= D -> tab_names_ok F -> arms_names_ok arms els ->
    exec_arms d pile cf first n F b vs arms els sg t vs' out ev \/
    exists ch ev', fails_arms d pile cf first n F b vs arms els EStackOverflow ch ev'.
Definition O_repeat (D : nat) pile cf n F f c e body k vs (sg : fsig) (vs' : store fo)
           (out : list uline) (ev : list event) : Prop :=
  forall d, d <= D -> tab_names_ok F -> unames_ok_list body ->
    exec_repeat d pile cf n F f c e body k vs sg vs' out ev \/
    exists ch ev', fails_repeat d pile cf n F f c e body k vs EStackOverflow ch ev'.
Definition O_while (D : nat) pile cf n F c e body k vs (sg : fsig) (vs' : store fo)
           (out : list uline) (ev : list event) : Prop :=
  forall d, d <= D -> tab_names_ok F -> unames_ok_list body ->
    exec_while d pile cf n F c e body k vs sg vs' out ev \/
    exists ch ev', fails_while d pile cf n F c e body k vs EStackOverflow ch ev'.

Theorem exec_or_overflow_all :
  (forall D pile cf n F f vs s sg F' f' vs' out ev,
     exec D pile cf n F f vs s sg F' f' vs' out ev -> O_stmt D pile cf n F f vs s sg F' f' vs' out ev) /\
  (forall D pile cf n F f vs p sg F' f' vs' out ev,
     exec_list D pile cf n F f vs p sg F' f' vs' out ev -> O_list D pile cf n F f vs p sg F' f' vs' out ev) /\
  (forall D pile cf first n F b vs arms els sg t vs' out ev,
     exec_arms D pile cf first n F b vs arms els sg t vs' out ev ->
     O_arms D pile cf first n F b vs arms els sg t vs' out ev) /\
  (forall D pile cf n F f c e body k vs sg vs' out ev,
     exec_repeat D pile cf n F f c e body k vs sg vs' out ev ->
     O_repeat D pile cf n F f c e body k vs sg vs' out ev) /\
  (forall D pile cf n F c e body k vs sg vs' out ev,
     exec_while D pile cf n F c e body k vs sg vs' out ev ->
     O_while D pile cf n F c e body k vs sg vs' out ev).
Proof.
  apply CoreAll.exec_all_mind; unfold O_stmt, O_list, O_arms, O_repeat, O_while;
    try (intros; left; econstructor; eauto; fail).
  - (* E_If *)
    intros D pile cf n F f vs arms els sg taken vs' out ev _ IH d Hle HF Hn.
    destruct (IH d Hle HF Hn) as [H|(ch & ev' & H)]; [left; constructor; exact H|].
    right. exists ch, ev'. apply F_If. exact H.
  - (* E_Repeat *)
    intros D pile cf n F f vs c e body sg vs' out ev _ IH d Hle HF Hn.
    destruct (IH d Hle HF Hn) as [H|(ch & ev' & H)]; [left; constructor; exact H|].
    right. exists ch, ev'. apply F_Repeat. exact H.
  - (* E_While *)
    intros D pile cf n F f vs c e body sg vs' out ev _ IH d Hle HF Hn.
    destruct (IH d Hle HF Hn) as [H|(ch & ev' & H)]; [left; constructor; exact H|].
    right. exists ch, ev'. apply F_While. exact H.
  - (* E_Run *)
    intros D pile cf n F f vs name args vals df sg F1 f1 vs1 out ev Hargs Hlk Hlen _ IH Hsg d Hle HF Hn.
    destruct d as [|d1].
    + right. eexists. eexists. eapply F_RunOverflow; eauto.
    + destruct (IH d1 ltac:(lia) HF (tab_names_lookup F name df HF Hlk)) as [H|(ch & ev' & H)].
      * left. eapply E_Run; eauto.
      * right. eexists. eexists. eapply F_RunBody; eauto.
  - (* E_Start *)
    intros D pile cf n F f vs k name stmts sg F1 f1 vs1 out ev Hlk Hnot _ IH d Hle HF Hn.
    destruct d as [|d1].
    + right. eexists. eexists. eapply F_StartOverflow; eauto.
    + destruct (IH d1 ltac:(lia) HF (Hprog name stmts Hlk)) as [H|(ch & ev' & H)].
      * left. eapply E_Start; eauto.
      * right. eexists. eexists. eapply F_StartBody; eauto.
  - (* L_Cons *)
    intros D pile cf n F f vs s r F1 f1 vs1 o1 e1 sg F2 f2 vs2 o2 e2 Hs IHs Hr IHr d Hle HF [Hns Hnr].
    destruct (IHs d Hle HF Hns) as [H|(ch & ev' & H)].
    + assert (HF1 : tab_names_ok F1) by (eapply (exec_names fo sys prog inc sup Hprog); eauto).
      destruct (IHr d Hle HF1 Hnr) as [H2|(ch & ev' & H2)].
      * left. eapply L_Cons; eauto.
      * right. eexists. eexists. eapply FL_Later; eauto.
    + right. eexists. eexists. eapply FL_Here; eauto.
  - (* L_Stop *)
    intros D pile cf n F f vs s r sg F1 f1 vs1 o1 e1 Hs IHs Hne d Hle HF [Hns Hnr].
    destruct (IHs d Hle HF Hns) as [H|(ch & ev' & H)].
    + left. eapply L_Stop; eauto.
    + right. eexists. eexists. eapply FL_Here; eauto.
  - (* A_Take *)
    intros D pile cf first n F b vs c body rest els v sg F1 f1 vs1 out ev Hev Htr _ IH Hrest d Hle HF [[Hb Hr] He].
    destruct d as [|d1].
    + right. eexists. eexists. eapply FA_Overflow; eauto.
    + destruct (IH d1 ltac:(lia) HF Hb) as [H|(ch & ev' & H)].
      * left. eapply A_Take; eauto.
      * right. eexists. eexists. eapply FA_Body; eauto.
  - (* A_Skip *)
    intros D pile cf first n F b vs c body rest els v sg taken vs' out ev Hev Htr _ IH d Hle HF [[Hb Hr] He].
    destruct (IH d Hle HF (conj Hr He)) as [H|(ch & ev' & H)].
    + left. eapply A_Skip; eauto.
    + right. eexists. eexists. eapply FA_Skip; eauto.
  - (* A_Else *)
    intros D pile cf first n F b vs body sg F1 f1 vs1 out ev _ IH d Hle HF [_ He].
    destruct d as [|d1].
    + right. eexists. eexists. eapply FA_ElseOverflow.
    + destruct (IH d1 ltac:(lia) HF He) as [H|(ch & ev' & H)].
      * left. eapply A_Else; eauto.
      * right. eexists. eexists. eapply FA_Else; eauto.
  - (* R_Iter *)
    intros D pile cf n F f c e body k vs v m sg F1 f1 vs1 o1 e1 sg' vs' o2 e2 Hev Hc Hr Hk _ IHb Hgo _ IHr d Hle HF Hn.
    destruct d as [|d1].
    + right. eexists. eexists. eapply FR_Overflow; eauto.
    + destruct (IHb d1 ltac:(lia) HF Hn) as [H|(ch & ev' & H)].
      * destruct (IHr (S d1) Hle HF Hn) as [H2|(ch & ev' & H2)].
        -- left. eapply R_Iter; eauto.
        -- right. eexists. eexists. eapply FR_Iter; eauto.
      * right. eexists. eexists. eapply FR_Body; eauto.
  - (* R_Stop *)
    intros D pile cf n F f c e body k vs v m sg F1 f1 vs1 o1 e1 Hev Hc Hr Hk _ IHb Hst d Hle HF Hn.
    destruct d as [|d1].
    + right. eexists. eexists. eapply FR_Overflow; eauto.
    + destruct (IHb d1 ltac:(lia) HF Hn) as [H|(ch & ev' & H)].
      * left. eapply R_Stop; eauto.
      * right. eexists. eexists. eapply FR_Body; eauto.
  - (* W_Done *)
    intros D pile cf n F c e body k vs v Hk Hev Htr d Hle HF Hn.
    destruct d as [|d1].
    + right. eexists. eexists. eapply FW_Overflow; eauto.
    + left. eapply W_Done; eauto.
  - (* W_Iter *)
    intros D pile cf n F c e body k vs v sg F1 f1 vs1 o1 e1 sg' vs' o2 e2 Hk Hev Htr _ IHb Hgo _ IHr d Hle HF Hn.
    destruct d as [|d1].
    + right. eexists. eexists. eapply FW_Overflow; eauto.
    + destruct (IHb d1 ltac:(lia) HF Hn) as [H|(ch & ev' & H)].
      * destruct (IHr (S d1) Hle HF Hn) as [H2|(ch & ev' & H2)].
        -- left. eapply W_Iter; eauto.
        -- right. eexists. eexists. eapply FW_Iter; eauto.
      * right. eexists. eexists. eapply FW_Body; eauto.
  - (* W_Stop *)
    intros D pile cf n F c e body k vs v sg F1 f1 vs1 o1 e1 Hk Hev Htr _ IHb Hst d Hle HF Hn.
    destruct d as [|d1].
    + right. eexists. eexists. eapply FW_Overflow; eauto.
    + destruct (IHb d1 ltac:(lia) HF Hn) as [H|(ch & ev' & H)].
      * left. eapply W_Stop; eauto.
      * right. eexists. eexists. eapply FW_Body; eauto.
Qed.

Theorem exec_list_or_overflow : forall D d pile cf n F f vs p sg F' f' vs' out ev,
  exec_list D pile cf n F f vs p sg F' f' vs' out ev -> tab_names_ok F -> unames_ok_list p -> d <= D ->
  exec_list d pile cf n F f vs p sg F' f' vs' out ev \/
  exists ch ev', fails_list d pile cf n F f vs p EStackOverflow ch ev'.
Proof.
  intros D d pile cf n F f vs p sg F' f' vs' out ev H HF Hn Hle.
  exact (proj1 (proj2 exec_or_overflow_all) _ _ _ _ _ _ _ _ _ _ _ _ _ _ H d Hle HF Hn).
Qed.

(* the step form: a derivation at S d and none at d: StackOverflow at d *)
Theorem depth_needed_step : forall d pile cf n F f vs p sg F' f' vs' out ev,
  tab_names_ok F -> unames_ok_list p ->
  exec_list (S d) pile cf n F f vs p sg F' f' vs' out ev ->
  ~ exec_list d pile cf n F f vs p sg F' f' vs' out ev ->
  forall d', d' <= d -> exists ch ev', fails_list d' pile cf n F f vs p EStackOverflow ch ev'.
Proof.
  intros d pile cf n F f vs p sg F' f' vs' out ev HF Hn H Hno d' Hle.
  destruct (exec_list_or_overflow (S d) d' _ _ _ _ _ _ _ _ _ _ _ _ _ H HF Hn ltac:(lia)) as [H'|H']; [|exact H'].
  exfalso. apply Hno. exact (exec_list_mono_le d' d _ _ _ _ _ _ _ _ _ _ _ _ _ Hle H').
Qed.

(* THE MINIMAL DEPTH d0 of a statement list (in a given start state): derivations exist exactly
   from d0 on, all with the same results; below d0 there is a StackOverflow failure derivation --
   and (disjointness) no success derivation whatever its results *)
Theorem depth_needed : forall d0 pile cf n F f vs p sg F' f' vs' out ev,
  tab_names_ok F -> unames_ok_list p ->
  min_depth (fun d => exec_list d pile cf n F f vs p sg F' f' vs' out ev) d0 ->
  forall d,
    (d0 <= d -> exec_list d pile cf n F f vs p sg F' f' vs' out ev) /\
    (d < d0 -> (exists ch ev', fails_list d pile cf n F f vs p EStackOverflow ch ev') /\
               forall sg2 F2 f2 vs2 o2 e2, ~ exec_list d pile cf n F f vs p sg2 F2 f2 vs2 o2 e2).
Proof.
  intros d0 pile cf n F f vs p sg F' f' vs' out ev HF Hn [H0 Hlt] d. split.
  - intro Hle. exact (exec_list_mono_le d0 d _ _ _ _ _ _ _ _ _ _ _ _ _ Hle H0).
  - intro Hd.
    assert (Hf : exists ch ev', fails_list d pile cf n F f vs p EStackOverflow ch ev').
    { destruct (exec_list_or_overflow d0 d _ _ _ _ _ _ _ _ _ _ _ _ _ H0 HF Hn ltac:(lia)) as [H'|H']; [|exact H'].
      exfalso. exact (Hlt d Hd H'). }
    split; [exact Hf|].
    intros sg2 F2 f2 vs2 o2 e2 H2. destruct Hf as (ch & ev' & Hf).
    exact (exec_list_fails_disjoint fo sys prog inc sup Hprog _ _ _ _ _ _ _ _ _ _ _ _ _ _ _ _ _ HF Hn H2 Hf).
Qed.

(* the minimal depth does not depend on which results one asks for *)
Lemma min_depth_any_results : forall d0 pile cf n F f vs p sg F' f' vs' out ev,
  min_depth (fun d => exec_list d pile cf n F f vs p sg F' f' vs' out ev) d0 <->
  (exec_list d0 pile cf n F f vs p sg F' f' vs' out ev /\
   min_depth (fun d => exists sg2 F2 f2 vs2 o2 e2, exec_list d pile cf n F f vs p sg2 F2 f2 vs2 o2 e2) d0).
Proof.
  intros d0 pile cf n F f vs p sg F' f' vs' out ev. split.
  - intros [H0 Hlt]. split; [exact H0|]. split; [do 6 eexists; exact H0|].
    intros d Hd (sg2 & F2 & f2 & vs2 & o2 & e2 & H2).
    destruct (exec_list_same_results _ _ _ _ _ _ _ _ _ _ _ _ _ _ _ _ _ _ _ _ _ H0 H2) as (-> & -> & -> & -> & -> & ->).
    exact (Hlt d Hd H2).
  - intros [H0 [_ Hlt]]. split; [exact H0|]. intros d Hd H. apply (Hlt d Hd). do 6 eexists. exact H.
Qed.

End Depth.

(* ================================================================== sequences and blocks *)
Section Shape.
Variable fo : FloatOps.
Variable sys : store fo.
Variable prog : program.
Variable inc : bool.
Variable sup : bool.

Notation exec := (CoreAll.exec fo sys prog inc sup).
Notation exec_list := (CoreAll.exec_list fo sys prog inc sup).
Notation exec_arms := (CoreAll.exec_arms fo sys prog inc sup).

Lemma exec_list_app : forall a b d pile cf n F f vs F1 f1 vs1 o1 e1 sg F2 f2 vs2 o2 e2,
  exec_list d pile cf n F f vs a Normal F1 f1 vs1 o1 e1 ->
  exec_list d pile cf (n + sum_sizes usize a) F1 f1 vs1 b sg F2 f2 vs2 o2 e2 ->
  exec_list d pile cf n F f vs (a ++ b) sg F2 f2 vs2 (o1 ++ o2) (e1 ++ e2).
Proof.
  induction a as [|s r IH]; intros b d pile cf n F f vs F1 f1 vs1 o1 e1 sg F2 f2 vs2 o2 e2 Ha Hb.
  - inversion Ha; subst. cbn [sum_sizes] in Hb. rewrite Z.add_0_r in Hb. exact Hb.
  - inversion Ha as [|? ? ? ? ? ? ? ? ? Fm fm vsm om em ? ? ? ? or er' Hs Hr|? ? ? ? ? ? ? ? ? ? ? ? ? ? ? Hs Hne]; subst.
    + cbn [app]. rewrite <- !app_assoc. eapply L_Cons; [exact Hs|].
      eapply IH; [exact Hr|]. cbn [sum_sizes] in Hb. rewrite Z.add_assoc in Hb. exact Hb.
    + exfalso. apply Hne. reflexivity.
Qed.

(* a derivation of a ++ b: a ends Normal and b runs from where a ended, or a stops the list *)
Lemma exec_list_app_inv : forall a b d pile cf n F f vs sg F2 f2 vs2 out ev,
  exec_list d pile cf n F f vs (a ++ b) sg F2 f2 vs2 out ev ->
  (exists F1 f1 vs1 o1 e1 o2 e2,
     exec_list d pile cf n F f vs a Normal F1 f1 vs1 o1 e1 /\
     exec_list d pile cf (n + sum_sizes usize a) F1 f1 vs1 b sg F2 f2 vs2 o2 e2 /\
     out = o1 ++ o2 /\ ev = e1 ++ e2) \/
  (sg <> Normal /\ exec_list d pile cf n F f vs a sg F2 f2 vs2 out ev).
Proof.
  induction a as [|s r IH]; intros b d pile cf n F f vs sg F2 f2 vs2 out ev H.
  - left. exists F, f, vs, [], [], out, ev. split; [apply L_Nil|]. cbn [sum_sizes]. rewrite Z.add_0_r.
    split; [exact H|]. split; reflexivity.
  - cbn [app] in H.
    inversion H as [|? ? ? ? ? ? ? ? ? Fm fm vsm om em ? ? ? ? or er' Hs Hr|? ? ? ? ? ? ? ? ? ? ? ? ? ? ? Hs Hne]; subst.
    + destruct (IH b _ _ _ _ _ _ _ _ _ _ _ _ _ Hr) as [(F1 & f1 & vs1 & o1 & e1 & o2 & e2 & Ha & Hb & -> & ->)|[Hne Ha]].
      * left. exists F1, f1, vs1, (om ++ o1), (em ++ e1), o2, e2.
        split; [eapply L_Cons; eauto|]. cbn [sum_sizes]. rewrite Z.add_assoc.
        split; [exact Hb|]. rewrite !app_assoc. split; reflexivity.
      * right. split; [exact Hne|]. eapply L_Cons; eauto.
    + right. split; [exact Hne|]. apply L_Stop; assumption.
Qed.

(* SEQUENTIAL COMPOSITION CONSUMES NO DEPTH: when a ends Normal, the minimal depth of a ++ b is the
   larger of the minimal depths of a and of b (b run from where a ended) *)
Theorem min_depth_app : forall a b da db pile cf n F f vs F1 f1 vs1 o1 e1 sg F2 f2 vs2 o2 e2,
  min_depth (fun d => exec_list d pile cf n F f vs a Normal F1 f1 vs1 o1 e1) da ->
  min_depth (fun d => exec_list d pile cf (n + sum_sizes usize a) F1 f1 vs1 b sg F2 f2 vs2 o2 e2) db ->
  min_depth (fun d => exec_list d pile cf n F f vs (a ++ b) sg F2 f2 vs2 (o1 ++ o2) (e1 ++ e2)) (Nat.max da db).
Proof.
  intros a b da db pile cf n F f vs F1 f1 vs1 o1 e1 sg F2 f2 vs2 o2 e2 [Ha Hla] [Hb Hlb]. split.
  - apply (exec_list_app a b _ _ _ _ _ _ _ F1 f1 vs1).
    + exact (exec_list_mono_le fo sys prog inc sup da _ _ _ _ _ _ _ _ _ _ _ _ _ _ (Nat.le_max_l da db) Ha).
    + exact (exec_list_mono_le fo sys prog inc sup db _ _ _ _ _ _ _ _ _ _ _ _ _ _ (Nat.le_max_r da db) Hb).
  - intros d Hd H.
    destruct (exec_list_app_inv _ _ _ _ _ _ _ _ _ _ _ _ _ _ _ H) as [(F1' & f1' & vs1' & o1' & e1' & o2' & e2' & Ha' & Hb' & Eo & Ee)|[Hne Ha']].
    + destruct (exec_list_same_results fo sys prog inc sup _ _ _ _ _ _ _ _ _ _ _ _ _ _ _ _ _ _ _ _ _ Ha Ha')
        as (_ & <- & <- & <- & <- & <-).
      apply app_inv_head in Eo. apply app_inv_head in Ee. subst o2' e2'.
      destruct (Nat.max_spec da db) as [[Hlt E]|[Hle E]]; rewrite E in Hd.
      * exact (Hlb d Hd Hb').
      * exact (Hla d Hd Ha').
    + destruct (exec_list_same_results fo sys prog inc sup _ _ _ _ _ _ _ _ _ _ _ _ _ _ _ _ _ _ _ _ _ Ha Ha')
        as (E & _). apply Hne. symmetry. exact E.
Qed.

(* A BLOCK CONSUMES ONE LEVEL: an IF chain whose first condition holds *)
Lemma if_taken_iff : forall d pile cf n F f vs c body rest els v sg F' f' vs' out ev,
  eval fo sys (Some (match f with Some b => b | None => false end)) vs c v -> truthy fo v = true ->
  (exec d pile cf n F f vs (UIf ((c, body) :: rest) els) sg F' f' vs' out ev <->
   exists d', d = S d' /\ exists F1 f1 vs1,
     exec_list d' (pile ++ [mkSF cf (if_head true c) n false]) cf (n + 1) F None vs body sg F1 f1 vs1 out ev /\
     (sg = Normal -> Forall (fun cb => exists v', eval fo sys (Some true) (copy_back fo vs vs1) (fst cb) v') rest) /\
     F' = F /\ f' = Some true /\ vs' = copy_back fo vs vs1).
Proof.
  intros d pile cf n F f vs c body rest els v sg F' f' vs' out ev Hev Htr. split.
  - intro H. inversion H as [| | |? ? ? ? ? ? ? ? ? ? ? ? ? ? Ha| | | | | | | | | | | |]; subst.
    inversion Ha as [? ? ? ? ? ? ? ? ? ? ? ? v2 ? ? ? ? ? ? Hev2 Htr2 Hb Hrest|? ? ? ? ? ? ? ? ? ? ? ? v2 ? ? ? ? ? Hev2 Htr2| |]; subst.
    + eexists. split; [reflexivity|]. do 3 eexists. split; [exact Hb|]. split; [exact Hrest|]. repeat split.
    + exfalso. pose proof (eval_fun fo sys _ _ _ _ _ Hev Hev2) as E. subst v2. rewrite Htr in Htr2. discriminate.
  - intros (d' & -> & F1 & f1 & vs1 & Hb & Hrest & -> & -> & ->).
    apply E_If. eapply A_Take; eauto.
Qed.

Lemma run_iff : forall d pile cf n F f vs name args sg F' f' vs' out ev,
  exec d pile cf n F f vs (URun name args) sg F' f' vs' out ev <->
  exists d', d = S d' /\ exists vals df sgb F1 f1 vs1,
    run_args fo sys f vs args vals /\ lookup name F = Some df /\ length (d_params df) = length vals /\
    exec_list d' (pile ++ [mkSF cf (run_head name args) n true]) (d_file df) (d_line df + 1) F None
              (bind_params fo (d_params df) vals vs) (d_body df) sgb F1 f1 vs1 out ev /\
    (sgb = Normal \/ sgb = Returned) /\
    sg = Normal /\ F' = F /\ f' = f /\ vs' = copy_back fo vs vs1.
Proof.
  intros d pile cf n F f vs name args sg F' f' vs' out ev. split.
  - intro H. inversion H; subst. eexists. split; [reflexivity|]. do 6 eexists.
    repeat (split; [eassumption|]). repeat split.
  - intros (d' & -> & vals & df & sgb & F1 & f1 & vs1 & Ha & Hl & Hn & Hb & Hs & -> & -> & -> & ->).
    eapply E_Run; eauto.
Qed.

(* ... so: the minimal depth of a taken IF arm is one more than its body's, of a call one more than
   the function body's *)
Theorem min_depth_if : forall b pile cf n F f vs c body rest els v sg F1 f1 vs1 out ev,
  eval fo sys (Some (match f with Some b => b | None => false end)) vs c v -> truthy fo v = true ->
  (sg = Normal -> Forall (fun cb => exists v', eval fo sys (Some true) (copy_back fo vs vs1) (fst cb) v') rest) ->
  min_depth (fun d => exec_list d (pile ++ [mkSF cf (if_head true c) n false]) cf (n + 1) F None vs body sg F1 f1 vs1 out ev) b ->
  min_depth (fun d => exec d pile cf n F f vs (UIf ((c, body) :: rest) els) sg F (Some true) (copy_back fo vs vs1) out ev) (S b).
Proof.
  intros b pile cf n F f vs c body rest els v sg F1 f1 vs1 out ev Hev Htr Hrest Hmin.
  apply (min_depth_S _ _ b) with (2 := Hmin). intro d. split.
  - intro H. apply (if_taken_iff d pile cf n F f vs c body rest els v sg _ _ _ out ev Hev Htr) in H.
    destruct H as (d' & -> & F1' & f1' & vs1' & Hb & _).
    exists d'. split; [reflexivity|].
    destruct (exec_list_same_results fo sys prog inc sup _ _ _ _ _ _ _ _ _ _ _ _ _ _ _ _ _ _ _ _ _ Hb (proj1 Hmin))
      as (_ & -> & -> & -> & _). exact Hb.
  - intros (d' & -> & Hb). apply (if_taken_iff (S d') pile cf n F f vs c body rest els v sg _ _ _ out ev Hev Htr).
    exists d'. split; [reflexivity|]. exists F1, f1, vs1. split; [exact Hb|]. split; [exact Hrest|]. repeat split.
Qed.

Theorem min_depth_run : forall b pile cf n F f vs name args vals df sgb F1 f1 vs1 out ev,
  run_args fo sys f vs args vals -> lookup name F = Some df -> length (d_params df) = length vals ->
  sgb = Normal \/ sgb = Returned ->
  min_depth (fun d => exec_list d (pile ++ [mkSF cf (run_head name args) n true]) (d_file df) (d_line df + 1) F None
                                (bind_params fo (d_params df) vals vs) (d_body df) sgb F1 f1 vs1 out ev) b ->
  min_depth (fun d => exec d pile cf n F f vs (URun name args) Normal F f (copy_back fo vs vs1) out ev) (S b).
Proof.
  intros b pile cf n F f vs name args vals df sgb F1 f1 vs1 out ev Ha Hl Hn Hs Hmin.
  apply (min_depth_S _ _ b) with (2 := Hmin). intro d. split.
  - intro H. apply run_iff in H.
    destruct H as (d' & -> & vals' & df' & sgb' & F1' & f1' & vs1' & Ha' & Hl' & _ & Hb & _).
    exists d'. split; [reflexivity|].
    rewrite Hl in Hl'. injection Hl' as <-.
    rewrite (run_args_fun fo sys _ _ _ _ _ Ha' Ha) in Hb.
    destruct (exec_list_same_results fo sys prog inc sup _ _ _ _ _ _ _ _ _ _ _ _ _ _ _ _ _ _ _ _ _ Hb (proj1 Hmin))
      as (-> & -> & -> & -> & _). exact Hb.
  - intros (d' & -> & Hb). eapply E_Run; eauto.
Qed.

End Shape.
