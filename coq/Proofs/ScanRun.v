(* C04 (scanner part), infrastructure: fuel-free reading of the scanner loop ([reaches], [leads]),
   character-class facts, and one-step lemmas for [scan_step] / [verify_char]. *)
From Coq Require Import NArith ZArith List Bool Lia.
From DS Require Import Base Unicode PyStr Values Tables Constants Expr ExprSafety ExprFuel Spelling.
Import ListNotations.

(* ------------------------------------------------------------------ character classes *)
Local Open Scope N_scope.

Definition ascii_all : list N := map N.of_nat (seq 0 128).

Lemma ascii_forall : forall P : N -> bool,
  forallb P ascii_all = true -> forall c, c < 128 -> P c = true.
Proof.
  intros P H c Hc. rewrite forallb_forall in H. apply H.
  unfold ascii_all. rewrite <- (N2Nat.id c). apply in_map. apply in_seq. lia.
Qed.

Fixpoint iv_members (iv : list (N * N)) : list N :=
  match iv with
  | [] => []
  | (lo, hi) :: r => map N.of_nat (seq (N.to_nat lo) (S (N.to_nat hi) - N.to_nat lo)) ++ iv_members r
  end.

Lemma in_iv_members : forall iv c, in_iv c iv = true -> In c (iv_members iv).
Proof.
  induction iv as [|[lo hi] r IH]; intros c H; cbn [in_iv iv_members] in *; [discriminate H|].
  apply in_or_app. destruct ((lo <=? c) && (c <=? hi)) eqn:Hb.
  - left. apply andb_true_iff in Hb. destruct Hb as [H1 H2].
    apply N.leb_le in H1. apply N.leb_le in H2.
    rewrite <- (N2Nat.id c). apply in_map. apply in_seq. lia.
  - right. apply IH. exact H.
Qed.

Lemma space_forall : forall P : N -> bool,
  forallb P (iv_members isspace_iv) = true -> forall c, isspace_c c = true -> P c = true.
Proof.
  intros P H c Hc. rewrite forallb_forall in H. apply H. apply in_iv_members. exact Hc.
Qed.

(* characters that can begin an operator symbol *)
Definition op_first (c : N) : bool :=
  existsb (N.eqb c) [43; 45; 42; 47; 37; 94; 61; 33; 60; 62; 44].

(* characters that can begin the spelling of a value token *)
Definition val_first (c : N) : bool :=
  is_ascii_digit c || (c =? 34) || (c =? 45) || is_ident_start c.

Lemma ident_start_ascii : forall c, is_ident_start c = true -> c < 128.
Proof.
  intros c H. unfold is_ident_start, is_ascii_letter in H.
  repeat (apply orb_true_iff in H; destruct H as [H|H]);
    try (apply andb_true_iff in H; destruct H as [H1 H2]; apply N.leb_le in H1; apply N.leb_le in H2; lia).
  all: apply N.eqb_eq in H; lia.
Qed.

Lemma digit_ascii : forall c, is_ascii_digit c = true -> c < 128.
Proof.
  intros c H. unfold is_ascii_digit in H. apply andb_true_iff in H. destruct H as [H1 H2].
  apply N.leb_le in H2. lia.
Qed.

Lemma op_first_ascii : forall c, op_first c = true -> c < 128.
Proof.
  intros c H. unfold op_first in H. apply existsb_exists in H. destruct H as [x [Hin Heq]].
  apply N.eqb_eq in Heq. subst x. cbn [In] in Hin.
  repeat (destruct Hin as [Hin|Hin]; [lia|]). contradiction.
Qed.

(* what the scanner asks about the first character of a digit string *)
Definition digit_facts (c : N) : bool :=
  isnumeric_c c && negb (isspace_c c) && negb (c =? 34) && negb (c =? 47) && negb (c =? 61).

Lemma digit_facts_ok : forall c, is_ascii_digit c = true -> digit_facts c = true.
Proof.
  intros c H.
  assert (Hall : forall c, c < 128 -> implb (is_ascii_digit c) (digit_facts c) = true).
  { apply ascii_forall. vm_compute. reflexivity. }
  specialize (Hall c (digit_ascii c H)). rewrite H in Hall. exact Hall.
Qed.

(* ... of a name *)
Definition start_facts (c : N) : bool :=
  negb (isnumeric_c c) && negb (isspace_c c) && negb (c =? 34) && negb (c =? 45) && negb (c =? 46) &&
  negb (c =? 47) && negb (c =? 61).

Lemma start_facts_ok : forall c, is_ident_start c = true -> start_facts c = true.
Proof.
  intros c H.
  assert (Hall : forall c, c < 128 -> implb (is_ident_start c) (start_facts c) = true).
  { apply ascii_forall. vm_compute. reflexivity. }
  specialize (Hall c (ident_start_ascii c H)). rewrite H in Hall. exact Hall.
Qed.

(* ... of an operator symbol or a whitespace character, seen by the token before it *)
Definition sep_facts (c : N) : bool :=
  negb (isnumeric_c c) && negb (c =? 46) && negb (is_ascii_letter c) && negb (is_ascii_digit c) &&
  negb (c =? 95) && negb (c =? 34).

Lemma op_first_sep : forall c, op_first c = true -> sep_facts c = true /\ isspace_c c = false.
Proof.
  intros c H.
  assert (Hall : forall c, c < 128 -> implb (op_first c) (sep_facts c && negb (isspace_c c)) = true).
  { apply ascii_forall. vm_compute. reflexivity. }
  specialize (Hall c (op_first_ascii c H)). rewrite H in Hall. cbn [implb] in Hall.
  apply andb_true_iff in Hall. destruct Hall as [H1 H2]. apply negb_true_iff in H2. auto.
Qed.

Lemma space_sep : forall c, isspace_c c = true ->
  sep_facts c = true /\ (c =? 47) = false /\ (c =? 61) = false.
Proof.
  intros c H.
  assert (Hall : forall c, isspace_c c = true ->
            sep_facts c && negb (c =? 47) && negb (c =? 61) = true).
  { apply space_forall. vm_compute. reflexivity. }
  specialize (Hall c H). apply andb_true_iff in Hall. destruct Hall as [Hall H3].
  apply andb_true_iff in Hall. destruct Hall as [H1 H2].
  apply negb_true_iff in H2. apply negb_true_iff in H3. auto.
Qed.

Local Close Scope N_scope.

(* ------------------------------------------------------------------ the keyword matcher, as a function of the text read *)
Definition cands (L : list str) (p : str) : list str := filter (fun w => startswith p w) L.

(* state of the matcher after it has answered ITrue to every character of p *)
Definition kwst (L : list str) (p : str) : kwstate :=
  mkKw L (match p with [] => None | _ => Some (cands L p) end) p.

Lemma startswith_refl : forall p : str, startswith p p = true.
Proof. induction p as [|x p IH]; cbn; [reflexivity|]. rewrite N.eqb_refl, IH. reflexivity. Qed.

Lemma startswith_app : forall p m : str, startswith p (p ++ m) = true.
Proof. induction p as [|x p IH]; intro m; cbn; [reflexivity|]. rewrite N.eqb_refl, IH. reflexivity. Qed.

Lemma startswith_app_l : forall p x w : str, startswith (p ++ x) w = true -> startswith p w = true.
Proof.
  induction p as [|a p IH]; intros x w H; [reflexivity|].
  destruct w as [|b w]; cbn in *; [discriminate H|].
  apply andb_true_iff in H. destruct H as [H1 H2]. rewrite H1. cbn. eapply IH. exact H2.
Qed.

Lemma startswith_exact : forall p w : str,
  startswith p w = true -> exists m, w = p ++ m.
Proof.
  induction p as [|a p IH]; intros w H.
  - exists w. reflexivity.
  - destruct w as [|b w]; cbn in H; [discriminate H|].
    apply andb_true_iff in H. destruct H as [H1 H2]. apply N.eqb_eq in H1. subst b.
    destruct (IH w H2) as [m ->]. exists m. reflexivity.
Qed.

Lemma filter_true : forall (A : Type) (l : list A), filter (fun _ => true) l = l.
Proof. induction l as [|x l IH]; cbn; [reflexivity|]. rewrite IH. reflexivity. Qed.

Lemma filter_filter_imp : forall (A : Type) (f g : A -> bool) (l : list A),
  (forall x, g x = true -> f x = true) -> filter g (filter f l) = filter g l.
Proof.
  intros A f g l H. induction l as [|x l IH]; cbn; [reflexivity|].
  destruct (f x) eqn:Hf; cbn.
  - rewrite IH. reflexivity.
  - destruct (g x) eqn:Hg; [|exact IH]. apply H in Hg. congruence.
Qed.

Lemma cands_nil : forall L, cands L [] = L.
Proof. intro L. unfold cands. cbn [startswith]. apply filter_true. Qed.

Lemma cands_snoc : forall L p c,
  filter (fun w => startswith (p ++ [c]) w) (cands L p) = cands L (p ++ [c]).
Proof.
  intros L p c. unfold cands. apply filter_filter_imp. intros w H. eapply startswith_app_l. exact H.
Qed.

Lemma in_cands : forall L p w, In w (cands L p) <-> In w L /\ startswith p w = true.
Proof. intros L p w. unfold cands. apply filter_In. Qed.

Lemma kwst_snoc : forall L p c, kwst L (p ++ [c]) = mkKw L (Some (cands L (p ++ [c]))) (p ++ [c]).
Proof. intros L p c. unfold kwst. destruct p; reflexivity. Qed.

(* one step of the matcher, in closed form *)
Lemma kw_step_kwst : forall L p c,
  kw_step (kwst L p) c =
  match cands L (p ++ [c]) with
  | [] => (mkKw L (kw_expected (kwst L p)) (p ++ [c]),
           match p with
           | [] => IResetContinue
           | _ => if existsb (fun w => str_eqb w p) (cands L p) then IFalse else IResetContinue
           end)
  | [w] => (kwst L (p ++ [c]), if str_eqb w (p ++ [c]) then IContinue else ITrue)
  | _ => (kwst L (p ++ [c]), ITrue)
  end.
Proof.
  intros L p c. unfold kw_step.
  assert (Hl : match kw_expected (kwst L p) with Some e => e | None => kw_list (kwst L p) end = cands L p).
  { unfold kwst. cbn [kw_expected kw_list]. destruct p; [symmetry; apply cands_nil|reflexivity]. }
  rewrite Hl. replace (kw_cur (kwst L p)) with p by reflexivity.
  rewrite cands_snoc. rewrite kwst_snoc.
  destruct (cands L (p ++ [c])) as [|w [|w2 more]]; try reflexivity.
  unfold kwst. cbn [kw_expected kw_list]. destruct p; [reflexivity|].
  destruct (existsb _ _); reflexivity.
Qed.

(* ------------------------------------------------------------------ add_char on the simple classes *)
Lemma add_str_false : forall c, (c =? q)%N = false ->
  add_char (TStr false false) c = Ok (TStr false false, IFalse).
Proof. intros c H. cbn [add_char]. rewrite H. reflexivity. Qed.

Lemma add_str_open : add_char (TStr false false) q = Ok (TStr true false, ITrueContinue).
Proof. reflexivity. Qed.

Lemma add_str_in : forall c, (c =? q)%N = false ->
  add_char (TStr true false) c = Ok (TStr true false, ITrue).
Proof. intros c H. cbn [add_char]. rewrite H. reflexivity. Qed.

Lemma add_str_close : add_char (TStr true false) q = Ok (TStr false true, IFalseSkip).
Proof. reflexivity. Qed.

Lemma add_num_first_false : forall c,
  isnumeric_c c = false -> (c =? dash)%N = false -> (c =? dot)%N = false ->
  add_char (TNum (-1) false false true) c = Ok (TNum 0 false false true, IFalse).
Proof. intros c H1 H2 H3. cbn [add_char]. rewrite H1, H2, H3. reflexivity. Qed.

Lemma add_num_digit : forall i neg cl c, isnumeric_c c = true ->
  add_char (TNum i false neg cl) c = Ok (TNum (i + 1) false neg true, ITrue).
Proof. intros i neg cl c H. cbn [add_char]. rewrite H. reflexivity. Qed.

(* the sign of a negative literal *)
Lemma add_num_dash : add_char (TNum (-1) false false true) dash = Ok (TNum 0 false true false, ITrue).
Proof. reflexivity. Qed.

(* [neg]: the token began with "-" (index 0), so at least one digit has been read when 1 <= i *)
Lemma add_num_end : forall (i : Z) (neg : bool) c,
  isnumeric_c c = false -> (c =? dot)%N = false -> ((if neg then 1 else 0) <= i)%Z ->
  add_char (TNum i false neg true) c = Ok (TNum (i + 1) false neg true, IFalse).
Proof.
  intros i neg c H1 H2 Hi. cbn [add_char]. rewrite H1, H2.
  assert (H0 : Z.eqb (i + 1) 0 = false) by (apply Z.eqb_neq; destruct neg; lia).
  rewrite H0. cbn [andb negb].
  destruct neg; [|reflexivity].
  assert (H3 : Z.eqb (i + 1) 1 = false) by (apply Z.eqb_neq; lia).
  rewrite H3. reflexivity.
Qed.

Lemma add_kw : forall cl k c, kw_list k <> [] ->
  add_char (TKw cl k) c = let (k', r) := kw_step k c in Ok (TKw cl k', r).
Proof. intros cl k c H. cbn [add_char]. destruct (kw_list k); [contradiction|reflexivity]. Qed.

Section WithFloats.
Variable fo : FloatOps.
Notation value := (value fo).
Notation ptok := (ptok fo).
Notation sd := (sd fo).
Notation vars_t := (vars_t fo).
Notation mkSd := (Expr.mkSd fo).

Variable vars : vars_t.

(* ------------------------------------------------------------------ fuel-free reading of the loop *)
Definition reaches (s : sd) (r : res (list ptok)) : Prop :=
  exists f, scan_loop fo f vars s = r /\ r <> Crash KOutOfFuel.

(* whatever the loop returns from s', it returns from s *)
Definition leads (s s' : sd) : Prop := forall r, reaches s' r -> reaches s r.

Lemma leads_refl : forall s, leads s s.
Proof. intros s r H. exact H. Qed.

Lemma leads_trans : forall s1 s2 s3, leads s1 s2 -> leads s2 s3 -> leads s1 s3.
Proof. intros s1 s2 s3 H12 H23 r H. apply H12. apply H23. exact H. Qed.

Lemma leads_step : forall s s', scan_step fo vars s = Some (Ok s') -> leads s s'.
Proof.
  intros s s' H r [f [Hf Hr]]. exists (S f). split; [|exact Hr].
  cbn [scan_loop]. rewrite H. cbn [bind]. exact Hf.
Qed.

Lemma scan_loop_done : forall f s, scan_step fo vars s = None ->
  scan_loop fo f vars s = scan_finish fo vars s.
Proof. intros f s H. destruct f; cbn [scan_loop]; rewrite H; reflexivity. Qed.

Lemma leads_finish : forall s s',
  scan_step fo vars s = None -> scan_step fo vars s' = None ->
  scan_finish fo vars s = scan_finish fo vars s' -> leads s s'.
Proof.
  intros s s' H1 H2 H3 r [f [Hf Hr]]. exists 0. split; [|exact Hr].
  rewrite scan_loop_done by exact H1. rewrite scan_loop_done in Hf by exact H2. congruence.
Qed.

(* fuel monotonicity *)
Lemma scan_loop_mono : forall f s r,
  scan_loop fo f vars s = r -> r <> Crash KOutOfFuel -> forall k, scan_loop fo (f + k) vars s = r.
Proof.
  induction f as [|f IH]; intros s r H Hr k.
  - cbn [scan_loop] in H. destruct (scan_step fo vars s) as [r0|] eqn:Hs.
    + exfalso. apply Hr. symmetry. exact H.
    + rewrite scan_loop_done by exact Hs. exact H.
  - cbn [Nat.add scan_loop] in *. destruct (scan_step fo vars s) as [r0|] eqn:Hs; [|exact H].
    destruct r0 as [s'|e|kk|]; cbn [bind] in *; try exact H.
    apply IH; assumption.
Qed.

Lemma reaches_det : forall s r1 r2, reaches s r1 -> reaches s r2 -> r1 = r2.
Proof.
  intros s r1 r2 [f1 [H1 Hr1]] [f2 [H2 Hr2]].
  pose proof (scan_loop_mono f1 s r1 H1 Hr1 f2) as Ha.
  pose proof (scan_loop_mono f2 s r2 H2 Hr2 f1) as Hb.
  rewrite Nat.add_comm in Hb. congruence.
Qed.

(* the token-start state: no token, nothing collected, nothing blacklisted *)
Definition TS (st : str) (op : bool) (out : list ptok) : sd := mkSd st st None op [] out [].

Theorem reaches_convert : forall s r,
  reaches (TS s false []) r -> convert_string fo vars s = r.
Proof.
  intros s r H. apply (reaches_det (TS s false [])); [|exact H].
  exists (scan_fuel s). split; [reflexivity|]. apply convert_string_fuel.
Qed.

(* ------------------------------------------------------------------ one iteration, token held *)
Lemma append_eq : forall (s : sd) t rest string,
  append_and_switch fo vars s t rest string =
  (do p <- set_value fo vars t (rev string);
   Ok (mkSd rest rest None (negb (sd_is_op fo s)) [] (p :: sd_out fo s) [])).
Proof. reflexivity. Qed.

Lemma step_true : forall st c rest' t op sr out B t',
  add_char t c = Ok (t', ITrue) ->
  scan_step fo vars (mkSd st (c :: rest') (Some t) op sr out B) =
  Some (Ok (mkSd st rest' (Some t') op (c :: sr) out B)).
Proof. intros st c rest' t op sr out B t' H. unfold scan_step. cbn. rewrite H. reflexivity. Qed.

Lemma step_truecont : forall st c rest' t op sr out B t',
  add_char t c = Ok (t', ITrueContinue) ->
  scan_step fo vars (mkSd st (c :: rest') (Some t) op sr out B) =
  Some (Ok (mkSd st rest' (Some t') op sr out B)).
Proof. intros st c rest' t op sr out B t' H. unfold scan_step. cbn. rewrite H. reflexivity. Qed.

Lemma step_reset : forall st c rest' t op sr out B t',
  add_char t c = Ok (t', IResetContinue) ->
  scan_step fo vars (mkSd st (c :: rest') (Some t) op sr out B) =
  Some (Ok (mkSd st st None op [] out (tok_class t' :: B))).
Proof. intros st c rest' t op sr out B t' H. unfold scan_step. cbn. rewrite H. reflexivity. Qed.

Lemma step_false : forall st c rest' t op sr out B t' p,
  add_char t c = Ok (t', IFalse) -> set_value fo vars t' (rev sr) = Ok p ->
  scan_step fo vars (mkSd st (c :: rest') (Some t) op sr out B) =
  Some (Ok (TS (c :: rest') (negb op) (p :: out))).
Proof.
  intros st c rest' t op sr out B t' p H Hp. unfold scan_step. cbn. rewrite H. cbn.
  unfold append_and_switch. cbn. rewrite Hp. reflexivity.
Qed.

Lemma step_cont : forall st c rest' t op sr out B t' p,
  add_char t c = Ok (t', IContinue) -> set_value fo vars t' (rev (c :: sr)) = Ok p ->
  scan_step fo vars (mkSd st (c :: rest') (Some t) op sr out B) =
  Some (Ok (TS rest' (negb op) (p :: out))).
Proof.
  intros st c rest' t op sr out B t' p H Hp. unfold scan_step. cbn [Expr.sd_rest Expr.sd_token].
  rewrite H. cbn [bind]. unfold append_and_switch. cbn [Expr.sd_string]. rewrite Hp. reflexivity.
Qed.

Lemma step_skip : forall st c rest' t op sr out B t' p,
  add_char t c = Ok (t', IFalseSkip) -> set_value fo vars t' (rev sr) = Ok p ->
  scan_step fo vars (mkSd st (c :: rest') (Some t) op sr out B) =
  Some (Ok (TS rest' (negb op) (p :: out))).
Proof.
  intros st c rest' t op sr out B t' p H Hp. unfold scan_step. cbn [Expr.sd_rest Expr.sd_token].
  rewrite H. cbn [bind]. unfold append_and_switch. cbn [Expr.sd_string]. rewrite Hp. reflexivity.
Qed.

(* a closed token whose next character (if any) ends it *)
Lemma tok_end : forall st r t op sr out B p,
  tok_closed t = true ->
  set_value fo vars t (rev sr) = Ok p ->
  (forall c r', r = c :: r' ->
     exists t', add_char t c = Ok (t', IFalse) /\ set_value fo vars t' (rev sr) = Ok p) ->
  leads (mkSd st r (Some t) op sr out B) (TS r (negb op) (p :: out)).
Proof.
  intros st r t op sr out B p Hcl Hp Hnext. destruct r as [|c r'].
  - apply leads_finish; try reflexivity.
    unfold scan_finish. cbn [Expr.sd_token Expr.sd_rest Expr.sd_string]. rewrite Hcl.
    unfold append_and_switch. rewrite Hp. reflexivity.
  - destruct (Hnext c r' eq_refl) as [t' [Ha Hs]]. apply leads_step.
    eapply step_false; eassumption.
Qed.

(* ------------------------------------------------------------------ one iteration, no token held *)
Lemma step_space : forall st c rest' op sr out B, isspace_c c = true ->
  scan_step fo vars (mkSd st (c :: rest') None op sr out B) =
  Some (Ok (mkSd rest' rest' None op sr out B)).
Proof. intros st c rest' op sr out B H. unfold scan_step. cbn [Expr.sd_rest Expr.sd_token]. rewrite H. reflexivity. Qed.

Lemma step_first : forall st c rest' op sr out B, isspace_c c = false ->
  scan_step fo vars (mkSd st (c :: rest') None op sr out B) =
  Some (verify_char fo vars (mkSd st (c :: rest') None op sr out B) c rest'
          (if op then operand_classes else value_classes)).
Proof. intros st c rest' op sr out B H. unfold scan_step. cbn [Expr.sd_rest Expr.sd_token]. rewrite H. reflexivity. Qed.

Lemma value_classes_eq : value_classes = [CStr; CNum; CBool; CVar; CGroup].
Proof. reflexivity. Qed.

Lemma operand_classes_eq : operand_classes = [COp OCMath; COp OCCond; COp OCComma].
Proof. reflexivity. Qed.

(* verify_char never reads the token field *)
Lemma vc_skip : forall st rest tk op sr out B c rest' cl more,
  in_black cl B = true ->
  verify_char fo vars (mkSd st rest tk op sr out B) c rest' (cl :: more) =
  verify_char fo vars (mkSd st rest tk op sr out B) c rest' more.
Proof.
  intros st rest tk op sr out B c rest' cl more Hb.
  cbn [verify_char Expr.sd_black]. rewrite Hb. reflexivity.
Qed.

Lemma vc_false : forall st rest tk op sr out B c rest' cl more t,
  in_black cl B = false -> add_char (new_tok fo vars cl) c = Ok (t, IFalse) ->
  verify_char fo vars (mkSd st rest tk op sr out B) c rest' (cl :: more) =
  verify_char fo vars (mkSd st rest (Some t) op sr out B) c rest' more.
Proof.
  intros st rest tk op sr out B c rest' cl more t Hb Ha.
  cbn [verify_char Expr.sd_black]. rewrite Hb. unfold try_class. rewrite Ha. reflexivity.
Qed.

Lemma vc_reset : forall st rest tk op sr out B c rest' cl more t,
  in_black cl B = false -> add_char (new_tok fo vars cl) c = Ok (t, IResetContinue) ->
  verify_char fo vars (mkSd st rest tk op sr out B) c rest' (cl :: more) =
  verify_char fo vars (mkSd st st None op [] out (tok_class t :: B)) c rest' more.
Proof.
  intros st rest tk op sr out B c rest' cl more t Hb Ha.
  cbn [verify_char Expr.sd_black]. rewrite Hb. unfold try_class. rewrite Ha. reflexivity.
Qed.

Lemma vc_true : forall st rest tk op sr out B c rest' cl more t,
  in_black cl B = false -> add_char (new_tok fo vars cl) c = Ok (t, ITrue) ->
  verify_char fo vars (mkSd st rest tk op sr out B) c rest' (cl :: more) =
  Ok (mkSd st rest' (Some t) op (c :: sr) out B).
Proof.
  intros st rest tk op sr out B c rest' cl more t Hb Ha.
  cbn [verify_char Expr.sd_black]. rewrite Hb. unfold try_class. rewrite Ha. reflexivity.
Qed.

Lemma vc_truecont : forall st rest tk op sr out B c rest' cl more t,
  in_black cl B = false -> add_char (new_tok fo vars cl) c = Ok (t, ITrueContinue) ->
  verify_char fo vars (mkSd st rest tk op sr out B) c rest' (cl :: more) =
  Ok (mkSd st rest' (Some t) op sr out B).
Proof.
  intros st rest tk op sr out B c rest' cl more t Hb Ha.
  cbn [verify_char Expr.sd_black]. rewrite Hb. unfold try_class. rewrite Ha. reflexivity.
Qed.

Lemma vc_cont : forall st rest tk op sr out B c rest' cl more t p,
  in_black cl B = false -> add_char (new_tok fo vars cl) c = Ok (t, IContinue) ->
  set_value fo vars t (rev (c :: sr)) = Ok p ->
  verify_char fo vars (mkSd st rest tk op sr out B) c rest' (cl :: more) =
  Ok (TS rest' (negb op) (p :: out)).
Proof.
  intros st rest tk op sr out B c rest' cl more t p Hb Ha Hp.
  cbn [verify_char Expr.sd_black]. rewrite Hb. unfold try_class. rewrite Ha. cbn [bind].
  unfold append_and_switch. cbn [Expr.sd_string]. rewrite Hp. reflexivity.
Qed.

(* ------------------------------------------------------------------ whitespace *)
Lemma ws_run : forall ws r op out, forallb isspace_c ws = true ->
  leads (TS (ws ++ r) op out) (TS r op out).
Proof.
  induction ws as [|c ws IH]; intros r op out H; [apply leads_refl|].
  cbn [forallb] in H. apply andb_true_iff in H. destruct H as [Hc Hws].
  eapply leads_trans; [|apply IH; exact Hws].
  apply leads_step. cbn [app]. unfold TS. apply step_space. exact Hc.
Qed.

(* the end of the text *)
Lemma reaches_end : forall op out, Nat.even (length out) = false ->
  reaches (TS [] op out) (Ok (rev out)).
Proof.
  intros op out H. exists 0. split; [|discriminate].
  cbn [scan_loop scan_step TS Expr.sd_rest]. unfold scan_finish. cbn. rewrite H. reflexivity.
Qed.

End WithFloats.
