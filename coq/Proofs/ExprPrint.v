(* C04 (end to end): the tokenizer on the printed text of an expression -- any layout, parentheses
   required by precedence, redundant parentheses, "!( )" -- returns the value of the reference
   evaluator.  Spec/ExprLang.v has the definitions. *)
From Coq Require Import NArith ZArith List Bool Arith Lia.
From DS Require Import Base Unicode PyStr Values Tables Constants Expr ExprSafety ExprFuel ExprTotal
  ExprAst TreeProofs Spelling ScanRun ScanTokens ScanSpelled ExprLang GroupToken.
Import ListNotations.

(* ------------------------------------------------------------------ characters that are neither a
   quote nor a parenthesis *)
Definition plainc (c : N) : bool := negb (c =? q)%N && negb (c =? lpar)%N && negb (c =? rpar)%N.

Lemma prun_plain : forall lim s d, forallb plainc s = true -> prun lim s d false = Some (d, false).
Proof.
  intros lim. induction s as [|c s IH]; intros d H; [reflexivity|].
  cbn [forallb] in H. apply andb_true_iff in H. destruct H as [Hc Hs].
  unfold plainc in Hc. apply andb_true_iff in Hc. destruct Hc as [Hc H3].
  apply andb_true_iff in Hc. destruct Hc as [H1 H2].
  apply negb_true_iff in H1. apply negb_true_iff in H2. apply negb_true_iff in H3.
  cbn [prun]. rewrite H1, H2, H3. apply IH. exact Hs.
Qed.

Lemma prun_in_string : forall lim s d, no_quote s = true -> prun lim s d true = Some (d, true).
Proof.
  intros lim. induction s as [|c s IH]; intros d H; [reflexivity|].
  unfold no_quote in H. cbn [forallb] in H. apply andb_true_iff in H. destruct H as [Hc Hs].
  cbn [prun]. change ((c =? q)%N) with ((c =? 34)%N). rewrite Hc. apply IH. exact Hs.
Qed.

Lemma space_plain : forall c, isspace_c c = true -> plainc c = true.
Proof. apply space_forall. vm_compute. reflexivity. Qed.

Lemma digit_plain : forall c, is_ascii_digit c = true -> plainc c = true.
Proof.
  intros c H. apply digit_cases in H.
  repeat (destruct H as [H|H]; [subst c; reflexivity|]). subst c. reflexivity.
Qed.

Lemma ident_char_ascii : forall c, is_ident_char c = true -> (c < 128)%N.
Proof.
  intros c H. unfold is_ident_char, is_ascii_letter, is_ascii_digit in H.
  repeat (apply orb_true_iff in H; destruct H as [H|H]);
    try (apply andb_true_iff in H; destruct H as [H1 H2]; apply N.leb_le in H1; apply N.leb_le in H2; lia).
  apply N.eqb_eq in H. lia.
Qed.

Lemma ident_char_plain : forall c, is_ident_char c = true -> plainc c = true.
Proof.
  intros c H.
  assert (Hall : forall c, (c < 128)%N -> implb (is_ident_char c) (plainc c) = true).
  { apply ascii_forall. vm_compute. reflexivity. }
  specialize (Hall c (ident_char_ascii c H)). rewrite H in Hall. exact Hall.
Qed.

Lemma ident_start_plain : forall c, is_ident_start c = true -> plainc c = true.
Proof.
  intros c H.
  assert (Hall : forall c, (c < 128)%N -> implb (is_ident_start c) (plainc c) = true).
  { apply ascii_forall. vm_compute. reflexivity. }
  specialize (Hall c (ident_start_ascii c H)). rewrite H in Hall. exact Hall.
Qed.

Lemma forallb_imp : forall (A : Type) (f g : A -> bool) (l : list A),
  (forall x, f x = true -> g x = true) -> forallb f l = true -> forallb g l = true.
Proof.
  intros A f g l H Hl. rewrite forallb_forall in *. intros x Hx. apply H. apply Hl. exact Hx.
Qed.

Lemma prun_ws : forall lim w d, forallb isspace_c w = true -> prun lim w d false = Some (d, false).
Proof.
  intros lim w d H. apply prun_plain. eapply forallb_imp; [|exact H]. exact space_plain.
Qed.

Lemma flatten_odd : forall (fo : FloatOps) (t : ptree fo), Nat.even (length (flatten fo t)) = false.
Proof.
  intros fo t. rewrite <- Nat.negb_odd. apply negb_false_iff. apply Nat.odd_spec.
  induction t as [v|oc sym l [kl Hl] r [kr Hr]].
  - exists 0. reflexivity.
  - exists (kl + kr + 1). cbn [flatten]. rewrite !app_length. cbn [length]. lia.
Qed.

Lemma rank_op_table : forall oc sym, In (oc, sym) op_table -> exists k, rank sym = Some k.
Proof.
  intros oc sym H. unfold op_table in H. cbn [In] in H.
  repeat (destruct H as [H|H]; [inversion H; subst oc sym; eexists; vm_compute; reflexivity|]).
  contradiction.
Qed.

Section WithFloats.
Variable fo : FloatOps.
Notation value := (value fo).
Notation ptok := (ptok fo).
Notation ptree := (ptree fo).
Notation vars_t := (vars_t fo).
Notation TS := (TS fo).
Notation leads := (leads fo).
Notation reaches := (reaches fo).
Notation ptok_of := (ptok_of fo).
Notation tok_ok := (tok_ok fo).
Notation expr_ok := (expr_ok fo).
Notation eval_in := (eval_in fo).
Notation eval_ref := (eval_ref fo).

Variable vars : vars_t.
Hypothesis Hvi : vars_ident fo vars.

(* ------------------------------------------------------------------ one token is neutral for prun *)
Lemma prun_tok : forall lim t d, tok_ok vars t -> tok_strict t ->
  prun lim (spell_tok t) d false = Some (d, false).
Proof.
  intros lim t d Ht Hs. destruct t as [ds|ds|body|b|name|oc sym]; cbn [tok_ok tok_strict spell_tok] in *.
  - assert (Hf : forallb is_ascii_digit ds = true) by (destruct ds; [discriminate Ht|exact Ht]).
    apply prun_plain. apply (forallb_imp _ _ _ _ digit_plain Hf).
  - assert (Hf : forallb is_ascii_digit ds = true) by (destruct ds; [discriminate Ht|exact Ht]).
    apply prun_plain. cbn [forallb]. apply andb_true_iff. split; [reflexivity|].
    apply (forallb_imp _ _ _ _ digit_plain Hf).
  - cbn [prun]. change ((34 =? q)%N) with true. cbn iota.
    rewrite prun_app, (prun_in_string lim body d Ht). reflexivity.
  - destruct b; reflexivity.
  - destruct Hs as [Hid _]. apply prun_plain. destruct name as [|c name]; [discriminate Hid|].
    cbn [ident] in Hid. apply andb_true_iff in Hid. destruct Hid as [Hc Hr].
    cbn [forallb]. apply andb_true_iff. split; [apply ident_start_plain; exact Hc|].
    apply (forallb_imp _ _ _ _ ident_char_plain Hr).
  - unfold op_table in Ht. cbn [In] in Ht.
    repeat (destruct Ht as [Ht|Ht]; [inversion Ht; subst oc sym; reflexivity|]). contradiction.
Qed.

Section Layout.
Variable ws : nat -> str.
Hypothesis ws_ok : forall i, forallb isspace_c (ws i) = true.

Notation body := (body ws).
Notation text := (text ws).

(* ------------------------------------------------------------------ the printed text is balanced *)
Lemma prun_body : forall lim e n d, expr_ok vars e -> d + gdepth e <= lim ->
  prun lim (body e n) d false = Some (d, false).
Proof.
  intros lim. induction e as [t|x|oc sym a IHa b IHb|e IH|e IH]; intros n d Hok Hd;
    cbn [body expr_ok gdepth] in *.
  - destruct Hok as [Hl Ht]. eapply prun_app_some; [apply prun_ws, ws_ok|].
    apply prun_tok; [exact Ht|]. destruct t; try exact I; discriminate Hl.
  - destruct Hok as [Ht Hs]. eapply prun_app_some; [apply prun_ws, ws_ok|].
    apply (prun_tok lim (SVar x)); assumption.
  - destruct Hok as [Hop [Ha Hb]].
    eapply prun_app_some; [apply IHa; [exact Ha|lia]|].
    eapply prun_app_some; [apply prun_ws, ws_ok|].
    eapply prun_app_some; [apply (prun_tok lim (SOp oc sym)); [exact Hop|exact I]|].
    apply IHb; [exact Hb|lia].
  - eapply prun_app_some; [apply prun_ws, ws_ok|].
    cbn [app prun]. change ((lpar =? q)%N) with false. change ((lpar =? lpar)%N) with true. cbn iota.
    assert (Hl : (S d <=? lim) = true) by (apply Nat.leb_le; lia). rewrite Hl.
    eapply prun_app_some.
    + eapply prun_app_some; [apply IH; [exact Hok|lia]|apply prun_ws, ws_ok].
    + reflexivity.
  - eapply prun_app_some; [apply prun_ws, ws_ok|].
    cbn [app prun]. change ((bang =? q)%N) with false. change ((bang =? lpar)%N) with false.
    change ((bang =? rpar)%N) with false.
    change ((lpar =? q)%N) with false. change ((lpar =? lpar)%N) with true. cbn iota.
    assert (Hl : (S d <=? lim) = true) by (apply Nat.leb_le; lia). rewrite Hl.
    eapply prun_app_some.
    + eapply prun_app_some; [apply IH; [exact Hok|lia]|apply prun_ws, ws_ok].
    + reflexivity.
Qed.

Theorem text_balanced : forall lim e n, expr_ok vars e -> gdepth e <= lim -> balanced lim (text e n).
Proof.
  intros lim e n Hok Hd. unfold balanced, ExprLang.text.
  eapply prun_app_some; [apply prun_body; [exact Hok|lia]|apply prun_ws, ws_ok].
Qed.

(* ------------------------------------------------------------------ the tree of an expression *)
Fixpoint tree_of (e : expr) (n : nat) : ptree :=
  match e with
  | ELit t => Leaf (ptok_of vars t)
  | EVar x => Leaf (ptok_of vars (SVar x))
  | EBin oc sym a b => Node oc sym (tree_of a n) (tree_of b (n + slots a + 1))
  | EParen e => Leaf (PGroup (text e (n + 1)) false)
  | ENot e => Leaf (PGroup (text e (n + 1)) true)
  end.

Lemma top_rank_tree : forall e n, top_rank fo all_rows (tree_of e n) = etop e.
Proof. intros [t|x|oc sym a b|e|e] n; reflexivity. Qed.

Lemma wb_tree : forall e n, expr_ok vars e -> ewb e -> wb fo all_rows (tree_of e n).
Proof.
  induction e as [t|x|oc sym a IHa b IHb|e IH|e IH]; intros n Hok Hwb;
    cbn [tree_of wb expr_ok ewb] in *.
  - destruct Hok as [Hl _]. destruct t; cbn; try exact I; discriminate Hl.
  - cbn [Spelling.ptok_of]. destruct (lookup x vars); exact I.
  - destruct Hok as [_ [Ha Hb]]. destruct Hwb as (k & Hk & Hwa & Hwb & Hl & Hr).
    exists k. repeat split; [exact Hk|apply IHa; assumption|apply IHb; assumption| |].
    + intros kl Hkl. rewrite top_rank_tree in Hkl. apply Hl. exact Hkl.
    + intros kr Hkr. rewrite top_rank_tree in Hkr. apply Hr. exact Hkr.
  - exact I.
  - exact I.
Qed.

(* ------------------------------------------------------------------ what follows a token *)
Definition follows_value (r : str) : Prop :=
  match r with [] => True | c :: _ => isspace_c c = true \/ op_first c = true end.

Definition follows_op (r : str) : Prop :=
  match r with [] => True | c :: _ => (c =? 47)%N = false /\ (c =? 61)%N = false end.

Lemma follows_value_ws : forall w r, forallb isspace_c w = true -> follows_value r -> follows_value (w ++ r).
Proof.
  intros [|c w] r H Hr; [exact Hr|]. cbn [forallb] in H. apply andb_true_iff in H.
  cbn [app follows_value]. left. apply H.
Qed.

Lemma follows_op_ws : forall w r, forallb isspace_c w = true -> follows_op r -> follows_op (w ++ r).
Proof.
  intros [|c w] r H Hr; [exact Hr|]. cbn [forallb] in H. apply andb_true_iff in H. destruct H as [Hc _].
  cbn [app follows_op]. apply space_sep in Hc. tauto.
Qed.

Lemma follows_value_op : forall oc sym r, In (oc, sym) op_table -> follows_value (sym ++ r).
Proof.
  intros oc sym r H. destruct (spell_tok_first fo vars (SOp oc sym) H) as [c [m [Hs Hc]]].
  cbn [spell_tok is_sop] in Hs, Hc. rewrite Hs. cbn [app follows_value]. right. exact Hc.
Qed.

Lemma follows_op_tok : forall t r, tok_ok vars t -> is_sop t = false -> follows_op (spell_tok t ++ r).
Proof.
  intros t r Ht Hop. destruct (spell_tok_first fo vars t Ht) as [c [m [Hs Hc]]].
  rewrite Hop in Hc. rewrite Hs. cbn [app follows_op]. apply val_first_slash. exact Hc.
Qed.

Lemma follows_op_body : forall e n r, expr_ok vars e -> follows_op (body e n ++ r).
Proof.
  induction e as [t|x|oc sym a IHa b IHb|e IH|e IH]; intros n r Hok; cbn [body expr_ok] in *.
  - destruct Hok as [Hl Ht]. rewrite <- app_assoc. apply follows_op_ws; [apply ws_ok|].
    apply follows_op_tok; [exact Ht|]. destruct t; try reflexivity; discriminate Hl.
  - destruct Hok as [Ht _]. rewrite <- app_assoc. apply follows_op_ws; [apply ws_ok|].
    apply (follows_op_tok (SVar x)); [exact Ht|reflexivity].
  - destruct Hok as [_ [Ha _]]. rewrite <- app_assoc. apply IHa. exact Ha.
  - rewrite <- app_assoc. apply follows_op_ws; [apply ws_ok|]. cbn. split; reflexivity.
  - rewrite <- app_assoc. apply follows_op_ws; [apply ws_ok|]. cbn. split; reflexivity.
Qed.

(* ------------------------------------------------------------------ one value token *)
Lemma atom_token : forall t r out,
  tok_ok vars t -> tok_strict t -> is_sop t = false -> follows_value r ->
  leads vars (TS (spell_tok t ++ r) false out) (TS r true (ptok_of vars t :: out)).
Proof.
  intros t r out Ht Hst Hop Hf.
  assert (Hsep : forall c r', r = c :: r' -> sep_facts c = true).
  { intros c r' ->. cbn [follows_value] in Hf.
    destruct Hf as [Hs|Hs]; [apply space_sep in Hs|apply op_first_sep in Hs]; apply Hs. }
  assert (Hnf : num_follow r).
  { unfold num_follow. destruct r as [|c r']; [exact I|].
    specialize (Hsep c r' eq_refl). apply sep_split in Hsep. destruct Hsep as [H1 [H2 _]].
    split; assumption. }
  destruct t as [ds|ds|bd|b|name|oc sym]; cbn [is_sop] in Hop; try discriminate Hop;
    cbn [tok_ok tok_strict] in Ht, Hst; cbn [spell_tok Spelling.ptok_of].
  - apply int_token; assumption.
  - cbn [app]. apply neg_token; assumption.
  - replace ((34%N :: bd ++ [34%N]) ++ r) with (q :: bd ++ q :: r)
      by (cbn [app]; rewrite <- app_assoc; reflexivity).
    apply str_token. exact Ht.
  - apply (bool_token fo vars b r out).
  - destruct Ht as [Hid [Hbs Hlk]]. destruct Hst as [Hident Hbsafe].
    destruct (lookup name vars) as [v|] eqn:Hv; [|contradiction].
    destruct name as [|c0 n']; [discriminate Hid|].
    cbn [name_start] in Hid.
    destruct (start_split c0 Hid) as [S1 [S2 [S3 [S4 [S5 _]]]]].
    unfold kw_free in Hbs. cbn [forallb] in Hbs.
    apply andb_true_iff in Hbs. destruct Hbs as [HT Hbs].
    apply andb_true_iff in Hbs. destruct Hbs as [HF _].
    apply negb_true_iff in HT. apply negb_true_iff in HF.
    assert (Hpre : forall w, In w [s_TRUE; s_FALSE] -> startswith (c0 :: n') w = false).
    { unfold bool_safe in Hbsafe. rewrite forallb_forall in Hbsafe. intros w Hw0.
      specialize (Hbsafe w Hw0). apply andb_true_iff in Hbsafe. destruct Hbsafe as [_ Hb2].
      apply negb_true_iff in Hb2. exact Hb2. }
    apply var_token.
    + repeat split; assumption.
    + intros w Hin. rewrite bool_keywords_eq in Hin. cbn [In] in Hin.
      destruct Hin as [<-|[<-|[]]]; assumption.
    + destruct r as [|c r']; apply cands_empty; intros w Hin; rewrite bool_keywords_eq in Hin.
      * apply Hpre. exact Hin.
      * apply sep_not_keyword; [exact (Hsep c r' eq_refl)|discriminate|exact Hin].
    + exact Hv.
    + unfold kw_follow. destruct r as [|c r']; [exact I|].
      apply cands_empty. specialize (Hsep c r' eq_refl). apply sep_split in Hsep.
      destruct Hsep as [_ [_ Hic]].
      apply (vars_ident_follow fo vars (c0 :: n') c Hvi); [discriminate|exact Hic].
Qed.

Lemma op_token_follow : forall oc sym r out,
  In (oc, sym) op_table -> follows_op r ->
  leads vars (TS (sym ++ r) true out) (TS r false (POp oc sym :: out)).
Proof.
  intros oc sym r out Hin Hf. apply op_token; [exact Hin|].
  unfold kw_follow. destruct r as [|c r']; [exact I|]. cbn [follows_op] in Hf.
  destruct Hf as [H47 H61]. apply op_follow_ok; assumption.
Qed.

(* ------------------------------------------------------------------ the scanner on a printed text *)
Lemma run_body : forall e n r out,
  expr_ok vars e -> gdepth e <= 100 -> follows_value r ->
  leads vars (TS (body e n ++ r) false out) (TS r true (rev (flatten fo (tree_of e n)) ++ out)).
Proof.
  induction e as [t|x|oc sym a IHa b IHb|e IH|e IH]; intros n r out Hok Hd Hf;
    cbn [body expr_ok gdepth tree_of flatten] in *.
  - destruct Hok as [Hl Ht]. rewrite <- app_assoc.
    eapply leads_trans; [apply ws_run, ws_ok|]. cbn [rev app].
    apply atom_token; [exact Ht| |destruct t; try reflexivity; discriminate Hl|exact Hf].
    destruct t; try exact I; discriminate Hl.
  - destruct Hok as [Ht Hs]. rewrite <- app_assoc.
    eapply leads_trans; [apply ws_run, ws_ok|]. cbn [rev app].
    apply (atom_token (SVar x)); [exact Ht|exact Hs|reflexivity|exact Hf].
  - destruct Hok as [Hop [Ha Hb]].
    rewrite <- !app_assoc.
    eapply leads_trans.
    { apply IHa; [exact Ha|lia|]. apply follows_value_ws; [apply ws_ok|].
      apply (follows_value_op oc sym). exact Hop. }
    eapply leads_trans; [apply ws_run, ws_ok|].
    eapply leads_trans.
    { apply op_token_follow; [exact Hop|]. apply follows_op_body. exact Hb. }
    replace (rev (flatten fo (tree_of a n) ++ [POp oc sym] ++ flatten fo (tree_of b (n + slots a + 1))) ++ out)
      with (rev (flatten fo (tree_of b (n + slots a + 1))) ++ POp oc sym :: rev (flatten fo (tree_of a n)) ++ out).
    2:{ rewrite !rev_app_distr. cbn [rev app]. rewrite <- !app_assoc. reflexivity. }
    apply IHb; [exact Hb|lia|exact Hf].
  - rewrite <- app_assoc.
    eapply leads_trans; [apply ws_run, ws_ok|]. cbn [rev app].
    apply (group_token_ident fo vars (text e (n + 1)) false r out Hvi).
    apply text_balanced; [exact Hok|unfold group_limit; lia].
  - rewrite <- app_assoc.
    eapply leads_trans; [apply ws_run, ws_ok|]. cbn [rev app].
    apply (group_token_ident fo vars (text e (n + 1)) true r out Hvi).
    apply text_balanced; [exact Hok|unfold group_limit; lia].
Qed.

Theorem scan_text : forall e n, expr_ok vars e -> gdepth e <= 100 ->
  convert_string fo vars (text e n) = Ok (flatten fo (tree_of e n)).
Proof.
  intros e n Hok Hd. apply reaches_convert. unfold ExprLang.text.
  apply (run_body e n (ws (n + slots e)) [] Hok Hd).
  { pose proof (ws_ok (n + slots e)) as Hw. destruct (ws (n + slots e)) as [|c w]; [exact I|].
    cbn [forallb] in Hw. apply andb_true_iff in Hw. left. apply Hw. }
  rewrite <- (app_nil_r (ws (n + slots e))).
  apply (ws_run fo vars (ws (n + slots e)) [] true _ (ws_ok _)).
  rewrite <- (rev_involutive (flatten fo (tree_of e n))) at 2. rewrite app_nil_r.
  apply reaches_end. rewrite rev_length. apply flatten_odd.
Qed.

(* ------------------------------------------------------------------ evaluation *)
Definition P (e : expr) : Prop := forall n f, length (text e n) < f ->
  tokenize_fuel fo f vars (text e n) = eval_ref vars e.

Definition Q (e : expr) : Prop := forall n f, length (text e n) <= f ->
  solve fo (tokenize_fuel fo f vars) (tree_of e n) = eval_in vars e.

Lemma Q_P : forall e, expr_ok vars e -> ewb e -> gdepth e <= 100 -> Q e -> P e.
Proof.
  intros e Hok Hwb Hd HQ n f Hlen. destruct f as [|f]; [lia|]. cbn [tokenize_fuel].
  rewrite (scan_text e n Hok Hd). cbn [bind].
  rewrite (build_tree_correct fo _ (wb_tree e n Hok Hwb)). cbn [bind].
  rewrite (HQ n f) by lia. reflexivity.
Qed.

Lemma Q_all : forall e, expr_ok vars e -> ewb e -> gdepth e <= 100 -> Q e.
Proof.
  induction e as [t|x|oc sym a IHa b IHb|e IH|e IH]; intros Hok Hwb Hd n f Hlen;
    cbn [expr_ok ewb gdepth tree_of solve ExprLang.eval_in] in *.
  - destruct Hok as [Hl _]. unfold tok_value. destruct t; try reflexivity; discriminate Hl.
  - unfold tok_value. cbn [Spelling.ptok_of]. destruct (lookup x vars); reflexivity.
  - destruct Hok as [_ [Ha Hb]]. destruct Hwb as (k & _ & Hwa & Hwb & _ & _).
    unfold ExprLang.text in Hlen. cbn [ExprLang.body slots] in Hlen.
    rewrite !app_length in Hlen.
    rewrite (IHa Ha Hwa ltac:(lia) n f).
    2:{ unfold ExprLang.text. rewrite app_length. lia. }
    rewrite (IHb Hb Hwb ltac:(lia) (n + slots a + 1) f).
    2:{ unfold ExprLang.text. rewrite app_length.
        replace (n + slots a + 1 + slots b) with (n + (slots a + 1 + slots b)) by lia. lia. }
    reflexivity.
  - assert (HP : P e) by (apply Q_P; try assumption; try lia; apply IH; try assumption; lia).
    rewrite (HP (n + 1) f).
    2:{ unfold ExprLang.text in *. cbn [ExprLang.body slots] in Hlen.
        rewrite !app_length in Hlen. cbn [length] in Hlen. rewrite !app_length in *. lia. }
    unfold ExprLang.eval_ref. destruct (eval_in vars e); reflexivity.
  - assert (HP : P e) by (apply Q_P; try assumption; try lia; apply IH; try assumption; lia).
    rewrite (HP (n + 1) f).
    2:{ unfold ExprLang.text in *. cbn [ExprLang.body slots] in Hlen.
        rewrite !app_length in Hlen. cbn [length] in Hlen. rewrite !app_length in *. lia. }
    unfold ExprLang.eval_ref. destruct (eval_in vars e); reflexivity.
Qed.

(* stage 2: expressions that need no further parentheses *)
Theorem tokenize_text : forall e n, expr_ok vars e -> ewb e -> gdepth e <= 100 ->
  tokenize fo vars (text e n) = eval_ref vars e.
Proof.
  intros e n Hok Hwb Hd. unfold tokenize.
  apply (Q_P e Hok Hwb Hd (Q_all e Hok Hwb Hd)). lia.
Qed.

End Layout.
(* ------------------------------------------------------------------ stage 3: the parentheses the
   printer adds *)
Lemma etop_paren : forall e, etop (paren e) = etop e.
Proof. intros [t|x|oc sym a b|e|e]; reflexivity. Qed.

Lemma expr_ok_paren : forall e, expr_ok vars e -> expr_ok vars (paren e).
Proof.
  induction e as [t|x|oc sym a IHa b IHb|e IH|e IH]; intro Hok; cbn [paren ExprLang.expr_ok] in *; auto.
  destruct Hok as [Hop [Ha Hb]]. split; [exact Hop|]. split.
  - destruct (need_left sym a); cbn [ExprLang.expr_ok]; auto.
  - destruct (need_right sym b); cbn [ExprLang.expr_ok]; auto.
Qed.

Lemma ewb_paren : forall e, expr_ok vars e -> ewb (paren e).
Proof.
  induction e as [t|x|oc sym a IHa b IHb|e IH|e IH]; intro Hok; cbn [paren ewb ExprLang.expr_ok] in *; auto.
  destruct Hok as [Hop [Ha Hb]]. destruct (rank_op_table oc sym Hop) as [k Hk].
  exists k. split; [exact Hk|]. unfold need_left, need_right. rewrite Hk.
  split; [|split; [|split]].
  - destruct (etop a) as [ka|]; [destruct (k <? ka)|]; cbn [ewb]; auto.
  - destruct (etop b) as [kb|]; [destruct (k <=? kb)|]; cbn [ewb]; auto.
  - intros ka Hka. destruct (etop a) as [ka'|] eqn:Hea.
    + destruct (k <? ka') eqn:Hlt; [discriminate Hka|].
      rewrite etop_paren, Hea in Hka. injection Hka as <-. apply Nat.ltb_ge in Hlt. exact Hlt.
    + rewrite etop_paren, Hea in Hka. discriminate Hka.
  - intros kb Hkb. destruct (etop b) as [kb'|] eqn:Heb.
    + destruct (k <=? kb') eqn:Hle; [discriminate Hkb|].
      rewrite etop_paren, Heb in Hkb. injection Hkb as <-. apply Nat.leb_gt in Hle. exact Hle.
    + rewrite etop_paren, Heb in Hkb. discriminate Hkb.
Qed.

Lemma normalise_idem : forall v : value, normalise fo (normalise fo v) = normalise fo v.
Proof.
  intros [z|f|s|b|l|]; try reflexivity. cbn [normalise].
  destruct (f_is_integer fo f) eqn:Hi; [reflexivity|]. cbn [normalise]. rewrite Hi. reflexivity.
Qed.

Lemma apply_op_normal : forall oc sym x y v,
  apply_op fo oc sym x y = Ok v -> normalise fo v = v.
Proof.
  intros oc sym x y v H. unfold apply_op in H.
  destruct (match oc with OCMath => math_op fo sym x y | OCCond => cond_op fo sym x y
            | OCComma => comma_op fo x y end) as [w|e|k|]; cbn [bind] in H; try discriminate H.
  injection H as <-. apply normalise_idem.
Qed.

(* parentheses around an operator application change nothing: its value is already normalised *)
Lemma eval_in_paren_bin : forall e k, etop e = Some k ->
  eval_in vars (EParen e) = eval_in vars e.
Proof.
  intros [t|x|oc sym a b|e|e] k H; try discriminate H. cbn [ExprLang.eval_in].
  destruct (eval_in vars a) as [va|?|?|]; cbn [bind]; try reflexivity.
  destruct (eval_in vars b) as [vb|?|?|]; cbn [bind]; try reflexivity.
  destruct (apply_op fo oc sym va vb) as [v|?|?|] eqn:Hv; cbn [bind]; try reflexivity.
  rewrite (apply_op_normal _ _ _ _ _ Hv). reflexivity.
Qed.

Lemma eval_in_paren : forall e, eval_in vars (paren e) = eval_in vars e.
Proof.
  induction e as [t|x|oc sym a IHa b IHb|e IH|e IH]; cbn [paren ExprLang.eval_in]; try reflexivity.
  - assert (Ha : eval_in vars (if need_left sym a then EParen (paren a) else paren a) = eval_in vars a).
    { unfold need_left. destruct (rank sym) as [k|]; [|exact IHa].
      destruct (etop a) as [ka|] eqn:Hea; [|exact IHa]. destruct (k <? ka); [|exact IHa].
      rewrite (eval_in_paren_bin (paren a) ka); [exact IHa|]. rewrite etop_paren. exact Hea. }
    assert (Hb : eval_in vars (if need_right sym b then EParen (paren b) else paren b) = eval_in vars b).
    { unfold need_right. destruct (rank sym) as [k|]; [|exact IHb].
      destruct (etop b) as [kb|] eqn:Heb; [|exact IHb]. destruct (k <=? kb); [|exact IHb].
      rewrite (eval_in_paren_bin (paren b) kb); [exact IHb|]. rewrite etop_paren. exact Heb. }
    rewrite Ha, Hb. reflexivity.
  - rewrite IH. reflexivity.
  - rewrite IH. reflexivity.
Qed.

Lemma eval_ref_paren : forall e, eval_ref vars (paren e) = eval_ref vars e.
Proof. intro e. unfold ExprLang.eval_ref. rewrite eval_in_paren. reflexivity. Qed.

Lemma ws_of_ok : forall lay, layout_ok lay -> forall i, forallb isspace_c (ws_of lay i) = true.
Proof.
  intros lay H i. unfold ws_of. destruct (nth_in_or_default i lay []) as [Hin|Hd].
  - unfold layout_ok in H. rewrite Forall_forall in H. apply H. exact Hin.
  - rewrite Hd. reflexivity.
Qed.

(* ------------------------------------------------------------------ the main theorem *)
Theorem tokenize_print : forall lay e,
  layout_ok lay -> expr_ok vars e -> depth e <= 100 ->
  tokenize fo vars (print lay e) = eval_ref vars e.
Proof.
  intros lay e Hl Hok Hd. unfold print.
  rewrite (tokenize_text (ws_of lay) (ws_of_ok lay Hl) (paren e) 0
             (expr_ok_paren e Hok) (ewb_paren e Hok) Hd).
  apply eval_ref_paren.
Qed.

(* the value does not depend on the layout *)
Corollary spacing_independent_expr : forall lay1 lay2 e,
  layout_ok lay1 -> layout_ok lay2 -> expr_ok vars e -> depth e <= 100 ->
  tokenize fo vars (print lay1 e) = tokenize fo vars (print lay2 e).
Proof.
  intros lay1 lay2 e H1 H2 Hok Hd. rewrite !tokenize_print by assumption. reflexivity.
Qed.

End WithFloats.
