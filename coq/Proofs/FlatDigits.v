(* C01: DELAY re-prints its number.  For a digit string without a leading zero (or "0" itself) the
   printed number is the string that was read, so such DELAY lines are emitted unchanged. *)
From Coq Require Import NArith ZArith List Bool Lia.
From DS Require Import Base PyStr Spelling.
Import ListNotations.
Local Open Scope N_scope.

Lemma dec_value_snoc : forall ds c a, dec_value (ds ++ [c]) a = dec_value ds a * 10 + (c - 48).
Proof.
  induction ds as [|x r IH]; intros c a; cbn [app dec_value]; [reflexivity|]. apply IH.
Qed.

Lemma digit_range : forall c, is_ascii_digit c = true -> 48 <= c /\ c <= 57.
Proof.
  intros c H. unfold is_ascii_digit in H. apply andb_true_iff in H. destruct H as [H1 H2].
  apply N.leb_le in H1. apply N.leb_le in H2. split; assumption.
Qed.

Lemma step_digit : forall f m c acc, is_ascii_digit c = true ->
  pos_digits_fuel (S f) (m * 10 + (c - 48)) acc =
  if m =? 0 then c :: acc else pos_digits_fuel f m (c :: acc).
Proof.
  intros f m c acc Hc. destruct (digit_range c Hc) as [H1 H2].
  assert (Hd : c - 48 < 10) by lia.
  cbn [pos_digits_fuel].
  assert (Hmod : (m * 10 + (c - 48)) mod 10 = c - 48).
  { rewrite N.add_comm. rewrite N.mod_add by discriminate. apply N.mod_small. exact Hd. }
  assert (Hdiv : (m * 10 + (c - 48)) / 10 = m).
  { rewrite N.add_comm. rewrite N.div_add by discriminate. rewrite (N.div_small _ _ Hd). reflexivity. }
  rewrite Hmod, Hdiv. replace (48 + (c - 48)) with c by lia. reflexivity.
Qed.

Lemma digits_print : forall ds,
  forallb is_ascii_digit ds = true -> ds <> [] -> hd 0 ds <> 48 ->
  (forall fuel acc, (length ds <= fuel)%nat -> pos_digits_fuel fuel (dec_value ds 0) acc = ds ++ acc)
  /\ 2 ^ N.of_nat (pred (length ds)) <= dec_value ds 0.
Proof.
  induction ds as [|c ds' IH] using rev_ind; intros Hd Hne Hhd; [contradiction Hne; reflexivity|].
  rewrite forallb_app in Hd. apply andb_true_iff in Hd. destruct Hd as [Hd' Hc].
  cbn [forallb] in Hc. rewrite andb_true_r in Hc.
  destruct (digit_range c Hc) as [Hc1 Hc2].
  rewrite dec_value_snoc.
  destruct ds' as [|x r].
  - cbn [app hd] in Hhd. cbn [dec_value app length pred N.of_nat].
    split.
    + intros fuel acc Hf. destruct fuel as [|f]; [cbn in Hf; lia|].
      rewrite (step_digit f 0 c acc Hc). reflexivity.
    + cbn. lia.
  - assert (Hne' : x :: r <> []) by discriminate.
    assert (Hhd' : hd 0 (x :: r) <> 48) by exact Hhd.
    destruct (IH Hd' Hne' Hhd') as [IHp IHv].
    assert (Hpos : 1 <= dec_value (x :: r) 0).
    { eapply N.le_trans; [|exact IHv].
      change 1 with (2 ^ 0). apply N.pow_le_mono_r; [discriminate|lia]. }
    split.
    + intros fuel acc Hf. rewrite app_length in Hf. cbn [length] in Hf.
      destruct fuel as [|f]; [lia|].
      rewrite (step_digit f _ c acc Hc).
      destruct (N.eqb_spec (dec_value (x :: r) 0) 0) as [E|_]; [lia|].
      rewrite IHp by (cbn [length]; lia). rewrite <- app_assoc. reflexivity.
    + rewrite app_length. cbn [length]. rewrite Nat.add_1_r. cbn [pred].
      cbn [length pred] in IHv.
      replace (N.of_nat (S (length r))) with (N.succ (N.of_nat (length r))) by lia.
      rewrite N.pow_succ_r'. lia.
Qed.

Theorem canonical_digits : forall ds,
  is_digits ds = true -> (hd 0 ds <> 48 \/ ds = [48]) ->
  Z_to_str (Z.of_N (dec_value ds 0)) = ds.
Proof.
  intros ds Hd [Hhd | ->]; [|reflexivity].
  destruct ds as [|c r]; [discriminate Hd|]. cbn [is_digits] in Hd.
  destruct (digits_print (c :: r) Hd ltac:(discriminate) Hhd) as [Hp Hv].
  set (v := dec_value (c :: r) 0) in *.
  assert (Hpos : 0 < v).
  { eapply N.lt_le_trans; [|exact Hv]. apply N.neq_0_lt_0. apply N.pow_nonzero. discriminate. }
  destruct v as [|p] eqn:Ev; [lia|].
  cbn [Z.of_N Z_to_str]. unfold N_to_str.
  rewrite Hp; [apply app_nil_r|].
  apply (proj1 (N.log2_le_pow2 _ _ Hpos)) in Hv.
  cbn [length pred] in Hv. cbn [length]. lia.
Qed.
