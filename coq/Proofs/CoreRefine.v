(* The interpreter implements the reference semantics of Spec/CoreLang.v.

   Simulation relation R g F f vs s: the interpreter state s has glob g, system variables sys,
   user variables EXACTLY the store vs (same list), temp table = the flag f, functions F.
   Main lemma (refine_all): by mutual induction on the derivation, for every depth d and stack
   context cx with room for the nesting of the program. *)
From Coq Require Import NArith ZArith List Bool Lia.
From DS Require Import Base PyStr Values Expr TabParse Tables Constants Interp IdentSpec IdentProofs.
From DS Require Import ScopeProofs LimitProofs ChainProofs LoopUnroll LoopBlock.
From DS Require Import PipelineProofs GroupProofs DollarForm NameChecks CoreLang CoreWf CoreLines.
Import ListNotations.

Arguments IOk {A}. Arguments IErr {A}. Arguments ICrash {A}. Arguments IUnmod {A}.
Arguments s_g {fo}. Arguments s_env {fo}. Arguments s_line2 {fo}. Arguments mkSt {fo}.

(* ================================================================== association lists *)
Section Assoc.
Context {A : Type}.

Lemma upd_notin : forall k (v : A) l, ~ In k (map fst l) -> upd k v l = l ++ [(k, v)].
Proof.
  induction l as [|[k' v'] l IH]; intro H; [reflexivity|].
  cbn [upd]. cbn [map fst In] in H.
  destruct (str_eqb k k') eqn:E.
  - apply ScopeProofs.str_eqb_eq in E. subst k'. exfalso. apply H. left. reflexivity.
  - cbn [app]. rewrite IH; [reflexivity|]. intro Hin. apply H. right. exact Hin.
Qed.

Lemma upd_all_app : forall (l acc : list (str * A)),
  NoDup (map fst (acc ++ l)) -> upd_all l acc = acc ++ l.
Proof.
  induction l as [|[k v] l IH]; intros acc H.
  - rewrite app_nil_r. reflexivity.
  - unfold upd_all. cbn [fold_left fst snd]. fold (upd_all l (upd k v acc)).
    assert (Hk : ~ In k (map fst acc)).
    { rewrite map_app in H. cbn [map fst] in H. apply NoDup_remove_2 in H.
      intro Hin. apply H. apply in_or_app. left. exact Hin. }
    rewrite (upd_notin k v acc Hk).
    rewrite IH; [rewrite <- app_assoc; reflexivity|].
    rewrite <- app_assoc. exact H.
Qed.

Lemma upd_all_nil_id : forall l : list (str * A), nodup_keys l -> upd_all l [] = l.
Proof. intros l H. apply (upd_all_app l []). exact H. Qed.

Lemma lookup_in_nodup : forall (l : list (str * A)) k v, nodup_keys l -> In (k, v) l -> lookup k l = Some v.
Proof.
  induction l as [|[k' v'] l IH]; intros k v Hnd Hin; [contradiction|].
  unfold nodup_keys in Hnd. cbn [map fst] in Hnd. inversion Hnd as [|? ? Hnotin Hnd']; subst.
  cbn [lookup]. destruct Hin as [Heq|Hin].
  - injection Heq as -> ->. rewrite str_eqb_refl. reflexivity.
  - destruct (str_eqb k k') eqn:E.
    + apply ScopeProofs.str_eqb_eq in E. subst k'. exfalso. apply Hnotin.
      apply (in_map fst) in Hin. exact Hin.
    + apply IH; assumption.
Qed.

Lemma restrict_from_same : forall (l other : list (str * A)),
  (forall k v, In (k, v) l -> lookup k other = Some v) -> restrict_from l other = l.
Proof.
  induction l as [|[k v] l IH]; intros other H; [reflexivity|].
  unfold restrict_from. cbn [flat_map fst]. rewrite (H k v (or_introl eq_refl)). cbn [app].
  f_equal. apply IH. intros k0 v0 Hin. apply H. right. exact Hin.
Qed.

Lemma restrict_from_self : forall l : list (str * A), nodup_keys l -> restrict_from l l = l.
Proof. intros l H. apply restrict_from_same. intros k v Hin. apply lookup_in_nodup; assumption. Qed.
End Assoc.

(* ================================================================== the spec's store operations are the code's *)
Section Refine.
Variable fo : FloatOps.
Variable sys : store fo.
Hypothesis Hsys : nodup_keys sys.

Notation value := (value fo).
Notation env := (env fo).
Notation st := (st fo).

Lemma set_var_upd : forall x (v : value) l, set_var fo x v l = upd x v l.
Proof. intros x v l. induction l as [|[y w] l IH]; [reflexivity|]. cbn [set_var upd]. rewrite IH. reflexivity. Qed.

Lemma copy_back_restrict : forall outer inner : store fo, copy_back fo outer inner = restrict_from outer inner.
Proof. reflexivity. Qed.

Lemma overlay_upd_all : forall top bottom : store fo, overlay fo top bottom = upd_all top bottom.
Proof.
  induction top as [|[y w] top IH]; intro bottom; [reflexivity|].
  unfold overlay, upd_all in *. cbn [fold_left fst snd]. rewrite set_var_upd. apply IH.
Qed.

Lemma flag_name_eq : flag_name = if_success.
Proof. reflexivity. Qed.

Lemma loop_max_eq : loop_max = repeat_high /\ loop_max = while_limit.
Proof. split; reflexivity. Qed.

(* ------------------------------------------------------------------ the simulation relation *)
Definition R (g : glob) (F : list (str * func)) (f : option bool) (vs : store fo) (s : st) : Prop :=
  s_g s = g /\ e_sys fo (s_env s) = sys /\ e_user fo (s_env s) = vs /\
  e_temp fo (s_env s) = flag_var fo f /\ e_funcs fo (s_env s) = F /\ nodup_keys vs.

Definition state_of (g : glob) (F : list (str * func)) (f : option bool) (vs : store fo) (l2 : option preline) : st :=
  mkSt g (mkEnv fo sys vs (flag_var fo f) F) l2.

Lemma R_state_of : forall g F f vs s, R g F f vs s -> s = state_of g F f vs (s_line2 s).
Proof.
  intros g F f vs [g0 [sy us te fu] l2] (H1 & H2 & H3 & H4 & H5 & _). cbn in *. subst. reflexivity.
Qed.

Lemma state_of_R : forall g F f vs l2, nodup_keys vs -> R g F f vs (state_of g F f vs l2).
Proof. intros. repeat split. assumption. Qed.

Lemma R_line2 : forall g F f vs s l2, R g F f vs s -> R g F f vs (mkSt (s_g s) (s_env s) l2).
Proof. intros g F f vs s l2 H. exact H. Qed.

Lemma R_nodup : forall g F f vs s, R g F f vs s -> nodup_keys vs.
Proof. intros g F f vs s H. apply H. Qed.

Lemma all_vars_R : forall g F f vs s, R g F f vs s -> all_vars fo (s_env s) = visible fo sys f vs.
Proof.
  intros g F f vs s (_ & H2 & H3 & H4 & _). unfold all_vars, visible. rewrite H2, H3, H4.
  rewrite !overlay_upd_all. reflexivity.
Qed.

Lemma eval_R : forall g F f vs s e v, R g F f vs s -> eval fo sys f vs e v ->
  tokenize fo (all_vars fo (s_env s)) e = Ok v.
Proof. intros g F f vs s e v HR He. rewrite (all_vars_R g F f vs s HR). exact He. Qed.

Lemma R_with_flag : forall g F f vs s b, R g F f vs s -> R g F (Some b) vs (with_flag fo b s).
Proof.
  intros g F f vs s b (H1 & H2 & H3 & H4 & H5 & H6). unfold R, with_flag. cbn.
  repeat split; try assumption. rewrite H4. destruct f as [b'|]; reflexivity.
Qed.

Definition flag_or_false (f : option bool) : bool := match f with Some b => b | None => false end.

Lemma R_ensure_flag : forall g F f vs s, R g F f vs s -> R g F (Some (flag_or_false f)) vs (ensure_flag fo s).
Proof.
  intros g F f vs s HR. unfold ensure_flag, has_key. pose proof HR as (_ & _ & _ & H4 & _). rewrite H4.
  destruct f as [b|]; cbn [flag_var lookup flag_or_false].
  - rewrite flag_name_eq, str_eqb_refl. exact HR.
  - exact (R_with_flag g F None vs s false HR).
Qed.

Lemma R_flag_of : forall g F b vs s, R g F (Some b) vs s -> flag_of fo s = b.
Proof.
  intros g F b vs s (_ & _ & _ & H4 & _). unfold flag_of. rewrite H4. cbn [flag_var lookup].
  rewrite flag_name_eq, str_eqb_refl. destruct b; reflexivity.
Qed.

Lemma R_ensure_id : forall g F b vs s, R g F (Some b) vs s -> ensure_flag fo s = s.
Proof.
  intros g F b vs s (_ & _ & _ & H4 & _). unfold ensure_flag, has_key. rewrite H4. cbn [flag_var lookup].
  rewrite flag_name_eq, str_eqb_refl. reflexivity.
Qed.

Lemma R_clear : forall g F f vs s, R g F f vs s -> R g F f vs (clear_line2 fo s).
Proof. intros g F f vs s H. exact H. Qed.

Lemma R_store_user : forall g F f vs s x v, R g F f vs s -> R g F f (set_var fo x v vs) (store_user fo x v s).
Proof.
  intros g F f vs s x v (H1 & H2 & H3 & H4 & H5 & H6). unfold R, store_user. cbn.
  repeat split; try assumption.
  - rewrite H3, set_var_upd. reflexivity.
  - rewrite set_var_upd. apply nodup_keys_upd. exact H6.
Qed.

Lemma nodup_with_counter : forall c k vs, nodup_keys vs -> nodup_keys (with_counter fo c k vs).
Proof. intros [x|] k vs H; cbn [with_counter]; [rewrite set_var_upd; apply nodup_keys_upd|]; exact H. Qed.

(* ------------------------------------------------------------------ depth *)
Definition child_of (d : nat) : runner fo := match d with O => no_child fo | S d' => run fo d' end.

Lemma run_child_of : forall d, run fo d = run_with fo (child_of d).
Proof. intros [|d]; reflexivity. Qed.

Definition fits (d : nat) (cx : ctx) (m : nat) : Prop :=
  (m <= d)%nat /\ (Z.of_nat (length (c_pile cx)) + Z.of_nat m < stack_limit (c_opts cx))%Z.

Lemma fits_le : forall d cx m m', fits d cx m -> (m' <= m)%nat -> fits d cx m'.
Proof. intros d cx m m' [H1 H2] H. split; lia. Qed.

Definition inner_cx (cx : ctx) (cur : preline) (l2 : option preline) (file : option path) : ctx :=
  mkCtx (c_opts cx) (c_fs cx) (here cx cur l2) file.

Lemma fits_S : forall d cx m, fits d cx (S m) ->
  exists d', d = S d' /\
    cmp_eval stack_limit_op (pile_len cx) (stack_limit (c_opts cx)) = false /\
    forall cur l2 file, fits d' (inner_cx cx cur l2 file) m.
Proof.
  intros d cx m [H1 H2]. destruct d as [|d']; [lia|]. exists d'. split; [reflexivity|]. split.
  - apply limit_check_passes. lia.
  - intros cur l2 file. split; [lia|]. unfold inner_cx. cbn [c_pile c_opts]. rewrite here_length. lia.
Qed.

(* ------------------------------------------------------------------ blocks *)
Lemma entry_env_R : forall g F f vs s, R g F f vs s ->
  append_env fo (empty_env fo) (s_env s) = mkEnv fo sys vs [] (upd_all F []).
Proof.
  intros g F f vs s (_ & H2 & H3 & _ & H5 & H6). unfold append_env, empty_env. cbn.
  rewrite H2, H3, H5, (upd_all_nil_id sys Hsys), (upd_all_nil_id vs H6). reflexivity.
Qed.

Lemma bind_counter_entry : forall c k vs F', CoreWf.counter_ok c ->
  bind_counter fo c k (mkEnv fo sys vs [] F') = Ok (mkEnv fo sys (with_counter fo c k vs) [] F').
Proof.
  intros [x|] k vs F' Hc; cbn [bind_counter with_counter CoreWf.counter_ok] in *; [|reflexivity].
  rewrite is_var_spec_lemma, Hc. cbn. rewrite set_var_upd. reflexivity.
Qed.

(* the round trip of one block whose body the child runs successfully *)
Lemma block_runs : forall d' cx cur code file setup pre s g F f vs inner s2 cr f1 vs1,
  R g F f vs s ->
  cmp_eval stack_limit_op (pile_len cx) (stack_limit (c_opts cx)) = false ->
  setup (mkEnv fo sys vs [] (upd_all F [])) = Ok (mkEnv fo sys inner [] (upd_all F [])) ->
  pre (mkEnv fo sys inner [] (upd_all F [])) = Ok true ->
  exec_cmds fo (child_of d') (inner_cx cx cur (s_line2 s) file) code []
            (state_of g (upd_all F []) None inner None) = (s2, IOk cr) ->
  R g (upd_all F []) f1 vs1 s2 ->
  exists s', R g F f (copy_back fo vs vs1) s' /\ s_line2 s' = s_line2 s /\
    run_child_with fo (run fo d') cx cur code file false setup pre s = (s', IOk (Some cr)).
Proof.
  intros d' cx cur code file setup pre s g F f vs inner s2 cr f1 vs1 HR Hlim Hsetup Hpre Hexec HR2.
  exists (mkSt g (update_from_env fo (s_env s) (s_env s2)) (s_line2 s)).
  pose proof HR as (H1 & H2 & H3 & H4 & H5 & H6). pose proof HR2 as (G1 & G2 & G3 & G4 & G5 & G6).
  split; [|split; [reflexivity|]].
  - unfold R, update_from_env. cbn. rewrite H2, H3, G2, G3, (restrict_from_self sys Hsys).
    repeat split; try assumption. apply nodup_keys_restrict_from. exact H6.
  - unfold run_child_with. rewrite Hlim, (entry_env_R g F f vs s HR), Hsetup, Hpre.
    rewrite run_child_of. unfold run_with. unfold inner_cx, state_of in Hexec. cbn [flag_var] in Hexec. rewrite H1, Hexec, G1. reflexivity.
Qed.

(* the block is not entered (WHILE whose condition is false) *)
Lemma block_skipped : forall child cx cur code file setup pre s g F f vs inner,
  R g F f vs s ->
  cmp_eval stack_limit_op (pile_len cx) (stack_limit (c_opts cx)) = false ->
  setup (mkEnv fo sys vs [] (upd_all F [])) = Ok (mkEnv fo sys inner [] (upd_all F [])) ->
  pre (mkEnv fo sys inner [] (upd_all F [])) = Ok false ->
  exists s', R g F f (copy_back fo vs inner) s' /\ s_line2 s' = s_line2 s /\
    run_child_with fo child cx cur code file false setup pre s = (s', IOk None).
Proof.
  intros child cx cur code file setup pre s g F f vs inner HR Hlim Hsetup Hpre.
  exists (mkSt g (update_from_env fo (s_env s) (mkEnv fo sys inner [] (upd_all F []))) (s_line2 s)).
  pose proof HR as (H1 & H2 & H3 & H4 & H5 & H6).
  split; [|split; [reflexivity|]].
  - unfold R, update_from_env. cbn. rewrite H2, H3, (restrict_from_self sys Hsys).
    repeat split; try assumption. apply nodup_keys_restrict_from. exact H6.
  - unfold run_child_with. rewrite Hlim, (entry_env_R g F f vs s HR), Hsetup, Hpre, H1. reflexivity.
Qed.

(* ------------------------------------------------------------------ the concrete form *)
Lemma items_from_cons : forall n s r,
  items_from n (s :: r) = stmt_items n s ++ items_from (n + size s)%Z r.
Proof. reflexivity. Qed.

Definition arms_items (first : bool) (n : Z) (arms : list (str * list stmt)) (els : option (list stmt)) : list item :=
  arms_items_gen (seq_items stmt_items size) (sum_sizes size) els first n arms.

Lemma stmt_items_if : forall n arms els, stmt_items n (SIf arms els) = arms_items true n arms els.
Proof. reflexivity. Qed.

Fixpoint arms_of (first : bool) (n : Z) (arms : list (str * list stmt)) (els : option (list stmt)) : list arm :=
  match arms with
  | [] => match els with Some b => [else_arm n (items_from (n + 1)%Z b)] | None => [] end
  | (c, b) :: r =>
      cond_arm (if first then AIf else AElif) c n (items_from (n + 1)%Z b)
      :: arms_of false (n + 1 + sum_sizes size b)%Z r els
  end.

Lemma arms_items_chain : forall arms first n els,
  arms_items first n arms els = chain_items (arms_of first n arms els).
Proof.
  induction arms as [|[c b] r IH]; intros first n els.
  - cbn. destruct els; reflexivity.
  - unfold arms_items in *. cbn [arms_items_gen arms_of chain_items flat_map].
    rewrite IH. destruct first; reflexivity.
Qed.

Lemma stmt_items_head : forall s n, stmt_items n s = [] \/ exists c m t, stmt_items n s = Ln c m :: t.
Proof.
  intros s n. destruct s as [name text|name e|x e|arms els|c e b|c e b| |]; try (right; cbn; eauto; fail).
  rewrite stmt_items_if. destruct arms as [|[c b] r].
  - destruct els; [right|left]; cbn; eauto.
  - right. cbn. eauto.
Qed.

Lemma items_from_head : forall p n, head_ok (items_from n p).
Proof.
  induction p as [|s r IH]; intro n; [exact I|].
  rewrite items_from_cons. destruct (stmt_items_head s n) as [->|(c & m & t & ->)].
  - apply IH.
  - exact I.
Qed.

Lemma wf_items_nonempty : forall s n, wf s -> stmt_items n s <> [].
Proof.
  intros s n H. destruct s as [name text|name e|x e|arms els|c e b|c e b| |]; try discriminate.
  rewrite stmt_items_if. destruct arms as [|[c b] r]; [destruct H as [H _]; contradiction|discriminate].
Qed.

Lemma wf_list_items_nonempty : forall p n, p <> [] -> wf_list p -> items_from n p <> [].
Proof.
  intros [|s r] n Hne H; [contradiction|]. destruct H as [Hs _].
  rewrite items_from_cons. intro E. apply app_eq_nil in E. destruct E as [E _].
  exact (wf_items_nonempty s n Hs E).
Qed.

Definition nest_arms (arms : list (str * list stmt)) (els : option (list stmt)) : nat :=
  Nat.max (max_over (fun cb : str * list stmt => let (_, b) := cb in S (nesting_list b)) arms)
          (match els with Some b => S (nesting_list b) | None => O end).

Lemma nesting_if : forall arms els, nesting (SIf arms els) = nest_arms arms els.
Proof. reflexivity. Qed.

Lemma arms_ok : forall arms first n els,
  all_list wf_arm arms -> wf_else els -> Forall arm_ok (arms_of first n arms els).
Proof.
  induction arms as [|[c b] r IH]; intros first n els Ha He.
  - cbn. destruct els as [b|]; [|constructor]. destruct He as [Hne Hwf].
    constructor; [|constructor]. apply else_arm_ok. apply wf_list_items_nonempty; assumption.
  - destruct Ha as [(Hc & Hne & Hwf) Hr]. cbn [arms_of]. constructor.
    + apply cond_arm_ok; [destruct first; discriminate|apply expr_ok_blank; exact Hc|].
      apply wf_list_items_nonempty; assumption.
    + apply IH; assumption.
Qed.

Lemma arms_non_if : forall arms n els, Forall non_if (arms_of false n arms els).
Proof.
  induction arms as [|[c b] r IH]; intros n els.
  - cbn. destruct els; constructor; [apply non_if_else|constructor].
  - cbn [arms_of]. constructor; [apply non_if_elif|apply IH].
Qed.

Definition sig_of (sg : sig) : signal :=
  match sg with Normal => SNormal | Broke => SBreak | Continued => SContinue end.

(* what Stack.run does once a statement has ended with signal sg *)
Definition continue_with (child : runner fo) (cx : ctx) (sg : sig) (rest : list item) (acc : list oline) (s' : st)
  : st * ires cret :=
  match sg with
  | Normal => exec_cmds fo child cx rest acc s'
  | _ => (s', IOk (mkCret acc (sig_of sg)))
  end.

Lemma go_on_continue : forall child cx rest acc ol sg s',
  go_on fo child cx rest acc (mkCret ol (sig_of sg)) s' = continue_with child cx sg rest (acc ++ ol) s'.
Proof. intros. destruct sg; reflexivity. Qed.

Lemma exec_cmds_clear : forall child cx c n rest acc s, is_blank c = false ->
  exec_cmds fo child cx (Ln c n :: rest) acc s = exec_cmds fo child cx (Ln c n :: rest) acc (clear_line2 fo s).
Proof. intros child cx c n rest acc s H. cbn [exec_cmds]. rewrite H. reflexivity. Qed.

Lemma later_evaluate : forall g F vsx s' rest n els,
  R g F (Some true) vsx s' -> all_list wf_arm rest ->
  Forall (fun cb : str * list stmt => exists v', eval fo sys (Some true) vsx (fst cb) v') rest ->
  Forall (evaluates fo s') (arms_of false n rest els).
Proof.
  intros g F vsx s' rest. induction rest as [|[c b] r IH]; intros n els HR Hwf Hev.
  - cbn. destruct els; constructor; [|constructor]. exists true. apply evals_else_arm. reflexivity.
  - destruct Hwf as [(Hc & _) Hr]. inversion Hev as [|? ? [v' Hv] Hev']; subst. cbn [arms_of]. constructor.
    + exists (truthy fo v'). apply evals_cond_arm; [apply expr_ok_blank; exact Hc|].
      exists v'. split; [|reflexivity]. rewrite (expr_ok_strip c Hc). apply (eval_R g F (Some true) vsx s'); assumption.
    + apply IH; assumption.
Qed.

(* ------------------------------------------------------------------ the statements proved by the induction *)
Definition P_exec (f : option bool) (vs : store fo) (stm : stmt) (sg : sig) (f' : option bool) (vs' : store fo)
           (out : list str) : Prop :=
  forall d cx n rest acc s g F,
    R g F f vs s -> wf stm -> fits d cx (nesting stm) -> head_ok rest ->
    exists s' ol, R g F f' vs' s' /\ map o_text ol = out /\
      exec_cmds fo (child_of d) cx (stmt_items n stm ++ rest) acc s =
      continue_with (child_of d) cx sg rest (acc ++ ol) s'.

Definition P_list (f : option bool) (vs : store fo) (p : list stmt) (sg : sig) (f' : option bool) (vs' : store fo)
           (out : list str) : Prop :=
  forall d cx n acc s g F,
    R g F f vs s -> wf_list p -> fits d cx (nesting_list p) ->
    exists s' ol, R g F f' vs' s' /\ map o_text ol = out /\
      exec_cmds fo (child_of d) cx (items_from n p) acc s = (s', IOk (mkCret (acc ++ ol) (sig_of sg))).

Definition P_arms (b : bool) (vs : store fo) (arms : list (str * list stmt)) (els : option (list stmt))
           (sg : sig) (taken : bool) (vs' : store fo) (out : list str) : Prop :=
  forall (first : bool) d cx n rest acc s g F,
    (if first then exists f, R g F f vs s /\ b = flag_or_false f /\ arms <> []
     else R g F (Some false) vs s /\ b = false) ->
    all_list wf_arm arms -> wf_else els -> fits d cx (nest_arms arms els) ->
    exists s' ol, R g F (Some taken) vs' s' /\ map o_text ol = out /\
      exec_cmds fo (child_of d) cx (arms_items first n arms els ++ rest) acc s =
      continue_with (child_of d) cx sg rest (acc ++ ol) s'.

Definition P_repeat (f : option bool) (c : option str) (e : str) (body : list stmt) (k : Z)
           (vs vs' : store fo) (out : list str) : Prop :=
  forall d cx cur n fuel a s g F,
    R g F f vs s -> CoreWf.counter_ok c -> body <> [] -> wf_list body -> fits d cx (S (nesting_list body)) ->
    (loop_max - k < Z.of_nat fuel)%Z ->
    exists s' ol, R g F f vs' s' /\ map o_text ol = out /\ s_line2 s' = s_line2 s /\
      repeat_loop fo (child_of d) cx cur fuel c e (items_from n body) k (mkCret a SNormal) s =
      (s', IOk (mkCret (a ++ ol) SNormal)).

Definition P_while (c : option str) (e : str) (body : list stmt) (k : Z)
           (vs vs' : store fo) (out : list str) : Prop :=
  forall d cx cur n fuel a s g F f,
    R g F f vs s -> CoreWf.counter_ok c -> body <> [] -> wf_list body -> fits d cx (S (nesting_list body)) ->
    (loop_max - k < Z.of_nat fuel)%Z ->
    exists s' ol, R g F f vs' s' /\ map o_text ol = out /\ s_line2 s' = s_line2 s /\
      while_loop fo (child_of d) cx cur fuel c e (items_from n body) k (mkCret a SNormal) s =
      (s', IOk (mkCret (a ++ ol) SNormal)).

(* ------------------------------------------------------------------ simple statements *)
Lemma case_emit : forall f vs name text, P_exec f vs (SEmit name text) Normal f vs [name ++ sp :: text].
Proof.
  intros f vs name text d cx n rest acc s g F HR Hwf _ Hh. cbn [wf] in Hwf.
  destruct (emit_line fo (child_of d) cx name text n rest acc s Hwf Hh) as [cname Heq].
  exists (at_line fo (name ++ sp :: text, n) s), [mkO (ByCommand cname) (name ++ sp :: text)].
  split; [exact HR|]. split; [reflexivity|]. exact Heq.
Qed.

Lemma case_emit_eval : forall f vs name e v t,
  eval fo sys f vs e v -> py_str fo v = Some t ->
  P_exec f vs (SEmitEval name e) Normal f vs [name ++ sp :: t].
Proof.
  intros f vs name e v t Hv Ht d cx n rest acc s g F HR Hwf _ Hh. destruct Hwf as [Hname He].
  destruct (emit_eval_line fo (child_of d) cx name e n rest acc s v t Hname He Hh
              (eval_R g F f vs s e v HR Hv) Ht) as [cname Heq].
  exists (at_line fo (dollar_c :: name ++ sp :: e, n) s), [mkO (ByCommand cname) (name ++ sp :: t)].
  split; [exact HR|]. split; [reflexivity|]. exact Heq.
Qed.

Lemma case_var : forall f vs x e v,
  eval fo sys f vs e v -> P_exec f vs (SVar x e) Normal f (set_var fo x v vs) [].
Proof.
  intros f vs x e v Hv d cx n rest acc s g F HR Hwf _ Hh. destruct Hwf as [Hx He].
  exists (at_line fo (kw_VAR ++ sp :: x ++ sp :: e, n) (store_user fo x v s)), [].
  split; [exact (R_store_user g F f vs s x v HR)|]. split; [reflexivity|].
  exact (var_line fo (child_of d) cx x e n rest acc s v Hx He Hh (eval_R g F f vs s e v HR Hv)).
Qed.

Lemma case_break : forall f vs, P_exec f vs SBreakLoop Broke f vs [].
Proof.
  intros f vs d cx n rest acc s g F HR _ _ Hh.
  exists (at_line fo (kw_BREAKLOOP, n) s), []. split; [exact HR|]. split; [reflexivity|].
  apply signal_line; [left; split; reflexivity|exact Hh].
Qed.

Lemma case_continue : forall f vs, P_exec f vs SContinueLoop Continued f vs [].
Proof.
  intros f vs d cx n rest acc s g F HR _ _ Hh.
  exists (at_line fo (kw_CONTINUELOOP, n) s), []. split; [exact HR|]. split; [reflexivity|].
  apply signal_line; [right; split; reflexivity|exact Hh].
Qed.

(* ------------------------------------------------------------------ statement lists *)
Lemma case_nil : forall f vs, P_list f vs [] Normal f vs [].
Proof.
  intros f vs d cx n acc s g F HR _ _. exists s, []. split; [exact HR|]. split; [reflexivity|].
  rewrite app_nil_r. reflexivity.
Qed.

Lemma case_cons : forall f vs s r f1 vs1 o1 sg f2 vs2 o2,
  P_exec f vs s Normal f1 vs1 o1 -> P_list f1 vs1 r sg f2 vs2 o2 ->
  P_list f vs (s :: r) sg f2 vs2 (o1 ++ o2).
Proof.
  intros f vs stm r f1 vs1 o1 sg f2 vs2 o2 IH1 IH2 d cx n acc s g F HR [Hwf Hwfr] Hfit.
  rewrite items_from_cons.
  destruct (IH1 d cx n (items_from (n + size stm)%Z r) acc s g F HR Hwf
              (fits_le d cx _ _ Hfit (Nat.le_max_l _ _)) (items_from_head r _)) as (s1 & ol1 & HR1 & Ho1 & E1).
  destruct (IH2 d cx (n + size stm)%Z (acc ++ ol1) s1 g F HR1 Hwfr
              (fits_le d cx _ _ Hfit (Nat.le_max_r _ _))) as (s2 & ol2 & HR2 & Ho2 & E2).
  exists s2, (ol1 ++ ol2). split; [exact HR2|]. split; [rewrite map_app, Ho1, Ho2; reflexivity|].
  rewrite E1. cbn [continue_with]. rewrite E2, app_assoc. reflexivity.
Qed.

Lemma case_stop : forall f vs s r sg f1 vs1 o1,
  P_exec f vs s sg f1 vs1 o1 -> sg <> Normal -> P_list f vs (s :: r) sg f1 vs1 o1.
Proof.
  intros f vs stm r sg f1 vs1 o1 IH1 Hsg d cx n acc s g F HR [Hwf Hwfr] Hfit.
  rewrite items_from_cons.
  destruct (IH1 d cx n (items_from (n + size stm)%Z r) acc s g F HR Hwf
              (fits_le d cx _ _ Hfit (Nat.le_max_l _ _)) (items_from_head r _)) as (s1 & ol1 & HR1 & Ho1 & E1).
  exists s1, ol1. split; [exact HR1|]. split; [exact Ho1|]. rewrite E1.
  destruct sg; [contradiction|reflexivity|reflexivity].
Qed.

(* ------------------------------------------------------------------ a body run as a block *)
Lemma body_block : forall d cx cur n body file setup pre s g F f vs inner sg f1 vs1 out,
  P_list None inner body sg f1 vs1 out ->
  R g F f vs s -> wf_list body -> fits d cx (S (nesting_list body)) -> nodup_keys inner ->
  setup (mkEnv fo sys vs [] (upd_all F [])) = Ok (mkEnv fo sys inner [] (upd_all F [])) ->
  pre (mkEnv fo sys inner [] (upd_all F [])) = Ok true ->
  exists s' ol, R g F f (copy_back fo vs vs1) s' /\ s_line2 s' = s_line2 s /\ map o_text ol = out /\
    run_child_with fo (child_of d) cx cur (items_from n body) file false setup pre s =
    (s', IOk (Some (mkCret ol (sig_of sg)))).
Proof.
  intros d cx cur n body file setup pre s g F f vs inner sg f1 vs1 out IH HR Hwf Hfit Hnd Hsetup Hpre.
  destruct (fits_S d cx _ Hfit) as (d' & -> & Hlim & Hfit').
  destruct (IH d' (inner_cx cx cur (s_line2 s) file) n [] (state_of g (upd_all F []) None inner None)
               g (upd_all F []) (state_of_R g (upd_all F []) None inner None Hnd) Hwf (Hfit' cur (s_line2 s) file))
    as (s2 & ol & HR2 & Ho & E).
  cbn [app] in E.
  destruct (block_runs d' cx cur (items_from n body) file setup pre s g F f vs inner s2
              (mkCret ol (sig_of sg)) f1 vs1 HR Hlim Hsetup Hpre E HR2) as (s' & HR' & Hl2 & Hrun).
  exists s', ol. split; [exact HR'|]. split; [exact Hl2|]. split; [exact Ho|]. exact Hrun.
Qed.

Lemma body_block_plain : forall d cx cur n body s g F f vs sg f1 vs1 out,
  P_list None vs body sg f1 vs1 out ->
  R g F f vs s -> wf_list body -> fits d cx (S (nesting_list body)) ->
  exists s' ol, R g F f (copy_back fo vs vs1) s' /\ s_line2 s' = s_line2 s /\ map o_text ol = out /\
    run_child fo (child_of d) cx cur (items_from n body) (c_file cx) false (fun e => Ok e) s =
    (s', IOk (mkCret ol (sig_of sg))).
Proof.
  intros d cx cur n body s g F f vs sg f1 vs1 out IH HR Hwf Hfit.
  destruct (body_block d cx cur n body (c_file cx) (fun e => Ok e) (fun _ => Ok true) s g F f vs vs sg f1 vs1 out
              IH HR Hwf Hfit (R_nodup g F f vs s HR) eq_refl eq_refl) as (s' & ol & HR' & Hl2 & Ho & Hrun).
  exists s', ol. split; [exact HR'|]. split; [exact Hl2|]. split; [exact Ho|].
  unfold run_child, bindM. rewrite Hrun. reflexivity.
Qed.

Lemma body_block_counter : forall d cx cur n body c k s g F f vs sg f1 vs1 out,
  P_list None (with_counter fo c k vs) body sg f1 vs1 out ->
  R g F f vs s -> CoreWf.counter_ok c -> wf_list body -> fits d cx (S (nesting_list body)) ->
  exists s' ol, R g F f (copy_back fo vs vs1) s' /\ s_line2 s' = s_line2 s /\ map o_text ol = out /\
    run_child fo (child_of d) cx cur (items_from n body) (c_file cx) false (bind_counter fo c k) s =
    (s', IOk (mkCret ol (sig_of sg))).
Proof.
  intros d cx cur n body c k s g F f vs sg f1 vs1 out IH HR Hc Hwf Hfit.
  destruct (body_block d cx cur n body (c_file cx) (bind_counter fo c k) (fun _ => Ok true) s g F f vs
              (with_counter fo c k vs) sg f1 vs1 out
              IH HR Hwf Hfit (nodup_with_counter c k vs (R_nodup g F f vs s HR))
              (bind_counter_entry c k vs _ Hc) eq_refl) as (s' & ol & HR' & Hl2 & Ho & Hrun).
  exists s', ol. split; [exact HR'|]. split; [exact Hl2|]. split; [exact Ho|].
  unfold run_child, bindM. rewrite Hrun. reflexivity.
Qed.

(* ------------------------------------------------------------------ REPEAT *)
Lemma tokenize_count_ok : forall cx cur e s v n,
  tokenize fo (all_vars fo (s_env s)) e = Ok v -> count_of fo v = Some n -> (0 <= n <= loop_max)%Z ->
  tokenize_count fo cx cur e s = (s, IOk n).
Proof.
  intros cx cur e s v n Hv Hn Hrange. unfold tokenize_count.
  unfold bindM at 1. rewrite (proj2 (tokenizeM_ok fo cx cur e s v) Hv).
  assert (Hchk : cmp_eval repeat_low_op n repeat_low || cmp_eval repeat_high_op n repeat_high = false).
  { unfold repeat_low_op, repeat_low, repeat_high_op, repeat_high, loop_max in *. cbn [cmp_eval].
    apply orb_false_iff. split; [apply Z.ltb_ge|apply Z.ltb_ge]; lia. }
  destruct v as [z|x|t|b|l|]; cbn [count_of] in Hn; try discriminate.
  - injection Hn as ->. unfold bindM, ret. rewrite Hchk. reflexivity.
  - destruct (f_is_integer fo x); [|discriminate]. injection Hn as ->. unfold bindM, ret. rewrite Hchk. reflexivity.
  - injection Hn as <-. unfold bindM, ret. rewrite Hchk. reflexivity.
Qed.

Lemma case_r_done : forall f c e body k vs v n,
  eval fo sys f vs e v -> count_of fo v = Some n -> (0 <= n <= loop_max)%Z -> (n <= k)%Z ->
  P_repeat f c e body k vs vs [].
Proof.
  intros f c e body k vs v n Hv Hn Hrange Hk d cx cur m fuel a s g F HR _ _ _ _ _.
  exists s, []. split; [exact HR|]. split; [reflexivity|]. split; [reflexivity|].
  pose proof (tokenize_count_ok cx cur e s v n (eval_R g F f vs s e v HR Hv) Hn Hrange) as Htc.
  assert (Hlt : (k <? n)%Z = false) by (apply Z.ltb_ge; lia).
  rewrite app_nil_r.
  destruct fuel; cbn [repeat_loop]; unfold bindM at 1; rewrite Htc, Hlt; reflexivity.
Qed.

Lemma case_r_iter : forall f c e body k vs v n sg f1 vs1 o1 vs' o2,
  eval fo sys f vs e v -> count_of fo v = Some n -> (0 <= n <= loop_max)%Z -> (k < n)%Z ->
  P_list None (with_counter fo c k vs) body sg f1 vs1 o1 -> sg <> Broke ->
  P_repeat f c e body (k + 1) (copy_back fo vs vs1) vs' o2 ->
  P_repeat f c e body k vs vs' (o1 ++ o2).
Proof.
  intros f c e body k vs v n sg f1 vs1 o1 vs' o2 Hv Hn Hrange Hk IHb Hsg IHr
         d cx cur m fuel a s g F HR Hc Hne Hwf Hfit Hfuel.
  pose proof (tokenize_count_ok cx cur e s v n (eval_R g F f vs s e v HR Hv) Hn Hrange) as Htc.
  assert (Hlt : (k <? n)%Z = true) by (apply Z.ltb_lt; lia).
  destruct fuel as [|fuel']; [unfold loop_max in *; lia|].
  destruct (body_block_counter d cx cur m body c k s g F f vs sg f1 vs1 o1 IHb HR Hc Hwf Hfit)
    as (s1 & ol1 & HR1 & Hl1 & Ho1 & Hrun).
  destruct (IHr d cx cur m fuel' (a ++ ol1) s1 g F HR1 Hc Hne Hwf Hfit ltac:(lia))
    as (s2 & ol2 & HR2 & Ho2 & Hl2 & Hloop).
  exists s2, (ol1 ++ ol2). split; [exact HR2|]. split; [rewrite map_app, Ho1, Ho2; reflexivity|].
  split; [rewrite Hl2; exact Hl1|].
  cbn [repeat_loop]. unfold bindM at 1. rewrite Htc, Hlt. unfold bindM at 1. rewrite Hrun.
  cbn [cr_sig cr_data].
  assert (Hls : loop_signal (sig_of sg) = (SNormal, false)) by (destruct sg; [reflexivity|contradiction|reflexivity]).
  rewrite Hls. rewrite Hloop, app_assoc. reflexivity.
Qed.

Lemma case_r_break : forall f c e body k vs v n f1 vs1 o1,
  eval fo sys f vs e v -> count_of fo v = Some n -> (0 <= n <= loop_max)%Z -> (k < n)%Z ->
  P_list None (with_counter fo c k vs) body Broke f1 vs1 o1 ->
  P_repeat f c e body k vs (copy_back fo vs vs1) o1.
Proof.
  intros f c e body k vs v n f1 vs1 o1 Hv Hn Hrange Hk IHb
         d cx cur m fuel a s g F HR Hc Hne Hwf Hfit Hfuel.
  pose proof (tokenize_count_ok cx cur e s v n (eval_R g F f vs s e v HR Hv) Hn Hrange) as Htc.
  assert (Hlt : (k <? n)%Z = true) by (apply Z.ltb_lt; lia).
  destruct fuel as [|fuel']; [unfold loop_max in *; lia|].
  destruct (body_block_counter d cx cur m body c k s g F f vs Broke f1 vs1 o1 IHb HR Hc Hwf Hfit)
    as (s1 & ol1 & HR1 & Hl1 & Ho1 & Hrun).
  exists s1, ol1. split; [exact HR1|]. split; [exact Ho1|]. split; [exact Hl1|].
  cbn [repeat_loop]. unfold bindM at 1. rewrite Htc, Hlt. unfold bindM at 1. rewrite Hrun. reflexivity.
Qed.

(* ------------------------------------------------------------------ WHILE *)
Definition while_cond (e : str) : env -> res bool :=
  fun ce => do v <- tokenize fo (all_vars fo ce) e; Ok (truthy fo v).

Lemma while_cond_eval : forall e inner F' v,
  nodup_keys inner -> eval fo sys None inner e v ->
  while_cond e (mkEnv fo sys inner [] F') = Ok (truthy fo v).
Proof.
  intros e inner F' v Hnd Hv. unfold while_cond.
  change (mkEnv fo sys inner [] F') with (s_env (state_of (mkGlob [] []) F' None inner None)).
  rewrite (all_vars_R _ F' None inner _ (state_of_R (mkGlob [] []) F' None inner None Hnd)).
  unfold eval in Hv. rewrite Hv. reflexivity.
Qed.

Lemma while_limit_ok : forall k, (k <= loop_max)%Z -> cmp_eval while_limit_op k while_limit = false.
Proof.
  intros k H. unfold while_limit_op, while_limit, loop_max in *. cbn [cmp_eval]. apply Z.ltb_ge. lia.
Qed.

Lemma case_w_done : forall c e body k vs v,
  (k <= loop_max)%Z -> eval fo sys None (with_counter fo c k vs) e v -> truthy fo v = false ->
  P_while c e body k vs (copy_back fo vs (with_counter fo c k vs)) [].
Proof.
  intros c e body k vs v Hk Hv Ht d cx cur m fuel a s g F f HR Hc Hne Hwf Hfit Hfuel.
  destruct fuel as [|fuel']; [lia|].
  destruct (fits_S d cx _ Hfit) as (d' & -> & Hlim & _).
  pose proof (nodup_with_counter c k vs (R_nodup g F f vs s HR)) as Hnd.
  destruct (block_skipped (child_of (S d')) cx cur (items_from m body) (c_file cx) (bind_counter fo c k) (while_cond e)
              s g F f vs (with_counter fo c k vs) HR Hlim (bind_counter_entry c k vs _ Hc))
    as (s' & HR' & Hl & Hrun).
  { rewrite (while_cond_eval e _ _ v Hnd Hv), Ht. reflexivity. }
  exists s', []. split; [exact HR'|]. split; [reflexivity|]. split; [exact Hl|].
  cbn [while_loop]. rewrite (while_limit_ok k Hk). unfold bindM at 1. fold (while_cond e). rewrite Hrun.
  rewrite app_nil_r. reflexivity.
Qed.

Lemma while_body_block : forall d cx cur m body c e k s g F f vs v sg f1 vs1 o1,
  P_list None (with_counter fo c k vs) body sg f1 vs1 o1 ->
  eval fo sys None (with_counter fo c k vs) e v -> truthy fo v = true ->
  R g F f vs s -> CoreWf.counter_ok c -> wf_list body -> fits d cx (S (nesting_list body)) ->
  exists s' ol, R g F f (copy_back fo vs vs1) s' /\ s_line2 s' = s_line2 s /\ map o_text ol = o1 /\
    run_child_with fo (child_of d) cx cur (items_from m body) (c_file cx) false (bind_counter fo c k) (while_cond e) s =
    (s', IOk (Some (mkCret ol (sig_of sg)))).
Proof.
  intros d cx cur m body c e k s g F f vs v sg f1 vs1 o1 IHb Hv Ht HR Hc Hwf Hfit.
  pose proof (nodup_with_counter c k vs (R_nodup g F f vs s HR)) as Hnd.
  apply (body_block d cx cur m body (c_file cx) (bind_counter fo c k) (while_cond e) s g F f vs
           (with_counter fo c k vs) sg f1 vs1 o1 IHb HR Hwf Hfit Hnd (bind_counter_entry c k vs _ Hc)).
  rewrite (while_cond_eval e _ _ v Hnd Hv), Ht. reflexivity.
Qed.

Lemma case_w_iter : forall c e body k vs v sg f1 vs1 o1 vs' o2,
  (k <= loop_max)%Z -> eval fo sys None (with_counter fo c k vs) e v -> truthy fo v = true ->
  P_list None (with_counter fo c k vs) body sg f1 vs1 o1 -> sg <> Broke ->
  P_while c e body (k + 1) (copy_back fo vs vs1) vs' o2 ->
  P_while c e body k vs vs' (o1 ++ o2).
Proof.
  intros c e body k vs v sg f1 vs1 o1 vs' o2 Hk Hv Ht IHb Hsg IHw
         d cx cur m fuel a s g F f HR Hc Hne Hwf Hfit Hfuel.
  destruct fuel as [|fuel']; [lia|].
  destruct (while_body_block d cx cur m body c e k s g F f vs v sg f1 vs1 o1 IHb Hv Ht HR Hc Hwf Hfit)
    as (s1 & ol1 & HR1 & Hl1 & Ho1 & Hrun).
  destruct (IHw d cx cur m fuel' (a ++ ol1) s1 g F f HR1 Hc Hne Hwf Hfit ltac:(lia))
    as (s2 & ol2 & HR2 & Ho2 & Hl2 & Hloop).
  exists s2, (ol1 ++ ol2). split; [exact HR2|]. split; [rewrite map_app, Ho1, Ho2; reflexivity|].
  split; [rewrite Hl2; exact Hl1|].
  cbn [while_loop]. rewrite (while_limit_ok k Hk). unfold bindM at 1. fold (while_cond e). rewrite Hrun.
  cbn [cr_sig cr_data].
  assert (Hls : loop_signal (sig_of sg) = (SNormal, false)) by (destruct sg; [reflexivity|contradiction|reflexivity]).
  rewrite Hls. rewrite Hloop, app_assoc. reflexivity.
Qed.

Lemma case_w_break : forall c e body k vs v f1 vs1 o1,
  (k <= loop_max)%Z -> eval fo sys None (with_counter fo c k vs) e v -> truthy fo v = true ->
  P_list None (with_counter fo c k vs) body Broke f1 vs1 o1 ->
  P_while c e body k vs (copy_back fo vs vs1) o1.
Proof.
  intros c e body k vs v f1 vs1 o1 Hk Hv Ht IHb
         d cx cur m fuel a s g F f HR Hc Hne Hwf Hfit Hfuel.
  destruct fuel as [|fuel']; [lia|].
  destruct (while_body_block d cx cur m body c e k s g F f vs v Broke f1 vs1 o1 IHb Hv Ht HR Hc Hwf Hfit)
    as (s1 & ol1 & HR1 & Hl1 & Ho1 & Hrun).
  exists s1, ol1. split; [exact HR1|]. split; [exact Ho1|]. split; [exact Hl1|].
  cbn [while_loop]. rewrite (while_limit_ok k Hk). unfold bindM at 1. fold (while_cond e). rewrite Hrun.
  reflexivity.
Qed.

(* ------------------------------------------------------------------ the loop lines *)
Lemma loop_fuel_enough : (loop_max - 0 < Z.of_nat loop_fuel)%Z.
Proof. rewrite loop_fuel_value. unfold loop_max. lia. Qed.

Lemma case_repeat : forall f vs c e body vs' out,
  P_repeat f c e body 0 vs vs' out -> P_exec f vs (SRepeat c e body) Normal f vs' out.
Proof.
  intros f vs c e body vs' out IH d cx n rest acc s g F HR Hwf Hfit Hh.
  destruct Hwf as (Hc & He & Hne & Hwf).
  destruct (loop_arg_facts c e Hc He) as (Hblank & Hstrip & Hsplit & Hcok).
  pose proof (wf_list_items_nonempty body (n + 1)%Z Hne Hwf) as Hine.
  destruct (IH d cx (kw_REPEAT ++ sp :: loop_arg c e, n) (n + 1)%Z loop_fuel [] (clear_line2 fo s) g F
               (R_clear g F f vs s HR) Hc Hne Hwf Hfit loop_fuel_enough) as (s' & ol & HR' & Ho & _ & Hloop).
  exists s', ol. split; [exact HR'|]. split; [exact Ho|].
  etransitivity.
  { rewrite <- Hstrip in Hsplit.
    exact (repeat_line_lemma fo (child_of d) cx (loop_arg c e) n (items_from (n + 1)%Z body) rest acc s c e
             Hblank Hine Hsplit Hcok). }
  unfold bindM.
  match goal with |- context [repeat_loop ?a1 ?a2 ?a3 ?a4 ?a5 ?a6 ?a7 ?a8 ?a9 ?a10 ?a11] =>
    replace (repeat_loop a1 a2 a3 a4 a5 a6 a7 a8 a9 a10 a11) with (s', @IOk cret (mkCret ol SNormal))
      by (symmetry; exact Hloop) end.
  reflexivity.
Qed.

Lemma case_while : forall f vs c e body vs' out,
  P_while c e body 0 vs vs' out -> P_exec f vs (SWhile c e body) Normal f vs' out.
Proof.
  intros f vs c e body vs' out IH d cx n rest acc s g F HR Hwf Hfit Hh.
  destruct Hwf as (Hc & He & Hne & Hwf).
  destruct (loop_arg_facts c e Hc He) as (Hblank & Hstrip & Hsplit & Hcok).
  pose proof (wf_list_items_nonempty body (n + 1)%Z Hne Hwf) as Hine.
  destruct (IH d cx (kw_WHILE ++ sp :: loop_arg c e, n) (n + 1)%Z loop_fuel [] (clear_line2 fo s) g F f
               (R_clear g F f vs s HR) Hc Hne Hwf Hfit loop_fuel_enough) as (s' & ol & HR' & Ho & _ & Hloop).
  exists s', ol. split; [exact HR'|]. split; [exact Ho|].
  etransitivity.
  { rewrite <- Hstrip in Hsplit.
    exact (while_line_lemma fo (child_of d) cx (loop_arg c e) n (items_from (n + 1)%Z body) rest acc s c e
             Hblank Hine Hsplit). }
  unfold bindM.
  match goal with |- context [while_loop ?a1 ?a2 ?a3 ?a4 ?a5 ?a6 ?a7 ?a8 ?a9 ?a10 ?a11] =>
    replace (while_loop a1 a2 a3 a4 a5 a6 a7 a8 a9 a10 a11) with (s', @IOk cret (mkCret ol SNormal))
      by (symmetry; exact Hloop) end.
  reflexivity.
Qed.

(* ------------------------------------------------------------------ IF chains *)
Lemma nest_arms_cons_body : forall c body rest els, (S (nesting_list body) <= nest_arms ((c, body) :: rest) els)%nat.
Proof. intros. unfold nest_arms. cbn [max_over]. lia. Qed.

Lemma nest_arms_cons_rest : forall c body rest els, (nest_arms rest els <= nest_arms ((c, body) :: rest) els)%nat.
Proof. intros. unfold nest_arms. cbn [max_over]. lia. Qed.

Lemma nest_arms_else : forall body, (S (nesting_list body) <= nest_arms [] (Some body))%nat.
Proof. intros. unfold nest_arms. cbn [max_over]. lia. Qed.

(* the chosen arm: its block runs, then the rest of the chain is skipped *)
Lemma take_common : forall d cx a1 n' body nl rest els tail acc sT g F vs sg f1 vs1 out,
  a_body a1 = items_from n' body ->
  P_list None vs body sg f1 vs1 out ->
  R g F (Some true) vs sT -> s_line2 sT = None ->
  wf_list body -> fits d cx (S (nesting_list body)) -> all_list wf_arm rest -> wf_else els ->
  (sg = Normal ->
   Forall (fun cb : str * list stmt => exists v', eval fo sys (Some true) (copy_back fo vs vs1) (fst cb) v') rest) ->
  exists s' ol, R g F (Some true) (copy_back fo vs vs1) s' /\ map o_text ol = out /\
    take_arm fo (child_of d) cx a1 (chain_items (arms_of false nl rest els) ++ tail) acc sT =
    continue_with (child_of d) cx sg tail (acc ++ ol) s'.
Proof.
  intros d cx a1 n' body nl rest els tail acc sT g F vs sg f1 vs1 out Hbody IHb HR Hl2 Hwfb Hfit Hwfr Hwfe Hlater.
  destruct if_family_dispatch as [bc [Hbc Hd]].
  destruct (body_block_plain d cx (a_line a1, a_num a1) n' body sT g F (Some true) vs sg f1 vs1 out IHb HR Hwfb Hfit)
    as (s' & ol & HR' & Hl' & Ho & Hrun).
  exists s', ol. split; [exact HR'|]. split; [exact Ho|].
  unfold take_arm, bindM. rewrite Hbody, Hrun. rewrite go_on_after_branch, go_on_continue.
  destruct sg; try reflexivity. cbn [continue_with].
  apply (skip_later fo (child_of d) cx bc Hbc Hd).
  - apply arms_ok; assumption.
  - apply arms_non_if.
  - exact (R_flag_of g F true _ s' HR').
  - rewrite Hl'. exact Hl2.
  - apply (later_evaluate g F (copy_back fo vs vs1) s'); [exact HR'|exact Hwfr|]. apply Hlater. reflexivity.
Qed.

Lemma cond_evals : forall g F fl vs s0 k c n body v,
  R g F fl vs s0 -> expr_ok c -> eval fo sys fl vs c v ->
  evals fo s0 (cond_arm k c n body) (truthy fo v).
Proof.
  intros g F fl vs s0 k c n body v HR Hc Hv.
  apply evals_cond_arm; [apply expr_ok_blank; exact Hc|]. exists v. split; [|reflexivity].
  rewrite (expr_ok_strip c Hc). exact (eval_R g F fl vs s0 c v HR Hv).
Qed.

Lemma arm_line_nonblank : forall a, arm_ok a -> is_blank (a_line a) = false.
Proof. intros a (Hsp & _). apply is_blank_split. exact Hsp. Qed.

Lemma case_a_take : forall b vs c body rest els v sg f1 vs1 out,
  eval fo sys (Some b) vs c v -> truthy fo v = true ->
  P_list None vs body sg f1 vs1 out ->
  (sg = Normal ->
   Forall (fun cb : str * list stmt => exists v', eval fo sys (Some true) (copy_back fo vs vs1) (fst cb) v') rest) ->
  P_arms b vs ((c, body) :: rest) els sg true (copy_back fo vs vs1) out.
Proof.
  intros b vs c body rest els v sg f1 vs1 out Hv Ht IHb Hlater first d cx n tail acc s g F Hfirst Hwfa Hwfe Hfit.
  destruct if_family_dispatch as [bc [Hbc Hd]].
  destruct Hwfa as [(Hc & Hbne & Hwfb) Hwfr].
  rewrite arms_items_chain. cbn [arms_of chain_items flat_map]. fold (chain_items (arms_of false (n + 1 + sum_sizes size body)%Z rest els)).
  rewrite <- app_assoc.
  set (a1 := cond_arm (if first then AIf else AElif) c n (items_from (n + 1)%Z body)).
  set (later := arms_of false (n + 1 + sum_sizes size body)%Z rest els).
  assert (Hok1 : arm_ok a1).
  { apply cond_arm_ok; [destruct first; discriminate|apply expr_ok_blank; exact Hc|].
    apply wf_list_items_nonempty; assumption. }
  assert (Hstep : exists sT, R g F (Some true) vs sT /\ s_line2 sT = None /\
            exec_cmds fo (child_of d) cx (arm_items a1 ++ chain_items later ++ tail) acc s =
            take_arm fo (child_of d) cx a1 (chain_items later ++ tail) acc sT).
  { destruct first.
    - destruct Hfirst as (f0 & HR & -> & _).
      exists (with_flag fo true (clear_line2 fo s)). split; [apply (R_with_flag g F f0); exact HR|]. split; [reflexivity|].
      apply (if_arm_true fo (child_of d) cx bc Hbc Hd a1 _ acc s Hok1 eq_refl).
      rewrite <- Ht. apply (cond_evals g F (Some (flag_or_false f0)) vs); [|exact Hc|exact Hv].
      apply R_ensure_flag. exact HR.
    - destruct Hfirst as (HR & ->).
      exists (with_flag fo true (clear_line2 fo s)). split; [apply (R_with_flag g F (Some false)); exact HR|]. split; [reflexivity|].
      unfold arm_items. cbn [app]. rewrite exec_cmds_clear by (apply arm_line_nonblank; exact Hok1).
      apply (search_take fo (child_of d) cx bc Hbc Hd [] a1 later tail acc (clear_line2 fo s)).
      + cbn [app]. constructor; [exact Hok1|]. apply arms_ok; assumption.
      + cbn [app]. constructor; [apply non_if_elif|apply arms_non_if].
      + exact (R_flag_of g F false vs (clear_line2 fo s) HR).
      + exact (R_ensure_id g F false vs (clear_line2 fo s) HR).
      + reflexivity.
      + constructor.
      + rewrite <- Ht. apply (cond_evals g F (Some false) vs); [exact HR|exact Hc|exact Hv]. }
  destruct Hstep as (sT & HRT & HlT & Hstep). rewrite Hstep.
  apply (take_common d cx a1 (n + 1)%Z body _ rest els tail acc sT g F vs sg f1 vs1 out eq_refl IHb HRT HlT Hwfb
           (fits_le d cx _ _ Hfit (nest_arms_cons_body c body rest els)) Hwfr Hwfe Hlater).
Qed.

Lemma case_a_skip : forall b vs c body rest els v sg taken vs' out,
  eval fo sys (Some b) vs c v -> truthy fo v = false ->
  P_arms false vs rest els sg taken vs' out ->
  P_arms b vs ((c, body) :: rest) els sg taken vs' out.
Proof.
  intros b vs c body rest els v sg taken vs' out Hv Ht IH first d cx n tail acc s g F Hfirst Hwfa Hwfe Hfit.
  destruct if_family_dispatch as [bc [Hbc Hd]].
  destruct Hwfa as [(Hc & Hbne & Hwfb) Hwfr].
  rewrite arms_items_chain. cbn [arms_of chain_items flat_map]. fold (chain_items (arms_of false (n + 1 + sum_sizes size body)%Z rest els)).
  rewrite <- app_assoc. rewrite <- arms_items_chain.
  set (a1 := cond_arm (if first then AIf else AElif) c n (items_from (n + 1)%Z body)).
  assert (Hok1 : arm_ok a1).
  { apply cond_arm_ok; [destruct first; discriminate|apply expr_ok_blank; exact Hc|].
    apply wf_list_items_nonempty; assumption. }
  assert (Hstep : exists s1, R g F (Some false) vs s1 /\
            forall T, exec_cmds fo (child_of d) cx (arm_items a1 ++ T) acc s = exec_cmds fo (child_of d) cx T acc s1).
  { destruct first.
    - destruct Hfirst as (f0 & HR & -> & _).
      exists (with_flag fo false (clear_line2 fo s)). split; [apply (R_with_flag g F f0); exact HR|]. intro T.
      apply (if_arm_false fo (child_of d) cx bc Hbc Hd a1 T acc s Hok1 eq_refl).
      rewrite <- Ht. apply (cond_evals g F (Some (flag_or_false f0)) vs); [|exact Hc|exact Hv].
      apply R_ensure_flag. exact HR.
    - destruct Hfirst as (HR & ->).
      exists (clear_line2 fo s). split; [exact HR|]. intro T.
      unfold arm_items. cbn [app]. rewrite exec_cmds_clear by (apply arm_line_nonblank; exact Hok1).
      apply (search_none fo (child_of d) cx bc Hbc Hd [a1] T acc (clear_line2 fo s)).
      + constructor; [exact Hok1|constructor].
      + constructor; [apply non_if_elif|constructor].
      + exact (R_flag_of g F false vs (clear_line2 fo s) HR).
      + exact (R_ensure_id g F false vs (clear_line2 fo s) HR).
      + reflexivity.
      + constructor; [|constructor]. rewrite <- Ht. apply (cond_evals g F (Some false) vs); [exact HR|exact Hc|exact Hv]. }
  destruct Hstep as (s1 & HR1 & Hstep). rewrite Hstep.
  apply (IH false d cx _ tail acc s1 g F (conj HR1 eq_refl) Hwfr Hwfe
           (fits_le d cx _ _ Hfit (nest_arms_cons_rest c body rest els))).
Qed.

Lemma case_a_else : forall b vs body sg f1 vs1 out,
  P_list None vs body sg f1 vs1 out ->
  P_arms b vs [] (Some body) sg true (copy_back fo vs vs1) out.
Proof.
  intros b vs body sg f1 vs1 out IHb first d cx n tail acc s g F Hfirst _ Hwfe Hfit.
  destruct if_family_dispatch as [bc [Hbc Hd]].
  destruct first; [destruct Hfirst as (f0 & _ & _ & Hne); contradiction|].
  destruct Hfirst as (HR & ->). destruct Hwfe as [Hbne Hwfb].
  rewrite arms_items_chain. cbn [arms_of].
  set (a1 := else_arm n (items_from (n + 1)%Z body)).
  assert (Hok1 : arm_ok a1) by (apply else_arm_ok; apply wf_list_items_nonempty; assumption).
  assert (Hstep : exec_cmds fo (child_of d) cx (chain_items [a1] ++ tail) acc s =
                  take_arm fo (child_of d) cx a1 (chain_items (arms_of false 0%Z [] None) ++ tail) acc
                           (with_flag fo true (clear_line2 fo s))).
  { cbn [chain_items flat_map arm_items app]. rewrite exec_cmds_clear by (apply arm_line_nonblank; exact Hok1).
    apply (search_take fo (child_of d) cx bc Hbc Hd [] a1 [] tail acc (clear_line2 fo s)).
    + constructor; [exact Hok1|constructor].
    + constructor; [apply non_if_else|constructor].
    + exact (R_flag_of g F false vs (clear_line2 fo s) HR).
    + exact (R_ensure_id g F false vs (clear_line2 fo s) HR).
    + reflexivity.
    + constructor.
    + apply evals_else_arm. reflexivity. }
  rewrite Hstep.
  apply (take_common d cx a1 (n + 1)%Z body 0%Z [] None tail acc (with_flag fo true (clear_line2 fo s))
           g F vs sg f1 vs1 out eq_refl IHb
           (R_with_flag g F (Some false) vs (clear_line2 fo s) true HR) eq_refl Hwfb
           (fits_le d cx _ _ Hfit (nest_arms_else body)) I I).
  intros _. constructor.
Qed.

Lemma case_a_none : forall b vs, P_arms b vs [] None Normal false vs [].
Proof.
  intros b vs first d cx n tail acc s g F Hfirst _ _ _.
  destruct first; [destruct Hfirst as (f0 & _ & _ & Hne); contradiction|].
  destruct Hfirst as (HR & _). exists s, []. split; [exact HR|]. split; [reflexivity|].
  rewrite app_nil_r. reflexivity.
Qed.

Lemma case_if : forall f vs arms els sg taken vs' out,
  P_arms (flag_or_false f) vs arms els sg taken vs' out ->
  P_exec f vs (SIf arms els) sg (Some taken) vs' out.
Proof.
  intros f vs arms els sg taken vs' out IH d cx n rest acc s g F HR Hwf Hfit _.
  apply wf_if_unfold in Hwf. destruct Hwf as (Hne & Hwfa & Hwfe).
  rewrite stmt_items_if.
  apply (IH true d cx n rest acc s g F); [|exact Hwfa|exact Hwfe|exact Hfit].
  exists f. split; [exact HR|]. split; [reflexivity|exact Hne].
Qed.

(* ------------------------------------------------------------------ the induction *)
Theorem refine_all :
  (forall f vs stm sg f' vs' out, exec fo sys f vs stm sg f' vs' out -> P_exec f vs stm sg f' vs' out) /\
  (forall f vs p sg f' vs' out, exec_list fo sys f vs p sg f' vs' out -> P_list f vs p sg f' vs' out) /\
  (forall b vs arms els sg taken vs' out,
     exec_arms fo sys b vs arms els sg taken vs' out -> P_arms b vs arms els sg taken vs' out) /\
  (forall f c e body k vs vs' out,
     exec_repeat fo sys f c e body k vs vs' out -> P_repeat f c e body k vs vs' out) /\
  (forall c e body k vs vs' out,
     exec_while fo sys c e body k vs vs' out -> P_while c e body k vs vs' out).
Proof.
  apply (exec_all_mind fo sys P_exec P_list P_arms P_repeat P_while).
  - intros. apply case_emit.
  - intros. eapply case_emit_eval; eassumption.
  - intros. eapply case_var; eassumption.
  - intros. eapply case_if; eassumption.
  - intros. eapply case_repeat; eassumption.
  - intros. eapply case_while; eassumption.
  - intros. apply case_break.
  - intros. apply case_continue.
  - intros. apply case_nil.
  - intros. eapply case_cons; eassumption.
  - intros. eapply case_stop; eassumption.
  - intros. eapply case_a_take; eassumption.
  - intros. eapply case_a_skip; eassumption.
  - intros. eapply case_a_else; eassumption.
  - intros. apply case_a_none.
  - intros. eapply case_r_done; eassumption.
  - intros. eapply case_r_iter; eassumption.
  - intros. eapply case_r_break; eassumption.
  - intros. eapply case_w_done; eassumption.
  - intros. eapply case_w_iter; eassumption.
  - intros. eapply case_w_break; eassumption.
Qed.

Theorem refine_repeat : forall f c e body k vs vs' out,
  exec_repeat fo sys f c e body k vs vs' out -> P_repeat f c e body k vs vs' out.
Proof. destruct refine_all as (_ & _ & _ & H & _). exact H. Qed.

Theorem refine_while : forall c e body k vs vs' out,
  exec_while fo sys c e body k vs vs' out -> P_while c e body k vs vs' out.
Proof. destruct refine_all as (_ & _ & _ & _ & H). exact H. Qed.

(* ------------------------------------------------------------------ Stack.run of a whole program *)
Theorem refine_exec_cmds : forall f vs p sg f' vs' out d cx n acc s g F,
  exec_list fo sys f vs p sg f' vs' out ->
  wf_list p -> fits d cx (nesting_list p) -> R g F f vs s ->
  exists s' ol, R g F f' vs' s' /\ map o_text ol = out /\
    exec_cmds fo (child_of d) cx (items_from n p) acc s = (s', IOk (mkCret (acc ++ ol) (sig_of sg))).
Proof.
  intros f vs p sg f' vs' out d cx n acc s g F Hex Hwf Hfit HR.
  destruct refine_all as (_ & Hl & _). exact (Hl f vs p sg f' vs' out Hex d cx n acc s g F HR Hwf Hfit).
Qed.

Theorem refine_run : forall vs p sg f' vs' out d cx n g F,
  exec_list fo sys None vs p sg f' vs' out ->
  wf_list p -> fits d cx (nesting_list p) -> nodup_keys vs ->
  exists ol, map o_text ol = out /\
    run fo d cx g (mkEnv fo sys vs [] F) (items_from n p) =
    (g, IOk (mkCret ol (sig_of sg), mkEnv fo sys vs' (flag_var fo f') F)).
Proof.
  intros vs p sg f' vs' out d cx n g F Hex Hwf Hfit Hnd.
  destruct (refine_exec_cmds None vs p sg f' vs' out d cx n [] (state_of g F None vs None) g F Hex Hwf Hfit
              (state_of_R g F None vs None Hnd)) as (s' & ol & HR' & Ho & E).
  exists ol. split; [exact Ho|].
  rewrite run_child_of. unfold run_with. unfold state_of in E. cbn [flag_var app] in E. rewrite E.
  rewrite (R_state_of g F f' vs' s' HR'). reflexivity.
Qed.

End Refine.

(* ================================================================== Compiler.compile *)
Section Top.
Variable fo : FloatOps.

Lemma initial_sys_nodup : nodup_keys (initial_sys fo).
Proof. unfold nodup_keys, initial_sys. cbn. constructor; [intros []|constructor]. Qed.

Lemma initial_env_eq : initial_env fo = mkEnv fo (initial_sys fo) [] [] [].
Proof. reflexivity. Qed.

(* the warning of a stray BREAKLOOP / CONTINUELOOP that ends the program *)
Definition stray_warnings (sg : sig) : list warning :=
  match s_sig_warning (sig_of sg) with Some w => [mkWarn w None] | None => [] end.

Theorem refine_compile_items : forall o fs file p sg f' vs' out,
  runs fo p sg f' vs' out -> wf_list p -> (Z.of_nat (nesting_list p) < stack_limit o)%Z ->
  exists ol, map o_text ol = out /\
    compile_items fo o fs file (items_of p) =
    (mkGlob [] (stray_warnings sg),
     IOk (mkCompiled fo ol (stray_warnings sg) (mkEnv fo (initial_sys fo) vs' (flag_var fo f') []) [])).
Proof.
  intros o fs file p sg f' vs' out Hrun Hwf Hnest. unfold runs in Hrun.
  assert (Hfit : fits (run_depth o) (mkCtx o fs [] file) (nesting_list p)).
  { unfold fits, run_depth. cbn [c_pile c_opts length]. split; lia. }
  destruct (refine_run fo (initial_sys fo) initial_sys_nodup [] p sg f' vs' out (run_depth o) (mkCtx o fs [] file) 1%Z
              (mkGlob [] []) [] Hrun Hwf Hfit) as (ol & Ho & E).
  { constructor. }
  exists ol. split; [exact Ho|].
  unfold compile_items. rewrite initial_env_eq. unfold items_of. rewrite E.
  unfold stray_warnings. destruct sg; reflexivity.
Qed.

End Top.

Lemma spec_constants : flag_name = if_success /\ default_delay_name = default_delay_var /\
  loop_max = repeat_high /\ loop_max = while_limit.
Proof. repeat split. Qed.
