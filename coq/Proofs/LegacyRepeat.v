(* C01: the legacy block-less `REPEAT n` of Rubber Ducky 1.0.  A REPEAT line with an argument that has
   no counter part (no comma) and NO indented block is not a loop for DucklingScript: it is handed
   through as the one line  "REPEAT <stripped argument>"  -- the argument is not evaluated, nothing is
   stored, no warning, no print, the state is untouched.  (With a counter part the form is refused:
   NameChecks.repeat_counter_noblock.) *)
From Coq Require Import NArith ZArith List Bool Lia.
From DS Require Import Base PyStr Values Expr TabParse Tables Constants Interp NameChecks.
Import ListNotations.

Section WithFloats.
Variable fo : FloatOps.
Notation st := (st fo).
Notation runner := (runner fo).

Lemma repeat_legacy_passthrough : forall (child : runner) cx cur bc cname cmd num c a cb (s : st) count_expr,
  std_block bc -> b_kind bc = BKRepeat ->
  split_loop_arg (strip (c :: a)) = (None, count_expr) ->
  block_of cb = [] ->
  block_compile fo child cx cur bc cname cmd num (Some (c :: a)) cb s =
  (s, IOk _ (RComp (mkCret [mkO ByLegacyRepeat (s_REPEAT ++ [space] ++ strip (c :: a))] SNormal))).
Proof.
  intros child cx cur bc cname cmd num c a cb s count_expr Hstd Hk Hsp Hcode.
  rewrite (block_compile_std fo) by exact Hstd.
  unfold Interp.block_compile. cbn [b_flipper_only b_arg_req b_strip_arg b_kind]. rewrite Hk, Hsp.
  unfold block_of in Hcode. rewrite Hcode. reflexivity.
Qed.

End WithFloats.

(* the palette's REPEAT class is such a block class *)
Lemma palette_repeat_std : forall n bc, In (n, Block bc) palette -> b_kind bc = BKRepeat -> std_block bc.
Proof. intros n bc Hin Hk. apply (palette_defining_std n bc Hin). rewrite Hk. reflexivity. Qed.

(* ------------------------------------------------------------------ witnesses, on the text entry point *)
From Coq Require Import String Ascii.
From DS Require Import DuckyGrammar FlatExamples.
Open Scope string_scope.
Arguments IOk {A}. Arguments out {fo}. Arguments warnings {fo}. Arguments prints {fo}.

Definition nl : str := [10%N].
Definition legacy_text : str :=
  Eval vm_compute in
  (lit "STRING a" ++ nl ++ lit "REPEAT 3" ++ nl ++ lit "repeat   x+1  " ++ nl ++ lit "ENTER" ++ nl ++ lit "Repeat 2")%list.

(* neither "3" nor the undefined "x+1" is evaluated; the line is re-emitted with the word upper-cased
   and the argument trimmed; no warning, no print *)
Lemma legacy_text_output :
  match compile_text dfo default_options (fun _ => None) None legacy_text with
  | (_, IOk c) => Some (map o_text (out c), List.length (warnings c), List.length (prints c))
  | _ => None
  end = Some ([lit "STRING a"; lit "REPEAT 3"; lit "REPEAT x+1"; lit "ENTER"; lit "REPEAT 2"], 0, 0).
Proof. vm_compute. reflexivity. Qed.

(* with an indented block the same line IS a loop *)
Definition loop_text : str :=
  Eval vm_compute in (lit "REPEAT 2" ++ nl ++ lit "  ENTER")%list.
Lemma loop_text_output :
  option_map (map o_text) (compiled_out (compile_text dfo default_options (fun _ => None) None loop_text))
  = Some [lit "ENTER"; lit "ENTER"].
Proof. vm_compute. reflexivity. Qed.

(* with a counter part and no block: refused *)
Lemma legacy_counter_refused :
  match compile_text dfo default_options (fun _ => None) None (lit "REPEAT i,3") with
  | (_, IErr e _) => Some e | _ => None end = Some EInvalidArguments.
Proof. vm_compute. reflexivity. Qed.
