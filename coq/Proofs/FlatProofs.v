(* C01 (whole script): a flat script of valid Ducky / Flipper lines, spelled in any casing with any
   blanks, compiles to the canonical lines of Spec/FlatScript.v -- per line, per script, and through
   compile_items; case independence. *)
From Coq Require Import NArith ZArith List Bool Lia.
From DS Require Import Base PyStr Values Expr TabParse Interp Tables Constants.
From DS Require Import PipelineProofs GrammarProofs DuckyGrammar LineGrammar Spelling.
From DS Require Import FlatScript FlatStrings FlatPipeline.
Import ListNotations.

Arguments IOk {A}. Arguments IErr {A}. Arguments ICrash {A}. Arguments IUnmod {A}.
Arguments s_g {fo}. Arguments s_env {fo}. Arguments s_line2 {fo}. Arguments mkSt {fo}.
Arguments e_sys {fo}. Arguments e_user {fo}. Arguments e_temp {fo}. Arguments e_funcs {fo}. Arguments mkEnv {fo}.

(* ------------------------------------------------------------------ the command words *)
Definition all_words : list str :=
  key_words ++ w_String ++ [w_Rem] ++ w_FlipText ++ w_Alt ++ w_Ctrl ++ w_Shift ++ w_Gui ++ w_Sysrq
  ++ w_FlipMod ++ w_Delay ++ w_DefaultDelay ++ w_AltChar.

Definition word_factsb (w : str) : bool :=
  str_eqb (upper w) w && negb (starts_dollar w) && forallb (fun c => negb (isspace_c c)) w
  && negb (match w with [] => true | _ => false end).

Lemma all_words_facts : forallb word_factsb all_words = true.
Proof. vm_compute. reflexivity. Qed.

Lemma word_facts : forall w, In w all_words ->
  upper w = w /\ starts_dollar w = false /\ nows w /\ w <> [].
Proof.
  intros w Hin. pose proof all_words_facts as H. rewrite forallb_forall in H. specialize (H w Hin).
  unfold word_factsb in H.
  apply andb_true_iff in H. destruct H as [H H4].
  apply andb_true_iff in H. destruct H as [H H3].
  apply andb_true_iff in H. destruct H as [H1 H2].
  split; [apply PipelineProofs.str_eqb_eq; exact H1|].
  split; [apply negb_true_iff; exact H2|].
  split; [exact H3|].
  destruct w; [discriminate H4|discriminate].
Qed.

Lemma word_of_in : forall l, vline_ok l -> In (word_of l) all_words.
Proof.
  intros l Hok. unfold all_words, key_words. destruct l as [k|w t|t|c w a|c w|w t|c w ds];
    cbn [word_of vline_ok] in *; rewrite ?in_app_iff.
  - unfold key_words in Hok. rewrite !in_app_iff in Hok. tauto.
  - tauto.
  - right. right. left. left. reflexivity.
  - destruct Hok as (Hc & Hin & _). destruct c; try discriminate Hc; cbn [cmd_words] in Hin; tauto.
  - destruct Hok as (Hc & Hin). destruct c; try discriminate Hc; cbn [cmd_words] in Hin; tauto.
  - tauto.
  - destruct Hok as (Hc & Hin & _). destruct c; try discriminate Hc; cbn [cmd_words] in Hin; tauto.
Qed.

Lemma starts_dollar_upper : forall cmd, starts_dollar (upper cmd) = false -> starts_dollar cmd = false.
Proof.
  intros [|c r] H; [reflexivity|].
  destruct (N.eqb_spec c 36) as [->|Hne].
  - discriminate H.
  - clear H. destruct c as [|p]; [reflexivity|].
    repeat (destruct p as [p|p|]; try reflexivity). contradiction Hne; reflexivity.
Qed.

(* what a spelling of a valid line gives *)
Lemma cmd_facts : forall s l, In (word_of l) all_words -> spelling_ok s l ->
  nows (sp_cmd s) /\ sp_cmd s <> [] /\ no_dollar (sp_cmd s) /\
  forall cb, find_command palette (sp_cmd s) cb = find_command palette (word_of l) cb.
Proof.
  intros s l Hin (Hu & _).
  destruct (word_facts _ Hin) as (Hw1 & Hw2 & Hw3 & Hw4).
  split; [apply upper_nows; rewrite Hu; exact Hw3|].
  split; [intro E; rewrite E in Hu; cbn in Hu; apply Hw4; symmetry; exact Hu|].
  split; [apply starts_dollar_no_dollar; rewrite Hu; exact Hw2|].
  intro cb. apply find_command_upper; try assumption.
  apply starts_dollar_upper. rewrite Hu. exact Hw2.
Qed.

(* ------------------------------------------------------------------ classes of the generated palette *)
Definition word_cls (P : simple_cls -> bool) (w : str) : bool :=
  match find_command palette w None with Some (_, Simple sc) => P sc | _ => false end.

Lemma word_cls_elim : forall P ws w, forallb (word_cls P) ws = true -> In w ws ->
  exists cn sc, find_command palette w None = Some (cn, Simple sc) /\ P sc = true.
Proof.
  intros P ws w H Hin. rewrite forallb_forall in H. specialize (H w Hin). unfold word_cls in H.
  destruct (find_command palette w None) as [[cn [sc|bc]]|]; try discriminate.
  exists cn, sc. split; [reflexivity|exact H].
Qed.

Definition pv_noneb (pv : pvalidator) : bool := match pv with PVNone => true | _ => false end.
Definition triv_validatorb (v : validator) : bool := match v with mkValidator [] true => true | _ => false end.
Definition id_formatterb (f : formatter) : bool := match f with mkFormatter [] SContent => true | _ => false end.
Definition at_strb (a : argtype) : bool := match a with ATStr => true | _ => false end.
Definition not_requiredb (a : argreq) : bool := match a with Required => false | _ => true end.
Definition not_notallowedb (a : argreq) : bool := match a with NotAllowed => false | _ => true end.

Lemma pv_noneb_eq : forall pv, pv_noneb pv = true -> pv = PVNone.
Proof. intros [] H; try discriminate; reflexivity. Qed.
Lemma triv_validatorb_eq : forall v, triv_validatorb v = true -> v = mkValidator [] true.
Proof. intros [[|? ?] []] H; try discriminate; reflexivity. Qed.
Lemma id_formatterb_eq : forall f, id_formatterb f = true -> f = mkFormatter [] SContent.
Proof. intros [[|? ?] []] H; try discriminate; reflexivity. Qed.
Lemma at_strb_eq : forall a, at_strb a = true -> a = ATStr.
Proof. intros [] H; try discriminate; reflexivity. Qed.
Lemma not_requiredb_ne : forall a, not_requiredb a = true -> a <> Required.
Proof. intros [] H; try discriminate H; discriminate. Qed.
Lemma not_notallowedb_ne : forall a, not_notallowedb a = true -> a <> NotAllowed.
Proof. intros [] H; try discriminate H; discriminate. Qed.

(* the keys *)
Definition key_clsb (sc : simple_cls) : bool :=
  negb (s_tokenize_args sc) && pv_noneb (s_verify_args sc) && not_requiredb (s_arg_req sc)
  && negb (s_flipper_only sc)
  && match s_run sc with RKDefault | RKEnter => true | _ => false end.
Lemma key_classes : forallb (word_cls key_clsb) key_words = true.
Proof. vm_compute. reflexivity. Qed.

(* text commands: not tokenized, no validator, no formatter *)
Definition text_clsb (strip flip : bool) (sc : simple_cls) : bool :=
  negb (s_tokenize_args sc) && at_strb (s_arg_type sc) && pv_noneb (s_verify_args sc)
  && not_notallowedb (s_arg_req sc) && Bool.eqb (s_strip_args sc) strip
  && Bool.eqb (s_flipper_only sc) flip
  && triv_validatorb (s_verify_arg sc) && id_formatterb (s_format_arg sc)
  && match s_run sc with RKDefault => true | _ => false end.
Lemma string_classes : forallb (word_cls (text_clsb false false)) w_String = true.
Proof. vm_compute. reflexivity. Qed.
Lemma fliptext_classes : forallb (word_cls (text_clsb true true)) w_FlipText = true.
Proof. vm_compute. reflexivity. Qed.

Definition rem_clsb (sc : simple_cls) : bool :=
  negb (s_tokenize_args sc) && at_strb (s_arg_type sc) && pv_noneb (s_verify_args sc)
  && match s_arg_req sc with Allowed => true | _ => false end && s_strip_args sc
  && negb (s_flipper_only sc)
  && triv_validatorb (s_verify_arg sc) && id_formatterb (s_format_arg sc)
  && match s_run sc with RKRem => true | _ => false end.
Lemma rem_class : forallb (word_cls rem_clsb) [w_Rem] = true.
Proof. vm_compute. reflexivity. Qed.

Lemma text_clsb_elim : forall strip flip sc, text_clsb strip flip sc = true ->
  s_tokenize_args sc = false /\ s_arg_type sc = ATStr /\ s_verify_args sc = PVNone /\
  s_arg_req sc <> NotAllowed /\ s_strip_args sc = strip /\ s_flipper_only sc = flip /\
  s_verify_arg sc = mkValidator [] true /\ s_format_arg sc = mkFormatter [] SContent /\
  s_run sc = RKDefault.
Proof.
  intros strip flip sc HP. unfold text_clsb in HP.
  apply andb_true_iff in HP. destruct HP as [HP Hrun].
  apply andb_true_iff in HP. destruct HP as [HP Hfmt].
  apply andb_true_iff in HP. destruct HP as [HP Hval].
  apply andb_true_iff in HP. destruct HP as [HP Hflip].
  apply andb_true_iff in HP. destruct HP as [HP Hstrip].
  apply andb_true_iff in HP. destruct HP as [HP Hreq].
  apply andb_true_iff in HP. destruct HP as [HP Hpv].
  apply andb_true_iff in HP. destruct HP as [Htok Hat].
  apply negb_true_iff in Htok. apply Bool.eqb_prop in Hflip. apply Bool.eqb_prop in Hstrip.
  repeat split; try assumption.
  - apply at_strb_eq; exact Hat.
  - apply pv_noneb_eq; exact Hpv.
  - apply not_notallowedb_ne; exact Hreq.
  - apply triv_validatorb_eq; exact Hval.
  - apply id_formatterb_eq; exact Hfmt.
  - destruct (s_run sc); try discriminate Hrun; reflexivity.
Qed.

Lemma rem_clsb_elim : forall sc, rem_clsb sc = true ->
  s_tokenize_args sc = false /\ s_arg_type sc = ATStr /\ s_verify_args sc = PVNone /\
  s_arg_req sc = Allowed /\ s_strip_args sc = true /\ s_flipper_only sc = false /\
  s_verify_arg sc = mkValidator [] true /\ s_format_arg sc = mkFormatter [] SContent /\
  s_run sc = RKRem.
Proof.
  intros sc HP. unfold rem_clsb in HP.
  apply andb_true_iff in HP. destruct HP as [HP Hrun].
  apply andb_true_iff in HP. destruct HP as [HP Hfmt].
  apply andb_true_iff in HP. destruct HP as [HP Hval].
  apply andb_true_iff in HP. destruct HP as [HP Hflip].
  apply andb_true_iff in HP. destruct HP as [HP Hstrip].
  apply andb_true_iff in HP. destruct HP as [HP Hreq].
  apply andb_true_iff in HP. destruct HP as [HP Hpv].
  apply andb_true_iff in HP. destruct HP as [Htok Hat].
  apply negb_true_iff in Htok. apply negb_true_iff in Hflip.
  repeat split; try assumption.
  - apply at_strb_eq; exact Hat.
  - apply pv_noneb_eq; exact Hpv.
  - destruct (s_arg_req sc); try discriminate Hreq; reflexivity.
  - apply triv_validatorb_eq; exact Hval.
  - apply id_formatterb_eq; exact Hfmt.
  - destruct (s_run sc); try discriminate Hrun; reflexivity.
Qed.

(* the validating classes: the word leads to the class of that name *)
Lemma mod_class_found : forall c w, str_class c = true -> In w (cmd_words c) ->
  exists sc, find_command palette w None = Some (class_name c, Simple sc) /\
    find_class (class_name c) = Some sc /\
    s_tokenize_args sc = false /\ s_arg_type sc = ATStr /\ s_verify_args sc = PVNone /\
    s_strip_args sc = true /\ s_run sc = RKDefault /\ s_flipper_only sc = flip_class c /\
    s_arg_req sc <> NotAllowed /\ (bare_ok c = true -> s_arg_req sc <> Required).
Proof.
  intros c w Hc Hin.
  destruct c; try discriminate Hc; cbn [cmd_words] in Hin;
    repeat (destruct Hin as [<- | Hin]); try contradiction;
    eexists; (split; [reflexivity|]); (split; [reflexivity|]);
    cbn; repeat split; try discriminate.
Qed.

Lemma delay_class_found : forall c w, delay_class c = true -> In w (cmd_words c) ->
  exists sc, find_command palette w None = Some (class_name c, Simple sc) /\
    find_class (class_name c) = Some sc /\
    s_tokenize_args sc = true /\ s_arg_type sc = ATInt /\ plural_quiet (s_verify_args sc) = true /\
    s_strip_args sc = true /\ s_flipper_only sc = false /\ s_arg_req sc <> NotAllowed /\
    s_format_arg sc = mkFormatter [] SContent /\
    s_run sc = (match c with SDefaultDelay => RKDefaultDelay | _ => RKDefault end).
Proof.
  intros c w Hc Hin.
  destruct c; try discriminate Hc; cbn [cmd_words] in Hin;
    repeat (destruct Hin as [<- | Hin]); try contradiction;
    eexists; (split; [reflexivity|]); (split; [reflexivity|]);
    cbn; repeat split; try discriminate.
Qed.

(* ------------------------------------------------------------------ validator / formatter on legal arguments *)
Lemma legal_nonempty : forall c, str_class c = true -> legal_arg c (AStr []) = false.
Proof. intros [] H; try discriminate H; reflexivity. Qed.

Lemma fmt_image_ok : forall c sc a, str_class c = true -> find_class (class_name c) = Some sc ->
  eval_formatter (s_params sc) (s_format_arg sc) (AStr a) = Ok (AStr (fmt_image c a)).
Proof.
  intros c sc a Hc Hsc. destruct c; try discriminate Hc; cbn [class_name fmt_image] in *.
  - rewrite (alt_params sc Hsc). open_class Hsc. unfold eval_formatter.
    cbn [s_params s_format_arg f_rules f_default eval_formatter_rules eval_bexpr eval_sexpr bind].
    unfold key_name. destruct (str_in (upper a) alt_keys); reflexivity.
  - rewrite (ctrl_params sc Hsc). open_class Hsc. unfold eval_formatter.
    cbn [s_params s_format_arg f_rules f_default eval_formatter_rules eval_bexpr eval_sexpr bind].
    destruct (str_in a ctrl_keys) eqn:Ek; cbn [negb bind]; [|reflexivity].
    rewrite (ctrl_keys_upper a (str_in_In _ _ Ek)). reflexivity.
  - open_class Hsc. reflexivity.
  - open_class Hsc. reflexivity.
  - open_class Hsc. reflexivity.
  - open_class Hsc. reflexivity.
  - open_class Hsc. reflexivity.
Qed.

(* ------------------------------------------------------------------ one line *)
Definition line_tag (w : str) : tag :=
  match find_command palette w None with Some (cn, _) => ByCommand cn | None => ByUnknown end.

(* the argument as split(maxsplit=1) delivers it *)
Definition raw_arg (s : spelling) (l : vline) : option str :=
  match arg_of l with
  | None => None
  | Some a => Some (a ++ (if to_eol l then [] else sp_trail s))
  end.

Lemma arg_first_nonblank : forall l a, vline_ok l -> arg_of l = Some a -> first_nonblank a.
Proof.
  intros l a Hok Ha. destruct l as [k|w t|t|c w x|c w|w t|c w ds]; cbn [arg_of vline_ok] in *.
  - discriminate.
  - injection Ha as <-. tauto.
  - destruct t as [|t0 tr]; [discriminate|]. injection Ha as <-.
    apply strip_fix_first; [exact Hok|discriminate].
  - injection Ha as <-. destruct Hok as (Hc & _ & Hl & Hs).
    apply strip_fix_first; [exact Hs|]. intro E. rewrite E in Hl.
    rewrite (legal_nonempty c Hc) in Hl. discriminate.
  - discriminate.
  - injection Ha as <-. destruct Hok as (_ & Hs & Hne). apply strip_fix_first; assumption.
  - injection Ha as <-. destruct Hok as (_ & _ & Hd).
    destruct (is_digits_nows ds Hd) as [Hn Hne]. apply nows_first; assumption.
Qed.

Definition env_after {fo} (l : vline) (e : env fo) : env fo :=
  match l with
  | VDelay SDefaultDelay _ ds =>
      mkEnv (upd default_delay_var (VInt (Z.of_N (dec_value ds 0))) (e_sys e)) (e_user e) (e_temp e) (e_funcs e)
  | _ => e
  end.

Definition olines (comments : bool) (l : vline) : list oline :=
  map (mkO (line_tag (word_of l))) (canon comments l).

Lemma olines_text : forall comments l, map o_text (olines comments l) = canon comments l.
Proof.
  intros comments l. unfold olines. rewrite map_map. cbn [o_text]. apply map_id.
Qed.

Section Lines.
Variable fo : FloatOps.
Variable child : runner fo.
Variable cx : ctx.

Lemma exec_line_simple : forall c n cmd more cn sc s,
  split_ws1 c = cmd :: more -> find_command palette cmd None = Some (cn, Simple sc) ->
  is_start_class (Simple sc) = false ->
  exec_line fo child cx c n None s =
  simple_compile fo child cx (c, n) cn (ByCommand cn) sc cmd n
    (match more with a :: _ => Some a | [] => None end) None s.
Proof.
  intros c n cmd more cn sc s Hs Hf Hst. unfold exec_line. rewrite Hs, Hf, Hst. reflexivity.
Qed.

Lemma exec_line_spelled : forall s l n cn sc st0,
  vline_ok l -> spelling_ok s l ->
  find_command palette (word_of l) None = Some (cn, Simple sc) -> is_start_class (Simple sc) = false ->
  exec_line fo child cx (spell_line s l) n None st0 =
  simple_compile fo child cx (spell_line s l, n) cn (ByCommand cn) sc (sp_cmd s) n (raw_arg s l) None st0.
Proof.
  intros s l n cn sc st0 Hok Hsp Hf Hst.
  pose proof (word_of_in l Hok) as Hin.
  destruct (cmd_facts s l Hin Hsp) as (Hn & Hne & Hnd & Hfc).
  destruct Hsp as (Hu & Hwne & Hws & Htr).
  unfold spell_line, raw_arg.
  destruct (arg_of l) as [a|] eqn:Ea.
  - pose proof (arg_first_nonblank l a Hok Ea) as Hfa.
    rewrite (exec_line_simple _ n (sp_cmd s) [a ++ (if to_eol l then [] else sp_trail s)] cn sc st0).
    + reflexivity.
    + apply split_ws1_arg; try assumption. apply first_nonblank_app. exact Hfa.
    + rewrite Hfc. exact Hf.
    + exact Hst.
  - rewrite (exec_line_simple _ n (sp_cmd s) [] cn sc st0).
    + reflexivity.
    + apply split_ws1_bare; assumption.
    + rewrite Hfc. exact Hf.
    + exact Hst.
Qed.

Definition flip_allowed (l : vline) : Prop :=
  needs_flipper l = false \/ flipper_commands (c_opts cx) = true.

Definition dd_ready (l : vline) (e : env fo) : Prop :=
  is_default_delay l = true -> has_key default_delay_var (e_sys e) = true.

Lemma line_tag_found : forall w cn c, find_command palette w None = Some (cn, c) -> line_tag w = ByCommand cn.
Proof. intros w cn c H. unfold line_tag. rewrite H. reflexivity. Qed.

Lemma not_start : forall sc, (match s_run sc with RKStart => False | _ => True end) ->
  is_start_class (Simple sc) = false.
Proof. intros sc H. unfold is_start_class. destruct (s_run sc); try reflexivity. contradiction. Qed.

(* a text argument: up to run_compile *)
Lemma text_line : forall s l n cn sc st0 a0 a a',
  vline_ok l -> spelling_ok s l ->
  find_command palette (word_of l) None = Some (cn, Simple sc) -> is_start_class (Simple sc) = false ->
  arg_of l = Some a0 ->
  s_tokenize_args sc = false -> s_arg_type sc = ATStr -> s_verify_args sc = PVNone ->
  flip_ok cx sc -> s_arg_req sc <> NotAllowed ->
  a = (if s_strip_args sc then strip (a0 ++ (if to_eol l then [] else sp_trail s))
       else a0 ++ (if to_eol l then [] else sp_trail s)) ->
  eval_validator (s_params sc) (s_verify_arg sc) (AStr a) = Ok true ->
  eval_formatter (s_params sc) (s_format_arg sc) (AStr a) = Ok (AStr a') ->
  exec_line fo child cx (spell_line s l) n None st0 =
  multi_comp fo child cx (spell_line s l, n) cn (ByCommand cn) sc (sp_cmd s)
    [Some (mkLine (AStr a') n (spell_line s l, n))] (mkCret [] SNormal)
    (mkSt (s_g st0) (s_env st0) None).
Proof.
  intros s l n cn sc st0 a0 a a' Hok Hsp Hf Hst Ea Htok Hat Hpv Hflip Hreq Ha Hval Hfmt.
  pose proof (word_of_in l Hok) as Hin.
  destruct (cmd_facts s l Hin Hsp) as (Hn & Hne & Hnd & Hfc).
  rewrite (exec_line_spelled s l n cn sc st0 Hok Hsp Hf Hst).
  unfold raw_arg. rewrite Ea.
  apply (str_pipeline fo child cx _ cn _ sc (sp_cmd s) n _ st0 a a'); try assumption.
  pose proof (arg_first_nonblank l a0 Hok Ea) as Hfa.
  destruct a0 as [|x r]; [contradiction|]. discriminate.
Qed.

Lemma triv_valid : forall params a, eval_validator params (mkValidator [] true) a = Ok true.
Proof. reflexivity. Qed.
Lemma id_format_ok : forall params a, eval_formatter params (mkFormatter [] SContent) a = Ok a.
Proof. reflexivity. Qed.

Theorem flat_line : forall s l n st0,
  vline_ok l -> spelling_ok s l -> flip_allowed l -> dd_ready l (s_env st0) ->
  exec_line fo child cx (spell_line s l) n None st0 =
  (mkSt (s_g st0) (env_after l (s_env st0)) (Some (spell_line s l, n)),
   IOk (mkCret (olines (include_comments (c_opts cx)) l) SNormal)).
Proof.
  intros s l n st0 Hok Hsp Hfl Hdd.
  pose proof (word_of_in l Hok) as Hin.
  destruct (cmd_facts s l Hin Hsp) as (Hn & Hne & Hnd & Hfc).
  pose proof Hsp as (Hu & Hwne & Hws & Htr).
  unfold olines.
  destruct l as [k|w t|t|c w a|c w|w t|c w ds]; cbn [word_of canon env_after] in *.
  - (* key *)
    cbn [vline_ok] in Hok.
    destruct (word_cls_elim _ _ k key_classes Hok) as (cn & sc & Hf & HP).
    unfold key_clsb in HP.
    apply andb_true_iff in HP. destruct HP as [HP Hrun].
    apply andb_true_iff in HP. destruct HP as [HP Hflip].
    apply andb_true_iff in HP. destruct HP as [HP Hreq].
    apply andb_true_iff in HP. destruct HP as [Htok Hpv].
    apply negb_true_iff in Htok. apply negb_true_iff in Hflip.
    rewrite (exec_line_spelled s (VKey k) n cn sc st0 Hok Hsp Hf)
      by (apply not_start; destruct (s_run sc); try discriminate Hrun; exact I).
    cbn [raw_arg arg_of].
    rewrite (bare_pipeline fo child cx _ cn _ sc (sp_cmd s) n st0 Htok (pv_noneb_eq _ Hpv)
               (or_introl Hflip) Hnd (not_requiredb_ne _ Hreq)).
    rewrite (line_tag_found k cn _ Hf).
    destruct (s_run sc) eqn:Er; try discriminate Hrun.
    + rewrite (mc_default fo child cx _ cn _ sc (sp_cmd s) None _ Er). cbn [name_line map s_g s_env].
      rewrite Hu. reflexivity.
    + rewrite (mc_enter_none fo child cx _ cn _ sc (sp_cmd s) _ Er). cbn [name_line map s_g s_env].
      rewrite Hu. reflexivity.
  - (* STRING / STRINGLN *)
    pose proof Hok as [Hw Hft].
    destruct (word_cls_elim _ _ w string_classes Hw) as (cn & sc & Hf & HP).
    destruct (text_clsb_elim _ _ sc HP) as (Htok & Hat & Hpv & Hreq & Hstrip & Hflip & Hval & Hfmt & Hrun).
    rewrite (text_line s (VString w t) n cn sc st0 t t t Hok Hsp Hf); try assumption.
    + rewrite (mc_default fo child cx _ cn _ sc (sp_cmd s) _ _ Hrun).
      cbn [name_line map s_g s_env l_content l_orig content_text]. rewrite Hu.
      rewrite (line_tag_found w cn _ Hf). reflexivity.
    + apply not_start. rewrite Hrun. exact I.
    + reflexivity.
    + left. exact Hflip.
    + rewrite Hstrip. cbn [to_eol]. rewrite app_nil_r. reflexivity.
    + rewrite Hval. apply triv_valid.
    + rewrite Hfmt. apply id_format_ok.
  - (* REM *)
    cbn [vline_ok] in Hok.
    assert (Hw : In w_Rem [w_Rem]) by (left; reflexivity).
    destruct (word_cls_elim _ _ w_Rem rem_class Hw) as (cn & sc & Hf & HP).
    destruct (rem_clsb_elim sc HP) as (Htok & Hat & Hpv & Hreq & Hstrip & Hflip & Hval & Hfmt & Hrun).
    assert (Hst : is_start_class (Simple sc) = false) by (apply not_start; rewrite Hrun; exact I).
    rewrite (line_tag_found w_Rem cn _ Hf).
    destruct t as [|t0 tr].
    + rewrite (exec_line_spelled s (VRem []) n cn sc st0 Hok Hsp Hf Hst).
      cbn [raw_arg arg_of].
      rewrite (bare_pipeline fo child cx _ cn _ sc (sp_cmd s) n st0 Htok Hpv (or_introl Hflip) Hnd)
        by (rewrite Hreq; discriminate).
      rewrite (mc_rem fo child cx _ cn _ sc (sp_cmd s) None _ Hrun).
      cbn [name_line s_g s_env]. rewrite Hu.
      destruct (include_comments (c_opts cx)); reflexivity.
    + rewrite (text_line s (VRem (t0 :: tr)) n cn sc st0 (t0 :: tr) (t0 :: tr) (t0 :: tr) Hok Hsp Hf);
        try assumption.
      * rewrite (mc_rem fo child cx _ cn _ sc (sp_cmd s) _ _ Hrun).
        cbn [name_line s_g s_env l_content l_orig content_text]. rewrite Hu.
        destruct (include_comments (c_opts cx)); reflexivity.
      * reflexivity.
      * left. exact Hflip.
      * rewrite Hreq. discriminate.
      * rewrite Hstrip. cbn [to_eol]. symmetry. apply strip_app_ws; [exact Hok|discriminate|exact Htr].
      * rewrite Hval. apply triv_valid.
      * rewrite Hfmt. apply id_format_ok.
  - (* modifier / ALTCHAR with its argument *)
    pose proof Hok as (Hc & Hw & Hl & Hs).
    destruct (mod_class_found c w Hc Hw) as (sc & Hf & Hsc & Htok & Hat & Hpv & Hstrip & Hrun & Hflip & Hreq & _).
    assert (Hane : a <> []).
    { intro E. rewrite E in Hl. rewrite (legal_nonempty c Hc) in Hl. discriminate. }
    rewrite (text_line s (VMod c w a) n (class_name c) sc st0 a a (fmt_image c a) Hok Hsp Hf);
      try assumption.
    + rewrite (mc_default fo child cx _ _ _ sc (sp_cmd s) _ _ Hrun).
      cbn [name_line map s_g s_env l_content l_orig content_text]. rewrite Hu.
      rewrite (line_tag_found w _ _ Hf). reflexivity.
    + apply not_start. rewrite Hrun. exact I.
    + reflexivity.
    + unfold flip_ok. rewrite Hflip. exact Hfl.
    + rewrite Hstrip. cbn [to_eol]. symmetry. apply strip_app_ws; assumption.
    + apply (validator_complete c sc Hsc (AStr a)); [|exact Hl].
      destruct c; try discriminate Hc; exact I.
    + apply fmt_image_ok; assumption.
  - (* modifier alone *)
    pose proof Hok as (Hb & Hw).
    assert (Hc : str_class c = true) by (destruct c; try discriminate Hb; reflexivity).
    destruct (mod_class_found c w Hc Hw) as (sc & Hf & Hsc & Htok & Hat & Hpv & Hstrip & Hrun & Hflip & _ & Hreq).
    rewrite (exec_line_spelled s (VModBare c w) n _ sc st0 Hok Hsp Hf)
      by (apply not_start; rewrite Hrun; exact I).
    cbn [raw_arg arg_of].
    rewrite (bare_pipeline fo child cx _ _ _ sc (sp_cmd s) n st0 Htok Hpv); try assumption.
    + rewrite (mc_default fo child cx _ _ _ sc (sp_cmd s) None _ Hrun). cbn [name_line map s_g s_env].
      rewrite Hu. rewrite (line_tag_found w _ _ Hf). reflexivity.
    + unfold flip_ok. rewrite Hflip. exact Hfl.
    + exact (Hreq Hb).
  - (* ALTSTRING / ALTCODE *)
    pose proof Hok as (Hw & Hs & Htne).
    destruct (word_cls_elim _ _ w fliptext_classes Hw) as (cn & sc & Hf & HP).
    destruct (text_clsb_elim _ _ sc HP) as (Htok & Hat & Hpv & Hreq & Hstrip & Hflip & Hval & Hfmt & Hrun).
    rewrite (text_line s (VFlipText w t) n cn sc st0 t t t Hok Hsp Hf); try assumption.
    + rewrite (mc_default fo child cx _ cn _ sc (sp_cmd s) _ _ Hrun).
      cbn [name_line map s_g s_env l_content l_orig content_text]. rewrite Hu.
      rewrite (line_tag_found w cn _ Hf). reflexivity.
    + apply not_start. rewrite Hrun. exact I.
    + reflexivity.
    + right. destruct Hfl as [Hfl|Hfl]; [discriminate Hfl|exact Hfl].
    + rewrite Hstrip. cbn [to_eol]. symmetry. apply strip_app_ws; assumption.
    + rewrite Hval. apply triv_valid.
    + rewrite Hfmt. apply id_format_ok.
  - (* DELAY / DEFAULT_DELAY *)
    pose proof Hok as (Hc & Hw & Hd).
    destruct (delay_class_found c w Hc Hw) as (sc & Hf & Hsc & Htok & Hat & Hpl & Hstrip & Hflip & Hreq & Hfmt & Hrun).
    destruct (is_digits_nows ds Hd) as [Hdn Hdne].
    assert (Hst : is_start_class (Simple sc) = false).
    { apply not_start. rewrite Hrun. destruct c; exact I. }
    rewrite (exec_line_spelled s (VDelay c w ds) n _ sc st0 Hok Hsp Hf Hst).
    cbn [raw_arg arg_of to_eol].
    rewrite (int_pipeline fo child cx _ _ _ sc (sp_cmd s) n (ds ++ sp_trail s) st0
               (Z.of_N (dec_value ds 0)) Htok Hat Hstrip Hpl (or_introl Hflip) Hnd Hreq).
    + rewrite (line_tag_found w _ _ Hf).
      destruct c; try discriminate Hc.
      * rewrite (mc_default fo child cx _ _ _ sc (sp_cmd s) _ _ Hrun).
        cbn [name_line map s_g s_env l_content l_orig content_text]. rewrite Hu. reflexivity.
      * rewrite (mc_default_delay fo child cx _ _ _ sc (sp_cmd s) _ n _ Hrun)
          by (cbn [s_env]; apply Hdd; reflexivity).
        cbn [name_line map s_g s_env l_content l_orig content_text]. rewrite Hu. reflexivity.
    + destruct ds; [contradiction Hdne; reflexivity|discriminate].
    + rewrite (strip_app_ws ds (sp_trail s) (nows_strip ds Hdn) Hdne Htr).
      apply tokenize_digits. exact Hd.
    + apply (validator_complete c sc Hsc (AInt (Z.of_N (dec_value ds 0)))).
      * destruct c; try discriminate Hc; exact I.
      * destruct c; try discriminate Hc; cbn [legal_arg]; apply Z.leb_le; apply N2Z.is_nonneg.
    + rewrite Hfmt. apply id_format_ok.
Qed.

End Lines.
