(* C13 (a): no stack is ever started by a START-family command on a file that is live.
   The interpreter is parameterised by the runner of the stacks above (the child).  We show that
   it cannot tell two children apart that agree on the LEGAL calls -- the calls described by
   [child_call_nr]: a block command running its block, RUN running a function body, and START
   running the parsed text of a file that is the file of NO live stack.  Hence no other call is
   ever made; for the depth-indexed interpreter: every stack that [run] starts is reachable
   through legal calls only ([nr_reach]). *)
From Coq Require Import NArith ZArith List Bool Lia.
From DS Require Import Base PyStr Values Expr TabParse Tables Constants Interp.
From DS Require Import StackLift TraceShape StartLaws.
Import ListNotations.

Arguments IOk {A}. Arguments IErr {A}. Arguments ICrash {A}. Arguments IUnmod {A}.

(* ------------------------------------------------------------------ legal calls *)
(* TraceShape.child_call with the START constructor strengthened by the non-membership fact *)
Inductive child_call_nr (cx : ctx) (c : str) (cb : option (list item)) : option path -> list item -> Prop :=
| ccn_block : forall cmd more cname bc,
    split_ws1 c = cmd :: more -> find_command palette cmd cb = Some (cname, Block bc) ->
    child_call_nr cx c cb (c_file cx) (block_of cb)
| ccn_run : forall cmd more cname sc file code,
    split_ws1 c = cmd :: more -> find_command palette cmd cb = Some (cname, Simple sc) ->
    s_run sc = RKRun ->
    child_call_nr cx c cb file code
| ccn_start : forall cmd more cname sc target text code,
    split_ws1 c = cmd :: more -> find_command palette cmd cb = Some (cname, Simple sc) ->
    s_run sc = RKStart ->
    c_fs cx target = Some text -> prepare_text text = TOk code ->
    ~ In (Some target) (live_files cx) ->
    child_call_nr cx c cb (Some target) code.

Definition line_call_nr (cx : ctx) (cmds : list item) (cur : preline) (file : option path) (code : list item) : Prop :=
  exists cb, In (cur, cb) (line_blocks cmds) /\ child_call_nr cx (fst cur) cb file code.

Lemma child_call_nr_child_call : forall cx c cb file code, child_call_nr cx c cb file code -> child_call cx c cb file code.
Proof.
  intros cx c cb file code H.
  destruct H as [cmd more cname bc Hs Hf|cmd more cname sc file code Hs Hf Hk
                |cmd more cname sc target text code Hs Hf Hk Hfs Hp Hn].
  - eapply cc_block; eassumption.
  - eapply cc_run; eassumption.
  - eapply cc_start; eassumption.
Qed.

Lemma line_call_nr_line_call : forall cx cmds cur file code, line_call_nr cx cmds cur file code -> line_call cx cmds cur file code.
Proof. intros cx cmds cur file code (cb & Hin & H). exists cb. split; [exact Hin|apply child_call_nr_child_call; exact H]. Qed.

(* the point: a legal call made by a START-family line starts a stack whose file is the file of no
   frame of its pile *)
Theorem start_call_no_reentry : forall cx c cb file code cmd more cname sc cur l2,
  child_call_nr cx c cb file code ->
  split_ws1 c = cmd :: more -> find_command palette cmd cb = Some (cname, Simple sc) -> s_run sc = RKStart ->
  exists target text,
    file = Some target /\ c_fs cx target = Some text /\ prepare_text text = TOk code /\
    ~ In (Some target) (map fr_file (c_pile (mkCtx (c_opts cx) (c_fs cx) (here cx cur l2) file))).
Proof.
  intros cx c cb file code cmd more cname sc cur l2 H Hs Hf Hk.
  destruct H as [cmd' more' cname' bc' Hs' Hf'|cmd' more' cname' sc' file code Hs' Hf' Hk'
                |cmd' more' cname' sc' target text code Hs' Hf' Hk' Hfs Hp Hn].
  - rewrite Hs in Hs'. injection Hs' as <- <-. rewrite Hf in Hf'. discriminate.
  - rewrite Hs in Hs'. injection Hs' as <- <-. rewrite Hf in Hf'. injection Hf' as <- <-.
    rewrite Hk in Hk'. discriminate.
  - exists target, text. repeat split; try assumption. cbn [c_pile]. rewrite live_files_here. exact Hn.
Qed.

(* ------------------------------------------------------------------ independence, one stack *)
Section Indep.
Variable fo : FloatOps.
Notation M := (M fo).
Notation bindM := (bindM fo).

Variables c1 c2 : runner fo.
Variable cx : ctx.
Variable Call : preline -> option path -> list item -> Prop.

Hypothesis Hagree : forall cur l2 file g e code,
  Call cur file code ->
  c1 (mkCtx (c_opts cx) (c_fs cx) (here cx cur l2) file) g e code =
  c2 (mkCtx (c_opts cx) (c_fs cx) (here cx cur l2) file) g e code.

Definition eqm {A} (m1 m2 : M A) : Prop := forall s, m1 s = m2 s.

Lemma eqm_refl : forall A (m : M A), eqm m m.
Proof. intros A m s. reflexivity. Qed.

Lemma eqm_bind : forall A B (m1 m2 : M A) (f1 f2 : A -> M B),
  eqm m1 m2 -> (forall a, eqm (f1 a) (f2 a)) -> eqm (bindM m1 f1) (bindM m2 f2).
Proof.
  intros A B m1 m2 f1 f2 Hm Hf s. unfold Interp.bindM. rewrite <- (Hm s).
  destruct (m1 s) as [s1 [a| | |]]; try reflexivity. apply Hf.
Qed.

(* START: only targets that are not live have to be covered *)
Definition call_start_nr (cur : preline) : Prop :=
  forall target text code, c_fs cx target = Some text -> prepare_text text = TOk code ->
  circ cx target = false -> Call cur (Some target) code.

Lemma eqm_run_child_with : forall cur code file parallel setup pre,
  Call cur file code ->
  eqm (run_child_with fo c1 cx cur code file parallel setup pre)
      (run_child_with fo c2 cx cur code file parallel setup pre).
Proof.
  intros cur code file parallel setup pre HC s. unfold run_child_with.
  destruct (cmp_eval _ _ _); [reflexivity|].
  destruct (setup _) as [cenv1| | |]; try reflexivity.
  destruct (pre cenv1) as [[|]| | |]; try reflexivity.
  rewrite (Hagree cur (s_line2 fo s) file (s_g fo s) cenv1 code HC). reflexivity.
Qed.

Lemma eqm_run_child : forall cur code file parallel setup,
  Call cur file code ->
  eqm (run_child fo c1 cx cur code file parallel setup) (run_child fo c2 cx cur code file parallel setup).
Proof.
  intros cur code file parallel setup HC. unfold run_child.
  apply eqm_bind; [apply eqm_run_child_with; exact HC|intros a; apply eqm_refl].
Qed.

Lemma eqm_run_compile : forall cur cname sc name arg,
  (s_run sc = RKRun -> call_run cx Call cur) -> (s_run sc = RKStart -> call_start_nr cur) ->
  eqm (run_compile fo c1 cx cur cname sc name arg) (run_compile fo c2 cx cur cname sc name arg).
Proof.
  intros cur cname sc name arg Hrun Hstart. unfold run_compile.
  destruct (s_run sc) eqn:Ek; try apply eqm_refl.
  - (* RUN *)
    destruct arg as [l|]; [|apply eqm_refl].
    destruct (break_arg _) as [fname var_string].
    apply eqm_bind; [apply eqm_refl|intros vals].
    apply eqm_bind; [apply eqm_refl|intros e].
    destruct (lookup fname (e_funcs fo e)) as [f|]; [|apply eqm_refl].
    destruct (negb _); [apply eqm_refl|].
    apply eqm_bind; [apply eqm_run_child; apply (Hrun eq_refl)|intros cr; apply eqm_refl].
  - (* START *)
    destruct arg as [l|]; [|apply eqm_refl]. destruct (c_file cx) as [file|]; [|apply eqm_refl].
    apply eqm_bind; [apply eqm_refl|intros target].
    destruct (c_fs cx target) as [text|] eqn:Efs; [|apply eqm_refl].
    intros s. rewrite circ_test_eq.
    destruct (circ cx target) eqn:Ec; [reflexivity|].
    destruct (prepare_text text) as [commands|[| | | |]] eqn:Ep; try reflexivity.
    match goal with |- ?m1 s = ?m2 s => assert (Hp : eqm m1 m2) end; [|exact (Hp s)].
    apply eqm_bind; [apply eqm_run_child; exact (Hstart eq_refl target text commands Efs Ep Ec)|intros cr; apply eqm_refl].
Qed.

Lemma eqm_multi_comp : forall cur cname tg sc name args acc,
  (s_run sc = RKRun -> call_run cx Call cur) -> (s_run sc = RKStart -> call_start_nr cur) ->
  eqm (multi_comp fo c1 cx cur cname tg sc name args acc) (multi_comp fo c2 cx cur cname tg sc name args acc).
Proof.
  intros cur cname tg sc name args acc Hrun Hstart. revert acc.
  induction args as [|a r IH]; intro acc; cbn [multi_comp].
  - apply eqm_refl.
  - apply eqm_bind; [apply eqm_refl|intros u].
    apply eqm_bind; [apply eqm_run_compile; assumption|intros c]. apply IH.
Qed.

Lemma eqm_simple_compile : forall cur cname tg sc cmd num argument code_block,
  (s_run sc = RKRun -> call_run cx Call cur) -> (s_run sc = RKStart -> call_start_nr cur) ->
  eqm (simple_compile fo c1 cx cur cname tg sc cmd num argument code_block)
      (simple_compile fo c2 cx cur cname tg sc cmd num argument code_block).
Proof.
  intros cur cname tg sc cmd num argument code_block Hrun Hstart. unfold simple_compile.
  apply eqm_bind; [apply eqm_refl|intros u0].
  apply eqm_bind; [apply eqm_refl|intros args0].
  apply eqm_bind; [apply eqm_refl|intros args2].
  apply eqm_bind; [apply eqm_refl|intros u1].
  apply eqm_bind; [apply eqm_refl|intros args3].
  apply eqm_bind; [apply eqm_refl|intros u2].
  apply eqm_bind; [apply eqm_refl|intros u3].
  apply eqm_bind; [apply eqm_refl|intros args4].
  apply eqm_multi_comp; assumption.
Qed.

Lemma eqm_repeat_loop : forall cur fuel v a code count acc,
  Call cur (c_file cx) code ->
  eqm (repeat_loop fo c1 cx cur fuel v a code count acc) (repeat_loop fo c2 cx cur fuel v a code count acc).
Proof.
  intros cur fuel. induction fuel as [|f IH]; intros v a code count acc HC; cbn [repeat_loop].
  - apply eqm_refl.
  - apply eqm_bind; [apply eqm_refl|intros n].
    destruct (count <? n)%Z; [|apply eqm_refl].
    apply eqm_bind; [apply eqm_run_child; exact HC|intros cr].
    destruct (loop_signal _) as [sg brk]. destruct brk; [apply eqm_refl|apply IH; exact HC].
Qed.

Lemma eqm_while_loop : forall cur fuel v a code count acc,
  Call cur (c_file cx) code ->
  eqm (while_loop fo c1 cx cur fuel v a code count acc) (while_loop fo c2 cx cur fuel v a code count acc).
Proof.
  intros cur fuel. induction fuel as [|f IH]; intros v a code count acc HC; cbn [while_loop].
  - apply eqm_refl.
  - destruct (cmp_eval _ _ _); [apply eqm_refl|].
    apply eqm_bind; [apply eqm_run_child_with; exact HC|intros [cr|]]; [|apply eqm_refl].
    destruct (loop_signal _) as [sg brk]. destruct brk; [apply eqm_refl|apply IH; exact HC].
Qed.

Lemma eqm_block_compile : forall cur bc cname cmd num argument code_block,
  call_block cx Call cur code_block ->
  eqm (block_compile fo c1 cx cur bc cname cmd num argument code_block)
      (block_compile fo c2 cx cur bc cname cmd num argument code_block).
Proof.
  intros cur bc cname cmd num argument code_block HC. unfold call_block, block_of in HC. unfold block_compile.
  apply eqm_bind; [apply eqm_refl|intros u0].
  apply eqm_bind; [apply eqm_refl|intros u1].
  set (arg' := if b_strip_arg bc then _ else _). clearbody arg'.
  generalize loop_fuel; intro fuel.
  destruct (b_kind bc).
  - apply eqm_bind; [apply eqm_refl|intros e].
    apply eqm_bind; [apply eqm_refl|intros u2].
    apply eqm_bind; [apply eqm_refl|intros u3].
    apply eqm_bind; [apply eqm_refl|intros tok].
    apply eqm_bind; [apply eqm_refl|intros flag].
    apply eqm_bind; [apply eqm_refl|intros skip].
    destruct skip; [apply eqm_refl|]. destruct (_ && _); [apply eqm_refl|].
    apply eqm_bind; [apply eqm_refl|intros u5].
    apply eqm_bind; [apply eqm_run_child; exact HC|intros cr; apply eqm_refl].
  - apply eqm_refl.
  - destruct arg' as [a|]; [|apply eqm_refl]. destruct (split_loop_arg a) as [var_name count_expr].
    destruct (match code_block with Some b => b | None => [] end) eqn:Ecode; [apply eqm_refl|].
    destruct (match var_name with Some v => _ | None => _ end); [|apply eqm_refl].
    apply eqm_bind; [apply eqm_repeat_loop; exact HC|intros cr; apply eqm_refl].
  - destruct arg' as [a|]; [|apply eqm_refl]. destruct (split_loop_arg a) as [var_name cond].
    apply eqm_bind; [apply eqm_while_loop; exact HC|intros cr; apply eqm_refl].
  - apply eqm_refl.
Qed.

Definition line_calls_nr (c : str) (n : Z) (cb : option (list item)) : Prop :=
  forall cmd more cname cl,
  split_ws1 c = cmd :: more -> find_command palette cmd cb = Some (cname, cl) ->
  match cl with
  | Block _ => call_block cx Call (c, n) cb
  | Simple sc => (s_run sc = RKRun -> call_run cx Call (c, n)) /\ (s_run sc = RKStart -> call_start_nr (c, n))
  end.

Lemma eqm_exec_line : forall c n code_block,
  line_calls_nr c n code_block ->
  eqm (exec_line fo c1 cx c n code_block) (exec_line fo c2 cx c n code_block).
Proof.
  intros c n code_block HL. unfold exec_line. unfold line_calls_nr in HL.
  destruct (split_ws1 c) as [|cmd more]; [apply eqm_refl|].
  destruct (find_command _ _ _) as [[cname cl]|] eqn:Ef.
  - specialize (HL cmd more cname cl eq_refl Ef).
    destruct (_ && _); [apply eqm_refl|]. destruct cl as [sc|bc].
    + destruct HL as [Hrun Hstart]. apply eqm_simple_compile; assumption.
    + apply eqm_bind; [apply eqm_block_compile; exact HL|intros r; apply eqm_refl].
  - apply eqm_bind; [apply eqm_refl|intros u].
    apply eqm_simple_compile; cbn [generic_simple s_run]; discriminate.
Qed.

Definition cmds_calls_nr (cmds : list item) : Prop :=
  forall c n cb, In ((c, n), cb) (line_blocks cmds) -> line_calls_nr c n cb.

Lemma eqm_exec_cmds : forall cmds acc,
  cmds_calls_nr cmds -> eqm (exec_cmds fo c1 cx cmds acc) (exec_cmds fo c2 cx cmds acc).
Proof.
  intros cmds. induction cmds as [|[c n|b] rest IH]; intros acc HC; cbn [exec_cmds].
  - apply eqm_refl.
  - assert (HCrest : cmds_calls_nr rest).
    { intros c0 n0 cb0 Hin. apply HC. cbn [line_blocks]. apply in_or_app. right. exact Hin. }
    destruct (is_blank c) eqn:Eb; [apply IH; exact HCrest|].
    apply eqm_bind; [apply eqm_refl|intros u].
    apply eqm_bind.
    + apply eqm_exec_line. apply HC. cbn [line_blocks]. rewrite Eb. left. reflexivity.
    + intros cr. destruct (cr_sig cr); try (apply IH; exact HCrest); apply eqm_refl.
  - apply IH. exact HC.
Qed.

End Indep.

(* ------------------------------------------------------------------ the legal calls cover a stack *)
Lemma line_call_nr_cmds_calls : forall cx cmds, cmds_calls_nr cx (line_call_nr cx cmds) cmds.
Proof.
  intros cx cmds c n cb Hin cmd more cname cl Hs Hf. destruct cl as [sc|bc].
  - split; intro Hk.
    + intros f. exists cb. split; [exact Hin|]. eapply ccn_run; eassumption.
    + intros target text code Hfs Hp Hc. exists cb. split; [exact Hin|].
      eapply ccn_start; try eassumption. apply circ_false_iff. exact Hc.
  - unfold call_block. exists cb. split; [exact Hin|]. eapply ccn_block; eassumption.
Qed.

Section Whole.
Variable fo : FloatOps.

(* one stack: the result does not depend on what the child does outside the legal calls *)
Theorem run_with_only_legal_calls : forall (c1 c2 : runner fo) cx cmds,
  (forall cur l2 file g e code,
     line_call_nr cx cmds cur file code ->
     c1 (mkCtx (c_opts cx) (c_fs cx) (here cx cur l2) file) g e code =
     c2 (mkCtx (c_opts cx) (c_fs cx) (here cx cur l2) file) g e code) ->
  forall g e, run_with fo c1 cx g e cmds = run_with fo c2 cx g e cmds.
Proof.
  intros c1 c2 cx cmds H g e. unfold run_with.
  rewrite (eqm_exec_cmds fo c1 c2 cx (line_call_nr cx cmds) H cmds [] (line_call_nr_cmds_calls cx cmds) (mkSt fo g e None)).
  reflexivity.
Qed.

Theorem exec_cmds_only_legal_calls : forall (c1 c2 : runner fo) cx cmds,
  (forall cur l2 file g e code,
     line_call_nr cx cmds cur file code ->
     c1 (mkCtx (c_opts cx) (c_fs cx) (here cx cur l2) file) g e code =
     c2 (mkCtx (c_opts cx) (c_fs cx) (here cx cur l2) file) g e code) ->
  forall acc s, exec_cmds fo c1 cx cmds acc s = exec_cmds fo c2 cx cmds acc s.
Proof.
  intros c1 c2 cx cmds H acc s.
  exact (eqm_exec_cmds fo c1 c2 cx (line_call_nr cx cmds) H cmds acc (line_call_nr_cmds_calls cx cmds) s).
Qed.

(* ------------------------------------------------------------------ the whole interpreter *)
(* the (context, code) pairs reachable from a root stack through legal calls *)
Inductive nr_reach (cx0 : ctx) (cmds0 : list item) : ctx -> list item -> Prop :=
| nr_root : nr_reach cx0 cmds0 cx0 cmds0
| nr_step : forall cx cmds cur l2 file code,
    nr_reach cx0 cmds0 cx cmds -> line_call_nr cx cmds cur file code ->
    nr_reach cx0 cmds0 (mkCtx (c_opts cx) (c_fs cx) (here cx cur l2) file) code.

(* the interpreter with an arbitrary behaviour [badr] substituted for the stacks [bad] selects *)
Definition poison (bad : ctx -> list item -> bool) (badr r : runner fo) : runner fo :=
  fun cx g e code => if bad cx code then badr cx g e code else r cx g e code.

Fixpoint run_poisoned (bad : ctx -> list item -> bool) (badr : runner fo) (d : nat) : runner fo :=
  poison bad badr (run_with fo (match d with O => no_child fo | S d' => run_poisoned bad badr d' end)).

(* every stack the interpreter starts, at any depth, is reachable through legal calls: poisoning
   any set of stacks that are not so reachable changes nothing *)
Theorem run_starts_only_legal_stacks : forall bad badr cx0 cmds0,
  (forall cx code, nr_reach cx0 cmds0 cx code -> bad cx code = false) ->
  forall d cx cmds g e, nr_reach cx0 cmds0 cx cmds ->
  run fo d cx g e cmds = run_poisoned bad badr d cx g e cmds.
Proof.
  intros bad badr cx0 cmds0 Hbad d. induction d as [|d IH]; intros cx cmds g e Hr;
    cbn [run run_poisoned]; unfold poison; rewrite (Hbad cx cmds Hr).
  - reflexivity.
  - apply run_with_only_legal_calls. intros cur l2 file g1 e1 code HC.
    apply IH. eapply nr_step; eassumption.
Qed.

Corollary compile_items_starts_only_legal_stacks : forall bad badr o fs file cmds,
  (forall cx code, nr_reach (mkCtx o fs [] file) cmds cx code -> bad cx code = false) ->
  compile_items fo o fs file cmds =
  match run_poisoned bad badr (run_depth o) (mkCtx o fs [] file) (mkGlob [] []) (initial_env fo) cmds with
  | (g, IOk (cr, e)) =>
      let g' := match s_sig_warning (cr_sig cr) with
                | Some w => add_warning (mkWarn w None) g
                | None => g end in
      (g', IOk (mkCompiled fo (cr_data cr) (rev (g_warnings g')) e (rev (g_prints g'))))
  | (g, IErr er t) => (g, IErr er t)
  | (g, ICrash k) => (g, ICrash k)
  | (g, IUnmod) => (g, IUnmod)
  end.
Proof.
  intros bad badr o fs file cmds Hbad. unfold compile_items.
  rewrite (run_starts_only_legal_stacks bad badr _ _ Hbad (run_depth o) _ _ _ _ (nr_root _ _)). reflexivity.
Qed.

End Whole.

(* ------------------------------------------------------------------ facts about reachable stacks *)
Lemma nr_reach_opts_fs : forall cx0 cmds0 cx cmds, nr_reach cx0 cmds0 cx cmds -> c_opts cx = c_opts cx0 /\ c_fs cx = c_fs cx0.
Proof.
  intros cx0 cmds0 cx cmds H. induction H as [|cx cmds cur l2 file code Hr IH HC]; [split; reflexivity|exact IH].
Qed.

(* the pile of a reachable stack extends the root's *)
Lemma nr_reach_pile : forall cx0 cmds0 cx cmds, nr_reach cx0 cmds0 cx cmds -> exists ext, c_pile cx = c_pile cx0 ++ ext.
Proof.
  intros cx0 cmds0 cx cmds H. induction H as [|cx cmds cur l2 file code Hr (ext & IH) HC].
  - exists []. rewrite app_nil_r. reflexivity.
  - exists (ext ++ [mkFrame (c_file cx) cur l2]). cbn [c_pile]. unfold here. rewrite IH, app_assoc. reflexivity.
Qed.

(* the last step of a reachable stack that was started by a START-family line: the file of the new
   stack is the file of no frame of its pile -- directly, or through any chain of files, blocks
   and function calls, since the pile holds every live stack *)
Theorem nr_reach_start_no_reentry : forall cx0 cmds0 cx cmds cur l2 file code cb cmd more cname sc,
  nr_reach cx0 cmds0 cx cmds ->
  In (cur, cb) (line_blocks cmds) -> child_call_nr cx (fst cur) cb file code ->
  split_ws1 (fst cur) = cmd :: more -> find_command palette cmd cb = Some (cname, Simple sc) -> s_run sc = RKStart ->
  let cx' := mkCtx (c_opts cx) (c_fs cx) (here cx cur l2) file in
  nr_reach cx0 cmds0 cx' code /\ ~ In (c_file cx') (map fr_file (c_pile cx')).
Proof.
  intros cx0 cmds0 cx cmds cur l2 file code cb cmd more cname sc Hr Hin HC Hs Hf Hk cx'. split.
  - eapply nr_step; [exact Hr|]. exists cb. split; assumption.
  - destruct (start_call_no_reentry cx (fst cur) cb file code cmd more cname sc cur l2 HC Hs Hf Hk)
      as (target & text & -> & _ & _ & Hn). exact Hn.
Qed.
