(* Computed witnesses for C06 (counter scope / assignment), C11 ($CMD) and C03 (quoted regions)
   on concrete program texts.  [fo] stays abstract: none of the programs touches a float. *)
From Coq Require Import String Ascii NArith ZArith List Bool.
From DS Require Import Base PyStr Values Expr TabParse Tables Constants Interp ChainLoopExamples.
Import ListNotations.
Open Scope string_scope.
Open Scope list_scope.

Section Examples.
Variable fo : FloatOps.
Notation texts := (texts fo).
Notation run_text := (run_text fo).

Definition err_of (c : glob * ires (compiled fo)) : option errcls :=
  match snd c with IErr _ e _ => Some e | _ => None end.

(* the counter is not defined after the loop ... *)
Example repeat_counter_gone :
  texts (run_text (prog ["REPEAT i,2"; T "$STRING i"; "NOTEXIST i"; "STRING end"]))
  = Some [lit "STRING 0"; lit "STRING 1"; lit "STRING end"].
Proof. vm_compute. reflexivity. Qed.

Example repeat_counter_gone_read :
  err_of (run_text (prog ["REPEAT i,2"; T "$STRING i"; "$STRING i"])) = Some EExpectedToken.
Proof. vm_compute. reflexivity. Qed.

Example while_counter_gone :
  texts (run_text (prog ["WHILE i,i<2"; T "$STRING i"; "NOTEXIST i"; "STRING end"]))
  = Some [lit "STRING 0"; lit "STRING 1"; lit "STRING end"].
Proof. vm_compute. reflexivity. Qed.

(* ... unless the name was defined before: REPEAT leaves the LAST counter (2) ... *)
Example repeat_counter_assigns :
  texts (run_text (prog ["VAR i 100"; "REPEAT i,3"; T "STRING a"; "$STRING i"]))
  = Some [lit "STRING a"; lit "STRING a"; lit "STRING a"; lit "STRING 2"].
Proof. vm_compute. reflexivity. Qed.

(* ... REPEAT 0 leaves it alone ... *)
Example repeat_zero_keeps :
  texts (run_text (prog ["VAR i 100"; "REPEAT i,0"; T "STRING a"; "$STRING i"]))
  = Some [lit "STRING 100"].
Proof. vm_compute. reflexivity. Qed.

(* ... what the body assigns after the binding wins ... *)
Example repeat_body_assigns :
  texts (run_text (prog ["VAR i 100"; "REPEAT i,3"; T "VAR i i*10"; "$STRING i"]))
  = Some [lit "STRING 20"].
Proof. vm_compute. reflexivity. Qed.

(* ... and WHILE leaves the NUMBER OF COMPLETED ITERATIONS (3): the counter is bound once more
   for the failing check *)
Example while_counter_assigns :
  texts (run_text (prog ["VAR i 100"; "WHILE i,i<3"; T "STRING a"; "$STRING i"]))
  = Some [lit "STRING a"; lit "STRING a"; lit "STRING a"; lit "STRING 3"].
Proof. vm_compute. reflexivity. Qed.

(* WHILE with a false condition still assigns 0 *)
Example while_zero_assigns :
  texts (run_text (prog ["VAR i 100"; "WHILE i,FALSE"; T "STRING a"; "$STRING i"]))
  = Some [lit "STRING 0"].
Proof. vm_compute. reflexivity. Qed.

(* WHILE left by BREAKLOOP: the counter of the last iteration *)
Example while_break_assigns :
  texts (run_text (prog ["VAR i 100"; "WHILE i,TRUE"; T "IF i==2"; T (T "BREAKLOOP"); "$STRING i"]))
  = Some [lit "STRING 2"].
Proof. vm_compute. reflexivity. Qed.

(* C11: $CMD *)
Example dollar_string : texts (run_text (prog ["$STRING (1+2)*3"])) = Some [lit "STRING 9"].
Proof. vm_compute. reflexivity. Qed.

Example dollar_unknown : texts (run_text (prog ["$foo 1+1"])) = Some [lit "FOO 2"].
Proof. vm_compute. reflexivity. Qed.

Example dollar_enter_3 : texts (run_text (prog ["$ENTER 1+2"])) = Some [lit "ENTER"; lit "ENTER"; lit "ENTER"].
Proof. vm_compute. reflexivity. Qed.

Example dollar_enter_neg : texts (run_text (prog ["$ENTER 1-2"; "STRING x"])) = Some [lit "STRING x"].
Proof. vm_compute. reflexivity. Qed.

Example dollar_enter_str : err_of (run_text (prog ["$ENTER ""a"""])) = Some EInvalidArguments.
Proof. vm_compute. reflexivity. Qed.

Example dollar_enter_bool : err_of (run_text (prog ["$ENTER TRUE"])) = Some EInvalidArguments.
Proof. vm_compute. reflexivity. Qed.

(* C03 / C11: quoted regions: STRING and IGNORE keep the relative indentation, an unknown word
   strips it; a blank line inside the region is dropped *)
Definition q3 : string := """""""""".

Example quoted_ignore :
  texts (run_text (prog ["IGNORE"; T q3; T "  a"; T (T "b"); T "  "; T q3; "STRING end"]))
  = Some [lit "  a"; lit (T "b"); lit "STRING end"].
Proof. vm_compute. reflexivity. Qed.

Example quoted_unknown_stripped :
  texts (run_text (prog ["FOO"; T q3; T "  a"; T (T "b"); T q3; "STRING end"]))
  = Some [lit "FOO a"; lit "FOO b"; lit "STRING end"].
Proof. vm_compute. reflexivity. Qed.

Example quoted_string :
  texts (run_text (prog ["STRING"; T q3; T "  a"; T (T "b"); T q3; "STRING end"]))
  = Some [lit "STRING   a"; lit (String.append "STRING " (T "b")); lit "STRING end"].
Proof. vm_compute. reflexivity. Qed.

End Examples.
