(* C02: the validators / formatters regenerated from the code (Generated/Tables.v) against the
   hand-pinned grammar of Spec/DuckyGrammar.v. *)
From Coq Require Import NArith ZArith List Bool Lia.
From DS Require Import Base PyStr Values Expr Interp Tables DuckyGrammar IdentProofs.
Import ListNotations.

(* ------------------------------------------------------------------ lookup by class name *)
Definition find_class (cname : str) : option simple_cls :=
  match find (fun p : str * cls => str_eqb (fst p) cname) palette with
  | Some (_, Simple sc) => Some sc
  | _ => None
  end.


(* ------------------------------------------------------------------ string helpers *)
Lemma str_eqb_eq : forall a b : str, str_eqb a b = true -> a = b.
Proof.
  induction a as [|x a IH]; intros [|y b] H; cbn [str_eqb] in H; try discriminate.
  - reflexivity.
  - apply andb_true_iff in H. destruct H as [Hxy Hab].
    apply N.eqb_eq in Hxy. apply IH in Hab. subst. reflexivity.
Qed.

Lemma str_in_In : forall (s : str) (l : list str), str_in s l = true -> In s l.
Proof.
  induction l as [|k l IH]; cbn [str_in]; intro H; [discriminate|].
  apply orb_true_iff in H. destruct H as [H|H].
  - left. apply str_eqb_eq in H. congruence.
  - right. auto.
Qed.

Lemma zlen_one : forall s : str, Z.eqb (zlen s) 1 = true -> one_char s = true.
Proof.
  intros s H. unfold zlen in H. unfold one_char.
  apply Z.eqb_eq in H. apply Nat.eqb_eq. lia.
Qed.

(* every listed key name is already upper case *)
Lemma alt_keys_upper : forall k, In k alt_keys -> upper k = k.
Proof.
  assert (H : forallb (fun k => str_eqb (upper k) k) alt_keys = true) by (vm_compute; reflexivity).
  intros k Hin. rewrite forallb_forall in H. apply str_eqb_eq. apply H. exact Hin.
Qed.

Lemma ctrl_keys_upper : forall k, In k ctrl_keys -> upper k = k.
Proof.
  assert (H : forallb (fun k => str_eqb (upper k) k) ctrl_keys = true) by (vm_compute; reflexivity).
  intros k Hin. rewrite forallb_forall in H. apply str_eqb_eq. apply H. exact Hin.
Qed.

(* ------------------------------------------------------------------ digits *)
Lemma sweep_digit_imp :
  forallb (fun c => implb (isdigit_c c) (is_ascii_digit c)) (nrange 128) = true.
Proof. vm_compute. reflexivity. Qed.

Lemma isdigit_ascii_digit : forall c, (c < 128)%N -> isdigit_c c = true -> is_ascii_digit c = true.
Proof.
  intros c Hlt Hd. pose proof sweep_digit_imp as H. rewrite forallb_forall in H.
  specialize (H c (nrange_in 128 c Hlt)). rewrite Hd in H. exact H.
Qed.

Lemma all_digits_ascii : forall s,
  forallb isdigit_c s = true -> forallb (fun c => (c <? 128)%N) s = true ->
  forallb is_ascii_digit s = true.
Proof.
  induction s as [|c s IH]; intros Hd Ha; [reflexivity|].
  cbn [forallb] in *.
  apply andb_true_iff in Hd. destruct Hd as [Hd1 Hd2].
  apply andb_true_iff in Ha. destruct Ha as [Ha1 Ha2].
  apply N.ltb_lt in Ha1.
  rewrite (isdigit_ascii_digit c Ha1 Hd1). rewrite (IH Hd2 Ha2). reflexivity.
Qed.

Lemma isdigit_isascii_digits : forall s,
  isdigit_s s = true -> isascii_s s = true -> forallb is_ascii_digit s = true /\ s <> [].
Proof.
  intros s Hd Ha. destruct s as [|c s]; [discriminate|].
  split; [|discriminate].
  unfold isdigit_s, all_c in Hd. unfold isascii_s, all_c in Ha.
  apply all_digits_ascii; assumption.
Qed.

(* ------------------------------------------------------------------ opening a generated class *)
Ltac open_class Hsc :=
  vm_compute in Hsc; injection Hsc as <-.

Ltac unfold_validator H :=
  unfold eval_validator in H;
  cbn [s_params s_verify_arg v_rules v_default eval_validator_rules eval_bexpr eval_sexpr bind] in H.


Lemma alt_params : forall sc, find_class n_Alt = Some sc -> s_params sc = alt_keys.
Proof. intros sc Hsc. open_class Hsc. reflexivity. Qed.
Lemma ctrl_params : forall sc, find_class n_Ctrl = Some sc -> s_params sc = ctrl_keys.
Proof. intros sc Hsc. open_class Hsc. reflexivity. Qed.
Lemma shift_params : forall sc, find_class n_Shift = Some sc -> s_params sc = shift_keys.
Proof. intros sc Hsc. open_class Hsc. reflexivity. Qed.

Lemma alt_strict : forall sc, find_class n_Alt = Some sc -> forall a, is_str a ->
  eval_validator (s_params sc) (s_verify_arg sc) a = Ok true -> legal_arg SAlt a = true.
Proof.
  intros sc Hsc a Ht Hv. rewrite (alt_params sc Hsc) in Hv.
  open_class Hsc. destruct a as [s|z]; [|contradiction].
  unfold_validator Hv. cbn [legal_arg]. unfold key_name.
  destruct (str_in (upper s) alt_keys) eqn:Ek; [apply orb_true_r|].
  destruct (cmp_eval CEq (zlen s) 1) eqn:El; [|discriminate].
  cbn [cmp_eval] in El. rewrite (zlen_one s El). reflexivity.
Qed.

Lemma ctrl_strict : forall sc, find_class n_Ctrl = Some sc -> forall a, is_str a ->
  eval_validator (s_params sc) (s_verify_arg sc) a = Ok true -> legal_arg SCtrl a = true.
Proof.
  intros sc Hsc a Ht Hv. rewrite (ctrl_params sc Hsc) in Hv.
  open_class Hsc. destruct a as [s|z]; [|contradiction].
  unfold_validator Hv. cbn [legal_arg]. unfold key_name.
  destruct (str_in (upper s) ctrl_keys) eqn:Ek; [apply orb_true_r|].
  destruct (cmp_eval CEq (zlen s) 1) eqn:El; [|discriminate].
  cbn [cmp_eval] in El. rewrite (zlen_one s El). reflexivity.
Qed.

Lemma shift_strict : forall sc, find_class n_Shift = Some sc -> forall a, is_str a ->
  eval_validator (s_params sc) (s_verify_arg sc) a = Ok true -> legal_arg SShift a = true.
Proof.
  intros sc Hsc a Ht Hv. rewrite (shift_params sc Hsc) in Hv.
  open_class Hsc. destruct a as [s|z]; [|contradiction].
  unfold_validator Hv. cbn [legal_arg]. unfold key_name.
  destruct (str_in (upper s) shift_keys) eqn:Ek; [reflexivity|].
  cbn [negb] in Hv. discriminate.
Qed.

Lemma gui_strict : forall sc, find_class n_Gui = Some sc -> forall a, is_str a ->
  eval_validator (s_params sc) (s_verify_arg sc) a = Ok true -> legal_arg SGui a = true.
Proof.
  intros sc Hsc a Ht Hv.
  open_class Hsc. destruct a as [s|z]; [|contradiction].
  unfold_validator Hv. cbn [legal_arg].
  destruct (cmp_eval CEq (zlen s) 1) eqn:El; [|discriminate].
  cbn [cmp_eval] in El. exact (zlen_one s El).
Qed.

Lemma sysrq_strict : forall sc, find_class n_Sysrq = Some sc -> forall a, is_str a ->
  eval_validator (s_params sc) (s_verify_arg sc) a = Ok true -> legal_arg SSysrq a = true.
Proof.
  intros sc Hsc a Ht Hv.
  open_class Hsc. destruct a as [s|z]; [|contradiction].
  unfold_validator Hv. cbn [legal_arg].
  destruct (cmp_eval CEq (zlen s) 1) eqn:El; [|discriminate].
  cbn [cmp_eval] in El. exact (zlen_one s El).
Qed.

Lemma flipmod_strict : forall sc, find_class n_FlipMod = Some sc -> forall a, is_str a ->
  eval_validator (s_params sc) (s_verify_arg sc) a = Ok true -> legal_arg SFlipMod a = true.
Proof.
  intros sc Hsc a Ht Hv.
  open_class Hsc. destruct a as [s|z]; [|contradiction].
  unfold_validator Hv. cbn [legal_arg].
  destruct (cmp_eval CEq (zlen s) 1) eqn:El; [|discriminate].
  cbn [cmp_eval] in El. exact (zlen_one s El).
Qed.

Lemma delay_strict : forall sc, find_class n_Delay = Some sc -> forall a, is_int a ->
  eval_validator (s_params sc) (s_verify_arg sc) a = Ok true -> legal_arg SDelay a = true.
Proof.
  intros sc Hsc a Ht Hv.
  open_class Hsc. destruct a as [s|z]; [contradiction|].
  unfold_validator Hv. cbn [legal_arg].
  destruct (cmp_eval CLt z 0) eqn:El; [discriminate|].
  cbn [cmp_eval] in El. apply Z.leb_le. apply Z.ltb_ge in El. exact El.
Qed.

Lemma whitespace_strict : forall sc, find_class n_Whitespace = Some sc -> forall a, is_int a ->
  eval_validator (s_params sc) (s_verify_arg sc) a = Ok true -> legal_arg SWhitespace a = true.
Proof.
  intros sc Hsc a Ht Hv.
  open_class Hsc. destruct a as [s|z]; [contradiction|].
  unfold_validator Hv. cbn [legal_arg].
  destruct (cmp_eval CGt z (-1)) eqn:E1; cbn [bind negb] in Hv.
  - destruct (cmp_eval CLt z 100) eqn:E2; cbn [negb] in Hv; [|discriminate].
    cbn [cmp_eval] in E1, E2. rewrite E2.
    apply Z.ltb_lt in E1. assert (H0 : (0 <=? z)%Z = true) by (apply Z.leb_le; lia).
    rewrite H0. reflexivity.
  - discriminate.
Qed.

Lemma altchar_strict : forall sc, find_class n_AltChar = Some sc -> forall a, is_str a ->
  eval_validator (s_params sc) (s_verify_arg sc) a = Ok true -> legal_arg SAltChar a = true.
Proof.
  intros sc Hsc a Ht Hv.
  open_class Hsc. destruct a as [s|z]; [|contradiction].
  unfold_validator Hv. cbn [legal_arg]. unfold altchar_code. cbv zeta.
  destruct (isdigit_s (strip s)) eqn:Ed; cbn [bind] in Hv; [|discriminate].
  destruct (isascii_s (strip s)) eqn:Ea; cbn [bind] in Hv; [|discriminate].
  destruct (cmp_eval CLe (zlen (strip s)) 4) eqn:El; [|discriminate].
  destruct (isdigit_isascii_digits (strip s) Ed Ea) as [Hall Hne].
  rewrite Hall. cbn [cmp_eval] in El. unfold zlen in El. apply Z.leb_le in El.
  assert (H4 : Nat.leb (length (strip s)) 4 = true) by (apply Nat.leb_le; lia).
  rewrite H4.
  destruct (strip s) as [|c r]; [contradiction Hne; reflexivity|]. reflexivity.
Qed.

(* ------------------------------------------------------------------ DEFAULT_DELAY (validated since the fix commit) *)
Ltac unfold_formatter H :=
  unfold eval_formatter in H;
  cbn [s_params s_format_arg f_rules f_default eval_formatter_rules eval_bexpr eval_sexpr bind] in H.
Lemma default_delay_strict : forall sc, find_class n_DefaultDelay = Some sc -> forall a, is_int a ->
  eval_validator (s_params sc) (s_verify_arg sc) a = Ok true -> legal_arg SDefaultDelay a = true.
Proof.
  intros sc Hsc a Ht Hv.
  open_class Hsc. destruct a as [s|z]; [contradiction|].
  unfold_validator Hv. cbn [legal_arg].
  destruct (cmp_eval CLt z 0) eqn:El; [discriminate|].
  cbn [cmp_eval] in El. apply Z.leb_le. apply Z.ltb_ge in El. exact El.
Qed.

Lemma alt_format : forall sc, find_class n_Alt = Some sc -> forall a a', is_str a ->
  eval_formatter (s_params sc) (s_format_arg sc) a = Ok a' ->
  legal_arg SAlt a = true -> legal_arg SAlt a' = true.
Proof.
  intros sc Hsc a a' Ht Hf Hl. rewrite (alt_params sc Hsc) in Hf.
  open_class Hsc. destruct a as [s|z]; [|contradiction].
  unfold_formatter Hf.
  destruct (str_in (upper s) alt_keys) eqn:Ek; cbn [bind] in Hf; injection Hf as <-.
  - cbn [legal_arg]. unfold key_name.
    rewrite (alt_keys_upper (upper s) (str_in_In _ _ Ek)). rewrite Ek. apply orb_true_r.
  - exact Hl.
Qed.

Lemma alt_format_canonical : forall sc, find_class n_Alt = Some sc -> forall s s',
  eval_formatter (s_params sc) (s_format_arg sc) (AStr s) = Ok (AStr s') ->
  legal_arg SAlt (AStr s) = true -> one_char s' || str_in s' alt_keys = true.
Proof.
  intros sc Hsc s s' Hf Hl. rewrite (alt_params sc Hsc) in Hf.
  open_class Hsc. 
  unfold_formatter Hf.
  destruct (str_in (upper s) alt_keys) eqn:Ek; cbn [bind] in Hf; injection Hf as <-.
  - rewrite Ek. apply orb_true_r.
  - cbn [legal_arg] in Hl. unfold key_name in Hl. rewrite Ek in Hl. rewrite orb_false_r in Hl.
    rewrite Hl. reflexivity.
Qed.

Lemma ctrl_format : forall sc, find_class n_Ctrl = Some sc -> forall a a', is_str a ->
  eval_formatter (s_params sc) (s_format_arg sc) a = Ok a' ->
  legal_arg SCtrl a = true -> legal_arg SCtrl a' = true.
Proof.
  intros sc Hsc a a' Ht Hf Hl. rewrite (ctrl_params sc Hsc) in Hf.
  open_class Hsc. destruct a as [s|z]; [|contradiction].
  unfold_formatter Hf.
  destruct (str_in s ctrl_keys) eqn:Ek; cbn [bind negb] in Hf; injection Hf as <-.
  - cbn [legal_arg]. unfold key_name.
    pose proof (ctrl_keys_upper s (str_in_In _ _ Ek)) as Hu.
    rewrite Hu, Hu, Ek. apply orb_true_r.
  - exact Hl.
Qed.

(* CTRL's formatter tests the argument as typed (not upper-cased) against the key names, so a
   lower-case key name is accepted and emitted unchanged *)
Lemma ctrl_format_not_canonical : forall sc, find_class n_Ctrl = Some sc ->
  exists s s', eval_validator (s_params sc) (s_verify_arg sc) (AStr s) = Ok true /\
               eval_formatter (s_params sc) (s_format_arg sc) (AStr s) = Ok (AStr s') /\
               one_char s' || str_in s' ctrl_keys = false.
Proof.
  intros sc Hsc. open_class Hsc. exists [101;115;99]%N, [101;115;99]%N.
  split; [|split]; vm_compute; reflexivity.
Qed.

Lemma id_format : forall params f a a',
  f_rules f = [] -> f_default f = SContent -> eval_formatter params f a = Ok a' -> a' = a.
Proof.
  intros params f a a' Hr Hd Hf. unfold eval_formatter in Hf. rewrite Hr, Hd in Hf.
  injection Hf as <-. reflexivity.
Qed.

(* ------------------------------------------------------------------ G3: integers print as digits *)
Lemma mod10_digit : forall n : N, is_ascii_digit (48 + n mod 10) = true.
Proof.
  intro n. assert (Hlt : (n mod 10 < 10)%N) by (apply N.mod_lt; discriminate).
  generalize dependent (n mod 10)%N. intros d Hlt.
  unfold is_ascii_digit. apply andb_true_iff. split; apply N.leb_le; lia.
Qed.

Lemma pos_digits_fuel_digits : forall fuel n acc,
  forallb is_ascii_digit acc = true ->
  forallb is_ascii_digit (pos_digits_fuel fuel n acc) = true.
Proof.
  induction fuel as [|f IH]; intros n acc Hacc; cbn [pos_digits_fuel]; [exact Hacc|].
  assert (Hacc' : forallb is_ascii_digit ((48 + n mod 10)%N :: acc) = true).
  { cbn [forallb]. rewrite mod10_digit, Hacc. reflexivity. }
  destruct (n / 10 =? 0)%N; [exact Hacc'|]. apply IH. exact Hacc'.
Qed.

Lemma pos_digits_fuel_nonempty : forall fuel n acc,
  acc <> [] -> pos_digits_fuel fuel n acc <> [].
Proof.
  induction fuel as [|f IH]; intros n acc Hacc; cbn [pos_digits_fuel]; [exact Hacc|].
  destruct (n / 10 =? 0)%N; [discriminate|]. apply IH. discriminate.
Qed.

Lemma N_to_str_digits : forall n, forallb is_ascii_digit (N_to_str n) = true /\ N_to_str n <> [].
Proof.
  intro n. unfold N_to_str. split.
  - apply pos_digits_fuel_digits. reflexivity.
  - cbn [pos_digits_fuel]. destruct (n / 10 =? 0)%N; [discriminate|].
    apply pos_digits_fuel_nonempty. discriminate.
Qed.

Lemma Z_to_str_digits : forall z, (0 <= z)%Z ->
  forallb is_ascii_digit (Z_to_str z) = true /\ Z_to_str z <> [].
Proof.
  intros [|p|p] Hz.
  - split; [reflexivity|discriminate].
  - cbn [Z_to_str]. apply N_to_str_digits.
  - lia.
Qed.

Lemma digit_string_intro : forall s, forallb is_ascii_digit s = true -> s <> [] -> digit_string s = true.
Proof.
  intros s Hall Hne. unfold digit_string. rewrite Hall.
  destruct s as [|c r]; [contradiction Hne; reflexivity|]. reflexivity.
Qed.

Lemma Z_to_str_digit_string : forall z, (0 <= z)%Z -> digit_string (Z_to_str z) = true.
Proof.
  intros z Hz. destruct (Z_to_str_digits z Hz) as [Hall Hne]. apply digit_string_intro; assumption.
Qed.

(* any integer prints as an integer literal (what DEFAULT_DELAY emits) *)
Lemma Z_to_str_int_literal : forall z, int_literal (Z_to_str z) = true.
Proof.
  intros [|p|p].
  - reflexivity.
  - assert (H : digit_string (Z_to_str (Zpos p)) = true) by (apply Z_to_str_digit_string; lia).
    unfold int_literal. destruct (Z_to_str (Z.pos p)) as [|c r] eqn:E; [discriminate H|].
    destruct (c =? 45)%N eqn:Ec; [|exact H].
    apply N.eqb_eq in Ec. subst c.
    unfold digit_string in H. cbn [forallb] in H.
    assert (Hd : is_ascii_digit 45 = false) by reflexivity. rewrite Hd in H. discriminate.
  - cbn [Z_to_str int_literal]. rewrite N.eqb_refl.
    destruct (N_to_str_digits (Npos p)) as [Hall Hne]. apply digit_string_intro; assumption.
Qed.

(* ------------------------------------------------------------------ the ten classes together *)
(* every one of the ten names denotes a simple command class of the generated palette *)
Lemma class_found : forall c, exists sc, find_class (class_name c) = Some sc.
Proof. intros []; eexists; vm_compute; reflexivity. Qed.

(* the model hands the validator only contents of the class's type *)
Lemma typed_content_typed : forall c sc, find_class (class_name c) = Some sc ->
  forall fo (v : value fo) a, typed_content fo (s_arg_type sc) v = Ok (Some a) -> typed c a.
Proof.
  intros c sc Hsc fo v a Ht.
  destruct c; cbn [class_name] in Hsc; open_class Hsc; cbn [s_arg_type] in Ht;
    unfold typed_content in Ht; cbn [typed is_str is_int];
    try (destruct (py_str fo v) as [s|]; [injection Ht as <-; exact I | discriminate]);
    destruct v; try discriminate; injection Ht as <-; exact I.
Qed.

(* G1, all classes but DefaultDelay *)
Theorem validator_strict : forall c, c <> SDefaultDelay ->
  forall sc, find_class (class_name c) = Some sc ->
  forall a, typed c a ->
  eval_validator (s_params sc) (s_verify_arg sc) a = Ok true -> legal_arg c a = true.
Proof.
  intros c Hc sc Hsc a Ht Hv. destruct c; cbn [class_name typed] in *.
  - exact (alt_strict sc Hsc a Ht Hv).
  - exact (ctrl_strict sc Hsc a Ht Hv).
  - exact (shift_strict sc Hsc a Ht Hv).
  - exact (gui_strict sc Hsc a Ht Hv).
  - exact (sysrq_strict sc Hsc a Ht Hv).
  - exact (flipmod_strict sc Hsc a Ht Hv).
  - exact (delay_strict sc Hsc a Ht Hv).
  - exact (default_delay_strict sc Hsc a Ht Hv).
  - exact (altchar_strict sc Hsc a Ht Hv).
  - exact (whitespace_strict sc Hsc a Ht Hv).
Qed.

(* the eight classes whose formatter is the identity of the base class *)
Lemma other_format : forall c, c <> SAlt -> c <> SCtrl ->
  forall sc, find_class (class_name c) = Some sc ->
  forall a a', eval_formatter (s_params sc) (s_format_arg sc) a = Ok a' -> a' = a.
Proof.
  intros c Ha Hc sc Hsc a a' Hf.
  destruct c; try (contradiction Ha; reflexivity); try (contradiction Hc; reflexivity);
    cbn [class_name] in Hsc; open_class Hsc;
    refine (id_format _ _ _ _ _ _ Hf); reflexivity.
Qed.

(* G2, all ten classes: formatting keeps an argument inside the grammar *)
Theorem formatter_legal : forall c sc, find_class (class_name c) = Some sc ->
  forall a a', typed c a ->
  eval_formatter (s_params sc) (s_format_arg sc) a = Ok a' ->
  legal_arg c a = true -> legal_arg c a' = true.
Proof.
  intros c sc Hsc a a' Ht Hf Hl.
  assert (Hcases : c = SAlt \/ c = SCtrl \/ (c <> SAlt /\ c <> SCtrl)).
  { destruct c; auto; right; right; split; discriminate. }
  destruct Hcases as [->|[->|[Hna Hnc]]].
  - exact (alt_format sc Hsc a a' Ht Hf Hl).
  - exact (ctrl_format sc Hsc a a' Ht Hf Hl).
  - rewrite (other_format c Hna Hnc sc Hsc a a' Hf). exact Hl.
Qed.

(* G4: the line emitted for a validated, formatted argument *)
Theorem emitted_line_legal : forall c, c <> SDefaultDelay ->
  forall sc, find_class (class_name c) = Some sc ->
  forall name a a' n orig, typed c a ->
  eval_validator (s_params sc) (s_verify_arg sc) a = Ok true ->
  eval_formatter (s_params sc) (s_format_arg sc) a = Ok a' ->
  name_line name (Some (mkLine a' n orig)) = upper name ++ [32%N] ++ content_text a'
  /\ legal_arg c a' = true.
Proof.
  intros c Hc sc Hsc name a a' n orig Ht Hv Hf. split; [reflexivity|].
  apply (formatter_legal c sc Hsc a a' Ht Hf).
  exact (validator_strict c Hc sc Hsc a Ht Hv).
Qed.

(* DELAY: the text after the command word is a non-empty run of ASCII digits *)
Theorem delay_line_digits : forall sc, find_class n_Delay = Some sc ->
  forall name a a' n orig, is_int a ->
  eval_validator (s_params sc) (s_verify_arg sc) a = Ok true ->
  eval_formatter (s_params sc) (s_format_arg sc) a = Ok a' ->
  exists d, name_line name (Some (mkLine a' n orig)) = upper name ++ [32%N] ++ d
            /\ digit_string d = true.
Proof.
  intros sc Hsc name a a' n orig Ht Hv Hf.
  destruct (emitted_line_legal SDelay ltac:(discriminate) sc Hsc name a a' n orig Ht Hv Hf)
    as [Hline Hl].
  exists (content_text a'). split; [exact Hline|].
  destruct a' as [s|z]; cbn [legal_arg] in Hl; [discriminate|].
  cbn [content_text]. apply Z_to_str_digit_string. apply Z.leb_le. exact Hl.
Qed.

(* DEFAULT_DELAY: like DELAY, the text after the command word is a non-empty run of ASCII digits *)
Theorem default_delay_line_digits : forall sc, find_class n_DefaultDelay = Some sc ->
  forall name a a' n orig, is_int a ->
  eval_validator (s_params sc) (s_verify_arg sc) a = Ok true ->
  eval_formatter (s_params sc) (s_format_arg sc) a = Ok a' ->
  exists d, name_line name (Some (mkLine a' n orig)) = upper name ++ [32%N] ++ d
            /\ digit_string d = true.
Proof.
  intros sc Hsc name a a' n orig Ht Hv Hf.
  rewrite (other_format SDefaultDelay ltac:(discriminate) ltac:(discriminate) sc Hsc a a' Hf).
  pose proof (default_delay_strict sc Hsc a Ht Hv) as Hl.
  exists (content_text a). split; [reflexivity|].
  destruct a as [s|z]; [contradiction|]. cbn [legal_arg] in Hl.
  cbn [content_text]. apply Z_to_str_digit_string. apply Z.leb_le. exact Hl.
Qed.
(* ------------------------------------------------------------------ converse: nothing legal is refused *)
Lemma one_char_zlen : forall s : str, one_char s = true -> Z.eqb (zlen s) 1 = true.
Proof.
  intros s H. unfold one_char in H. apply Nat.eqb_eq in H. unfold zlen. apply Z.eqb_eq. lia.
Qed.

Lemma ascii_digits_isdigit : forall s, forallb is_ascii_digit s = true ->
  forallb isdigit_c s = true /\ forallb (fun c => (c <? 128)%N) s = true.
Proof.
  induction s as [|c s IH]; intro H; [split; reflexivity|].
  cbn [forallb] in *. apply andb_true_iff in H. destruct H as [Hc Hs].
  destruct (IH Hs) as [IH1 IH2].
  assert (Hlt : (c < 128)%N).
  { unfold is_ascii_digit in Hc. apply andb_true_iff in Hc. destruct Hc as [_ Hc].
    apply N.leb_le in Hc. lia. }
  rewrite (isdigit_ascii c Hlt), Hc, IH1, IH2.
  assert (Hb : (c <? 128)%N = true) by (apply N.ltb_lt; exact Hlt). rewrite Hb.
  split; reflexivity.
Qed.

Theorem validator_complete : forall c sc, find_class (class_name c) = Some sc ->
  forall a, typed c a -> legal_arg c a = true ->
  eval_validator (s_params sc) (s_verify_arg sc) a = Ok true.
Proof.
  intros c sc Hsc a Ht Hl.
  destruct c; cbn [class_name typed] in *.
  - rewrite (alt_params sc Hsc). open_class Hsc. destruct a as [s|z]; [|contradiction].
    unfold eval_validator.
    cbn [s_params s_verify_arg v_rules v_default eval_validator_rules eval_bexpr eval_sexpr bind].
    cbn [legal_arg] in Hl. unfold key_name in Hl.
    destruct (str_in (upper s) alt_keys); [reflexivity|].
    rewrite orb_false_r in Hl. cbn [cmp_eval]. rewrite (one_char_zlen s Hl). reflexivity.
  - rewrite (ctrl_params sc Hsc). open_class Hsc. destruct a as [s|z]; [|contradiction].
    unfold eval_validator.
    cbn [s_params s_verify_arg v_rules v_default eval_validator_rules eval_bexpr eval_sexpr bind].
    cbn [legal_arg] in Hl. unfold key_name in Hl.
    destruct (str_in (upper s) ctrl_keys); [reflexivity|].
    rewrite orb_false_r in Hl. cbn [cmp_eval]. rewrite (one_char_zlen s Hl). reflexivity.
  - rewrite (shift_params sc Hsc). open_class Hsc. destruct a as [s|z]; [|contradiction].
    unfold eval_validator.
    cbn [s_params s_verify_arg v_rules v_default eval_validator_rules eval_bexpr eval_sexpr bind].
    cbn [legal_arg] in Hl. unfold key_name in Hl. rewrite Hl. reflexivity.
  - open_class Hsc. destruct a as [s|z]; [|contradiction].
    unfold eval_validator.
    cbn [s_params s_verify_arg v_rules v_default eval_validator_rules eval_bexpr eval_sexpr bind].
    cbn [legal_arg] in Hl. cbn [cmp_eval]. rewrite (one_char_zlen s Hl). reflexivity.
  - open_class Hsc. destruct a as [s|z]; [|contradiction].
    unfold eval_validator.
    cbn [s_params s_verify_arg v_rules v_default eval_validator_rules eval_bexpr eval_sexpr bind].
    cbn [legal_arg] in Hl. cbn [cmp_eval]. rewrite (one_char_zlen s Hl). reflexivity.
  - open_class Hsc. destruct a as [s|z]; [|contradiction].
    unfold eval_validator.
    cbn [s_params s_verify_arg v_rules v_default eval_validator_rules eval_bexpr eval_sexpr bind].
    cbn [legal_arg] in Hl. cbn [cmp_eval]. rewrite (one_char_zlen s Hl). reflexivity.
  - open_class Hsc. destruct a as [s|z]; [contradiction|].
    unfold eval_validator.
    cbn [s_params s_verify_arg v_rules v_default eval_validator_rules eval_bexpr eval_sexpr bind].
    cbn [legal_arg] in Hl. cbn [cmp_eval]. apply Z.leb_le in Hl.
    assert (H0 : (z <? 0)%Z = false) by (apply Z.ltb_ge; exact Hl). rewrite H0. reflexivity.
  - open_class Hsc. destruct a as [s|z]; [contradiction|].
    unfold eval_validator.
    cbn [s_params s_verify_arg v_rules v_default eval_validator_rules eval_bexpr eval_sexpr bind].
    cbn [legal_arg] in Hl. cbn [cmp_eval]. apply Z.leb_le in Hl.
    assert (H0 : (z <? 0)%Z = false) by (apply Z.ltb_ge; exact Hl). rewrite H0. reflexivity.
  - open_class Hsc. destruct a as [s|z]; [|contradiction].
    unfold eval_validator.
    cbn [s_params s_verify_arg v_rules v_default eval_validator_rules eval_bexpr eval_sexpr bind].
    cbn [legal_arg] in Hl. unfold altchar_code in Hl. cbv zeta in Hl.
    apply andb_true_iff in Hl. destruct Hl as [Hl H4].
    apply andb_true_iff in Hl. destruct Hl as [Hall Hne].
    destruct (ascii_digits_isdigit (strip s) Hall) as [Hd Ha].
    assert (Hds : isdigit_s (strip s) = true).
    { unfold isdigit_s, all_c. destruct (strip s) as [|c r]; [discriminate Hne|exact Hd]. }
    assert (Has : isascii_s (strip s) = true) by exact Ha.
    rewrite Hds, Has. cbn [bind cmp_eval]. apply Nat.leb_le in H4.
    assert (H4z : (zlen (strip s) <=? 4)%Z = true) by (unfold zlen; apply Z.leb_le; lia).
    rewrite H4z. reflexivity.
  - open_class Hsc. destruct a as [s|z]; [contradiction|].
    unfold eval_validator.
    cbn [s_params s_verify_arg v_rules v_default eval_validator_rules eval_bexpr eval_sexpr bind].
    cbn [legal_arg] in Hl. apply andb_true_iff in Hl. destruct Hl as [H0 H100].
    cbn [cmp_eval]. apply Z.leb_le in H0.
    assert (H1 : (-1 <? z)%Z = true) by (apply Z.ltb_lt; lia).
    rewrite H1. cbn [bind]. rewrite H100. reflexivity.
Qed.
