(* The interpreter implements the reference semantics WITH FUNCTIONS of Spec/CoreFunc.v.

   Simulation relation RR g Fs f vs s: the interpreter state s has glob g, system variables sys,
   user variables EXACTLY the store vs, temp table = the flag f, and a function table F that
   REPRESENTS the spec table Fs: same names in the same order, same parameter lists, and the code
   of each function is the concrete form (at some line number) of its body.
   Main lemma (refine_all): by mutual induction on the derivation, whose DEPTH index bounds the
   number of stacks (blocks and calls) the run needs above the current one. *)
From Coq Require Import NArith ZArith List Bool Lia.
From DS Require Import Base PyStr Values Expr TabParse Tables Constants Interp IdentSpec IdentProofs.
From DS Require Import ScopeProofs LimitProofs ChainProofs LoopUnroll LoopBlock.
From DS Require Import PipelineProofs GroupProofs DollarForm NameChecks UnknownWarn RunProofs FuncProofs.
From DS Require Import CoreLang CoreWf CoreLines CoreRefine CoreFunc CoreFuncLines.
Import ListNotations.

Arguments IOk {A}. Arguments IErr {A}. Arguments ICrash {A}. Arguments IUnmod {A}.
Arguments s_g {fo}. Arguments s_env {fo}. Arguments s_line2 {fo}. Arguments mkSt {fo}.

(* ================================================================== the function tables *)
Definition entry_rel (se : str * fdef) (ie : str * func) : Prop :=
  fst se = fst ie /\ fn_args (snd ie) = fst (snd se) /\
  exists n, fn_code (snd ie) = fitems_from n (snd (snd se)).

Definition entry_wf (se : str * fdef) : Prop := snd (snd se) <> [] /\ fwf_list (snd (snd se)).

Definition tab_rel (Fs : ftable) (F : list (str * func)) : Prop :=
  Forall2 entry_rel Fs F /\ Forall entry_wf Fs /\ nodup_keys F.

Lemma tab_rel_nil : tab_rel [] [].
Proof. split; [constructor|]. split; constructor. Qed.

Lemma tab_rel_lookup : forall Fs F x ps body,
  tab_rel Fs F -> lookup x Fs = Some (ps, body) ->
  exists fn, lookup x F = Some fn /\ fn_args fn = ps /\ (exists n, fn_code fn = fitems_from n body) /\
             body <> [] /\ fwf_list body.
Proof.
  intros Fs F x ps body (H2 & Hwf & _) Hl. induction H2 as [|[y d] [y' fn] Fs F Hrel H2 IH]; [discriminate|].
  inversion Hwf as [|? ? Hw Hwf']; subst. destruct Hrel as (Hk & Ha & Hc). cbn [fst snd] in Hk, Ha, Hc. subst y'.
  cbn [lookup] in Hl |- *. destruct (str_eqb x y).
  - injection Hl as ->. exists fn. split; [reflexivity|]. split; [exact Ha|]. split; [exact Hc|]. exact Hw.
  - apply IH; assumption.
Qed.

Lemma tab_rel_lookup_none : forall Fs F x, tab_rel Fs F -> lookup x Fs = None -> lookup x F = None.
Proof.
  intros Fs F x (H2 & _ & _) Hl. induction H2 as [|[y d] [y' fn] Fs F Hrel H2 IH]; [reflexivity|].
  destruct Hrel as (Hk & _). cbn [fst] in Hk. subst y'.
  cbn [lookup] in Hl |- *. destruct (str_eqb x y); [discriminate|]. apply IH. exact Hl.
Qed.

Lemma tab_rel_set : forall Fs F x d fn,
  tab_rel Fs F -> entry_rel (x, d) (x, fn) -> entry_wf (x, d) ->
  tab_rel (set_fun x d Fs) (upd x fn F).
Proof.
  intros Fs F x d fn (H2 & Hwf & Hnd) Hrel Hw. split; [|split].
  - clear Hwf Hnd. induction H2 as [|[y dy] [y' fy] Fs F Hr H2 IH].
    + cbn. constructor; [exact Hrel|constructor].
    + pose proof Hr as (Hk & _). cbn [fst] in Hk. subst y'. cbn [set_fun upd].
      destruct (str_eqb x y); constructor; assumption.
  - clear H2 Hnd. induction Hwf as [|[y dy] Fs Hy Hwf IH].
    + cbn. constructor; [exact Hw|constructor].
    + cbn [set_fun]. destruct (str_eqb x y); constructor; assumption.
  - apply nodup_keys_upd. exact Hnd.
Qed.

Lemma tab_rel_names : forall Fs F, tab_rel Fs F -> map fst F = map fst Fs.
Proof.
  intros Fs F (H2 & _). induction H2 as [|[y d] [y' fn] Fs F Hrel H2 IH]; [reflexivity|].
  destruct Hrel as (Hk & _). cbn [fst] in Hk. cbn [map fst]. rewrite IH, Hk. reflexivity.
Qed.

Lemma tab_rel_meaning : forall Fs F, tab_rel Fs F ->
  map fst F = map fst Fs /\
  forall x ps body, lookup x Fs = Some (ps, body) ->
    exists fn, lookup x F = Some fn /\ fn_args fn = ps /\ (exists n, fn_code fn = fitems_from n body) /\
               body <> [] /\ fwf_list body.
Proof. intros Fs F H. split; [exact (tab_rel_names Fs F H)|]. intros x ps body. exact (tab_rel_lookup Fs F x ps body H). Qed.

(* ================================================================== the simulation relation *)
Section Refine.
Variable fo : FloatOps.
Variable sys : store fo.
Hypothesis Hsys : nodup_keys sys.

Notation value := (value fo).
Notation env := (env fo).
Notation st := (st fo).
Notation R := (CoreRefine.R fo sys).
Notation state_of := (CoreRefine.state_of fo sys).
Notation child_of := (CoreRefine.child_of fo).

Definition RR (g : glob) (Fs : ftable) (f : option bool) (vs : store fo) (s : st) : Prop :=
  exists F, R g F f vs s /\ tab_rel Fs F.

Lemma RR_eval : forall g Fs f vs s e v, RR g Fs f vs s -> eval fo sys f vs e v ->
  tokenize fo (all_vars fo (s_env s)) e = Ok v.
Proof. intros g Fs f vs s e v (F & HR & _) He. exact (eval_R fo sys g F f vs s e v HR He). Qed.

Lemma RR_with_flag : forall g Fs f vs s b, RR g Fs f vs s -> RR g Fs (Some b) vs (with_flag fo b s).
Proof. intros g Fs f vs s b (F & HR & Ht). exists F. split; [apply (R_with_flag fo sys g F f); exact HR|exact Ht]. Qed.

Lemma RR_ensure_flag : forall g Fs f vs s, RR g Fs f vs s -> RR g Fs (Some (flag_or_false f)) vs (ensure_flag fo s).
Proof. intros g Fs f vs s (F & HR & Ht). exists F. split; [apply R_ensure_flag; exact HR|exact Ht]. Qed.

Lemma RR_flag_of : forall g Fs b vs s, RR g Fs (Some b) vs s -> flag_of fo s = b.
Proof. intros g Fs b vs s (F & HR & _). exact (R_flag_of fo sys g F b vs s HR). Qed.

Lemma RR_ensure_id : forall g Fs b vs s, RR g Fs (Some b) vs s -> ensure_flag fo s = s.
Proof. intros g Fs b vs s (F & HR & _). exact (R_ensure_id fo sys g F b vs s HR). Qed.

Lemma RR_line2 : forall g Fs f vs s l2, RR g Fs f vs s -> RR g Fs f vs (mkSt (s_g s) (s_env s) l2).
Proof. intros g Fs f vs s l2 H. exact H. Qed.

Lemma RR_store_user : forall g Fs f vs s x v, RR g Fs f vs s -> RR g Fs f (set_var fo x v vs) (store_user fo x v s).
Proof. intros g Fs f vs s x v (F & HR & Ht). exists F. split; [apply R_store_user; exact HR|exact Ht]. Qed.

Lemma RR_nodup : forall g Fs f vs s, RR g Fs f vs s -> nodup_keys vs.
Proof. intros g Fs f vs s (F & HR & _). exact (R_nodup fo sys g F f vs s HR). Qed.

(* FUNC: the interpreter's table gets the record, the spec's table the definition *)
Lemma RR_define : forall g Fs f vs s x ps body n file l2,
  RR g Fs f vs s -> body <> [] -> fwf_list body ->
  RR g (set_fun x (ps, body) Fs) f vs
     (mkSt (s_g s) (define fo x (mkFunc ps (fitems_from n body) file) (s_env s)) l2).
Proof.
  intros g Fs f vs s x ps body n file l2 (F & HR & Ht) Hne Hwf.
  exists (upd x (mkFunc ps (fitems_from n body) file) F). split.
  - destruct HR as (H1 & H2 & H3 & H4 & H5 & H6). unfold CoreRefine.R, define. cbn.
    rewrite H5. repeat split; assumption.
  - apply tab_rel_set; [exact Ht| |split; assumption].
    split; [reflexivity|]. split; [reflexivity|]. exists n. reflexivity.
Qed.

(* ------------------------------------------------------------------ blocks and calls *)
Lemma entry_env_tab : forall g F f vs s, R g F f vs s -> nodup_keys F ->
  append_env fo (empty_env fo) (s_env s) = mkEnv fo sys vs [] F.
Proof.
  intros g F f vs s HR Hnd. rewrite (entry_env_R fo sys Hsys g F f vs s HR).
  rewrite (upd_all_nil_id F Hnd). reflexivity.
Qed.

(* leaving a block or a call: the caller keeps its flag and ITS function table *)
Lemma R_update_from : forall g F f vs s F1 f1 vs1 s2 l2,
  R g F f vs s -> R g F1 f1 vs1 s2 ->
  R g F f (copy_back fo vs vs1) (mkSt g (update_from_env fo (s_env s) (s_env s2)) l2).
Proof.
  intros g F f vs s F1 f1 vs1 s2 l2 (H1 & H2 & H3 & H4 & H5 & H6) (G1 & G2 & G3 & G4 & G5 & G6).
  unfold CoreRefine.R, update_from_env. cbn. rewrite H2, H3, G2, G3, (restrict_from_self sys Hsys).
  repeat split; try assumption. apply nodup_keys_restrict_from. exact H6.
Qed.

(* the round trip of one block whose body the child runs successfully; the body may have changed
   its copy of the function table (F1): that copy is dropped *)
Lemma block_runs' : forall d' cx cur code file setup pre s g F f vs inner s2 cr F1 f1 vs1,
  R g F f vs s -> nodup_keys F ->
  cmp_eval stack_limit_op (pile_len cx) (stack_limit (c_opts cx)) = false ->
  setup (mkEnv fo sys vs [] F) = Ok (mkEnv fo sys inner [] F) ->
  pre (mkEnv fo sys inner [] F) = Ok true ->
  exec_cmds fo (child_of d') (inner_cx cx cur (s_line2 s) file) code []
            (state_of g F None inner None) = (s2, IOk cr) ->
  R g F1 f1 vs1 s2 ->
  exists s', R g F f (copy_back fo vs vs1) s' /\ s_line2 s' = s_line2 s /\
    run_child_with fo (run fo d') cx cur code file false setup pre s = (s', IOk (Some cr)).
Proof.
  intros d' cx cur code file setup pre s g F f vs inner s2 cr F1 f1 vs1 HR Hnd Hlim Hsetup Hpre Hexec HR2.
  exists (mkSt g (update_from_env fo (s_env s) (s_env s2)) (s_line2 s)).
  split; [exact (R_update_from g F f vs s F1 f1 vs1 s2 _ HR HR2)|]. split; [reflexivity|].
  pose proof HR as (H1 & _). pose proof HR2 as (G1 & _).
  unfold run_child_with. rewrite Hlim, (entry_env_tab g F f vs s HR Hnd), Hsetup, Hpre.
  rewrite run_child_of. unfold run_with. unfold inner_cx, CoreRefine.state_of in Hexec. cbn [flag_var] in Hexec.
  rewrite H1, Hexec, G1. reflexivity.
Qed.

Lemma block_skipped' : forall child cx cur code file setup pre s g F f vs inner,
  R g F f vs s -> nodup_keys F ->
  cmp_eval stack_limit_op (pile_len cx) (stack_limit (c_opts cx)) = false ->
  setup (mkEnv fo sys vs [] F) = Ok (mkEnv fo sys inner [] F) ->
  pre (mkEnv fo sys inner [] F) = Ok false ->
  exists s', R g F f (copy_back fo vs inner) s' /\ s_line2 s' = s_line2 s /\
    run_child_with fo child cx cur code file false setup pre s = (s', IOk None).
Proof.
  intros child cx cur code file setup pre s g F f vs inner HR Hnd Hlim Hsetup Hpre.
  apply (block_skipped fo sys Hsys child cx cur code file setup pre s g F f vs inner HR Hlim);
    rewrite (upd_all_nil_id F Hnd); assumption.
Qed.

(* ------------------------------------------------------------------ the concrete form *)
Lemma fitems_from_cons : forall n s r,
  fitems_from n (s :: r) = fstmt_items n s ++ fitems_from (n + fsize s)%Z r.
Proof. reflexivity. Qed.

Definition farms_items (first : bool) (n : Z) (arms : list (str * list fstmt)) (els : option (list fstmt)) : list item :=
  farms_items_gen (seq_items fstmt_items fsize) (sum_sizes fsize) els first n arms.

Lemma fstmt_items_if : forall n arms els, fstmt_items n (FIf arms els) = farms_items true n arms els.
Proof. reflexivity. Qed.

Fixpoint farms_of (first : bool) (n : Z) (arms : list (str * list fstmt)) (els : option (list fstmt)) : list arm :=
  match arms with
  | [] => match els with Some b => [else_arm n (fitems_from (n + 1)%Z b)] | None => [] end
  | (c, b) :: r =>
      cond_arm (if first then AIf else AElif) c n (fitems_from (n + 1)%Z b)
      :: farms_of false (n + 1 + sum_sizes fsize b)%Z r els
  end.

Lemma farms_items_chain : forall arms first n els,
  farms_items first n arms els = chain_items (farms_of first n arms els).
Proof.
  induction arms as [|[c b] r IH]; intros first n els.
  - cbn. destruct els; reflexivity.
  - unfold farms_items in *. cbn [farms_items_gen farms_of chain_items flat_map].
    rewrite IH. destruct first; reflexivity.
Qed.

Lemma fstmt_items_head : forall s n, fstmt_items n s = [] \/ exists c m t, fstmt_items n s = Ln c m :: t.
Proof.
  intros s n. destruct s as [name text|name e|x e|arms els|c e b|c e b| | |name ps b|name args|];
    try (right; cbn; eauto; fail).
  rewrite fstmt_items_if. destruct arms as [|[c b] r].
  - destruct els; [right|left]; cbn; eauto.
  - right. cbn. eauto.
Qed.

Lemma fitems_from_head : forall p n, head_ok (fitems_from n p).
Proof.
  induction p as [|s r IH]; intro n; [exact I|].
  rewrite fitems_from_cons. destruct (fstmt_items_head s n) as [->|(c & m & t & ->)].
  - apply IH.
  - exact I.
Qed.

Lemma fwf_items_nonempty : forall s n, fwf s -> fstmt_items n s <> [].
Proof.
  intros s n H. destruct s as [name text|name e|x e|arms els|c e b|c e b| | |name ps b|name args|];
    try discriminate.
  rewrite fstmt_items_if. destruct arms as [|[c b] r]; [destruct H as [H _]; contradiction|discriminate].
Qed.

Lemma fwf_list_items_nonempty : forall p n, p <> [] -> fwf_list p -> fitems_from n p <> [].
Proof.
  intros [|s r] n Hne H; [contradiction|]. destruct H as [Hs _].
  rewrite fitems_from_cons. intro E. apply app_eq_nil in E. destruct E as [E _].
  exact (fwf_items_nonempty s n Hs E).
Qed.

Lemma farms_ok : forall arms first n els,
  all_list fwf_arm arms -> fwf_else els -> Forall arm_ok (farms_of first n arms els).
Proof.
  induction arms as [|[c b] r IH]; intros first n els Ha He.
  - cbn. destruct els as [b|]; [|constructor]. destruct He as [Hne Hwf].
    constructor; [|constructor]. apply else_arm_ok. apply fwf_list_items_nonempty; assumption.
  - destruct Ha as [(Hc & Hne & Hwf) Hr]. cbn [farms_of]. constructor.
    + apply cond_arm_ok; [destruct first; discriminate|apply expr_ok_blank; exact Hc|].
      apply fwf_list_items_nonempty; assumption.
    + apply IH; assumption.
Qed.

Lemma farms_non_if : forall arms n els, Forall non_if (farms_of false n arms els).
Proof.
  induction arms as [|[c b] r IH]; intros n els.
  - cbn. destruct els; constructor; [apply non_if_else|constructor].
  - cbn [farms_of]. constructor; [apply non_if_elif|apply IH].
Qed.

Definition sig_of (sg : fsig) : signal :=
  match sg with Normal => SNormal | Broke => SBreak | Continued => SContinue | Returned => SReturn end.

(* what Stack.run does once a statement has ended with signal sg *)
Definition continue_with (child : runner fo) (cx : ctx) (sg : fsig) (rest : list item) (acc : list oline) (s' : st)
  : st * ires cret :=
  match sg with
  | Normal => exec_cmds fo child cx rest acc s'
  | _ => (s', IOk (mkCret acc (sig_of sg)))
  end.

Lemma go_on_continue : forall child cx rest acc ol sg s',
  go_on fo child cx rest acc (mkCret ol (sig_of sg)) s' = continue_with child cx sg rest (acc ++ ol) s'.
Proof. intros. destruct sg; reflexivity. Qed.

Lemma later_evaluate : forall g Fs vsx s' rest n els,
  RR g Fs (Some true) vsx s' -> all_list fwf_arm rest ->
  Forall (fun cb : str * list fstmt => exists v', eval fo sys (Some true) vsx (fst cb) v') rest ->
  Forall (evaluates fo s') (farms_of false n rest els).
Proof.
  intros g Fs vsx s' rest. induction rest as [|[c b] r IH]; intros n els HR Hwf Hev.
  - cbn. destruct els; constructor; [|constructor]. exists true. apply evals_else_arm. reflexivity.
  - destruct Hwf as [(Hc & _) Hr]. inversion Hev as [|? ? [v' Hv] Hev']; subst. cbn [farms_of]. constructor.
    + exists (truthy fo v'). apply evals_cond_arm; [apply expr_ok_blank; exact Hc|].
      exists v'. split; [|reflexivity]. rewrite (expr_ok_strip c Hc). apply (RR_eval g Fs (Some true) vsx s'); assumption.
    + apply IH; assumption.
Qed.

(* ------------------------------------------------------------------ the statements proved by the induction *)
Definition P_exec (d0 : nat) (Fs : ftable) (f : option bool) (vs : store fo) (stm : fstmt)
           (sg : fsig) (Fs' : ftable) (f' : option bool) (vs' : store fo) (out : list str) : Prop :=
  forall d cx n rest acc s g,
    RR g Fs f vs s -> fwf stm -> fits d cx d0 -> head_ok rest ->
    exists s' ol, RR g Fs' f' vs' s' /\ map o_text ol = out /\
      exec_cmds fo (child_of d) cx (fstmt_items n stm ++ rest) acc s =
      continue_with (child_of d) cx sg rest (acc ++ ol) s'.

Definition P_list (d0 : nat) (Fs : ftable) (f : option bool) (vs : store fo) (p : list fstmt)
           (sg : fsig) (Fs' : ftable) (f' : option bool) (vs' : store fo) (out : list str) : Prop :=
  forall d cx n acc s g,
    RR g Fs f vs s -> fwf_list p -> fits d cx d0 ->
    exists s' ol, RR g Fs' f' vs' s' /\ map o_text ol = out /\
      exec_cmds fo (child_of d) cx (fitems_from n p) acc s = (s', IOk (mkCret (acc ++ ol) (sig_of sg))).

Definition P_arms (d0 : nat) (Fs : ftable) (b : bool) (vs : store fo) (arms : list (str * list fstmt))
           (els : option (list fstmt)) (sg : fsig) (taken : bool) (vs' : store fo) (out : list str) : Prop :=
  forall (first : bool) d cx n rest acc s g,
    (if first then exists f, RR g Fs f vs s /\ b = flag_or_false f /\ arms <> []
     else RR g Fs (Some false) vs s /\ b = false) ->
    all_list fwf_arm arms -> fwf_else els -> fits d cx d0 ->
    exists s' ol, RR g Fs (Some taken) vs' s' /\ map o_text ol = out /\
      exec_cmds fo (child_of d) cx (farms_items first n arms els ++ rest) acc s =
      continue_with (child_of d) cx sg rest (acc ++ ol) s'.

Definition P_repeat (d0 : nat) (Fs : ftable) (f : option bool) (c : option str) (e : str) (body : list fstmt)
           (k : Z) (vs : store fo) (sg : fsig) (vs' : store fo) (out : list str) : Prop :=
  forall d cx cur n fuel a s g,
    RR g Fs f vs s -> CoreWf.counter_ok c -> body <> [] -> fwf_list body -> fits d cx d0 ->
    (loop_max - k < Z.of_nat fuel)%Z ->
    exists s' ol, RR g Fs f vs' s' /\ map o_text ol = out /\ s_line2 s' = s_line2 s /\
      repeat_loop fo (child_of d) cx cur fuel c e (fitems_from n body) k (mkCret a SNormal) s =
      (s', IOk (mkCret (a ++ ol) (sig_of sg))).

Definition P_while (d0 : nat) (Fs : ftable) (c : option str) (e : str) (body : list fstmt)
           (k : Z) (vs : store fo) (sg : fsig) (vs' : store fo) (out : list str) : Prop :=
  forall d cx cur n fuel a s g f,
    RR g Fs f vs s -> CoreWf.counter_ok c -> body <> [] -> fwf_list body -> fits d cx d0 ->
    (loop_max - k < Z.of_nat fuel)%Z ->
    exists s' ol, RR g Fs f vs' s' /\ map o_text ol = out /\ s_line2 s' = s_line2 s /\
      while_loop fo (child_of d) cx cur fuel c e (fitems_from n body) k (mkCret a SNormal) s =
      (s', IOk (mkCret (a ++ ol) (sig_of sg))).

(* ------------------------------------------------------------------ simple statements *)
Lemma case_emit : forall d0 Fs f vs name text,
  P_exec d0 Fs f vs (FEmit name text) Normal Fs f vs [name ++ sp :: text].
Proof.
  intros d0 Fs f vs name text d cx n rest acc s g HR Hwf _ Hh. cbn [fwf] in Hwf.
  destruct (emit_line fo (child_of d) cx name text n rest acc s Hwf Hh) as [cname Heq].
  exists (at_line fo (name ++ sp :: text, n) s), [mkO (ByCommand cname) (name ++ sp :: text)].
  split; [exact HR|]. split; [reflexivity|]. exact Heq.
Qed.

Lemma case_emit_eval : forall d0 Fs f vs name e v t,
  eval fo sys f vs e v -> py_str fo v = Some t ->
  P_exec d0 Fs f vs (FEmitEval name e) Normal Fs f vs [name ++ sp :: t].
Proof.
  intros d0 Fs f vs name e v t Hv Ht d cx n rest acc s g HR Hwf _ Hh. destruct Hwf as [Hname He].
  destruct (emit_eval_line fo (child_of d) cx name e n rest acc s v t Hname He Hh
              (RR_eval g Fs f vs s e v HR Hv) Ht) as [cname Heq].
  exists (at_line fo (dollar_c :: name ++ sp :: e, n) s), [mkO (ByCommand cname) (name ++ sp :: t)].
  split; [exact HR|]. split; [reflexivity|]. exact Heq.
Qed.

Lemma case_var : forall d0 Fs f vs x e v,
  eval fo sys f vs e v -> P_exec d0 Fs f vs (FVar x e) Normal Fs f (set_var fo x v vs) [].
Proof.
  intros d0 Fs f vs x e v Hv d cx n rest acc s g HR Hwf _ Hh. destruct Hwf as [Hx He].
  exists (at_line fo (kw_VAR ++ sp :: x ++ sp :: e, n) (store_user fo x v s)), [].
  split; [exact (RR_store_user g Fs f vs s x v HR)|]. split; [reflexivity|].
  exact (var_line fo (child_of d) cx x e n rest acc s v Hx He Hh (RR_eval g Fs f vs s e v HR Hv)).
Qed.

Lemma case_break : forall d0 Fs f vs, P_exec d0 Fs f vs FBreakLoop Broke Fs f vs [].
Proof.
  intros d0 Fs f vs d cx n rest acc s g HR _ _ Hh.
  exists (at_line fo (kw_BREAKLOOP, n) s), []. split; [exact HR|]. split; [reflexivity|].
  apply signal_line; [left; split; reflexivity|exact Hh].
Qed.

Lemma case_continue : forall d0 Fs f vs, P_exec d0 Fs f vs FContinueLoop Continued Fs f vs [].
Proof.
  intros d0 Fs f vs d cx n rest acc s g HR _ _ Hh.
  exists (at_line fo (kw_CONTINUELOOP, n) s), []. split; [exact HR|]. split; [reflexivity|].
  apply signal_line; [right; split; reflexivity|exact Hh].
Qed.

Lemma case_return : forall d0 Fs f vs, P_exec d0 Fs f vs FReturn Returned Fs f vs [].
Proof.
  intros d0 Fs f vs d cx n rest acc s g HR _ _ Hh.
  exists (at_line fo (kw_RETURN, n) s), []. split; [exact HR|]. split; [reflexivity|].
  apply return_line. exact Hh.
Qed.

Lemma case_func : forall d0 Fs f vs name ps body,
  P_exec d0 Fs f vs (FFunc name ps body) Normal (set_fun name (ps, body) Fs) f vs [].
Proof.
  intros d0 Fs f vs name ps body d cx n rest acc s g HR Hwf _ _.
  destruct Hwf as (Hn & Hps & Hne & Hwf).
  exists (mkSt (s_g s) (define fo name (mkFunc ps (fitems_from (n + 1)%Z body) (c_file cx)) (s_env s)) None), [].
  split; [apply RR_define; assumption|]. split; [reflexivity|].
  rewrite app_nil_r. cbn [fstmt_items app continue_with]. fold (fitems_from (n + 1)%Z body).
  apply func_line; [exact Hn|exact Hps|]. apply fwf_list_items_nonempty; assumption.
Qed.

(* ------------------------------------------------------------------ statement lists *)
Lemma case_nil : forall d0 Fs f vs, P_list d0 Fs f vs [] Normal Fs f vs [].
Proof.
  intros d0 Fs f vs d cx n acc s g HR _ _. exists s, []. split; [exact HR|]. split; [reflexivity|].
  rewrite app_nil_r. reflexivity.
Qed.

Lemma case_cons : forall d0 Fs f vs s r F1 f1 vs1 o1 sg F2 f2 vs2 o2,
  P_exec d0 Fs f vs s Normal F1 f1 vs1 o1 -> P_list d0 F1 f1 vs1 r sg F2 f2 vs2 o2 ->
  P_list d0 Fs f vs (s :: r) sg F2 f2 vs2 (o1 ++ o2).
Proof.
  intros d0 Fs f vs stm r F1 f1 vs1 o1 sg F2 f2 vs2 o2 IH1 IH2 d cx n acc s g HR [Hwf Hwfr] Hfit.
  rewrite fitems_from_cons.
  destruct (IH1 d cx n (fitems_from (n + fsize stm)%Z r) acc s g HR Hwf Hfit (fitems_from_head r _))
    as (s1 & ol1 & HR1 & Ho1 & E1).
  destruct (IH2 d cx (n + fsize stm)%Z (acc ++ ol1) s1 g HR1 Hwfr Hfit) as (s2 & ol2 & HR2 & Ho2 & E2).
  exists s2, (ol1 ++ ol2). split; [exact HR2|]. split; [rewrite map_app, Ho1, Ho2; reflexivity|].
  rewrite E1. cbn [continue_with]. rewrite E2, app_assoc. reflexivity.
Qed.

Lemma case_stop : forall d0 Fs f vs s r sg F1 f1 vs1 o1,
  P_exec d0 Fs f vs s sg F1 f1 vs1 o1 -> sg <> Normal -> P_list d0 Fs f vs (s :: r) sg F1 f1 vs1 o1.
Proof.
  intros d0 Fs f vs stm r sg F1 f1 vs1 o1 IH1 Hsg d cx n acc s g HR [Hwf Hwfr] Hfit.
  rewrite fitems_from_cons.
  destruct (IH1 d cx n (fitems_from (n + fsize stm)%Z r) acc s g HR Hwf Hfit (fitems_from_head r _))
    as (s1 & ol1 & HR1 & Ho1 & E1).
  exists s1, ol1. split; [exact HR1|]. split; [exact Ho1|]. rewrite E1.
  destruct sg; [contradiction|reflexivity|reflexivity|reflexivity].
Qed.

(* ------------------------------------------------------------------ a body run as a block *)
Lemma body_block : forall d0 d cx cur n body file setup pre s g Fs f vs inner sg F1 f1 vs1 out,
  P_list d0 Fs None inner body sg F1 f1 vs1 out ->
  RR g Fs f vs s -> fwf_list body -> fits d cx (S d0) -> nodup_keys inner ->
  (forall F', setup (mkEnv fo sys vs [] F') = Ok (mkEnv fo sys inner [] F')) ->
  (forall F', pre (mkEnv fo sys inner [] F') = Ok true) ->
  exists s' ol, RR g Fs f (copy_back fo vs vs1) s' /\ s_line2 s' = s_line2 s /\ map o_text ol = out /\
    run_child_with fo (child_of d) cx cur (fitems_from n body) file false setup pre s =
    (s', IOk (Some (mkCret ol (sig_of sg)))).
Proof.
  intros d0 d cx cur n body file setup pre s g Fs f vs inner sg F1 f1 vs1 out IH (F & HR & Ht) Hwf Hfit Hnd Hsetup Hpre.
  destruct (fits_S d cx _ Hfit) as (d' & -> & Hlim & Hfit').
  assert (HRin : RR g Fs None inner (state_of g F None inner None)).
  { exists F. split; [apply state_of_R; exact Hnd|exact Ht]. }
  destruct (IH d' (inner_cx cx cur (s_line2 s) file) n [] (state_of g F None inner None) g HRin Hwf
               (Hfit' cur (s_line2 s) file)) as (s2 & ol & (F2 & HR2 & _) & Ho & E).
  cbn [app] in E.
  destruct (block_runs' d' cx cur (fitems_from n body) file setup pre s g F f vs inner s2
              (mkCret ol (sig_of sg)) F2 f1 vs1 HR (proj2 (proj2 Ht)) Hlim (Hsetup F) (Hpre F) E HR2)
    as (s' & HR' & Hl2 & Hrun).
  exists s', ol. split; [exists F; split; assumption|]. split; [exact Hl2|]. split; [exact Ho|]. exact Hrun.
Qed.

Lemma body_block_plain : forall d0 d cx cur n body s g Fs f vs sg F1 f1 vs1 out,
  P_list d0 Fs None vs body sg F1 f1 vs1 out ->
  RR g Fs f vs s -> fwf_list body -> fits d cx (S d0) ->
  exists s' ol, RR g Fs f (copy_back fo vs vs1) s' /\ s_line2 s' = s_line2 s /\ map o_text ol = out /\
    run_child fo (child_of d) cx cur (fitems_from n body) (c_file cx) false (fun e => Ok e) s =
    (s', IOk (mkCret ol (sig_of sg))).
Proof.
  intros d0 d cx cur n body s g Fs f vs sg F1 f1 vs1 out IH HR Hwf Hfit.
  destruct (body_block d0 d cx cur n body (c_file cx) (fun e => Ok e) (fun _ => Ok true) s g Fs f vs vs sg F1 f1 vs1 out
              IH HR Hwf Hfit (RR_nodup g Fs f vs s HR) (fun _ => eq_refl) (fun _ => eq_refl))
    as (s' & ol & HR' & Hl2 & Ho & Hrun).
  exists s', ol. split; [exact HR'|]. split; [exact Hl2|]. split; [exact Ho|].
  unfold run_child, bindM. rewrite Hrun. reflexivity.
Qed.

Lemma body_block_counter : forall d0 d cx cur n body c k s g Fs f vs sg F1 f1 vs1 out,
  P_list d0 Fs None (with_counter fo c k vs) body sg F1 f1 vs1 out ->
  RR g Fs f vs s -> CoreWf.counter_ok c -> fwf_list body -> fits d cx (S d0) ->
  exists s' ol, RR g Fs f (copy_back fo vs vs1) s' /\ s_line2 s' = s_line2 s /\ map o_text ol = out /\
    run_child fo (child_of d) cx cur (fitems_from n body) (c_file cx) false (bind_counter fo c k) s =
    (s', IOk (mkCret ol (sig_of sg))).
Proof.
  intros d0 d cx cur n body c k s g Fs f vs sg F1 f1 vs1 out IH HR Hc Hwf Hfit.
  destruct (body_block d0 d cx cur n body (c_file cx) (bind_counter fo c k) (fun _ => Ok true) s g Fs f vs
              (with_counter fo c k vs) sg F1 f1 vs1 out
              IH HR Hwf Hfit (nodup_with_counter fo c k vs (RR_nodup g Fs f vs s HR))
              (fun F' => bind_counter_entry fo sys c k vs F' Hc) (fun _ => eq_refl))
    as (s' & ol & HR' & Hl2 & Ho & Hrun).
  exists s', ol. split; [exact HR'|]. split; [exact Hl2|]. split; [exact Ho|].
  unfold run_child, bindM. rewrite Hrun. reflexivity.
Qed.

(* ------------------------------------------------------------------ REPEAT *)
Lemma goes_on_signal : forall sg, goes_on sg -> loop_signal (sig_of sg) = (SNormal, false).
Proof. intros sg [-> | ->]; reflexivity. Qed.

Lemma stops_signal : forall sg, stops sg -> loop_signal (sig_of sg) = (sig_of (loop_end sg), true).
Proof. intros sg [-> | ->]; reflexivity. Qed.

Lemma case_r_done : forall d0 Fs f c e body k vs v n,
  eval fo sys f vs e v -> count_of fo v = Some n -> (0 <= n <= loop_max)%Z -> (n <= k)%Z ->
  P_repeat d0 Fs f c e body k vs Normal vs [].
Proof.
  intros d0 Fs f c e body k vs v n Hv Hn Hrange Hk d cx cur m fuel a s g HR _ _ _ _ _.
  exists s, []. split; [exact HR|]. split; [reflexivity|]. split; [reflexivity|].
  pose proof (tokenize_count_ok fo cx cur e s v n (RR_eval g Fs f vs s e v HR Hv) Hn Hrange) as Htc.
  assert (Hlt : (k <? n)%Z = false) by (apply Z.ltb_ge; lia).
  rewrite app_nil_r.
  destruct fuel; cbn [repeat_loop]; unfold bindM at 1; rewrite Htc, Hlt; reflexivity.
Qed.

Lemma case_r_iter : forall d0 Fs f c e body k vs v n sg F1 f1 vs1 o1 sg' vs' o2,
  eval fo sys f vs e v -> count_of fo v = Some n -> (0 <= n <= loop_max)%Z -> (k < n)%Z ->
  P_list d0 Fs None (with_counter fo c k vs) body sg F1 f1 vs1 o1 -> goes_on sg ->
  P_repeat (S d0) Fs f c e body (k + 1) (copy_back fo vs vs1) sg' vs' o2 ->
  P_repeat (S d0) Fs f c e body k vs sg' vs' (o1 ++ o2).
Proof.
  intros d0 Fs f c e body k vs v n sg F1 f1 vs1 o1 sg' vs' o2 Hv Hn Hrange Hk IHb Hsg IHr
         d cx cur m fuel a s g HR Hc Hne Hwf Hfit Hfuel.
  pose proof (tokenize_count_ok fo cx cur e s v n (RR_eval g Fs f vs s e v HR Hv) Hn Hrange) as Htc.
  assert (Hlt : (k <? n)%Z = true) by (apply Z.ltb_lt; lia).
  destruct fuel as [|fuel']; [unfold loop_max in *; lia|].
  destruct (body_block_counter d0 d cx cur m body c k s g Fs f vs sg F1 f1 vs1 o1 IHb HR Hc Hwf Hfit)
    as (s1 & ol1 & HR1 & Hl1 & Ho1 & Hrun).
  destruct (IHr d cx cur m fuel' (a ++ ol1) s1 g HR1 Hc Hne Hwf Hfit ltac:(lia))
    as (s2 & ol2 & HR2 & Ho2 & Hl2 & Hloop).
  exists s2, (ol1 ++ ol2). split; [exact HR2|]. split; [rewrite map_app, Ho1, Ho2; reflexivity|].
  split; [rewrite Hl2; exact Hl1|].
  cbn [repeat_loop]. unfold bindM at 1. rewrite Htc, Hlt. unfold bindM at 1. rewrite Hrun.
  cbn [cr_sig cr_data]. rewrite (goes_on_signal sg Hsg). rewrite Hloop, app_assoc. reflexivity.
Qed.

Lemma case_r_stop : forall d0 Fs f c e body k vs v n sg F1 f1 vs1 o1,
  eval fo sys f vs e v -> count_of fo v = Some n -> (0 <= n <= loop_max)%Z -> (k < n)%Z ->
  P_list d0 Fs None (with_counter fo c k vs) body sg F1 f1 vs1 o1 -> stops sg ->
  P_repeat (S d0) Fs f c e body k vs (loop_end sg) (copy_back fo vs vs1) o1.
Proof.
  intros d0 Fs f c e body k vs v n sg F1 f1 vs1 o1 Hv Hn Hrange Hk IHb Hsg
         d cx cur m fuel a s g HR Hc Hne Hwf Hfit Hfuel.
  pose proof (tokenize_count_ok fo cx cur e s v n (RR_eval g Fs f vs s e v HR Hv) Hn Hrange) as Htc.
  assert (Hlt : (k <? n)%Z = true) by (apply Z.ltb_lt; lia).
  destruct fuel as [|fuel']; [unfold loop_max in *; lia|].
  destruct (body_block_counter d0 d cx cur m body c k s g Fs f vs sg F1 f1 vs1 o1 IHb HR Hc Hwf Hfit)
    as (s1 & ol1 & HR1 & Hl1 & Ho1 & Hrun).
  exists s1, ol1. split; [exact HR1|]. split; [exact Ho1|]. split; [exact Hl1|].
  cbn [repeat_loop]. unfold bindM at 1. rewrite Htc, Hlt. unfold bindM at 1. rewrite Hrun.
  cbn [cr_sig cr_data]. rewrite (stops_signal sg Hsg). reflexivity.
Qed.

(* ------------------------------------------------------------------ WHILE *)
Notation while_cond := (CoreRefine.while_cond fo).

Lemma case_w_done : forall d0 Fs c e body k vs v,
  (k <= loop_max)%Z -> eval fo sys None (with_counter fo c k vs) e v -> truthy fo v = false ->
  P_while (S d0) Fs c e body k vs Normal (copy_back fo vs (with_counter fo c k vs)) [].
Proof.
  intros d0 Fs c e body k vs v Hk Hv Ht d cx cur m fuel a s g f (F & HR & Htab) Hc Hne Hwf Hfit Hfuel.
  destruct fuel as [|fuel']; [lia|].
  destruct (fits_S d cx _ Hfit) as (d' & -> & Hlim & _).
  pose proof (nodup_with_counter fo c k vs (R_nodup fo sys g F f vs s HR)) as Hnd.
  destruct (block_skipped' (child_of (S d')) cx cur (fitems_from m body) (c_file cx) (bind_counter fo c k) (while_cond e)
              s g F f vs (with_counter fo c k vs) HR (proj2 (proj2 Htab)) Hlim (bind_counter_entry fo sys c k vs _ Hc))
    as (s' & HR' & Hl & Hrun).
  { rewrite (while_cond_eval fo sys e _ _ v Hnd Hv), Ht. reflexivity. }
  exists s', []. split; [exists F; split; assumption|]. split; [reflexivity|]. split; [exact Hl|].
  cbn [while_loop]. rewrite (while_limit_ok k Hk). unfold bindM at 1. fold (while_cond e). rewrite Hrun.
  rewrite app_nil_r. reflexivity.
Qed.

Lemma while_body_block : forall d0 d cx cur m body c e k s g Fs f vs v sg F1 f1 vs1 o1,
  P_list d0 Fs None (with_counter fo c k vs) body sg F1 f1 vs1 o1 ->
  eval fo sys None (with_counter fo c k vs) e v -> truthy fo v = true ->
  RR g Fs f vs s -> CoreWf.counter_ok c -> fwf_list body -> fits d cx (S d0) ->
  exists s' ol, RR g Fs f (copy_back fo vs vs1) s' /\ s_line2 s' = s_line2 s /\ map o_text ol = o1 /\
    run_child_with fo (child_of d) cx cur (fitems_from m body) (c_file cx) false (bind_counter fo c k) (while_cond e) s =
    (s', IOk (Some (mkCret ol (sig_of sg)))).
Proof.
  intros d0 d cx cur m body c e k s g Fs f vs v sg F1 f1 vs1 o1 IHb Hv Ht HR Hc Hwf Hfit.
  pose proof (nodup_with_counter fo c k vs (RR_nodup g Fs f vs s HR)) as Hnd.
  apply (body_block d0 d cx cur m body (c_file cx) (bind_counter fo c k) (while_cond e) s g Fs f vs
           (with_counter fo c k vs) sg F1 f1 vs1 o1 IHb HR Hwf Hfit Hnd (fun F' => bind_counter_entry fo sys c k vs F' Hc)).
  intro F'. rewrite (while_cond_eval fo sys e _ _ v Hnd Hv), Ht. reflexivity.
Qed.

Lemma case_w_iter : forall d0 Fs c e body k vs v sg F1 f1 vs1 o1 sg' vs' o2,
  (k <= loop_max)%Z -> eval fo sys None (with_counter fo c k vs) e v -> truthy fo v = true ->
  P_list d0 Fs None (with_counter fo c k vs) body sg F1 f1 vs1 o1 -> goes_on sg ->
  P_while (S d0) Fs c e body (k + 1) (copy_back fo vs vs1) sg' vs' o2 ->
  P_while (S d0) Fs c e body k vs sg' vs' (o1 ++ o2).
Proof.
  intros d0 Fs c e body k vs v sg F1 f1 vs1 o1 sg' vs' o2 Hk Hv Ht IHb Hsg IHw
         d cx cur m fuel a s g f HR Hc Hne Hwf Hfit Hfuel.
  destruct fuel as [|fuel']; [lia|].
  destruct (while_body_block d0 d cx cur m body c e k s g Fs f vs v sg F1 f1 vs1 o1 IHb Hv Ht HR Hc Hwf Hfit)
    as (s1 & ol1 & HR1 & Hl1 & Ho1 & Hrun).
  destruct (IHw d cx cur m fuel' (a ++ ol1) s1 g f HR1 Hc Hne Hwf Hfit ltac:(lia))
    as (s2 & ol2 & HR2 & Ho2 & Hl2 & Hloop).
  exists s2, (ol1 ++ ol2). split; [exact HR2|]. split; [rewrite map_app, Ho1, Ho2; reflexivity|].
  split; [rewrite Hl2; exact Hl1|].
  cbn [while_loop]. rewrite (while_limit_ok k Hk). unfold bindM at 1. fold (while_cond e). rewrite Hrun.
  cbn [cr_sig cr_data]. rewrite (goes_on_signal sg Hsg). rewrite Hloop, app_assoc. reflexivity.
Qed.

Lemma case_w_stop : forall d0 Fs c e body k vs v sg F1 f1 vs1 o1,
  (k <= loop_max)%Z -> eval fo sys None (with_counter fo c k vs) e v -> truthy fo v = true ->
  P_list d0 Fs None (with_counter fo c k vs) body sg F1 f1 vs1 o1 -> stops sg ->
  P_while (S d0) Fs c e body k vs (loop_end sg) (copy_back fo vs vs1) o1.
Proof.
  intros d0 Fs c e body k vs v sg F1 f1 vs1 o1 Hk Hv Ht IHb Hsg
         d cx cur m fuel a s g f HR Hc Hne Hwf Hfit Hfuel.
  destruct fuel as [|fuel']; [lia|].
  destruct (while_body_block d0 d cx cur m body c e k s g Fs f vs v sg F1 f1 vs1 o1 IHb Hv Ht HR Hc Hwf Hfit)
    as (s1 & ol1 & HR1 & Hl1 & Ho1 & Hrun).
  exists s1, ol1. split; [exact HR1|]. split; [exact Ho1|]. split; [exact Hl1|].
  cbn [while_loop]. rewrite (while_limit_ok k Hk). unfold bindM at 1. fold (while_cond e). rewrite Hrun.
  cbn [cr_sig cr_data]. rewrite (stops_signal sg Hsg). reflexivity.
Qed.

(* ------------------------------------------------------------------ the loop lines *)
Lemma case_repeat : forall d0 Fs f vs c e body sg vs' out,
  P_repeat d0 Fs f c e body 0 vs sg vs' out -> P_exec d0 Fs f vs (FRepeat c e body) sg Fs f vs' out.
Proof.
  intros d0 Fs f vs c e body sg vs' out IH d cx n rest acc s g HR Hwf Hfit Hh.
  destruct Hwf as (Hc & He & Hne & Hwf).
  destruct (loop_arg_facts c e Hc He) as (Hblank & Hstrip & Hsplit & Hcok).
  pose proof (fwf_list_items_nonempty body (n + 1)%Z Hne Hwf) as Hine.
  destruct (IH d cx (kw_REPEAT ++ sp :: loop_arg c e, n) (n + 1)%Z loop_fuel [] (clear_line2 fo s) g
               (RR_line2 g Fs f vs s None HR) Hc Hne Hwf Hfit loop_fuel_enough) as (s' & ol & HR' & Ho & _ & Hloop).
  exists s', ol. split; [exact HR'|]. split; [exact Ho|].
  etransitivity.
  { rewrite <- Hstrip in Hsplit.
    exact (repeat_line_lemma fo (child_of d) cx (loop_arg c e) n (fitems_from (n + 1)%Z body) rest acc s c e
             Hblank Hine Hsplit Hcok). }
  unfold bindM.
  match goal with |- context [repeat_loop ?a1 ?a2 ?a3 ?a4 ?a5 ?a6 ?a7 ?a8 ?a9 ?a10 ?a11] =>
    replace (repeat_loop a1 a2 a3 a4 a5 a6 a7 a8 a9 a10 a11) with (s', @IOk cret (mkCret ol (sig_of sg)))
      by (symmetry; exact Hloop) end.
  rewrite go_on_after_branch. apply go_on_continue.
Qed.

Lemma case_while : forall d0 Fs f vs c e body sg vs' out,
  P_while d0 Fs c e body 0 vs sg vs' out -> P_exec d0 Fs f vs (FWhile c e body) sg Fs f vs' out.
Proof.
  intros d0 Fs f vs c e body sg vs' out IH d cx n rest acc s g HR Hwf Hfit Hh.
  destruct Hwf as (Hc & He & Hne & Hwf).
  destruct (loop_arg_facts c e Hc He) as (Hblank & Hstrip & Hsplit & Hcok).
  pose proof (fwf_list_items_nonempty body (n + 1)%Z Hne Hwf) as Hine.
  destruct (IH d cx (kw_WHILE ++ sp :: loop_arg c e, n) (n + 1)%Z loop_fuel [] (clear_line2 fo s) g f
               (RR_line2 g Fs f vs s None HR) Hc Hne Hwf Hfit loop_fuel_enough) as (s' & ol & HR' & Ho & _ & Hloop).
  exists s', ol. split; [exact HR'|]. split; [exact Ho|].
  etransitivity.
  { rewrite <- Hstrip in Hsplit.
    exact (while_line_lemma fo (child_of d) cx (loop_arg c e) n (fitems_from (n + 1)%Z body) rest acc s c e
             Hblank Hine Hsplit). }
  unfold bindM.
  match goal with |- context [while_loop ?a1 ?a2 ?a3 ?a4 ?a5 ?a6 ?a7 ?a8 ?a9 ?a10 ?a11] =>
    replace (while_loop a1 a2 a3 a4 a5 a6 a7 a8 a9 a10 a11) with (s', @IOk cret (mkCret ol (sig_of sg)))
      by (symmetry; exact Hloop) end.
  rewrite go_on_after_branch. apply go_on_continue.
Qed.

(* ------------------------------------------------------------------ IF chains *)
(* the chosen arm: its block runs, then the rest of the chain is skipped *)
Lemma take_common : forall d0 d cx a1 n' body nl rest els tail acc sT g Fs vs sg F1 f1 vs1 out,
  a_body a1 = fitems_from n' body ->
  P_list d0 Fs None vs body sg F1 f1 vs1 out ->
  RR g Fs (Some true) vs sT -> s_line2 sT = None ->
  fwf_list body -> fits d cx (S d0) -> all_list fwf_arm rest -> fwf_else els ->
  (sg = Normal ->
   Forall (fun cb : str * list fstmt => exists v', eval fo sys (Some true) (copy_back fo vs vs1) (fst cb) v') rest) ->
  exists s' ol, RR g Fs (Some true) (copy_back fo vs vs1) s' /\ map o_text ol = out /\
    take_arm fo (child_of d) cx a1 (chain_items (farms_of false nl rest els) ++ tail) acc sT =
    continue_with (child_of d) cx sg tail (acc ++ ol) s'.
Proof.
  intros d0 d cx a1 n' body nl rest els tail acc sT g Fs vs sg F1 f1 vs1 out Hbody IHb HR Hl2 Hwfb Hfit Hwfr Hwfe Hlater.
  destruct if_family_dispatch as [bc [Hbc Hd]].
  destruct (body_block_plain d0 d cx (a_line a1, a_num a1) n' body sT g Fs (Some true) vs sg F1 f1 vs1 out IHb HR Hwfb Hfit)
    as (s' & ol & HR' & Hl' & Ho & Hrun).
  exists s', ol. split; [exact HR'|]. split; [exact Ho|].
  unfold take_arm, bindM. rewrite Hbody, Hrun. rewrite go_on_after_branch, go_on_continue.
  destruct sg; try reflexivity. cbn [continue_with].
  apply (skip_later fo (child_of d) cx bc Hbc Hd).
  - apply farms_ok; assumption.
  - apply farms_non_if.
  - exact (RR_flag_of g Fs true _ s' HR').
  - rewrite Hl'. exact Hl2.
  - apply (later_evaluate g Fs (copy_back fo vs vs1) s'); [exact HR'|exact Hwfr|]. apply Hlater. reflexivity.
Qed.

Lemma cond_evals : forall g Fs fl vs s0 k c n body v,
  RR g Fs fl vs s0 -> expr_ok c -> eval fo sys fl vs c v ->
  evals fo s0 (cond_arm k c n body) (truthy fo v).
Proof.
  intros g Fs fl vs s0 k c n body v HR Hc Hv.
  apply evals_cond_arm; [apply expr_ok_blank; exact Hc|]. exists v. split; [|reflexivity].
  rewrite (expr_ok_strip c Hc). exact (RR_eval g Fs fl vs s0 c v HR Hv).
Qed.

Lemma case_a_take : forall d0 Fs b vs c body rest els v sg F1 f1 vs1 out,
  eval fo sys (Some b) vs c v -> truthy fo v = true ->
  P_list d0 Fs None vs body sg F1 f1 vs1 out ->
  (sg = Normal ->
   Forall (fun cb : str * list fstmt => exists v', eval fo sys (Some true) (copy_back fo vs vs1) (fst cb) v') rest) ->
  P_arms (S d0) Fs b vs ((c, body) :: rest) els sg true (copy_back fo vs vs1) out.
Proof.
  intros d0 Fs b vs c body rest els v sg F1 f1 vs1 out Hv Ht IHb Hlater first d cx n tail acc s g Hfirst Hwfa Hwfe Hfit.
  destruct if_family_dispatch as [bc [Hbc Hd]].
  destruct Hwfa as [(Hc & Hbne & Hwfb) Hwfr].
  rewrite farms_items_chain. cbn [farms_of chain_items flat_map].
  fold (chain_items (farms_of false (n + 1 + sum_sizes fsize body)%Z rest els)).
  rewrite <- app_assoc.
  set (a1 := cond_arm (if first then AIf else AElif) c n (fitems_from (n + 1)%Z body)).
  set (later := farms_of false (n + 1 + sum_sizes fsize body)%Z rest els).
  assert (Hok1 : arm_ok a1).
  { apply cond_arm_ok; [destruct first; discriminate|apply expr_ok_blank; exact Hc|].
    apply fwf_list_items_nonempty; assumption. }
  assert (Hstep : exists sT, RR g Fs (Some true) vs sT /\ s_line2 sT = None /\
            exec_cmds fo (child_of d) cx (arm_items a1 ++ chain_items later ++ tail) acc s =
            take_arm fo (child_of d) cx a1 (chain_items later ++ tail) acc sT).
  { destruct first.
    - destruct Hfirst as (f0 & HR & -> & _).
      exists (with_flag fo true (clear_line2 fo s)). split; [apply (RR_with_flag g Fs f0); exact HR|]. split; [reflexivity|].
      apply (if_arm_true fo (child_of d) cx bc Hbc Hd a1 _ acc s Hok1 eq_refl).
      rewrite <- Ht. apply (cond_evals g Fs (Some (flag_or_false f0)) vs); [|exact Hc|exact Hv].
      apply RR_ensure_flag. exact HR.
    - destruct Hfirst as (HR & ->).
      exists (with_flag fo true (clear_line2 fo s)). split; [apply (RR_with_flag g Fs (Some false)); exact HR|]. split; [reflexivity|].
      unfold arm_items. cbn [app]. rewrite exec_cmds_clear by (apply arm_line_nonblank; exact Hok1).
      apply (search_take fo (child_of d) cx bc Hbc Hd [] a1 later tail acc (clear_line2 fo s)).
      + cbn [app]. constructor; [exact Hok1|]. apply farms_ok; assumption.
      + cbn [app]. constructor; [apply non_if_elif|apply farms_non_if].
      + exact (RR_flag_of g Fs false vs (clear_line2 fo s) HR).
      + exact (RR_ensure_id g Fs false vs (clear_line2 fo s) HR).
      + reflexivity.
      + constructor.
      + rewrite <- Ht. apply (cond_evals g Fs (Some false) vs); [exact HR|exact Hc|exact Hv]. }
  destruct Hstep as (sT & HRT & HlT & Hstep). rewrite Hstep.
  apply (take_common d0 d cx a1 (n + 1)%Z body _ rest els tail acc sT g Fs vs sg F1 f1 vs1 out eq_refl IHb HRT HlT Hwfb
           Hfit Hwfr Hwfe Hlater).
Qed.

Lemma case_a_skip : forall d0 Fs b vs c body rest els v sg taken vs' out,
  eval fo sys (Some b) vs c v -> truthy fo v = false ->
  P_arms d0 Fs false vs rest els sg taken vs' out ->
  P_arms d0 Fs b vs ((c, body) :: rest) els sg taken vs' out.
Proof.
  intros d0 Fs b vs c body rest els v sg taken vs' out Hv Ht IH first d cx n tail acc s g Hfirst Hwfa Hwfe Hfit.
  destruct if_family_dispatch as [bc [Hbc Hd]].
  destruct Hwfa as [(Hc & Hbne & Hwfb) Hwfr].
  rewrite farms_items_chain. cbn [farms_of chain_items flat_map].
  fold (chain_items (farms_of false (n + 1 + sum_sizes fsize body)%Z rest els)).
  rewrite <- app_assoc. rewrite <- farms_items_chain.
  set (a1 := cond_arm (if first then AIf else AElif) c n (fitems_from (n + 1)%Z body)).
  assert (Hok1 : arm_ok a1).
  { apply cond_arm_ok; [destruct first; discriminate|apply expr_ok_blank; exact Hc|].
    apply fwf_list_items_nonempty; assumption. }
  assert (Hstep : exists s1, RR g Fs (Some false) vs s1 /\
            forall T, exec_cmds fo (child_of d) cx (arm_items a1 ++ T) acc s = exec_cmds fo (child_of d) cx T acc s1).
  { destruct first.
    - destruct Hfirst as (f0 & HR & -> & _).
      exists (with_flag fo false (clear_line2 fo s)). split; [apply (RR_with_flag g Fs f0); exact HR|]. intro T.
      apply (if_arm_false fo (child_of d) cx bc Hbc Hd a1 T acc s Hok1 eq_refl).
      rewrite <- Ht. apply (cond_evals g Fs (Some (flag_or_false f0)) vs); [|exact Hc|exact Hv].
      apply RR_ensure_flag. exact HR.
    - destruct Hfirst as (HR & ->).
      exists (clear_line2 fo s). split; [exact HR|]. intro T.
      unfold arm_items. cbn [app]. rewrite exec_cmds_clear by (apply arm_line_nonblank; exact Hok1).
      apply (search_none fo (child_of d) cx bc Hbc Hd [a1] T acc (clear_line2 fo s)).
      + constructor; [exact Hok1|constructor].
      + constructor; [apply non_if_elif|constructor].
      + exact (RR_flag_of g Fs false vs (clear_line2 fo s) HR).
      + exact (RR_ensure_id g Fs false vs (clear_line2 fo s) HR).
      + reflexivity.
      + constructor; [|constructor]. rewrite <- Ht. apply (cond_evals g Fs (Some false) vs); [exact HR|exact Hc|exact Hv]. }
  destruct Hstep as (s1 & HR1 & Hstep). rewrite Hstep.
  apply (IH false d cx _ tail acc s1 g (conj HR1 eq_refl) Hwfr Hwfe Hfit).
Qed.

Lemma case_a_else : forall d0 Fs b vs body sg F1 f1 vs1 out,
  P_list d0 Fs None vs body sg F1 f1 vs1 out ->
  P_arms (S d0) Fs b vs [] (Some body) sg true (copy_back fo vs vs1) out.
Proof.
  intros d0 Fs b vs body sg F1 f1 vs1 out IHb first d cx n tail acc s g Hfirst _ Hwfe Hfit.
  destruct if_family_dispatch as [bc [Hbc Hd]].
  destruct first; [destruct Hfirst as (f0 & _ & _ & Hne); contradiction|].
  destruct Hfirst as (HR & ->). destruct Hwfe as [Hbne Hwfb].
  rewrite farms_items_chain. cbn [farms_of].
  set (a1 := else_arm n (fitems_from (n + 1)%Z body)).
  assert (Hok1 : arm_ok a1) by (apply else_arm_ok; apply fwf_list_items_nonempty; assumption).
  assert (Hstep : exec_cmds fo (child_of d) cx (chain_items [a1] ++ tail) acc s =
                  take_arm fo (child_of d) cx a1 (chain_items (farms_of false 0%Z [] None) ++ tail) acc
                           (with_flag fo true (clear_line2 fo s))).
  { cbn [chain_items flat_map arm_items app]. rewrite exec_cmds_clear by (apply arm_line_nonblank; exact Hok1).
    apply (search_take fo (child_of d) cx bc Hbc Hd [] a1 [] tail acc (clear_line2 fo s)).
    + constructor; [exact Hok1|constructor].
    + constructor; [apply non_if_else|constructor].
    + exact (RR_flag_of g Fs false vs (clear_line2 fo s) HR).
    + exact (RR_ensure_id g Fs false vs (clear_line2 fo s) HR).
    + reflexivity.
    + constructor.
    + apply evals_else_arm. reflexivity. }
  rewrite Hstep.
  apply (take_common d0 d cx a1 (n + 1)%Z body 0%Z [] None tail acc (with_flag fo true (clear_line2 fo s))
           g Fs vs sg F1 f1 vs1 out eq_refl IHb
           (RR_with_flag g Fs (Some false) vs (clear_line2 fo s) true HR) eq_refl Hwfb Hfit I I).
  intros _. constructor.
Qed.

Lemma case_a_none : forall d0 Fs b vs, P_arms d0 Fs b vs [] None Normal false vs [].
Proof.
  intros d0 Fs b vs first d cx n tail acc s g Hfirst _ _ _.
  destruct first; [destruct Hfirst as (f0 & _ & _ & Hne); contradiction|].
  destruct Hfirst as (HR & _). exists s, []. split; [exact HR|]. split; [reflexivity|].
  rewrite app_nil_r. reflexivity.
Qed.

Lemma case_if : forall d0 Fs f vs arms els sg taken vs' out,
  P_arms d0 Fs (flag_or_false f) vs arms els sg taken vs' out ->
  P_exec d0 Fs f vs (FIf arms els) sg Fs (Some taken) vs' out.
Proof.
  intros d0 Fs f vs arms els sg taken vs' out IH d cx n rest acc s g HR Hwf Hfit _.
  apply fwf_if_unfold in Hwf. destruct Hwf as (Hne & Hwfa & Hwfe).
  rewrite fstmt_items_if.
  apply (IH true d cx n rest acc s g); [|exact Hwfa|exact Hwfe|exact Hfit].
  exists f. split; [exact HR|]. split; [reflexivity|exact Hne].
Qed.

(* ------------------------------------------------------------------ RUN *)
Lemma bind_params_upd_all : forall ps vals vs, CoreFunc.bind_params fo ps vals vs = upd_all (combine ps vals) vs.
Proof. intros. unfold CoreFunc.bind_params. apply overlay_upd_all. Qed.

Lemma case_run : forall d0 Fs f vs name args vals ps body sg F1 f1 vs1 out,
  run_args fo sys f vs args vals ->
  lookup name Fs = Some (ps, body) ->
  length ps = length vals ->
  P_list d0 Fs None (CoreFunc.bind_params fo ps vals vs) body sg F1 f1 vs1 out ->
  sg = Normal \/ sg = Returned ->
  P_exec (S d0) Fs f vs (FRun name args) Normal Fs f (copy_back fo vs vs1) out.
Proof.
  intros d0 Fs f vs name args vals ps body sg F1 f1 vs1 out Hargs Hlk Hlen IHb Hsg
         d cx n rest acc s g HR Hwf Hfit Hh.
  destruct Hwf as [Hn Ha]. pose proof HR as (F & HR0 & Htab).
  destruct (fits_S d cx _ Hfit) as (d' & -> & Hlim & Hfit').
  destruct (tab_rel_lookup Fs F name ps body Htab Hlk) as (fn & Hlf & Hfa & (m & Hcode) & Hbne & Hbwf).
  set (c := kw_RUN ++ sp :: name_args name args).
  (* the arguments, evaluated in the caller *)
  assert (Hav : arg_values fo (s_env s) (args_opt args) = Ok vals).
  { destruct args as [|a0 ar].
    - cbn in Hargs. subst vals. reflexivity.
    - destruct Hargs as (v & Hv & ->). destruct Ha as [Ha|Ha]; [discriminate|].
      unfold args_opt, arg_values. rewrite (expr_ok_blank _ Ha).
      rewrite (RR_eval g Fs f vs s _ v HR Hv). reflexivity. }
  (* the callee's environment: the caller's, with the parameters assigned *)
  pose proof HR0 as (G1 & G2 & G3 & G4 & G5 & G6).
  assert (Hnd : nodup_keys (CoreFunc.bind_params fo ps vals vs)).
  { rewrite bind_params_upd_all. apply nodup_keys_upd_all. exact G6. }
  assert (Hce : callee_env fo fn vals (s_env s) = mkEnv fo sys (CoreFunc.bind_params fo ps vals vs) [] F).
  { unfold callee_env, RunProofs.bind_params. rewrite (entry_env_tab g F f vs s HR0 (proj2 (proj2 Htab))).
    cbn [e_sys e_user e_temp e_funcs]. rewrite Hfa, bind_params_upd_all. reflexivity. }
  assert (HRin : RR g Fs None (CoreFunc.bind_params fo ps vals vs) (state_of g F None (CoreFunc.bind_params fo ps vals vs) None)).
  { exists F. split; [apply state_of_R; exact Hnd|exact Htab]. }
  destruct (IHb d' (callee_ctx cx (c, n) fn (Some (c, n))) m [] _ g HRin Hbwf
               (Hfit' (c, n) (Some (c, n)) (callee_file cx fn))) as (s2 & ol & (F2 & HR2 & _) & Ho & E).
  cbn [app] in E. pose proof HR2 as (K1 & _).
  assert (Hchild : child_of (S d') (callee_ctx cx (c, n) fn (Some (c, n))) (s_g s) (callee_env fo fn vals (s_env s)) (fn_code fn)
                   = (g, IOk (mkCret ol (sig_of sg), s_env s2))).
  { cbn [CoreRefine.child_of]. rewrite run_child_of. unfold run_with. rewrite Hce, Hcode, G1.
    unfold CoreRefine.state_of in E. cbn [flag_var] in E. rewrite E, K1. reflexivity. }
  exists (mkSt g (update_from_env fo (s_env s) (s_env s2)) (Some (c, n))), ol.
  split; [exists F; split; [exact (R_update_from g F f vs s F2 f1 vs1 s2 _ HR0 HR2)|exact Htab]|].
  split; [exact Ho|].
  cbn [fstmt_items app continue_with]. fold c. rewrite <- G5 in Hlf.
  apply (run_line fo (child_of (S d')) cx name args n rest acc s vals fn g (mkCret ol (sig_of sg)) (s_env s2)
           Hn Ha Hh Hav Hlf (eq_trans (f_equal (@length str) Hfa) Hlen) Hlim Hchild).
  destruct Hsg as [-> | ->]; [left|right]; reflexivity.
Qed.

(* ------------------------------------------------------------------ the induction *)
Theorem refine_all :
  (forall d0 Fs f vs stm sg Fs' f' vs' out,
     exec fo sys d0 Fs f vs stm sg Fs' f' vs' out -> P_exec d0 Fs f vs stm sg Fs' f' vs' out) /\
  (forall d0 Fs f vs p sg Fs' f' vs' out,
     exec_list fo sys d0 Fs f vs p sg Fs' f' vs' out -> P_list d0 Fs f vs p sg Fs' f' vs' out) /\
  (forall d0 Fs b vs arms els sg taken vs' out,
     exec_arms fo sys d0 Fs b vs arms els sg taken vs' out -> P_arms d0 Fs b vs arms els sg taken vs' out) /\
  (forall d0 Fs f c e body k vs sg vs' out,
     exec_repeat fo sys d0 Fs f c e body k vs sg vs' out -> P_repeat d0 Fs f c e body k vs sg vs' out) /\
  (forall d0 Fs c e body k vs sg vs' out,
     exec_while fo sys d0 Fs c e body k vs sg vs' out -> P_while d0 Fs c e body k vs sg vs' out).
Proof.
  apply (exec_all_mind fo sys P_exec P_list P_arms P_repeat P_while).
  - intros. apply case_emit.
  - intros. eapply case_emit_eval; eassumption.
  - intros. eapply case_var; eassumption.
  - intros. eapply case_if; eassumption.
  - intros. eapply case_repeat; eassumption.
  - intros. eapply case_while; eassumption.
  - intros. apply case_break.
  - intros. apply case_continue.
  - intros. apply case_return.
  - intros. apply case_func.
  - intros. eapply case_run; eassumption.
  - intros. apply case_nil.
  - intros. eapply case_cons; eassumption.
  - intros. eapply case_stop; eassumption.
  - intros. eapply case_a_take; eassumption.
  - intros. eapply case_a_skip; eassumption.
  - intros. eapply case_a_else; eassumption.
  - intros. apply case_a_none.
  - intros. eapply case_r_done; eassumption.
  - intros. eapply case_r_iter; eassumption.
  - intros. eapply case_r_stop; eassumption.
  - intros. eapply case_w_done; eassumption.
  - intros. eapply case_w_iter; eassumption.
  - intros. eapply case_w_stop; eassumption.
Qed.

(* ------------------------------------------------------------------ Stack.run of a whole program *)
Theorem refine_exec_cmds : forall d0 Fs f vs p sg Fs' f' vs' out d cx n acc s g,
  exec_list fo sys d0 Fs f vs p sg Fs' f' vs' out ->
  fwf_list p -> fits d cx d0 -> RR g Fs f vs s ->
  exists s' ol, RR g Fs' f' vs' s' /\ map o_text ol = out /\
    exec_cmds fo (child_of d) cx (fitems_from n p) acc s = (s', IOk (mkCret (acc ++ ol) (sig_of sg))).
Proof.
  intros d0 Fs f vs p sg Fs' f' vs' out d cx n acc s g Hex Hwf Hfit HR.
  destruct refine_all as (_ & Hl & _). exact (Hl d0 Fs f vs p sg Fs' f' vs' out Hex d cx n acc s g HR Hwf Hfit).
Qed.

Theorem refine_run : forall d0 Fs vs p sg Fs' f' vs' out d cx n g F,
  exec_list fo sys d0 Fs None vs p sg Fs' f' vs' out ->
  fwf_list p -> fits d cx d0 -> nodup_keys vs -> tab_rel Fs F ->
  exists ol F', map o_text ol = out /\ tab_rel Fs' F' /\
    run fo d cx g (mkEnv fo sys vs [] F) (fitems_from n p) =
    (g, IOk (mkCret ol (sig_of sg), mkEnv fo sys vs' (flag_var fo f') F')).
Proof.
  intros d0 Fs vs p sg Fs' f' vs' out d cx n g F Hex Hwf Hfit Hnd Htab.
  assert (HR : RR g Fs None vs (state_of g F None vs None)).
  { exists F. split; [apply state_of_R; exact Hnd|exact Htab]. }
  destruct (refine_exec_cmds d0 Fs None vs p sg Fs' f' vs' out d cx n [] _ g Hex Hwf Hfit HR)
    as (s' & ol & (F' & HR' & Htab') & Ho & E).
  exists ol, F'. split; [exact Ho|]. split; [exact Htab'|].
  rewrite run_child_of. unfold run_with. unfold CoreRefine.state_of in E. cbn [flag_var app] in E. rewrite E.
  rewrite (R_state_of fo sys g F' f' vs' s' HR'). reflexivity.
Qed.

(* the call itself, as one line of a stack: rule E_Run is what RUN does *)
Theorem refine_call : forall d0 Fs f vs name args vals ps body sg F1 f1 vs1 out,
  run_args fo sys f vs args vals -> lookup name Fs = Some (ps, body) -> length ps = length vals ->
  exec_list fo sys d0 Fs None (CoreFunc.bind_params fo ps vals vs) body sg F1 f1 vs1 out ->
  sg = Normal \/ sg = Returned ->
  forall d cx n rest acc s g,
    RR g Fs f vs s -> fwf (FRun name args) -> fits d cx (S d0) -> head_ok rest ->
    exists s' ol, RR g Fs f (copy_back fo vs vs1) s' /\ map o_text ol = out /\
      exec_cmds fo (child_of d) cx (fstmt_items n (FRun name args) ++ rest) acc s =
      exec_cmds fo (child_of d) cx rest (acc ++ ol) s'.
Proof.
  intros d0 Fs f vs name args vals ps body sg F1 f1 vs1 out Ha Hl Hlen Hb Hsg.
  exact (case_run d0 Fs f vs name args vals ps body sg F1 f1 vs1 out Ha Hl Hlen
           (proj1 (proj2 refine_all) _ _ _ _ _ _ _ _ _ _ Hb) Hsg).
Qed.

(* ------------------------------------------------------------------ the errors of a call
   (C07: "wrong arity and unknown names are compile errors; BREAK/CONTINUE may not escape a
   function"): the situations for which the specification has no rule, on the interpreter *)
Lemma RR_arg_values : forall g Fs f vs s args vals,
  RR g Fs f vs s -> (args = [] \/ expr_ok (comma_list args)) -> run_args fo sys f vs args vals ->
  arg_values fo (s_env s) (args_opt args) = Ok vals.
Proof.
  intros g Fs f vs s args vals HR Ha Hargs. destruct args as [|a0 ar].
  - cbn in Hargs. subst vals. reflexivity.
  - destruct Hargs as (v & Hv & ->). destruct Ha as [Ha|Ha]; [discriminate|].
    unfold args_opt, arg_values. rewrite (expr_ok_blank _ Ha).
    rewrite (RR_eval g Fs f vs s _ v HR Hv). reflexivity.
Qed.

Theorem refine_call_unknown : forall Fs f vs name args vals,
  run_args fo sys f vs args vals -> lookup name Fs = None ->
  forall child cx n rest acc s g,
    RR g Fs f vs s -> fwf (FRun name args) -> head_ok rest ->
    exists s' t, exec_cmds fo child cx (fstmt_items n (FRun name args) ++ rest) acc s = (s', IErr EVarNonExistent t).
Proof.
  intros Fs f vs name args vals Hargs Hlk child cx n rest acc s g HR [Hn Ha] Hh.
  pose proof HR as (F & HR0 & Htab). pose proof HR0 as (_ & _ & _ & _ & G5 & _).
  pose proof (tab_rel_lookup_none Fs F name Htab Hlk) as Hlf. rewrite <- G5 in Hlf.
  do 2 eexists. cbn [fstmt_items app].
  exact (run_line_unknown fo child cx name args n rest acc s vals Hn Ha Hh (RR_arg_values g Fs f vs s args vals HR Ha Hargs) Hlf).
Qed.

Theorem refine_call_arity : forall Fs f vs name args vals ps body,
  run_args fo sys f vs args vals -> lookup name Fs = Some (ps, body) -> length ps <> length vals ->
  forall child cx n rest acc s g,
    RR g Fs f vs s -> fwf (FRun name args) -> head_ok rest ->
    exists s' t, exec_cmds fo child cx (fstmt_items n (FRun name args) ++ rest) acc s = (s', IErr EInvalidArguments t).
Proof.
  intros Fs f vs name args vals ps body Hargs Hlk Hlen child cx n rest acc s g HR [Hn Ha] Hh.
  pose proof HR as (F & HR0 & Htab). pose proof HR0 as (_ & _ & _ & _ & G5 & _).
  destruct (tab_rel_lookup Fs F name ps body Htab Hlk) as (fn & Hlf & Hfa & _). rewrite <- G5 in Hlf.
  do 2 eexists. cbn [fstmt_items app].
  apply (run_line_wrong_arity fo child cx name args n rest acc s vals fn Hn Ha Hh
           (RR_arg_values g Fs f vs s args vals HR Ha Hargs) Hlf).
  rewrite Hfa. exact Hlen.
Qed.

(* the body runs (its derivation ends with Broke or Continued), THEN the call is an error *)
Theorem refine_call_escape : forall d0 Fs f vs name args vals ps body sg F1 f1 vs1 out,
  run_args fo sys f vs args vals -> lookup name Fs = Some (ps, body) -> length ps = length vals ->
  exec_list fo sys d0 Fs None (CoreFunc.bind_params fo ps vals vs) body sg F1 f1 vs1 out ->
  sg = Broke \/ sg = Continued ->
  forall d cx n rest acc s g,
    RR g Fs f vs s -> fwf (FRun name args) -> fits d cx (S d0) -> head_ok rest ->
    exists s' t, exec_cmds fo (child_of d) cx (fstmt_items n (FRun name args) ++ rest) acc s = (s', IErr EStackReturnType t).
Proof.
  intros d0 Fs f vs name args vals ps body sg F1 f1 vs1 out Hargs Hlk Hlen Hb Hsg
         d cx n rest acc s g HR Hwf Hfit Hh.
  pose proof (proj1 (proj2 refine_all) _ _ _ _ _ _ _ _ _ _ Hb) as IHb.
  destruct Hwf as [Hn Ha]. pose proof HR as (F & HR0 & Htab).
  destruct (fits_S d cx _ Hfit) as (d' & -> & Hlim & Hfit').
  destruct (tab_rel_lookup Fs F name ps body Htab Hlk) as (fn & Hlf & Hfa & (m & Hcode) & Hbne & Hbwf).
  set (c := kw_RUN ++ sp :: name_args name args).
  pose proof (RR_arg_values g Fs f vs s args vals HR Ha Hargs) as Hav.
  pose proof HR0 as (G1 & G2 & G3 & G4 & G5 & G6).
  assert (Hnd : nodup_keys (CoreFunc.bind_params fo ps vals vs)).
  { rewrite bind_params_upd_all. apply nodup_keys_upd_all. exact G6. }
  assert (Hce : callee_env fo fn vals (s_env s) = mkEnv fo sys (CoreFunc.bind_params fo ps vals vs) [] F).
  { unfold callee_env, RunProofs.bind_params. rewrite (entry_env_tab g F f vs s HR0 (proj2 (proj2 Htab))).
    cbn [e_sys e_user e_temp e_funcs]. rewrite Hfa, bind_params_upd_all. reflexivity. }
  assert (HRin : RR g Fs None (CoreFunc.bind_params fo ps vals vs) (state_of g F None (CoreFunc.bind_params fo ps vals vs) None)).
  { exists F. split; [apply state_of_R; exact Hnd|exact Htab]. }
  destruct (IHb d' (callee_ctx cx (c, n) fn (Some (c, n))) m [] _ g HRin Hbwf
               (Hfit' (c, n) (Some (c, n)) (callee_file cx fn))) as (s2 & ol & (F2 & HR2 & _) & Ho & E).
  cbn [app] in E. pose proof HR2 as (K1 & _).
  assert (Hchild : child_of (S d') (callee_ctx cx (c, n) fn (Some (c, n))) (s_g s) (callee_env fo fn vals (s_env s)) (fn_code fn)
                   = (g, IOk (mkCret ol (sig_of sg), s_env s2))).
  { cbn [CoreRefine.child_of]. rewrite run_child_of. unfold run_with. rewrite Hce, Hcode, G1.
    unfold CoreRefine.state_of in E. cbn [flag_var] in E. rewrite E, K1. reflexivity. }
  rewrite <- G5 in Hlf. cbn [fstmt_items app]. fold c.
  destruct (run_line_escapes fo (child_of (S d')) cx name args n rest acc s vals fn g (mkCret ol (sig_of sg)) (s_env s2)
              Hn Ha Hh Hav Hlf (eq_trans (f_equal (@length str) Hfa) Hlen) Hlim Hchild) as (s' & E').
  { destruct Hsg as [-> | ->]; [left|right]; reflexivity. }
  exists s'. eexists. exact E'.
Qed.

End Refine.

(* ================================================================== Compiler.compile *)
Section Top.
Variable fo : FloatOps.

(* the warning of a stray BREAKLOOP / CONTINUELOOP that ends the program; a RETURN that ends the
   program gives none *)
Definition stray_warnings (sg : fsig) : list warning :=
  match s_sig_warning (sig_of sg) with Some w => [mkWarn w None] | None => [] end.

Lemma stray_warnings_values :
  stray_warnings Normal = [] /\ stray_warnings Returned = [] /\
  stray_warnings Broke <> [] /\ stray_warnings Continued <> [].
Proof. repeat split; discriminate. Qed.

Theorem refine_compile_items : forall o fs file p d sg Fs' f' vs' out,
  fruns fo p d sg Fs' f' vs' out -> fwf_list p -> (Z.of_nat d < stack_limit o)%Z ->
  exists ol F', map o_text ol = out /\ tab_rel Fs' F' /\
    compile_items fo o fs file (fitems_of p) =
    (mkGlob [] (stray_warnings sg),
     IOk (mkCompiled fo ol (stray_warnings sg) (mkEnv fo (initial_sys fo) vs' (flag_var fo f') F') [])).
Proof.
  intros o fs file p d sg Fs' f' vs' out Hrun Hwf Hd. unfold fruns in Hrun.
  assert (Hfit : fits (run_depth o) (mkCtx o fs [] file) d).
  { unfold fits, run_depth. cbn [c_pile c_opts length]. split; lia. }
  destruct (refine_run fo (initial_sys fo) (initial_sys_nodup fo) d [] [] p sg Fs' f' vs' out (run_depth o)
              (mkCtx o fs [] file) 1%Z (mkGlob [] []) [] Hrun Hwf Hfit) as (ol & F' & Ho & Htab & E).
  { constructor. }
  { exact tab_rel_nil. }
  exists ol, F'. split; [exact Ho|]. split; [exact Htab|].
  unfold compile_items. rewrite initial_env_eq. unfold fitems_of. rewrite E.
  unfold stray_warnings. destruct sg; reflexivity.
Qed.

End Top.
