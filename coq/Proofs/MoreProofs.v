From Coq Require Import NArith ZArith List Bool Lia.
From DS Require Import Base PyStr Values Expr TabParse Interp Cli Tables Constants ExprAst TreeProofs.
Import ListNotations.

Arguments IOk {A}. Arguments IErr {A}. Arguments ICrash {A}. Arguments IUnmod {A}.
Arguments s_g {fo}. Arguments s_env {fo}. Arguments s_line2 {fo}. Arguments mkSt {fo}.

(* ------------------------------------------------------------------ C07: comma lists of any length *)
Section Comma.
Variable fo : FloatOps.
Notation value := (value fo).
Variable rec : str -> res value.

Definition comma : str := [44]%N.

(* left-associated comma tree over already evaluated leaves *)
Fixpoint comma_tree (acc : ptree fo) (vs : list value) : ptree fo :=
  match vs with
  | [] => acc
  | v :: r => comma_tree (Node OCComma comma acc (Leaf (PVal v))) r
  end.

Definition not_list (v : value) : Prop := match v with VList _ => False | _ => True end.

Lemma normalise_list : forall l, normalise fo (VList l) = VList l.
Proof. reflexivity. Qed.

Lemma solve_comma_acc : forall vs acc xs,
  solve fo rec acc = Ok (VList xs) ->
  solve fo rec (comma_tree acc vs) = Ok (VList (xs ++ vs)).
Proof.
  induction vs as [|v r IH]; intros acc xs Hacc; cbn [comma_tree].
  - rewrite app_nil_r. exact Hacc.
  - rewrite (IH (Node OCComma comma acc (Leaf (PVal v))) (xs ++ [v])).
    + rewrite <- app_assoc. reflexivity.
    + cbn [solve]. rewrite Hacc. cbn [bind]. reflexivity.
Qed.

(* k >= 2 values separated by top-level commas evaluate to the list of the k values, in order *)
Lemma comma_list : forall v1 v2 vs,
  not_list v1 ->
  solve fo rec (comma_tree (Node OCComma comma (Leaf (PVal v1)) (Leaf (PVal v2))) vs)
  = Ok (VList (v1 :: v2 :: vs)).
Proof.
  intros v1 v2 vs Hnl.
  apply (solve_comma_acc vs _ [v1; v2]).
  cbn [solve bind]. unfold apply_op, comma_op. destruct v1; try reflexivity. contradiction.
Qed.

(* the flat token list  v1 , v2 , ... , vk  is rebuilt into exactly that tree by the precedence passes *)
Lemma comma_tree_wb : forall vs acc,
  wb fo all_rows acc -> (forall k, top_rank fo all_rows acc = Some k -> k <= 4) ->
  wb fo all_rows (comma_tree acc vs).
Proof.
  induction vs as [|v r IH]; intros acc Hwb Htop; cbn [comma_tree]; [exact Hwb|].
  apply IH.
  - cbn [wb]. exists 4. repeat split.
    + exact Hwb.
    + exact Htop.
    + intros kr Hkr. cbn in Hkr. discriminate.
  - intros k Hk. cbn in Hk. injection Hk as <-. lia.
Qed.

Lemma comma_tokens_build : forall v1 v2 vs,
  build_tree fo (flatten fo (comma_tree (Node OCComma comma (Leaf (PVal v1)) (Leaf (PVal v2))) vs))
  = Ok (comma_tree (Node OCComma comma (Leaf (PVal v1)) (Leaf (PVal v2))) vs).
Proof.
  intros v1 v2 vs. apply build_tree_correct. apply comma_tree_wb.
  - cbn [wb]. exists 4. repeat split; intros k Hk; cbn in Hk; discriminate.
  - intros k Hk. cbn in Hk. injection Hk as <-. lia.
Qed.
End Comma.

(* ------------------------------------------------------------------ C11 / C18: counted forms, PRINT *)
Section Forms.
Variable fo : FloatOps.
Variable child : runner fo.
Variable cx : ctx.
Variable cur : preline.

Lemma enter_count : forall cname sc name n num orig s,
  s_run sc = RKEnter -> (n <= count_limit)%Z ->
  run_compile fo child cx cur cname sc name (Some (mkLine (AInt n) num orig)) s =
  (s, IOk (RLines (repeat s_ENTER (Z.to_nat n)))).
Proof.
  intros cname sc name n num orig s Hr Hn. unfold run_compile. rewrite Hr. cbn.
  apply Z.leb_le in Hn. rewrite Hn. reflexivity.
Qed.

Lemma whitespace_count : forall cname sc name n num orig s,
  s_run sc = RKWhitespace -> (n <= count_limit)%Z ->
  run_compile fo child cx cur cname sc name (Some (mkLine (AInt n) num orig)) s =
  (s, IOk (RLines (repeat [] (Z.to_nat n)))).
Proof.
  intros cname sc name n num orig s Hr Hn. unfold run_compile. rewrite Hr. cbn.
  apply Z.leb_le in Hn. rewrite Hn. reflexivity.
Qed.

(* PRINT adds exactly one record (text, number of the argument line, file of the running stack),
   emits nothing, changes neither the environment nor the signal *)
Lemma print_is_side_channel : forall cname sc name a num orig s,
  s_run sc = RKPrint ->
  run_compile fo child cx cur cname sc name (Some (mkLine a num orig)) s =
  (mkSt (mkGlob (mkPrint (content_text a) num (c_file cx) :: g_prints (s_g s)) (g_warnings (s_g s))) (s_env s) (s_line2 s),
   IOk (RComp (mkCret [] SNormal))).
Proof.
  intros cname sc name a num orig s Hr. unfold run_compile. rewrite Hr. reflexivity.
Qed.

Lemma pass_is_silent : forall cname sc name arg s,
  s_run sc = RKPass -> run_compile fo child cx cur cname sc name arg s = (s, IOk RNone).
Proof. intros. unfold run_compile. rewrite H. reflexivity. Qed.

(* ---------------------------------------------------------------- C13: a re-entered file is rejected *)
Lemma start_cycle_rejected : forall cname sc name a num orig file target text s,
  s_run sc = RKStart -> c_file cx = Some file ->
  resolve_start file (content_text a) = Ok target ->
  c_fs cx target = Some text ->
  existsb (fun fr => opt_eqb path_eqb (fr_file fr) (Some target)) (here cx cur None) = true ->
  run_compile fo child cx cur cname sc name (Some (mkLine a num orig)) s =
  (s, IErr ECircular (Some (here cx cur (s_line2 s)))).
Proof.
  intros cname sc name a num orig file target text s Hr Hf Hres Hfs Hex.
  unfold run_compile. rewrite Hr, Hf. cbn [l_content]. rewrite Hres.
  unfold lift, bindM, ret. rewrite Hfs, Hex. reflexivity.
Qed.

Lemma start_missing_target : forall cname sc name a num orig file target s,
  s_run sc = RKStart -> c_file cx = Some file ->
  resolve_start file (content_text a) = Ok target ->
  c_fs cx target = None ->
  run_compile fo child cx cur cname sc name (Some (mkLine a num orig)) s =
  (s, IErr EInvalidArguments (Some (here cx cur (s_line2 s)))).
Proof.
  intros cname sc name a num orig file target s Hr Hf Hres Hfs.
  unfold run_compile. rewrite Hr, Hf. cbn [l_content]. rewrite Hres.
  unfold lift, bindM, ret. rewrite Hfs. reflexivity.
Qed.
End Forms.

(* ------------------------------------------------------------------ C12: path resolution *)
Lemma go_up_no_dot : forall rel wf fuel, match rel with 46%N :: _ => False | _ => True end -> go_up rel wf fuel = Some (rel, wf).
Proof.
  intros rel wf fuel H. destruct rel as [|c r]; [reflexivity|].
  destruct c as [|p]; [reflexivity|].
  repeat (destruct p as [p|p|]; try reflexivity). contradiction.
Qed.

(* each leading dot climbs one folder *)
Lemma go_up_dot : forall rel wf fuel, wf <> [] ->
  go_up (46%N :: rel) wf (S fuel) = go_up rel (removelast wf) fuel.
Proof. intros rel wf fuel Hwf. cbn [go_up]. destruct wf; [contradiction|reflexivity]. Qed.

(* climbing above the root is an error *)
Lemma go_up_root : forall rel fuel, go_up (46%N :: rel) [] fuel = None.
Proof. intros. cbn [go_up]. reflexivity. Qed.

Lemma resolve_trailing_or_double_dot : forall file rel rel' wf',
  go_up rel (removelast file) (S (length rel)) = Some (rel', wf') ->
  has_double 46%N rel' = true -> resolve_start file rel = Err EUnexpectedToken.
Proof. intros file rel rel' wf' Hg Hd. unfold resolve_start. rewrite Hg, Hd. reflexivity. Qed.

(* ------------------------------------------------------------------ C19: all-or-nothing output file *)
Section CliProofs.
Variable fo : FloatOps.

Lemma path_eqb_refl : forall p, path_eqb p p = true.
Proof.
  unfold path_eqb. induction p as [|c r IH]; [reflexivity|]. cbn [list_eqb].
  rewrite IH, andb_true_r. induction c as [|x c IHc]; [reflexivity|]. cbn [str_eqb]. rewrite N.eqb_refl. exact IHc.
Qed.

Lemma output_iff_success : forall fs result output fs' con,
  cli_compile fo fs result output = IOk (fs', con) ->
  (forall q, path_eqb q output = false -> fs' q = fs q) /\
  match result with
  | IOk c => fs' output = Some (join [10%N] (map o_text (out fo c))) /\ con = Reported_success
  | IErr e _ => fs' output = fs output /\ con = Reported_error e
  | _ => False
  end.
Proof.
  intros fs result output fs' con H. unfold cli_compile in H.
  destruct result as [c|e t|k|]; try discriminate; injection H as <- <-.
  - split.
    + intros q Hq. unfold write. rewrite Hq. reflexivity.
    + split; [|reflexivity]. unfold write. rewrite path_eqb_refl. reflexivity.
  - split; [reflexivity|]. split; reflexivity.
Qed.

Lemma new_refuses_existing : forall ex fs dir name y,
  ex (dir ++ [name]) = true -> cli_new ex fs dir name y = (fs, false).
Proof. intros ex fs dir name y H. unfold cli_new. destruct (forallb valid_project_char name); cbn [negb]; [rewrite H|]; reflexivity. Qed.

Lemma new_creates_hello : forall ex fs dir name y fs',
  cli_new ex fs dir name y = (fs', true) -> fs' (dir ++ [name; main_name]) = Some hello_world.
Proof.
  intros ex fs dir name y fs' H. unfold cli_new in H.
  destruct (forallb valid_project_char name); cbn [negb] in H; [|discriminate].
  destruct (ex (dir ++ [name])); [discriminate|]. injection H as <-.
  unfold write. rewrite path_eqb_refl. reflexivity.
Qed.
End CliProofs.
