(* The provenance of function records, lifted through every action of Section Stack of Interp.v
   (the scheme of StackLift.v with a state invariant instead of the glob preorder):
     - an invariant on the environment: every function record satisfies [FP],
     - a predicate [Et cur] on the trace carried by an error raised while line [cur] is current.
   The child runner is arbitrary; it has to keep the invariant and satisfy [Et] for the contexts it
   is actually called with, and RUN only calls functions that satisfy [FP]. *)
From Coq Require Import NArith ZArith List Bool Lia.
From DS Require Import Base PyStr Values Expr TabParse Tables Constants Interp ScopeProofs StackLift.
Import ListNotations.

Lemma In_upd : forall A k (v : A) l x, In x (upd k v l) -> x = (k, v) \/ In x l.
Proof.
  intros A k v l x. induction l as [|[k' v'] r IH]; cbn [upd]; intro H.
  - destruct H as [H|[]]. left. symmetry. exact H.
  - destruct (str_eqb k k').
    + destruct H as [H|H]; [left; symmetry; exact H|right; right; exact H].
    + destruct H as [H|H]; [right; left; exact H|]. destruct (IH H) as [H'|H']; [left; exact H'|right; right; exact H'].
Qed.

Lemma In_upd_all : forall A (src dst : list (str * A)) x, In x (upd_all src dst) -> In x src \/ In x dst.
Proof.
  intros A src. unfold upd_all. induction src as [|[k v] r IH]; intros dst x H; cbn [fold_left] in H.
  - right. exact H.
  - destruct (IH _ _ H) as [H'|H']; [left; right; exact H'|]. cbn [fst snd] in H'.
    apply In_upd in H'. destruct H' as [H'|H']; [left; left; symmetry; exact H'|right; exact H'].
Qed.

Lemma lookup_In_pair : forall A k (v : A) l, lookup k l = Some v -> In (k, v) l.
Proof.
  intros A k v l. induction l as [|[k' v'] r IH]; cbn [lookup]; intro H; [discriminate|].
  destruct (str_eqb k k') eqn:E.
  - apply str_eqb_eq in E. subst k'. injection H as ->. left. reflexivity.
  - right. apply IH. exact H.
Qed.

Section Lift.
Variable fo : FloatOps.
Notation M := (M fo).
Notation st := (st fo).
Notation s_env := (s_env fo).
Notation bindM := (bindM fo).
Notation ret := (ret fo).

(* the invariant: a predicate on function records *)
Variable FP : func -> Prop.
Definition funcs_ok (e : env fo) : Prop := forall name f, In (name, f) (e_funcs fo e) -> FP f.

Variable child : runner fo.
Variable cx : ctx.
Variable Et : preline -> option (list frame) -> Prop.
Hypothesis Et_here : forall cur l2, Et cur (Some (here cx cur l2)).
Hypothesis Et_none : forall cur, Et cur None.

Definition res_sat (cur : preline) {A} (r : ires A) : Prop :=
  match r with IErr _ _ t => Et cur t | _ => True end.

(* what a child stack owes: on success an environment that satisfies the invariant, on error [Et] *)
Definition child_sat (cur : preline) (r : ires (cret * env fo)) : Prop :=
  match r with IOk _ (_, e') => funcs_ok e' | IErr _ _ t => Et cur t | _ => True end.

Variable Call : preline -> option path -> list item -> Prop.

Hypothesis Hchild : forall cur l2 file g e code g' r,
  Call cur file code -> funcs_ok e ->
  child (mkCtx (c_opts cx) (c_fs cx) (here cx cur l2) file) g e code = (g', r) -> child_sat cur r.

(* the call sites: blocks, RUN (only of functions satisfying FP), START; and the definition site FUNC *)
Definition call_block (cur : preline) (cb : option (list item)) : Prop := Call cur (c_file cx) (block_of cb).
Definition call_run (cur : preline) : Prop :=
  forall f : func, FP f -> Call cur (match fn_file f with Some p => Some p | None => c_file cx end) (fn_code f).
Definition call_start (cur : preline) : Prop :=
  forall file rel target text code,
    c_file cx = Some file -> resolve_start file rel = Ok target ->
    c_fs cx target = Some text -> prepare_text text = TOk code -> Call cur (Some target) code.
Definition def_func (cb : option (list item)) : Prop :=
  forall args, FP (mkFunc args (block_of cb) (c_file cx)).

Definition sat (cur : preline) {A} (m : M A) : Prop :=
  forall s s' r, funcs_ok (s_env s) -> m s = (s', r) -> funcs_ok (s_env s') /\ res_sat cur r.

Lemma funcs_ok_entry : forall parent, funcs_ok parent -> funcs_ok (append_env fo (empty_env fo) parent).
Proof.
  intros parent H name f Hin. cbn [append_env e_funcs empty_env] in Hin. apply In_upd_all in Hin.
  destruct Hin as [Hin|[]]. exact (H name f Hin).
Qed.

Lemma funcs_ok_append : forall parent c, funcs_ok parent -> funcs_ok c -> funcs_ok (append_env fo parent c).
Proof.
  intros parent c Hp Hc name f Hin. cbn [append_env e_funcs] in Hin. apply In_upd_all in Hin.
  destruct Hin as [Hin|Hin]; [exact (Hc name f Hin)|exact (Hp name f Hin)].
Qed.

Lemma funcs_ok_update : forall parent c, funcs_ok parent -> funcs_ok (update_from_env fo parent c).
Proof. intros parent c Hp. exact Hp. Qed.

Lemma sat_ret : forall cur A (a : A), sat cur (ret a).
Proof. intros cur A a s s' r H E. injection E as <- <-. split; [exact H|exact I]. Qed.

Lemma sat_raise : forall cur A e, sat cur (@raise fo cx cur A e).
Proof. intros cur A e s s' r H E. injection E as <- <-. split; [exact H|apply Et_here]. Qed.

Lemma sat_crash : forall cur A k, sat cur (@crash fo A k).
Proof. intros cur A k s s' r H E. injection E as <- <-. split; [exact H|exact I]. Qed.

Lemma sat_unmod : forall cur A, sat cur (@unmod fo A).
Proof. intros cur A s s' r H E. injection E as <- <-. split; [exact H|exact I]. Qed.

Lemma sat_lift : forall cur A (x : res A), sat cur (lift fo cx cur x).
Proof.
  intros cur A x. destruct x; cbn [lift]; [apply sat_ret|apply sat_raise|apply sat_crash|apply sat_unmod].
Qed.

Lemma sat_bind : forall cur A B (m : M A) (f : A -> M B),
  sat cur m -> (forall a, sat cur (f a)) -> sat cur (bindM m f).
Proof.
  intros cur A B m f Hm Hf s s' r H E. unfold Interp.bindM in E.
  destruct (m s) as [s1 [a|e t|k|]] eqn:Em; destruct (Hm _ _ _ H Em) as [H1 H2].
  - exact (Hf a _ _ _ H1 E).
  - injection E as <- <-. split; assumption.
  - injection E as <- <-. split; assumption.
  - injection E as <- <-. split; assumption.
Qed.

Lemma sat_bind_ret : forall cur A B (a : A) (f : A -> M B), sat cur (f a) -> sat cur (bindM (ret a) f).
Proof. intros cur A B a f Hf s s' r H E. exact (Hf s s' r H E). Qed.

Lemma sat_bind_get : forall cur B (f : env fo -> M B),
  (forall e, funcs_ok e -> sat cur (f e)) -> sat cur (bindM (get_env fo) f).
Proof. intros cur B f Hf s s' r H E. unfold Interp.bindM, get_env in E. exact (Hf _ H _ _ _ H E). Qed.

Lemma sat_get_env : forall cur, sat cur (get_env fo).
Proof. intros cur s s' r H E. injection E as <- <-. split; [exact H|exact I]. Qed.

Lemma sat_set_env : forall cur e, funcs_ok e -> sat cur (set_env fo e).
Proof. intros cur e He s s' r H E. injection E as <- <-. split; [exact He|exact I]. Qed.

Lemma sat_set_line2 : forall cur l, sat cur (set_line2 fo l).
Proof. intros cur l s s' r H E. injection E as <- <-. split; [exact H|exact I]. Qed.

Lemma sat_mod_glob : forall cur f, sat cur (mod_glob fo f).
Proof. intros cur f s s' r H E. injection E as <- <-. split; [exact H|exact I]. Qed.

Lemma sat_warn : forall cur t, sat cur (warn fo cx cur t).
Proof. intros cur t s s' r H E. injection E as <- <-. split; [exact H|exact I]. Qed.

Lemma sat_add_plain_warning : forall cur t, sat cur (add_plain_warning fo t).
Proof. intros cur t. unfold add_plain_warning. apply sat_mod_glob. Qed.

Definition setup_ok (setup : env fo -> res (env fo)) : Prop :=
  forall e e', funcs_ok e -> setup e = Ok e' -> funcs_ok e'.

Lemma setup_ok_id : setup_ok (fun e => Ok e).
Proof. intros e e' H E. injection E as <-. exact H. Qed.

Lemma setup_ok_bind_counter : forall v count, setup_ok (bind_counter fo v count).
Proof.
  intros v count e e' H E. unfold bind_counter in E. destruct v as [v|]; [|injection E as <-; exact H].
  destruct (is_var v false); [|discriminate]. injection E as <-. exact H.
Qed.

Lemma setup_ok_run_params : forall (args : list str) (vals : list (value fo)),
  setup_ok (fun ce => Ok (mkEnv fo (e_sys fo ce)
                            (fold_left (fun u nv => upd (fst nv) (snd nv) u) (combine args vals) (e_user fo ce))
                            (e_temp fo ce) (e_funcs fo ce))).
Proof. intros args vals e e' H E. injection E as <-. exact H. Qed.

Lemma sat_run_child_with : forall cur code file parallel setup pre,
  Call cur file code -> setup_ok setup ->
  sat cur (run_child_with fo child cx cur code file parallel setup pre).
Proof.
  intros cur code file parallel setup pre HC Hsetup s s' r H E. unfold run_child_with in E.
  destruct (cmp_eval _ _ _).
  { injection E as <- <-. split; [exact H|apply Et_here]. }
  destruct (setup _) as [cenv1|e|k|] eqn:Es.
  2:{ injection E as <- <-. split; [exact H|apply Et_here]. }
  2:{ injection E as <- <-. split; [exact H|exact I]. }
  2:{ injection E as <- <-. split; [exact H|exact I]. }
  assert (H1 : funcs_ok cenv1) by (eapply Hsetup; [|exact Es]; apply funcs_ok_entry; exact H).
  destruct (pre cenv1) as [[|]|e|k|].
  2:{ injection E as <- <-. split; [|exact I]. cbn [Interp.s_env].
      destruct parallel; [apply funcs_ok_append; assumption|apply funcs_ok_update; exact H]. }
  2:{ injection E as <- <-. split; [exact H|apply Et_here]. }
  2:{ injection E as <- <-. split; [exact H|exact I]. }
  2:{ injection E as <- <-. split; [exact H|exact I]. }
  destruct (child _ _ _ _) as [g' rr] eqn:Ec. apply (Hchild _ _ _ _ _ _ _ _ HC H1) in Ec.
  destruct rr as [[cr cenv2]|e t|k|]; injection E as <- <-; cbn [Interp.s_env]; cbn [child_sat] in Ec.
  - split; [|exact I]. destruct parallel; [apply funcs_ok_append; assumption|apply funcs_ok_update; exact H].
  - split; [exact H|exact Ec].
  - split; [exact H|exact I].
  - split; [exact H|exact I].
Qed.

Lemma sat_tokenizeM : forall cur a, sat cur (tokenizeM fo cx cur a).
Proof. intros. unfold tokenizeM. apply sat_bind; [apply sat_get_env|intros e; apply sat_lift]. Qed.

Ltac sat_step :=
  first
    [ apply sat_ret | apply sat_raise | apply sat_crash | apply sat_unmod | apply sat_lift
    | apply sat_set_line2 | apply sat_warn | apply sat_mod_glob
    | apply sat_add_plain_warning | apply sat_tokenizeM
    | apply sat_set_env; assumption
    | assumption
    | apply sat_bind_get; intros ? ?
    | apply sat_bind; [|intros ?]
    | match goal with
      | |- sat _ (if ?b then _ else _) => destruct b
      | |- sat _ (match ?x with _ => _ end) => destruct x
      | |- sat _ (let '(_, _) := ?x in _) => destruct x
      end ].
Ltac sat_tac := repeat sat_step.

Lemma sat_run_child : forall cur code file parallel setup,
  Call cur file code -> setup_ok setup ->
  sat cur (run_child fo child cx cur code file parallel setup).
Proof.
  intros cur code file parallel setup HC Hs. unfold run_child.
  apply sat_bind; [apply sat_run_child_with; assumption|intros r]. sat_tac.
Qed.

Lemma sat_new_var : forall cur name v, sat cur (new_var fo cx cur name v).
Proof. intros. unfold new_var. sat_tac. Qed.

Lemma sat_listify_args : forall cur argument code_block num,
  sat cur (listify_args fo cx cur argument code_block num).
Proof. intros. unfold listify_args. sat_tac. Qed.

Lemma sat_evaluate_args : forall cur at_ args, sat cur (evaluate_args fo cx cur at_ args).
Proof.
  intros cur at_ args. induction args as [|l r IH]; cbn [evaluate_args]; sat_tac.
Qed.

Lemma sat_check_types : forall cur at_ args, sat cur (check_types fo cx cur at_ args).
Proof. intros cur at_ args. induction args as [|[l oc] r IH]; cbn [check_types]; sat_tac. Qed.

Lemma sat_verify_each : forall cur params v args, sat cur (verify_each fo cx cur params v args).
Proof. intros cur params v args. induction args as [|l r IH]; cbn [verify_each]; sat_tac. Qed.

Lemma sat_verify_plural : forall cur pv n, sat cur (verify_plural fo cx cur pv n).
Proof. intros. unfold verify_plural. sat_tac. Qed.

Lemma sat_format_each : forall cur params f args, sat cur (format_each fo cx cur params f args).
Proof. intros cur params f args. induction args as [|l r IH]; cbn [format_each]; sat_tac. Qed.

Lemma sat_check_flipper : forall cur b, sat cur (check_flipper fo cx cur b).
Proof. intros. unfold check_flipper. sat_tac. Qed.

Lemma sat_run_compile : forall cur cname sc name arg,
  (s_run sc = RKRun -> call_run cur) -> (s_run sc = RKStart -> call_start cur) ->
  sat cur (run_compile fo child cx cur cname sc name arg).
Proof.
  intros cur cname sc name arg Hrun Hstart. unfold run_compile.
  destruct (s_run sc) eqn:Ek.
  - sat_tac.
  - sat_tac.
  - sat_tac.
  - sat_tac.
  - sat_tac.
  - sat_tac.
  - sat_tac.
  - sat_tac.
  - sat_tac.
  - sat_tac.
  - (* RUN *)
    destruct arg as [l|]; [|sat_tac].
    destruct (break_arg _) as [fname var_string].
    apply sat_bind.
    { destruct var_string as [vs|]; [|sat_tac]. destruct (is_blank vs); [sat_tac|].
      apply sat_bind; [apply sat_tokenizeM|intros v]. sat_tac. }
    intros vals.
    apply sat_bind_get; intros e He.
    destruct (lookup fname (e_funcs fo e)) as [f|] eqn:El; [|sat_tac].
    assert (Hf : FP f).
    { apply lookup_In_pair in El. exact (He _ _ El). }
    destruct (negb _); [sat_tac|].
    apply sat_bind; [apply sat_run_child; [apply (Hrun eq_refl); exact Hf|apply setup_ok_run_params]|intros cr].
    sat_tac.
  - destruct arg as [l|]; [|sat_tac].
    destruct (split_ws1 _) as [|vname [|expr [|x y]]]; try solve [sat_tac].
    apply sat_bind; [apply sat_tokenizeM|intros v].
    apply sat_bind; [apply sat_new_var|intros u]. sat_tac.
  - sat_tac.
  - sat_tac.
  - (* START *)
    destruct arg as [l|]; [|sat_tac]. destruct (c_file cx) as [file|] eqn:Ecf; [|sat_tac].
    destruct (resolve_start file _) as [target|e0|k0|] eqn:Er; cbn [lift]; try solve [sat_tac].
    apply sat_bind_ret.
    destruct (c_fs cx target) as [text|] eqn:Efs; [|sat_tac].
    intros s s' r H E.
    destruct (existsb _ _); [injection E as <- <-; split; [exact H|apply Et_here]|].
    destruct (prepare_text text) as [commands|[| | | |]] eqn:Ep;
      try (injection E as <- <-; split; [exact H|first [apply Et_none|exact I]]).
    match type of E with ?m s = _ => assert (Hp : sat cur m) end; [|exact (Hp s s' r H E)].
    apply sat_bind; [apply sat_run_child; [exact (Hstart eq_refl file _ target text commands Ecf Er Efs Ep)|apply setup_ok_id]|intros cr].
    apply sat_bind; [destruct (s_sig_warning _); [apply sat_add_plain_warning|sat_tac]|intros u].
    sat_tac.
Qed.

Lemma sat_multi_comp : forall cur cname tg sc name args acc,
  (s_run sc = RKRun -> call_run cur) -> (s_run sc = RKStart -> call_start cur) ->
  sat cur (multi_comp fo child cx cur cname tg sc name args acc).
Proof.
  intros cur cname tg sc name args acc Hrun Hstart. revert acc. induction args as [|a r IH]; intro acc; cbn [multi_comp].
  - sat_tac.
  - apply sat_bind; [sat_tac|intros u].
    apply sat_bind; [apply sat_run_compile; assumption|intros c]. apply IH.
Qed.

Lemma sat_simple_compile : forall cur cname tg sc cmd num argument code_block,
  (s_run sc = RKRun -> call_run cur) -> (s_run sc = RKStart -> call_start cur) ->
  sat cur (simple_compile fo child cx cur cname tg sc cmd num argument code_block).
Proof.
  intros cur cname tg sc cmd num argument code_block Hrun Hstart. unfold simple_compile.
  apply sat_bind; [apply sat_check_flipper|intros u0].
  apply sat_bind; [apply sat_listify_args|intros args0].
  apply sat_bind.
  { destruct (_ || _); [|sat_tac].
    apply sat_bind; [apply sat_evaluate_args|intros vs].
    induction vs as [|[l v] r IH]; sat_tac. }
  intros args2.
  apply sat_bind; [sat_tac|intros u1].
  apply sat_bind; [apply sat_check_types|intros args3].
  apply sat_bind; [apply sat_verify_plural|intros u2].
  apply sat_bind; [apply sat_verify_each|intros u3].
  apply sat_bind; [apply sat_format_each|intros args4].
  apply sat_multi_comp; assumption.
Qed.

Lemma sat_tokenize_count : forall cur a, sat cur (tokenize_count fo cx cur a).
Proof.
  intros. unfold tokenize_count.
  apply sat_bind; [apply sat_tokenizeM|intros v]. sat_tac.
Qed.

Lemma sat_repeat_loop : forall cur fuel v a code count acc,
  Call cur (c_file cx) code ->
  sat cur (repeat_loop fo child cx cur fuel v a code count acc).
Proof.
  intros cur fuel. induction fuel as [|f IH]; intros v a code count acc HC; cbn [repeat_loop].
  - apply sat_bind; [apply sat_tokenize_count|intros n]. sat_tac.
  - apply sat_bind; [apply sat_tokenize_count|intros n].
    destruct (count <? n)%Z; [|sat_tac].
    apply sat_bind; [apply sat_run_child; [exact HC|apply setup_ok_bind_counter]|intros cr].
    destruct (loop_signal _) as [sg brk]. destruct brk; [sat_tac|apply IH; exact HC].
Qed.

Lemma sat_while_loop : forall cur fuel v a code count acc,
  Call cur (c_file cx) code ->
  sat cur (while_loop fo child cx cur fuel v a code count acc).
Proof.
  intros cur fuel. induction fuel as [|f IH]; intros v a code count acc HC; cbn [while_loop].
  - sat_tac.
  - destruct (cmp_eval _ _ _); [sat_tac|].
    apply sat_bind; [apply sat_run_child_with; [exact HC|apply setup_ok_bind_counter]|intros [cr|]]; [|sat_tac].
    destruct (loop_signal _) as [sg brk]. destruct brk; [sat_tac|apply IH; exact HC].
Qed.

Lemma sat_get_temp_flag : forall cur, sat cur (get_temp_flag fo).
Proof. intros. unfold get_temp_flag. sat_tac. Qed.

Lemma sat_set_temp_flag : forall cur b, sat cur (set_temp_flag fo b).
Proof. intros. unfold set_temp_flag. sat_tac. Qed.

Lemma sat_block_compile : forall cur bc cname cmd num argument code_block,
  call_block cur code_block -> (b_kind bc = BKFunc -> def_func code_block) ->
  sat cur (block_compile fo child cx cur bc cname cmd num argument code_block).
Proof.
  intros cur bc cname cmd num argument code_block HC HD. unfold call_block, block_of in HC.
  unfold def_func, block_of in HD. unfold block_compile.
  apply sat_bind; [apply sat_check_flipper|intros u0].
  apply sat_bind; [sat_tac|intros u1].
  set (arg' := if b_strip_arg bc then _ else _). clearbody arg'.
  destruct (b_kind bc).
  - apply sat_bind_get; intros e He.
    apply sat_bind; [destruct (has_key _ _); [sat_tac|apply sat_set_temp_flag]|intros u2].
    apply sat_bind; [sat_tac|intros u3].
    apply sat_bind.
    { destruct arg' as [a|]; [|sat_tac]. destruct (str_eqb _ _); [sat_tac|].
      apply sat_bind; [apply sat_tokenizeM|intros v]. sat_tac. }
    intros tok.
    apply sat_bind; [apply sat_get_temp_flag|intros flag].
    apply sat_bind.
    { destruct (str_eqb _ _); [|sat_tac]. apply sat_bind; [apply sat_set_temp_flag|intros u4]. sat_tac. }
    intros skip. destruct skip; [sat_tac|]. destruct (_ && _); [sat_tac|].
    apply sat_bind; [apply sat_set_temp_flag|intros u5].
    apply sat_bind; [apply sat_run_child; [exact HC|apply setup_ok_id]|intros cr]. sat_tac.
  - sat_tac.
  - destruct arg' as [a|]; [|sat_tac]. destruct (split_loop_arg a) as [var_name count_expr].
    destruct (match code_block with Some b => b | None => [] end) eqn:Ecode; [sat_tac|].
    destruct (match var_name with Some v => _ | None => _ end); [|sat_tac].
    apply sat_bind; [apply sat_repeat_loop; exact HC|intros cr]. sat_tac.
  - destruct arg' as [a|]; [|sat_tac]. destruct (split_loop_arg a) as [var_name cond].
    apply sat_bind; [apply sat_while_loop; exact HC|intros cr]. sat_tac.
  - (* FUNC: the record is built from the block that follows and the file of this stack *)
    destruct arg' as [a|]; [|sat_tac]. destruct (break_arg a) as [fname var_string].
    destruct (_ && _); [|sat_tac].
    apply sat_bind_get; intros e He.
    apply sat_bind; [|intros u2; sat_tac].
    apply sat_set_env. intros name f Hin. cbn [e_funcs] in Hin. apply In_upd in Hin.
    destruct Hin as [Hin|Hin]; [|exact (He name f Hin)].
    injection Hin as _ ->. apply (HD eq_refl).
Qed.

(* what the line [c] (followed by the block [cb]) may call or define, by the class that claims it *)
Definition line_calls (c : str) (n : Z) (cb : option (list item)) : Prop :=
  forall cmd more cname cl,
  split_ws1 c = cmd :: more -> find_command palette cmd cb = Some (cname, cl) ->
  match cl with
  | Block bc => call_block (c, n) cb /\ (b_kind bc = BKFunc -> def_func cb)
  | Simple sc => (s_run sc = RKRun -> call_run (c, n)) /\ (s_run sc = RKStart -> call_start (c, n))
  end.

Theorem sat_exec_line : forall c n code_block,
  line_calls c n code_block -> sat (c, n) (exec_line fo child cx c n code_block).
Proof.
  intros c n code_block HL. unfold exec_line. unfold line_calls in HL.
  destruct (split_ws1 c) as [|cmd more]; [sat_tac|].
  destruct (find_command _ _ _) as [[cname cl]|] eqn:Ef.
  - specialize (HL cmd more cname cl eq_refl Ef).
    destruct (_ && _); [sat_tac|]. destruct cl as [sc|bc].
    + destruct HL as [Hrun Hstart]. apply sat_simple_compile; assumption.
    + destruct HL as [HC HD]. apply sat_bind; [apply sat_block_compile; assumption|intros r]. sat_tac.
  - apply sat_bind; [sat_tac|intros u]. apply sat_simple_compile; cbn [generic_simple s_run]; discriminate.
Qed.

Definition cmds_calls (cmds : list item) : Prop :=
  forall c n cb, In ((c, n), cb) (line_blocks cmds) -> line_calls c n cb.

Definition res_sat_cmds (cmds : list item) {A} (r : ires A) : Prop :=
  match r with IErr _ _ t => exists cur, In cur (top_lines cmds) /\ Et cur t | _ => True end.

Lemma res_sat_cmds_mono : forall A a b (r : ires A),
  (forall cur, In cur (top_lines a) -> In cur (top_lines b)) -> res_sat_cmds a r -> res_sat_cmds b r.
Proof.
  intros A a b r Hab H. destruct r as [x|e t|k|]; try exact I.
  destruct H as (cur & Hin & Hcur). exists cur. split; [apply Hab; exact Hin|exact Hcur].
Qed.

Theorem sat_exec_cmds : forall cmds acc s s' r,
  cmds_calls cmds -> funcs_ok (s_env s) ->
  exec_cmds fo child cx cmds acc s = (s', r) -> funcs_ok (s_env s') /\ res_sat_cmds cmds r.
Proof.
  intros cmds. induction cmds as [|[c n|b] rest IH]; intros acc s s' r HC H E; cbn [exec_cmds] in E.
  - injection E as <- <-. split; [exact H|exact I].
  - assert (HCrest : cmds_calls rest).
    { intros c0 n0 cb0 Hin. apply HC. cbn [line_blocks]. apply in_or_app. right. exact Hin. }
    assert (IH' : forall acc s s' r, funcs_ok (s_env s) -> exec_cmds fo child cx rest acc s = (s', r) ->
                  funcs_ok (s_env s') /\ res_sat_cmds rest r).
    { intros acc0 s0 s0' r0 H0 E0. exact (IH acc0 s0 s0' r0 HCrest H0 E0). }
    clear IH.
    assert (Hsub : forall cur, In cur (top_lines rest) -> In cur (top_lines (Ln c n :: rest))).
    { intros cur Hin. rewrite top_lines_ln. apply in_or_app. right. exact Hin. }
    destruct (is_blank c) eqn:Eb.
    { apply IH' in E; [|exact H]. destruct E as [Hg Hr]. split; [exact Hg|]. eapply res_sat_cmds_mono; eassumption. }
    unfold Interp.bindM at 1, set_line2 at 1 in E.
    unfold Interp.bindM at 1 in E.
    destruct (exec_line _ _ _ _ _ _ _) as [s1 r1] eqn:El.
    apply sat_exec_line in El.
    2:{ apply HC. cbn [line_blocks]. rewrite Eb. left. reflexivity. }
    2:{ exact H. }
    destruct El as [Hg1 Hr1].
    destruct r1 as [cr|e t|k|].
    + assert (Htail : forall s'' r'', exec_cmds fo child cx rest (acc ++ cr_data cr) s1 = (s'', r'') ->
                funcs_ok (s_env s'') /\ res_sat_cmds (Ln c n :: rest) r'').
      { intros s'' r'' E'. apply IH' in E'; [|exact Hg1]. destruct E' as [Hg2 Hr2]. split; [exact Hg2|].
        eapply res_sat_cmds_mono; eassumption. }
      destruct (cr_sig cr); try (injection E as <- <-; split; [exact Hg1|exact I]).
      apply Htail. exact E.
    + injection E as <- <-. split; [exact Hg1|]. exists (c, n). split; [|exact Hr1].
      rewrite top_lines_ln, Eb. left. reflexivity.
    + injection E as <- <-. split; [exact Hg1|exact I].
    + injection E as <- <-. split; [exact Hg1|exact I].
  - apply IH in E; [|exact HC|exact H]. destruct E as [Hg Hr]. split; [exact Hg|].
    eapply res_sat_cmds_mono; [|exact Hr]. intros cur Hin. rewrite top_lines_blk. exact Hin.
Qed.

Theorem sat_run_with : forall g e cmds g' r,
  cmds_calls cmds -> funcs_ok e ->
  run_with fo child cx g e cmds = (g', r) ->
  match r with
  | IOk _ (_, e') => funcs_ok e'
  | IErr _ _ t => exists cur, In cur (top_lines cmds) /\ Et cur t
  | _ => True
  end.
Proof.
  intros g e cmds g' r HC He E. unfold run_with in E.
  destruct (exec_cmds _ _ _ _ _ _) as [s1 r1] eqn:Ec. apply sat_exec_cmds in Ec; [|exact HC|exact He].
  destruct Ec as [Hg Hr]. destruct r1 as [cr|er t|k|]; injection E as <- <-; try exact I; [exact Hg|exact Hr].
Qed.

End Lift.
