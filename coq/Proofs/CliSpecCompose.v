(* C19c -- CLI o REFERENCE SEMANTICS.  The `compile` command of the CLI world (Model/CliWorld.v)
   composed with the unified reference semantics (Spec/CoreAll.v success, Spec/CoreAllErr.v
   failure) through the refinement theorems (Proofs/CoreAllTop.v, CoreAllErrRefine.v) and the text
   round trip (Proofs/CoreAllTextParse.v).

   The hypothesis on the world (the weakest that lets the refinement theorems apply):
     on_disk w u dir prog       every file m of the program is the text file dir/m.txt of the
                                world, rendered with the indent unit u  (NOTHING is said of the
                                other text files of the world: outputs, other folders, ...)
     prog_closed dir prog (w_files w)   (failure and totality only) a script dir/m.txt with an
                                acceptable name m that is NOT a file of the program does not exist
                                (a START of a missing file is an error of the specification, so the
                                world may not hold more siblings than the program). *)
From Coq Require Import NArith ZArith List Bool Lia.
From DS Require Import Base PyStr Values Expr TabParse Tables Constants Interp Options Cli CliWorld ImportGraph.
From DS Require Import SmallProofs MoreProofs CliWorldSpec CliWorldProofs CliWorldHistory.
From DS Require Import BlockTree CoreLang CoreFunc CoreText CoreTextParse CoreAll CoreAllText CoreAllLines CoreAllBase CoreAllRefine CoreAllTop CoreAllFs.
From DS Require Import CoreAllTextForest CoreAllTextParse CoreAllErr CoreAllErrLines CoreAllErrRefine CoreAllTotal CoreAllConverse.
Import ListNotations.

Arguments IOk {A}. Arguments IErr {A}. Arguments ICrash {A}. Arguments IUnmod {A}.

(* ================================================================== the program on disk *)
Definition on_disk (w : cworld) (u : str) (dir : path) (prog : program) : Prop :=
  forall m stmts, lookup m prog = Some stmts -> w_files w (file_of dir m) = Some (utext_of u stmts).

(* the output file after a successful compilation, from the specification's output lines *)
Definition spec_output (out : list uline) : str := join [10%N] (map line_text out).

(* the world after a successful `compile FILE OUTPUT`: OUTPUT written, configs normalised *)
Definition world_after_success (w : cworld) (file output : path) (limit : option Z) (comments : option bool)
           (out : list uline) : cworld :=
  mkCW (write (w_files w) output (spec_output out))
       (w_cfg (normalised w file limit comments)) (w_global (normalised w file limit comments)) (w_dirs w).

Lemma parent_file_of : forall dir m, parent (file_of dir m) = dir.
Proof. intros dir m. unfold file_of. apply parent_snoc. Qed.

(* the options of a compile of dir/entry.txt: flags over the global config, then dir/config.yaml *)
Lemma effective_options_file_of : forall w dir entry limit comments,
  effective_options w (file_of dir entry) limit comments =
  calculate_options (flag_options (global_meaning (w_global w)) limit comments) (w_cfg w dir).
Proof. intros. unfold effective_options. rewrite parent_file_of. reflexivity. Qed.

Lemma on_disk_prog_ok : forall w u dir prog,
  wf_unit u -> no_nl u -> prog_wf prog -> on_disk w u dir prog -> prog_ok dir prog (w_files w).
Proof.
  intros w u dir prog Hu Hnl Hp Hd m stmts Hl. destruct (Hp m stmts Hl) as [Hwf Hpl].
  split; [exact Hwf|]. exists (utext_of u stmts). split; [exact (Hd m stmts Hl)|].
  exact (uprepare_text u stmts Hu Hnl Hwf Hpl).
Qed.

(* on_disk depends only on the program's files *)
Lemma on_disk_agree : forall w w2 u dir prog,
  on_disk w u dir prog ->
  (forall m stmts, lookup m prog = Some stmts -> w_files w2 (file_of dir m) = w_files w (file_of dir m)) ->
  on_disk w2 u dir prog.
Proof. intros w w2 u dir prog H Ha m stmts Hl. rewrite (Ha m stmts Hl). exact (H m stmts Hl). Qed.

Lemma prog_closed_agree : forall (fs fs2 : fsys) dir prog,
  prog_closed dir prog fs ->
  (forall m, lookup m prog = None -> fs2 (file_of dir m) = fs (file_of dir m)) ->
  prog_closed dir prog fs2.
Proof. intros fs fs2 dir prog H Ha m Hn Hl. rewrite (Ha m Hl). exact (H m Hn Hl). Qed.

Section Compose.
Variable fo : FloatOps.

(* ================================================================== (a) success *)
Theorem cli_writes_spec_output_eq : forall w u dir prog entry output limit comments d sg Fs' f' vs' out ev,
  wf_unit u -> no_nl u -> prog_wf prog -> on_disk w u dir prog ->
  uruns fo prog (include_comments (effective_options w (file_of dir entry) limit comments))
        (supress_command_not_exist (effective_options w (file_of dir entry) limit comments))
        entry d sg Fs' f' vs' out ev ->
  (Z.of_nat d < stack_limit (effective_options w (file_of dir entry) limit comments))%Z ->
  cli_step fo w (OpCompile (file_of dir entry) output limit comments) =
  (world_after_success w (file_of dir entry) output limit comments out, RSuccess (length (warnings_of ev))).
Proof.
  intros w u dir prog entry output limit comments d sg Fs' f' vs' out ev Hu Hnl Hp Hd Hrun Hlim.
  set (o := effective_options w (file_of dir entry) limit comments) in *.
  pose proof (on_disk_prog_ok w u dir prog Hu Hnl Hp Hd) as Hok.
  destruct (refine_compile_items fo dir prog (w_files w) o entry d sg Fs' f' vs' out ev Hok Hrun Hlim)
    as (stmts & ol & F' & Hlk & Ho & _ & E).
  destruct (Hp entry stmts Hlk) as [Hwf Hpl].
  rewrite cli_step_compile. unfold compile_outcome. rewrite (Hd entry stmts Hlk). fold o.
  rewrite (ucompile_text fo o (w_files w) (Some (file_of dir entry)) u stmts Hu Hnl Hwf Hpl), E.
  unfold world_after_success, joined_output, spec_output. cbn [Interp.out warnings].
  rewrite Ho, map_length. reflexivity.
Qed.

Theorem cli_writes_spec_output : forall w u dir prog entry output limit comments d sg Fs' f' vs' out ev,
  wf_unit u -> no_nl u -> prog_wf prog -> on_disk w u dir prog ->
  uruns fo prog (include_comments (effective_options w (file_of dir entry) limit comments))
        (supress_command_not_exist (effective_options w (file_of dir entry) limit comments))
        entry d sg Fs' f' vs' out ev ->
  (Z.of_nat d < stack_limit (effective_options w (file_of dir entry) limit comments))%Z ->
  exists w',
    cli_step fo w (OpCompile (file_of dir entry) output limit comments) = (w', RSuccess (length (warnings_of ev))) /\
    w_files w' output = Some (join [10%N] (map line_text out)) /\
    (forall q, q <> output -> w_files w' q = w_files w q).
Proof.
  intros w u dir prog entry output limit comments d sg Fs' f' vs' out ev Hu Hnl Hp Hd Hrun Hlim.
  exists (world_after_success w (file_of dir entry) output limit comments out).
  split; [exact (cli_writes_spec_output_eq w u dir prog entry output limit comments d sg Fs' f' vs' out ev Hu Hnl Hp Hd Hrun Hlim)|].
  unfold world_after_success. cbn [w_files]. split; [apply write_same|].
  intros q Hq. apply write_other. exact Hq.
Qed.

(* ================================================================== (b) failure *)
(* the number of prints an error carries = the prints of the events raised before the failure *)
Lemma err_prints_events : forall dir ev t,
  err_prints (CoreAllBase.apply_evs dir ev (mkGlob [] [])) (Some t) = length (prints_of ev).
Proof.
  intros dir ev t. unfold err_prints.
  rewrite <- (rev_length (g_prints _)), (prints_of_glob dir ev), map_length. reflexivity.
Qed.

Theorem cli_failure_leaves_output_eq : forall w u dir prog entry output limit comments er ch ev,
  wf_unit u -> no_nl u -> prog_wf prog -> on_disk w u dir prog -> prog_closed dir prog (w_files w) ->
  (1 <= stack_limit (effective_options w (file_of dir entry) limit comments))%Z ->
  ufails fo prog (include_comments (effective_options w (file_of dir entry) limit comments))
         (supress_command_not_exist (effective_options w (file_of dir entry) limit comments))
         entry (room_of_limit (stack_limit (effective_options w (file_of dir entry) limit comments))) er ch ev ->
  cli_step fo w (OpCompile (file_of dir entry) output limit comments) =
  (normalised w (file_of dir entry) limit comments, RError er (length (prints_of ev))).
Proof.
  intros w u dir prog entry output limit comments er ch ev Hu Hnl Hp Hd Hcl Hlim Hf.
  set (o := effective_options w (file_of dir entry) limit comments) in *.
  pose proof (on_disk_prog_ok w u dir prog Hu Hnl Hp Hd) as Hok.
  destruct (refine_fails_compile_items fo dir prog (w_files w) o entry er ch ev Hok Hcl Hlim Hf) as (stmts & Hlk & E).
  destruct (Hp entry stmts Hlk) as [Hwf Hpl].
  rewrite cli_step_compile. unfold compile_outcome. rewrite (Hd entry stmts Hlk). fold o.
  rewrite (ucompile_text fo o (w_files w) (Some (file_of dir entry)) u stmts Hu Hnl Hwf Hpl), E.
  rewrite err_prints_events. reflexivity.
Qed.

Theorem cli_failure_leaves_output : forall w u dir prog entry output limit comments er ch ev,
  wf_unit u -> no_nl u -> prog_wf prog -> on_disk w u dir prog -> prog_closed dir prog (w_files w) ->
  (1 <= stack_limit (effective_options w (file_of dir entry) limit comments))%Z ->
  ufails fo prog (include_comments (effective_options w (file_of dir entry) limit comments))
         (supress_command_not_exist (effective_options w (file_of dir entry) limit comments))
         entry (room_of_limit (stack_limit (effective_options w (file_of dir entry) limit comments))) er ch ev ->
  exists w',
    cli_step fo w (OpCompile (file_of dir entry) output limit comments) = (w', RError er (length (prints_of ev))) /\
    w_files w' = w_files w /\ w_files w' output = w_files w output.
Proof.
  intros w u dir prog entry output limit comments er ch ev Hu Hnl Hp Hd Hcl Hlim Hf.
  exists (normalised w (file_of dir entry) limit comments).
  split; [exact (cli_failure_leaves_output_eq w u dir prog entry output limit comments er ch ev Hu Hnl Hp Hd Hcl Hlim Hf)|].
  split; reflexivity.
Qed.

(* ================================================================== (c) totality *)
(* for a tame program on disk the step is EXACTLY (a) or (b) *)
Theorem cli_total : forall w u dir prog entry stmts output limit comments,
  wf_unit u -> no_nl u -> prog_wf prog -> on_disk w u dir prog -> prog_closed dir prog (w_files w) ->
  tame_prog fo prog -> lookup entry prog = Some stmts ->
  (1 <= stack_limit (effective_options w (file_of dir entry) limit comments))%Z ->
  let o := effective_options w (file_of dir entry) limit comments in
  let step := cli_step fo w (OpCompile (file_of dir entry) output limit comments) in
  (exists sg Fs' f' vs' out ev,
     uruns fo prog (include_comments o) (supress_command_not_exist o) entry (room_of_limit (stack_limit o)) sg Fs' f' vs' out ev /\
     step = (world_after_success w (file_of dir entry) output limit comments out, RSuccess (length (warnings_of ev))))
  \/
  (exists er ch ev,
     ufails fo prog (include_comments o) (supress_command_not_exist o) entry (room_of_limit (stack_limit o)) er ch ev /\
     step = (normalised w (file_of dir entry) limit comments, RError er (length (prints_of ev)))).
Proof.
  intros w u dir prog entry stmts output limit comments Hu Hnl Hp Hd Hcl Ht Hlk Hlim o step.
  pose proof (on_disk_prog_ok w u dir prog Hu Hnl Hp Hd) as Hok.
  destruct (spec_result_exists fo dir prog (w_files w) Hok o entry stmts Ht Hlk) as (r & Hr).
  destruct r as [sg F' f' vs' out ev|er ch ev]; cbn [spec_result_is] in Hr.
  - left. exists sg, F', f', vs', out, ev. split; [exact Hr|].
    exact (cli_writes_spec_output_eq w u dir prog entry output limit comments _ sg F' f' vs' out ev Hu Hnl Hp Hd Hr
             (room_lt_limit o Hlim)).
  - right. exists er, ch, ev. split; [exact Hr|].
    exact (cli_failure_leaves_output_eq w u dir prog entry output limit comments er ch ev Hu Hnl Hp Hd Hcl Hlim Hr).
Qed.

(* ... so it never raises, never misses the file; and success and failure exclude each other *)
Corollary cli_never_raises : forall w u dir prog entry stmts output limit comments,
  wf_unit u -> no_nl u -> prog_wf prog -> on_disk w u dir prog -> prog_closed dir prog (w_files w) ->
  tame_prog fo prog -> lookup entry prog = Some stmts ->
  (1 <= stack_limit (effective_options w (file_of dir entry) limit comments))%Z ->
  snd (cli_step fo w (OpCompile (file_of dir entry) output limit comments)) <> RRaised /\
  snd (cli_step fo w (OpCompile (file_of dir entry) output limit comments)) <> RMissingFile.
Proof.
  intros w u dir prog entry stmts output limit comments Hu Hnl Hp Hd Hcl Ht Hlk Hlim.
  destruct (cli_total w u dir prog entry stmts output limit comments Hu Hnl Hp Hd Hcl Ht Hlk Hlim)
    as [(sg & F' & f' & vs' & out & ev & _ & E)|(er & ch & ev & _ & E)]; rewrite E; split; discriminate.
Qed.

Corollary cli_success_failure_exclusive : forall w u dir prog entry limit comments d sg Fs' f' vs' out ev er ch ev',
  wf_unit u -> no_nl u -> prog_wf prog -> on_disk w u dir prog -> prog_closed dir prog (w_files w) ->
  (1 <= stack_limit (effective_options w (file_of dir entry) limit comments))%Z ->
  uruns fo prog (include_comments (effective_options w (file_of dir entry) limit comments))
        (supress_command_not_exist (effective_options w (file_of dir entry) limit comments))
        entry d sg Fs' f' vs' out ev ->
  (Z.of_nat d < stack_limit (effective_options w (file_of dir entry) limit comments))%Z ->
  ufails fo prog (include_comments (effective_options w (file_of dir entry) limit comments))
         (supress_command_not_exist (effective_options w (file_of dir entry) limit comments))
         entry (room_of_limit (stack_limit (effective_options w (file_of dir entry) limit comments))) er ch ev' ->
  False.
Proof.
  intros w u dir prog entry limit comments d sg Fs' f' vs' out ev er ch ev' Hu Hnl Hp Hd Hcl Hlim Hrun Hdl Hf.
  pose proof (cli_writes_spec_output_eq w u dir prog entry [] limit comments d sg Fs' f' vs' out ev Hu Hnl Hp Hd Hrun Hdl) as E1.
  pose proof (cli_failure_leaves_output_eq w u dir prog entry [] limit comments er ch ev' Hu Hnl Hp Hd Hcl Hlim Hf) as E2.
  rewrite E1 in E2. discriminate E2.
Qed.

(* ================================================================== (d) histories *)
(* the project config of dir is not created by a `new` of the history *)
Definition cfg_stable (w : cworld) (dir : path) (pre : list cli_op) : Prop :=
  w_cfg w dir = None -> ~ In dir (new_dirs pre).

Lemma history_effective_options : forall pre w dir entry limit comments,
  configs_in_existing_dirs w -> cfg_stable w dir pre ->
  effective_options (fst (cli_run fo w pre)) (file_of dir entry) limit comments =
  effective_options w (file_of dir entry) limit comments.
Proof.
  intros pre w dir entry limit comments Hwf Hst.
  destruct (w_cfg w dir) as [y|] eqn:Hy.
  - apply (cli_history_effective_options fo pre w _ limit comments y Hwf). rewrite parent_file_of. exact Hy.
  - apply (cli_history_effective_options_none fo pre w _ limit comments Hwf); rewrite parent_file_of; [exact Hy|exact (Hst Hy)].
Qed.

Lemma history_on_disk : forall pre w u dir prog,
  on_disk w u dir prog ->
  (forall m stmts, lookup m prog = Some stmts -> ~ In (file_of dir m) (touched_paths pre)) ->
  on_disk (fst (cli_run fo w pre)) u dir prog.
Proof.
  intros pre w u dir prog Hd Hun. apply (on_disk_agree w _ u dir prog Hd).
  intros m stmts Hl. apply cli_history_frame. exact (Hun m stmts Hl).
Qed.

Lemma history_closed : forall pre w dir prog,
  prog_closed dir prog (w_files w) ->
  (forall m, lookup m prog = None -> ~ In (file_of dir m) (touched_paths pre)) ->
  prog_closed dir prog (w_files (fst (cli_run fo w pre))).
Proof.
  intros pre w dir prog Hc Hun. apply (prog_closed_agree (w_files w) _ dir prog Hc).
  intros m Hl. apply cli_history_frame. exact (Hun m Hl).
Qed.

(* the i-th operation compiles a program whose files no earlier operation wrote: report and output
   are those of the specification, computed from the INITIAL world's files and options *)
Theorem cli_history_success : forall pre post w u dir prog entry output limit comments d sg Fs' f' vs' out ev,
  wf_unit u -> no_nl u -> prog_wf prog -> on_disk w u dir prog ->
  (forall m stmts, lookup m prog = Some stmts -> ~ In (file_of dir m) (touched_paths pre)) ->
  configs_in_existing_dirs w -> cfg_stable w dir pre ->
  uruns fo prog (include_comments (effective_options w (file_of dir entry) limit comments))
        (supress_command_not_exist (effective_options w (file_of dir entry) limit comments))
        entry d sg Fs' f' vs' out ev ->
  (Z.of_nat d < stack_limit (effective_options w (file_of dir entry) limit comments))%Z ->
  let op := OpCompile (file_of dir entry) output limit comments in
  nth_error (snd (cli_run fo w (pre ++ op :: post))) (length pre) = Some (RSuccess (length (warnings_of ev))) /\
  w_files (fst (cli_run fo w (pre ++ [op]))) output = Some (join [10%N] (map line_text out)) /\
  (forall q, q <> output -> w_files (fst (cli_run fo w (pre ++ [op]))) q = w_files (fst (cli_run fo w pre)) q) /\
  (forall q, q <> output -> ~ In q (touched_paths pre) -> w_files (fst (cli_run fo w (pre ++ [op]))) q = w_files w q).
Proof.
  intros pre post w u dir prog entry output limit comments d sg Fs' f' vs' out ev Hu Hnl Hp Hd Hun Hwf Hst Hrun Hlim op.
  set (wi := fst (cli_run fo w pre)).
  assert (Ho : effective_options wi (file_of dir entry) limit comments = effective_options w (file_of dir entry) limit comments)
    by exact (history_effective_options pre w dir entry limit comments Hwf Hst).
  assert (E : cli_step fo wi op =
              (world_after_success wi (file_of dir entry) output limit comments out, RSuccess (length (warnings_of ev)))).
  { apply (cli_writes_spec_output_eq wi u dir prog entry output limit comments d sg Fs' f' vs' out ev Hu Hnl Hp
             (history_on_disk pre w u dir prog Hd Hun)); rewrite Ho; assumption. }
  split; [|split; [|split]].
  - rewrite history_nth_report. fold wi. rewrite E. reflexivity.
  - rewrite cli_run_snoc. cbn [fst]. fold wi. rewrite E. cbn [fst world_after_success w_files]. apply write_same.
  - intros q Hq. rewrite cli_run_snoc. cbn [fst]. fold wi. rewrite E. cbn [fst world_after_success w_files].
    apply write_other. exact Hq.
  - intros q Hq Hnt. rewrite cli_run_snoc. cbn [fst]. fold wi. rewrite E. cbn [fst world_after_success w_files].
    rewrite (write_other _ _ _ _ Hq). apply cli_history_frame. exact Hnt.
Qed.

Theorem cli_history_failure : forall pre post w u dir prog entry output limit comments er ch ev,
  wf_unit u -> no_nl u -> prog_wf prog -> on_disk w u dir prog -> prog_closed dir prog (w_files w) ->
  (forall m, ~ In (file_of dir m) (touched_paths pre)) ->
  configs_in_existing_dirs w -> cfg_stable w dir pre ->
  (1 <= stack_limit (effective_options w (file_of dir entry) limit comments))%Z ->
  ufails fo prog (include_comments (effective_options w (file_of dir entry) limit comments))
         (supress_command_not_exist (effective_options w (file_of dir entry) limit comments))
         entry (room_of_limit (stack_limit (effective_options w (file_of dir entry) limit comments))) er ch ev ->
  let op := OpCompile (file_of dir entry) output limit comments in
  nth_error (snd (cli_run fo w (pre ++ op :: post))) (length pre) = Some (RError er (length (prints_of ev))) /\
  w_files (fst (cli_run fo w (pre ++ [op]))) = w_files (fst (cli_run fo w pre)).
Proof.
  intros pre post w u dir prog entry output limit comments er ch ev Hu Hnl Hp Hd Hcl Hun Hwf Hst Hlim Hf op.
  set (wi := fst (cli_run fo w pre)).
  assert (Ho : effective_options wi (file_of dir entry) limit comments = effective_options w (file_of dir entry) limit comments)
    by exact (history_effective_options pre w dir entry limit comments Hwf Hst).
  assert (E : cli_step fo wi op =
              (normalised wi (file_of dir entry) limit comments, RError er (length (prints_of ev)))).
  { apply (cli_failure_leaves_output_eq wi u dir prog entry output limit comments er ch ev Hu Hnl Hp
             (history_on_disk pre w u dir prog Hd (fun m _ _ => Hun m))
             (history_closed pre w dir prog Hcl (fun m _ => Hun m))); rewrite Ho; assumption. }
  split.
  - rewrite history_nth_report. fold wi. rewrite E. reflexivity.
  - rewrite cli_run_snoc. cbn [fst]. fold wi. rewrite E. reflexivity.
Qed.

(* totality along a history: the i-th report is the specification's *)
Theorem cli_history_total : forall pre post w u dir prog entry stmts output limit comments,
  wf_unit u -> no_nl u -> prog_wf prog -> on_disk w u dir prog -> prog_closed dir prog (w_files w) ->
  (forall m, ~ In (file_of dir m) (touched_paths pre)) ->
  configs_in_existing_dirs w -> cfg_stable w dir pre ->
  tame_prog fo prog -> lookup entry prog = Some stmts ->
  (1 <= stack_limit (effective_options w (file_of dir entry) limit comments))%Z ->
  let o := effective_options w (file_of dir entry) limit comments in
  let op := OpCompile (file_of dir entry) output limit comments in
  (exists sg Fs' f' vs' out ev,
     uruns fo prog (include_comments o) (supress_command_not_exist o) entry (room_of_limit (stack_limit o)) sg Fs' f' vs' out ev /\
     nth_error (snd (cli_run fo w (pre ++ op :: post))) (length pre) = Some (RSuccess (length (warnings_of ev))) /\
     w_files (fst (cli_run fo w (pre ++ [op]))) output = Some (join [10%N] (map line_text out)))
  \/
  (exists er ch ev,
     ufails fo prog (include_comments o) (supress_command_not_exist o) entry (room_of_limit (stack_limit o)) er ch ev /\
     nth_error (snd (cli_run fo w (pre ++ op :: post))) (length pre) = Some (RError er (length (prints_of ev))) /\
     w_files (fst (cli_run fo w (pre ++ [op]))) = w_files (fst (cli_run fo w pre))).
Proof.
  intros pre post w u dir prog entry stmts output limit comments Hu Hnl Hp Hd Hcl Hun Hwf Hst Ht Hlk Hlim o op.
  pose proof (on_disk_prog_ok w u dir prog Hu Hnl Hp Hd) as Hok.
  destruct (spec_result_exists fo dir prog (w_files w) Hok o entry stmts Ht Hlk) as (r & Hr).
  destruct r as [sg F' f' vs' out ev|er ch ev]; cbn [spec_result_is] in Hr.
  - left. exists sg, F', f', vs', out, ev. split; [exact Hr|].
    destruct (cli_history_success pre post w u dir prog entry output limit comments _ sg F' f' vs' out ev Hu Hnl Hp Hd
                (fun m _ _ => Hun m) Hwf Hst Hr (room_lt_limit o Hlim)) as (H1 & H2 & _).
    split; assumption.
  - right. exists er, ch, ev. split; [exact Hr|].
    exact (cli_history_failure pre post w u dir prog entry output limit comments er ch ev Hu Hnl Hp Hd Hcl Hun Hwf Hst Hlim Hr).
Qed.

End Compose.
