(* C13 (graphs): non-vacuity -- the MODEL ITSELF (compile_text on the denoted file system, dummy
   FloatOps, vm_compute), not the abstract traversal, on concrete graphs.
   Files a b c d in the folder p; o0 has stack limit 20. *)
From Coq Require Import NArith ZArith List Bool.
From DS Require Import Base PyStr Values Expr TabParse Tables Constants Interp.
From DS Require Import PasteExamples ImportGraph GraphText GraphRun GraphTheory GraphRing GraphCompile.
Import ListNotations.

Definition na : name := [97]%N.
Definition nb : name := [98]%N.
Definition nc : name := [99]%N.
Definition nd : name := [100]%N.
Definition dir0 : path := [[112]%N].
Definition lim (k : Z) : options := mkOptions k false false false false.

(* what is shown of a result: the output texts, or the error class with (file, line text, line number) per frame *)
Definition show_graph (r : glob * ires (compiled fo0)) : list str + (option errcls * list (option path * str * Z)) :=
  match snd r with
  | IOk c => inl (map o_text (out fo0 c))
  | IErr e (Some t) => inr (Some e, map (fun fr => (fr_file fr, fst (fr_line fr), snd (fr_line fr))) t)
  | IErr e None => inr (Some e, [])
  | _ => inr (None, [])
  end.

Definition f_txt (n : name) : option path := Some (file_of dir0 n).

(* ---- the diamond  a -> b, a -> c, b -> d, c -> d : accepted; d is compiled twice *)
Definition diamond : graph := plain_graph [(na, [nb; nc]); (nb, [nd]); (nc, [nd]); (nd, [])].

Example diamond_text : file_text na [(VStart, nb); (VStart, nc)]
  = [83;84;82;73;78;71;32;97; 10; 83;84;65;82;84;32;98; 10; 83;84;65;82;84;32;99]%N.   (* "STRING a\nSTART b\nSTART c" *)
Proof. reflexivity. Qed.

Example diamond_accepted :
  show_graph (compile_entry fo0 o0 dir0 diamond na [(VStart, nb); (VStart, nc)])
  = inl (map marker_ln [na; nb; nd; nc; nd]).
Proof. vm_compute. reflexivity. Qed.

Example diamond_full :
  compile_entry fo0 o0 dir0 diamond na [(VStart, nb); (VStart, nc)]
  = (mkGlob [] [], IOk (accepted fo0 [na; nb; nd; nc; nd])).
Proof. vm_compute. reflexivity. Qed.

Definition diamond_rank (n : name) : nat :=
  if str_eqb n na then 2 else if str_eqb n nb then 1 else if str_eqb n nc then 1 else 0.

Example diamond_preorder : preorder (diamond_rank na) diamond na = [na; nb; nd; nc; nd].
Proof. vm_compute. reflexivity. Qed.

(* the limit counts the entry file: the diamond is 3 files deep and needs limit 3 *)
Example diamond_limit_3 :
  show_graph (compile_entry fo0 (lim 3) dir0 diamond na [(VStart, nb); (VStart, nc)]) = inl (map marker_ln [na; nb; nd; nc; nd]).
Proof. vm_compute. reflexivity. Qed.
Example diamond_limit_2 :
  show_graph (compile_entry fo0 (lim 2) dir0 diamond na [(VStart, nb); (VStart, nc)])
  = inr (Some EStackOverflow, [(f_txt na, edge_ln VStart nb, 2%Z); (f_txt nb, edge_ln VStart nd, 2%Z)]).
Proof. vm_compute. reflexivity. Qed.

(* ---- a repeated import  a -> b, a -> b : accepted, b compiled twice *)
Definition twice : graph := plain_graph [(na, [nb; nb]); (nb, [])].
Example repeated_import_accepted :
  show_graph (compile_entry fo0 o0 dir0 twice na [(VStart, nb); (VStart, nb)]) = inl (map marker_ln [na; nb; nb]).
Proof. vm_compute. reflexivity. Qed.

(* ---- the 3-ring  a -> b -> c -> a : rejected, the trace is the chain; entered at b as well *)
Example ring3_rejected :
  show_graph (compile_entry fo0 o0 dir0 (ring [na; nb; nc]) na [(VStart, nb)])
  = inr (Some ECircular, [(f_txt na, edge_ln VStart nb, 2%Z); (f_txt nb, edge_ln VStart nc, 2%Z); (f_txt nc, edge_ln VStart na, 2%Z)]).
Proof. vm_compute. reflexivity. Qed.
Example ring3_entered_at_b :
  show_graph (compile_entry fo0 o0 dir0 (ring [na; nb; nc]) nb [(VStart, nc)])
  = inr (Some ECircular, [(f_txt nb, edge_ln VStart nc, 2%Z); (f_txt nc, edge_ln VStart na, 2%Z); (f_txt na, edge_ln VStart nb, 2%Z)]).
Proof. vm_compute. reflexivity. Qed.

(* FINDING: a ring of k files is reported as circular only when the limit allows k files; with a
   smaller limit the same script fails with StackOverflowError instead *)
Example ring3_limit_3 :
  show_graph (compile_entry fo0 (lim 3) dir0 (ring [na; nb; nc]) na [(VStart, nb)])
  = inr (Some ECircular, [(f_txt na, edge_ln VStart nb, 2%Z); (f_txt nb, edge_ln VStart nc, 2%Z); (f_txt nc, edge_ln VStart na, 2%Z)]).
Proof. vm_compute. reflexivity. Qed.
Example ring3_limit_2 :
  show_graph (compile_entry fo0 (lim 2) dir0 (ring [na; nb; nc]) na [(VStart, nb)])
  = inr (Some EStackOverflow, [(f_txt na, edge_ln VStart nb, 2%Z); (f_txt nb, edge_ln VStart nc, 2%Z)]).
Proof. vm_compute. reflexivity. Qed.

(* a self import is circular even with limit 0 *)
Example self_import_limit_0 :
  show_graph (compile_entry fo0 (lim 0) dir0 (ring [na]) na [(VStart, na)])
  = inr (Some ECircular, [(f_txt na, edge_ln VStart na, 2%Z)]).
Proof. vm_compute. reflexivity. Qed.

(* ---- a cycle behind an acyclic prefix:  a -> b, a -> c, b -> d, c -> a : b and d are compiled
   first, then the import of a by c is rejected; no output survives *)
Definition lasso_g : graph := plain_graph [(na, [nb; nc]); (nb, [nd]); (nc, [na]); (nd, [])].
Example cycle_after_prefix :
  show_graph (compile_entry fo0 o0 dir0 lasso_g na [(VStart, nb); (VStart, nc)])
  = inr (Some ECircular, [(f_txt na, edge_ln VStart nc, 3%Z); (f_txt nc, edge_ln VStart na, 2%Z)]).
Proof. vm_compute. reflexivity. Qed.

(* ---- FINDING: a missing file is InvalidArgumentsError raised by the importing line *)
Definition dangling : graph := plain_graph [(na, [nb])].
Example missing_file :
  show_graph (compile_entry fo0 o0 dir0 dangling na [(VStart, nb)])
  = inr (Some EInvalidArguments, [(f_txt na, edge_ln VStart nb, 2%Z)]).
Proof. vm_compute. reflexivity. Qed.

(* ---- the three words: STARTENV emits nothing of the subtree; cycles are refused under every word *)
Definition mixed : graph := [(na, [(VEnv, nb); (VCode, nc)]); (nb, [(VStart, nd)]); (nc, [(VStart, nd)]); (nd, [])].
Example mixed_accepted :
  show_graph (compile_entry fo0 o0 dir0 mixed na [(VEnv, nb); (VCode, nc)]) = inl (map marker_ln [na; nc; nd]).
Proof. vm_compute. reflexivity. Qed.

Definition mixed_ring : graph := [(na, [(VEnv, nb)]); (nb, [(VCode, na)])].
Example mixed_ring_rejected :
  show_graph (compile_entry fo0 o0 dir0 mixed_ring na [(VEnv, nb)])
  = inr (Some ECircular, [(f_txt na, edge_ln VEnv nb, 2%Z); (f_txt nb, edge_ln VCode na, 2%Z)]).
Proof. vm_compute. reflexivity. Qed.

(* the side conditions of the theorems hold of these graphs *)
Example graphs_ok : graph_ok diamond /\ graph_ok twice /\ graph_ok (ring [na; nb; nc]) /\ graph_ok lasso_g /\ graph_ok mixed.
Proof.
  repeat split; repeat constructor.
Qed.
