(* C13 (graphs): ring graphs -- a cycle of any length, entered at any of its files. *)
From Coq Require Import NArith ZArith List Bool Lia Permutation.
From DS Require Import Base PyStr Expr TabParse Constants Interp.
From DS Require Import ScopeProofs ImportGraph GraphTheory.
Import ListNotations.

Lemma pairs_app : forall a c t, pairs (a ++ c) t = pairs a (hd t c) ++ pairs c t.
Proof.
  induction a as [|x a IH]; intros c t; [reflexivity|].
  cbn [app pairs]. rewrite IH. f_equal. f_equal. destruct a; reflexivity.
Qed.

Lemma pairs_fst_in : forall p t xy, In xy (pairs p t) -> In (fst xy) p.
Proof.
  induction p as [|x r IH]; intros t xy H; [destruct H|]. destruct H as [<-|H]; [left; reflexivity|right; eapply IH; exact H].
Qed.

Lemma pairs_fst : forall p t, map fst (pairs p t) = p.
Proof. induction p as [|x r IH]; intro t; [reflexivity|]. cbn [pairs map fst]. rewrite IH. reflexivity. Qed.

(* in a ring every file has exactly one import: its successor *)
Definition ring_edge (g : graph) (xy : name * name) : Prop := lookup (fst xy) g = Some [(VStart, snd xy)].

Lemma ring_from_lookup : forall f ns, NoDup ns -> Forall (ring_edge (ring_from f ns)) (pairs ns f).
Proof.
  intros f. induction ns as [|x r IH]; intro Hnd; [constructor|].
  inversion Hnd as [|a b Hx Hr]; subst.
  destruct r as [|y r'].
  - constructor; [|constructor]. unfold ring_edge. cbn [ring_from pairs fst snd hd lookup]. rewrite str_eqb_refl. reflexivity.
  - change (ring_from f (x :: y :: r')) with ((x, [(VStart, y)]) :: ring_from f (y :: r')).
    cbn [pairs hd]. constructor.
    + unfold ring_edge. cbn [fst snd lookup]. rewrite str_eqb_refl. reflexivity.
    + specialize (IH Hr). rewrite Forall_forall in IH |- *. intros xy Hin. unfold ring_edge. cbn [lookup].
      assert (Hne : str_eqb (fst xy) x = false).
      { apply str_eqb_neq. intro E. apply Hx. rewrite <- E. eapply pairs_fst_in. exact Hin. }
      rewrite Hne. apply IH. exact Hin.
Qed.

Lemma ring_is_ring_from : forall a e b, ring (a ++ e :: b) = ring_from (hd e a) (a ++ e :: b).
Proof. intros [|a0 a'] e b; reflexivity. Qed.

(* the links of a walk along first imports written with START on line 2 *)
Definition ring_links (p : list name) (t : name) : list link :=
  map (fun xy => mkLink (fst xy) 2%Z VStart (snd xy)) (pairs p t).

Lemma ring_edges_first : forall g p t, Forall (ring_edge g) (pairs p t) ->
  first_path g p t /\ map (first_link g) p = ring_links p t.
Proof.
  intros g p t H. split.
  - unfold first_path. eapply Forall_impl; [|exact H]. intros xy Hxy. unfold ring_edge in Hxy.
    unfold first_import. rewrite Hxy. reflexivity.
  - unfold ring_links. rewrite <- (pairs_fst p t) at 1. rewrite map_map. apply map_ext_in.
    intros xy Hin. rewrite Forall_forall in H. specialize (H xy Hin). unfold ring_edge in H.
    unfold first_link. rewrite H. reflexivity.
Qed.

(* the ring a1 ... ak, entered at e = any of its files: the chain goes once around and the import
   that closes the ring is the one rejected.  The limit must allow k files. *)
Theorem ring_traverse : forall L a e b,
  NoDup (a ++ e :: b) -> (Z.of_nat (length (a ++ e :: b)) <= L)%Z ->
  gtraverse L (ring (a ++ e :: b)) e = GCircular (ring_links (e :: b ++ a) e).
Proof.
  intros L a e b Hnd HL.
  assert (Hall : Forall (ring_edge (ring (a ++ e :: b))) (pairs ((e :: b) ++ a) e)).
  { rewrite ring_is_ring_from. pose proof (ring_from_lookup (hd e a) (a ++ e :: b) Hnd) as H.
    rewrite pairs_app in H. cbn [hd] in H. apply Forall_app in H. destruct H as [H1 H2].
    rewrite pairs_app. apply Forall_app. split; assumption. }
  destruct (ring_edges_first _ _ _ Hall) as [Hfp Hlinks].
  cbn [app] in Hfp, Hlinks. rewrite <- Hlinks.
  apply (first_import_cycle L (ring (a ++ e :: b)) e (b ++ a) e).
  - exact Hfp.
  - apply (Permutation_NoDup (l := a ++ e :: b)); [|exact Hnd].
    change (e :: b ++ a) with ((e :: b) ++ a). apply Permutation_app_comm.
  - left. reflexivity.
  - rewrite app_length in HL. cbn [length] in *. rewrite app_length. lia.
Qed.

(* with a smaller limit the ring is reported as a stack overflow instead (see GraphExamples) *)

Corollary self_import_traverse : forall L a, (1 <= L)%Z ->
  gtraverse L (ring [a]) a = GCircular [mkLink a 2%Z VStart a].
Proof. intros L a HL. apply (ring_traverse L [] a []); [constructor; [intros []|constructor]|cbn; lia]. Qed.

Corollary two_cycle_traverse : forall L a b, a <> b -> (2 <= L)%Z ->
  gtraverse L (ring [a; b]) a = GCircular [mkLink a 2%Z VStart b; mkLink b 2%Z VStart a] /\
  gtraverse L (ring [a; b]) b = GCircular [mkLink b 2%Z VStart a; mkLink a 2%Z VStart b].
Proof.
  intros L a b Hab HL.
  assert (Hnd : NoDup [a; b]).
  { constructor; [intros [H|[]]; apply Hab; symmetry; exact H|constructor; [intros []|constructor]]. }
  split.
  - apply (ring_traverse L [] a [b]); [exact Hnd|cbn; lia].
  - apply (ring_traverse L [a] b []); [exact Hnd|cbn; lia].
Qed.

(* the ring graph satisfies the side conditions of the compile theorems *)
Lemma ring_from_ok : forall f ns, name_ok f = true -> Forall (fun n => name_ok n = true) ns -> graph_ok (ring_from f ns).
Proof.
  intros f ns Hf. induction ns as [|x r IH]; intro H; [constructor|].
  inversion H as [|a b Hx Hr]; subst. destruct r as [|y r'].
  - constructor; [|constructor]. cbn [fst snd]. split; [exact Hx|]. constructor; [exact Hf|constructor].
  - change (ring_from f (x :: y :: r')) with ((x, [(VStart, y)]) :: ring_from f (y :: r')).
    constructor; [|apply IH; exact Hr]. cbn [fst snd]. split; [exact Hx|].
    inversion Hr; subst. constructor; [assumption|constructor].
Qed.

Lemma ring_ok : forall ns, Forall (fun n => name_ok n = true) ns -> graph_ok (ring ns).
Proof.
  intros [|x r] H; [constructor|]. unfold ring. apply ring_from_ok; [inversion H; assumption|exact H].
Qed.

Lemma ring_entry_lookup : forall a e b, NoDup (a ++ e :: b) ->
  lookup e (ring (a ++ e :: b)) = Some [(VStart, hd (hd e a) b)].
Proof.
  intros a e b Hnd. rewrite ring_is_ring_from.
  pose proof (ring_from_lookup (hd e a) (a ++ e :: b) Hnd) as H. rewrite pairs_app in H.
  apply Forall_app in H. destruct H as [_ H]. inversion H as [|x y Hx _]; subst. exact Hx.
Qed.

(* a file that imports itself is refused as circular whatever the stack limit is (zero and negative
   limits included): the circularity test comes before the limit test *)
Lemma self_import_any_limit : forall L a v rest,
  gtraverse L [(a, (v, a) :: rest)] a = GCircular [mkLink a 2%Z v a].
Proof.
  intros L a v rest. unfold gtraverse. cbn [gvisit lookup]. rewrite str_eqb_refl.
  cbn [gedges lookup]. rewrite str_eqb_refl. unfold live. cbn [map app str_in]. rewrite str_eqb_refl. reflexivity.
Qed.
