(* The refinement theorem of Proofs/CoreRefine.v for an ARBITRARY NUMBERING of the lines: the
   item tree [renum nu (items_from n p)] (every line number m replaced by nu m, for any function
   nu) is executed exactly like [items_from n p].  The proof is the proof of CoreRefine.v, case
   by case, with the renumbered tree in place of the consecutive one: the per-line lemmas of
   Proofs/CoreLines.v and Proofs/ChainProofs.v hold for any line number.  Consequence: for this
   fragment, output texts, signal, variables, warnings do not depend on the line numbers, so
   blank lines in the text are irrelevant (Proofs/CoreTextBlank.v). *)
From Coq Require Import NArith ZArith List Bool Lia.
From DS Require Import Base PyStr Values Expr TabParse Tables Constants Interp IdentSpec IdentProofs.
From DS Require Import ScopeProofs LimitProofs ChainProofs LoopUnroll LoopBlock.
From DS Require Import PipelineProofs GroupProofs DollarForm NameChecks CoreLang CoreWf CoreLines CoreRefine CoreText.
Import ListNotations.

Arguments IOk {A}. Arguments IErr {A}. Arguments ICrash {A}. Arguments IUnmod {A}.
Arguments s_g {fo}. Arguments s_env {fo}. Arguments s_line2 {fo}. Arguments mkSt {fo}.

Section RefineNum.
Variable fo : FloatOps.
Variable sys : store fo.
Hypothesis Hsys : nodup_keys sys.
Variable nu : Z -> Z.

Notation value := (value fo).
Notation env := (env fo).
Notation st := (st fo).

(* the vocabulary of CoreRefine.v at this fo / sys *)
Local Notation R := (CoreRefine.R fo sys).
Local Notation state_of := (CoreRefine.state_of fo sys).
Local Notation R_state_of := (CoreRefine.R_state_of fo sys).
Local Notation state_of_R := (CoreRefine.state_of_R fo sys).
Local Notation R_nodup := (CoreRefine.R_nodup fo sys).
Local Notation eval_R := (CoreRefine.eval_R fo sys).
Local Notation R_with_flag := (CoreRefine.R_with_flag fo sys).
Local Notation R_ensure_flag := (CoreRefine.R_ensure_flag fo sys).
Local Notation R_flag_of := (CoreRefine.R_flag_of fo sys).
Local Notation R_ensure_id := (CoreRefine.R_ensure_id fo sys).
Local Notation R_clear := (CoreRefine.R_clear fo sys).
Local Notation R_store_user := (CoreRefine.R_store_user fo sys).
Local Notation bind_counter_entry := (CoreRefine.bind_counter_entry fo sys).
Local Notation while_cond_eval := (CoreRefine.while_cond_eval fo sys).
Local Notation cond_evals := (CoreRefine.cond_evals fo sys).
Local Notation block_runs := (CoreRefine.block_runs fo sys Hsys).
Local Notation block_skipped := (CoreRefine.block_skipped fo sys Hsys).
Local Notation nodup_with_counter := (CoreRefine.nodup_with_counter fo).
Local Notation child_of := (CoreRefine.child_of fo).
Local Notation run_child_of := (CoreRefine.run_child_of fo).
Local Notation continue_with := (CoreRefine.continue_with fo).
Local Notation go_on_continue := (CoreRefine.go_on_continue fo).
Local Notation exec_cmds_clear := (CoreRefine.exec_cmds_clear fo).
Local Notation tokenize_count_ok := (CoreRefine.tokenize_count_ok fo).
Local Notation while_cond := (CoreRefine.while_cond fo).

(* ------------------------------------------------------------------ the renumbered concrete form *)
Definition itemsN (n : Z) (p : list stmt) : list item := renum nu (items_from n p).
Definition stmtN (n : Z) (s : stmt) : list item := renum nu (stmt_items n s).

Lemma itemsN_cons : forall n s r,
  itemsN n (s :: r) = stmtN n s ++ itemsN (n + size s)%Z r.
Proof. intros n s r. unfold itemsN, stmtN, renum. rewrite CoreRefine.items_from_cons. apply map_app. Qed.

Definition arms_itemsN (first : bool) (n : Z) (arms : list (str * list stmt)) (els : option (list stmt)) : list item :=
  renum nu (CoreRefine.arms_items first n arms els).

Lemma stmt_items_if : forall n arms els, stmtN n (SIf arms els) = arms_itemsN true n arms els.
Proof. reflexivity. Qed.

Fixpoint arms_of (first : bool) (n : Z) (arms : list (str * list stmt)) (els : option (list stmt)) : list arm :=
  match arms with
  | [] => match els with Some b => [else_arm (nu n) (itemsN (n + 1)%Z b)] | None => [] end
  | (c, b) :: r =>
      cond_arm (if first then AIf else AElif) c (nu n) (itemsN (n + 1)%Z b)
      :: arms_of false (n + 1 + sum_sizes size b)%Z r els
  end.

Lemma arms_items_chain : forall arms first n els,
  arms_itemsN first n arms els = chain_items (arms_of first n arms els).
Proof.
  induction arms as [|[c b] r IH]; intros first n els.
  - cbn. destruct els; reflexivity.
  - unfold arms_itemsN, CoreRefine.arms_items in *. cbn [arms_items_gen arms_of chain_items flat_map].
    rewrite <- IH. destruct first; reflexivity.
Qed.

Lemma stmt_items_head : forall s n, stmtN n s = [] \/ exists c m t, stmtN n s = Ln c m :: t.
Proof.
  intros s n. unfold stmtN. destruct (CoreRefine.stmt_items_head s n) as [E|(c & m & t & E)]; rewrite E.
  - left. reflexivity.
  - right. cbn. eauto.
Qed.

Lemma wf_items_nonempty : forall s n, wf s -> stmtN n s <> [].
Proof.
  intros s n H E. unfold stmtN, renum in E. apply map_eq_nil in E. exact (CoreRefine.wf_items_nonempty s n H E).
Qed.

(* ------------------------------------------------------------------ the concrete form *)
Lemma itemsN_head : forall p n, head_ok (itemsN n p).
Proof.
  induction p as [|s r IH]; intro n; [exact I|].
  rewrite itemsN_cons. destruct (stmt_items_head s n) as [->|(c & m & t & ->)].
  - apply IH.
  - exact I.
Qed.

Lemma wf_list_items_nonempty : forall p n, p <> [] -> wf_list p -> itemsN n p <> [].
Proof.
  intros [|s r] n Hne H; [contradiction|]. destruct H as [Hs _].
  rewrite itemsN_cons. intro E. apply app_eq_nil in E. destruct E as [E _].
  exact (wf_items_nonempty s n Hs E).
Qed.

Lemma arms_ok : forall arms first n els,
  all_list wf_arm arms -> wf_else els -> Forall arm_ok (arms_of first n arms els).
Proof.
  induction arms as [|[c b] r IH]; intros first n els Ha He.
  - cbn. destruct els as [b|]; [|constructor]. destruct He as [Hne Hwf].
    constructor; [|constructor]. apply else_arm_ok. apply wf_list_items_nonempty; assumption.
  - destruct Ha as [(Hc & Hne & Hwf) Hr]. cbn [arms_of]. constructor.
    + apply cond_arm_ok; [destruct first; discriminate|apply expr_ok_blank; exact Hc|].
      apply wf_list_items_nonempty; assumption.
    + apply IH; assumption.
Qed.

Lemma arms_non_if : forall arms n els, Forall non_if (arms_of false n arms els).
Proof.
  induction arms as [|[c b] r IH]; intros n els.
  - cbn. destruct els; constructor; [apply non_if_else|constructor].
  - cbn [arms_of]. constructor; [apply non_if_elif|apply IH].
Qed.

Lemma later_evaluate : forall g F vsx s' rest n els,
  R g F (Some true) vsx s' -> all_list wf_arm rest ->
  Forall (fun cb : str * list stmt => exists v', eval fo sys (Some true) vsx (fst cb) v') rest ->
  Forall (evaluates fo s') (arms_of false n rest els).
Proof.
  intros g F vsx s' rest. induction rest as [|[c b] r IH]; intros n els HR Hwf Hev.
  - cbn. destruct els; constructor; [|constructor]. exists true. apply evals_else_arm. reflexivity.
  - destruct Hwf as [(Hc & _) Hr]. inversion Hev as [|? ? [v' Hv] Hev']; subst. cbn [arms_of]. constructor.
    + exists (truthy fo v'). apply evals_cond_arm; [apply expr_ok_blank; exact Hc|].
      exists v'. split; [|reflexivity]. rewrite (expr_ok_strip c Hc). apply (eval_R g F (Some true) vsx s'); assumption.
    + apply IH; assumption.
Qed.

(* ------------------------------------------------------------------ the statements proved by the induction *)
Definition P_exec (f : option bool) (vs : store fo) (stm : stmt) (sg : sig) (f' : option bool) (vs' : store fo)
           (out : list str) : Prop :=
  forall d cx n rest acc s g F,
    R g F f vs s -> wf stm -> fits d cx (nesting stm) -> head_ok rest ->
    exists s' ol, R g F f' vs' s' /\ map o_text ol = out /\
      exec_cmds fo (child_of d) cx (stmtN n stm ++ rest) acc s =
      continue_with (child_of d) cx sg rest (acc ++ ol) s'.

Definition P_list (f : option bool) (vs : store fo) (p : list stmt) (sg : sig) (f' : option bool) (vs' : store fo)
           (out : list str) : Prop :=
  forall d cx n acc s g F,
    R g F f vs s -> wf_list p -> fits d cx (nesting_list p) ->
    exists s' ol, R g F f' vs' s' /\ map o_text ol = out /\
      exec_cmds fo (child_of d) cx (itemsN n p) acc s = (s', IOk (mkCret (acc ++ ol) (sig_of sg))).

Definition P_arms (b : bool) (vs : store fo) (arms : list (str * list stmt)) (els : option (list stmt))
           (sg : sig) (taken : bool) (vs' : store fo) (out : list str) : Prop :=
  forall (first : bool) d cx n rest acc s g F,
    (if first then exists f, R g F f vs s /\ b = flag_or_false f /\ arms <> []
     else R g F (Some false) vs s /\ b = false) ->
    all_list wf_arm arms -> wf_else els -> fits d cx (nest_arms arms els) ->
    exists s' ol, R g F (Some taken) vs' s' /\ map o_text ol = out /\
      exec_cmds fo (child_of d) cx (arms_itemsN first n arms els ++ rest) acc s =
      continue_with (child_of d) cx sg rest (acc ++ ol) s'.

Definition P_repeat (f : option bool) (c : option str) (e : str) (body : list stmt) (k : Z)
           (vs vs' : store fo) (out : list str) : Prop :=
  forall d cx cur n fuel a s g F,
    R g F f vs s -> CoreWf.counter_ok c -> body <> [] -> wf_list body -> fits d cx (S (nesting_list body)) ->
    (loop_max - k < Z.of_nat fuel)%Z ->
    exists s' ol, R g F f vs' s' /\ map o_text ol = out /\ s_line2 s' = s_line2 s /\
      repeat_loop fo (child_of d) cx cur fuel c e (itemsN n body) k (mkCret a SNormal) s =
      (s', IOk (mkCret (a ++ ol) SNormal)).

Definition P_while (c : option str) (e : str) (body : list stmt) (k : Z)
           (vs vs' : store fo) (out : list str) : Prop :=
  forall d cx cur n fuel a s g F f,
    R g F f vs s -> CoreWf.counter_ok c -> body <> [] -> wf_list body -> fits d cx (S (nesting_list body)) ->
    (loop_max - k < Z.of_nat fuel)%Z ->
    exists s' ol, R g F f vs' s' /\ map o_text ol = out /\ s_line2 s' = s_line2 s /\
      while_loop fo (child_of d) cx cur fuel c e (itemsN n body) k (mkCret a SNormal) s =
      (s', IOk (mkCret (a ++ ol) SNormal)).

(* ------------------------------------------------------------------ simple statements *)
Lemma case_emit : forall f vs name text, P_exec f vs (SEmit name text) Normal f vs [name ++ sp :: text].
Proof.
  intros f vs name text d cx n rest acc s g F HR Hwf _ Hh. cbn [wf] in Hwf.
  destruct (emit_line fo (child_of d) cx name text (nu n) rest acc s Hwf Hh) as [cname Heq].
  exists (at_line fo (name ++ sp :: text, nu n) s), [mkO (ByCommand cname) (name ++ sp :: text)].
  split; [exact HR|]. split; [reflexivity|]. exact Heq.
Qed.

Lemma case_emit_eval : forall f vs name e v t,
  eval fo sys f vs e v -> py_str fo v = Some t ->
  P_exec f vs (SEmitEval name e) Normal f vs [name ++ sp :: t].
Proof.
  intros f vs name e v t Hv Ht d cx n rest acc s g F HR Hwf _ Hh. destruct Hwf as [Hname He].
  destruct (emit_eval_line fo (child_of d) cx name e (nu n) rest acc s v t Hname He Hh
              (eval_R g F f vs s e v HR Hv) Ht) as [cname Heq].
  exists (at_line fo (dollar_c :: name ++ sp :: e, nu n) s), [mkO (ByCommand cname) (name ++ sp :: t)].
  split; [exact HR|]. split; [reflexivity|]. exact Heq.
Qed.

Lemma case_var : forall f vs x e v,
  eval fo sys f vs e v -> P_exec f vs (SVar x e) Normal f (set_var fo x v vs) [].
Proof.
  intros f vs x e v Hv d cx n rest acc s g F HR Hwf _ Hh. destruct Hwf as [Hx He].
  exists (at_line fo (kw_VAR ++ sp :: x ++ sp :: e, nu n) (store_user fo x v s)), [].
  split; [exact (R_store_user g F f vs s x v HR)|]. split; [reflexivity|].
  exact (var_line fo (child_of d) cx x e (nu n) rest acc s v Hx He Hh (eval_R g F f vs s e v HR Hv)).
Qed.

Lemma case_break : forall f vs, P_exec f vs SBreakLoop Broke f vs [].
Proof.
  intros f vs d cx n rest acc s g F HR _ _ Hh.
  exists (at_line fo (kw_BREAKLOOP, nu n) s), []. split; [exact HR|]. split; [reflexivity|].
  apply signal_line; [left; split; reflexivity|exact Hh].
Qed.

Lemma case_continue : forall f vs, P_exec f vs SContinueLoop Continued f vs [].
Proof.
  intros f vs d cx n rest acc s g F HR _ _ Hh.
  exists (at_line fo (kw_CONTINUELOOP, nu n) s), []. split; [exact HR|]. split; [reflexivity|].
  apply signal_line; [right; split; reflexivity|exact Hh].
Qed.

(* ------------------------------------------------------------------ statement lists *)
Lemma case_nil : forall f vs, P_list f vs [] Normal f vs [].
Proof.
  intros f vs d cx n acc s g F HR _ _. exists s, []. split; [exact HR|]. split; [reflexivity|].
  rewrite app_nil_r. reflexivity.
Qed.

Lemma case_cons : forall f vs s r f1 vs1 o1 sg f2 vs2 o2,
  P_exec f vs s Normal f1 vs1 o1 -> P_list f1 vs1 r sg f2 vs2 o2 ->
  P_list f vs (s :: r) sg f2 vs2 (o1 ++ o2).
Proof.
  intros f vs stm r f1 vs1 o1 sg f2 vs2 o2 IH1 IH2 d cx n acc s g F HR [Hwf Hwfr] Hfit.
  rewrite itemsN_cons.
  destruct (IH1 d cx n (itemsN (n + size stm)%Z r) acc s g F HR Hwf
              (fits_le d cx _ _ Hfit (Nat.le_max_l _ _)) (itemsN_head r _)) as (s1 & ol1 & HR1 & Ho1 & E1).
  destruct (IH2 d cx (n + size stm)%Z (acc ++ ol1) s1 g F HR1 Hwfr
              (fits_le d cx _ _ Hfit (Nat.le_max_r _ _))) as (s2 & ol2 & HR2 & Ho2 & E2).
  exists s2, (ol1 ++ ol2). split; [exact HR2|]. split; [rewrite map_app, Ho1, Ho2; reflexivity|].
  rewrite E1. cbn [continue_with]. rewrite E2, app_assoc. reflexivity.
Qed.

Lemma case_stop : forall f vs s r sg f1 vs1 o1,
  P_exec f vs s sg f1 vs1 o1 -> sg <> Normal -> P_list f vs (s :: r) sg f1 vs1 o1.
Proof.
  intros f vs stm r sg f1 vs1 o1 IH1 Hsg d cx n acc s g F HR [Hwf Hwfr] Hfit.
  rewrite itemsN_cons.
  destruct (IH1 d cx n (itemsN (n + size stm)%Z r) acc s g F HR Hwf
              (fits_le d cx _ _ Hfit (Nat.le_max_l _ _)) (itemsN_head r _)) as (s1 & ol1 & HR1 & Ho1 & E1).
  exists s1, ol1. split; [exact HR1|]. split; [exact Ho1|]. rewrite E1.
  destruct sg; [contradiction|reflexivity|reflexivity].
Qed.

(* ------------------------------------------------------------------ a body run as a block *)
Lemma body_block : forall d cx cur n body file setup pre s g F f vs inner sg f1 vs1 out,
  P_list None inner body sg f1 vs1 out ->
  R g F f vs s -> wf_list body -> fits d cx (S (nesting_list body)) -> nodup_keys inner ->
  setup (mkEnv fo sys vs [] (upd_all F [])) = Ok (mkEnv fo sys inner [] (upd_all F [])) ->
  pre (mkEnv fo sys inner [] (upd_all F [])) = Ok true ->
  exists s' ol, R g F f (copy_back fo vs vs1) s' /\ s_line2 s' = s_line2 s /\ map o_text ol = out /\
    run_child_with fo (child_of d) cx cur (itemsN n body) file false setup pre s =
    (s', IOk (Some (mkCret ol (sig_of sg)))).
Proof.
  intros d cx cur n body file setup pre s g F f vs inner sg f1 vs1 out IH HR Hwf Hfit Hnd Hsetup Hpre.
  destruct (fits_S d cx _ Hfit) as (d' & -> & Hlim & Hfit').
  destruct (IH d' (inner_cx cx cur (s_line2 s) file) n [] (state_of g (upd_all F []) None inner None)
               g (upd_all F []) (state_of_R g (upd_all F []) None inner None Hnd) Hwf (Hfit' cur (s_line2 s) file))
    as (s2 & ol & HR2 & Ho & E).
  cbn [app] in E.
  destruct (block_runs d' cx cur (itemsN n body) file setup pre s g F f vs inner s2
              (mkCret ol (sig_of sg)) f1 vs1 HR Hlim Hsetup Hpre E HR2) as (s' & HR' & Hl2 & Hrun).
  exists s', ol. split; [exact HR'|]. split; [exact Hl2|]. split; [exact Ho|]. exact Hrun.
Qed.

Lemma body_block_plain : forall d cx cur n body s g F f vs sg f1 vs1 out,
  P_list None vs body sg f1 vs1 out ->
  R g F f vs s -> wf_list body -> fits d cx (S (nesting_list body)) ->
  exists s' ol, R g F f (copy_back fo vs vs1) s' /\ s_line2 s' = s_line2 s /\ map o_text ol = out /\
    run_child fo (child_of d) cx cur (itemsN n body) (c_file cx) false (fun e => Ok e) s =
    (s', IOk (mkCret ol (sig_of sg))).
Proof.
  intros d cx cur n body s g F f vs sg f1 vs1 out IH HR Hwf Hfit.
  destruct (body_block d cx cur n body (c_file cx) (fun e => Ok e) (fun _ => Ok true) s g F f vs vs sg f1 vs1 out
              IH HR Hwf Hfit (R_nodup g F f vs s HR) eq_refl eq_refl) as (s' & ol & HR' & Hl2 & Ho & Hrun).
  exists s', ol. split; [exact HR'|]. split; [exact Hl2|]. split; [exact Ho|].
  unfold run_child, bindM. rewrite Hrun. reflexivity.
Qed.

Lemma body_block_counter : forall d cx cur n body c k s g F f vs sg f1 vs1 out,
  P_list None (with_counter fo c k vs) body sg f1 vs1 out ->
  R g F f vs s -> CoreWf.counter_ok c -> wf_list body -> fits d cx (S (nesting_list body)) ->
  exists s' ol, R g F f (copy_back fo vs vs1) s' /\ s_line2 s' = s_line2 s /\ map o_text ol = out /\
    run_child fo (child_of d) cx cur (itemsN n body) (c_file cx) false (bind_counter fo c k) s =
    (s', IOk (mkCret ol (sig_of sg))).
Proof.
  intros d cx cur n body c k s g F f vs sg f1 vs1 out IH HR Hc Hwf Hfit.
  destruct (body_block d cx cur n body (c_file cx) (bind_counter fo c k) (fun _ => Ok true) s g F f vs
              (with_counter fo c k vs) sg f1 vs1 out
              IH HR Hwf Hfit (nodup_with_counter c k vs (R_nodup g F f vs s HR))
              (bind_counter_entry c k vs _ Hc) eq_refl) as (s' & ol & HR' & Hl2 & Ho & Hrun).
  exists s', ol. split; [exact HR'|]. split; [exact Hl2|]. split; [exact Ho|].
  unfold run_child, bindM. rewrite Hrun. reflexivity.
Qed.

(* ------------------------------------------------------------------ REPEAT *)
Lemma case_r_done : forall f c e body k vs v n,
  eval fo sys f vs e v -> count_of fo v = Some n -> (0 <= n <= loop_max)%Z -> (n <= k)%Z ->
  P_repeat f c e body k vs vs [].
Proof.
  intros f c e body k vs v n Hv Hn Hrange Hk d cx cur m fuel a s g F HR _ _ _ _ _.
  exists s, []. split; [exact HR|]. split; [reflexivity|]. split; [reflexivity|].
  pose proof (tokenize_count_ok cx cur e s v n (eval_R g F f vs s e v HR Hv) Hn Hrange) as Htc.
  assert (Hlt : (k <? n)%Z = false) by (apply Z.ltb_ge; lia).
  rewrite app_nil_r.
  destruct fuel; cbn [repeat_loop]; unfold bindM at 1; rewrite Htc, Hlt; reflexivity.
Qed.

Lemma case_r_iter : forall f c e body k vs v n sg f1 vs1 o1 vs' o2,
  eval fo sys f vs e v -> count_of fo v = Some n -> (0 <= n <= loop_max)%Z -> (k < n)%Z ->
  P_list None (with_counter fo c k vs) body sg f1 vs1 o1 -> sg <> Broke ->
  P_repeat f c e body (k + 1) (copy_back fo vs vs1) vs' o2 ->
  P_repeat f c e body k vs vs' (o1 ++ o2).
Proof.
  intros f c e body k vs v n sg f1 vs1 o1 vs' o2 Hv Hn Hrange Hk IHb Hsg IHr
         d cx cur m fuel a s g F HR Hc Hne Hwf Hfit Hfuel.
  pose proof (tokenize_count_ok cx cur e s v n (eval_R g F f vs s e v HR Hv) Hn Hrange) as Htc.
  assert (Hlt : (k <? n)%Z = true) by (apply Z.ltb_lt; lia).
  destruct fuel as [|fuel']; [unfold loop_max in *; lia|].
  destruct (body_block_counter d cx cur m body c k s g F f vs sg f1 vs1 o1 IHb HR Hc Hwf Hfit)
    as (s1 & ol1 & HR1 & Hl1 & Ho1 & Hrun).
  destruct (IHr d cx cur m fuel' (a ++ ol1) s1 g F HR1 Hc Hne Hwf Hfit ltac:(lia))
    as (s2 & ol2 & HR2 & Ho2 & Hl2 & Hloop).
  exists s2, (ol1 ++ ol2). split; [exact HR2|]. split; [rewrite map_app, Ho1, Ho2; reflexivity|].
  split; [rewrite Hl2; exact Hl1|].
  cbn [repeat_loop]. unfold bindM at 1. rewrite Htc, Hlt. unfold bindM at 1. rewrite Hrun.
  cbn [cr_sig cr_data].
  assert (Hls : loop_signal (sig_of sg) = (SNormal, false)) by (destruct sg; [reflexivity|contradiction|reflexivity]).
  rewrite Hls. rewrite Hloop, app_assoc. reflexivity.
Qed.

Lemma case_r_break : forall f c e body k vs v n f1 vs1 o1,
  eval fo sys f vs e v -> count_of fo v = Some n -> (0 <= n <= loop_max)%Z -> (k < n)%Z ->
  P_list None (with_counter fo c k vs) body Broke f1 vs1 o1 ->
  P_repeat f c e body k vs (copy_back fo vs vs1) o1.
Proof.
  intros f c e body k vs v n f1 vs1 o1 Hv Hn Hrange Hk IHb
         d cx cur m fuel a s g F HR Hc Hne Hwf Hfit Hfuel.
  pose proof (tokenize_count_ok cx cur e s v n (eval_R g F f vs s e v HR Hv) Hn Hrange) as Htc.
  assert (Hlt : (k <? n)%Z = true) by (apply Z.ltb_lt; lia).
  destruct fuel as [|fuel']; [unfold loop_max in *; lia|].
  destruct (body_block_counter d cx cur m body c k s g F f vs Broke f1 vs1 o1 IHb HR Hc Hwf Hfit)
    as (s1 & ol1 & HR1 & Hl1 & Ho1 & Hrun).
  exists s1, ol1. split; [exact HR1|]. split; [exact Ho1|]. split; [exact Hl1|].
  cbn [repeat_loop]. unfold bindM at 1. rewrite Htc, Hlt. unfold bindM at 1. rewrite Hrun. reflexivity.
Qed.

(* ------------------------------------------------------------------ WHILE *)
Lemma case_w_done : forall c e body k vs v,
  (k <= loop_max)%Z -> eval fo sys None (with_counter fo c k vs) e v -> truthy fo v = false ->
  P_while c e body k vs (copy_back fo vs (with_counter fo c k vs)) [].
Proof.
  intros c e body k vs v Hk Hv Ht d cx cur m fuel a s g F f HR Hc Hne Hwf Hfit Hfuel.
  destruct fuel as [|fuel']; [lia|].
  destruct (fits_S d cx _ Hfit) as (d' & -> & Hlim & _).
  pose proof (nodup_with_counter c k vs (R_nodup g F f vs s HR)) as Hnd.
  destruct (block_skipped (child_of (S d')) cx cur (itemsN m body) (c_file cx) (bind_counter fo c k) (while_cond e)
              s g F f vs (with_counter fo c k vs) HR Hlim (bind_counter_entry c k vs _ Hc))
    as (s' & HR' & Hl & Hrun).
  { rewrite (while_cond_eval e _ _ v Hnd Hv), Ht. reflexivity. }
  exists s', []. split; [exact HR'|]. split; [reflexivity|]. split; [exact Hl|].
  cbn [while_loop]. rewrite (while_limit_ok k Hk). unfold bindM at 1. fold (while_cond e). rewrite Hrun.
  rewrite app_nil_r. reflexivity.
Qed.

Lemma while_body_block : forall d cx cur m body c e k s g F f vs v sg f1 vs1 o1,
  P_list None (with_counter fo c k vs) body sg f1 vs1 o1 ->
  eval fo sys None (with_counter fo c k vs) e v -> truthy fo v = true ->
  R g F f vs s -> CoreWf.counter_ok c -> wf_list body -> fits d cx (S (nesting_list body)) ->
  exists s' ol, R g F f (copy_back fo vs vs1) s' /\ s_line2 s' = s_line2 s /\ map o_text ol = o1 /\
    run_child_with fo (child_of d) cx cur (itemsN m body) (c_file cx) false (bind_counter fo c k) (while_cond e) s =
    (s', IOk (Some (mkCret ol (sig_of sg)))).
Proof.
  intros d cx cur m body c e k s g F f vs v sg f1 vs1 o1 IHb Hv Ht HR Hc Hwf Hfit.
  pose proof (nodup_with_counter c k vs (R_nodup g F f vs s HR)) as Hnd.
  apply (body_block d cx cur m body (c_file cx) (bind_counter fo c k) (while_cond e) s g F f vs
           (with_counter fo c k vs) sg f1 vs1 o1 IHb HR Hwf Hfit Hnd (bind_counter_entry c k vs _ Hc)).
  rewrite (while_cond_eval e _ _ v Hnd Hv), Ht. reflexivity.
Qed.

Lemma case_w_iter : forall c e body k vs v sg f1 vs1 o1 vs' o2,
  (k <= loop_max)%Z -> eval fo sys None (with_counter fo c k vs) e v -> truthy fo v = true ->
  P_list None (with_counter fo c k vs) body sg f1 vs1 o1 -> sg <> Broke ->
  P_while c e body (k + 1) (copy_back fo vs vs1) vs' o2 ->
  P_while c e body k vs vs' (o1 ++ o2).
Proof.
  intros c e body k vs v sg f1 vs1 o1 vs' o2 Hk Hv Ht IHb Hsg IHw
         d cx cur m fuel a s g F f HR Hc Hne Hwf Hfit Hfuel.
  destruct fuel as [|fuel']; [lia|].
  destruct (while_body_block d cx cur m body c e k s g F f vs v sg f1 vs1 o1 IHb Hv Ht HR Hc Hwf Hfit)
    as (s1 & ol1 & HR1 & Hl1 & Ho1 & Hrun).
  destruct (IHw d cx cur m fuel' (a ++ ol1) s1 g F f HR1 Hc Hne Hwf Hfit ltac:(lia))
    as (s2 & ol2 & HR2 & Ho2 & Hl2 & Hloop).
  exists s2, (ol1 ++ ol2). split; [exact HR2|]. split; [rewrite map_app, Ho1, Ho2; reflexivity|].
  split; [rewrite Hl2; exact Hl1|].
  cbn [while_loop]. rewrite (while_limit_ok k Hk). unfold bindM at 1. fold (while_cond e). rewrite Hrun.
  cbn [cr_sig cr_data].
  assert (Hls : loop_signal (sig_of sg) = (SNormal, false)) by (destruct sg; [reflexivity|contradiction|reflexivity]).
  rewrite Hls. rewrite Hloop, app_assoc. reflexivity.
Qed.

Lemma case_w_break : forall c e body k vs v f1 vs1 o1,
  (k <= loop_max)%Z -> eval fo sys None (with_counter fo c k vs) e v -> truthy fo v = true ->
  P_list None (with_counter fo c k vs) body Broke f1 vs1 o1 ->
  P_while c e body k vs (copy_back fo vs vs1) o1.
Proof.
  intros c e body k vs v f1 vs1 o1 Hk Hv Ht IHb
         d cx cur m fuel a s g F f HR Hc Hne Hwf Hfit Hfuel.
  destruct fuel as [|fuel']; [lia|].
  destruct (while_body_block d cx cur m body c e k s g F f vs v Broke f1 vs1 o1 IHb Hv Ht HR Hc Hwf Hfit)
    as (s1 & ol1 & HR1 & Hl1 & Ho1 & Hrun).
  exists s1, ol1. split; [exact HR1|]. split; [exact Ho1|]. split; [exact Hl1|].
  cbn [while_loop]. rewrite (while_limit_ok k Hk). unfold bindM at 1. fold (while_cond e). rewrite Hrun.
  reflexivity.
Qed.

(* ------------------------------------------------------------------ the loop lines *)
Lemma case_repeat : forall f vs c e body vs' out,
  P_repeat f c e body 0 vs vs' out -> P_exec f vs (SRepeat c e body) Normal f vs' out.
Proof.
  intros f vs c e body vs' out IH d cx n rest acc s g F HR Hwf Hfit Hh.
  destruct Hwf as (Hc & He & Hne & Hwf).
  destruct (loop_arg_facts c e Hc He) as (Hblank & Hstrip & Hsplit & Hcok).
  pose proof (wf_list_items_nonempty body (n + 1)%Z Hne Hwf) as Hine.
  destruct (IH d cx (kw_REPEAT ++ sp :: loop_arg c e, nu n) (n + 1)%Z loop_fuel [] (clear_line2 fo s) g F
               (R_clear g F f vs s HR) Hc Hne Hwf Hfit loop_fuel_enough) as (s' & ol & HR' & Ho & _ & Hloop).
  exists s', ol. split; [exact HR'|]. split; [exact Ho|].
  etransitivity.
  { rewrite <- Hstrip in Hsplit.
    exact (repeat_line_lemma fo (child_of d) cx (loop_arg c e) (nu n) (itemsN (n + 1)%Z body) rest acc s c e
             Hblank Hine Hsplit Hcok). }
  unfold bindM.
  match goal with |- context [repeat_loop ?a1 ?a2 ?a3 ?a4 ?a5 ?a6 ?a7 ?a8 ?a9 ?a10 ?a11] =>
    replace (repeat_loop a1 a2 a3 a4 a5 a6 a7 a8 a9 a10 a11) with (s', @IOk cret (mkCret ol SNormal))
      by (symmetry; exact Hloop) end.
  reflexivity.
Qed.

Lemma case_while : forall f vs c e body vs' out,
  P_while c e body 0 vs vs' out -> P_exec f vs (SWhile c e body) Normal f vs' out.
Proof.
  intros f vs c e body vs' out IH d cx n rest acc s g F HR Hwf Hfit Hh.
  destruct Hwf as (Hc & He & Hne & Hwf).
  destruct (loop_arg_facts c e Hc He) as (Hblank & Hstrip & Hsplit & Hcok).
  pose proof (wf_list_items_nonempty body (n + 1)%Z Hne Hwf) as Hine.
  destruct (IH d cx (kw_WHILE ++ sp :: loop_arg c e, nu n) (n + 1)%Z loop_fuel [] (clear_line2 fo s) g F f
               (R_clear g F f vs s HR) Hc Hne Hwf Hfit loop_fuel_enough) as (s' & ol & HR' & Ho & _ & Hloop).
  exists s', ol. split; [exact HR'|]. split; [exact Ho|].
  etransitivity.
  { rewrite <- Hstrip in Hsplit.
    exact (while_line_lemma fo (child_of d) cx (loop_arg c e) (nu n) (itemsN (n + 1)%Z body) rest acc s c e
             Hblank Hine Hsplit). }
  unfold bindM.
  match goal with |- context [while_loop ?a1 ?a2 ?a3 ?a4 ?a5 ?a6 ?a7 ?a8 ?a9 ?a10 ?a11] =>
    replace (while_loop a1 a2 a3 a4 a5 a6 a7 a8 a9 a10 a11) with (s', @IOk cret (mkCret ol SNormal))
      by (symmetry; exact Hloop) end.
  reflexivity.
Qed.

(* ------------------------------------------------------------------ IF chains *)
Lemma take_common : forall d cx a1 n' body nl rest els tail acc sT g F vs sg f1 vs1 out,
  a_body a1 = itemsN n' body ->
  P_list None vs body sg f1 vs1 out ->
  R g F (Some true) vs sT -> s_line2 sT = None ->
  wf_list body -> fits d cx (S (nesting_list body)) -> all_list wf_arm rest -> wf_else els ->
  (sg = Normal ->
   Forall (fun cb : str * list stmt => exists v', eval fo sys (Some true) (copy_back fo vs vs1) (fst cb) v') rest) ->
  exists s' ol, R g F (Some true) (copy_back fo vs vs1) s' /\ map o_text ol = out /\
    take_arm fo (child_of d) cx a1 (chain_items (arms_of false nl rest els) ++ tail) acc sT =
    continue_with (child_of d) cx sg tail (acc ++ ol) s'.
Proof.
  intros d cx a1 n' body nl rest els tail acc sT g F vs sg f1 vs1 out Hbody IHb HR Hl2 Hwfb Hfit Hwfr Hwfe Hlater.
  destruct if_family_dispatch as [bc [Hbc Hd]].
  destruct (body_block_plain d cx (a_line a1, a_num a1) n' body sT g F (Some true) vs sg f1 vs1 out IHb HR Hwfb Hfit)
    as (s' & ol & HR' & Hl' & Ho & Hrun).
  exists s', ol. split; [exact HR'|]. split; [exact Ho|].
  unfold take_arm, bindM. rewrite Hbody, Hrun. rewrite go_on_after_branch, go_on_continue.
  destruct sg; try reflexivity. cbn [continue_with].
  apply (skip_later fo (child_of d) cx bc Hbc Hd).
  - apply arms_ok; assumption.
  - apply arms_non_if.
  - exact (R_flag_of g F true _ s' HR').
  - rewrite Hl'. exact Hl2.
  - apply (later_evaluate g F (copy_back fo vs vs1) s'); [exact HR'|exact Hwfr|]. apply Hlater. reflexivity.
Qed.

Lemma case_a_take : forall b vs c body rest els v sg f1 vs1 out,
  eval fo sys (Some b) vs c v -> truthy fo v = true ->
  P_list None vs body sg f1 vs1 out ->
  (sg = Normal ->
   Forall (fun cb : str * list stmt => exists v', eval fo sys (Some true) (copy_back fo vs vs1) (fst cb) v') rest) ->
  P_arms b vs ((c, body) :: rest) els sg true (copy_back fo vs vs1) out.
Proof.
  intros b vs c body rest els v sg f1 vs1 out Hv Ht IHb Hlater first d cx n tail acc s g F Hfirst Hwfa Hwfe Hfit.
  destruct if_family_dispatch as [bc [Hbc Hd]].
  destruct Hwfa as [(Hc & Hbne & Hwfb) Hwfr].
  rewrite arms_items_chain. cbn [arms_of chain_items flat_map]. fold (chain_items (arms_of false (n + 1 + sum_sizes size body)%Z rest els)).
  rewrite <- app_assoc.
  set (a1 := cond_arm (if first then AIf else AElif) c (nu n) (itemsN (n + 1)%Z body)).
  set (later := arms_of false (n + 1 + sum_sizes size body)%Z rest els).
  assert (Hok1 : arm_ok a1).
  { apply cond_arm_ok; [destruct first; discriminate|apply expr_ok_blank; exact Hc|].
    apply wf_list_items_nonempty; assumption. }
  assert (Hstep : exists sT, R g F (Some true) vs sT /\ s_line2 sT = None /\
            exec_cmds fo (child_of d) cx (arm_items a1 ++ chain_items later ++ tail) acc s =
            take_arm fo (child_of d) cx a1 (chain_items later ++ tail) acc sT).
  { destruct first.
    - destruct Hfirst as (f0 & HR & -> & _).
      exists (with_flag fo true (clear_line2 fo s)). split; [apply (R_with_flag g F f0); exact HR|]. split; [reflexivity|].
      apply (if_arm_true fo (child_of d) cx bc Hbc Hd a1 _ acc s Hok1 eq_refl).
      rewrite <- Ht. apply (cond_evals g F (Some (flag_or_false f0)) vs); [|exact Hc|exact Hv].
      apply R_ensure_flag. exact HR.
    - destruct Hfirst as (HR & ->).
      exists (with_flag fo true (clear_line2 fo s)). split; [apply (R_with_flag g F (Some false)); exact HR|]. split; [reflexivity|].
      unfold arm_items. cbn [app]. rewrite exec_cmds_clear by (apply arm_line_nonblank; exact Hok1).
      apply (search_take fo (child_of d) cx bc Hbc Hd [] a1 later tail acc (clear_line2 fo s)).
      + cbn [app]. constructor; [exact Hok1|]. apply arms_ok; assumption.
      + cbn [app]. constructor; [apply non_if_elif|apply arms_non_if].
      + exact (R_flag_of g F false vs (clear_line2 fo s) HR).
      + exact (R_ensure_id g F false vs (clear_line2 fo s) HR).
      + reflexivity.
      + constructor.
      + rewrite <- Ht. apply (cond_evals g F (Some false) vs); [exact HR|exact Hc|exact Hv]. }
  destruct Hstep as (sT & HRT & HlT & Hstep). rewrite Hstep.
  apply (take_common d cx a1 (n + 1)%Z body _ rest els tail acc sT g F vs sg f1 vs1 out eq_refl IHb HRT HlT Hwfb
           (fits_le d cx _ _ Hfit (nest_arms_cons_body c body rest els)) Hwfr Hwfe Hlater).
Qed.

Lemma case_a_skip : forall b vs c body rest els v sg taken vs' out,
  eval fo sys (Some b) vs c v -> truthy fo v = false ->
  P_arms false vs rest els sg taken vs' out ->
  P_arms b vs ((c, body) :: rest) els sg taken vs' out.
Proof.
  intros b vs c body rest els v sg taken vs' out Hv Ht IH first d cx n tail acc s g F Hfirst Hwfa Hwfe Hfit.
  destruct if_family_dispatch as [bc [Hbc Hd]].
  destruct Hwfa as [(Hc & Hbne & Hwfb) Hwfr].
  rewrite arms_items_chain. cbn [arms_of chain_items flat_map]. fold (chain_items (arms_of false (n + 1 + sum_sizes size body)%Z rest els)).
  rewrite <- app_assoc. rewrite <- arms_items_chain.
  set (a1 := cond_arm (if first then AIf else AElif) c (nu n) (itemsN (n + 1)%Z body)).
  assert (Hok1 : arm_ok a1).
  { apply cond_arm_ok; [destruct first; discriminate|apply expr_ok_blank; exact Hc|].
    apply wf_list_items_nonempty; assumption. }
  assert (Hstep : exists s1, R g F (Some false) vs s1 /\
            forall T, exec_cmds fo (child_of d) cx (arm_items a1 ++ T) acc s = exec_cmds fo (child_of d) cx T acc s1).
  { destruct first.
    - destruct Hfirst as (f0 & HR & -> & _).
      exists (with_flag fo false (clear_line2 fo s)). split; [apply (R_with_flag g F f0); exact HR|]. intro T.
      apply (if_arm_false fo (child_of d) cx bc Hbc Hd a1 T acc s Hok1 eq_refl).
      rewrite <- Ht. apply (cond_evals g F (Some (flag_or_false f0)) vs); [|exact Hc|exact Hv].
      apply R_ensure_flag. exact HR.
    - destruct Hfirst as (HR & ->).
      exists (clear_line2 fo s). split; [exact HR|]. intro T.
      unfold arm_items. cbn [app]. rewrite exec_cmds_clear by (apply arm_line_nonblank; exact Hok1).
      apply (search_none fo (child_of d) cx bc Hbc Hd [a1] T acc (clear_line2 fo s)).
      + constructor; [exact Hok1|constructor].
      + constructor; [apply non_if_elif|constructor].
      + exact (R_flag_of g F false vs (clear_line2 fo s) HR).
      + exact (R_ensure_id g F false vs (clear_line2 fo s) HR).
      + reflexivity.
      + constructor; [|constructor]. rewrite <- Ht. apply (cond_evals g F (Some false) vs); [exact HR|exact Hc|exact Hv]. }
  destruct Hstep as (s1 & HR1 & Hstep). rewrite Hstep.
  apply (IH false d cx _ tail acc s1 g F (conj HR1 eq_refl) Hwfr Hwfe
           (fits_le d cx _ _ Hfit (nest_arms_cons_rest c body rest els))).
Qed.

Lemma case_a_else : forall b vs body sg f1 vs1 out,
  P_list None vs body sg f1 vs1 out ->
  P_arms b vs [] (Some body) sg true (copy_back fo vs vs1) out.
Proof.
  intros b vs body sg f1 vs1 out IHb first d cx n tail acc s g F Hfirst _ Hwfe Hfit.
  destruct if_family_dispatch as [bc [Hbc Hd]].
  destruct first; [destruct Hfirst as (f0 & _ & _ & Hne); contradiction|].
  destruct Hfirst as (HR & ->). destruct Hwfe as [Hbne Hwfb].
  rewrite arms_items_chain. cbn [arms_of].
  set (a1 := else_arm (nu n) (itemsN (n + 1)%Z body)).
  assert (Hok1 : arm_ok a1) by (apply else_arm_ok; apply wf_list_items_nonempty; assumption).
  assert (Hstep : exec_cmds fo (child_of d) cx (chain_items [a1] ++ tail) acc s =
                  take_arm fo (child_of d) cx a1 (chain_items (arms_of false 0%Z [] None) ++ tail) acc
                           (with_flag fo true (clear_line2 fo s))).
  { cbn [chain_items flat_map arm_items app]. rewrite exec_cmds_clear by (apply arm_line_nonblank; exact Hok1).
    apply (search_take fo (child_of d) cx bc Hbc Hd [] a1 [] tail acc (clear_line2 fo s)).
    + constructor; [exact Hok1|constructor].
    + constructor; [apply non_if_else|constructor].
    + exact (R_flag_of g F false vs (clear_line2 fo s) HR).
    + exact (R_ensure_id g F false vs (clear_line2 fo s) HR).
    + reflexivity.
    + constructor.
    + apply evals_else_arm. reflexivity. }
  rewrite Hstep.
  apply (take_common d cx a1 (n + 1)%Z body 0%Z [] None tail acc (with_flag fo true (clear_line2 fo s))
           g F vs sg f1 vs1 out eq_refl IHb
           (R_with_flag g F (Some false) vs (clear_line2 fo s) true HR) eq_refl Hwfb
           (fits_le d cx _ _ Hfit (nest_arms_else body)) I I).
  intros _. constructor.
Qed.

Lemma case_a_none : forall b vs, P_arms b vs [] None Normal false vs [].
Proof.
  intros b vs first d cx n tail acc s g F Hfirst _ _ _.
  destruct first; [destruct Hfirst as (f0 & _ & _ & Hne); contradiction|].
  destruct Hfirst as (HR & _). exists s, []. split; [exact HR|]. split; [reflexivity|].
  rewrite app_nil_r. reflexivity.
Qed.

Lemma case_if : forall f vs arms els sg taken vs' out,
  P_arms (flag_or_false f) vs arms els sg taken vs' out ->
  P_exec f vs (SIf arms els) sg (Some taken) vs' out.
Proof.
  intros f vs arms els sg taken vs' out IH d cx n rest acc s g F HR Hwf Hfit _.
  apply wf_if_unfold in Hwf. destruct Hwf as (Hne & Hwfa & Hwfe).
  rewrite stmt_items_if.
  apply (IH true d cx n rest acc s g F); [|exact Hwfa|exact Hwfe|exact Hfit].
  exists f. split; [exact HR|]. split; [reflexivity|exact Hne].
Qed.

(* ------------------------------------------------------------------ the induction *)
Theorem refine_all :
  (forall f vs stm sg f' vs' out, exec fo sys f vs stm sg f' vs' out -> P_exec f vs stm sg f' vs' out) /\
  (forall f vs p sg f' vs' out, exec_list fo sys f vs p sg f' vs' out -> P_list f vs p sg f' vs' out) /\
  (forall b vs arms els sg taken vs' out,
     exec_arms fo sys b vs arms els sg taken vs' out -> P_arms b vs arms els sg taken vs' out) /\
  (forall f c e body k vs vs' out,
     exec_repeat fo sys f c e body k vs vs' out -> P_repeat f c e body k vs vs' out) /\
  (forall c e body k vs vs' out,
     exec_while fo sys c e body k vs vs' out -> P_while c e body k vs vs' out).
Proof.
  apply (exec_all_mind fo sys P_exec P_list P_arms P_repeat P_while).
  - intros. apply case_emit.
  - intros. eapply case_emit_eval; eassumption.
  - intros. eapply case_var; eassumption.
  - intros. eapply case_if; eassumption.
  - intros. eapply case_repeat; eassumption.
  - intros. eapply case_while; eassumption.
  - intros. apply case_break.
  - intros. apply case_continue.
  - intros. apply case_nil.
  - intros. eapply case_cons; eassumption.
  - intros. eapply case_stop; eassumption.
  - intros. eapply case_a_take; eassumption.
  - intros. eapply case_a_skip; eassumption.
  - intros. eapply case_a_else; eassumption.
  - intros. apply case_a_none.
  - intros. eapply case_r_done; eassumption.
  - intros. eapply case_r_iter; eassumption.
  - intros. eapply case_r_break; eassumption.
  - intros. eapply case_w_done; eassumption.
  - intros. eapply case_w_iter; eassumption.
  - intros. eapply case_w_break; eassumption.
Qed.

(* ------------------------------------------------------------------ Stack.run of a whole program *)
Theorem refine_exec_cmds : forall f vs p sg f' vs' out d cx n acc s g F,
  exec_list fo sys f vs p sg f' vs' out ->
  wf_list p -> fits d cx (nesting_list p) -> R g F f vs s ->
  exists s' ol, R g F f' vs' s' /\ map o_text ol = out /\
    exec_cmds fo (child_of d) cx (itemsN n p) acc s = (s', IOk (mkCret (acc ++ ol) (sig_of sg))).
Proof.
  intros f vs p sg f' vs' out d cx n acc s g F Hex Hwf Hfit HR.
  destruct refine_all as (_ & Hl & _). exact (Hl f vs p sg f' vs' out Hex d cx n acc s g F HR Hwf Hfit).
Qed.

Theorem refine_run : forall vs p sg f' vs' out d cx n g F,
  exec_list fo sys None vs p sg f' vs' out ->
  wf_list p -> fits d cx (nesting_list p) -> nodup_keys vs ->
  exists ol, map o_text ol = out /\
    run fo d cx g (mkEnv fo sys vs [] F) (itemsN n p) =
    (g, IOk (mkCret ol (sig_of sg), mkEnv fo sys vs' (flag_var fo f') F)).
Proof.
  intros vs p sg f' vs' out d cx n g F Hex Hwf Hfit Hnd.
  destruct (refine_exec_cmds None vs p sg f' vs' out d cx n [] (state_of g F None vs None) g F Hex Hwf Hfit
              (state_of_R g F None vs None Hnd)) as (s' & ol & HR' & Ho & E).
  exists ol. split; [exact Ho|].
  rewrite run_child_of. unfold run_with. unfold CoreRefine.state_of in E. cbn [flag_var app] in E. rewrite E.
  rewrite (R_state_of g F f' vs' s' HR'). reflexivity.
Qed.

End RefineNum.

(* ================================================================== Compiler.compile *)
Theorem refine_compile_items_num : forall fo (nu : Z -> Z) o fs file p sg f' vs' out,
  runs fo p sg f' vs' out -> wf_list p -> (Z.of_nat (nesting_list p) < stack_limit o)%Z ->
  exists ol, map o_text ol = out /\
    compile_items fo o fs file (renum nu (items_of p)) =
    (mkGlob [] (stray_warnings sg),
     IOk (mkCompiled fo ol (stray_warnings sg) (mkEnv fo (initial_sys fo) vs' (flag_var fo f') []) [])).
Proof.
  intros fo nu o fs file p sg f' vs' out Hrun Hwf Hnest. unfold runs in Hrun.
  assert (Hfit : fits (run_depth o) (mkCtx o fs [] file) (nesting_list p)).
  { unfold fits, run_depth. cbn [c_pile c_opts length]. split; lia. }
  destruct (refine_run fo (initial_sys fo) (initial_sys_nodup fo) nu [] p sg f' vs' out (run_depth o) (mkCtx o fs [] file) 1%Z
              (mkGlob [] []) [] Hrun Hwf Hfit) as (ol & Ho & E).
  { constructor. }
  exists ol. split; [exact Ho|].
  unfold compile_items. rewrite initial_env_eq. unfold items_of. unfold itemsN in E. rewrite E.
  unfold stray_warnings. destruct sg; reflexivity.
Qed.
