(* C12c, part 3: START f behaves as if the text of f stood at that point.
   Run A:  exec_cmds (run d) cx (pre ++ Ln c n :: post) acc s      (the import)
   Run B:  exec_cmds (run d) cx (pre ++ body ++ post) acc s        (the pasted text)   *)
From Coq Require Import NArith ZArith List Bool Lia.
From DS Require Import Base PyStr Values Expr TabParse Tables Constants Interp.
From DS Require Import ScopeProofs ScopeInvariant UnknownWarn StartLaws StartLines PasteBase PasteLift.
Import ListNotations.
Arguments IOk {A}. Arguments IErr {A}. Arguments ICrash {A}. Arguments IUnmod {A}.

Definition no_lead_blk (l : list item) : Prop := match l with Blk _ :: _ => False | _ => True end.

Section Top.
Variable fo : FloatOps.
Notation st := (@Interp.st fo).
Notation env := (@Interp.env fo).
Notation s_g := (@Interp.s_g fo).
Notation s_env := (@Interp.s_env fo).
Notation e_sys := (@Interp.e_sys fo).
Notation e_user := (@Interp.e_user fo).
Notation e_temp := (@Interp.e_temp fo).
Notation e_funcs := (@Interp.e_funcs fo).
Notation mkSt := (@Interp.mkSt fo).
Notation exec_cmds := (@Interp.exec_cmds fo).
Notation exec_line := (@Interp.exec_line fo).
Notation run := (@Interp.run fo).
Notation no_child := (@Interp.no_child fo).
Notation append_env := (@Interp.append_env fo).
Notation empty_env := (@Interp.empty_env fo).

(* ------------------------------------------------------------------ splitting a stack *)
Lemma exec_cmds_app_gen : forall child cx pre rest acc s, no_lead_blk rest ->
  exec_cmds child cx (pre ++ rest) acc s =
  continue_with fo (exec_cmds child cx pre acc s) (exec_cmds child cx rest).
Proof.
  intros child cx pre rest. induction pre as [|[c' n'|b] pre IH]; intros acc s Hr.
  - reflexivity.
  - cbn [app]. cbn [exec_cmds]. fold (exec_cmds child cx). destruct (is_blank c'); [apply IH; exact Hr|].
    replace (match pre ++ rest with Blk b :: _ => Some b | _ => None end)
      with (match pre with Blk b :: _ => Some b | _ => None end).
    2:{ destruct pre as [|[?c ?n|?b] ?]; try reflexivity. cbn [app].
        destruct rest as [|[?c ?n|?b] ?]; try reflexivity. contradiction. }
    unfold bindM at 1 3. unfold set_line2. unfold bindM.
    destruct (exec_line _ _ _ _ _ _) as [s1 [cr|e t|k|]]; try reflexivity.
    destruct (cr_sig cr) eqn:Es; try (unfold ret, continue_with; cbn [cr_sig]; reflexivity).
    apply IH. exact Hr.
  - cbn [app exec_cmds]. apply IH. exact Hr.
Qed.

(* ------------------------------------------------------------------ the children of a stack are [run]s *)
Section Children.
Variables (o : options) (fs : fsys) (tA tB : path).

Lemma hchild_run : forall dA dB pileA pileB fileA fileB,
  (stack_limit o <= Z.of_nat (length pileA) + 1 + Z.of_nat dA)%Z ->
  (stack_limit o <= Z.of_nat (length pileB) + 1 + Z.of_nat dB)%Z ->
  (length pileB <= length pileA)%nat ->
  incl (live_files (mkCtx o fs pileB fileB)) (live_files (mkCtx o fs pileA fileA)) ->
  In (Some tB) (live_files (mkCtx o fs pileA fileA)) ->
  forall cur l2A l2B fA fB gA gB eA eB code,
    cmp_eval stack_limit_op (pile_len (mkCtx o fs pileA fileA)) (stack_limit o) = false ->
    mode tA tB fA fB code -> Rg gA gB -> Renv fo tA tB eA eB ->
    postR fo tA tB eB
      ((match dA with O => no_child | S d => run d end) (mkCtx o fs (here (mkCtx o fs pileA fileA) cur l2A) fA) gA eA code)
      ((match dB with O => no_child | S d => run d end) (mkCtx o fs (here (mkCtx o fs pileB fileB) cur l2B) fB) gB eB code).
Proof.
  intros dA dB pileA pileB fileA fileB HdA HdB Hlen Hincl HtB cur l2A l2B fA' fB' gA' gB' eA' eB' code' Hlim Hm' Hg' He'.
  unfold stack_limit_op, pile_len in Hlim. cbn [cmp_eval c_pile] in Hlim. apply Z.leb_gt in Hlim.
  destruct dA as [|dA]; [exfalso; lia|]. destruct dB as [|dB]; [exfalso; lia|].
  assert (HfilesA : live_files (mkCtx o fs (here (mkCtx o fs pileA fileA) cur l2A) fA') =
                    live_files (mkCtx o fs pileA fileA) ++ [fA']).
  { unfold live_files at 1. cbn [c_pile c_file]. rewrite live_files_here. reflexivity. }
  assert (HfilesB : live_files (mkCtx o fs (here (mkCtx o fs pileB fileB) cur l2B) fB') =
                    live_files (mkCtx o fs pileB fileB) ++ [fB']).
  { unfold live_files at 1. cbn [c_pile c_file]. rewrite live_files_here. reflexivity. }
  apply rel_run; try assumption.
  - unfold here. rewrite app_length. cbn [length c_pile]. lia.
  - unfold here. rewrite app_length. cbn [length c_pile]. lia.
  - unfold here. rewrite !app_length. cbn [length c_pile]. lia.
  - rewrite HfilesA, HfilesB. intros x Hin. apply in_app_or in Hin. apply in_or_app.
    destruct Hin as [Hin|[<-|[]]]; [left; apply Hincl; exact Hin|].
    assert (Hfp' : filepair tA tB fA' fB') by (destruct Hm' as [[Hf _]|[_ Hp]]; [left; exact Hf|exact Hp]).
    destruct Hfp' as [Hf|[_ Hf]]; [right; left; exact Hf|left; rewrite Hf; exact HtB].
  - rewrite HfilesA. apply in_or_app. left. exact HtB.
Qed.
End Children.

(* ------------------------------------------------------------------ merging the child environment back *)
Definition funcs_filed (e : env) : Prop :=
  Forall (fun kf : str * func => fn_file (snd kf) <> None \/ clean (fn_code (snd kf))) (e_funcs e).

Lemma Ral_func_refl : forall tA tB (l : list (str * func)),
  Forall (fun kf => fn_file (snd kf) <> None \/ clean (fn_code (snd kf))) l -> Ral (func_rel tA tB) l l.
Proof.
  intros tA tB l H. induction H as [|[k f] l Hf _ IH]; constructor; [|exact IH].
  split; [reflexivity|]. cbn [snd] in *. unfold func_rel. split; [reflexivity|]. split; [reflexivity|].
  destruct Hf as [Hf|Hf]; [left; split; [reflexivity|exact Hf]|right; split; [exact Hf|left; reflexivity]].
Qed.

Lemma Rg_refl : forall g, Rg g g.
Proof. intro g. split; reflexivity. Qed.

(* the environment f starts with is the importer's, except for the (empty) temp table *)
Lemma Renv_copy : forall tA tB p, env_wf fo p -> funcs_filed p -> e_temp p = [] ->
  Renv fo tA tB (append_env empty_env p) p.
Proof.
  intros tA tB p (H1 & H2 & H3 & H4) Hf Ht. unfold append_env, empty_env, Renv.
  cbn [Interp.e_sys Interp.e_user Interp.e_temp Interp.e_funcs].
  rewrite !upd_all_nil_nodup by assumption. repeat split; [symmetry; exact Ht|].
  apply Ral_func_refl. exact Hf.
Qed.

(* "everything but the temp table" *)
Definition Renv_nt (tA tB : path) (eA eB : env) : Prop :=
  e_sys eA = e_sys eB /\ e_user eA = e_user eB /\ Ral (func_rel tA tB) (e_funcs eA) (e_funcs eB).

Lemma merge_back : forall tA tB p cA eB,
  Renv fo tA tB cA eB -> ext fo p eB -> env_wf fo eB ->
  Renv_nt tA tB (append_env p cA) eB /\ e_temp (append_env p cA) = e_temp p.
Proof.
  intros tA tB p cA eB (H1 & H2 & H3 & H4) ([x1 X1] & [x2 X2] & [x3 X3]) (W1 & W2 & W3 & W4).
  unfold append_env, Renv_nt. cbn [Interp.e_sys Interp.e_user Interp.e_temp Interp.e_funcs].
  split; [|reflexivity]. rewrite H1, H2.
  rewrite (upd_all_self_ext (e_sys p) (e_sys eB) x1 W1 X1).
  rewrite (upd_all_self_ext (e_user p) (e_user eB) x2 W2 X2).
  split; [reflexivity|]. split; [reflexivity|].
  pose proof (Ral_keys _ _ _ H4) as Hk.
  rewrite (upd_all_self_ext (e_funcs p) (e_funcs cA) x3).
  - exact H4.
  - unfold nodup_keys. rewrite Hk. exact W4.
  - rewrite Hk. exact X3.
Qed.

(* ------------------------------------------------------------------ the result relation of the theorem *)
Definition paste_rel (tA tB : path) (xA xB : st * ires cret) : Prop :=
  escA (snd xA) \/
  (Rg (s_g (fst xA)) (s_g (fst xB)) /\ rres eq (snd xA) (snd xB) /\
   (forall crA, snd xA = IOk crA -> Renv fo tA tB (s_env (fst xA)) (s_env (fst xB)))).

(* when the START line is the last command the temp tables may differ *)
Definition paste_rel_last (tA tB : path) (xA xB : st * ires cret) : Prop :=
  escA (snd xA) \/
  (Rg (s_g (fst xA)) (s_g (fst xB)) /\ rres eq (snd xA) (snd xB) /\
   (forall crA, snd xA = IOk crA -> Renv_nt tA tB (s_env (fst xA)) (s_env (fst xB)))).

Section Main.
Variables (d : nat) (o : options) (fs : fsys) (pile : list frame) (file target : path).
Notation cx := (mkCtx o fs pile (Some file)).
Variables (c : str) (n : Z) (cmd a cname : str) (sc : simple_cls) (text : str) (body : list item).

Hypothesis Hline : start_line cx c cmd a cname sc.
Hypothesis Hup : upper cmd = s_START.
Hypothesis Hblank : is_blank c = false.
Hypothesis Hres : resolve_start file (strip a) = Ok target.
Hypothesis Hfs : fs target = Some text.
Hypothesis Hcirc : circ cx target = false.
Hypothesis Hparse : prepare_text text = TOk body.
Hypothesis Hclean : clean body.
Hypothesis Hdepth : (stack_limit o <= Z.of_nat (length pile) + 2 + Z.of_nat d)%Z.

Notation cx' l2 := (mkCtx o fs (here cx (c, n) l2) (Some target)).

(* ---- the body of f: as a child stack (A) and in place (B) *)
Lemma body_sim : forall l2 acc1 (s1 : st),
  env_wf fo (s_env s1) -> funcs_filed (s_env s1) -> e_temp (s_env s1) = [] ->
  cmp_eval stack_limit_op (pile_len cx) (stack_limit o) = false ->
  post fo target file (RCacc [] acc1) (s_env s1)
    (exec_cmds (match d with O => no_child | S d' => run d' end) (cx' l2) body []
       (mkSt (s_g s1) (append_env empty_env (s_env s1)) None))
    (exec_cmds (run d) cx body acc1 s1).
Proof.
  intros l2 acc1 s1 Hwf Hff Ht Hlim.
  unfold stack_limit_op, pile_len in Hlim. cbn [cmp_eval c_pile] in Hlim. apply Z.leb_gt in Hlim.
  assert (Hlf : live_files (cx' l2) = live_files cx ++ [Some target]).
  { unfold live_files at 1. cbn [c_pile c_file]. rewrite live_files_here. reflexivity. }
  refine (rel_exec_cmds fo o fs target file _ (run d) (here cx (c, n) l2) pile (Some target) (Some file)
            _ _ _ _ body [] acc1 _ _ s1 _).
  - unfold here. rewrite app_length. cbn [c_pile]. lia.
  - right. split; reflexivity.
  - rewrite Hlf. intros x Hin. apply in_or_app. left. exact Hin.
  - change (run d) with (match S d with O => no_child | S d' => run d' end).
    apply hchild_run.
    + unfold here. rewrite app_length. cbn [length c_pile]. lia.
    + lia.
    + unfold here. rewrite app_length. cbn [c_pile]. lia.
    + rewrite Hlf. intros x Hin. apply in_or_app. left. exact Hin.
    + rewrite Hlf. apply in_or_app. left. unfold live_files. cbn [c_file]. apply in_or_app. right. left. reflexivity.
  - right. split; [exact Hclean|right; split; reflexivity].
  - split; cbn [Interp.s_g Interp.s_env]; [apply Rg_refl|apply Renv_copy; assumption].
Qed.

(* ---- what follows f: the same stack in both runs *)
Lemma rest_sim : forall rest acc2 (sA sB : st), Rs fo target file sA sB ->
  post fo target file (RCacc acc2 acc2) (s_env sB)
    (exec_cmds (run d) cx rest acc2 sA) (exec_cmds (run d) cx rest acc2 sB).
Proof.
  intros rest acc2 sA sB Hs.
  refine (rel_exec_cmds fo o fs target file (run d) (run d) pile pile (Some file) (Some file)
            _ _ _ _ rest acc2 acc2 _ sA sB Hs).
  - apply le_n.
  - left. reflexivity.
  - intros x Hin. exact Hin.
  - change (run d) with (match S d with O => no_child | S d' => run d' end).
    apply hchild_run.
    + lia.
    + lia.
    + apply le_n.
    + intros x Hin. exact Hin.
    + unfold live_files. cbn [c_file]. apply in_or_app. right. left. reflexivity.
  - left. split; [reflexivity|discriminate].
Qed.

Lemma RCacc_same : forall acc crA crB, RCacc acc acc crA crB -> crA = crB.
Proof.
  intros acc [dA sA] [dB sB] [Hs (x & H1 & H2)]. cbn [cr_sig cr_data] in *. subst. reflexivity.
Qed.

(* ---- the START line (A) against the body in place (B) *)
Definition line_rel (acc1 : list oline) (s1 : st) (xA xB : st * ires cret) : Prop :=
  escA (snd xA) \/
  (Rg (s_g (fst xA)) (s_g (fst xB)) /\
   match snd xA, snd xB with
   | IOk crA, IOk crB =>
       cr_sig crA = SNormal /\ cr_sig crB = SNormal /\ cr_data crB = acc1 ++ cr_data crA /\
       Renv_nt target file (s_env (fst xA)) (s_env (fst xB)) /\
       e_temp (s_env (fst xA)) = e_temp (s_env s1)
   | IErr e _, IErr e' _ => e = e'
   | ICrash k, ICrash k' => k = k'
   | IUnmod, IUnmod => True
   | _, _ => False
   end).

Lemma line_sim : forall acc1 (s1 : st),
  env_wf fo (s_env s1) -> funcs_filed (s_env s1) -> e_temp (s_env s1) = [] ->
  (forall sB crB, exec_cmds (run d) cx body acc1 s1 = (sB, IOk crB) -> cr_sig crB = SNormal) ->
  line_rel acc1 s1
    (exec_line (run d) cx c n None (mkSt (s_g s1) (s_env s1) None))
    (exec_cmds (run d) cx body acc1 s1).
Proof.
  intros acc1 s1 Hwf Hff Ht Hsig.
  rewrite (start_line_exec fo (run d) cx c n cmd a cname sc _ Hline). unfold bindM.
  cbn [Interp.s_g Interp.s_env].
  rewrite (start_unfold fo (run d) cx (c, n) cname sc cmd (mkLine (AStr (strip a)) n (c, n)) file target text body _
             (sl_run _ _ _ _ _ _ Hline) eq_refl Hres Hfs Hcirc Hparse).
  destruct (start_body fo (run d) cx (c, n) cmd target body _) as [sA' rA'] eqn:Eb.
  apply start_body_inv in Eb. cbn [Interp.s_g Interp.s_env Interp.s_line2] in Eb.
  destruct Eb as [(_ & -> & ->)|(Hlim & g' & rc0 & Hch & Hrc)].
  { left. exact I. }
  unfold below_stack_limit in Hlim. cbn [c_opts] in Hlim.
  unfold start_ctx in Hch. cbn [c_opts c_fs] in Hch.
  rewrite run_unfold in Hch. unfold run_with in Hch.
  pose proof (body_sim (Some (c, n)) acc1 s1 Hwf Hff Ht Hlim) as Hsim.
  destruct (exec_cmds (match d with O => no_child | S d' => run d' end) _ body [] _) as [sA2 rA2].
  destruct (exec_cmds (run d) cx body acc1 s1) as [sB2 rB2] eqn:EB.
  unfold post in Hsim. cbn [fst snd] in Hsim.
  destruct Hsim as [Hesc|((Hg & He) & Hx & Hr)].
  - (* the child escaped *)
    left. destruct rA2 as [crA|e t|k|]; cbn [escA] in Hesc; try contradiction.
    injection Hch as <- <-. destruct Hrc as [-> ->]. cbn [snd]. exact Hesc.
  - right. destruct rA2 as [crA|e t|k|], rB2 as [crB|e' t'|k'|]; cbn [rres] in Hr; try contradiction;
      injection Hch as <- <-.
    + (* both ran to the end *)
      destruct Hrc as [-> ->]. destruct Hr as [Hsg (dd & H1 & H2)].
      pose proof (Hsig sB2 crB eq_refl) as HsB. rewrite HsB in Hsg. rewrite Hsg.
      rewrite Hup. cbn [fst snd Interp.s_g Interp.s_env].
      change (str_eqb s_START s_STARTCODE) with false. change (str_eqb s_START s_STARTENV) with false.
      cbn [rc_cret cr_data cr_sig ret fst snd Interp.s_g Interp.s_env].
      split; [rewrite sig_warned_normal; exact Hg|].
      split; [reflexivity|]. split; [exact HsB|]. split; [rewrite H2, H1; reflexivity|].
      assert (HwfB : env_wf fo (s_env sB2)) by (eapply (pres_exec_cmds fo); [exact Hwf|exact EB]).
      destruct (merge_back target file (s_env s1) (s_env sA2) (s_env sB2) He Hx HwfB) as [Hm Htm].
      split; [exact Hm|exact Htm].
    + destruct Hrc as [-> ->]. cbn [fst snd Interp.s_g]. split; [exact Hg|exact Hr].
    + destruct Hrc as [-> ->]. cbn [fst snd Interp.s_g]. split; [exact Hg|exact Hr].
    + destruct Hrc as [-> ->]. cbn [fst snd Interp.s_g]. split; [exact Hg|exact I].
Qed.

(* ================================================================== the theorems *)
Variables (pre post : list item) (acc acc1 : list oline) (s s1 : st).
Hypothesis Hbody_blk : no_lead_blk body.
Hypothesis Hpost_blk : no_lead_blk post.
Hypothesis Hpre : exec_cmds (run d) cx pre acc s = (s1, IOk (mkCret acc1 SNormal)).
Hypothesis Hwf : env_wf fo (s_env s1).
Hypothesis Hff : funcs_filed (s_env s1).
Hypothesis Ht : e_temp (s_env s1) = [].
Hypothesis Hsig : forall sB crB,
  exec_cmds (run d) cx body acc1 s1 = (sB, IOk crB) -> cr_sig crB = SNormal.

Lemma runA_unfold :
  exec_cmds (run d) cx (pre ++ Ln c n :: post) acc s =
  match exec_line (run d) cx c n None (mkSt (s_g s1) (s_env s1) None) with
  | (sA, IOk crA) =>
      match cr_sig crA with
      | SNormal => exec_cmds (run d) cx post (acc1 ++ cr_data crA) sA
      | sg => (sA, IOk (mkCret (acc1 ++ cr_data crA) sg))
      end
  | (sA, IErr e t) => (sA, IErr e t)
  | (sA, ICrash k) => (sA, ICrash k)
  | (sA, IUnmod) => (sA, IUnmod)
  end.
Proof.
  rewrite exec_cmds_app, Hpre. cbn [continue_with cr_sig cr_data].
  cbn [exec_cmds]. rewrite Hblank.
  assert (Hcb : match post with Blk b :: _ => Some b | _ => None end = None).
  { destruct post as [|[c' n'|b] r]; try reflexivity. contradiction. }
  rewrite Hcb. unfold bindM at 1, set_line2 at 1. unfold bindM at 1.
  destruct (exec_line _ _ _ _ _ _) as [sA [crA|e t|k|]]; try reflexivity.
  destruct (cr_sig crA); reflexivity.
Qed.

Lemma runB_unfold :
  exec_cmds (run d) cx (pre ++ body ++ post) acc s =
  continue_with fo (exec_cmds (run d) cx body acc1 s1) (exec_cmds (run d) cx post).
Proof.
  rewrite exec_cmds_app_gen.
  2:{ destruct body as [|[c' n'|b] r]; cbn [app]; try exact I; [exact Hpost_blk|contradiction]. }
  rewrite Hpre. cbn [continue_with cr_sig cr_data].
  apply exec_cmds_app_gen. exact Hpost_blk.
Qed.

(* general [post]: the body must leave the temp table (the $IF_SUCCESS flag) empty as it found it *)
Theorem start_paste_lemma :
  (forall sB crB, exec_cmds (run d) cx body acc1 s1 = (sB, IOk crB) -> e_temp (s_env sB) = []) ->
  paste_rel target file
    (exec_cmds (run d) cx (pre ++ Ln c n :: post) acc s)
    (exec_cmds (run d) cx (pre ++ body ++ post) acc s).
Proof.
  intro Htemp2. rewrite runA_unfold, runB_unfold.
  pose proof (line_sim acc1 s1 Hwf Hff Ht Hsig) as Hl.
  destruct (exec_line (run d) cx c n None _) as [sA rA].
  destruct (exec_cmds (run d) cx body acc1 s1) as [sB rB] eqn:EB.
  unfold line_rel in Hl. cbn [fst snd] in Hl. destruct Hl as [Hesc|[Hg Hr]].
  { left. destruct rA as [crA|e t|k|]; cbn [escA] in Hesc; try contradiction. exact Hesc. }
  destruct rA as [crA|e t|k|], rB as [crB|e' t'|k'|]; try contradiction.
  - destruct Hr as (HsA & HsB & Hd & (N1 & N2 & N3) & Htm).
    rewrite HsA. cbn [continue_with]. rewrite HsB, Hd.
    assert (Hs : Rs fo target file sA sB).
    { split; [exact Hg|]. split; [exact N1|]. split; [exact N2|]. split; [|exact N3].
      rewrite Htm, Ht. symmetry. eapply Htemp2. reflexivity. }
    pose proof (rest_sim post (acc1 ++ cr_data crA) sA sB Hs) as Hp.
    destruct (exec_cmds (run d) cx post _ sA) as [sA3 rA3].
    destruct (exec_cmds (run d) cx post _ sB) as [sB3 rB3].
    unfold PasteLift.post in Hp. cbn [fst snd] in Hp.
    destruct Hp as [Hesc|([Hg3 He3] & _ & Hr3)]; [left; exact Hesc|right].
    cbn [fst snd]. split; [exact Hg3|]. split; [|intros crA' _; exact He3].
    destruct rA3 as [x| | |], rB3 as [y| | |]; cbn [rres] in Hr3 |- *; try exact Hr3.
    eapply RCacc_same. exact Hr3.
  - right. cbn [continue_with fst snd]. split; [exact Hg|]. split; [exact Hr|discriminate].
  - right. cbn [continue_with fst snd]. split; [exact Hg|]. split; [exact Hr|discriminate].
  - right. cbn [continue_with fst snd]. split; [exact Hg|]. split; [exact I|discriminate].
Qed.

(* the START line is the last command of the stack: no condition on the temp table *)
Theorem start_paste_last_lemma : post = [] ->
  paste_rel_last target file
    (exec_cmds (run d) cx (pre ++ Ln c n :: post) acc s)
    (exec_cmds (run d) cx (pre ++ body ++ post) acc s).
Proof.
  intro Hpost. rewrite runA_unfold, runB_unfold. rewrite Hpost.
  pose proof (line_sim acc1 s1 Hwf Hff Ht Hsig) as Hl.
  destruct (exec_line (run d) cx c n None _) as [sA rA].
  destruct (exec_cmds (run d) cx body acc1 s1) as [sB rB] eqn:EB.
  unfold line_rel in Hl. cbn [fst snd] in Hl. destruct Hl as [Hesc|[Hg Hr]].
  { left. destruct rA as [crA|e t|k|]; cbn [escA] in Hesc; try contradiction. exact Hesc. }
  destruct rA as [crA|e t|k|], rB as [crB|e' t'|k'|]; try contradiction.
  - destruct Hr as (HsA & HsB & Hd & Hn & Htm).
    rewrite HsA. cbn [continue_with]. rewrite HsB, Hd. cbn [exec_cmds]. unfold ret.
    right. cbn [fst snd]. split; [exact Hg|]. split; [reflexivity|intros crA' _; exact Hn].
  - right. cbn [continue_with fst snd]. split; [exact Hg|]. split; [exact Hr|discriminate].
  - right. cbn [continue_with fst snd]. split; [exact Hg|]. split; [exact Hr|discriminate].
  - right. cbn [continue_with fst snd]. split; [exact Hg|]. split; [exact I|discriminate].
Qed.

End Main.
(* ================================================================== the readable form *)
(* function tables: same names in the same order, same parameters and code; the recorded file is
   the same, or it is f's file in run A and the importer's file in run B (functions defined by f) *)
Definition funcs_agree (target file : path) (fa fb : list (str * func)) : Prop :=
  map fst fa = map fst fb /\
  forall k, match lookup k fa, lookup k fb with
            | Some f, Some f' =>
                fn_args f = fn_args f' /\ fn_code f = fn_code f' /\
                (fn_file f = fn_file f' \/ (fn_file f = Some target /\ fn_file f' = Some file))
            | None, None => True
            | _, _ => False
            end.

Lemma Ral_funcs_agree : forall tA tB fa fb, Ral (func_rel tA tB) fa fb -> funcs_agree tA tB fa fb.
Proof.
  intros tA tB fa fb H. split; [apply (Ral_keys _ _ _ H)|]. intro k.
  pose proof (Ral_lookup (func_rel tA tB) k _ _ H) as Hl.
  destruct (lookup k fa) as [f|], (lookup k fb) as [f'|]; try exact Hl.
  destruct Hl as (Ha & Hc & Hm). split; [exact Ha|]. split; [exact Hc|].
  destruct Hm as [[Hf _]|[_ Hp]]; [left; exact Hf|exact Hp].
Qed.

(* the print records up to their file tag, oldest first *)
Definition print_texts (g : glob) : list (str * Z) := rev (map pkey (g_prints g)).
(* the distinct warning texts in order of first appearance *)
Definition warning_texts (g : glob) : list str := tf (g_warnings g).

Definition paste_outcome (with_temp : bool) (target file : path) (xA xB : st * ires cret) : Prop :=
  (exists t, snd xA = IErr EStackOverflow t) \/ (exists t, snd xA = IErr ECircular t) \/
  (print_texts (s_g (fst xA)) = print_texts (s_g (fst xB)) /\
   warning_texts (s_g (fst xA)) = warning_texts (s_g (fst xB)) /\
   match snd xA, snd xB with
   | IOk crA, IOk crB =>
       crA = crB /\
       e_sys (s_env (fst xA)) = e_sys (s_env (fst xB)) /\
       e_user (s_env (fst xA)) = e_user (s_env (fst xB)) /\
       (with_temp = true -> e_temp (s_env (fst xA)) = e_temp (s_env (fst xB))) /\
       funcs_agree target file (e_funcs (s_env (fst xA))) (e_funcs (s_env (fst xB)))
   | IErr e _, IErr e' _ => e = e'
   | ICrash k, ICrash k' => k = k'
   | IUnmod, IUnmod => True
   | _, _ => False
   end).

Lemma escA_cases : forall A (r : ires A), escA r ->
  (exists t, r = IErr EStackOverflow t) \/ (exists t, r = IErr ECircular t).
Proof.
  intros A [a|e t|k|] H; cbn [escA] in H; try contradiction.
  destruct e; try contradiction; [left|right]; exists t; reflexivity.
Qed.

Lemma Rg_texts : forall gA gB, Rg gA gB -> print_texts gA = print_texts gB /\ warning_texts gA = warning_texts gB.
Proof. intros gA gB [H1 H2]. unfold print_texts, warning_texts. rewrite H1. split; [reflexivity|exact H2]. Qed.

Lemma paste_rel_outcome : forall tA tB xA xB, paste_rel tA tB xA xB -> paste_outcome true tA tB xA xB.
Proof.
  intros tA tB [sA rA] [sB rB] [He|(Hg & Hr & Henv)]; cbn [fst snd] in *.
  - destruct (escA_cases _ _ He) as [H|H]; [left; exact H|right; left; exact H].
  - right. right. destruct (Rg_texts _ _ Hg) as [G1 G2]. split; [exact G1|]. split; [exact G2|].
    destruct rA as [crA|e t|k|], rB as [crB|e' t'|k'|]; cbn [rres] in Hr; try contradiction; try exact Hr.
    destruct (Henv crA eq_refl) as (E1 & E2 & E3 & E4).
    split; [exact Hr|]. split; [exact E1|]. split; [exact E2|]. split; [intros _; exact E3|].
    apply Ral_funcs_agree. exact E4.
Qed.

Lemma paste_rel_last_outcome : forall tA tB xA xB, paste_rel_last tA tB xA xB -> paste_outcome false tA tB xA xB.
Proof.
  intros tA tB [sA rA] [sB rB] [He|(Hg & Hr & Henv)]; cbn [fst snd] in *.
  - destruct (escA_cases _ _ He) as [H|H]; [left; exact H|right; left; exact H].
  - right. right. destruct (Rg_texts _ _ Hg) as [G1 G2]. split; [exact G1|]. split; [exact G2|].
    destruct rA as [crA|e t|k|], rB as [crB|e' t'|k'|]; cbn [rres] in Hr; try contradiction; try exact Hr.
    destruct (Henv crA eq_refl) as (E1 & E2 & E4).
    split; [exact Hr|]. split; [exact E1|]. split; [exact E2|]. split; [discriminate|].
    apply Ral_funcs_agree. exact E4.
Qed.

Theorem start_paste_thm :
  forall (d : nat) (o : options) (fs : fsys) (pile : list frame) (file target : path)
         (c : str) (n : Z) (cmd a cname : str) (sc : simple_cls) (text : str) (body : list item),
  let cx := mkCtx o fs pile (Some file) in
  start_line cx c cmd a cname sc -> upper cmd = s_START -> is_blank c = false ->
  resolve_start file (strip a) = Ok target -> fs target = Some text -> circ cx target = false ->
  prepare_text text = TOk body -> clean body ->
  (stack_limit o <= Z.of_nat (length pile) + 2 + Z.of_nat d)%Z ->
  forall (pre post : list item) (acc acc1 : list oline) (s s1 : st),
  no_lead_blk body -> no_lead_blk post ->
  exec_cmds (run d) cx pre acc s = (s1, IOk (mkCret acc1 SNormal)) ->
  env_wf fo (s_env s1) -> funcs_filed (s_env s1) -> e_temp (s_env s1) = [] ->
  (forall sB crB, exec_cmds (run d) cx body acc1 s1 = (sB, IOk crB) -> cr_sig crB = SNormal) ->
  (forall sB crB, exec_cmds (run d) cx body acc1 s1 = (sB, IOk crB) -> e_temp (s_env sB) = []) ->
  paste_outcome true target file
    (exec_cmds (run d) cx (pre ++ Ln c n :: post) acc s)
    (exec_cmds (run d) cx (pre ++ body ++ post) acc s).
Proof.
  intros. apply paste_rel_outcome. eapply start_paste_lemma; eassumption.
Qed.

Theorem start_paste_last_thm :
  forall (d : nat) (o : options) (fs : fsys) (pile : list frame) (file target : path)
         (c : str) (n : Z) (cmd a cname : str) (sc : simple_cls) (text : str) (body : list item),
  let cx := mkCtx o fs pile (Some file) in
  start_line cx c cmd a cname sc -> upper cmd = s_START -> is_blank c = false ->
  resolve_start file (strip a) = Ok target -> fs target = Some text -> circ cx target = false ->
  prepare_text text = TOk body -> clean body ->
  (stack_limit o <= Z.of_nat (length pile) + 2 + Z.of_nat d)%Z ->
  forall (pre : list item) (acc acc1 : list oline) (s s1 : st),
  no_lead_blk body ->
  exec_cmds (run d) cx pre acc s = (s1, IOk (mkCret acc1 SNormal)) ->
  env_wf fo (s_env s1) -> funcs_filed (s_env s1) -> e_temp (s_env s1) = [] ->
  (forall sB crB, exec_cmds (run d) cx body acc1 s1 = (sB, IOk crB) -> cr_sig crB = SNormal) ->
  paste_outcome false target file
    (exec_cmds (run d) cx (pre ++ [Ln c n]) acc s)
    (exec_cmds (run d) cx (pre ++ body) acc s).
Proof.
  intros. apply paste_rel_last_outcome.
  rewrite <- (app_nil_r body).
  eapply (start_paste_last_lemma d o fs pile file target c n cmd a cname sc text body); try eassumption; try reflexivity; try exact I.
Qed.

End Top.
