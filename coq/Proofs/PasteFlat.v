(* C12c, stage 1: FLAT imported text (simple commands only -- VAR, STRING, PRINT, DEFAULT_DELAY,
   EXIST, RUN, unknown commands ...; no block command, no RETURN / BREAK / CONTINUE, no START).
   For such a body the two semantic side conditions of the paste theorem hold syntactically:
   it ends with signal SNormal and it never touches the temp table. *)
From Coq Require Import NArith ZArith List Bool Lia.
From DS Require Import Base PyStr Values Expr TabParse Tables Constants Interp.
From DS Require Import ScopeProofs StartLaws StartLines PasteBase PasteLift PasteTop.
Import ListNotations.
Arguments IOk {A}. Arguments IErr {A}. Arguments ICrash {A}. Arguments IUnmod {A}.

Definition quiet_kind (k : runkind) : bool :=
  match k with RKBreak | RKContinue | RKReturn | RKStart => false | _ => true end.

Definition flat_line (c : str) : Prop :=
  forall cmd more cb, split_ws1 c = cmd :: more ->
    match find_command palette cmd cb with
    | Some (_, Simple sc) => quiet_kind (s_run sc) = true
    | Some (_, Block _) => False
    | None => True
    end.

Definition flat (body : list item) : Prop :=
  Forall (fun i => match i with Ln c _ => flat_line c | Blk _ => False end) body.

Lemma flat_clean : forall body, flat body -> clean body.
Proof.
  intros body H. induction H as [|[c n|b] r Hi _ IH]; constructor; try exact IH; [|contradiction].
  cbn [clean_item]. intros cmd more cb cname cl Es Ef. specialize (Hi cmd more cb Es). rewrite Ef in Hi.
  destruct cl as [sc|bc]; [|contradiction]. cbn [is_start_class]. destruct (s_run sc); try reflexivity. discriminate.
Qed.

Lemma flat_no_lead_blk : forall body, flat body -> no_lead_blk body.
Proof. intros [|[c n|b] r] H; try exact I. inversion H; subst. contradiction. Qed.

Section Flat.
Variable fo : FloatOps.
Notation M := (@Interp.M fo).
Notation st := (@Interp.st fo).
Notation s_env := (@Interp.s_env fo).
Notation e_temp := (@Interp.e_temp fo).
Notation bindM := (@Interp.bindM fo).
Notation ret := (@Interp.ret fo).

Definition keepT {A} (P : A -> Prop) (m : M A) : Prop :=
  forall s s' a, m s = (s', IOk a) -> e_temp (s_env s') = e_temp (s_env s) /\ P a.
Definition keep1 {A} (m : M A) : Prop := keepT (fun _ => True) m.

Lemma keepT_ret : forall A (P : A -> Prop) a, P a -> keepT P (ret a).
Proof. intros A P a H s s' x E. injection E as <- <-. split; [reflexivity|exact H]. Qed.

Lemma keep1_ret : forall A (a : A), keep1 (ret a).
Proof. intros. apply keepT_ret. exact I. Qed.

Lemma keepT_raise : forall cx cur A (P : A -> Prop) e, keepT P (@raise fo cx cur A e).
Proof. intros cx cur A P e s s' x E. discriminate E. Qed.

Lemma keepT_crash : forall A (P : A -> Prop) k, keepT P (@crash fo A k).
Proof. intros A P k s s' x E. discriminate E. Qed.

Lemma keepT_unmod : forall A (P : A -> Prop), keepT P (@unmod fo A).
Proof. intros A P s s' x E. discriminate E. Qed.

Lemma keep1_lift : forall cx cur A (x : res A), keep1 (lift fo cx cur x).
Proof.
  intros cx cur A x. destruct x; cbn [lift]; [apply keep1_ret|apply keepT_raise|apply keepT_crash|apply keepT_unmod].
Qed.

Lemma keepT_bind : forall A B (P : A -> Prop) (Q : B -> Prop) (m : M A) (f : A -> M B),
  keepT P m -> (forall a, P a -> keepT Q (f a)) -> keepT Q (bindM m f).
Proof.
  intros A B P Q m f Hm Hf s s' b E. unfold Interp.bindM in E.
  destruct (m s) as [s1 [a|e t|k|]] eqn:Em; try discriminate E.
  destruct (Hm _ _ _ Em) as [H1 H2]. destruct (Hf a H2 _ _ _ E) as [H3 H4].
  split; [rewrite H3; exact H1|exact H4].
Qed.

Lemma keepT_bind1 : forall A B (Q : B -> Prop) (m : M A) (f : A -> M B),
  keep1 m -> (forall a, keepT Q (f a)) -> keepT Q (bindM m f).
Proof. intros A B Q m f Hm Hf. eapply keepT_bind; [exact Hm|]. intros a _. apply Hf. Qed.

Lemma keepT_bind_get : forall B (Q : B -> Prop) (f : env fo -> M B),
  (forall e, keepT Q (f e)) -> keepT Q (bindM (get_env fo) f).
Proof. intros B Q f H s s' b E. unfold Interp.bindM, get_env in E. eapply H. exact E. Qed.

Lemma keepT_bind_get_s : forall B (Q : B -> Prop) (f : env fo -> M B),
  (forall e s s' b, s_env s = e -> f e s = (s', IOk b) -> e_temp (s_env s') = e_temp (s_env s) /\ Q b) ->
  keepT Q (bindM (get_env fo) f).
Proof. intros B Q f H s s' b E. unfold Interp.bindM, get_env in E. eapply H; [reflexivity|exact E]. Qed.

Lemma keep1_set_line2 : forall l, keep1 (set_line2 fo l).
Proof. intros l s s' x E. injection E as <- _. split; [reflexivity|exact I]. Qed.

Lemma keep1_mod_glob : forall f, keep1 (mod_glob fo f).
Proof. intros f s s' x E. injection E as <- _. split; [reflexivity|exact I]. Qed.

Lemma keep1_warn : forall cx cur t, keep1 (warn fo cx cur t).
Proof. intros cx cur t s s' x E. injection E as <- _. split; [reflexivity|exact I]. Qed.

Lemma keep1_tokenizeM : forall cx cur a, keep1 (tokenizeM fo cx cur a).
Proof. intros cx cur a s s' x E. apply tokenizeM_state in E. subst. split; [reflexivity|exact I]. Qed.

Lemma keep1_run_child : forall child cx cur code file parallel setup,
  keep1 (run_child fo child cx cur code file parallel setup).
Proof.
  intros child cx cur code file parallel setup s s' cr E. split; [|exact I].
  eapply run_child_frame. exact E.
Qed.

Ltac k_step :=
  first
    [ apply keep1_ret | apply keepT_raise | apply keepT_crash | apply keepT_unmod | apply keep1_lift
    | apply keep1_set_line2 | apply keep1_mod_glob | apply keep1_warn | apply keep1_tokenizeM
    | apply keep1_run_child
    | assumption
    | apply keepT_bind1; [|intros ?]
    | match goal with
      | |- keepT _ (if ?b then _ else _) => destruct b
      | |- keepT _ (match ?x with _ => _ end) => destruct x
      | |- keepT _ (let '(_, _) := ?x in _) => destruct x
      | |- keep1 (if ?b then _ else _) => destruct b
      | |- keep1 (match ?x with _ => _ end) => destruct x
      | |- keep1 (let '(_, _) := ?x in _) => destruct x
      end ].
Ltac k_tac := repeat k_step.

Lemma keep1_new_var : forall cx cur name v, keep1 (new_var fo cx cur name v).
Proof.
  intros cx cur name v. unfold new_var. destruct (is_var name false); [|apply keepT_raise].
  apply keepT_bind_get_s. intros e s s' x Hs E. injection E as <- _. cbn. rewrite Hs. split; [reflexivity|exact I].
Qed.

Lemma keep1_listify_args : forall cx cur argument code_block num, keep1 (listify_args fo cx cur argument code_block num).
Proof. intros. unfold listify_args. k_tac. Qed.

Lemma keep1_evaluate_args : forall cx cur at_ args, keep1 (evaluate_args fo cx cur at_ args).
Proof. intros cx cur at_ args. induction args as [|l r IH]; cbn [evaluate_args]; k_tac. Qed.

Lemma keep1_check_types : forall cx cur at_ args, keep1 (check_types fo cx cur at_ args).
Proof. intros cx cur at_ args. induction args as [|[l oc] r IH]; cbn [check_types]; k_tac. Qed.

Lemma keep1_verify_each : forall cx cur params v args, keep1 (verify_each fo cx cur params v args).
Proof. intros cx cur params v args. induction args as [|l r IH]; cbn [verify_each]; k_tac. Qed.

Lemma keep1_verify_plural : forall cx cur pv n, keep1 (verify_plural fo cx cur pv n).
Proof. intros. unfold verify_plural. k_tac. Qed.

Lemma keep1_format_each : forall cx cur params f args, keep1 (format_each fo cx cur params f args).
Proof. intros cx cur params f args. induction args as [|l r IH]; cbn [format_each]; k_tac. Qed.

Lemma keep1_check_flipper : forall cx cur b, keep1 (check_flipper fo cx cur b).
Proof. intros. unfold check_flipper. k_tac. Qed.

Definition rc_quiet (r : rc) : Prop := match r with RComp cr => cr_sig cr = SNormal | _ => True end.

Lemma keepT_run_compile : forall child cx cur cname sc name arg, quiet_kind (s_run sc) = true ->
  keepT rc_quiet (run_compile fo child cx cur cname sc name arg).
Proof.
  intros child cx cur cname sc name arg Hq. unfold run_compile.
  destruct (s_run sc); try discriminate Hq.
  - apply keepT_ret. exact I.
  - destruct arg as [l|]; [|apply keepT_ret; exact I]. destruct (l_content l); [apply keepT_crash|].
    destruct (_ <=? _)%Z; [apply keepT_ret; exact I|apply keepT_unmod].
  - destruct arg as [l|]; [|apply keepT_ret; exact I]. destruct (l_content l); [apply keepT_crash|].
    destruct (_ <=? _)%Z; [apply keepT_ret; exact I|apply keepT_unmod].
  - destruct (include_comments _); apply keepT_ret; exact I.
  - destruct arg as [l|]; [|apply keepT_crash]. apply keepT_bind_get_s. intros e s s' x Hs E.
    destruct (l_content l); [discriminate E|]. destruct (has_key _ _); [|discriminate E].
    unfold Interp.bindM, set_env, Interp.ret in E. injection E as <- <-. cbn. rewrite Hs. split; [reflexivity|exact I].
  - apply keepT_ret. exact I.
  - destruct arg as [l|]; [|apply keepT_ret; exact I].
    apply keepT_bind1; [apply keep1_mod_glob|intros u]. apply keepT_ret. reflexivity.
  - (* RUN *)
    destruct arg as [l|]; [|apply keepT_crash].
    destruct (break_arg _) as [fname var_string].
    apply keepT_bind1.
    { destruct var_string as [vs|]; [|apply keep1_ret]. destruct (is_blank vs); [apply keep1_ret|].
      apply keepT_bind1; [apply keep1_tokenizeM|intros v]. apply keep1_ret. }
    intros vals. apply keepT_bind_get. intros e.
    destruct (lookup fname _) as [f|]; [|apply keepT_raise].
    destruct (negb _); [apply keepT_raise|].
    apply keepT_bind1; [apply keep1_run_child|intros cr].
    destruct (cr_sig cr); try apply keepT_raise; apply keepT_ret; reflexivity.
  - destruct arg as [l|]; [|apply keepT_crash].
    destruct (split_ws1 _) as [|vname [|expr [|x y]]]; try apply keepT_crash.
    apply keepT_bind1; [apply keep1_tokenizeM|intros v].
    apply keepT_bind1; [apply keep1_new_var|intros u]. apply keepT_ret. exact I.
  - destruct arg as [l|]; [|apply keepT_crash]. apply keepT_bind_get. intros e.
    destruct (has_key _ _); [apply keepT_ret; exact I|apply keepT_raise].
  - destruct arg as [l|]; [|apply keepT_crash]. apply keepT_bind_get. intros e.
    destruct (has_key _ _); [apply keepT_raise|apply keepT_ret; exact I].
Qed.

Definition cr_quiet (cr : cret) : Prop := cr_sig cr = SNormal.

Lemma keepT_multi_comp : forall child cx cur cname tg sc name args acc, quiet_kind (s_run sc) = true ->
  cr_quiet acc -> keepT cr_quiet (multi_comp fo child cx cur cname tg sc name args acc).
Proof.
  intros child cx cur cname tg sc name args acc Hq. revert acc.
  induction args as [|a r IH]; intros acc Hacc; cbn [multi_comp].
  - apply keepT_ret. exact Hacc.
  - apply keepT_bind1; [apply keep1_set_line2|intros u].
    eapply keepT_bind; [apply keepT_run_compile; exact Hq|]. intros c Hc. apply IH.
    destruct c as [|ls|cr]; cbn [rc_quiet] in Hc; unfold cr_quiet; cbn [cr_sig]; assumption.
Qed.

Lemma keepT_simple_compile : forall child cx cur cname tg sc cmd num argument code_block,
  quiet_kind (s_run sc) = true ->
  keepT cr_quiet (simple_compile fo child cx cur cname tg sc cmd num argument code_block).
Proof.
  intros child cx cur cname tg sc cmd num argument code_block Hq. unfold simple_compile.
  apply keepT_bind1; [apply keep1_check_flipper|intros u0].
  apply keepT_bind1; [apply keep1_listify_args|intros args0].
  apply keepT_bind1.
  { destruct (_ || _); [|apply keep1_ret].
    apply keepT_bind1; [apply keep1_evaluate_args|intros vs].
    induction vs as [|[l v] r IH]; k_tac. }
  intros args2.
  apply keepT_bind1; [k_tac|intros u1].
  apply keepT_bind1; [apply keep1_check_types|intros args3].
  apply keepT_bind1; [apply keep1_verify_plural|intros u2].
  apply keepT_bind1; [apply keep1_verify_each|intros u3].
  apply keepT_bind1; [apply keep1_format_each|intros args4].
  apply keepT_multi_comp; [exact Hq|reflexivity].
Qed.

Lemma keepT_exec_line : forall child cx c n cb, flat_line c ->
  keepT cr_quiet (exec_line fo child cx c n cb).
Proof.
  intros child cx c n cb Hf. unfold exec_line.
  destruct (split_ws1 c) as [|cmd more] eqn:Es; [apply keepT_crash|].
  specialize (Hf cmd more cb Es).
  destruct (find_command palette cmd cb) as [[cname cl]|].
  - destruct (_ && _); [apply keepT_raise|]. destruct cl as [sc|bc]; [|contradiction].
    apply keepT_simple_compile. exact Hf.
  - apply keepT_bind1.
    + destruct (supress_command_not_exist _); [apply keep1_ret|apply keep1_warn].
    + intros u. apply keepT_simple_compile. reflexivity.
Qed.

(* a flat body ends normally and never touches the temp table *)
Theorem flat_exec_cmds : forall child cx body acc s s' cr, flat body ->
  exec_cmds fo child cx body acc s = (s', IOk cr) ->
  cr_sig cr = SNormal /\ e_temp (s_env s') = e_temp (s_env s).
Proof.
  intros child cx body. induction body as [|[c n|b] rest IH]; intros acc s s' cr Hf E; cbn [exec_cmds] in E.
  - injection E as <- <-. split; reflexivity.
  - inversion Hf as [|x l Hl Hr]; subst.
    destruct (is_blank c); [exact (IH _ _ _ _ Hr E)|].
    unfold Interp.bindM at 1, set_line2 at 1 in E. unfold Interp.bindM at 1 in E.
    destruct (exec_line fo child cx c n _ _) as [s1 [cr1|e t|k|]] eqn:El; try discriminate E.
    destruct (keepT_exec_line child cx c n _ Hl _ _ _ El) as [Ht Hq]. unfold cr_quiet in Hq. rewrite Hq in E.
    destruct (IH _ _ _ _ Hr E) as [H1 H2]. split; [exact H1|]. rewrite H2, Ht. reflexivity.
  - inversion Hf; subst. contradiction.
Qed.

(* ------------------------------------------------------------------ stage 1: the flat paste theorem *)
Theorem start_paste_flat_thm :
  forall (d : nat) (o : options) (fs : fsys) (pile : list frame) (file target : path)
         (c : str) (n : Z) (cmd a cname : str) (sc : simple_cls) (text : str) (body : list item),
  let cx := mkCtx o fs pile (Some file) in
  start_line cx c cmd a cname sc -> upper cmd = s_START -> is_blank c = false ->
  resolve_start file (strip a) = Ok target -> fs target = Some text -> circ cx target = false ->
  prepare_text text = TOk body -> flat body ->
  (stack_limit o <= Z.of_nat (length pile) + 2 + Z.of_nat d)%Z ->
  forall (pre post : list item) (acc acc1 : list oline) (s s1 : st),
  no_lead_blk post ->
  exec_cmds fo (run fo d) cx pre acc s = (s1, IOk (mkCret acc1 SNormal)) ->
  env_wf fo (s_env s1) -> funcs_filed fo (s_env s1) -> e_temp (s_env s1) = [] ->
  paste_outcome fo true target file
    (exec_cmds fo (run fo d) cx (pre ++ Ln c n :: post) acc s)
    (exec_cmds fo (run fo d) cx (pre ++ body ++ post) acc s).
Proof.
  intros d o fs pile file target c n cmd a cname sc text body cx Hl Hu Hb Hres Hfs Hc Hp Hflat Hd
         pre post acc acc1 s s1 Hpost Hpre Hwf Hff Ht.
  eapply (start_paste_thm fo d o fs pile file target c n cmd a cname sc text body); try eassumption.
  - apply flat_clean. exact Hflat.
  - apply flat_no_lead_blk. exact Hflat.
  - intros sB crB E. eapply flat_exec_cmds; eassumption.
  - intros sB crB E. destruct (flat_exec_cmds _ _ _ _ _ _ _ Hflat E) as [_ H]. rewrite H. exact Ht.
Qed.

End Flat.
