(* C12 / C13 at the level of a whole line: a START-family line `WORD name` (no `$`, no block)
   goes through the SimpleCommand pipeline of the generated Start class unchanged and reaches
   run_compile with the stripped argument; the laws of StartLaws.v lifted to exec_line. *)
From Coq Require Import NArith ZArith List Bool Lia.
From DS Require Import Base PyStr Values Expr TabParse Tables Constants Interp.
From DS Require Import ScopeProofs PipelineProofs TraceShape StartLaws ResolveSpec.
Import ListNotations.

(* how __multi_comp turns the result of the single run_compile into the line's CompiledReturn *)
Definition rc_cret (tg : tag) (c : rc) : cret :=
  match c with
  | RNone => mkCret [] SNormal
  | RLines ls => mkCret (map (mkO tg) ls) SNormal
  | RComp cr => mkCret (cr_data cr) (cr_sig cr)
  end.

Section Lines.
Variable fo : FloatOps.

Lemma start_simple_compile : forall (child : runner fo) cx cur cname tg cmd n a s,
  no_dollar cmd -> a <> [] -> endswith [dot] (strip a) = false ->
  simple_compile fo child cx cur cname tg start_cls cmd n (Some a) None s =
  bindM fo (run_compile fo child cx cur cname start_cls cmd (Some (mkLine (AStr (strip a)) n cur)))
        (fun c => ret fo (rc_cret tg c))
        (mkSt (s_g s) (s_env s) (Some cur)).
Proof.
  intros child cx cur cname tg cmd n a s Hnd Ha He.
  unfold simple_compile, check_flipper.
  unfold no_dollar in Hnd.
  assert (Hd : (match upper cmd with 36%N :: _ => true | _ => false end) = false).
  { destruct (upper cmd) as [|c r]; [reflexivity|].
    destruct c as [|p]; [reflexivity|].
    repeat (destruct p as [p|p|]; try reflexivity). contradiction. }
  rewrite Hd.
  unfold listify_args. destruct a as [|a0 ar]; [contradiction|].
  remember (strip (a0 :: ar)) as sa eqn:Esa.
  change (s_flipper_only start_cls) with false. change (s_tokenize_args start_cls) with false.
  change (s_strip_args start_cls) with true. change (s_arg_type start_cls) with ATStr.
  change (s_arg_req start_cls) with Required. change (s_verify_args start_cls) with PVNone.
  change (s_params start_cls) with (@nil str).
  change (s_verify_arg start_cls) with (mkValidator [(BEndsWith SContent [dot], false)] true).
  change (s_format_arg start_cls) with (mkFormatter [] SContent).
  cbn [andb orb].
  unfold bindM at 1. unfold ret at 1.
  unfold bindM at 1. unfold ret at 1.
  cbn [map strip_line l_content l_num l_orig app]. rewrite <- Esa.
  unfold eval_validator.
  cbn -[run_compile rc_cret endswith]. rewrite He. cbn -[run_compile rc_cret endswith].
  reflexivity.
Qed.

(* the shape of the lines covered: a START-family word of the generated palette, written without
   `$`, followed by its argument on the same line, no block *)
Record start_line (cx : ctx) (c : str) (cmd a cname : str) (sc : simple_cls) : Prop := {
  sl_split : split_ws1 c = [cmd; a];
  sl_find : find_command palette cmd None = Some (cname, Simple sc);
  sl_run : s_run sc = RKStart;
  sl_nodollar : no_dollar cmd;
  sl_arg : a <> [];
  sl_nodot : endswith [dot] (strip a) = false;
  sl_file : c_file cx <> None
}.

Theorem start_line_exec : forall (child : runner fo) cx c n cmd a cname sc s,
  start_line cx c cmd a cname sc ->
  exec_line fo child cx c n None s =
  bindM fo (run_compile fo child cx (c, n) cname sc cmd (Some (mkLine (AStr (strip a)) n (c, n))))
        (fun r => ret fo (rc_cret (ByCommand cname) r))
        (mkSt (s_g s) (s_env s) (Some (c, n))).
Proof.
  intros child cx c n cmd a cname sc s [Hs Hf Hr Hnd Ha He Hfile].
  assert (Hsc : sc = start_cls).
  { eapply palette_start_class; [eapply find_command_In; exact Hf|exact Hr]. }
  unfold exec_line. rewrite Hs, Hf. cbn [is_start_class]. rewrite Hr.
  destruct (c_file cx) as [file|]; [|contradiction]. cbn [andb].
  subst sc. apply start_simple_compile; assumption.
Qed.

(* ---- C12 for a whole line *)
Theorem start_line_law : forall (child : runner fo) cx c n cmd a cname sc s file target text commands g' cr cenv,
  start_line cx c cmd a cname sc ->
  c_file cx = Some file -> resolve_start file (strip a) = Ok target -> c_fs cx target = Some text ->
  circ cx target = false -> prepare_text text = TOk commands -> below_stack_limit cx ->
  child (start_ctx cx (c, n) (Some (c, n)) target) (s_g s) (append_env fo (empty_env fo) (s_env s)) commands
    = (g', IOk (cr, cenv)) ->
  exec_line fo child cx c n None s =
  (mkSt (sig_warned (cr_sig cr) g')
        (if str_eqb (upper cmd) s_STARTCODE then update_from_env fo (s_env s) cenv else append_env fo (s_env s) cenv)
        (Some (c, n)),
   IOk (mkCret (if str_eqb (upper cmd) s_STARTENV then [] else cr_data cr) SNormal)).
Proof.
  intros child cx c n cmd a cname sc s file target text commands g' cr cenv Hl Hfile Hres Hfs Hc Hp Hlim Hch.
  rewrite (start_line_exec child cx c n cmd a cname sc s Hl). unfold bindM.
  rewrite (start_family_law fo child cx (c, n) cname sc cmd (mkLine (AStr (strip a)) n (c, n)) file target text commands
             (mkSt (s_g s) (s_env s) (Some (c, n))) g' cr cenv (sl_run _ _ _ _ _ _ Hl) Hfile Hres Hfs Hc Hp Hlim Hch).
  cbn [Interp.s_g Interp.s_env Interp.s_line2]. unfold ret.
  destruct (str_eqb (upper cmd) s_STARTENV); reflexivity.
Qed.

(* RETURN (or BREAK / CONTINUE) inside the imported file ends only that file: the stack of the
   importer goes on with the line after the START *)
Theorem start_line_then_rest : forall (child : runner fo) cx c n rest acc cmd a cname sc s file target text commands g' cr cenv,
  start_line cx c cmd a cname sc -> is_blank c = false ->
  match rest with Blk _ :: _ => False | _ => True end ->
  c_file cx = Some file -> resolve_start file (strip a) = Ok target -> c_fs cx target = Some text ->
  circ cx target = false -> prepare_text text = TOk commands -> below_stack_limit cx ->
  child (start_ctx cx (c, n) (Some (c, n)) target) (s_g s) (append_env fo (empty_env fo) (s_env s)) commands
    = (g', IOk (cr, cenv)) ->
  exec_cmds fo child cx (Ln c n :: rest) acc s =
  exec_cmds fo child cx rest (acc ++ (if str_eqb (upper cmd) s_STARTENV then [] else cr_data cr))
    (mkSt (sig_warned (cr_sig cr) g')
          (if str_eqb (upper cmd) s_STARTCODE then update_from_env fo (s_env s) cenv else append_env fo (s_env s) cenv)
          (Some (c, n))).
Proof.
  intros child cx c n rest acc cmd a cname sc s file target text commands g' cr cenv Hl Hb Hrest Hfile Hres Hfs Hc Hp Hlim Hch.
  cbn [exec_cmds]. rewrite Hb.
  assert (Hcb : match rest with Blk b :: _ => Some b | _ => None end = None).
  { destruct rest as [|[c' n'|b] r]; try reflexivity. contradiction. }
  rewrite Hcb. unfold bindM at 1, set_line2 at 1. unfold bindM at 1.
  rewrite (start_line_law child cx c n cmd a cname sc (mkSt (s_g s) (s_env s) None) file target text commands g' cr cenv
             Hl Hfile Hres Hfs Hc Hp Hlim Hch).
  reflexivity.
Qed.

(* ---- C13 (b) for a whole line: the same line again, right after it succeeded (or anywhere later
   in the same stack, under any line number, in any state) never fails with a trace that ends at
   that line -- so never with the CircularStructureError of that line *)
Theorem sequential_start_lines : forall (child child' : runner fo) cx c n n' cmd a cname sc s s1 cr s2 s3 e t l2,
  start_line cx c cmd a cname sc ->
  exec_line fo child cx c n None s = (s1, IOk cr) ->
  trace_runner fo child' ->
  exec_line fo child' cx c n' None s2 = (s3, IErr e t) ->
  t <> Some (here cx (c, n') l2).
Proof.
  intros child child' cx c n n' cmd a cname sc s s1 cr s2 s3 e t l2 Hl H1 Htr H2.
  rewrite (start_line_exec child cx c n cmd a cname sc s Hl) in H1.
  rewrite (start_line_exec child' cx c n' cmd a cname sc s2 Hl) in H2.
  unfold bindM in H1, H2.
  destruct (run_compile fo child _ _ _ _ _ _ _) as [sa [ra| | |]] eqn:E1; try discriminate.
  destruct (run_compile fo child' _ _ _ _ _ _ _) as [sb [rb|eb tb|kb|]] eqn:E2; try discriminate.
  injection H2 as _ <- <-.
  (* the two argument lines differ by their number only: the START laws do not look at it *)
  assert (E1' : exists sa' ra', run_compile fo child cx (c, n) cname sc cmd
                  (Some (mkLine (AStr (strip a)) n' (c, n'))) (mkSt (s_g s) (s_env s) (Some (c, n))) = (sa', IOk ra')).
  { apply (start_inv fo child cx (c, n) cname sc cmd _ _ _ _ (sl_run _ _ _ _ _ _ Hl)) in E1.
    destruct E1 as [(file & target & text & commands & Hf & Hres & Hfs & Hc & Hp & Hb)|(_ & Hne)].
    2:{ exfalso. eapply Hne. reflexivity. }
    exists sa, ra.
    rewrite (start_unfold fo child cx (c, n) cname sc cmd (mkLine (AStr (strip a)) n' (c, n')) file target text commands _
               (sl_run _ _ _ _ _ _ Hl) Hf Hres Hfs Hc Hp). exact Hb. }
  destruct E1' as (sa' & ra' & E1').
  eapply (sequential_import_not_circular_here fo child cx (c, n) cname sc cmd _ _ _ _ (sl_run _ _ _ _ _ _ Hl) E1'
            child' (c, n') cmd _ _ _ _ l2 Htr E2).
Qed.


(* the premise is not vacuous: `START lib` in any stack that has a file *)
Example start_line_example : forall cx, c_file cx <> None ->
  start_line cx [83;84;65;82;84;32;108;105;98]%N [83;84;65;82;84]%N [108;105;98]%N [83;116;97;114;116]%N start_cls.
Proof.
  intros cx H. constructor; try exact H; try (vm_compute; reflexivity); try discriminate.
Qed.

End Lines.
