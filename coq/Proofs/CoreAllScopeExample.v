(* Non-vacuity of Proofs/CoreAllScope.v: every kind of scope in one program

      main.txt                         lib.txt
        1  VAR a 1                       1  VAR z 9
        2  IF a==1                       2  VAR a 7
        3      VAR b 2
        4      VAR a 5
        5  FUNC g p
        6      VAR q p
        7  RUN g 3
        8  REPEAT i,2
        9      VAR r i
       10  STARTCODE lib
       11  $STRING a

   b (IF arm), p and q (parameter, function body), i and r (counter, loop body), z (STARTCODE file)
   do not survive; the assignments to the outer variable a do (5, then 7).  The only top-level VAR
   name is a; the final user variables are [a = 7]. *)
From Coq Require Import String Ascii NArith ZArith List Bool Lia.
From DS Require Import Base PyStr Values Expr TabParse Tables Constants Interp IdentSpec.
From DS Require Import ChainLoopExamples ImportGraph CoreLang CoreWf CoreRefine CoreFunc CoreFuncExample CoreErr.
From DS Require Import CoreAll CoreAllLines CoreAllBase CoreAllRefine CoreAllTop CoreAllExample.
From DS Require Import CoreAllErr CoreAllErrLines CoreAllErrRefine CoreAllErrExample.
From DS Require Import CoreAllScope.
Import ListNotations.
Open Scope string_scope.
Open Scope list_scope.

Arguments IOk {A}. Arguments IErr {A}.
Arguments e_sys : clear implicits. Arguments e_user : clear implicits. Arguments e_temp : clear implicits.
Arguments e_funcs : clear implicits. Arguments mkEnv : clear implicits.

Definition sc_main : list ustmt :=
  [UVar (S_ "a") (S_ "1");
   UIf [(S_ "a==1", [UVar (S_ "b") (S_ "2"); UVar (S_ "a") (S_ "5")])] None;
   UFunc (S_ "g") [S_ "p"] [UVar (S_ "q") (S_ "p")];
   URun (S_ "g") [S_ "3"];
   URepeat (Some (S_ "i")) (S_ "2") [UVar (S_ "r") (S_ "i")];
   UStart KCode n_lib;
   UEmitEval (S_ "STRING") (S_ "a")].
Definition sc_lib : list ustmt := [UVar (S_ "z") (S_ "9"); UVar (S_ "a") (S_ "7")].
Definition sc_prog : program := [(n_main, sc_main); (n_lib, sc_lib)].
Definition sc_main_text : str :=
  prog ["VAR a 1"; "IF a==1"; "    VAR b 2"; "    VAR a 5"; "FUNC g p"; "    VAR q p"; "RUN g 3";
        "REPEAT i,2"; "    VAR r i"; "STARTCODE lib"; "$STRING a"].
Definition sc_lib_text : str := prog ["VAR z 9"; "VAR a 7"].
Definition sc_fs : fsys := fs2 sc_main_text sc_lib_text.

Lemma sc_prog_ok : prog_ok ex_dir sc_prog sc_fs.
Proof.
  apply fs2_ok; try (vm_compute; reflexivity).
  - unfold sc_main. cbn. wf_dec.
  - unfold sc_lib. cbn. wf_dec.
Qed.

Lemma sc_top_vars : top_vars sc_main = [S_ "a"] /\ no_top_merge sc_main = true.
Proof. split; reflexivity. Qed.

Definition sc_F : utable := [(S_ "g", mkDef [S_ "p"] [UVar (S_ "q") (S_ "p")] n_main 5)].

Section Ex.
Variable fo : FloatOps.

Lemma sc_runs : forall inc sup,
  uruns fo sc_prog inc sup n_main 1 Normal sc_F (Some true) [(S_ "a", VInt 7)] [LCode (S_ "STRING 7")] [].
Proof.
  intros inc sup.
  assert (H : exists F' f' vs' out ev, uruns fo sc_prog inc sup n_main 1 Normal F' f' vs' out ev /\
            F' = sc_F /\ f' = Some true /\ vs' = [(S_ "a", VInt 7)] /\ out = [LCode (S_ "STRING 7")] /\ ev = []).
  { do 5 eexists. split.
    - unfold uruns. exists sc_main. eexists. split; [reflexivity|]. split; [|reflexivity].
      unfold sc_main, sc_lib. uderive.
    - repeat split; vm_compute; reflexivity. }
  destruct H as (F' & f' & vs' & out & ev & H & -> & -> & -> & -> & ->). exact H.
Qed.

(* through the theorem: the interpreter's final user variables are [a = 7], all among the top-level VAR names *)
Lemma sc_by_theorem : forall inc sup, exists g c,
  compile_items fo (ex_opts inc sup) sc_fs (Some (file_of ex_dir n_main)) (uitems_of sc_main) = (g, IOk c) /\
  e_user fo (final_env fo c) = [(S_ "a", VInt 7)] /\
  (forall x, In x (map fst (e_user fo (final_env fo c))) -> In x (top_vars sc_main)).
Proof.
  intros inc sup.
  destruct (final_user_variables_of_run fo ex_dir sc_prog sc_fs sc_prog_ok (ex_opts inc sup) n_main 1 Normal sc_F (Some true)
              [(S_ "a", VInt 7)] [LCode (S_ "STRING 7")] [] (sc_runs inc sup)) as (stmts & g & c & Hlk & E & Hu & Hn).
  { vm_compute. reflexivity. }
  injection Hlk as <-. exists g, c. split; [exact E|]. split; [exact Hu|]. exact (Hn eq_refl).
Qed.

Lemma sc_interpreter :
  match compile_items fo (ex_opts false false) sc_fs (Some (file_of ex_dir n_main)) (uitems_of sc_main) with
  | (_, IOk c) => map o_text (out fo c) = [S_ "STRING 7"] /\ e_user fo (final_env fo c) = [(S_ "a", VInt 7)]
  | _ => False
  end.
Proof. vm_compute. split; reflexivity. Qed.

Lemma sc_all : forall inc sup,
  prog_ok ex_dir sc_prog sc_fs /\ top_vars sc_main = [S_ "a"] /\ no_top_merge sc_main = true /\
  uruns fo sc_prog inc sup n_main 1 Normal sc_F (Some true) [(S_ "a", VInt 7)] [LCode (S_ "STRING 7")] [].
Proof. intros inc sup. exact (conj sc_prog_ok (conj (proj1 sc_top_vars) (conj (proj2 sc_top_vars) (sc_runs inc sup)))). Qed.

End Ex.
