(* One lemma per way a line of a CoreLang program can FAIL in Stack.run (exec_cmds): the class of
   the error and the exact trace.  Companion of CoreLines.v (which has the success forms).
   Also: the relaxed well-formedness [wfx] (the name of a VAR is any word, not necessarily an
   identifier) under which the error judgement of Spec/CoreErr.v is refined. *)
From Coq Require Import NArith ZArith List Bool Lia.
From DS Require Import Base PyStr Values Expr TabParse Tables Constants Interp IdentSpec IdentProofs.
From DS Require Import ScopeProofs LimitProofs ChainProofs LoopUnroll LoopBlock.
From DS Require Import PipelineProofs GroupProofs DollarForm NameChecks CoreLang CoreWf CoreLines CoreErr.
Import ListNotations.

Arguments IOk {A}. Arguments IErr {A}. Arguments ICrash {A}. Arguments IUnmod {A}.
Arguments s_g {fo}. Arguments s_env {fo}. Arguments s_line2 {fo}. Arguments mkSt {fo}.

(* ================================================================== relaxed well-formedness *)
(* a word: not empty, no blank *)
Definition var_word (x : str) : Prop := x <> [] /\ ChainProofs.no_ws x.

Fixpoint wfx (s : stmt) : Prop :=
  match s with
  | SVar x e => var_word x /\ expr_ok e
  | SIf arms els =>
      arms <> [] /\
      all_list (fun cb : str * list stmt => let (c, b) := cb in expr_ok c /\ b <> [] /\ all_list wfx b) arms /\
      match els with Some b => b <> [] /\ all_list wfx b | None => True end
  | SRepeat c e b => CoreWf.counter_ok c /\ loop_expr_ok c e /\ b <> [] /\ all_list wfx b
  | SWhile c e b => CoreWf.counter_ok c /\ loop_expr_ok c e /\ b <> [] /\ all_list wfx b
  | _ => wf s
  end.

Definition wfx_list (p : list stmt) : Prop := all_list wfx p.
Definition wfx_arm (cb : str * list stmt) : Prop := let (c, b) := cb in expr_ok c /\ b <> [] /\ wfx_list b.
Definition wfx_else (els : option (list stmt)) : Prop :=
  match els with Some b => b <> [] /\ wfx_list b | None => True end.

Lemma wfx_if_unfold : forall arms els,
  wfx (SIf arms els) <-> (arms <> [] /\ all_list wfx_arm arms /\ wfx_else els).
Proof. intros. reflexivity. Qed.

Lemma every_all_list : forall A (P : A -> Prop) l, every P l = all_list P l.
Proof. reflexivity. Qed.

(* induction on statements, through the nested lists *)
Section StmtInd.
Variable P : stmt -> Prop.
Hypothesis H_emit : forall name text, P (SEmit name text).
Hypothesis H_emit_eval : forall name e, P (SEmitEval name e).
Hypothesis H_var : forall x e, P (SVar x e).
Hypothesis H_if : forall arms els,
  all_list (fun cb : str * list stmt => all_list P (snd cb)) arms ->
  match els with Some b => all_list P b | None => True end -> P (SIf arms els).
Hypothesis H_repeat : forall c e b, all_list P b -> P (SRepeat c e b).
Hypothesis H_while : forall c e b, all_list P b -> P (SWhile c e b).
Hypothesis H_break : P SBreakLoop.
Hypothesis H_continue : P SContinueLoop.

Fixpoint stmt_ind2 (s : stmt) : P s :=
  let go_list := fix go (l : list stmt) : all_list P l :=
    match l with [] => I | x :: r => conj (stmt_ind2 x) (go r) end in
  match s with
  | SEmit name text => H_emit name text
  | SEmitEval name e => H_emit_eval name e
  | SVar x e => H_var x e
  | SIf arms els =>
      H_if arms els
        ((fix go_arms (l : list (str * list stmt)) : all_list (fun cb => all_list P (snd cb)) l :=
            match l with [] => I | (c, b) :: r => conj (go_list b) (go_arms r) end) arms)
        (match els with Some b => go_list b | None => I end)
  | SRepeat c e b => H_repeat c e b (go_list b)
  | SWhile c e b => H_while c e b (go_list b)
  | SBreakLoop => H_break
  | SContinueLoop => H_continue
  end.
End StmtInd.

Lemma all_list_impl2 : forall A (P Q R : A -> Prop) l,
  all_list (fun a => P a -> Q a -> R a) l -> all_list P l -> all_list Q l -> all_list R l.
Proof.
  induction l as [|a l IH]; intros H HP HQ; [exact I|].
  destruct H as [Ha Hl]. destruct HP as [Pa Pl]. destruct HQ as [Qa Ql].
  split; [exact (Ha Pa Qa)|exact (IH Hl Pl Ql)].
Qed.

Lemma all_list_impl1 : forall A (P Q : A -> Prop) l,
  all_list (fun a => P a -> Q a) l -> all_list P l -> all_list Q l.
Proof.
  induction l as [|a l IH]; intros H HP; [exact I|].
  destruct H as [Ha Hl]. destruct HP as [Pa Pl]. split; [exact (Ha Pa)|exact (IH Hl Pl)].
Qed.

(* strict = relaxed + names *)
Lemma wf_of_wfx : forall s, wfx s -> names_ok s -> wf s.
Proof.
  apply (stmt_ind2 (fun s => wfx s -> names_ok s -> wf s)).
  - intros name text H _. exact H.
  - intros name e H _. exact H.
  - intros x e [_ He] Hn. split; [exact Hn|exact He].
  - intros arms els IHa IHe Hw Hn.
    apply wfx_if_unfold in Hw. destruct Hw as (Hne & Hwa & Hwe). cbn [names_ok] in Hn. destruct Hn as [Hna Hne'].
    apply wf_if_unfold. split; [exact Hne|]. split.
    + clear Hne IHe Hwe Hne'. induction arms as [|[c b] r IH]; [exact I|].
      destruct IHa as [IHb IHr]. destruct Hwa as [(Hc & Hb & Hwb) Hwr]. destruct Hna as [Hnb Hnr].
      split; [|exact (IH IHr Hwr Hnr)]. split; [exact Hc|]. split; [exact Hb|].
      exact (all_list_impl2 _ _ _ _ b IHb Hwb Hnb).
    + destruct els as [b|]; [|exact I]. destruct Hwe as [Hb Hwb]. split; [exact Hb|].
      exact (all_list_impl2 _ _ _ _ b IHe Hwb Hne').
  - intros c e b IHb (Hc & He & Hb & Hwb) Hn. cbn [names_ok] in Hn.
    split; [exact Hc|]. split; [exact He|]. split; [exact Hb|]. exact (all_list_impl2 _ _ _ _ b IHb Hwb Hn).
  - intros c e b IHb (Hc & He & Hb & Hwb) Hn. cbn [names_ok] in Hn.
    split; [exact Hc|]. split; [exact He|]. split; [exact Hb|]. exact (all_list_impl2 _ _ _ _ b IHb Hwb Hn).
  - intros _ _. exact I.
  - intros _ _. exact I.
Qed.

Lemma wf_list_of_wfx : forall p, wfx_list p -> names_ok_list p -> wf_list p.
Proof.
  induction p as [|s r IH]; intros Hw Hn; [exact I|].
  destruct Hw as [Hs Hr]. destruct Hn as [Hns Hnr]. split; [apply wf_of_wfx; assumption|apply IH; assumption].
Qed.

(* the strict form implies the relaxed one *)
Lemma ident_var_word : forall x, identb x = true -> var_word x.
Proof. intros x H. split; [exact (proj1 (identb_chars x H))|exact (ident_no_ws x H)]. Qed.

Lemma wfx_of_wf : forall s, wf s -> wfx s.
Proof.
  apply (stmt_ind2 (fun s => wf s -> wfx s)).
  - intros name text H. exact H.
  - intros name e H. exact H.
  - intros x e [Hx He]. split; [apply ident_var_word; exact Hx|exact He].
  - intros arms els IHa IHe Hw.
    apply wf_if_unfold in Hw. destruct Hw as (Hne & Hwa & Hwe).
    apply wfx_if_unfold. split; [exact Hne|]. split.
    + clear Hne IHe Hwe. induction arms as [|[c b] r IH]; [exact I|].
      destruct IHa as [IHb IHr]. destruct Hwa as [(Hc & Hb & Hwb) Hwr].
      split; [|exact (IH IHr Hwr)]. split; [exact Hc|]. split; [exact Hb|].
      exact (all_list_impl1 _ _ _ b IHb Hwb).
    + destruct els as [b|]; [|exact I]. destruct Hwe as [Hb Hwb]. split; [exact Hb|].
      exact (all_list_impl1 _ _ _ b IHe Hwb).
  - intros c e b IHb (Hc & He & Hb & Hwb).
    split; [exact Hc|]. split; [exact He|]. split; [exact Hb|]. exact (all_list_impl1 _ _ _ b IHb Hwb).
  - intros c e b IHb (Hc & He & Hb & Hwb).
    split; [exact Hc|]. split; [exact He|]. split; [exact Hb|]. exact (all_list_impl1 _ _ _ b IHb Hwb).
  - intros _. exact I.
  - intros _. exact I.
Qed.

Lemma wfx_list_of_wf : forall p, wf_list p -> wfx_list p.
Proof.
  induction p as [|s r IH]; intros Hw; [exact I|].
  destruct Hw as [Hs Hr]. split; [apply wfx_of_wf; exact Hs|apply IH; exact Hr].
Qed.

Lemma names_ok_of_wf : forall s, wf s -> names_ok s.
Proof.
  apply (stmt_ind2 (fun s => wf s -> names_ok s)).
  - intros. exact I.
  - intros. exact I.
  - intros x e [Hx _]. exact Hx.
  - intros arms els IHa IHe Hw.
    apply wf_if_unfold in Hw. destruct Hw as (Hne & Hwa & Hwe). cbn [names_ok]. split.
    + clear Hne IHe Hwe. induction arms as [|[c b] r IH]; [exact I|].
      destruct IHa as [IHb IHr]. destruct Hwa as [(Hc & Hb & Hwb) Hwr].
      split; [|exact (IH IHr Hwr)]. exact (all_list_impl1 _ _ _ b IHb Hwb).
    + destruct els as [b|]; [|exact I]. destruct Hwe as [Hb Hwb]. exact (all_list_impl1 _ _ _ b IHe Hwb).
  - intros c e b IHb (Hc & He & Hb & Hwb). exact (all_list_impl1 _ _ _ b IHb Hwb).
  - intros c e b IHb (Hc & He & Hb & Hwb). exact (all_list_impl1 _ _ _ b IHb Hwb).
  - intros _. exact I.
  - intros _. exact I.
Qed.

Lemma names_ok_list_of_wf : forall p, wf_list p -> names_ok_list p.
Proof.
  induction p as [|s r IH]; intros Hw; [exact I|].
  destruct Hw as [Hs Hr]. split; [apply names_ok_of_wf; exact Hs|apply IH; exact Hr].
Qed.

Lemma wf_iff_wfx_names : forall s, wf s <-> wfx s /\ names_ok s.
Proof.
  intro s. split.
  - intro H. split; [exact (wfx_of_wf s H)|exact (names_ok_of_wf s H)].
  - intros [H1 H2]. exact (wf_of_wfx s H1 H2).
Qed.

(* ================================================================== failing lines in Stack.run *)
Section ErrLines.
Variable fo : FloatOps.
Variable child : runner fo.
Variable cx : ctx.

Notation exec_cmds := (exec_cmds fo child cx).
Notation clear_line2 := (clear_line2 fo).

Lemma tokenizeM_err : forall cur a s er,
  tokenize fo (all_vars fo (s_env s)) a = Err er ->
  tokenizeM fo cx cur a s = (s, IErr er (Some (here cx cur (s_line2 s)))).
Proof.
  intros cur a s er H. unfold tokenizeM, bindM, get_env. rewrite H. reflexivity.
Qed.

(* ---- $NAME e, e does not evaluate: at its own line, which is also the second line *)
Lemma emit_eval_line_err : forall name e n rest acc s er,
  eval_name_ok name = true -> expr_ok e -> head_ok rest ->
  tokenize fo (all_vars fo (s_env s)) e = Err er ->
  exec_cmds (Ln (dollar_c :: name ++ sp :: e) n :: rest) acc s =
  (at_line fo (dollar_c :: name ++ sp :: e, n) s,
   IErr er (Some (here cx (dollar_c :: name ++ sp :: e, n) (Some (dollar_c :: name ++ sp :: e, n))))).
Proof.
  intros name e n rest acc s er Hname He Hh Hv.
  unfold eval_name_ok in Hname. apply andb_true_iff in Hname. destruct Hname as [Hw Hcls].
  destruct (word_okb_facts name Hw) as (Hwne & Hws & Hup & Hnd).
  destruct (find_command palette (dollar_c :: name) None) as [[cname [sc|bc]]|] eqn:Ef; try discriminate.
  apply andb_true_iff in Hcls. destruct Hcls as [Hplain Htakes].
  apply is_plainb_sound in Hplain.
  assert (Hrun : s_run sc <> RKStart).
  { destruct Hplain as (_ & _ & _ & _ & _ & Hrun & _). rewrite Hrun. discriminate. }
  destruct He as (Hene & Hel & Her).
  assert (Hsp : split_ws1 ((dollar_c :: name) ++ sp :: e) = [dollar_c :: name; e]).
  { apply word_arg_split; try assumption; try discriminate. }
  change (dollar_c :: name ++ sp :: e) with ((dollar_c :: name) ++ sp :: e).
  rewrite simple_line_step; [|apply is_blank_split; rewrite Hsp; discriminate|exact Hh].
  unfold bindM.
  rewrite (exec_line_simple fo child cx _ n None (dollar_c :: name) [e] cname sc _ Hsp Ef Hrun).
  cbv iota.
  pose proof (dollar_form_error fo child cx ((dollar_c :: name) ++ sp :: e, n) cname (ByCommand cname) sc name n e
             (clear_line2 s) er Hplain Hene) as HH.
  unfold str, dollar, dollar_c in HH |- *. rewrite HH; clear HH.
  - reflexivity.
  - assert (Hn : norm sc e = e).
    { unfold norm. destruct (s_strip_args sc); [|reflexivity]. unfold strip. rewrite Hel. exact Her. }
    rewrite Hn. exact Hv.
Qed.

Lemma word_head : forall x, var_word x -> exists c t, x = c :: t /\ isspace_c c = false.
Proof.
  intros [|c t] [Hne Hws]; [contradiction|]. exists c, t. split; [reflexivity|].
  unfold ChainProofs.no_ws in Hws. cbn [forallb] in Hws. apply andb_true_iff in Hws.
  destruct Hws as [Hc _]. apply negb_true_iff in Hc. exact Hc.
Qed.

(* ---- VAR x e: the line reaches run_compile of the VAR class with the second line = the line *)
Lemma var_line_reduce : forall x e n rest acc s,
  var_word x -> expr_ok e -> head_ok rest ->
  exists cname sc nm l K,
    s_run sc = RKVar /\ split_ws1 (content_text (l_content l)) = [x; e] /\
    exec_cmds (Ln (kw_VAR ++ sp :: x ++ sp :: e) n :: rest) acc s =
    bindM fo (run_compile fo child cx (kw_VAR ++ sp :: x ++ sp :: e, n) cname sc nm (Some l)) K
          (at_line fo (kw_VAR ++ sp :: x ++ sp :: e, n) s).
Proof.
  intros x e n rest acc s Hx He Hh.
  destruct var_dispatch as (cname & sc & Ef & Hrun & Hflip & Htok & Hstrip & Hat & Hreq & Hva & Hvas & Hfa).
  destruct (word_head x Hx) as (c0 & t & -> & Hc0).
  destruct Hx as [_ Hxws].
  destruct He as (Hene & Hel & Her).
  set (a := (c0 :: t) ++ sp :: e).
  assert (Hal : lstrip a = a) by (apply lstrip_head_app; exact Hc0).
  assert (Hane : a <> []) by discriminate.
  assert (Hsp : split_ws1 (kw_VAR ++ sp :: a) = [kw_VAR; a]).
  { apply word_arg_split; try assumption; [discriminate|vm_compute; reflexivity]. }
  assert (Hstr : strip a = a).
  { unfold strip. rewrite Hal. unfold a.
    change ((c0 :: t) ++ sp :: e) with ((c0 :: t) ++ [sp] ++ e). rewrite app_assoc.
    apply rstrip_app; assumption. }
  assert (Hsp2 : split_ws1 a = [c0 :: t; e]).
  { unfold a. apply word_arg_split; try assumption. discriminate. }
  assert (Hr : s_run sc <> RKStart) by (rewrite Hrun; discriminate).
  exists cname, sc.
  rewrite simple_line_step; [|apply is_blank_split; rewrite Hsp; discriminate|exact Hh].
  unfold bindM at 1.
  rewrite (exec_line_simple fo child cx _ n None kw_VAR [a] cname sc _ Hsp Ef Hr).
  cbv iota.
  set (cur := (kw_VAR ++ sp :: a, n)).
  unfold simple_compile, check_flipper. rewrite Hflip. cbn [andb].
  change (upper kw_VAR) with kw_VAR. unfold kw_VAR. cbv iota. cbn [tl].
  rewrite Htok, Hstrip, Hat, Hreq, Hva, Hvas, Hfa. cbn [orb].
  unfold listify_args. unfold a at 1. cbn [app]. fold a.
  unfold bindM, ret. cbn [map strip_line l_content l_num l_orig]. rewrite Hstr.
  cbn [length Z.of_nat check_types verify_plural verify_each format_each].
  unfold bindM, ret, set_line2, lift, eval_validator, eval_formatter.
  cbn [l_content l_num l_orig s_g s_env s_line2 v_rules v_default f_rules f_default eval_validator_rules eval_bexpr eval_sexpr].
  cbv beta iota.
  unfold bindM, ret, set_line2, lift, eval_validator, eval_formatter.
  cbn [length Z.of_nat check_types verify_plural verify_each format_each l_content l_num l_orig s_g s_env s_line2 v_rules v_default f_rules f_default eval_validator_rules eval_bexpr eval_sexpr].
  unfold eval_validator, eval_formatter.
  cbn [v_rules v_default f_rules f_default eval_validator_rules eval_bexpr eval_sexpr].
  rewrite Hstr, Hsp2. cbn [length Z.of_nat cmp_eval Pos.of_succ_nat Pos.succ Z.eqb Pos.eqb negb bind].
  unfold bindM, ret, set_line2, lift.
  cbn [multi_comp map l_orig s_g s_env s_line2].
  unfold bindM, ret, set_line2.
  cbn [Values.bind]. cbv beta iota.
  cbn [map multi_comp s_g s_env s_line2 clear_line2].
  unfold bindM at 1. unfold set_line2 at 1. cbn [l_orig s_g s_env s_line2].
  exists [86;65;82]%N, (mkLine (AStr a) n cur),
    (fun c => go_on fo child cx rest acc
       (match c with
        | RNone => mkCret [] SNormal
        | RLines ls => mkCret ([] ++ map (mkO (ByCommand cname)) ls) SNormal
        | RComp cr => mkCret ([] ++ cr_data cr) (cr_sig cr)
        end)).
  split; [exact Hrun|]. split; [exact Hsp2|].
  unfold bindM, ret, at_line, cur. cbn [s_g s_env].
  change (kw_VAR ++ sp :: a) with (86%N :: 65%N :: 82%N :: sp :: a).
  match goal with |- (let (_, _) := (let (_, _) := ?m1 in _) in _) = (let (_, _) := ?m2 in _) =>
    change m2 with m1; destruct m1 as [s1 [c| | |]] end; reflexivity.
Qed.

Lemma var_run_expr_err : forall cur cname sc nm l x e s er,
  s_run sc = RKVar -> split_ws1 (content_text (l_content l)) = [x; e] ->
  tokenize fo (all_vars fo (s_env s)) e = Err er ->
  run_compile fo child cx cur cname sc nm (Some l) s = (s, IErr er (Some (here cx cur (s_line2 s)))).
Proof.
  intros cur cname sc nm l x e s er Hk Hsp Htok.
  unfold run_compile. rewrite Hk, Hsp. unfold bindM at 1. rewrite (tokenizeM_err cur e s er Htok). reflexivity.
Qed.

(* ---- VAR x e, e does not evaluate *)
Lemma var_line_expr_err : forall x e n rest acc s er,
  var_word x -> expr_ok e -> head_ok rest ->
  tokenize fo (all_vars fo (s_env s)) e = Err er ->
  exec_cmds (Ln (kw_VAR ++ sp :: x ++ sp :: e) n :: rest) acc s =
  (at_line fo (kw_VAR ++ sp :: x ++ sp :: e, n) s,
   IErr er (Some (here cx (kw_VAR ++ sp :: x ++ sp :: e, n) (Some (kw_VAR ++ sp :: x ++ sp :: e, n))))).
Proof.
  intros x e n rest acc s er Hx He Hh Htok.
  destruct (var_line_reduce x e n rest acc s Hx He Hh) as (cname & sc & nm & l & K & Hrun & Hsp & E).
  rewrite E. unfold bindM.
  rewrite (var_run_expr_err _ cname sc nm l x e _ er Hrun Hsp); [reflexivity|exact Htok].
Qed.

(* ---- VAR x e, e evaluates, x is not an identifier *)
Lemma var_line_name_err : forall x e n rest acc s v,
  var_word x -> expr_ok e -> head_ok rest ->
  tokenize fo (all_vars fo (s_env s)) e = Ok v -> identb x = false ->
  exec_cmds (Ln (kw_VAR ++ sp :: x ++ sp :: e) n :: rest) acc s =
  (at_line fo (kw_VAR ++ sp :: x ++ sp :: e, n) s,
   IErr EUnacceptableVarName
        (Some (here cx (kw_VAR ++ sp :: x ++ sp :: e, n) (Some (kw_VAR ++ sp :: x ++ sp :: e, n))))).
Proof.
  intros x e n rest acc s v Hx He Hh Htok Hid.
  destruct (var_line_reduce x e n rest acc s Hx He Hh) as (cname & sc & nm & l & K & Hrun & Hsp & E).
  rewrite E. unfold bindM.
  rewrite (var_reject fo child cx _ cname sc nm l x e _ v Hrun Hsp); [reflexivity|exact Htok|exact Hid].
Qed.

(* ---- the condition of an IF / ELIF does not evaluate *)
Lemma ensure_flag_line2 : forall s : st fo, s_line2 (ensure_flag fo s) = s_line2 s.
Proof. intro s. unfold ensure_flag. destruct (has_key _ _); reflexivity. Qed.

Lemma ensure_flag_g : forall s : st fo, s_g (ensure_flag fo s) = s_g s.
Proof. intro s. unfold ensure_flag. destruct (has_key _ _); reflexivity. Qed.

Lemma if_cond_error : forall cur bc cname cmd num a cb s er,
  is_if_class bc -> str_eqb (upper cmd) s_ELSE = false ->
  tokenize fo (all_vars fo (s_env (ensure_flag fo s))) (norm_arg a) = Err er ->
  block_compile fo child cx cur bc cname cmd num (Some a) cb s =
  (ensure_flag fo s, IErr er (Some (here cx cur (s_line2 s)))).
Proof.
  intros cur bc cname cmd num a cb s er Hbc Helse Htok.
  rewrite block_compile_if_unfold by exact Hbc. cbv zeta. rewrite Helse. cbn [option_map].
  unfold bindM, ret. rewrite (tokenizeM_err cur (norm_arg a) (ensure_flag fo s) er Htok).
  rewrite ensure_flag_line2. reflexivity.
Qed.

Definition cond_errs (s : st fo) (a : arm) (er : errcls) : Prop :=
  exists c, arg_of (a_line a) = Some c /\ tokenize fo (all_vars fo (s_env s)) (norm_arg c) = Err er.

Lemma cond_errs_cond_arm : forall s k c n body er, is_blank c = false ->
  tokenize fo (all_vars fo (s_env s)) (strip c) = Err er -> cond_errs s (cond_arm k c n body) er.
Proof.
  intros s k c n body er Hb Htok. unfold cond_errs, cond_arm, arg_of. cbn [a_line].
  rewrite (cond_arm_split k c Hb). exists (lstrip c). split; [reflexivity|].
  rewrite (norm_arg_lstrip c Hb). exact Htok.
Qed.

Lemma arm_cond_err : forall bc a tail acc s er,
  is_if_class bc ->
  (forall k w body, upper w = kw_of k -> starts_dollar w = false -> body <> [] ->
      find_command palette w (Some body) = Some (s_If, Block bc)) ->
  arm_ok a -> a_kind a <> AElse ->
  cond_errs (ensure_flag fo (clear_line2 s)) a er ->
  exec_cmds (arm_items a ++ tail) acc s =
  (ensure_flag fo (clear_line2 s), IErr er (Some (here cx (a_line a, a_num a) None))).
Proof.
  intros bc a tail acc s er Hbc Hdisp Hok Hk (c & Harg & Htok).
  rewrite (arm_step fo child cx bc a tail acc s Hdisp Hok).
  destruct Hok as (Hsp & Hup & Hnd & Hbody & _).
  destruct (kw_if_flags _ _ Hup) as [_ Helse].
  assert (Helse' : str_eqb (upper (word_of (a_line a))) s_ELSE = false).
  { rewrite Helse. destruct (a_kind a); [reflexivity|reflexivity|contradiction]. }
  unfold bindM. rewrite Harg.
  rewrite (if_cond_error _ bc s_If _ _ c _ (clear_line2 s) er Hbc Helse' Htok). reflexivity.
Qed.

(* ---- the REPEAT count *)
Lemma tokenize_count_err_eval : forall cur e s er,
  tokenize fo (all_vars fo (s_env s)) e = Err er ->
  tokenize_count fo cx cur e s = (s, IErr er (Some (here cx cur (s_line2 s)))).
Proof.
  intros cur e s er H. unfold tokenize_count. unfold bindM at 1. rewrite (tokenizeM_err cur e s er H). reflexivity.
Qed.

Lemma tokenize_count_err_kind : forall cur e s v,
  tokenize fo (all_vars fo (s_env s)) e = Ok v -> count_of fo v = None ->
  tokenize_count fo cx cur e s = (s, IErr EInvalidArguments (Some (here cx cur (s_line2 s)))).
Proof.
  intros cur e s v Hv Hn. unfold tokenize_count.
  unfold bindM at 1. rewrite (proj2 (tokenizeM_ok fo cx cur e s v) Hv).
  destruct v as [z|x|t|b|l|]; cbn [count_of] in Hn; try discriminate; try reflexivity.
  destruct (f_is_integer fo x); [discriminate|reflexivity].
Qed.

Lemma tokenize_count_err_range : forall cur e s v m,
  tokenize fo (all_vars fo (s_env s)) e = Ok v -> count_of fo v = Some m -> ~ (0 <= m <= loop_max)%Z ->
  tokenize_count fo cx cur e s = (s, IErr EInvalidArguments (Some (here cx cur (s_line2 s)))).
Proof.
  intros cur e s v m Hv Hn Hrange. unfold tokenize_count.
  unfold bindM at 1. rewrite (proj2 (tokenizeM_ok fo cx cur e s v) Hv).
  assert (Hchk : cmp_eval repeat_low_op m repeat_low || cmp_eval repeat_high_op m repeat_high = true).
  { unfold repeat_low_op, repeat_low, repeat_high_op, repeat_high, loop_max in *. cbn [cmp_eval].
    apply orb_true_iff. destruct (Z.ltb_spec m 0) as [H|H]; [left; reflexivity|right].
    apply Z.ltb_lt. lia. }
  destruct v as [z|x|t|b|l|]; cbn [count_of] in Hn; try discriminate.
  - injection Hn as ->. unfold bindM, ret. rewrite Hchk. reflexivity.
  - destruct (f_is_integer fo x); [|discriminate]. injection Hn as ->. unfold bindM, ret. rewrite Hchk. reflexivity.
  - injection Hn as <-. unfold bindM, ret. rewrite Hchk. reflexivity.
Qed.

End ErrLines.
