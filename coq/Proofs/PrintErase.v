(* C18 `print_invisible`: two programs that differ only in "silent" lines -- a plain PRINT line
   (first word upper-cases to PRINT, hence no `$`; no argument group) or a line `PASS` --
   possibly inside code blocks (IF/ELIF/ELSE/REPEAT/WHILE/FUNC bodies), behave the same:
   same status, same error and trace, same output, same warnings (traces included), same
   variables; the function tables are related (bodies related by the same relation), and the
   print lists agree outside the records of the silent lines.

   A dedicated relational lifting over DIFFERENT but related command lists (RelLift.v handles the
   same commands under two option records). *)
From Coq Require Import NArith ZArith List Bool Lia.
From DS Require Import Base PyStr Values Expr TabParse Tables Constants Interp PipelineProofs PrintLines.
Import ListNotations.

(* ------------------------------------------------------------------ the relation on programs *)
Definition print_word (c : str) : Prop := exists cmd more, split_ws1 c = cmd :: more /\ upper cmd = s_PRINT.
Definition pass_word (c : str) : Prop := exists cmd, split_ws1 c = [cmd] /\ upper cmd = s_PASS.
(* a line that only talks to the print side channel *)
Definition silent (c : str) : Prop := print_word c \/ pass_word c.

Definition no_group (rest : list item) : Prop := match rest with Blk _ :: _ => False | _ => True end.

(* the line heads a block that is run as CODE (not an argument group, not IGNORE's raw text) *)
Definition code_header (c : str) (b : list item) : bool :=
  match split_ws1 c with
  | cmd :: _ => match find_command palette cmd (Some b) with
                | Some (_, Block bc) => match b_kind bc with BKIgnore => false | _ => true end
                | _ => false
                end
  | [] => false
  end.

Section Erase.
(* which (file, line number) pairs may hold a modified silent line *)
Variable E : option path -> Z -> Prop.
(* [Add] = the second program may also GAIN records (PASS -> PRINT, PRINT t -> PRINT t');
   with [Add := False] the relation is pure erasure: a silent line becomes a PASS line *)
Variable Add : Prop.

Inductive perase (f : option path) : list item -> list item -> Prop :=
| pe_nil : perase f [] []
| pe_line : forall c n r1 r2, perase f r1 r2 -> perase f (Ln c n :: r1) (Ln c n :: r2)
| pe_blk : forall b r1 r2, perase f r1 r2 -> perase f (Blk b :: r1) (Blk b :: r2)
| pe_code : forall c n b1 b2 r1 r2, code_header c b1 = true ->
    perase f b1 b2 -> perase f r1 r2 -> perase f (Ln c n :: Blk b1 :: r1) (Ln c n :: Blk b2 :: r2)
| pe_silent : forall c1 c2 n r1 r2, silent c1 -> (pass_word c2 \/ (Add /\ silent c2)) -> E f n -> no_group r1 ->
    perase f r1 r2 -> perase f (Ln c1 n :: r1) (Ln c2 n :: r2).

Lemma perase_refl : forall f l, perase f l l.
Proof. intros f l. induction l as [|[c n|b] r IH]; constructor; exact IH. Qed.

Lemma perase_block_after : forall f r1 r2, perase f r1 r2 ->
  match r1, r2 with
  | Blk b1 :: _, Blk b2 :: _ => b1 = b2
  | Blk _ :: _, _ => False
  | _, Blk _ :: _ => False
  | _, _ => True
  end.
Proof. intros f r1 r2 H. destruct H; try exact I. reflexivity. Qed.

Lemma perase_no_group : forall f r1 r2, perase f r1 r2 -> no_group r1 -> no_group r2.
Proof. intros f r1 r2 H Hn. destruct H; try exact I. exact Hn. Qed.

Lemma perase_nil_iff : forall f r1 r2, perase f r1 r2 -> (r1 = [] <-> r2 = []).
Proof. intros f r1 r2 H. destruct H; split; intro; try discriminate; reflexivity. Qed.

(* the print lists: records of E-lines may be dropped on either side (a changed text = one drop on
   each side); everything else is kept, in order *)
Inductive prel : list print_rec -> list print_rec -> Prop :=
| pr_nil : prel [] []
| pr_keep : forall p l1 l2, prel l1 l2 -> prel (p :: l1) (p :: l2)
| pr_left : forall p l1 l2, E (p_file p) (p_num p) -> prel l1 l2 -> prel (p :: l1) l2
| pr_right : forall p l1 l2, Add -> E (p_file p) (p_num p) -> prel l1 l2 -> prel l1 (p :: l2).

Lemma prel_refl : forall l, prel l l.
Proof. induction l; constructor; assumption. Qed.

Lemma prel_app : forall a1 a2 b1 b2, prel a1 a2 -> prel b1 b2 -> prel (a1 ++ b1) (a2 ++ b2).
Proof. intros a1 a2 b1 b2 Ha Hb. induction Ha; cbn [app]; try (constructor; assumption). exact Hb. Qed.

Lemma prel_rev : forall l1 l2, prel l1 l2 -> prel (rev l1) (rev l2).
Proof.
  intros l1 l2 H. induction H; cbn [rev].
  - constructor.
  - apply prel_app; [exact IHprel|]. constructor. constructor.
  - rewrite <- (app_nil_r (rev l2)). apply prel_app; [exact IHprel|]. apply pr_left; [assumption|constructor].
  - rewrite <- (app_nil_r (rev l1)). apply prel_app; [exact IHprel|]. apply pr_right; [assumption|assumption|constructor].
Qed.

Lemma prel_drop_both : forall a1 a2 l1 l2,
  Forall (fun p => E (p_file p) (p_num p)) a1 -> Forall (fun p => E (p_file p) (p_num p)) a2 ->
  (a2 = [] \/ Add) ->
  prel l1 l2 -> prel (a1 ++ l1) (a2 ++ l2).
Proof.
  intros a1 a2 l1 l2 H1 H2 Hadd H. induction H1 as [|p a1 Hp _ IH]; cbn [app].
  - destruct Hadd as [->|Hadd]; [exact H|].
    induction H2 as [|q a2 Hq _ IH2]; cbn [app]; [exact H|]. apply pr_right; assumption.
  - apply pr_left; assumption.
Qed.

(* pure erasure: the second list is the first with some E-records removed *)
Inductive removed : list print_rec -> list print_rec -> Prop :=
| rm_nil : removed [] []
| rm_keep : forall p l1 l2, removed l1 l2 -> removed (p :: l1) (p :: l2)
| rm_drop : forall p l1 l2, E (p_file p) (p_num p) -> removed l1 l2 -> removed (p :: l1) l2.

Lemma prel_removed : ~ Add -> forall l1 l2, prel l1 l2 -> removed l1 l2.
Proof.
  intros Hn l1 l2 H. induction H; try (constructor; assumption). contradiction.
Qed.

(* with a decidable E: the records outside E coincide, in order *)
Lemma prel_filter : forall (eb : print_rec -> bool),
  (forall p, E (p_file p) (p_num p) -> eb p = true) ->
  forall l1 l2, prel l1 l2 -> filter (fun p => negb (eb p)) l1 = filter (fun p => negb (eb p)) l2.
Proof.
  intros eb Heb l1 l2 H. induction H; cbn [filter].
  - reflexivity.
  - rewrite IHprel. reflexivity.
  - rewrite (Heb p H). cbn [negb]. exact IHprel.
  - rewrite (Heb p H0). cbn [negb]. exact IHprel.
Qed.

End Erase.

(* ================================================================== the lifting *)
Section Lift.
Variable fo : FloatOps.
Notation M := (M fo).
Notation st := (st fo).
Notation env := (env fo).
Notation bindM := (bindM fo).
Notation ret := (ret fo).

Variable E : option path -> Z -> Prop.
Variable Add : Prop.
(* a stack without a file runs function bodies defined anywhere: closure of E under that *)
Hypothesis E_none : forall n f, E None n -> E f n.
Notation perase := (perase E Add).
Notation prel := (prel E Add).

Lemma perase_mono : forall f l1 l2, perase None l1 l2 -> perase f l1 l2.
Proof.
  intros f l1 l2 H. induction H.
  - constructor.
  - apply pe_line. assumption.
  - apply pe_blk. assumption.
  - apply pe_code; assumption.
  - apply pe_silent; try assumption. apply E_none. assumption.
Qed.

(* ------------------------------------------------------------------ related environments *)
Definition frel (f1 f2 : func) : Prop :=
  fn_args f1 = fn_args f2 /\ fn_file f1 = fn_file f2 /\ perase (fn_file f1) (fn_code f1) (fn_code f2).
Definition fsrel (l1 l2 : list (str * func)) : Prop :=
  Forall2 (fun a b => fst a = fst b /\ frel (snd a) (snd b)) l1 l2.
Definition erel (e1 e2 : env) : Prop :=
  e_sys fo e1 = e_sys fo e2 /\ e_user fo e1 = e_user fo e2 /\ e_temp fo e1 = e_temp fo e2 /\
  fsrel (e_funcs fo e1) (e_funcs fo e2).

Lemma frel_refl : forall f, frel f f.
Proof. intro f. split; [reflexivity|split; [reflexivity|apply perase_refl]]. Qed.

Lemma fsrel_refl : forall l, fsrel l l.
Proof. induction l as [|[k f] r IH]; constructor; [split; [reflexivity|apply frel_refl]|exact IH]. Qed.

Lemma erel_refl : forall e, erel e e.
Proof. intro e. repeat split; try reflexivity. apply fsrel_refl. Qed.

Lemma fsrel_lookup : forall k l1 l2, fsrel l1 l2 ->
  match lookup k l1, lookup k l2 with
  | Some a, Some b => frel a b
  | None, None => True
  | _, _ => False
  end.
Proof.
  intros k l1 l2 H. induction H as [|[k1 f1] [k2 f2] l1 l2 [Hk Hf] _ IH]; cbn [lookup]; [exact I|].
  cbn [fst snd] in Hk, Hf. subst k2. destruct (str_eqb k k1); [exact Hf|exact IH].
Qed.

Lemma fsrel_upd : forall k a b l1 l2, frel a b -> fsrel l1 l2 -> fsrel (upd k a l1) (upd k b l2).
Proof.
  intros k a b l1 l2 Hab H. induction H as [|[k1 f1] [k2 f2] l1 l2 [Hk Hf] Hr IH]; cbn [upd].
  - constructor; [split; [reflexivity|exact Hab]|constructor].
  - cbn [fst snd] in Hk, Hf. subst k2. destruct (str_eqb k k1).
    + constructor; [split; [reflexivity|exact Hab]|exact Hr].
    + constructor; [split; [reflexivity|exact Hf]|exact IH].
Qed.

Lemma fsrel_upd_all : forall s1 s2, fsrel s1 s2 -> forall d1 d2, fsrel d1 d2 -> fsrel (upd_all s1 d1) (upd_all s2 d2).
Proof.
  intros s1 s2 H. unfold upd_all. induction H as [|[k1 f1] [k2 f2] s1 s2 [Hk Hf] _ IH]; intros d1 d2 Hd; cbn [fold_left].
  - exact Hd.
  - cbn [fst snd] in *. subst k2. apply IH. apply fsrel_upd; assumption.
Qed.

Lemma erel_all_vars : forall e1 e2, erel e1 e2 -> all_vars fo e1 = all_vars fo e2.
Proof. intros e1 e2 (Hs & Hu & Ht & _). unfold all_vars. rewrite Hs, Hu, Ht. reflexivity. Qed.

Lemma erel_append : forall p1 p2 c1 c2, erel p1 p2 -> erel c1 c2 -> erel (append_env fo p1 c1) (append_env fo p2 c2).
Proof.
  intros p1 p2 c1 c2 (Hs & Hu & Ht & Hf) (Hs' & Hu' & Ht' & Hf'). unfold append_env, erel.
  cbn [e_sys e_user e_temp e_funcs]. rewrite Hs, Hu, Ht, Hs', Hu'.
  repeat split; try reflexivity. apply fsrel_upd_all; assumption.
Qed.

Lemma erel_update_from : forall p1 p2 c1 c2, erel p1 p2 -> erel c1 c2 ->
  erel (update_from_env fo p1 c1) (update_from_env fo p2 c2).
Proof.
  intros p1 p2 c1 c2 (Hs & Hu & Ht & Hf) (Hs' & Hu' & Ht' & Hf'). unfold update_from_env, erel.
  cbn [e_sys e_user e_temp e_funcs]. rewrite Hs, Hu, Ht, Hs', Hu'. repeat split; try reflexivity. exact Hf.
Qed.

Lemma erel_empty : erel (empty_env fo) (empty_env fo).
Proof. apply erel_refl. Qed.

(* functions from environments that respect the relation *)
Definition rres0 {A} (RA : A -> A -> Prop) (r1 r2 : res A) : Prop :=
  match r1, r2 with
  | Ok a, Ok b => RA a b
  | Err e1, Err e2 => e1 = e2
  | Crash k1, Crash k2 => k1 = k2
  | Unmodelled, Unmodelled => True
  | _, _ => False
  end.
Definition env_fun {A} (RA : A -> A -> Prop) (f : env -> res A) : Prop :=
  forall e1 e2, erel e1 e2 -> rres0 RA (f e1) (f e2).

Lemma env_fun_id : env_fun erel (fun e => Ok e).
Proof. intros e1 e2 H. exact H. Qed.

Lemma env_fun_true : env_fun eq (fun _ => Ok true).
Proof. intros e1 e2 H. reflexivity. Qed.

Lemma env_fun_bind_counter : forall v count, env_fun erel (bind_counter fo v count).
Proof.
  intros v count e1 e2 H. unfold bind_counter. destruct v as [v|]; [|exact H].
  destruct (is_var v false); [|reflexivity]. destruct H as (Hs & Hu & Ht & Hf).
  unfold rres0, erel. cbn [e_sys e_user e_temp e_funcs]. rewrite Hs, Hu, Ht. repeat split; try reflexivity. exact Hf.
Qed.

Lemma env_fun_while_pre : forall argument,
  env_fun eq (fun ce => do v <- tokenize fo (all_vars fo ce) argument; Ok (truthy fo v)).
Proof.
  intros argument e1 e2 H. rewrite (erel_all_vars _ _ H).
  destruct (tokenize fo (all_vars fo e2) argument); cbn; reflexivity.
Qed.

(* ------------------------------------------------------------------ related globs, states, results *)
Definition Rg (g1 g2 : glob) : Prop := g_warnings g1 = g_warnings g2 /\ prel (g_prints g1) (g_prints g2).

Lemma Rg_refl : forall g, Rg g g.
Proof. intro g. split; [reflexivity|apply prel_refl]. Qed.

Lemma Rg_warn : forall w g1 g2, Rg g1 g2 -> Rg (add_warning w g1) (add_warning w g2).
Proof.
  intros w g1 g2 [Hw Hp]. unfold add_warning. rewrite Hw. destruct (existsb _ _).
  - split; assumption.
  - split; cbn [g_warnings g_prints]; [reflexivity|exact Hp].
Qed.

Lemma Rg_print : forall p g1 g2, Rg g1 g2 ->
  Rg (mkGlob (p :: g_prints g1) (g_warnings g1)) (mkGlob (p :: g_prints g2) (g_warnings g2)).
Proof. intros p g1 g2 [Hw Hp]. split; cbn [g_warnings g_prints]; [exact Hw|apply pr_keep; exact Hp]. Qed.

Definition rres {A} (RA : A -> A -> Prop) (r1 r2 : ires A) : Prop :=
  match r1, r2 with
  | IOk a1, IOk a2 => RA a1 a2
  | IErr e1 t1, IErr e2 t2 => e1 = e2 /\ t1 = t2
  | ICrash k1, ICrash k2 => k1 = k2
  | IUnmod, IUnmod => True
  | _, _ => False
  end.

(* full relation (line_2 equal) and the weak one (line_2 free: it differs after a silent line) *)
Definition Rs (s1 s2 : st) : Prop := Rg (s_g s1) (s_g s2) /\ erel (s_env s1) (s_env s2) /\ s_line2 s1 = s_line2 s2.
Definition Rw (s1 s2 : st) : Prop := Rg (s_g s1) (s_g s2) /\ erel (s_env s1) (s_env s2).

Lemma Rs_Rw : forall s1 s2, Rs s1 s2 -> Rw s1 s2.
Proof. intros s1 s2 (Hg & He & _). split; assumption. Qed.

Definition post {A} (RA : A -> A -> Prop) (x1 x2 : st * ires A) : Prop :=
  Rs (fst x1) (fst x2) /\ rres RA (snd x1) (snd x2).
Definition postw {A} (RA : A -> A -> Prop) (x1 x2 : st * ires A) : Prop :=
  Rw (fst x1) (fst x2) /\ rres RA (snd x1) (snd x2).

Definition relM {A} (RA : A -> A -> Prop) (m1 m2 : M A) : Prop :=
  forall s1 s2, Rs s1 s2 -> post RA (m1 s1) (m2 s2).

Definition Rce (x1 x2 : cret * env) : Prop := fst x1 = fst x2 /\ erel (snd x1) (snd x2).
Definition postR (x1 x2 : glob * ires (cret * env)) : Prop :=
  Rg (fst x1) (fst x2) /\ rres Rce (snd x1) (snd x2).

Definition cb_rel (f : option path) (cb1 cb2 : option (list item)) : Prop :=
  match cb1, cb2 with
  | Some b1, Some b2 => perase f b1 b2
  | None, None => True
  | _, _ => False
  end.

Variable o : options.

Section Stack.
Variables child1 child2 : runner fo.
Variable fs : fsys.
Variable pile : list frame.
Variable file : option path.
Notation cx := (mkCtx o fs pile file).

Hypothesis Hchild : forall cur l2 file' g1 g2 e1 e2 code1 code2,
  Rg g1 g2 -> erel e1 e2 -> perase file' code1 code2 ->
  postR (child1 (mkCtx o fs (here cx cur l2) file') g1 e1 code1)
        (child2 (mkCtx o fs (here cx cur l2) file') g2 e2 code2).

(* ---------------------------------------------------------------- primitives *)
Lemma rel_ret : forall A (RA : A -> A -> Prop) a1 a2, RA a1 a2 -> relM RA (ret a1) (ret a2).
Proof. intros A RA a1 a2 H s1 s2 Hs. split; [exact Hs|exact H]. Qed.

Lemma rel_ret_eq : forall A (a : A), relM eq (ret a) (ret a).
Proof. intros. apply rel_ret. reflexivity. Qed.

Lemma rel_bind : forall A B (RA : A -> A -> Prop) (RB : B -> B -> Prop) (m1 m2 : M A) (f1 f2 : A -> M B),
  relM RA m1 m2 -> (forall a1 a2, RA a1 a2 -> relM RB (f1 a1) (f2 a2)) ->
  relM RB (bindM m1 f1) (bindM m2 f2).
Proof.
  intros A B RA RB m1 m2 f1 f2 Hm Hf s1 s2 Hs. unfold Interp.bindM.
  specialize (Hm s1 s2 Hs). destruct (m1 s1) as [s1' r1]. destruct (m2 s2) as [s2' r2].
  unfold post in Hm. cbn [fst snd] in Hm. destruct Hm as [Hs' Hr].
  destruct r1 as [a1|e1 t1|k1|], r2 as [a2|e2 t2|k2|]; cbn [rres] in Hr; try contradiction.
  - apply Hf; assumption.
  - split; [exact Hs'|exact Hr].
  - split; [exact Hs'|exact Hr].
  - split; [exact Hs'|exact I].
Qed.

Lemma rel_bind_eq : forall A B (RB : B -> B -> Prop) (m1 m2 : M A) (f1 f2 : A -> M B),
  relM eq m1 m2 -> (forall a, relM RB (f1 a) (f2 a)) -> relM RB (bindM m1 f1) (bindM m2 f2).
Proof.
  intros A B RB m1 m2 f1 f2 Hm Hf. eapply rel_bind; [exact Hm|]. intros a1 a2 <-. apply Hf.
Qed.

Lemma rel_raise : forall cur A (RA : A -> A -> Prop) e, relM RA (@raise fo cx cur A e) (@raise fo cx cur A e).
Proof.
  intros cur A RA e s1 s2 Hs. split; [exact Hs|]. cbn [snd Interp.raise rres].
  destruct Hs as (_ & _ & ->). split; reflexivity.
Qed.

Lemma rel_crash : forall A (RA : A -> A -> Prop) k, relM RA (@crash fo A k) (@crash fo A k).
Proof. intros A RA k s1 s2 Hs. split; [exact Hs|reflexivity]. Qed.

Lemma rel_unmod : forall A (RA : A -> A -> Prop), relM RA (@unmod fo A) (@unmod fo A).
Proof. intros A RA s1 s2 Hs. split; [exact Hs|exact I]. Qed.

Lemma rel_lift : forall cur A (x : res A), relM eq (lift fo cx cur x) (lift fo cx cur x).
Proof.
  intros cur A x. destruct x; cbn [lift]; [apply rel_ret_eq|apply rel_raise|apply rel_crash|apply rel_unmod].
Qed.

Lemma rel_get_env : relM erel (get_env fo) (get_env fo).
Proof. intros s1 s2 Hs. split; [exact Hs|]. destruct Hs as (_ & He & _). exact He. Qed.

Lemma rel_set_env : forall e1 e2, erel e1 e2 -> relM eq (set_env fo e1) (set_env fo e2).
Proof.
  intros e1 e2 He s1 s2 (Hg & _ & Hl). split; [|reflexivity]. split; [exact Hg|]. split; [exact He|exact Hl].
Qed.

Lemma rel_set_line2 : forall l, relM eq (set_line2 fo l) (set_line2 fo l).
Proof.
  intros l s1 s2 (Hg & He & Hl). split; [|reflexivity]. split; [exact Hg|]. split; [exact He|reflexivity].
Qed.

Lemma rel_warn : forall cur t, relM eq (warn fo cx cur t) (warn fo cx cur t).
Proof.
  intros cur t s1 s2 (Hg & He & Hl). split; [|reflexivity].
  unfold warn. cbn [fst s_g s_env s_line2]. rewrite Hl.
  split; [|split; [exact He|reflexivity]]. apply Rg_warn; assumption.
Qed.

Lemma rel_add_plain_warning : forall t, relM eq (add_plain_warning fo t) (add_plain_warning fo t).
Proof.
  intros t s1 s2 (Hg & He & Hl). split; [|reflexivity].
  split; [|split; [exact He|exact Hl]]. apply Rg_warn; assumption.
Qed.

Lemma rel_print : forall p,
  relM eq (mod_glob fo (fun g => mkGlob (p :: g_prints g) (g_warnings g)))
          (mod_glob fo (fun g => mkGlob (p :: g_prints g) (g_warnings g))).
Proof.
  intros p s1 s2 (Hg & He & Hl). split; [|reflexivity].
  split; [|split; [exact He|exact Hl]]. apply Rg_print; assumption.
Qed.

Lemma rel_tokenizeM : forall cur a, relM eq (tokenizeM fo cx cur a) (tokenizeM fo cx cur a).
Proof.
  intros. unfold tokenizeM. eapply rel_bind; [apply rel_get_env|intros e1 e2 He].
  rewrite (erel_all_vars _ _ He). apply rel_lift.
Qed.

Ltac rel_step :=
  first
    [ apply rel_ret_eq | apply rel_raise | apply rel_crash | apply rel_unmod | apply rel_lift
    | apply rel_set_line2
    | apply rel_print | apply rel_tokenizeM | apply rel_warn
    | assumption
    | apply rel_bind_eq; [|intros ?]
    | match goal with
      | |- relM _ (if ?b then _ else _) (if ?b then _ else _) => destruct b
      | |- relM _ (match ?x with _ => _ end) (match ?x with _ => _ end) => destruct x
      | |- relM _ (let '(_, _) := ?x in _) (let '(_, _) := ?x in _) => destruct x
      end ].
Ltac rel_tac := repeat rel_step.

(* ---------------------------------------------------------------- running a child stack *)
Definition Ropt (r1 r2 : option cret) : Prop := r1 = r2.

Lemma rel_run_child_with : forall cur code1 code2 file' parallel setup pre,
  perase file' code1 code2 -> env_fun erel setup -> env_fun eq pre ->
  relM eq (run_child_with fo child1 cx cur code1 file' parallel setup pre)
          (run_child_with fo child2 cx cur code2 file' parallel setup pre).
Proof.
  intros cur code1 code2 file' parallel setup pre Hcode Hsetup Hpre [g1 e1 l1] [g2 e2 l2] (Hg & He & Hl).
  cbn [s_g s_env s_line2] in Hg, He, Hl. subst l2.
  unfold run_child_with. cbn [c_opts s_g s_env s_line2].
  assert (HRs : Rs (mkSt g1 e1 l1) (mkSt g2 e2 l1)) by (split; [exact Hg|split; [exact He|reflexivity]]).
  destruct (cmp_eval _ _ _).
  { split; [exact HRs|]. split; reflexivity. }
  assert (He0 : erel (append_env fo (empty_env fo) e1) (append_env fo (empty_env fo) e2))
    by (apply erel_append; [apply erel_empty|exact He]).
  specialize (Hsetup _ _ He0).
  destruct (setup (append_env fo (empty_env fo) e1)) as [cenv1|er1|k1|],
           (setup (append_env fo (empty_env fo) e2)) as [cenv2|er2|k2|]; cbn [rres0] in Hsetup; try contradiction.
  2:{ subst er2. split; [exact HRs|]. split; reflexivity. }
  2:{ subst k2. split; [exact HRs|]. reflexivity. }
  2:{ split; [exact HRs|]. exact I. }
  specialize (Hpre _ _ Hsetup).
  destruct (pre cenv1) as [b1|er1|k1|], (pre cenv2) as [b2|er2|k2|]; cbn [rres0] in Hpre; try contradiction.
  2:{ subst er2. split; [exact HRs|]. split; reflexivity. }
  2:{ subst k2. split; [exact HRs|]. reflexivity. }
  2:{ split; [exact HRs|]. exact I. }
  subst b2. destruct b1.
  2:{ split; [|reflexivity]. split; [exact Hg|]. split; [|reflexivity]. cbn [s_env].
      destruct parallel; [apply erel_append|apply erel_update_from]; assumption. }
  cbn [c_fs]. specialize (Hchild cur l1 file' g1 g2 cenv1 cenv2 code1 code2 Hg Hsetup Hcode).
  destruct (child1 _ _ _ _) as [g1' r1]. destruct (child2 _ _ _ _) as [g2' r2].
  unfold postR in Hchild. cbn [fst snd] in Hchild. destruct Hchild as [Hg' Hr].
  destruct r1 as [[cr1 ce1]|er1 t1|k1|], r2 as [[cr2 ce2]|er2 t2|k2|]; cbn [rres] in Hr; try contradiction.
  - destruct Hr as [Hc Hee]. cbn [fst snd] in Hc, Hee. subst cr2.
    split; [|reflexivity]. split; [exact Hg'|]. split; [|reflexivity]. cbn [s_env].
    destruct parallel; [apply erel_append|apply erel_update_from]; assumption.
  - split; [|exact Hr]. split; [exact Hg'|split; [exact He|reflexivity]].
  - split; [|exact Hr]. split; [exact Hg'|split; [exact He|reflexivity]].
  - split; [|exact I]. split; [exact Hg'|split; [exact He|reflexivity]].
Qed.

Lemma rel_run_child : forall cur code1 code2 file' parallel setup,
  perase file' code1 code2 -> env_fun erel setup ->
  relM eq (run_child fo child1 cx cur code1 file' parallel setup)
          (run_child fo child2 cx cur code2 file' parallel setup).
Proof.
  intros. unfold run_child. eapply rel_bind; [apply rel_run_child_with; [assumption|assumption|apply env_fun_true]|].
  intros r1 r2 <-. destruct r1; [apply rel_ret_eq|apply rel_crash].
Qed.


Ltac erel_solve He :=
  let Hs := fresh "Hs" in let Hu := fresh "Hu" in let Ht := fresh "Ht" in let Hf := fresh "Hf" in
  destruct He as (Hs & Hu & Ht & Hf); unfold erel; cbn [e_sys e_user e_temp e_funcs];
  rewrite ?Hs, ?Hu, ?Ht; repeat split; try reflexivity; try assumption.

Lemma rel_new_var : forall cur name v, relM eq (new_var fo cx cur name v) (new_var fo cx cur name v).
Proof.
  intros. unfold new_var. destruct (is_var name false); [|apply rel_raise].
  eapply rel_bind; [apply rel_get_env|intros e1 e2 He]. apply rel_set_env. erel_solve He.
Qed.

Lemma rel_listify_args : forall cur argument code_block num,
  relM eq (listify_args fo cx cur argument code_block num) (listify_args fo cx cur argument code_block num).
Proof. intros. unfold listify_args. rel_tac. Qed.

Lemma rel_evaluate_args : forall cur at_ args,
  relM eq (evaluate_args fo cx cur at_ args) (evaluate_args fo cx cur at_ args).
Proof. intros cur at_ args. induction args as [|l r IH]; cbn [evaluate_args]; rel_tac. Qed.

Lemma rel_check_types : forall cur at_ args,
  relM eq (check_types fo cx cur at_ args) (check_types fo cx cur at_ args).
Proof. intros cur at_ args. induction args as [|[l oc] r IH]; cbn [check_types]; rel_tac. Qed.

Lemma rel_verify_each : forall cur params v args,
  relM eq (verify_each fo cx cur params v args) (verify_each fo cx cur params v args).
Proof. intros cur params v args. induction args as [|l r IH]; cbn [verify_each]; rel_tac. Qed.

Lemma rel_verify_plural : forall cur pv n,
  relM eq (verify_plural fo cx cur pv n) (verify_plural fo cx cur pv n).
Proof. intros cur pv n. unfold verify_plural. destruct pv as [|op k msg|op k]; rel_tac. Qed.

Lemma rel_format_each : forall cur params f args,
  relM eq (format_each fo cx cur params f args) (format_each fo cx cur params f args).
Proof. intros cur params f args. induction args as [|l r IH]; cbn [format_each]; rel_tac. Qed.

Lemma rel_check_flipper : forall cur b, relM eq (check_flipper fo cx cur b) (check_flipper fo cx cur b).
Proof. intros cur b. unfold check_flipper. rel_tac. Qed.

(* ---------------------------------------------------------------- run_compile *)
Lemma env_fun_run_setup : forall args (vals : list (value fo)),
  env_fun erel (fun ce => Ok (mkEnv fo (e_sys fo ce)
                     (fold_left (fun u nv => upd (fst nv) (snd nv) u) (combine args vals) (e_user fo ce))
                     (e_temp fo ce) (e_funcs fo ce))).
Proof. intros args vals e1 e2 He. cbn [rres0]. erel_solve He. Qed.

Lemma rel_run_compile : forall cur cname sc name arg,
  relM eq (run_compile fo child1 cx cur cname sc name arg) (run_compile fo child2 cx cur cname sc name arg).
Proof.
  intros cur cname sc name arg. unfold run_compile.
  destruct (s_run sc) eqn:Ek.
  - apply rel_ret_eq.
  - rel_tac.
  - rel_tac.
  - rel_tac.
  - destruct arg as [l|]; [|apply rel_crash].
    eapply rel_bind; [apply rel_get_env|intros e1 e2 He].
    destruct (l_content l); [apply rel_unmod|].
    assert (Hsys : e_sys fo e1 = e_sys fo e2) by (destruct He as (Hs & _); exact Hs). rewrite Hsys.
    destruct (has_key _ _); [|apply rel_raise].
    eapply rel_bind; [apply rel_set_env|intros ? ? _; apply rel_ret_eq]. erel_solve He.
  - apply rel_ret_eq.
  - destruct arg as [l|]; [|apply rel_ret_eq].
    eapply rel_bind; [apply rel_print|intros ? ? _]. apply rel_ret_eq.
  - apply rel_ret_eq.
  - apply rel_ret_eq.
  - apply rel_ret_eq.
  - (* RUN *)
    destruct arg as [l|]; [|apply rel_crash].
    destruct (break_arg _) as [fname var_string].
    eapply rel_bind with (RA := eq).
    { destruct var_string as [vs|]; [|apply rel_ret_eq]. destruct (is_blank vs); [apply rel_ret_eq|].
      apply rel_bind_eq; [apply rel_tokenizeM|intros v]. apply rel_ret_eq. }
    intros vals ? <-.
    eapply rel_bind; [apply rel_get_env|intros e1 e2 He].
    assert (Hlk := fsrel_lookup fname _ _ (proj2 (proj2 (proj2 He)))).
    destruct (lookup fname (e_funcs fo e1)) as [f1|], (lookup fname (e_funcs fo e2)) as [f2|]; try contradiction;
      [|apply rel_raise].
    destruct Hlk as (Hargs & Hfile & Hcode). rewrite <- Hargs, <- Hfile.
    destruct (negb _); [apply rel_raise|]. cbn [c_file].
    eapply rel_bind with (RA := eq).
    { apply rel_run_child; [|apply env_fun_run_setup].
      destruct (fn_file f1) as [p|]; [exact Hcode|apply perase_mono; exact Hcode]. }
    intros cr ? <-. rel_tac.
  - destruct arg as [l|]; [|apply rel_crash].
    destruct (split_ws1 _) as [|vname [|expr [|x y]]]; try apply rel_crash.
    eapply rel_bind; [apply rel_tokenizeM|intros v ? <-].
    eapply rel_bind; [apply rel_new_var|intros ? ? _]. apply rel_ret_eq.
  - destruct arg as [l|]; [|apply rel_crash].
    eapply rel_bind; [apply rel_get_env|intros e1 e2 He]. rewrite (erel_all_vars _ _ He).
    destruct (has_key _ _); [apply rel_ret_eq|apply rel_raise].
  - destruct arg as [l|]; [|apply rel_crash].
    eapply rel_bind; [apply rel_get_env|intros e1 e2 He]. rewrite (erel_all_vars _ _ He).
    destruct (has_key _ _); [apply rel_raise|apply rel_ret_eq].
  - (* START: the imported text is the same on both sides *)
    destruct arg as [l|]; [|apply rel_crash]. destruct (c_file cx) as [thefile|]; [|apply rel_crash].
    eapply rel_bind; [apply rel_lift|intros target ? <-].
    destruct (c_fs cx target) as [text|]; [|apply rel_raise].
    intros s1 s2 Hs.
    destruct (existsb _ _).
    { split; [exact Hs|]. destruct Hs as (_ & _ & ->). split; reflexivity. }
    destruct (prepare_text text) as [commands|[| | | |]];
      try (split; [exact Hs|]; first [split; reflexivity|reflexivity]).
    revert s1 s2 Hs.
    match goal with |- forall s1 s2, Rs s1 s2 -> post ?R (?m1 s1) (?m2 s2) => change (relM R m1 m2) end.
    eapply rel_bind with (RA := eq); [apply rel_run_child; [apply perase_refl|apply env_fun_id]|intros cr ? <-].
    eapply rel_bind with (RA := eq).
    { destruct (s_sig_warning _); [apply rel_add_plain_warning|apply rel_ret_eq]. }
    intros ? ? _. destruct (str_eqb _ _); apply rel_ret_eq.
Qed.

Lemma rel_multi_comp : forall cur cname tg sc name args acc,
  relM eq (multi_comp fo child1 cx cur cname tg sc name args acc)
          (multi_comp fo child2 cx cur cname tg sc name args acc).
Proof.
  intros cur cname tg sc name args. induction args as [|a r IH]; intros acc; cbn [multi_comp].
  - apply rel_ret_eq.
  - eapply rel_bind; [apply rel_set_line2|intros ? ? _].
    eapply rel_bind; [apply rel_run_compile|intros c ? <-]. apply IH.
Qed.

Lemma rel_simple_compile : forall cur cname tg sc cmd num argument code_block,
  relM eq (simple_compile fo child1 cx cur cname tg sc cmd num argument code_block)
          (simple_compile fo child2 cx cur cname tg sc cmd num argument code_block).
Proof.
  intros cur cname tg sc cmd num argument code_block. unfold simple_compile.
  apply rel_bind_eq; [apply rel_check_flipper|intros u0].
  apply rel_bind_eq; [apply rel_listify_args|intros args0].
  apply rel_bind_eq.
  { destruct (_ || _); [|rel_tac].
    apply rel_bind_eq; [apply rel_evaluate_args|intros vs].
    induction vs as [|[l v] r IH]; rel_tac. }
  intros args2.
  apply rel_bind_eq; [rel_tac|intros u1].
  apply rel_bind_eq; [apply rel_check_types|intros args3].
  apply rel_bind_eq; [apply rel_verify_plural|intros u2].
  apply rel_bind_eq; [apply rel_verify_each|intros u3].
  apply rel_bind_eq; [apply rel_format_each|intros args4].
  apply rel_multi_comp.
Qed.

(* ---------------------------------------------------------------- block commands *)
Lemma rel_tokenize_count : forall cur a, relM eq (tokenize_count fo cx cur a) (tokenize_count fo cx cur a).
Proof.
  intros. unfold tokenize_count.
  apply rel_bind_eq; [apply rel_tokenizeM|intros v]. rel_tac.
Qed.

Lemma rel_repeat_loop : forall cur code1 code2, perase file code1 code2 ->
  forall fuel v a count acc,
  relM eq (repeat_loop fo child1 cx cur fuel v a code1 count acc)
          (repeat_loop fo child2 cx cur fuel v a code2 count acc).
Proof.
  intros cur code1 code2 Hcode fuel. induction fuel as [|f IH]; intros v a count acc; cbn [repeat_loop].
  - apply rel_bind_eq; [apply rel_tokenize_count|intros n].
    destruct (count <? n)%Z; [apply rel_crash|apply rel_ret_eq].
  - apply rel_bind_eq; [apply rel_tokenize_count|intros n].
    destruct (count <? n)%Z; [|apply rel_ret_eq]. cbn [c_file].
    eapply rel_bind with (RA := eq); [apply rel_run_child; [exact Hcode|apply env_fun_bind_counter]|intros cr ? <-].
    destruct (loop_signal _) as [sg brk].
    destruct brk; [apply rel_ret_eq|apply IH].
Qed.

Lemma rel_while_loop : forall cur code1 code2, perase file code1 code2 ->
  forall fuel v a count acc,
  relM eq (while_loop fo child1 cx cur fuel v a code1 count acc)
          (while_loop fo child2 cx cur fuel v a code2 count acc).
Proof.
  intros cur code1 code2 Hcode fuel. induction fuel as [|f IH]; intros v a count acc; cbn [while_loop].
  - destruct (cmp_eval _ _ _); [apply rel_raise|apply rel_crash].
  - destruct (cmp_eval _ _ _); [apply rel_raise|]. cbn [c_file].
    eapply rel_bind with (RA := eq).
    { apply rel_run_child_with; [exact Hcode|apply env_fun_bind_counter|apply env_fun_while_pre]. }
    intros r ? <-. destruct r as [cr|]; [|apply rel_ret_eq].
    destruct (loop_signal _) as [sg brk].
    destruct brk; [apply rel_ret_eq|apply IH].
Qed.

Lemma rel_get_temp_flag : relM eq (get_temp_flag fo) (get_temp_flag fo).
Proof.
  unfold get_temp_flag. eapply rel_bind; [apply rel_get_env|intros e1 e2 He].
  assert (Ht : e_temp fo e1 = e_temp fo e2) by (destruct He as (_ & _ & Ht & _); exact Ht). rewrite Ht.
  apply rel_ret_eq.
Qed.

Lemma rel_set_temp_flag : forall b, relM eq (set_temp_flag fo b) (set_temp_flag fo b).
Proof.
  intros. unfold set_temp_flag. eapply rel_bind; [apply rel_get_env|intros e1 e2 He].
  apply rel_set_env. erel_solve He.
Qed.

Lemma rel_block_compile : forall cur bc cname cmd num argument cb1 cb2,
  cb_rel file cb1 cb2 -> (b_kind bc = BKIgnore -> cb1 = cb2) ->
  relM eq (block_compile fo child1 cx cur bc cname cmd num argument cb1)
          (block_compile fo child2 cx cur bc cname cmd num argument cb2).
Proof.
  intros cur bc cname cmd num argument cb1 cb2 Hcb Hign. unfold block_compile.
  apply rel_bind_eq; [apply rel_check_flipper|intros u0].
  apply rel_bind_eq; [rel_tac|intros u1].
  set (arg' := if b_strip_arg bc then _ else _). clearbody arg'. cbn [c_file].
  assert (Hcode : perase file (match cb1 with Some b => b | None => [] end) (match cb2 with Some b => b | None => [] end)).
  { destruct cb1 as [b1|], cb2 as [b2|]; cbn [cb_rel] in Hcb; try contradiction; [exact Hcb|constructor]. }
  set (code1 := match cb1 with Some b => b | None => [] end) in *.
  set (code2 := match cb2 with Some b => b | None => [] end) in *.
  destruct (b_kind bc) eqn:Ekind.
  - eapply rel_bind with (RA := erel); [apply rel_get_env|intros e1 e2 He].
    assert (Ht : e_temp fo e1 = e_temp fo e2) by (destruct He as (_ & _ & Ht & _); exact Ht). rewrite Ht.
    apply rel_bind_eq; [destruct (has_key _ _); [rel_tac|apply rel_set_temp_flag]|intros u2].
    apply rel_bind_eq; [rel_tac|intros u3].
    apply rel_bind_eq.
    { destruct arg' as [a|]; [|rel_tac]. destruct (str_eqb _ _); [rel_tac|].
      apply rel_bind_eq; [apply rel_tokenizeM|intros v]. rel_tac. }
    intros tok.
    apply rel_bind_eq; [apply rel_get_temp_flag|intros flag].
    apply rel_bind_eq.
    { destruct (str_eqb _ _); [|rel_tac]. apply rel_bind_eq; [apply rel_set_temp_flag|intros u4]. rel_tac. }
    intros skip. destruct skip; [apply rel_ret_eq|]. destruct (_ && _); [apply rel_ret_eq|].
    apply rel_bind_eq; [apply rel_set_temp_flag|intros u5].
    eapply rel_bind with (RA := eq); [apply rel_run_child; [exact Hcode|apply env_fun_id]|intros cr ? <-]. apply rel_ret_eq.
  - assert (Heq : code1 = code2) by (unfold code1, code2; rewrite (Hign eq_refl); reflexivity). rewrite Heq.
    destruct (block_lines _) as [ls|]; [apply rel_ret_eq|apply rel_raise].
  - destruct arg' as [a|]; [|apply rel_crash]. destruct (split_loop_arg a) as [var_name count_expr].
    pose proof (perase_nil_iff E Add _ _ _ Hcode) as Hnil.
    destruct code1 as [|i1 c1].
    { rewrite (proj1 Hnil eq_refl). destruct var_name; [apply rel_raise|apply rel_ret_eq]. }
    destruct code2 as [|i2 c2]; [destruct Hnil as [_ Hn]; discriminate (Hn eq_refl)|].
    destruct (match var_name with Some v => _ | None => _ end); [|apply rel_raise].
    eapply rel_bind with (RA := eq); [apply rel_repeat_loop; exact Hcode|intros cr ? <-]. apply rel_ret_eq.
  - destruct arg' as [a|]; [|apply rel_crash]. destruct (split_loop_arg a) as [var_name cond].
    eapply rel_bind with (RA := eq); [apply rel_while_loop; exact Hcode|intros cr ? <-]. apply rel_ret_eq.
  - destruct arg' as [a|]; [|apply rel_crash]. destruct (break_arg a) as [fname var_string].
    destruct (_ && _); [|apply rel_raise].
    eapply rel_bind; [apply rel_get_env|intros e1 e2 He].
    eapply rel_bind with (RA := eq); [apply rel_set_env|intros ? ? _; apply rel_ret_eq].
    destruct He as (Hs & Hu & Ht & Hf). unfold erel. cbn [e_sys e_user e_temp e_funcs].
    repeat split; try assumption. apply fsrel_upd; [|exact Hf].
    split; [reflexivity|]. split; [reflexivity|]. cbn [fn_file fn_code]. exact Hcode.
Qed.


(* ---------------------------------------------------------------- one line *)
Lemma is_this_command_cb : forall c cmd b1 b2, (b1 = [] <-> b2 = []) ->
  is_this_command c cmd (Some b1) = is_this_command c cmd (Some b2).
Proof.
  intros c cmd b1 b2 H. destruct b1 as [|i1 r1], b2 as [|i2 r2]; try reflexivity.
  - destruct H as [H _]. discriminate (H eq_refl).
  - destruct H as [_ H]. discriminate (H eq_refl).
Qed.

Lemma find_command_cb : forall pal cmd b1 b2, (b1 = [] <-> b2 = []) ->
  find_command pal cmd (Some b1) = find_command pal cmd (Some b2).
Proof.
  intros pal cmd b1 b2 H. induction pal as [|[n c] r IH]; [reflexivity|]. cbn [find_command].
  rewrite (is_this_command_cb c cmd b1 b2 H). rewrite IH. reflexivity.
Qed.

Definition cb_ok (c : str) (cb1 cb2 : option (list item)) : Prop :=
  cb1 = cb2 \/ exists b1 b2, cb1 = Some b1 /\ cb2 = Some b2 /\ perase file b1 b2 /\ code_header c b1 = true.

Theorem rel_exec_line : forall c n cb1 cb2, cb_ok c cb1 cb2 ->
  relM eq (exec_line fo child1 cx c n cb1) (exec_line fo child2 cx c n cb2).
Proof.
  intros c n cb1 cb2 [<-|(b1 & b2 & -> & -> & Hb & Hh)].
  - unfold exec_line.
    destruct (split_ws1 c) as [|cmd more] eqn:Es; [apply rel_crash|].
    destruct (find_command _ _ _) as [[cname cl]|] eqn:Ef.
    + cbn [c_file]. destruct (_ && _); [apply rel_raise|]. destruct cl as [sc|bc].
      * apply rel_simple_compile.
      * eapply rel_bind with (RA := eq).
        { apply rel_block_compile; [|reflexivity]. destruct cb1; cbn [cb_rel]; [apply perase_refl|exact I]. }
        intros r ? <-. rel_tac.
    + cbn [c_opts]. eapply rel_bind with (RA := eq); [rel_tac|].
      intros ? ? _. apply rel_simple_compile.
  - unfold exec_line. unfold code_header in Hh.
    destruct (split_ws1 c) as [|cmd more] eqn:Es; [discriminate|].
    rewrite <- (find_command_cb palette cmd b1 b2 (perase_nil_iff E Add _ _ _ Hb)).
    destruct (find_command palette cmd (Some b1)) as [[cname [sc|bc]]|] eqn:Ef; try discriminate.
    cbn [is_start_class andb].
    eapply rel_bind with (RA := eq).
    { apply rel_block_compile; [exact Hb|]. intro Hk. rewrite Hk in Hh. discriminate. }
    intros r ? <-. rel_tac.
Qed.

(* a silent line: computed *)
Lemma silent_exec : forall (child : runner fo) c n (s : st), silent c ->
  exists added l2,
    exec_line fo child cx c n None s =
    (mkSt (mkGlob (added ++ g_prints (s_g s)) (g_warnings (s_g s))) (s_env s) l2, IOk (mkCret [] SNormal)) /\
    Forall (fun p => p_file p = file /\ p_num p = n) added.
Proof.
  intros child c n s [(cmd & more & Hs & Hu)|(cmd & Hs & Hu)].
  - eexists. eexists. split.
    + apply (print_line_exec fo child cx c n None cmd more (first_arg (c, n) (line_argument more) n) s Hs Hu).
      reflexivity.
    + cbn [c_file]. apply Forall_rev. apply Forall_forall. intros p Hin. apply in_map_iff in Hin.
      destruct Hin as (l & <- & Hin). unfold print_of. cbn [p_file p_num]. split; [reflexivity|].
      unfold first_arg, line_argument in Hin. destruct more as [|[|a0 ar] more']; try contradiction.
      destruct Hin as [<-|[]]. reflexivity.
  - exists [], (Some (c, n)). split; [|constructor].
    rewrite (pass_line_exec fo child cx c n cmd s Hs Hu). destruct s as [[p w] e l2]. reflexivity.
Qed.

Lemma silent_not_blank : forall c, silent c -> is_blank c = false.
Proof.
  intros c [(cmd & more & Hs & _)|(cmd & Hs & _)]; eapply split_ws1_not_blank; exact Hs.
Qed.

Lemma code_header_not_blank : forall c b, code_header c b = true -> is_blank c = false.
Proof.
  intros c b H. unfold code_header in H. destruct (split_ws1 c) as [|cmd more] eqn:Es; [discriminate|].
  eapply split_ws1_not_blank; exact Es.
Qed.

(* ---------------------------------------------------------------- the stack *)
Theorem rel_exec_cmds : forall cmds1 cmds2, perase file cmds1 cmds2 ->
  forall acc s1 s2, Rw s1 s2 ->
  postw eq (exec_cmds fo child1 cx cmds1 acc s1) (exec_cmds fo child2 cx cmds2 acc s2).
Proof.
  intros cmds1 cmds2 H.
  (* the step shared by the three line cases: after an exec_line pair with equal results *)
  assert (Hstep : forall c1 c2 n cb1 cb2 rest1 rest2 acc s1 s2,
    Rw s1 s2 ->
    (forall t1 t2, Rs t1 t2 -> postw eq (exec_line fo child1 cx c1 n cb1 t1) (exec_line fo child2 cx c2 n cb2 t2)) ->
    (forall acc t1 t2, Rw t1 t2 ->
       postw eq (exec_cmds fo child1 cx rest1 acc t1) (exec_cmds fo child2 cx rest2 acc t2)) ->
    postw eq
      (bindM (set_line2 fo None) (fun _ => bindM (exec_line fo child1 cx c1 n cb1) (fun cr =>
         match cr_sig cr with SNormal => exec_cmds fo child1 cx rest1 (acc ++ cr_data cr)
                            | sg => ret (mkCret (acc ++ cr_data cr) sg) end)) s1)
      (bindM (set_line2 fo None) (fun _ => bindM (exec_line fo child2 cx c2 n cb2) (fun cr =>
         match cr_sig cr with SNormal => exec_cmds fo child2 cx rest2 (acc ++ cr_data cr)
                            | sg => ret (mkCret (acc ++ cr_data cr) sg) end)) s2)).
  { intros c1 c2 n cb1 cb2 rest1 rest2 acc s1 s2 [Hg He] Hline Hrest.
    unfold Interp.bindM at 1 3. unfold set_line2. unfold Interp.bindM.
    assert (Hs0 : Rs (mkSt (s_g s1) (s_env s1) None) (mkSt (s_g s2) (s_env s2) None))
      by (split; [exact Hg|split; [exact He|reflexivity]]).
    specialize (Hline _ _ Hs0).
    destruct (exec_line fo child1 _ _ _ _ _) as [t1 r1]. destruct (exec_line fo child2 _ _ _ _ _) as [t2 r2].
    destruct Hline as [Ht Hr]. cbn [fst snd] in Ht, Hr.
    destruct r1 as [cr1|e1 tr1|k1|], r2 as [cr2|e2 tr2|k2|]; cbn [rres] in Hr; try contradiction.
    - subst cr2. destruct (cr_sig cr1); try (split; [exact Ht|reflexivity]). apply Hrest. exact Ht.
    - split; [exact Ht|exact Hr].
    - split; [exact Ht|exact Hr].
    - split; [exact Ht|exact I]. }
  induction H as [|c n r1 r2 Hr IH|b r1 r2 Hr IH|c n b1 b2 r1 r2 Hh Hb IHb Hr IH|c1 c2 n r1 r2 Hc1 Hc2 HE Hng Hr IH];
    intros acc s1 s2 Hs.
  - split; [exact Hs|reflexivity].
  - cbn [exec_cmds]. destruct (is_blank c); [apply IH; exact Hs|].
    apply Hstep; [exact Hs| |exact IH].
    intros t1 t2 Ht.
    assert (Hcb : match r1 with Blk b :: _ => Some b | _ => None end = match r2 with Blk b :: _ => Some b | _ => None end).
    { pose proof (perase_block_after E Add _ _ _ Hr) as Hba.
      destruct r1 as [|[?|?] ?], r2 as [|[?|?] ?]; try contradiction; try reflexivity. subst. reflexivity. }
    rewrite Hcb. set (cb := match r2 with Blk b :: _ => Some b | _ => None end).
    destruct (rel_exec_line c n cb cb (or_introl eq_refl) t1 t2 Ht) as [Hs' Hr'].
    split; [apply Rs_Rw; exact Hs'|exact Hr'].
  - cbn [exec_cmds]. apply IH. exact Hs.
  - cbn [exec_cmds]. rewrite (code_header_not_blank _ _ Hh).
    apply Hstep; [exact Hs| |].
    + intros t1 t2 Ht.
      assert (Hok : cb_ok c (Some b1) (Some b2)) by (right; exists b1, b2; repeat split; assumption).
      destruct (rel_exec_line c n _ _ Hok t1 t2 Ht) as [Hs' Hr'].
      split; [apply Rs_Rw; exact Hs'|exact Hr'].
    + intros acc' t1 t2 Ht. cbn [exec_cmds]. apply IH. exact Ht.
  - assert (Hc2' : silent c2) by (destruct Hc2 as [Hp|[_ Hs2]]; [right; exact Hp|exact Hs2]).
    cbn [exec_cmds]. rewrite (silent_not_blank _ Hc1), (silent_not_blank _ Hc2').
    pose proof (perase_no_group E Add _ _ _ Hr Hng) as Hng2.
    replace (match r1 with Blk b :: _ => Some b | _ => None end) with (@None (list item))
      by (destruct r1 as [|[?|?] ?]; [reflexivity|reflexivity|contradiction]).
    replace (match r2 with Blk b :: _ => Some b | _ => None end) with (@None (list item))
      by (destruct r2 as [|[?|?] ?]; [reflexivity|reflexivity|contradiction]).
    apply Hstep; [exact Hs| |exact IH].
    intros t1 t2 (Hg & He & _).
    destruct (silent_exec child1 c1 n t1 Hc1) as (a1 & l1 & E1 & F1).
    assert (H2 : exists a2 l2,
              exec_line fo child2 cx c2 n None t2 =
              (mkSt (mkGlob (a2 ++ g_prints (s_g t2)) (g_warnings (s_g t2))) (s_env t2) l2, IOk (mkCret [] SNormal)) /\
              Forall (fun p => p_file p = file /\ p_num p = n) a2 /\ (a2 = [] \/ Add)).
    { destruct Hc2 as [(cmd & Hs2 & Hu2)|[Hadd Hs2]].
      - exists [], (Some (c2, n)). split; [|split; [constructor|left; reflexivity]].
        rewrite (pass_line_exec fo child2 cx c2 n cmd t2 Hs2 Hu2). destruct t2 as [[p w] e l2]. reflexivity.
      - destruct (silent_exec child2 c2 n t2 Hs2) as (a2 & l2 & E2 & F2). exists a2, l2.
        split; [exact E2|split; [exact F2|right; exact Hadd]]. }
    destruct H2 as (a2 & l2 & E2 & F2 & Hadd).
    rewrite E1, E2. split; [|reflexivity]. split; [|exact He]. cbn [fst s_g].
    destruct Hg as [Hw Hp]. split; cbn [g_warnings g_prints]; [exact Hw|].
    apply prel_drop_both; [| |exact Hadd|exact Hp].
    + eapply Forall_impl; [|exact F1]. intros p [-> ->]. exact HE.
    + eapply Forall_impl; [|exact F2]. intros p [-> ->]. exact HE.
Qed.

Theorem rel_run_with : forall g1 g2 e1 e2 cmds1 cmds2, Rg g1 g2 -> erel e1 e2 -> perase file cmds1 cmds2 ->
  postR (run_with fo child1 cx g1 e1 cmds1) (run_with fo child2 cx g2 e2 cmds2).
Proof.
  intros g1 g2 e1 e2 cmds1 cmds2 Hg He Hc. unfold run_with.
  assert (Hs : Rw (mkSt g1 e1 None) (mkSt g2 e2 None)) by (split; assumption).
  pose proof (rel_exec_cmds cmds1 cmds2 Hc [] _ _ Hs) as H.
  destruct (exec_cmds fo child1 _ _ _ _) as [s1 r1]. destruct (exec_cmds fo child2 _ _ _ _) as [s2 r2].
  destruct H as [[Hg' He'] Hr]. cbn [fst snd] in Hg', He', Hr.
  destruct r1 as [cr1|er1 t1|k1|], r2 as [cr2|er2 t2|k2|]; cbn [rres] in Hr; try contradiction;
    (split; cbn [fst snd]; [exact Hg'|]); cbn [rres]; try exact Hr.
  split; [exact Hr|exact He'].
Qed.

End Stack.

(* ------------------------------------------------------------------ the depth-indexed interpreter *)
Theorem rel_run : forall d fs pile file g1 g2 e1 e2 cmds1 cmds2,
  Rg g1 g2 -> erel e1 e2 -> perase file cmds1 cmds2 ->
  postR (run fo d (mkCtx o fs pile file) g1 e1 cmds1) (run fo d (mkCtx o fs pile file) g2 e2 cmds2).
Proof.
  induction d as [|d IH]; intros fs pile file g1 g2 e1 e2 cmds1 cmds2 Hg He Hc; cbn [run].
  - apply rel_run_with; try assumption.
    intros cur l2 file' g1' g2' e1' e2' c1 c2 Hg' He' Hc'. split; [exact Hg'|reflexivity].
  - apply rel_run_with; try assumption.
    intros cur l2 file' g1' g2' e1' e2' c1 c2 Hg' He' Hc'. apply IH; assumption.
Qed.

(* ------------------------------------------------------------------ Compiler.compile *)
Definition Rcomp (c1 c2 : compiled fo) : Prop :=
  out fo c1 = out fo c2 /\ warnings fo c1 = warnings fo c2 /\
  erel (final_env fo c1) (final_env fo c2) /\ prel (prints fo c1) (prints fo c2).

Theorem erase_compile_items : forall fs file cmds1 cmds2 g1 r1 g2 r2,
  perase file cmds1 cmds2 ->
  compile_items fo o fs file cmds1 = (g1, r1) ->
  compile_items fo o fs file cmds2 = (g2, r2) ->
  Rg g1 g2 /\ rres Rcomp r1 r2.
Proof.
  intros fs file cmds1 cmds2 g1 r1 g2 r2 Hc E1 E2. unfold compile_items in E1, E2.
  pose proof (rel_run (run_depth o) fs [] file _ _ _ _ cmds1 cmds2 (Rg_refl (mkGlob [] [])) (erel_refl (initial_env fo)) Hc) as H.
  destruct (run fo _ _ _ _ cmds1) as [g1' x1]. destruct (run fo _ _ _ _ cmds2) as [g2' x2].
  destruct H as [Hg Hr]. cbn [fst snd] in Hg, Hr.
  destruct x1 as [[cr1 e1]|er1 t1|k1|], x2 as [[cr2 e2]|er2 t2|k2|]; cbn [rres] in Hr; try contradiction;
    injection E1 as <- <-; injection E2 as <- <-.
  - destruct Hr as [Hcr Hee]. cbn [fst snd] in Hcr, Hee. subst cr2.
    assert (Hg' : Rg (match s_sig_warning (cr_sig cr1) with Some w => add_warning (mkWarn w None) g1' | None => g1' end)
                     (match s_sig_warning (cr_sig cr1) with Some w => add_warning (mkWarn w None) g2' | None => g2' end)).
    { destruct (s_sig_warning _); [apply Rg_warn|]; exact Hg. }
    split; [exact Hg'|]. cbn [rres]. unfold Rcomp. cbn [out final_env warnings prints].
    destruct Hg' as [Hw Hp]. split; [reflexivity|]. split; [rewrite Hw; reflexivity|].
    split; [exact Hee|]. apply prel_rev. exact Hp.
  - split; [exact Hg|exact Hr].
  - split; [exact Hg|exact Hr].
  - split; [exact Hg|exact I].
Qed.

End Lift.
