(* C04d (programs) -- CONGRUENCE of the unified reference semantics (Spec/CoreAll.v) for the
   EXPRESSION TEXTS of a program, on the specification alone, and its instance: two programs that
   differ only in the LAYOUT of their expressions have the same derivations.

   [rel EQ D s s']: the statements s and s' are the same except that each expression text e of s
   (the argument of $NAME / VAR / $PRINT, a condition of IF / ELIF / WHILE, the count of REPEAT) is
   replaced in s' by a text e' with [EQ D e e'], where D is a list of variable names KNOWN TO BE
   DEFINED at that point (a conservative static analysis):
     - the VARs of the statements before, at the same level, are known after them;
     - a loop body knows the counter; a function body knows ONLY its parameters; an imported file
       knows nothing (D = []);
     - VAR names, loop counters and parameters must be identifiers (Spec/Spelling.v [ident]).
   The arguments of RUN are not changed.
   HYPOTHESIS on EQ ([HEQ]): in every store whose names are identifiers and which defines D,
   [eval ... e v -> eval ... e' v].
   THEOREM [cong_all]: a derivation for s gives a derivation for s' with the SAME signal, flag,
   store and output lines; the function tables are related ([trel]: bodies related); the events
   are the same up to the TEXTS of the block-header frames in the piles of warnings ([evrel]).
   INSTANCE [lay_eq]: e = print lay x, e' = print lay' x for one abstract expression x whose
   variables are in D and well spelled ([sexpr_ok]). *)
From Coq Require Import NArith ZArith List Bool Arith Lia.
From DS Require Import Base PyStr Values Tables Expr ExprAst Spelling ExprLang ExprPrint ExprCorollaries.
From DS Require Import TabParse CoreLang CoreFunc CoreText CoreAll CoreAllErase ScopeProofs CoreAllKeys ExprSpecCompose.
Import ListNotations.

(* ================================================================== the static relation *)
Definition defs (s : ustmt) : list str := match s with UVar x _ => [x] | _ => [] end.
Definition cadd (c : option str) (D : list str) : list str := match c with Some x => x :: D | None => D end.
Definition cident (c : option str) : Prop := match c with Some x => ident x = true | None => True end.

Section Rel.
Variable EQ : list str -> str -> str -> Prop.

Inductive rel : list str -> ustmt -> ustmt -> Prop :=
| R_Emit : forall D n t, rel D (UEmit n t) (UEmit n t)
| R_EmitEval : forall D n e e', EQ D e e' -> rel D (UEmitEval n e) (UEmitEval n e')
| R_Var : forall D x e e', ident x = true -> EQ D e e' -> rel D (UVar x e) (UVar x e')
| R_If : forall D arms arms' els els', arel D arms arms' -> orel D els els' -> rel D (UIf arms els) (UIf arms' els')
| R_Repeat : forall D c e e' b b', cident c -> EQ D e e' -> lrel (cadd c D) b b' -> rel D (URepeat c e b) (URepeat c e' b')
| R_While : forall D c e e' b b', cident c -> EQ (cadd c D) e e' -> lrel (cadd c D) b b' -> rel D (UWhile c e b) (UWhile c e' b')
| R_Break : forall D, rel D UBreakLoop UBreakLoop
| R_Continue : forall D, rel D UContinueLoop UContinueLoop
| R_Func : forall D name ps b b', Forall (fun p => ident p = true) ps -> lrel ps b b' -> rel D (UFunc name ps b) (UFunc name ps b')
| R_Run : forall D name args, rel D (URun name args) (URun name args)
| R_Return : forall D, rel D UReturn UReturn
| R_Print : forall D t, rel D (UPrint t) (UPrint t)
| R_PrintEval : forall D e e', EQ D e e' -> rel D (UPrintEval e) (UPrintEval e')
| R_Rem : forall D t, rel D (URem t) (URem t)
| R_Unknown : forall D w a, rel D (UUnknown w a) (UUnknown w a)
| R_Start : forall D k name, rel D (UStart k name) (UStart k name)
with lrel : list str -> list ustmt -> list ustmt -> Prop :=
| LR_nil : forall D, lrel D [] []
| LR_cons : forall D s s' r r', rel D s s' -> lrel (defs s ++ D) r r' -> lrel D (s :: r) (s' :: r')
with arel : list str -> list (str * list ustmt) -> list (str * list ustmt) -> Prop :=
| AR_nil : forall D, arel D [] []
| AR_cons : forall D c c' b b' r r', EQ D c c' -> lrel D b b' -> arel D r r' -> arel D ((c, b) :: r) ((c', b') :: r')
with orel : list str -> option (list ustmt) -> option (list ustmt) -> Prop :=
| OR_none : forall D, orel D None None
| OR_some : forall D b b', lrel D b b' -> orel D (Some b) (Some b').

Scheme rel_mind := Minimality for rel Sort Prop
  with lrel_mind := Minimality for lrel Sort Prop
  with arel_mind := Minimality for arel Sort Prop
  with orel_mind := Minimality for orel Sort Prop.
Combined Scheme rel_all_mind from rel_mind, lrel_mind, arel_mind, orel_mind.

Lemma rel_defs : forall D s s', rel D s s' -> defs s' = defs s.
Proof. intros D s s' H. destruct H; reflexivity. Qed.

(* the two statements occupy the same lines *)
Lemma rel_sizes :
  (forall D s s', rel D s s' -> usize s' = usize s) /\
  (forall D p p', lrel D p p' -> sum_sizes usize p' = sum_sizes usize p) /\
  (forall D a a', arel D a a' ->
     sum_sizes (fun cb : str * list ustmt => let (_, b) := cb in (1 + sum_sizes usize b)%Z) a' =
     sum_sizes (fun cb : str * list ustmt => let (_, b) := cb in (1 + sum_sizes usize b)%Z) a) /\
  (forall D o o', orel D o o' ->
     match o' with Some b => (1 + sum_sizes usize b)%Z | None => 0%Z end =
     match o with Some b => (1 + sum_sizes usize b)%Z | None => 0%Z end).
Proof.
  apply rel_all_mind; intros; cbn [usize sum_sizes]; try reflexivity; try congruence.
Qed.

Lemma lrel_sizes : forall D p p', lrel D p p' -> sum_sizes usize p' = sum_sizes usize p.
Proof. exact (proj1 (proj2 rel_sizes)). Qed.

Definition progrel (prog prog' : program) : Prop :=
  (forall m stmts, lookup m prog = Some stmts -> exists stmts', lookup m prog' = Some stmts' /\ lrel [] stmts stmts') /\
  (forall m stmts', lookup m prog' = Some stmts' -> exists stmts, lookup m prog = Some stmts /\ lrel [] stmts stmts').

(* related function definitions / tables *)
Definition drel (d1 d2 : udef) : Prop :=
  d_params d2 = d_params d1 /\ d_file d2 = d_file d1 /\ d_line d2 = d_line d1 /\
  Forall (fun p => ident p = true) (d_params d1) /\ lrel (d_params d1) (d_body d1) (d_body d2).
Definition trel (F1 F2 : utable) : Prop :=
  Forall2 (fun a b : str * udef => fst b = fst a /\ drel (snd a) (snd b)) F1 F2.

Lemma trel_lookup : forall F1 F2 x d1, trel F1 F2 -> lookup x F1 = Some d1 ->
  exists d2, lookup x F2 = Some d2 /\ drel d1 d2.
Proof.
  intros F1 F2 x d1 H. induction H as [|[y1 w1] [y2 w2] r1 r2 [Hk Hr] Hrest IH]; intro Hl; [discriminate|].
  cbn [fst snd] in Hk, Hr. subst y2. cbn [lookup] in Hl |- *. destruct (str_eqb x y1).
  - injection Hl as <-. exists w2. split; [reflexivity|exact Hr].
  - exact (IH Hl).
Qed.

Lemma trel_set : forall F1 F2 x d1 d2, trel F1 F2 -> drel d1 d2 -> trel (set_def x d1 F1) (set_def x d2 F2).
Proof.
  intros F1 F2 x d1 d2 H Hd. induction H as [|[y1 w1] [y2 w2] r1 r2 [Hk Hr] Hrest IH].
  - constructor; [split; [reflexivity|exact Hd]|constructor].
  - cbn [fst snd] in Hk, Hr. subst y2. cbn [set_def]. destruct (str_eqb x y1).
    + constructor; [split; [reflexivity|exact Hd]|exact Hrest].
    + constructor; [split; [reflexivity|exact Hr]|exact IH].
Qed.

Lemma trel_overlay : forall A B, trel A B -> forall C D, trel C D -> trel (overlay_defs A C) (overlay_defs B D).
Proof.
  intros A B H. induction H as [|[y1 w1] [y2 w2] r1 r2 [Hk Hr] Hrest IH]; intros C D HCD; [exact HCD|].
  cbn [fst snd] in Hk, Hr. subst y2. unfold overlay_defs in *. cbn [fold_left fst snd].
  apply IH. apply trel_set; assumption.
Qed.

Lemma arel_conds : forall (P P' : str -> Prop) D a a',
  arel D a a' -> (forall c c', EQ D c c' -> P c -> P' c') ->
  Forall (fun cb : str * list ustmt => P (fst cb)) a -> Forall (fun cb : str * list ustmt => P' (fst cb)) a'.
Proof.
  intros P P' D a a' H Himp. induction H as [D|D c c' b b' r r' Hc Hb Hr IH]; intro Hf; [constructor|].
  inversion Hf as [|? ? Hp Hrest]; subst. constructor; [exact (Himp c c' Hc Hp)|exact (IH Himp Hrest)].
Qed.

End Rel.

(* the relation is symmetric (for the converse direction of the theorems) *)
Definition flipEQ (EQ : list str -> str -> str -> Prop) : list str -> str -> str -> Prop := fun D a b => EQ D b a.

Lemma rel_sym_all : forall EQ,
  (forall D s s', rel EQ D s s' -> rel (flipEQ EQ) D s' s) /\
  (forall D p p', lrel EQ D p p' -> lrel (flipEQ EQ) D p' p) /\
  (forall D a a', arel EQ D a a' -> arel (flipEQ EQ) D a' a) /\
  (forall D o o', orel EQ D o o' -> orel (flipEQ EQ) D o' o).
Proof.
  intro EQ. apply rel_all_mind; intros; try (constructor; assumption).
  - (* cons *) constructor; [assumption|]. rewrite (rel_defs EQ D s s' H). assumption.
Qed.

Lemma progrel_sym : forall EQ prog prog', progrel EQ prog prog' -> progrel (flipEQ EQ) prog' prog.
Proof.
  intros EQ prog prog' [H1 H2]. split.
  - intros m stmts' Hl. destruct (H2 m stmts' Hl) as (stmts & Hl' & Hr). exists stmts. split; [exact Hl'|].
    exact (proj1 (proj2 (rel_sym_all EQ)) _ _ _ Hr).
  - intros m stmts Hl. destruct (H1 m stmts Hl) as (stmts' & Hl' & Hr). exists stmts'. split; [exact Hl'|].
    exact (proj1 (proj2 (rel_sym_all EQ)) _ _ _ Hr).
Qed.

(* ================================================================== piles and events *)
Definition frel (a b : sframe) : Prop := sf_file a = sf_file b /\ sf_num a = sf_num b /\ sf_inline a = sf_inline b.
Definition prel : list sframe -> list sframe -> Prop := Forall2 frel.

Inductive erel : event -> event -> Prop :=
| ER_print : forall t n f, erel (EvPrint t n f) (EvPrint t n f)
| ER_unknown : forall p p' f t n, prel p p' -> erel (EvWarn (WUnknown p f t n)) (EvWarn (WUnknown p' f t n))
| ER_stray : forall b, erel (EvWarn (WStray b)) (EvWarn (WStray b)).
Definition evrel : list event -> list event -> Prop := Forall2 erel.

Lemma prel_refl : forall p, prel p p.
Proof. induction p as [|a p IH]; constructor; [repeat split|exact IH]. Qed.

Lemma prel_sym : forall p p', prel p p' -> prel p' p.
Proof. intros p p' H. induction H as [|a b r r' (H1 & H2 & H3) Hr IH]; constructor; [repeat split; congruence|exact IH]. Qed.

Lemma prel_push : forall p p' cf t t' n b, prel p p' -> prel (p ++ [mkSF cf t n b]) (p' ++ [mkSF cf t' n b]).
Proof. intros p p' cf t t' n b H. apply Forall2_app; [exact H|]. constructor; [repeat split|constructor]. Qed.

Lemma prel_files : forall p p', prel p p' -> map sf_file p' = map sf_file p.
Proof. intros p p' H. induction H as [|a b r r' (H1 & _) Hr IH]; [reflexivity|]. cbn [map]. rewrite IH, H1. reflexivity. Qed.

Lemma evrel_nil : evrel [] [].
Proof. constructor. Qed.

Lemma evrel_app : forall a a' b b', evrel a a' -> evrel b b' -> evrel (a ++ b) (a' ++ b').
Proof. intros. apply Forall2_app; assumption. Qed.

Lemma evrel_refl_stray : forall sg, evrel (stray sg) (stray sg).
Proof. intros []; repeat constructor. Qed.

Lemma evrel_sym : forall a b, evrel a b -> evrel b a.
Proof.
  intros a b H. induction H as [|x y r r' Hx Hr IH]; constructor; [|exact IH].
  destruct Hx; constructor. apply prel_sym. assumption.
Qed.

(* what related events have in common: the prints with their locations, and the shapes *)
Lemma evrel_prints : forall a b, evrel a b -> prints_of a = prints_of b.
Proof.
  intros a b H. induction H as [|x y r r' Hx Hr IH]; [reflexivity|].
  unfold prints_of in *. cbn [flat_map]. rewrite IH. destruct Hx; reflexivity.
Qed.

Lemma evrel_shapes : forall a b, evrel a b -> map shape a = map shape b.
Proof.
  intros a b H. induction H as [|x y r r' Hx Hr IH]; [reflexivity|].
  cbn [map]. rewrite IH. destruct Hx; reflexivity.
Qed.

(* ================================================================== stores *)
Section Stores.
Variable fo : FloatOps.
Notation store := (store fo).

(* the names of the store are identifiers and include D *)
Definition covers (D : list str) (vs : store) : Prop := vars_ident fo vs /\ incl D (map fst vs).

Lemma vars_ident_keys : forall a b : store, map fst b = map fst a -> vars_ident fo a -> vars_ident fo b.
Proof.
  intros a b Hk Ha. unfold vars_ident in *. rewrite Forall_forall in *. intros [k v] Hin.
  assert (Hk' : In k (map fst a)) by (rewrite <- Hk; apply (in_map fst _ _ Hin)).
  apply in_map_iff in Hk'. destruct Hk' as ([k' v'] & Hf & Hin'). cbn [fst] in Hf. subst k'.
  exact (Ha _ Hin').
Qed.

Lemma vars_ident_copy_back : forall vs vs1 : store, vars_ident fo vs -> vars_ident fo (copy_back fo vs vs1).
Proof.
  intros vs vs1 H. unfold copy_back. induction H as [|[y w] r Hy Hr IH]; [constructor|].
  cbn [flat_map fst]. destruct (lookup y vs1); [|exact IH]. cbn [app]. constructor; [exact Hy|exact IH].
Qed.

Lemma incl_kext : forall D (a b : store), incl D (map fst a) -> kext a b -> incl D (map fst b).
Proof. intros D a b Hi [extra He] x Hx. rewrite He. apply in_or_app. left. exact (Hi x Hx). Qed.

Lemma covers_copy_back : forall D (vs vs1 : store), covers D vs -> kext vs vs1 -> covers D (copy_back fo vs vs1).
Proof.
  intros D vs vs1 [Hi Hd] Hk. split; [apply vars_ident_copy_back; exact Hi|].
  rewrite (names_copy_back fo vs vs1 Hk). exact Hd.
Qed.

Lemma covers_counter : forall D c k (vs : store), cident c -> covers D vs -> covers (cadd c D) (with_counter fo c k vs).
Proof.
  intros D [x|] k vs Hc [Hi Hd]; cbn [cadd with_counter]; [|split; assumption].
  split; [apply vars_ident_set_var; assumption|].
  intros y [<-|Hy]; apply in_keys_set_var; [left; reflexivity|right; exact (Hd y Hy)].
Qed.

Lemma covers_keys : forall D (a b : store), map fst b = map fst a -> covers D a -> covers D b.
Proof. intros D a b Hk [Hi Hd]. split; [exact (vars_ident_keys a b Hk Hi)|rewrite Hk; exact Hd]. Qed.

Lemma covers_nil : forall D (vs : store), covers D vs -> covers [] vs.
Proof. intros D vs [Hi _]. split; [exact Hi|intros x []]. Qed.

Lemma combine_keys : forall (ps : list str) (vals : list (value fo)), length ps = length vals -> map fst (combine ps vals) = ps.
Proof.
  induction ps as [|p ps IH]; intros [|v vals] Hl; try discriminate; [reflexivity|].
  cbn [combine map fst]. rewrite IH; [reflexivity|]. injection Hl as Hl. exact Hl.
Qed.

Lemma covers_bind : forall D ps vals (vs : store),
  Forall (fun p => ident p = true) ps -> length ps = length vals -> covers D vs -> covers ps (bind_params fo ps vals vs).
Proof.
  intros D ps vals vs Hps Hl [Hi _]. unfold bind_params. split.
  - apply vars_ident_overlay; [|exact Hi]. unfold vars_ident. rewrite Forall_forall. intros [k v] Hin.
    cbn [fst]. rewrite Forall_forall in Hps. apply Hps. exact (in_combine_l _ _ _ _ Hin).
  - intros x Hx. apply in_keys_overlay. left. rewrite (combine_keys ps vals Hl). exact Hx.
Qed.

End Stores.

(* ================================================================== the congruence theorem *)
Section Cong.
Variable fo : FloatOps.
Variable sys : store fo.
Variable inc sup : bool.
Variable EQ : list str -> str -> str -> Prop.
Hypothesis HEQ : forall D e e' f vs v, EQ D e e' -> covers fo D vs -> eval fo sys f vs e v -> eval fo sys f vs e' v.
Variable prog prog2 : program.
Hypothesis Hprog : forall m stmts, lookup m prog = Some stmts -> exists stmts', lookup m prog2 = Some stmts' /\ lrel EQ [] stmts stmts'.

Notation exec := (CoreAll.exec fo sys prog inc sup).
Notation exec_list := (CoreAll.exec_list fo sys prog inc sup).
Notation exec_arms := (CoreAll.exec_arms fo sys prog inc sup).
Notation exec_repeat := (CoreAll.exec_repeat fo sys prog inc sup).
Notation exec_while := (CoreAll.exec_while fo sys prog inc sup).
Notation exec2 := (CoreAll.exec fo sys prog2 inc sup).
Notation exec_list2 := (CoreAll.exec_list fo sys prog2 inc sup).
Notation exec_arms2 := (CoreAll.exec_arms fo sys prog2 inc sup).
Notation exec_repeat2 := (CoreAll.exec_repeat fo sys prog2 inc sup).
Notation exec_while2 := (CoreAll.exec_while fo sys prog2 inc sup).
Notation covers := (covers fo).
Notation rel := (rel EQ). Notation lrel := (lrel EQ). Notation arel := (arel EQ). Notation orel := (orel EQ).
Notation trel := (trel EQ).

(* the facts of Proofs/CoreAllKeys.v used here *)
Lemma exec_kext : forall d pile cf n F f vs s sg F' f' vs' out ev,
  exec d pile cf n F f vs s sg F' f' vs' out ev -> kext vs vs'.
Proof. intros. exact (proj1 (proj2 (proj1 (keys_all fo sys prog inc sup) _ _ _ _ _ _ _ _ _ _ _ _ _ _ H))). Qed.
Lemma list_kext : forall d pile cf n F f vs p sg F' f' vs' out ev,
  exec_list d pile cf n F f vs p sg F' f' vs' out ev -> kext vs vs'.
Proof. intros. exact (proj1 (proj2 (proj1 (proj2 (keys_all fo sys prog inc sup)) _ _ _ _ _ _ _ _ _ _ _ _ _ _ H))). Qed.
Lemma arms_keys : forall d pile cf first n F b vs arms els sg taken vs' out ev,
  exec_arms d pile cf first n F b vs arms els sg taken vs' out ev -> map fst vs' = map fst vs.
Proof. intros. exact (proj2 (proj1 (proj2 (proj2 (keys_all fo sys prog inc sup))) _ _ _ _ _ _ _ _ _ _ _ _ _ _ _ H)). Qed.
Lemma repeat_keys : forall d pile cf n F f c e body k vs sg vs' out ev,
  exec_repeat d pile cf n F f c e body k vs sg vs' out ev -> map fst vs' = map fst vs.
Proof. intros. exact (proj2 (proj1 (proj2 (proj2 (proj2 (keys_all fo sys prog inc sup)))) _ _ _ _ _ _ _ _ _ _ _ _ _ _ _ H)). Qed.
Lemma while_keys : forall d pile cf n F c e body k vs sg vs' out ev,
  exec_while d pile cf n F c e body k vs sg vs' out ev -> map fst vs' = map fst vs.
Proof. intros. exact (proj2 (proj2 (proj2 (proj2 (proj2 (keys_all fo sys prog inc sup)))) _ _ _ _ _ _ _ _ _ _ _ _ _ _ H)). Qed.

(* after a VAR its name is in the store *)
Lemma defs_keys : forall d pile cf n F f vs s sg F' f' vs' out ev,
  exec d pile cf n F f vs s sg F' f' vs' out ev -> incl (defs s) (map fst vs').
Proof.
  intros d pile cf n F f vs s sg F' f' vs' out ev H. destruct s; cbn [defs]; try apply incl_nil_l.
  inversion H; subst. intros z0 [<-|[]]. apply in_keys_set_var. left. reflexivity.
Qed.

Lemma covers_after : forall D d pile cf n F f vs s sg F' f' vs' out ev,
  exec d pile cf n F f vs s sg F' f' vs' out ev -> covers D vs -> vars_ident fo vs' -> covers (defs s ++ D) vs'.
Proof.
  intros D d pile cf n F f vs s sg F' f' vs' out ev H [_ Hd] Hi. split; [exact Hi|].
  intros y Hy. apply in_app_or in Hy. destruct Hy as [Hy|Hy].
  - exact (defs_keys _ _ _ _ _ _ _ _ _ _ _ _ _ _ H y Hy).
  - exact (incl_kext fo D vs vs' Hd (exec_kext _ _ _ _ _ _ _ _ _ _ _ _ _ _ H) y Hy).
Qed.

Definition C_exec d pile cf (n : Z) F f vs s sg F1 f1 vs1 out ev : Prop :=
  forall D s' F' pile', rel D s s' -> covers D vs -> trel F F' -> prel pile pile' ->
  exists F1' ev', exec2 d pile' cf n F' f vs s' sg F1' f1 vs1 out ev' /\ trel F1 F1' /\ evrel ev ev' /\ vars_ident fo vs1.
Definition C_list d pile cf (n : Z) F f vs p sg F1 f1 vs1 out ev : Prop :=
  forall D p' F' pile', lrel D p p' -> covers D vs -> trel F F' -> prel pile pile' ->
  exists F1' ev', exec_list2 d pile' cf n F' f vs p' sg F1' f1 vs1 out ev' /\ trel F1 F1' /\ evrel ev ev' /\ vars_ident fo vs1.
Definition C_arms d pile cf (first : bool) (n : Z) F b vs arms els sg taken vs' out ev : Prop :=
  forall D arms' els' F' pile', arel D arms arms' -> orel D els els' -> covers D vs -> trel F F' -> prel pile pile' ->
  exists ev', exec_arms2 d pile' cf first n F' b vs arms' els' sg taken vs' out ev' /\ evrel ev ev'.
Definition C_repeat d pile cf (n : Z) F f c e body k vs sg vs' out ev : Prop :=
  forall D e' body' F' pile', cident c -> EQ D e e' -> lrel (cadd c D) body body' -> covers D vs -> trel F F' -> prel pile pile' ->
  exists ev', exec_repeat2 d pile' cf n F' f c e' body' k vs sg vs' out ev' /\ evrel ev ev'.
Definition C_while d pile cf (n : Z) F c e body k vs sg vs' out ev : Prop :=
  forall D e' body' F' pile', cident c -> EQ (cadd c D) e e' -> lrel (cadd c D) body body' -> covers D vs -> trel F F' -> prel pile pile' ->
  exists ev', exec_while2 d pile' cf n F' c e' body' k vs sg vs' out ev' /\ evrel ev ev'.

Theorem cong_all :
  (forall d pile cf n F f vs s sg F' f' vs' out ev,
     exec d pile cf n F f vs s sg F' f' vs' out ev -> C_exec d pile cf n F f vs s sg F' f' vs' out ev) /\
  (forall d pile cf n F f vs p sg F' f' vs' out ev,
     exec_list d pile cf n F f vs p sg F' f' vs' out ev -> C_list d pile cf n F f vs p sg F' f' vs' out ev) /\
  (forall d pile cf first n F b vs arms els sg taken vs' out ev,
     exec_arms d pile cf first n F b vs arms els sg taken vs' out ev ->
     C_arms d pile cf first n F b vs arms els sg taken vs' out ev) /\
  (forall d pile cf n F f c e body k vs sg vs' out ev,
     exec_repeat d pile cf n F f c e body k vs sg vs' out ev ->
     C_repeat d pile cf n F f c e body k vs sg vs' out ev) /\
  (forall d pile cf n F c e body k vs sg vs' out ev,
     exec_while d pile cf n F c e body k vs sg vs' out ev ->
     C_while d pile cf n F c e body k vs sg vs' out ev).
Proof.
  apply (CoreAll.exec_all_mind fo sys prog inc sup C_exec C_list C_arms C_repeat C_while);
    unfold C_exec, C_list, C_arms, C_repeat, C_while.
  - (* E_Emit *)
    intros d pile cf n F f vs name text D s' F' pile' HR HC HT HP. inversion HR; subst.
    exists F', []. split; [apply E_Emit|split; [exact HT|split; [apply evrel_nil|exact (proj1 HC)]]].
  - (* E_EmitEval *)
    intros d pile cf n F f vs name e v t He Ht D s' F' pile' HR HC HT HP. inversion HR; subst.
    exists F', []. split; [eapply E_EmitEval; [eapply HEQ; eassumption|exact Ht]|].
    split; [exact HT|split; [apply evrel_nil|exact (proj1 HC)]].
  - (* E_Var *)
    intros d pile cf n F f vs x e v He D s' F' pile' HR HC HT HP. inversion HR; subst.
    exists F', []. split; [eapply E_Var; eapply HEQ; eassumption|].
    split; [exact HT|split; [apply evrel_nil|]]. apply vars_ident_set_var; [assumption|exact (proj1 HC)].
  - (* E_If *)
    intros d pile cf n F f vs arms els sg taken vs' out ev Ha IH D s' F' pile' HR HC HT HP. inversion HR; subst.
    destruct (IH D arms' els' F' pile') as (ev' & X2 & Hev); try assumption.
    exists F', ev'. split; [apply E_If; exact X2|]. split; [exact HT|split; [exact Hev|]].
    exact (vars_ident_keys fo vs vs' (arms_keys _ _ _ _ _ _ _ _ _ _ _ _ _ _ _ Ha) (proj1 HC)).
  - (* E_Repeat *)
    intros d pile cf n F f vs c e body sg vs' out ev Ha IH D s' F' pile' HR HC HT HP. inversion HR; subst.
    destruct (IH D e' b' F' pile') as (ev' & X2 & Hev); try assumption.
    exists F', ev'. split; [apply E_Repeat; exact X2|]. split; [exact HT|split; [exact Hev|]].
    exact (vars_ident_keys fo vs vs' (repeat_keys _ _ _ _ _ _ _ _ _ _ _ _ _ _ _ Ha) (proj1 HC)).
  - (* E_While *)
    intros d pile cf n F f vs c e body sg vs' out ev Ha IH D s' F' pile' HR HC HT HP. inversion HR; subst.
    destruct (IH D e' b' F' pile') as (ev' & X2 & Hev); try assumption.
    exists F', ev'. split; [apply E_While; exact X2|]. split; [exact HT|split; [exact Hev|]].
    exact (vars_ident_keys fo vs vs' (while_keys _ _ _ _ _ _ _ _ _ _ _ _ _ _ Ha) (proj1 HC)).
  - (* E_Break *)
    intros d pile cf n F f vs D s' F' pile' HR HC HT HP. inversion HR; subst.
    exists F', []. split; [apply E_Break|split; [exact HT|split; [apply evrel_nil|exact (proj1 HC)]]].
  - (* E_Continue *)
    intros d pile cf n F f vs D s' F' pile' HR HC HT HP. inversion HR; subst.
    exists F', []. split; [apply E_Continue|split; [exact HT|split; [apply evrel_nil|exact (proj1 HC)]]].
  - (* E_Return *)
    intros d pile cf n F f vs D s' F' pile' HR HC HT HP. inversion HR; subst.
    exists F', []. split; [apply E_Return|split; [exact HT|split; [apply evrel_nil|exact (proj1 HC)]]].
  - (* E_Func *)
    intros d pile cf n F f vs name ps body D s' F' pile' HR HC HT HP. inversion HR; subst.
    exists (set_def name (mkDef ps b' cf n) F'), [].
    split; [apply E_Func|split; [|split; [apply evrel_nil|exact (proj1 HC)]]].
    apply trel_set; [exact HT|]. repeat split; assumption.
  - (* E_Run *)
    intros d pile cf n F f vs name args vals df sg F1 f1 vs1 out ev Hargs Hlk Hlen Hb IH Hsg D s' F' pile' HR HC HT HP.
    inversion HR; subst.
    destruct (trel_lookup EQ F F' name df HT Hlk) as (df2 & Hlk2 & Hp & Hf & Hl & Hps & Hbody).
    destruct (IH (d_params df) (d_body df2) F' (pile' ++ [mkSF cf (run_head name args) n true])) as (F2' & ev' & X2 & _ & Hev & _).
    + exact Hbody.
    + exact (covers_bind fo D (d_params df) vals vs Hps Hlen HC).
    + exact HT.
    + apply prel_push. exact HP.
    + exists F', ev'. split; [|split; [exact HT|split; [exact Hev|apply vars_ident_copy_back; exact (proj1 HC)]]].
      eapply E_Run; [exact Hargs|exact Hlk2|rewrite Hp; exact Hlen| |exact Hsg].
      rewrite Hp, Hf, Hl. exact X2.
  - (* E_Print *)
    intros d pile cf n F f vs text D s' F' pile' HR HC HT HP. inversion HR; subst.
    exists F', [EvPrint text n cf]. split; [apply E_Print|split; [exact HT|split; [|exact (proj1 HC)]]].
    constructor; [constructor|constructor].
  - (* E_PrintEval *)
    intros d pile cf n F f vs e v t He Ht D s' F' pile' HR HC HT HP. inversion HR; subst.
    exists F', [EvPrint t n cf]. split; [eapply E_PrintEval; [eapply HEQ; eassumption|exact Ht]|].
    split; [exact HT|split; [|exact (proj1 HC)]]. constructor; [constructor|constructor].
  - (* E_Rem *)
    intros d pile cf n F f vs text D s' F' pile' HR HC HT HP. inversion HR; subst.
    exists F', []. split; [apply E_Rem|split; [exact HT|split; [apply evrel_nil|exact (proj1 HC)]]].
  - (* E_Unknown *)
    intros d pile cf n F f vs w args D s' F' pile' HR HC HT HP. inversion HR; subst.
    exists F'. eexists. split; [apply E_Unknown|split; [exact HT|split; [|exact (proj1 HC)]]].
    destruct sup; [constructor|]. constructor; [constructor; exact HP|constructor].
  - (* E_Start *)
    intros d pile cf n F f vs k name stmts sg F1 f1 vs1 out ev Hlk Hnot Hb IH D s' F' pile' HR HC HT HP.
    inversion HR; subst.
    destruct (Hprog name stmts Hlk) as (stmts' & Hlk' & Hrel).
    destruct (IH [] stmts' F' (pile' ++ [mkSF cf (start_head k name) n true])) as (F2' & ev' & X2 & HT' & Hev & Hi1).
    + exact Hrel.
    + exact (covers_nil fo D vs HC).
    + exact HT.
    + apply prel_push. exact HP.
    + exists (match k with KCode => F' | _ => overlay_defs F2' F' end), (ev' ++ stray sg).
      split; [|split; [|split]].
      * eapply E_Start; [exact Hlk'| |exact X2].
        unfold live_files. rewrite (prel_files pile pile' HP). exact Hnot.
      * destruct k; [apply trel_overlay; assumption|exact HT|apply trel_overlay; assumption].
      * apply evrel_app; [exact Hev|apply evrel_refl_stray].
      * destruct k; [apply vars_ident_overlay; [exact Hi1|exact (proj1 HC)]
                    |apply vars_ident_copy_back; exact (proj1 HC)
                    |apply vars_ident_overlay; [exact Hi1|exact (proj1 HC)]].
  - (* L_Nil *)
    intros d pile cf n F f vs D p' F' pile' HR HC HT HP. inversion HR; subst.
    exists F', []. split; [apply L_Nil|split; [exact HT|split; [apply evrel_nil|exact (proj1 HC)]]].
  - (* L_Cons *)
    intros d pile cf n F f vs s r F1 f1 vs1 o1 e1 sg F2 f2 vs2 o2 e2 X1 IH1 X2 IH2 D p' F' pile' HR HC HT HP.
    inversion HR as [|? ? s' ? r' Hs Hr]; subst.
    destruct (IH1 D s' F' pile' Hs HC HT HP) as (Fa & eva & Ha & HTa & Heva & Hia).
    destruct (IH2 (defs s ++ D) r' Fa pile' Hr (covers_after D _ _ _ _ _ _ _ _ _ _ _ _ _ _ X1 HC Hia) HTa HP)
      as (Fb & evb & Hb & HTb & Hevb & Hib).
    exists Fb, (eva ++ evb). split; [|split; [exact HTb|split; [apply evrel_app; assumption|exact Hib]]].
    eapply L_Cons; [exact Ha|]. rewrite (proj1 (rel_sizes EQ) D s s' Hs). exact Hb.
  - (* L_Stop *)
    intros d pile cf n F f vs s r sg F1 f1 vs1 o1 e1 X1 IH1 Hne D p' F' pile' HR HC HT HP.
    inversion HR as [|? ? s' ? r' Hs Hr]; subst.
    destruct (IH1 D s' F' pile' Hs HC HT HP) as (Fa & eva & Ha & HTa & Heva & Hia).
    exists Fa, eva. split; [apply L_Stop; assumption|split; [exact HTa|split; assumption]].
  - (* A_Take *)
    intros d pile cf first n F b vs c body rest els v sg F1 f1 vs1 out ev Hc Ht Hb IH Hrest D arms' els' F' pile' HA HO HC HT HP.
    inversion HA as [|? ? c' ? b' ? r' Hcc Hbb Hrr]; subst.
    destruct (IH D b' F' (pile' ++ [mkSF cf (if_head first c') n false])) as (F2' & ev' & X2 & _ & Hev & _).
    + exact Hbb.
    + exact HC.
    + exact HT.
    + apply prel_push. exact HP.
    + exists ev'. split; [|exact Hev].
      eapply A_Take; [eapply HEQ; eassumption|exact Ht|exact X2|].
      intro Hn.
      apply (arel_conds EQ (fun c0 => exists v', eval fo sys (Some true) (copy_back fo vs vs1) c0 v')
               (fun c0 => exists v', eval fo sys (Some true) (copy_back fo vs vs1) c0 v') D rest r' Hrr); [|exact (Hrest Hn)].
      intros c0 c0' Hc0 (v' & Hv'). exists v'. eapply HEQ; [exact Hc0| |exact Hv'].
      apply covers_copy_back; [exact HC|]. exact (list_kext _ _ _ _ _ _ _ _ _ _ _ _ _ _ Hb).
  - (* A_Skip *)
    intros d pile cf first n F b vs c body rest els v sg taken vs' out ev Hc Ht Hr IH D arms' els' F' pile' HA HO HC HT HP.
    inversion HA as [|? ? c' ? b' ? r' Hcc Hbb Hrr]; subst.
    destruct (IH D r' els' F' pile' Hrr HO HC HT HP) as (ev' & X2 & Hev).
    exists ev'. split; [|exact Hev].
    eapply A_Skip; [eapply HEQ; eassumption|exact Ht|].
    rewrite (proj1 (proj2 (rel_sizes EQ)) D body b' Hbb). exact X2.
  - (* A_Else *)
    intros d pile cf first n F b vs body sg F1 f1 vs1 out ev Hb IH D arms' els' F' pile' HA HO HC HT HP.
    inversion HA; subst. inversion HO as [|? ? b' Hbb]; subst.
    destruct (IH D b' F' (pile' ++ [mkSF cf kw_ELSE n false])) as (F2' & ev' & X2 & _ & Hev & _).
    + exact Hbb.
    + exact HC.
    + exact HT.
    + apply prel_push. exact HP.
    + exists ev'. split; [eapply A_Else; exact X2|exact Hev].
  - (* A_None *)
    intros d pile cf first n F b vs D arms' els' F' pile' HA HO HC HT HP.
    inversion HA; subst. inversion HO; subst. exists []. split; [apply A_None|apply evrel_nil].
  - (* R_Done *)
    intros d pile cf n F f c e body k vs v m He Hm Hr Hk D e' body' F' pile' Hci He' Hb' HC HT HP.
    exists []. split; [eapply R_Done; [eapply HEQ; eassumption|exact Hm|exact Hr|exact Hk]|apply evrel_nil].
  - (* R_Iter *)
    intros d pile cf n F f c e body k vs v m sg F1 f1 vs1 o1 e1 sg' vs' o2 e2 He Hm Hr Hk Hb IHb Hgo Hrest IHr
           D e' body' F' pile' Hci He' Hb' HC HT HP.
    destruct (IHb (cadd c D) body' F' (pile' ++ [mkSF cf (repeat_head c e') n false])) as (F2' & eva & Ha & _ & Heva & _).
    + exact Hb'.
    + apply covers_counter; assumption.
    + exact HT.
    + apply prel_push. exact HP.
    + destruct (IHr D e' body' F' pile' Hci He' Hb') as (evb & Hbb & Hevb); [|exact HT|exact HP|].
      * apply covers_copy_back; [exact HC|].
        exact (kext_trans _ _ _ _ (kext_with_counter fo c k vs) (list_kext _ _ _ _ _ _ _ _ _ _ _ _ _ _ Hb)).
      * exists (eva ++ evb). split; [|apply evrel_app; assumption].
        eapply R_Iter; [eapply HEQ; eassumption|exact Hm|exact Hr|exact Hk|exact Ha|exact Hgo|exact Hbb].
  - (* R_Stop *)
    intros d pile cf n F f c e body k vs v m sg F1 f1 vs1 o1 e1 He Hm Hr Hk Hb IHb Hst
           D e' body' F' pile' Hci He' Hb' HC HT HP.
    destruct (IHb (cadd c D) body' F' (pile' ++ [mkSF cf (repeat_head c e') n false])) as (F2' & eva & Ha & _ & Heva & _).
    + exact Hb'.
    + apply covers_counter; assumption.
    + exact HT.
    + apply prel_push. exact HP.
    + exists eva. split; [|exact Heva].
      eapply R_Stop; [eapply HEQ; eassumption|exact Hm|exact Hr|exact Hk|exact Ha|exact Hst].
  - (* W_Done *)
    intros d pile cf n F c e body k vs v Hk He Ht D e' body' F' pile' Hci He' Hb' HC HT HP.
    exists []. split; [|apply evrel_nil].
    eapply W_Done; [exact Hk| |exact Ht]. eapply HEQ; [exact He'| |exact He]. apply covers_counter; assumption.
  - (* W_Iter *)
    intros d pile cf n F c e body k vs v sg F1 f1 vs1 o1 e1 sg' vs' o2 e2 Hk He Ht Hb IHb Hgo Hrest IHw
           D e' body' F' pile' Hci He' Hb' HC HT HP.
    destruct (IHb (cadd c D) body' F' (pile' ++ [mkSF cf (while_head c e') n false])) as (F2' & eva & Ha & _ & Heva & _).
    + exact Hb'.
    + apply covers_counter; assumption.
    + exact HT.
    + apply prel_push. exact HP.
    + destruct (IHw D e' body' F' pile' Hci He' Hb') as (evb & Hbb & Hevb); [|exact HT|exact HP|].
      * apply covers_copy_back; [exact HC|].
        exact (kext_trans _ _ _ _ (kext_with_counter fo c k vs) (list_kext _ _ _ _ _ _ _ _ _ _ _ _ _ _ Hb)).
      * exists (eva ++ evb). split; [|apply evrel_app; assumption].
        eapply W_Iter; [exact Hk| |exact Ht|exact Ha|exact Hgo|exact Hbb].
        eapply HEQ; [exact He'| |exact He]. apply covers_counter; assumption.
  - (* W_Stop *)
    intros d pile cf n F c e body k vs v sg F1 f1 vs1 o1 e1 Hk He Ht Hb IHb Hst
           D e' body' F' pile' Hci He' Hb' HC HT HP.
    destruct (IHb (cadd c D) body' F' (pile' ++ [mkSF cf (while_head c e') n false])) as (F2' & eva & Ha & _ & Heva & _).
    + exact Hb'.
    + apply covers_counter; assumption.
    + exact HT.
    + apply prel_push. exact HP.
    + exists eva. split; [|exact Heva].
      eapply W_Stop; [exact Hk| |exact Ht|exact Ha|exact Hst].
      eapply HEQ; [exact He'| |exact He]. apply covers_counter; assumption.
Qed.

Theorem cong_list : forall d pile cf n F f vs p sg F1 f1 vs1 out ev D p' F' pile',
  exec_list d pile cf n F f vs p sg F1 f1 vs1 out ev ->
  lrel D p p' -> covers D vs -> trel F F' -> prel pile pile' ->
  exists F1' ev', exec_list2 d pile' cf n F' f vs p' sg F1' f1 vs1 out ev' /\ trel F1 F1' /\ evrel ev ev'.
Proof.
  intros d pile cf n F f vs p sg F1 f1 vs1 out ev D p' F' pile' H HR HC HT HP.
  destruct (proj1 (proj2 cong_all) _ _ _ _ _ _ _ _ _ _ _ _ _ _ H D p' F' pile' HR HC HT HP) as (F1' & ev' & H2 & HT' & Hev & _).
  exists F1', ev'. split; [exact H2|split; assumption].
Qed.

End Cong.

(* ================================================================== whole programs *)
Section Programs.
Variable fo : FloatOps.
Variable EQ : list str -> str -> str -> Prop.
(* the two texts evaluate alike wherever D is defined and the names are identifiers *)
Definition eq_sound : Prop :=
  forall D e e' f vs v, EQ D e e' -> covers fo D vs ->
    (eval fo (initial_sys fo) f vs e v <-> eval fo (initial_sys fo) f vs e' v).

Theorem cong_uruns_one : forall inc sup prog prog' entry d sg F f vs out ev,
  (forall D e e' f vs v, EQ D e e' -> covers fo D vs -> eval fo (initial_sys fo) f vs e v -> eval fo (initial_sys fo) f vs e' v) ->
  (forall m stmts, lookup m prog = Some stmts -> exists stmts', lookup m prog' = Some stmts' /\ lrel EQ [] stmts stmts') ->
  uruns fo prog inc sup entry d sg F f vs out ev ->
  exists F' ev', uruns fo prog' inc sup entry d sg F' f vs out ev' /\ trel EQ F F' /\ evrel ev ev'.
Proof.
  intros inc sup prog prog' entry d sg F f vs out ev HEQ Hp (stmts & ev0 & Hlk & Hrun & ->).
  destruct (Hp entry stmts Hlk) as (stmts' & Hlk' & Hrel).
  destruct (cong_list fo (initial_sys fo) inc sup EQ HEQ prog prog' Hp d [] entry 1%Z [] None [] stmts sg F f vs out ev0
              [] stmts' [] [] Hrun Hrel) as (F' & ev' & H2 & HT & Hev).
  - split; [constructor|intros x []].
  - constructor.
  - constructor.
  - exists F', (ev' ++ stray sg). split; [|split; [exact HT|apply evrel_app; [exact Hev|apply evrel_refl_stray]]].
    exists stmts', ev'. split; [exact Hlk'|split; [exact H2|reflexivity]].
Qed.

(* THE PROGRAM-LEVEL THEOREM: related programs have the same derivations: same depth, signal,
   flag, variables, OUTPUT LINES; tables related; events up to the texts of header frames *)
Theorem cong_uruns : forall inc sup prog prog' entry d sg f vs out,
  eq_sound -> progrel EQ prog prog' ->
  ((exists F ev, uruns fo prog inc sup entry d sg F f vs out ev) <->
   (exists F' ev', uruns fo prog' inc sup entry d sg F' f vs out ev')).
Proof.
  intros inc sup prog prog' entry d sg f vs out Hs Hp. split.
  - intros (F & ev & H).
    destruct (cong_uruns_one inc sup prog prog' entry d sg F f vs out ev) as (F' & ev' & H2 & _); [|exact (proj1 Hp)|exact H|].
    + intros D e e' f0 vs0 v He Hc. apply (Hs D e e' f0 vs0 v He Hc).
    + exists F', ev'. exact H2.
  - intros (F' & ev' & H). pose proof (progrel_sym EQ prog prog' Hp) as Hp'.
    assert (HEQ' : forall D e e' f0 vs0 v, flipEQ EQ D e e' -> covers fo D vs0 ->
                   eval fo (initial_sys fo) f0 vs0 e v -> eval fo (initial_sys fo) f0 vs0 e' v).
    { intros D e e' f0 vs0 v He Hc. apply (Hs D e' e f0 vs0 v He Hc). }
    (* the one-directional theorem at the flipped relation *)
    destruct H as (stmts' & ev0 & Hlk & Hrun & ->).
    destruct (proj1 Hp' entry stmts' Hlk) as (stmts & Hlk2 & Hrel).
    destruct (cong_list fo (initial_sys fo) inc sup (flipEQ EQ) HEQ' prog' prog (proj1 Hp') d [] entry 1%Z [] None [] stmts' sg F' f vs out ev0
                [] stmts [] [] Hrun Hrel) as (F & ev & H2 & _ & _).
    + split; [constructor|intros x []].
    + constructor.
    + constructor.
    + exists F, (ev ++ stray sg). exists stmts, ev. split; [exact Hlk2|split; [exact H2|reflexivity]].
Qed.

End Programs.

(* ================================================================== the instance: layouts *)
Section Layout.
Variable fo : FloatOps.

(* the static part of [expr_ok]: the variables are well spelled and among D *)
Fixpoint sexpr_ok (D : list str) (e : expr) : Prop :=
  match e with
  | ELit t => is_lit t = true /\ tok_ok fo [] t
  | EVar x => name_start x = true /\ kw_free x = true /\ ident x = true /\ bool_safe x = true /\ In x D
  | EBin oc sym a b => In (oc, sym) op_table /\ sexpr_ok D a /\ sexpr_ok D b
  | EParen e | ENot e => sexpr_ok D e
  end.

(* two texts of ONE abstract expression *)
Definition lay_eq (D : list str) (t t' : str) : Prop :=
  exists lay lay' e, t = print lay e /\ t' = print lay' e /\ layout_ok lay /\ layout_ok lay' /\
                     depth e <= 100 /\ sexpr_ok D e.

Lemma sexpr_ok_expr_ok : forall D vars e,
  (forall x, In x D -> lookup x vars <> None) -> sexpr_ok D e -> expr_ok fo vars e.
Proof.
  intros D vars e HD. induction e as [t|x|oc sym a IHa b IHb|e IH|e IH]; cbn [sexpr_ok expr_ok].
  - intros [Hl Ht]. split; [exact Hl|]. destruct t; try discriminate Hl; exact Ht.
  - intros (H1 & H2 & H3 & H4 & H5). split; [|split; assumption]. cbn [tok_ok]. repeat split; try assumption.
    exact (HD x H5).
  - intros (H1 & H2 & H3). split; [exact H1|split; [exact (IHa H2)|exact (IHb H3)]].
  - exact IH.
  - exact IH.
Qed.

Lemma lay_eq_sound : eq_sound fo lay_eq.
Proof.
  intros D t t' f vs v (lay & lay' & e & -> & -> & Hl & Hl' & Hd & Hok) [Hi Hc].
  apply eval_printed_layout; try assumption.
  - apply visible_ident; [apply initial_sys_ident|exact Hi].
  - apply (sexpr_ok_expr_ok D); [|exact Hok]. intros x Hx. apply visible_defined. exact (Hc x Hx).
Qed.

(* PROGRAMS THAT DIFFER ONLY IN THE LAYOUT OF THEIR EXPRESSIONS HAVE THE SAME DERIVATIONS *)
Theorem layout_independent_programs : forall inc sup prog prog' entry d sg f vs out,
  progrel lay_eq prog prog' ->
  ((exists F ev, uruns fo prog inc sup entry d sg F f vs out ev) <->
   (exists F' ev', uruns fo prog' inc sup entry d sg F' f vs out ev')).
Proof. intros. apply (cong_uruns fo lay_eq); [exact lay_eq_sound|assumption]. Qed.

(* with the tables and the events *)
Theorem layout_independent_programs_events : forall inc sup prog prog' entry d sg F f vs out ev,
  progrel lay_eq prog prog' ->
  uruns fo prog inc sup entry d sg F f vs out ev ->
  exists F' ev', uruns fo prog' inc sup entry d sg F' f vs out ev' /\ trel lay_eq F F' /\ evrel ev ev' /\
                 prints_of ev = prints_of ev' /\ map shape ev = map shape ev'.
Proof.
  intros inc sup prog prog' entry d sg F f vs out ev Hp H.
  destruct (cong_uruns_one fo lay_eq inc sup prog prog' entry d sg F f vs out ev) as (F' & ev' & H2 & HT & Hev);
    [|exact (proj1 Hp)|exact H|].
  - intros D e e' f0 vs0 v He Hc. apply (lay_eq_sound D e e' f0 vs0 v He Hc).
  - exists F', ev'. split; [exact H2|split; [exact HT|split; [exact Hev|split; [apply evrel_prints|apply evrel_shapes]; exact Hev]]].
Qed.

End Layout.
