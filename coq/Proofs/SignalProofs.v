(* C06 / C07 at any depth: soundness of the signal paths of Spec/SignalPath.v for the
   depth-indexed interpreter, and the generic lemmas they rest on. *)
From Coq Require Import NArith ZArith List Bool Lia.
From DS Require Import Base PyStr Values Expr TabParse Tables Constants Interp.
From DS Require Import ScopeProofs LimitProofs ChainProofs LoopUnroll LoopBlock UnknownWarn PipelineProofs.
From DS Require Import RunProofs FuncProofs PasteTop SignalPath.
Import ListNotations.

Arguments IOk {A}. Arguments IErr {A}. Arguments ICrash {A}. Arguments IUnmod {A}.
Arguments s_g {fo}. Arguments s_env {fo}. Arguments s_line2 {fo}. Arguments mkSt {fo}.

(* ------------------------------------------------------------------ the control words in the palette *)
Lemma palette_ctl_classes :
  forallb (fun sg => forallb (fun k => signal_class_okb k sg && str_eqb (upper k) k && negb (ChainProofs.starts_dollar k))
                             (ctl_names sg))
          [SNormal; SBreak; SContinue; SReturn] = true.
Proof. vm_compute. reflexivity. Qed.

Lemma ctl_name_ok : forall sg k, In k (ctl_names sg) ->
  signal_class_okb k sg = true /\ upper k = k /\ ChainProofs.starts_dollar k = false.
Proof.
  intros sg k Hin. pose proof palette_ctl_classes as H. rewrite forallb_forall in H.
  assert (Hsg : In sg [SNormal; SBreak; SContinue; SReturn]) by (destruct sg; cbn; auto).
  specialize (H sg Hsg). rewrite forallb_forall in H. specialize (H k Hin).
  apply andb_true_iff in H. destruct H as [H H3]. apply andb_true_iff in H. destruct H as [H1 H2].
  split; [exact H1|]. split; [apply PipelineProofs.str_eqb_eq; exact H2|apply negb_true_iff; exact H3].
Qed.

Lemma ctl_word_not_normal : forall cmd, ~ ctl_word SNormal cmd.
Proof. intros cmd [H _]. exact H. Qed.

Section Generic.
Variable fo : FloatOps.
Variable child : runner fo.
Variable cx : ctx.
Notation st := (st fo).

(* ------------------------------------------------------------------ the accumulator is a prefix *)
Definition shift (acc : list oline) (x : st * ires cret) : st * ires cret :=
  match x with
  | (s', IOk cr) => (s', IOk (mkCret (acc ++ cr_data cr) (cr_sig cr)))
  | _ => x
  end.

Lemma shift_nil : forall x, shift [] x = x.
Proof. intros [s' [[d sg]| | |]]; reflexivity. Qed.

Lemma shift_shift : forall a b x, shift a (shift b x) = shift (a ++ b) x.
Proof. intros a b [s' [[d sg]| | |]]; cbn; try reflexivity. rewrite app_assoc. reflexivity. Qed.

Lemma exec_cmds_acc : forall cmds acc s,
  exec_cmds fo child cx cmds acc s = shift acc (exec_cmds fo child cx cmds [] s).
Proof.
  induction cmds as [|[c n|b] rest IH]; intros acc s.
  - cbn. rewrite app_nil_r. reflexivity.
  - cbn [exec_cmds]. destruct (is_blank c); [apply IH|].
    unfold bindM at 1 3. unfold set_line2. unfold bindM.
    destruct (exec_line _ _ _ _ _ _ _) as [s1 [cr|e t|k|]]; try reflexivity.
    cbn [app].
    destruct (cr_sig cr) eqn:Es; try (unfold ret; cbn [shift cr_data cr_sig]; reflexivity).
    rewrite (IH (acc ++ cr_data cr)), (IH (cr_data cr)), shift_shift. reflexivity.
  - cbn [exec_cmds]. apply IH.
Qed.

Lemma exec_cmds_acc_ok : forall cmds acc s s' out sg,
  exec_cmds fo child cx cmds [] s = (s', IOk (mkCret out sg)) ->
  exec_cmds fo child cx cmds acc s = (s', IOk (mkCret (acc ++ out) sg)).
Proof. intros cmds acc s s' out sg H. rewrite exec_cmds_acc, H. reflexivity. Qed.

(* ------------------------------------------------------------------ a control line *)
Lemma exec_line_signal : forall sg c cmd n s,
  split_ws1 c = [cmd] -> ctl_word sg cmd ->
  exec_line fo child cx c n None s = (mkSt (s_g s) (s_env s) (Some (c, n)), IOk (mkCret [] sg)).
Proof.
  intros sg c cmd n s Hs (Hin & Hd).
  destruct (ctl_name_ok sg (upper cmd) Hin) as (Hok & Hup & Hnd).
  destruct (find_signal cmd (upper cmd) sg Hok Hup Hnd eq_refl Hd) as (cname & sc & Hf & Hc).
  unfold exec_line. rewrite Hs, Hf.
  assert (Hst : is_start_class (Simple sc) = false).
  { destruct Hc as (Hk & _). cbn [is_start_class]. destruct (s_run sc); try reflexivity; discriminate. }
  rewrite Hst. cbn [andb].
  apply signal_line_compile; [exact Hc|].
  apply starts_dollar_no_dollar. exact Hnd.
Qed.

(* ------------------------------------------------------------------ block_stops_at_signal
   Stack.run returns at the first command whose result carries a signal: the output produced so
   far is kept, in order, and the commands after it ([tail]) are never executed *)
Theorem block_stops_at_signal : forall pre c n tail acc s s1 o1 s2 cr,
  exec_cmds fo child cx pre [] s = (s1, IOk (mkCret o1 SNormal)) ->
  is_blank c = false ->
  exec_line fo child cx c n (block_after tail) (clear_line2 fo s1) = (s2, IOk cr) ->
  cr_sig cr <> SNormal ->
  exec_cmds fo child cx (pre ++ Ln c n :: tail) acc s =
  (s2, IOk (mkCret (acc ++ o1 ++ cr_data cr) (cr_sig cr))).
Proof.
  intros pre c n tail acc s s1 o1 s2 cr Hpre Hb Hline Hsig.
  rewrite exec_cmds_app, (exec_cmds_acc_ok pre acc s s1 o1 SNormal Hpre).
  cbn [continue_with cr_sig cr_data].
  cbn [exec_cmds]. rewrite Hb. unfold bindM at 1. unfold set_line2 at 1.
  fold (clear_line2 fo s1). unfold bindM at 1. unfold block_after in Hline. rewrite Hline.
  rewrite <- app_assoc.
  destruct (cr_sig cr); [contradiction| | |]; reflexivity.
Qed.

(* ... and when it fails instead, the failure is the result *)
Lemma block_fails_at : forall pre c n tail acc s s1 o1 s2 e t,
  exec_cmds fo child cx pre [] s = (s1, IOk (mkCret o1 SNormal)) ->
  is_blank c = false ->
  exec_line fo child cx c n (block_after tail) (clear_line2 fo s1) = (s2, IErr e t) ->
  exec_cmds fo child cx (pre ++ Ln c n :: tail) acc s = (s2, IErr e t).
Proof.
  intros pre c n tail acc s s1 o1 s2 e t Hpre Hb Hline.
  rewrite exec_cmds_app, (exec_cmds_acc_ok pre acc s s1 o1 SNormal Hpre).
  cbn [continue_with cr_sig cr_data].
  cbn [exec_cmds]. rewrite Hb. unfold bindM at 1. unfold set_line2 at 1.
  fold (clear_line2 fo s1). unfold bindM at 1. unfold block_after in Hline. rewrite Hline.
  reflexivity.
Qed.

(* rule (1) *)
Lemma ctl_line_raises : forall sg pre c cmd n post acc s s1 o1,
  exec_cmds fo child cx pre [] s = (s1, IOk (mkCret o1 SNormal)) ->
  split_ws1 c = [cmd] -> ctl_word sg cmd -> block_after post = None ->
  exec_cmds fo child cx (pre ++ Ln c n :: post) acc s =
  (mkSt (s_g s1) (s_env s1) (Some (c, n)), IOk (mkCret (acc ++ o1) sg)).
Proof.
  intros sg pre c cmd n post acc s s1 o1 Hpre Hs Hw Hp.
  assert (Hb : is_blank c = false) by (apply is_blank_split; rewrite Hs; discriminate).
  assert (Hn : sg <> SNormal) by (intros ->; exact (ctl_word_not_normal cmd Hw)).
  pose proof (block_stops_at_signal pre c n post acc s s1 o1
                (mkSt (s_g (clear_line2 fo s1)) (s_env (clear_line2 fo s1)) (Some (c, n)))
                (mkCret [] sg) Hpre Hb) as H.
  rewrite Hp in H. specialize (H (exec_line_signal sg c cmd n (clear_line2 fo s1) Hs Hw) Hn).
  cbn [cr_data cr_sig] in H. rewrite app_nil_r in H. exact H.
Qed.

(* ------------------------------------------------------------------ a segment, then a list that starts with a line *)
Lemma after_normal_segment : forall pre rest acc s s1 o1,
  exec_cmds fo child cx pre [] s = (s1, IOk (mkCret o1 SNormal)) ->
  no_lead_blk rest ->
  exec_cmds fo child cx (pre ++ rest) acc s = exec_cmds fo child cx rest (acc ++ o1) s1.
Proof.
  intros pre rest acc s s1 o1 Hpre Hr.
  rewrite (exec_cmds_app_gen fo child cx pre rest acc s Hr), (exec_cmds_acc_ok pre acc s s1 o1 SNormal Hpre).
  reflexivity.
Qed.

End Generic.

(* ------------------------------------------------------------------ a child stack run by the interpreter *)
Section Depth.
Variable fo : FloatOps.
Notation st := (st fo).

Lemma counter_env_ok : forall var_name count ce, counter_ok var_name ->
  bind_counter fo var_name count ce = Ok (counter_env fo var_name count ce).
Proof.
  intros [v|] count ce H; [|reflexivity]. cbn in H. unfold bind_counter. rewrite H. reflexivity.
Qed.

(* the block of a line is run by [run d]: what the child stack does is what exec_cmds does there *)
Lemma run_child_with_enter : forall d cx cur code file setup pre s cenv1 sB cr,
  stack_full cx = false ->
  setup (entry_env fo s) = Ok cenv1 -> pre cenv1 = Ok true ->
  exec_cmds fo (child_of fo d) (child_ctx fo cx cur s file) code [] (enter fo s cenv1) = (sB, IOk cr) ->
  run_child_with fo (run fo d) cx cur code file false setup pre s = (leave fo s sB, IOk (Some cr)).
Proof.
  intros d cx cur code file setup pre s cenv1 sB cr Hfull Hsetup Hpre Hbody.
  unfold run_child_with. unfold stack_full in Hfull. rewrite Hfull.
  unfold entry_env in Hsetup. rewrite Hsetup, Hpre.
  rewrite run_child_of. unfold run_with.
  unfold child_ctx, enter in Hbody. rewrite Hbody. reflexivity.
Qed.

Lemma run_child_enter : forall d cx cur code file setup s cenv1 sB cr,
  stack_full cx = false ->
  setup (entry_env fo s) = Ok cenv1 ->
  exec_cmds fo (child_of fo d) (child_ctx fo cx cur s file) code [] (enter fo s cenv1) = (sB, IOk cr) ->
  run_child fo (run fo d) cx cur code file false setup s = (leave fo s sB, IOk cr).
Proof.
  intros d cx cur code file setup s cenv1 sB cr Hfull Hsetup Hbody.
  unfold run_child, bindM.
  rewrite (run_child_with_enter d cx cur code file setup (fun _ => Ok true) s cenv1 sB cr Hfull Hsetup eq_refl Hbody).
  reflexivity.
Qed.

(* ... and when the child stack fails, the line fails with the same error *)
Lemma run_child_enter_err : forall d cx cur code file setup s cenv1 sB e t,
  stack_full cx = false ->
  setup (entry_env fo s) = Ok cenv1 ->
  exec_cmds fo (child_of fo d) (child_ctx fo cx cur s file) code [] (enter fo s cenv1) = (sB, IErr e t) ->
  run_child fo (run fo d) cx cur code file false setup s = (mkSt (s_g sB) (s_env s) (s_line2 s), IErr e t).
Proof.
  intros d cx cur code file setup s cenv1 sB e t Hfull Hsetup Hbody.
  unfold run_child, bindM, run_child_with. unfold stack_full in Hfull. rewrite Hfull.
  unfold entry_env in Hsetup. rewrite Hsetup.
  rewrite run_child_of. unfold run_with.
  unfold child_ctx, enter in Hbody. rewrite Hbody. reflexivity.
Qed.

End Depth.

(* ------------------------------------------------------------------ loops: the first iteration that stops / fails *)
Section Loops.
Variable fo : FloatOps.
Variable child : runner fo.
Variable cx : ctx.
Notation st := (st fo).

Lemma outputs_ext : forall (f g : nat -> cret) m,
  (forall k, (k < m)%nat -> f k = g k) -> outputs f m = outputs g m.
Proof.
  intros f g m. induction m as [|m IH]; intros H; [reflexivity|].
  rewrite !outputs_S, IH by (intros k Hk; apply H; lia). rewrite (H m) by lia. reflexivity.
Qed.

(* patching an execution with its last iteration *)
Definition patch_sts (sts : nat -> st) (j : nat) (sJ : st) : nat -> st :=
  fun k => if (k <=? j)%nat then sts k else sJ.
Definition patch_crs (crs : nat -> cret) (j : nat) (crJ : cret) : nat -> cret :=
  fun k => if (k <? j)%nat then crs k else crJ.

Lemma patch_sts_le : forall sts j sJ k, (k <= j)%nat -> patch_sts sts j sJ k = sts k.
Proof. intros sts j sJ k H. unfold patch_sts. apply Nat.leb_le in H. rewrite H. reflexivity. Qed.
Lemma patch_sts_S : forall sts j sJ, patch_sts sts j sJ (S j) = sJ.
Proof.
  intros sts j sJ. unfold patch_sts. destruct (S j <=? j)%nat eqn:E; [apply Nat.leb_le in E; lia|reflexivity].
Qed.
Lemma patch_crs_lt : forall crs j crJ k, (k < j)%nat -> patch_crs crs j crJ k = crs k.
Proof. intros crs j crJ k H. unfold patch_crs. apply Nat.ltb_lt in H. rewrite H. reflexivity. Qed.
Lemma patch_crs_j : forall crs j crJ, patch_crs crs j crJ j = crJ.
Proof. intros crs j crJ. unfold patch_crs. rewrite Nat.ltb_irrefl. reflexivity. Qed.

Lemma outputs_patch : forall crs j crJ, outputs (patch_crs crs j crJ) (S j) = outputs crs j ++ cr_data crJ.
Proof.
  intros crs j crJ. rewrite outputs_S, patch_crs_j.
  rewrite (outputs_ext (patch_crs crs j crJ) crs j) by (intros k Hk; apply patch_crs_lt; exact Hk).
  reflexivity.
Qed.

Section Repeat.
Variable cur : preline.
Variables (var_name : option str) (argument : str) (code : list item) (m j : nat).
Variables (sts : nat -> st) (crs : nat -> cret).
Hypothesis Hcount : forall k, (k <= j)%nat ->
  tokenize_count fo cx cur argument (sts k) = (sts k, IOk (Z.of_nat m)).
Hypothesis Hjm : (j < m)%nat.
Hypothesis Hrun : forall k, (k < j)%nat ->
  run_child fo child cx cur code (c_file cx) false (bind_counter fo var_name (Z.of_nat k)) (sts k)
  = (sts (S k), IOk (crs k)).
Hypothesis Hsig : forall k, (k < j)%nat -> cr_sig (crs k) = SNormal \/ cr_sig (crs k) = SContinue.

(* iteration j is the first that ends in BREAK or RETURN.  (As LoopUnroll.repeat_stops_at_lemma, but
   the count expression is only evaluated in the states that are reached: sts 0 .. sts j.) *)
Lemma repeat_loop_stops_at : forall sJ crJ,
  run_child fo child cx cur code (c_file cx) false (bind_counter fo var_name (Z.of_nat j)) (sts j)
  = (sJ, IOk crJ) ->
  (cr_sig crJ = SBreak \/ cr_sig crJ = SReturn) ->
  forall extra acc,
  repeat_loop fo child cx cur (loop_fuel + extra) var_name argument code 0 acc (sts 0%nat) =
  (sJ, IOk (mkCret (cr_data acc ++ outputs crs j ++ cr_data crJ)
                   (match cr_sig crJ with SReturn => SReturn | _ => SNormal end))).
Proof.
  intros sJ crJ HrunJ Hstop extra acc.
  set (sts' := patch_sts sts j sJ). set (crs' := patch_crs crs j crJ).
  assert (Hrun' : forall k, (k <= j)%nat ->
    run_child fo child cx cur code (c_file cx) false (bind_counter fo var_name (Z.of_nat k)) (sts' k)
    = (sts' (S k), IOk (crs' k))).
  { intros k Hk. unfold sts', crs'. destruct (Nat.eq_dec k j) as [->|Hne].
    - rewrite patch_sts_le, patch_sts_S, patch_crs_j by lia. exact HrunJ.
    - rewrite !patch_sts_le, patch_crs_lt by lia. apply Hrun. lia. }
  assert (Hsig' : forall k, (k < j)%nat -> cr_sig (crs' k) = SNormal \/ cr_sig (crs' k) = SContinue).
  { intros k Hk. unfold crs'. rewrite patch_crs_lt by exact Hk. apply Hsig. exact Hk. }
  assert (Hstop' : cr_sig (crs' j) = SBreak \/ cr_sig (crs' j) = SReturn).
  { unfold crs'. rewrite patch_crs_j. exact Hstop. }
  assert (H0 : sts 0%nat = sts' 0%nat) by (unfold sts'; rewrite patch_sts_le by lia; reflexivity).
  rewrite H0.
  rewrite (repeat_unroll_lemma fo child cx cur
             (fun k s => exists i, k = Z.of_nat i /\ (i <= j)%nat /\ s = sts' i)
             var_name argument code (Z.of_nat m)).
  - rewrite Nat2Z.id.
    rewrite (repeat_spec_stop fo child cx cur j m var_name code sts' crs' 0%Z acc Hjm).
    + unfold sts' at 1. rewrite patch_sts_S. unfold crs' at 1. rewrite outputs_patch.
      unfold crs'. rewrite patch_crs_j.
      destruct Hstop as [E|E]; rewrite E; reflexivity.
    + intros k Hk. cbn [Z.add]. apply Hrun'. exact Hk.
    + intros k Hk. destruct (Hsig' k Hk) as [E|E]; rewrite E; reflexivity.
    + destruct Hstop' as [E|E]; rewrite E; reflexivity.
  - intros k s Hk [i [-> [Hi ->]]]. unfold sts'. rewrite patch_sts_le by exact Hi. apply Hcount. exact Hi.
  - intros k s s' cr Hk [i [-> [Hi ->]]] Hr Hcont.
    rewrite Hrun' in Hr by lia. injection Hr as <- <-.
    exists (S i). split; [lia|]. split; [|reflexivity].
    destruct (Nat.eq_dec i j) as [->|Hne]; [|lia].
    exfalso. destruct Hstop' as [E|E]; rewrite E in Hcont; discriminate Hcont.
  - lia.
  - exists 0%nat. split; [reflexivity|]. split; [lia|reflexivity].
Qed.

(* iteration j fails: the loop fails with that error, in the state the failing iteration left *)
Lemma repeat_spec_fails : forall j' m' (sts0 : nat -> st) (crs0 : nat -> cret) count acc sJ e t,
  (j' < m')%nat ->
  (forall k, (k < j')%nat ->
     run_child fo child cx cur code (c_file cx) false (bind_counter fo var_name (count + Z.of_nat k)%Z) (sts0 k)
     = (sts0 (S k), IOk (crs0 k))) ->
  (forall k, (k < j')%nat -> snd (loop_signal (cr_sig (crs0 k))) = false) ->
  run_child fo child cx cur code (c_file cx) false (bind_counter fo var_name (count + Z.of_nat j')%Z) (sts0 j')
     = (sJ, IErr e t) ->
  repeat_spec fo child cx cur m' var_name code count acc (sts0 0%nat) = (sJ, IErr e t).
Proof.
  induction j' as [|j' IH]; intros m' sts0 crs0 count acc sJ e t Hjm' Hr Hs Hfail;
    (destruct m' as [|m']; [lia|]); cbn [repeat_spec]; unfold bindM at 1.
  - cbn [Z.of_nat] in Hfail. rewrite Z.add_0_r in Hfail. rewrite Hfail. reflexivity.
  - pose proof (Hr 0%nat (Nat.lt_0_succ j')) as H0. cbn [Z.of_nat] in H0. rewrite Z.add_0_r in H0.
    rewrite H0.
    pose proof (Hs 0%nat (Nat.lt_0_succ j')) as Hs0.
    destruct (loop_signal (cr_sig (crs0 0%nat))) as [sg brk]. cbn [snd] in Hs0. subst brk.
    apply (IH m' (fun k => sts0 (S k)) (fun k => crs0 (S k)) (count + 1)%Z _ sJ e t).
    + lia.
    + intros k Hk. replace (count + 1 + Z.of_nat k)%Z with (count + Z.of_nat (S k))%Z by lia.
      apply Hr. lia.
    + intros k Hk. apply Hs. lia.
    + replace (count + 1 + Z.of_nat j')%Z with (count + Z.of_nat (S j'))%Z by lia. exact Hfail.
Qed.

Lemma repeat_loop_fails_at : forall sJ e t,
  run_child fo child cx cur code (c_file cx) false (bind_counter fo var_name (Z.of_nat j)) (sts j)
  = (sJ, IErr e t) ->
  forall extra acc,
  repeat_loop fo child cx cur (loop_fuel + extra) var_name argument code 0 acc (sts 0%nat) = (sJ, IErr e t).
Proof.
  intros sJ e t HrunJ extra acc.
  rewrite (repeat_unroll_lemma fo child cx cur
             (fun k s => exists i, k = Z.of_nat i /\ (i <= j)%nat /\ s = sts i)
             var_name argument code (Z.of_nat m)).
  - rewrite Nat2Z.id.
    apply (repeat_spec_fails j m sts crs 0%Z acc sJ e t Hjm).
    + intros k Hk. cbn [Z.add]. apply Hrun. exact Hk.
    + intros k Hk. destruct (Hsig k Hk) as [E|E]; rewrite E; reflexivity.
    + cbn [Z.add]. exact HrunJ.
  - intros k s Hk [i [-> [Hi ->]]]. apply Hcount. exact Hi.
  - intros k s s' cr Hk [i [-> [Hi ->]]] Hr Hcont.
    destruct (Nat.eq_dec i j) as [->|Hne].
    + rewrite HrunJ in Hr. discriminate Hr.
    + rewrite Hrun in Hr by lia. injection Hr as <- <-.
      exists (S i). split; [lia|]. split; [lia|reflexivity].
  - lia.
  - exists 0%nat. split; [reflexivity|]. split; [lia|reflexivity].
Qed.

End Repeat.

Section While.
Variable cur : preline.
Variables (var_name : option str) (cond : str) (code : list item) (j : nat).
Variables (sts : nat -> st) (crs : nat -> cret).
Hypothesis Hj : (Z.of_nat j <= 20000)%Z.
Hypothesis Hrun : forall k, (k < j)%nat ->
  run_child_with fo child cx cur code (c_file cx) false (bind_counter fo var_name (Z.of_nat k)) (while_pre fo cond) (sts k)
  = (sts (S k), IOk (Some (crs k))).
Hypothesis Hsig : forall k, (k < j)%nat -> cr_sig (crs k) = SNormal \/ cr_sig (crs k) = SContinue.

Lemma while_loop_stops_at : forall sJ crJ,
  run_child_with fo child cx cur code (c_file cx) false (bind_counter fo var_name (Z.of_nat j)) (while_pre fo cond) (sts j)
  = (sJ, IOk (Some crJ)) ->
  (cr_sig crJ = SBreak \/ cr_sig crJ = SReturn) ->
  forall extra acc,
  while_loop fo child cx cur (loop_fuel + extra) var_name cond code 0 acc (sts 0%nat) =
  (sJ, IOk (mkCret (cr_data acc ++ outputs crs j ++ cr_data crJ)
                   (match cr_sig crJ with SReturn => SReturn | _ => SNormal end))).
Proof.
  intros sJ crJ HrunJ Hstop extra acc.
  set (sts' := patch_sts sts j sJ). set (crs' := patch_crs crs j crJ).
  assert (Hrun' : forall k, (k <= j)%nat ->
    run_child_with fo child cx cur code (c_file cx) false (bind_counter fo var_name (Z.of_nat k)) (while_pre fo cond) (sts' k)
    = (sts' (S k), IOk (Some (crs' k)))).
  { intros k Hk. unfold sts', crs'. destruct (Nat.eq_dec k j) as [->|Hne].
    - rewrite patch_sts_le, patch_sts_S, patch_crs_j by lia. exact HrunJ.
    - rewrite !patch_sts_le, patch_crs_lt by lia. apply Hrun. lia. }
  assert (Hsig' : forall k, (k < j)%nat -> cr_sig (crs' k) = SNormal \/ cr_sig (crs' k) = SContinue).
  { intros k Hk. unfold crs'. rewrite patch_crs_lt by exact Hk. apply Hsig. exact Hk. }
  assert (Hstop' : cr_sig (crs' j) = SBreak \/ cr_sig (crs' j) = SReturn).
  { unfold crs'. rewrite patch_crs_j. exact Hstop. }
  assert (H0 : sts 0%nat = sts' 0%nat) by (unfold sts'; rewrite patch_sts_le by lia; reflexivity).
  rewrite H0.
  rewrite (while_stops_at_lemma fo child cx cur j var_name cond code sts' crs' Hj Hrun' Hsig' Hstop' extra acc).
  unfold sts' at 1. rewrite patch_sts_S. unfold crs' at 1. rewrite outputs_patch.
  unfold crs'. rewrite patch_crs_j. reflexivity.
Qed.

End While.

(* ---- the loop line in Stack.run *)
Notation exec_cmds := (exec_cmds fo child cx).

Theorem repeat_line_stops_at : forall a n body rest acc s var_name count_expr (m j : nat)
    (sts : nat -> st) (crs : nat -> cret) sJ crJ,
  is_blank a = false -> body <> [] ->
  split_loop_arg (strip a) = (var_name, count_expr) -> counter_ok var_name ->
  sts 0%nat = clear_line2 fo s ->
  (forall k, (k <= j)%nat ->
     tokenize_count fo cx (s_REPEAT ++ 32%N :: a, n) count_expr (sts k) = (sts k, IOk (Z.of_nat m))) ->
  (j < m)%nat ->
  (forall k, (k < j)%nat ->
     run_child fo child cx (s_REPEAT ++ 32%N :: a, n) body (c_file cx) false
       (bind_counter fo var_name (Z.of_nat k)) (sts k) = (sts (S k), IOk (crs k))) ->
  (forall k, (k < j)%nat -> cr_sig (crs k) = SNormal \/ cr_sig (crs k) = SContinue) ->
  run_child fo child cx (s_REPEAT ++ 32%N :: a, n) body (c_file cx) false
    (bind_counter fo var_name (Z.of_nat j)) (sts j) = (sJ, IOk crJ) ->
  (cr_sig crJ = SBreak \/ cr_sig crJ = SReturn) ->
  exec_cmds (Ln (s_REPEAT ++ 32%N :: a) n :: Blk body :: rest) acc s =
  match cr_sig crJ with
  | SReturn => (sJ, IOk (mkCret (acc ++ outputs crs j ++ cr_data crJ) SReturn))
  | _ => exec_cmds rest (acc ++ outputs crs j ++ cr_data crJ) sJ
  end.
Proof.
  intros a n body rest acc s var_name count_expr m j sts crs sJ crJ Ha Hbody Hsplit Hvar Hstart
         Hcount Hjm Hrun Hsig HrunJ Hstop.
  rewrite (repeat_line_lemma fo child cx a n body rest acc s var_name count_expr Ha Hbody Hsplit Hvar).
  pose proof (repeat_loop_stops_at (s_REPEAT ++ 32%N :: a, n) var_name count_expr body m j sts crs
                Hcount Hjm Hrun Hsig sJ crJ HrunJ Hstop 0%nat (mkCret [] SNormal)) as H.
  rewrite Nat.add_0_r in H. unfold bindM. rewrite <- Hstart, H. cbn [cr_data app].
  unfold after_branch. cbn [cr_sig cr_data].
  destruct Hstop as [E|E]; rewrite E; reflexivity.
Qed.

Theorem repeat_line_fails_at : forall a n body rest acc s var_name count_expr (m j : nat)
    (sts : nat -> st) (crs : nat -> cret) sJ e t,
  is_blank a = false -> body <> [] ->
  split_loop_arg (strip a) = (var_name, count_expr) -> counter_ok var_name ->
  sts 0%nat = clear_line2 fo s ->
  (forall k, (k <= j)%nat ->
     tokenize_count fo cx (s_REPEAT ++ 32%N :: a, n) count_expr (sts k) = (sts k, IOk (Z.of_nat m))) ->
  (j < m)%nat ->
  (forall k, (k < j)%nat ->
     run_child fo child cx (s_REPEAT ++ 32%N :: a, n) body (c_file cx) false
       (bind_counter fo var_name (Z.of_nat k)) (sts k) = (sts (S k), IOk (crs k))) ->
  (forall k, (k < j)%nat -> cr_sig (crs k) = SNormal \/ cr_sig (crs k) = SContinue) ->
  run_child fo child cx (s_REPEAT ++ 32%N :: a, n) body (c_file cx) false
    (bind_counter fo var_name (Z.of_nat j)) (sts j) = (sJ, IErr e t) ->
  exec_cmds (Ln (s_REPEAT ++ 32%N :: a) n :: Blk body :: rest) acc s = (sJ, IErr e t).
Proof.
  intros a n body rest acc s var_name count_expr m j sts crs sJ e t Ha Hbody Hsplit Hvar Hstart
         Hcount Hjm Hrun Hsig HrunJ.
  rewrite (repeat_line_lemma fo child cx a n body rest acc s var_name count_expr Ha Hbody Hsplit Hvar).
  pose proof (repeat_loop_fails_at (s_REPEAT ++ 32%N :: a, n) var_name count_expr body m j sts crs
                Hcount Hjm Hrun Hsig sJ e t HrunJ 0%nat (mkCret [] SNormal)) as H.
  rewrite Nat.add_0_r in H. unfold bindM. rewrite <- Hstart, H. reflexivity.
Qed.

Theorem while_line_stops_at : forall a n body rest acc s var_name cond (j : nat)
    (sts : nat -> st) (crs : nat -> cret) sJ crJ,
  is_blank a = false -> body <> [] ->
  split_loop_arg (strip a) = (var_name, cond) ->
  sts 0%nat = clear_line2 fo s ->
  (Z.of_nat j <= 20000)%Z ->
  (forall k, (k < j)%nat ->
     run_child_with fo child cx (s_WHILE ++ 32%N :: a, n) body (c_file cx) false
       (bind_counter fo var_name (Z.of_nat k)) (while_pre fo cond) (sts k) = (sts (S k), IOk (Some (crs k)))) ->
  (forall k, (k < j)%nat -> cr_sig (crs k) = SNormal \/ cr_sig (crs k) = SContinue) ->
  run_child_with fo child cx (s_WHILE ++ 32%N :: a, n) body (c_file cx) false
    (bind_counter fo var_name (Z.of_nat j)) (while_pre fo cond) (sts j) = (sJ, IOk (Some crJ)) ->
  (cr_sig crJ = SBreak \/ cr_sig crJ = SReturn) ->
  exec_cmds (Ln (s_WHILE ++ 32%N :: a) n :: Blk body :: rest) acc s =
  match cr_sig crJ with
  | SReturn => (sJ, IOk (mkCret (acc ++ outputs crs j ++ cr_data crJ) SReturn))
  | _ => exec_cmds rest (acc ++ outputs crs j ++ cr_data crJ) sJ
  end.
Proof.
  intros a n body rest acc s var_name cond j sts crs sJ crJ Ha Hbody Hsplit Hstart Hj Hrun Hsig HrunJ Hstop.
  rewrite (while_line_lemma fo child cx a n body rest acc s var_name cond Ha Hbody Hsplit).
  pose proof (while_loop_stops_at (s_WHILE ++ 32%N :: a, n) var_name cond body j sts crs
                Hj Hrun Hsig sJ crJ HrunJ Hstop 0%nat (mkCret [] SNormal)) as H.
  rewrite Nat.add_0_r in H. unfold bindM. rewrite <- Hstart, H. cbn [cr_data app].
  unfold after_branch. cbn [cr_sig cr_data].
  destruct Hstop as [E|E]; rewrite E; reflexivity.
Qed.

End Loops.

(* ------------------------------------------------------------------ soundness of the signal paths *)
Section Sound.
Variable fo : FloatOps.
Notation st := (st fo).

Lemma raises_not_normal : forall d cx s cmds sg segs s',
  raises fo d cx s cmds sg segs s' -> sg <> SNormal.
Proof.
  intros d cx s cmds sg segs s' H. induction H; try assumption; try discriminate.
  intros ->. eapply ctl_word_not_normal. eassumption.
Qed.

Lemma chain_items_no_lead_blk : forall arms rest, chain_ok arms -> no_lead_blk (chain_items arms ++ rest).
Proof. intros [|a1 others] rest H; [contradiction|exact I]. Qed.

(* the taken arm of a chain whose body (a child stack) ends with a signal *)
Lemma chain_arm_signal : forall child cx arms earlier a later rest acc s sT' cr,
  chain_ok arms -> arms = earlier ++ a :: later ->
  all_false fo (clear_line2 fo s) earlier ->
  evals fo (cond_state fo (clear_line2 fo s) earlier) a true ->
  run_child fo child cx (a_line a, a_num a) (a_body a) (c_file cx) false (fun e => Ok e) (arm_state fo s)
    = (sT', IOk cr) ->
  cr_sig cr <> SNormal ->
  exec_cmds fo child cx (chain_items arms ++ rest) acc s = (sT', IOk (mkCret (acc ++ cr_data cr) (cr_sig cr))).
Proof.
  intros child cx arms earlier a later rest acc s sT' cr Hc Ha Hf Ht Hrun Hsig.
  rewrite (chain_first_true fo child cx arms earlier a later rest acc s Hc Ha Hf Ht).
  - unfold take_arm, bindM. unfold arm_state in Hrun. rewrite Hrun.
    unfold after_branch. destruct (cr_sig cr); [contradiction| | |]; reflexivity.
  - intros s' cr' Hr Hn. unfold arm_state in Hrun. rewrite Hrun in Hr. injection Hr as _ <-. contradiction.
Qed.

Theorem raises_sound : forall d cx s cmds sg segs s',
  raises fo d cx s cmds sg segs s' ->
  forall acc, exec_cmds fo (child_of fo d) cx cmds acc s = (s', IOk (mkCret (acc ++ concat segs) sg)).
Proof.
  intros d cx s cmds sg segs s' H.
  induction H as
    [ d cx s pre c cmd n post sg o1 s1 Hpre Hs Hw Hp
    | d cx s pre arms earlier a later post sg o1 s1 segs sB Hpre Hc Ha Hf Ht Hfull Hbody IH
    | d cx s pre a n body post o1 s1 var_name count_expr m j sts crs segs sB
        Hpre Hba Hbody Hsplit Hvar Hstart Hcount Hjm Hrun Hsig Hfull Hraise IH
    | d cx s pre a n body post o1 s1 var_name cond j sts crs cenv1 v segs sB
        Hpre Hba Hbody Hsplit Hstart Hj Hrun Hsig Hfull Hbind Htok Htrue Hraise IH ];
    intros acc.
  - cbn [concat]. rewrite app_nil_r.
    exact (ctl_line_raises fo (child_of fo d) cx sg pre c cmd n post acc s s1 o1 Hpre Hs Hw Hp).
  - pose proof (raises_not_normal _ _ _ _ _ _ _ Hbody) as Hn.
    unfold runs in Hpre. cbn [child_of] in *.
    rewrite (after_normal_segment fo (run fo d) cx pre _ acc s s1 o1 Hpre (chain_items_no_lead_blk arms post Hc)).
    pose proof (run_child_enter fo d cx (a_line a, a_num a) (a_body a) (c_file cx) (fun e => Ok e)
                  (arm_state fo s1) _ sB _ Hfull eq_refl (IH [])) as Hr.
    rewrite (chain_arm_signal (run fo d) cx arms earlier a later post (acc ++ o1) s1 _ _ Hc Ha Hf Ht Hr Hn).
    cbn [cr_data cr_sig concat app]. rewrite <- app_assoc. reflexivity.
  - unfold runs in Hpre. cbn [child_of] in *.
    rewrite (after_normal_segment fo (run fo d) cx pre (Ln (s_REPEAT ++ 32%N :: a) n :: Blk body :: post)
               acc s s1 o1 Hpre I).
    pose proof (run_child_enter fo d cx (s_REPEAT ++ 32%N :: a, n) body (c_file cx)
                  (bind_counter fo var_name (Z.of_nat j)) (sts j) _ sB _ Hfull
                  (counter_env_ok fo var_name (Z.of_nat j) _ Hvar) (IH [])) as Hr.
    rewrite (repeat_line_stops_at fo (run fo d) cx a n body post (acc ++ o1) s1 var_name count_expr m j sts crs
               _ _ Hba Hbody Hsplit Hvar Hstart Hcount Hjm Hrun Hsig Hr (or_intror eq_refl)).
    cbn [cr_sig cr_data concat app]. rewrite <- !app_assoc. reflexivity.
  - unfold runs in Hpre. cbn [child_of] in *.
    rewrite (after_normal_segment fo (run fo d) cx pre (Ln (s_WHILE ++ 32%N :: a) n :: Blk body :: post)
               acc s s1 o1 Hpre I).
    assert (Hp : while_pre fo cond cenv1 = Ok true).
    { unfold while_pre. rewrite Htok. cbn [bind]. rewrite Htrue. reflexivity. }
    pose proof (run_child_with_enter fo d cx (s_WHILE ++ 32%N :: a, n) body (c_file cx)
                  (bind_counter fo var_name (Z.of_nat j)) (while_pre fo cond) (sts j) cenv1 sB _ Hfull
                  Hbind Hp (IH [])) as Hr.
    rewrite (while_line_stops_at fo (run fo d) cx a n body post (acc ++ o1) s1 var_name cond j sts crs
               _ _ Hba Hbody Hsplit Hstart Hj Hrun Hsig Hr (or_intror eq_refl)).
    cbn [cr_sig cr_data concat app]. rewrite <- !app_assoc. reflexivity.
Qed.

(* an IF nest is a signal path; its [segs] are the m + 1 segment outputs *)
Lemma if_nest_raises : forall m d cx s cmds sg segs s',
  if_nest fo m d cx s cmds sg segs s' -> raises fo d cx s cmds sg segs s'.
Proof.
  intros m d cx s cmds sg segs s' H. induction H.
  - eapply R_ctl; eassumption.
  - eapply R_if; eassumption.
Qed.

Lemma if_nest_length : forall m d cx s cmds sg segs s',
  if_nest fo m d cx s cmds sg segs s' -> length segs = S m.
Proof. intros m d cx s cmds sg segs s' H. induction H; cbn [length]; [reflexivity|rewrite IHif_nest; reflexivity]. Qed.

Lemma if_nest_is_path : forall m d cx s cmds sg segs s',
  if_nest fo m d cx s cmds sg segs s' -> raises fo d cx s cmds sg segs s' /\ length segs = S m.
Proof. intros. split; [eapply if_nest_raises|eapply if_nest_length]; eassumption. Qed.

(* one more level, written with the upper-case keyword: pre ++ [IF c / body] ++ post where c is
   true in the state pre left (the flag created if absent, as block_compile does) *)
Lemma if_nest_simple_if : forall m d cx s pre c n body post sg o1 s1 v segs sB,
  runs fo (S d) cx s pre o1 s1 ->
  is_blank c = false -> body <> [] ->
  tokenize fo (all_vars fo (s_env (ensure_flag fo (clear_line2 fo s1)))) (strip c) = Ok v ->
  truthy fo v = true ->
  stack_full cx = false ->
  if_nest fo m d (child_ctx fo cx (s_IF ++ 32%N :: c, n) (arm_state fo s1) (c_file cx))
          (enter fo (arm_state fo s1) (entry_env fo (arm_state fo s1))) body sg segs sB ->
  if_nest fo (S m) (S d) cx s (pre ++ [Ln (s_IF ++ 32%N :: c) n; Blk body] ++ post) sg (o1 :: segs)
          (leave fo (arm_state fo s1) sB).
Proof.
  intros m d cx s pre c n body post sg o1 s1 v segs sB Hpre Hc Hb Htok Hv Hfull Hnest.
  change [Ln (s_IF ++ 32%N :: c) n; Blk body] with (chain_items [cond_arm AIf c n body]).
  eapply (N_if fo m d cx s pre [cond_arm AIf c n body] [] (cond_arm AIf c n body) [] post sg o1 s1 segs sB Hpre).
  - split; [reflexivity|]. split; [|constructor].
    constructor; [|constructor]. apply cond_arm_ok; [discriminate|exact Hc|exact Hb].
  - reflexivity.
  - exact I.
  - apply evals_cond_arm; [exact Hc|]. exists v. split; assumption.
  - exact Hfull.
  - exact Hnest.
Qed.

(* conversely a path for BREAKLOOP / CONTINUELOOP goes through IF arms only *)
Lemma raises_loop_signal_if_nest : forall d cx s cmds sg segs s',
  raises fo d cx s cmds sg segs s' -> sg = SBreak \/ sg = SContinue ->
  exists m, if_nest fo m d cx s cmds sg segs s'.
Proof.
  intros d cx s cmds sg segs s' H. induction H; intros Hsg.
  - exists 0%nat. eapply N_ctl; eassumption.
  - destruct (IHraises Hsg) as [m Hm]. exists (S m). eapply N_if; eassumption.
  - destruct Hsg; discriminate.
  - destruct Hsg; discriminate.
Qed.

(* the stack as [run d] runs it (this is what a RUN line, a block, Compiler.compile see) *)
Corollary raises_run : forall d cx g e cmds sg segs s',
  raises fo d cx (mkSt g e None) cmds sg segs s' ->
  run fo d cx g e cmds = (s_g s', IOk (mkCret (concat segs) sg, s_env s')).
Proof.
  intros d cx g e cmds sg segs s' H. rewrite run_child_of. unfold run_with.
  rewrite (raises_sound d cx _ cmds sg segs s' H []). reflexivity.
Qed.

(* the block of a line of a stack run by [run (S d)]: one iteration of a loop, the body of an arm *)
Corollary block_raises : forall d cx cur code file setup s cenv1 sg segs sB,
  stack_full cx = false ->
  setup (entry_env fo s) = Ok cenv1 ->
  raises fo d (child_ctx fo cx cur s file) (enter fo s cenv1) code sg segs sB ->
  run_child fo (run fo d) cx cur code file false setup s = (leave fo s sB, IOk (mkCret (concat segs) sg)).
Proof.
  intros d cx cur code file setup s cenv1 sg segs sB Hfull Hsetup H.
  exact (run_child_enter fo d cx cur code file setup s cenv1 sB _ Hfull Hsetup (raises_sound _ _ _ _ _ _ _ H [])).
Qed.

End Sound.

(* ------------------------------------------------------------------ the side condition [stack_full cx = false]
   holds as long as the pile (stacks below this one) plus this stack is shorter than the limit; each
   child stack is one deeper.  In Compiler.compile the main stack has an empty pile: a control
   line under k nested blocks needs k + 1 < stack_limit. *)
Lemma stack_not_full : forall cx,
  (Z.of_nat (length (c_pile cx) + 1) < stack_limit (c_opts cx))%Z -> stack_full cx = false.
Proof.
  intros cx H. unfold stack_full, pile_len, stack_limit_op, cmp_eval. apply Z.leb_gt. exact H.
Qed.

Lemma child_ctx_pile : forall fo cx cur (s : st fo) file,
  length (c_pile (child_ctx fo cx cur s file)) = S (length (c_pile cx)) /\
  c_opts (child_ctx fo cx cur s file) = c_opts cx.
Proof.
  intros fo cx cur s file. unfold child_ctx, here. cbn [c_pile c_opts].
  rewrite app_length. cbn [length]. split; [lia|reflexivity].
Qed.
