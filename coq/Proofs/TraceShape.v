(* T1 (C10): the shape of the stack trace carried by an error.
   - the pile of the stacks below is a prefix of the trace;
   - the next frame is the line of THIS stack that was current (file of this stack, the command
     with its original number);
   - when the error was raised by this stack itself that frame is the last one; otherwise the
     rest is the trace of an error returned by a child stack whose pile is [here cur l2];
   - for the depth-indexed interpreter: the trace is pile ++ chain, every frame of the chain
     naming the file of its own stack and a (non-blank, top-level) line of the code it ran. *)
From Coq Require Import NArith ZArith List Bool Lia.
From DS Require Import Base PyStr Values Expr TabParse Tables Constants Interp StackLift.
Import ListNotations.

Definition trace_ok (cx : ctx) (t : option (list frame)) : Prop :=
  match t with
  | None => True
  | Some fr => exists l2 rest cur, fr = c_pile cx ++ mkFrame (c_file cx) cur l2 :: rest
  end.

Definition trace_at (cx : ctx) (cur : preline) (t : option (list frame)) : Prop :=
  match t with
  | None => True
  | Some fr => exists l2 rest, fr = c_pile cx ++ mkFrame (c_file cx) cur l2 :: rest
  end.

Lemma trace_at_ok : forall cx cur t, trace_at cx cur t -> trace_ok cx t.
Proof.
  intros cx cur [fr|] H; [|exact I]. destruct H as (l2 & rest & H). exists l2, rest, cur. exact H.
Qed.

Lemma top_lines_In : forall c n cmds, In (c, n) (top_lines cmds) -> In (Ln c n) cmds /\ is_blank c = false.
Proof.
  intros c n cmds. induction cmds as [|[c' n'|b] rest IH]; intro H.
  - destruct H.
  - rewrite top_lines_ln in H. apply in_app_or in H. destruct H as [H|H].
    + destruct (is_blank c') eqn:Eb; [destruct H|]. destruct H as [H|[]]. injection H as <- <-.
      split; [left; reflexivity|exact Eb].
    + destruct (IH H) as [H1 H2]. split; [right; exact H1|exact H2].
  - rewrite top_lines_blk in H. destruct (IH H) as [H1 H2]. split; [right; exact H1|exact H2].
Qed.

(* how the line [c], followed by the block [cb], can start a child stack (file, code):
   - a block command (IF / ELSE / REPEAT / WHILE) runs the block that follows it, in the same file;
   - RUN runs the body of a function found in the environment (body and defining file are data of
     the environment: not constrained here);
   - START runs the parsed text of a file of the file system, under that file's path *)
Inductive child_call (cx : ctx) (c : str) (cb : option (list item)) : option path -> list item -> Prop :=
| cc_block : forall cmd more cname bc,
    split_ws1 c = cmd :: more -> find_command palette cmd cb = Some (cname, Block bc) ->
    child_call cx c cb (c_file cx) (block_of cb)
| cc_run : forall cmd more cname sc file code,
    split_ws1 c = cmd :: more -> find_command palette cmd cb = Some (cname, Simple sc) ->
    s_run sc = RKRun ->
    child_call cx c cb file code
| cc_start : forall cmd more cname sc target text code,
    split_ws1 c = cmd :: more -> find_command palette cmd cb = Some (cname, Simple sc) ->
    s_run sc = RKStart ->
    c_fs cx target = Some text -> prepare_text text = TOk code ->
    child_call cx c cb (Some target) code.

(* the same for a line of a list of commands: the block is the one that follows it there *)
Definition line_call (cx : ctx) (cmds : list item) (cur : preline) (file : option path) (code : list item) : Prop :=
  exists cb, In (cur, cb) (line_blocks cmds) /\ child_call cx (fst cur) cb file code.

Lemma child_call_block_inv : forall cx c cb file code cmd more cname bc,
  child_call cx c cb file code ->
  split_ws1 c = cmd :: more -> find_command palette cmd cb = Some (cname, Block bc) ->
  file = c_file cx /\ code = block_of cb.
Proof.
  intros cx c cb file code cmd more cname bc H Hs Hf.
  destruct H as [cmd' more' cname' bc' Hs' Hf'|cmd' more' cname' sc' file code Hs' Hf' Hk
                |cmd' more' cname' sc' target text code Hs' Hf' Hk Hfs Hp].
  - split; reflexivity.
  - rewrite Hs in Hs'. injection Hs' as <- <-. rewrite Hf in Hf'. discriminate.
  - rewrite Hs in Hs'. injection Hs' as <- <-. rewrite Hf in Hf'. discriminate.
Qed.

Lemma child_call_start_inv : forall cx c cb file code cmd more cname sc,
  child_call cx c cb file code ->
  split_ws1 c = cmd :: more -> find_command palette cmd cb = Some (cname, Simple sc) -> s_run sc = RKStart ->
  exists target text, file = Some target /\ c_fs cx target = Some text /\ prepare_text text = TOk code.
Proof.
  intros cx c cb file code cmd more cname sc H Hs Hf Hk.
  destruct H as [cmd' more' cname' bc' Hs' Hf'|cmd' more' cname' sc' file code Hs' Hf' Hk'
                |cmd' more' cname' sc' target text code Hs' Hf' Hk' Hfs Hp].
  - rewrite Hs in Hs'. injection Hs' as <- <-. rewrite Hf in Hf'. discriminate.
  - rewrite Hs in Hs'. injection Hs' as <- <-. rewrite Hf in Hf'. injection Hf' as <- <-.
    rewrite Hk in Hk'. discriminate.
  - exists target, text. repeat split; assumption.
Qed.

Lemma child_call_line_calls : forall cx c n cb,
  line_calls cx (fun _ => child_call cx c cb) c n cb.
Proof.
  intros cx c n cb cmd more cname cl Hs Hf. destruct cl as [sc|bc].
  - split; intro Hk.
    + intros f. eapply cc_run; eassumption.
    + intros target text code Hfs Hp. eapply cc_start; eassumption.
  - unfold call_block. eapply cc_block; eassumption.
Qed.

Lemma line_call_cmds_calls : forall cx cmds, cmds_calls cx (line_call cx cmds) cmds.
Proof.
  intros cx cmds c n cb Hin cmd more cname cl Hs Hf. destruct cl as [sc|bc].
  - split; intro Hk.
    + intros f. exists cb. split; [exact Hin|]. eapply cc_run; eassumption.
    + intros target text code Hfs Hp. exists cb. split; [exact Hin|]. eapply cc_start; eassumption.
  - unfold call_block. exists cb. split; [exact Hin|]. eapply cc_block; eassumption.
Qed.

Section Trace.
Variable fo : FloatOps.

Let Rt : glob -> glob -> Prop := fun _ _ => True.
Let Rt_refl : forall g, Rt g g := fun _ => I.
Let Rt_trans : forall a b c, Rt a b -> Rt b c -> Rt a c := fun _ _ _ _ _ => I.
Let Rt_warn : forall w g, Rt g (add_warning w g) := fun _ _ => I.
Let Rt_print : forall p g, Rt g (mkGlob (p :: g_prints g) (g_warnings g)) := fun _ _ => I.

(* ------------------------------------------------------------------ where an error comes from *)
Definition origin (child : runner fo) (cx : ctx) (Call : option path -> list item -> Prop)
           (cur : preline) (t : option (list frame)) : Prop :=
  t = None \/
  (exists l2, t = Some (here cx cur l2)) \/
  (exists l2 file g e code g' err,
     Call file code /\
     child (mkCtx (c_opts cx) (c_fs cx) (here cx cur l2) file) g e code = (g', IErr _ err t)).

Lemma origin_child : forall child cx (Call : preline -> option path -> list item -> Prop) cur l2 file g e code g' r,
  Call cur file code ->
  child (mkCtx (c_opts cx) (c_fs cx) (here cx cur l2) file) g e code = (g', r) ->
  Rt g g' /\ res_sat (fun cur => origin child cx (Call cur) cur) cur r.
Proof.
  intros child cx Call cur l2 file g e code g' r HC E. split; [exact I|].
  destruct r as [a|err t|k|]; try exact I. right. right. exists l2, file, g, e, code, g', err.
  split; [exact HC|exact E].
Qed.

(* no assumption on the child: an error of a line is one of
   (a) an error without a stack (an imported file that does not parse),
   (b) raised here: the trace is exactly pile ++ [this line],
   (c) returned as is by a child stack that this line started (a block, a RUN, a START) *)
Theorem exec_line_origin : forall child cx c n cb s s' err t,
  exec_line fo child cx c n cb s = (s', IErr _ err t) -> origin child cx (child_call cx c cb) (c, n) t.
Proof.
  intros child cx c n cb s s' err t E.
  eapply (sat_exec_line fo Rt Rt_refl Rt_trans Rt_warn Rt_print child cx
            (fun cur => origin child cx (child_call cx c cb) cur)) in E.
  - exact (proj2 E).
  - intros cur l2. right. left. exists l2. reflexivity.
  - intros cur. left. reflexivity.
  - apply (origin_child child cx (fun _ => child_call cx c cb)).
  - apply child_call_line_calls.
Qed.

Theorem exec_cmds_origin : forall child cx cmds acc s s' err t,
  exec_cmds fo child cx cmds acc s = (s', IErr _ err t) ->
  exists cur, In cur (top_lines cmds) /\ origin child cx (line_call cx cmds cur) cur t.
Proof.
  intros child cx cmds acc s s' err t E.
  eapply (sat_exec_cmds fo Rt Rt_refl Rt_trans Rt_warn Rt_print child cx
            (fun cur => origin child cx (line_call cx cmds cur) cur)) in E.
  - exact (proj2 E).
  - intros cur l2. right. left. exists l2. reflexivity.
  - intros cur. left. reflexivity.
  - apply (origin_child child cx (line_call cx cmds)).
  - apply line_call_cmds_calls.
Qed.

Theorem run_with_origin : forall child cx g e cmds g' err t,
  run_with fo child cx g e cmds = (g', IErr _ err t) ->
  exists cur, In cur (top_lines cmds) /\ origin child cx (line_call cx cmds cur) cur t.
Proof.
  intros child cx g e cmds g' err t E.
  eapply (sat_run_with fo Rt Rt_refl Rt_trans Rt_warn Rt_print child cx
            (fun cur => origin child cx (line_call cx cmds cur) cur)) in E.
  - exact (proj2 E).
  - intros cur l2. right. left. exists l2. reflexivity.
  - intros cur. left. reflexivity.
  - apply (origin_child child cx (line_call cx cmds)).
  - apply line_call_cmds_calls.
Qed.

(* ------------------------------------------------------------------ the runner predicate *)
Definition trace_runner (r : runner fo) : Prop :=
  forall cx g e c g' err t, r cx g e c = (g', IErr _ err t) -> trace_ok cx t.

Lemma origin_trace_at : forall child cx Call cur t,
  trace_runner child -> origin child cx Call cur t -> trace_at cx cur t.
Proof.
  intros child cx Call cur t Hc [->|[(l2 & ->)|(l2 & file & g & e & code & g' & err & _ & E)]].
  - exact I.
  - exists l2, []. reflexivity.
  - apply Hc in E. destruct t as [fr|]; [|exact I]. cbn [trace_ok c_pile c_file] in E.
    destruct E as (l2' & rest & cur' & ->). unfold here. rewrite <- app_assoc. cbn [app].
    exists l2, (mkFrame file cur' l2' :: rest). reflexivity.
Qed.

(* the frame after the pile is the command at fault of this stack, with its original number *)
Theorem exec_line_trace_at : forall child cx, trace_runner child ->
  forall c n cb s s' err t, exec_line fo child cx c n cb s = (s', IErr _ err t) -> trace_at cx (c, n) t.
Proof.
  intros child cx Hc c n cb s s' err t E. eapply origin_trace_at; [exact Hc|].
  eapply exec_line_origin; exact E.
Qed.

(* an error raised by this stack itself (with a child that never fails): nothing follows *)
Theorem exec_line_trace_self : forall child cx,
  (forall cx' g e c g' err t, child cx' g e c <> (g', IErr _ err t)) ->
  forall c n cb s s' err fr, exec_line fo child cx c n cb s = (s', IErr _ err (Some fr)) ->
  exists l2, fr = c_pile cx ++ [mkFrame (c_file cx) (c, n) l2].
Proof.
  intros child cx Hc c n cb s s' err fr E. apply exec_line_origin in E.
  destruct E as [E|[(l2 & E)|(l2 & file & g & e & code & g' & err' & _ & E)]].
  - discriminate.
  - injection E as ->. exists l2. reflexivity.
  - exfalso. exact (Hc _ _ _ _ _ _ _ E).
Qed.

Theorem exec_cmds_trace_at : forall child cx, trace_runner child ->
  forall cmds acc s s' err t, exec_cmds fo child cx cmds acc s = (s', IErr _ err t) ->
  exists cur, In cur (top_lines cmds) /\ trace_at cx cur t.
Proof.
  intros child cx Hc cmds acc s s' err t E. apply exec_cmds_origin in E.
  destruct E as (cur & Hin & Ho). exists cur. split; [exact Hin|]. eapply origin_trace_at; eassumption.
Qed.

Theorem exec_cmds_trace_ok : forall child cx, trace_runner child ->
  forall cmds acc s s' err t, exec_cmds fo child cx cmds acc s = (s', IErr _ err t) -> trace_ok cx t.
Proof.
  intros child cx Hc cmds acc s s' err t E. destruct (exec_cmds_trace_at child cx Hc _ _ _ _ _ _ E) as (cur & _ & H).
  eapply trace_at_ok; exact H.
Qed.

Theorem run_with_trace_runner : forall child, trace_runner child -> trace_runner (run_with fo child).
Proof.
  intros child Hc cx g e cmds g' err t E. apply run_with_origin in E. destruct E as (cur & _ & Ho).
  eapply trace_at_ok, origin_trace_at; eassumption.
Qed.

Lemma no_child_trace_runner : trace_runner (no_child fo).
Proof. intros cx g e c g' err t E. discriminate. Qed.

Theorem run_trace_runner : forall d, trace_runner (run fo d).
Proof.
  induction d as [|d IH]; cbn [run]; apply run_with_trace_runner; [apply no_child_trace_runner|exact IH].
Qed.

(* ------------------------------------------------------------------ the whole chain, by depth *)
Inductive raised_by : nat -> ctx -> list item -> option (list frame) -> Prop :=
| rb_none : forall d cx cmds, raised_by d cx cmds None
| rb_self : forall d cx cmds cur l2,
    In cur (top_lines cmds) -> raised_by d cx cmds (Some (here cx cur l2))
| rb_child : forall d cx cmds cur l2 file g e code g' err t,
    In cur (top_lines cmds) ->
    line_call cx cmds cur file code ->
    run fo d (mkCtx (c_opts cx) (c_fs cx) (here cx cur l2) file) g e code = (g', IErr _ err t) ->
    raised_by d (mkCtx (c_opts cx) (c_fs cx) (here cx cur l2) file) code t ->
    raised_by (S d) cx cmds t.

Theorem run_raised_by : forall d cx g e cmds g' err t,
  run fo d cx g e cmds = (g', IErr _ err t) -> raised_by d cx cmds t.
Proof.
  induction d as [|d IH]; intros cx g e cmds g' err t E; cbn [run] in E; apply run_with_origin in E;
    destruct E as (cur & Hin & [->|[(l2 & ->)|(l2 & file & g1 & e1 & code & g1' & err' & HC & E)]]).
  - apply rb_none.
  - apply rb_self. exact Hin.
  - discriminate.
  - apply rb_none.
  - apply rb_self. exact Hin.
  - eapply rb_child; [exact Hin|exact HC|exact E|]. eapply IH. exact E.
Qed.

(* the frames beyond the pile: each names the file of its own stack and a line of the code that
   stack ran; the stack above it had exactly the frames before it as its pile *)
Inductive stack_chain : ctx -> list item -> list frame -> Prop :=
| sc_one : forall cx cmds cur l2,
    In cur (top_lines cmds) -> stack_chain cx cmds [mkFrame (c_file cx) cur l2]
| sc_cons : forall cx cmds cur l2 file code rest,
    In cur (top_lines cmds) ->
    line_call cx cmds cur file code ->
    stack_chain (mkCtx (c_opts cx) (c_fs cx) (here cx cur l2) file) code rest ->
    stack_chain cx cmds (mkFrame (c_file cx) cur l2 :: rest).

Theorem raised_by_chain : forall d cx cmds fr,
  raised_by d cx cmds (Some fr) ->
  exists suffix, fr = c_pile cx ++ suffix /\ stack_chain cx cmds suffix /\ (length suffix <= S d)%nat.
Proof.
  intros d cx cmds fr H. remember (Some fr) as t eqn:Et. revert fr Et.
  induction H as [d cx cmds|d cx cmds cur l2 Hin|d cx cmds cur l2 file g e code g' err t Hin HC Hrun Hrb IH];
    intros fr Et.
  - discriminate.
  - injection Et as <-. exists [mkFrame (c_file cx) cur l2]. split; [reflexivity|].
    split; [apply sc_one; exact Hin|cbn; lia].
  - destruct (IH fr Et) as (suffix & Hfr & Hch & Hlen). cbn [c_pile] in Hfr.
    exists (mkFrame (c_file cx) cur l2 :: suffix). split.
    + rewrite Hfr. unfold here. rewrite <- app_assoc. reflexivity.
    + split; [eapply sc_cons; eassumption|cbn [length]; lia].
Qed.

Lemma stack_chain_head : forall cx cmds suffix, stack_chain cx cmds suffix ->
  exists cur l2 rest, suffix = mkFrame (c_file cx) cur l2 :: rest /\ In cur (top_lines cmds).
Proof.
  intros cx cmds suffix H. destruct H as [cx cmds cur l2 Hin|cx cmds cur l2 file code rest Hin HC Hch].
  - exists cur, l2, []. split; [reflexivity|exact Hin].
  - exists cur, l2, rest. split; [reflexivity|exact Hin].
Qed.

(* two consecutive entries: the first is a line of its stack that started the stack of the second
   (as a block, a RUN or a START: child_call), the second is a line of the code started *)
Lemma stack_chain_step : forall cx cmds fr1 fr2 rest, stack_chain cx cmds (fr1 :: fr2 :: rest) ->
  exists cb file code,
    fr_file fr1 = c_file cx /\ In (fr_line fr1, cb) (line_blocks cmds) /\
    child_call cx (fst (fr_line fr1)) cb file code /\
    fr_file fr2 = file /\ In (fr_line fr2) (top_lines code) /\
    stack_chain (mkCtx (c_opts cx) (c_fs cx) (c_pile cx ++ [fr1]) file) code (fr2 :: rest).
Proof.
  intros cx cmds fr1 fr2 rest H. inversion H as [|cx0 cmds0 cur l2 file code rest0 Hin HC Hch]; subst.
  destruct HC as (cb & Hcb & Hcall). exists cb, file, code. cbn [fr_file fr_line].
  destruct (stack_chain_head _ _ _ Hch) as (cur2 & l2' & rest2 & Heq & Hin2). cbn [c_file] in Heq.
  injection Heq as -> ->. cbn [fr_file fr_line]. repeat split; try assumption.
Qed.

(* the innermost entry names the command at fault: it is the current line of the stack whose
   pile is everything before it *)
Lemma stack_chain_last : forall cx cmds suffix, stack_chain cx cmds suffix ->
  exists cxL cmdsL cur l2 pre,
    suffix = pre ++ [mkFrame (c_file cxL) cur l2] /\ c_pile cxL = c_pile cx ++ pre /\
    In cur (top_lines cmdsL) /\ c_opts cxL = c_opts cx /\ c_fs cxL = c_fs cx.
Proof.
  intros cx cmds suffix H.
  induction H as [cx cmds cur l2 Hin|cx cmds cur l2 file code rest Hin HC Hch IH].
  - exists cx, cmds, cur, l2, []. repeat split; try reflexivity; [rewrite app_nil_r; reflexivity|exact Hin].
  - destruct IH as (cxL & cmdsL & curL & l2L & pre & Hs & Hp & HinL & Ho & Hf).
    cbn [c_pile c_opts c_fs] in Hp, Ho, Hf.
    exists cxL, cmdsL, curL, l2L, (mkFrame (c_file cx) cur l2 :: pre). repeat split.
    + rewrite Hs. reflexivity.
    + rewrite Hp. unfold here. rewrite <- app_assoc. reflexivity.
    + exact HinL.
    + exact Ho.
    + exact Hf.
Qed.

Theorem run_trace_chain : forall d cx g e cmds g' err fr,
  run fo d cx g e cmds = (g', IErr _ err (Some fr)) ->
  exists suffix, fr = c_pile cx ++ suffix /\ stack_chain cx cmds suffix /\ (length suffix <= S d)%nat.
Proof. intros d cx g e cmds g' err fr E. apply run_raised_by in E. apply raised_by_chain. exact E. Qed.

Theorem run_trace_ok : forall d cx g e cmds g' err fr,
  run fo d cx g e cmds = (g', IErr _ err (Some fr)) ->
  exists suffix, fr = c_pile cx ++ suffix /\ suffix <> [].
Proof.
  intros d cx g e cmds g' err fr E. apply run_trace_chain in E. destruct E as (suffix & Hfr & Hch & _).
  exists suffix. split; [exact Hfr|]. apply stack_chain_head in Hch. destruct Hch as (cur & l2 & rest & -> & _).
  discriminate.
Qed.

Theorem run_trace_innermost : forall d cx g e cmds g' err fr,
  run fo d cx g e cmds = (g', IErr _ err (Some fr)) ->
  exists cxL cmdsL cur l2,
    fr = c_pile cxL ++ [mkFrame (c_file cxL) cur l2] /\ In cur (top_lines cmdsL) /\
    (exists pre, c_pile cxL = c_pile cx ++ pre /\ (length pre <= d)%nat).
Proof.
  intros d cx g e cmds g' err fr E. apply run_trace_chain in E. destruct E as (suffix & Hfr & Hch & Hlen).
  apply stack_chain_last in Hch. destruct Hch as (cxL & cmdsL & cur & l2 & pre & Hs & Hp & Hin & _ & _).
  exists cxL, cmdsL, cur, l2. split; [rewrite Hfr, Hs, Hp, app_assoc; reflexivity|]. split; [exact Hin|].
  exists pre. split; [exact Hp|]. rewrite Hs, app_length in Hlen. cbn [length] in Hlen. lia.
Qed.

(* ------------------------------------------------------------------ Compiler.compile *)
Theorem compile_items_trace : forall o fs file cmds g err fr,
  compile_items fo o fs file cmds = (g, IErr _ err (Some fr)) ->
  exists c n l2 rest,
    fr = mkFrame file (c, n) l2 :: rest /\ In (Ln c n) cmds /\ is_blank c = false /\
    (length rest <= run_depth o)%nat /\
    stack_chain (mkCtx o fs [] file) cmds fr.
Proof.
  intros o fs file cmds g err fr E. unfold compile_items in E.
  destruct (run _ _ _ _ _ _) as [g0 [[cr e]|er t|k|]] eqn:Er; try discriminate.
  injection E as <- <- ->. apply run_trace_chain in Er. cbn [c_pile app] in Er.
  destruct Er as (suffix & -> & Hch & Hlen).
  destruct (stack_chain_head _ _ _ Hch) as ([c n] & l2 & rest & Hs & Hin). cbn [c_file] in Hs. subst suffix.
  apply top_lines_In in Hin. destruct Hin as [Hin Hb].
  exists c, n, l2, rest. repeat split; try assumption. cbn [length] in Hlen. lia.
Qed.

Theorem compile_text_trace : forall o fs file text g err fr,
  compile_text fo o fs file text = (g, IErr _ err (Some fr)) ->
  exists cmds c n l2 rest,
    prepare_text text = TOk cmds /\
    fr = mkFrame file (c, n) l2 :: rest /\ In (Ln c n) cmds /\ is_blank c = false /\
    (length rest <= run_depth o)%nat.
Proof.
  intros o fs file text g err fr E. unfold compile_text in E.
  destruct (prepare_text text) as [cmds|[| | | |]]; try discriminate.
  apply compile_items_trace in E. destruct E as (c & n & l2 & rest & H1 & H2 & H3 & H4 & _).
  exists cmds, c, n, l2, rest. repeat split; assumption.
Qed.

End Trace.
