(* Print erasure, END TO END (C18e + C12e): the files of a program and the files of the erased
   program, both rendered on disk and given to Compiler.compile: same output texts, same final
   variables and flag; the erased program prints nothing. *)
From Coq Require Import NArith ZArith List Bool Lia.
From DS Require Import Base PyStr Values Expr TabParse Tables Constants Interp ImportGraph.
From DS Require Import BlockTree CoreLang CoreWf CoreRefine CoreText CoreTextParse CoreFunc CoreAll CoreAllText CoreAllErase.
From DS Require Import CoreAllLines CoreAllBase CoreAllRefine CoreAllTop CoreAllFs CoreAllTextForest CoreAllTextParse CoreAllSim CoreAllEraseProofs.
Import ListNotations.

Arguments IOk {A}. Arguments IErr {A}.
Arguments e_sys : clear implicits. Arguments e_user : clear implicits. Arguments e_temp : clear implicits.
Arguments e_funcs : clear implicits. Arguments mkEnv : clear implicits.

Lemma lookup_erase_prog_eq : forall prog m, lookup m (erase_prog prog) = option_map erase_prints (lookup m prog).
Proof.
  induction prog as [|[k s] r IH]; intro m; [reflexivity|].
  cbn [erase_prog map lookup fst snd]. destruct (str_eqb m k); [reflexivity|exact (IH m)].
Qed.

(* no file has a body made of prints only *)
Definition prog_erase_safe (prog : program) : Prop :=
  forall m stmts, lookup m prog = Some stmts -> erase_safe_list stmts.

Theorem erase_prog_wf : forall prog, prog_wf prog -> prog_erase_safe prog -> prog_wf (erase_prog prog).
Proof.
  intros prog Hw Hs m s2 Hl. rewrite lookup_erase_prog_eq in Hl.
  destruct (lookup m prog) as [stmts|] eqn:E; [|discriminate]. injection Hl as <-.
  destruct (Hw m stmts E) as [Hwf Hp]. split; [exact (erase_prints_wf stmts Hwf (Hs m stmts E))|exact (erase_prints_plain stmts Hp)].
Qed.

Theorem erase_files : forall (fo : FloatOps) (u : str) (dir : path) (prog : program) o entry d sg Fs' f' vs' out ev,
  wf_unit u -> no_nl u -> prog_wf prog -> prog_erase_safe prog ->
  uruns fo prog (include_comments o) (supress_command_not_exist o) entry d sg Fs' f' vs' out ev ->
  (Z.of_nat d < stack_limit o)%Z ->
  exists stmts ol1 ol2 F1 F2 g1 g2 ws2,
    lookup entry prog = Some stmts /\
    map o_text ol1 = map line_text out /\ map o_text ol2 = map line_text out /\
    (* the program as it is *)
    compile_text fo o (fs_of u dir prog) (Some (file_of dir entry)) (utext_of u stmts) =
    (g1, IOk (mkCompiled fo ol1 (map (CoreAllBase.conc_warning dir) (warnings_of ev))
                (mkEnv fo (initial_sys fo) vs' (flag_var fo f') F1)
                (map (CoreAllBase.conc_print dir) (prints_of ev)))) /\
    (* the program without its prints *)
    compile_text fo o (fs_of u dir (erase_prog prog)) (Some (file_of dir entry)) (utext_of u (erase_prints stmts)) =
    (g2, IOk (mkCompiled fo ol2 ws2 (mkEnv fo (initial_sys fo) vs' (flag_var fo f') F2) [])).
Proof.
  intros fo u dir prog o entry d sg Fs' f' vs' out ev Hu Hnl Hw Hs Hrun Hd.
  destruct (refinement_files fo u dir prog o entry d sg Fs' f' vs' out ev Hu Hnl Hw Hrun Hd)
    as (stmts & ol1 & F1 & Hlk & Ho1 & _ & E1).
  destruct (erase_uruns fo prog _ _ entry d sg Fs' f' vs' out ev Hrun) as (Fs2 & ev2 & Hrun2 & _ & _ & Hnp).
  destruct (refinement_files fo u dir (erase_prog prog) o entry d sg Fs2 f' vs' out ev2 Hu Hnl
              (erase_prog_wf prog Hw Hs) Hrun2 Hd) as (stmts2 & ol2 & F2 & Hlk2 & Ho2 & _ & E2).
  rewrite lookup_erase_prog_eq, Hlk in Hlk2. injection Hlk2 as <-.
  rewrite Hnp in E2. cbn [map] in E2.
  exists stmts, ol1, ol2, F1, F2. do 3 eexists.
  split; [exact Hlk|]. split; [exact Ho1|]. split; [exact Ho2|]. split; [exact E1|exact E2].
Qed.
