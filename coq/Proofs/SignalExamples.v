(* Computed witnesses (program text in, output lines out) for the "any depth" C06 / C07 theorems:
   control lines reached through three levels of nesting, aliases in mixed casing.  Evaluated
   with vm_compute on Compiler.compile of the model, dummy FloatOps [fo0] (Proofs/C07Examples.v). *)
From Coq Require Import String Ascii NArith ZArith List Bool.
From DS Require Import Base PyStr Values Expr TabParse Tables Constants Interp.
From DS Require Import ChainLoopExamples C07Examples.
Import ListNotations.
Open Scope string_scope.
Open Scope list_scope.

Definition sig_run (lines : list string) : (list str * nat) + option errcls :=
  show (compile_text fo0 o0 (fun _ => None) None (prog lines)).
Definition T2 (s : string) := T (T s).
Definition T3 (s : string) := T (T (T s)).
Definition T4 (s : string) := T (T (T (T s))).
Definition T5 (s : string) := T (T (T (T (T s)))).
Definition lits (l : list string) : list str := map lit l.

(* BREAK_LOOP under three taken IF arms inside the inner REPEAT: the inner loop stops in its
   iteration 1, everything emitted before the break (a b c d, outermost first) is kept, the rest
   of the arms (never1, never2, e, f) is not run, the outer loop goes on (x, second round) *)
Example break_depth3 :
  sig_run ["REPEAT 2";
           T "STRING o";
           T "REPEAT i,3";
           T2 "STRING a";
           T2 "IF TRUE";
           T3 "STRING b";
           T3 "IF i==1";
           T4 "STRING c";
           T4 "if TRUE";
           T5 "STRING d";
           T5 "Break_Loop";
           T5 "STRING never1";
           T4 "STRING never2";
           T3 "STRING e";
           T2 "STRING f";
           T "STRING x";
           "STRING end"]
  = inl (lits ["STRING o"; "STRING a"; "STRING b"; "STRING e"; "STRING f";
               "STRING a"; "STRING b"; "STRING c"; "STRING d"; "STRING x";
               "STRING o"; "STRING a"; "STRING b"; "STRING e"; "STRING f";
               "STRING a"; "STRING b"; "STRING c"; "STRING d"; "STRING x";
               "STRING end"], 0).
Proof. vm_compute. reflexivity. Qed.

(* the same in a WHILE, through an ELSE arm and an ELIF arm *)
Example break_depth3_while :
  sig_run ["WHILE i,i<5";
           T "STRING a";
           T "IF i==0";
           T2 "STRING zero";
           T "ELSE";
           T2 "STRING b";
           T2 "IF FALSE";
           T3 "STRING no";
           T2 "ELIF i==1";
           T3 "STRING c";
           T3 "IF TRUE";
           T4 "BREAKLOOP";
           T3 "STRING never";
           T "STRING f";
           "STRING end"]
  = inl (lits ["STRING a"; "STRING zero"; "STRING f"; "STRING a"; "STRING b"; "STRING c"; "STRING end"], 0).
Proof. vm_compute. reflexivity. Qed.

(* CONTINUE_LOOP under three IF arms: only iteration 1 is cut short, iteration 2 runs next *)
Example continue_depth3 :
  sig_run ["REPEAT i,3";
           T "STRING a";
           T "IF TRUE";
           T2 "IF i==1";
           T3 "STRING c";
           T3 "IF TRUE";
           T4 "continue_loop";
           T3 "STRING never";
           T "STRING f";
           "STRING end"]
  = inl (lits ["STRING a"; "STRING f"; "STRING a"; "STRING c"; "STRING a"; "STRING f"; "STRING end"], 0).
Proof. vm_compute. reflexivity. Qed.

Example continue_alias_depth3 :
  sig_run ["WHILE i,i<3";
           T "STRING a";
           T "IF TRUE";
           T2 "IF i==1";
           T3 "IF TRUE";
           T4 "Continue";
           T "STRING f";
           "STRING end"]
  = inl (lits ["STRING a"; "STRING f"; "STRING a"; "STRING a"; "STRING f"; "STRING end"], 0).
Proof. vm_compute. reflexivity. Qed.

(* RET reached through REPEAT iteration 1 / IF / WHILE iteration 0 / IF inside the function: both
   loops and the function end, the caller (itself in a loop) goes on with the next command *)
Example return_depth_mixed :
  sig_run ["FUNC f";
           T "STRING s";
           T "REPEAT i,3";
           T2 "STRING a";
           T2 "IF i==1";
           T3 "WHILE TRUE";
           T4 "STRING w";
           T4 "IF TRUE";
           T5 "ret";
           T4 "STRING never";
           T2 "STRING b";
           T "STRING never2";
           "REPEAT 2";
           T "RUN f";
           T "STRING after"]
  = inl (lits ["STRING s"; "STRING a"; "STRING b"; "STRING a"; "STRING w"; "STRING after";
               "STRING s"; "STRING a"; "STRING b"; "STRING a"; "STRING w"; "STRING after"], 0).
Proof. vm_compute. reflexivity. Qed.

(* RETURN outside any function, three levels down: the program ends successfully, no warning *)
Example return_program_depth3 :
  sig_run ["STRING a";
           "IF TRUE";
           T "REPEAT 2";
           T2 "STRING b";
           T2 "IF TRUE";
           T3 "RETURN";
           T2 "STRING never";
           T "STRING never";
           "STRING never"]
  = inl (lits ["STRING a"; "STRING b"], 0).
Proof. vm_compute. reflexivity. Qed.

(* BREAKLOOP under three IF arms in a function, no loop inside the function: the RUN line fails,
   although the RUN line itself is inside a loop of the caller *)
Example break_escapes_function_depth3 :
  sig_run ["FUNC f";
           T "IF TRUE";
           T2 "IF TRUE";
           T3 "IF TRUE";
           T4 "BREAKLOOP";
           "REPEAT 2";
           T "STRING a";
           T "RUN f"]
  = inr (Some EStackReturnType).
Proof. vm_compute. reflexivity. Qed.

Example continue_escapes_function_depth3 :
  sig_run ["FUNC f";
           T "IF TRUE";
           T2 "IF TRUE";
           T3 "IF TRUE";
           T4 "CONTINUELOOP";
           "WHILE TRUE";
           T "RUN f"]
  = inr (Some EStackReturnType).
Proof. vm_compute. reflexivity. Qed.

(* BREAKLOOP outside any loop and function ends the program with one warning *)
Example break_top_level_warns :
  sig_run ["STRING a"; "IF TRUE"; T "IF TRUE"; T2 "BREAKLOOP"; "STRING never"]
  = inl (lits ["STRING a"], 1).
Proof. vm_compute. reflexivity. Qed.

(* a control line followed by an indented block is NOT a control line that is reached: the block
   is its argument list and the line is rejected (hence [block_after post = None] in rule (1)) *)
Example control_line_with_block_is_rejected :
  sig_run ["REPEAT 2"; T "BREAKLOOP"; T2 "x"; "STRING end"] = inr (Some EInvalidArguments).
Proof. vm_compute. reflexivity. Qed.

(* the side condition [stack_full cx = false] of the path rules is necessary: REPEAT / IF / IF is
   three stacks above the main one *)
Example stack_limit_matters :
  show (compile_text fo0 (mkOptions 3 false false false false) (fun _ => None) None
          (prog ["REPEAT 2"; T "IF TRUE"; T2 "IF TRUE"; T3 "BREAKLOOP"; "STRING end"]))
  = inr (Some EStackOverflow)
  /\ show (compile_text fo0 (mkOptions 4 false false false false) (fun _ => None) None
          (prog ["REPEAT 2"; T "IF TRUE"; T2 "IF TRUE"; T3 "BREAKLOOP"; "STRING end"]))
  = inl (lits ["STRING end"], 0).
Proof. split; vm_compute; reflexivity. Qed.
