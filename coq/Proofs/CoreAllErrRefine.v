(* The interpreter implements the ERROR JUDGEMENT of Spec/CoreAllErr.v: when
   [fails d pile cf n F f vs s er chain ev] is derivable and the stack context has room for exactly
   d more stacks, Stack.run (exec_cmds) returns the compile error of class er whose trace is
   EXACTLY the frames of [pile ++ chain] (file, line text, line number, second line), in a state
   whose glob is the initial one plus the events ev (prints and warnings survive the failure).
   Mutual induction on the derivation; the success premises go through CoreAllRefine.refine_all. *)
From Coq Require Import NArith ZArith List Bool Lia.
From DS Require Import Base PyStr Values Expr TabParse Tables Constants Interp IdentSpec IdentProofs.
From DS Require Import ScopeProofs LimitProofs ChainProofs LoopUnroll LoopBlock.
From DS Require Import PipelineProofs GroupProofs DollarForm NameChecks UnknownWarn RunProofs FuncProofs.
From DS Require Import ResolveSpec StartLaws StartLines ImportGraph GraphText.
From DS Require Import CoreLang CoreWf CoreLines CoreRefine CoreFunc CoreFuncLines CoreFuncRefine.
From DS Require Import CoreErr CoreErrLines.
From DS Require Import CoreAll CoreAllLines CoreAllBase CoreAllRefine CoreAllTop CoreAllErr CoreAllErrLines.
Import ListNotations.

Arguments IOk {A}. Arguments IErr {A}. Arguments ICrash {A}. Arguments IUnmod {A}.
Arguments s_g {fo}. Arguments s_env {fo}. Arguments s_line2 {fo}. Arguments mkSt {fo}.
Arguments e_sys : clear implicits. Arguments e_user : clear implicits. Arguments e_temp : clear implicits.
Arguments e_funcs : clear implicits. Arguments mkEnv : clear implicits.

(* ================================================================== the room above a stack *)
(* exactly d more stacks fit above the stack cx under its stack limit; the model depth dd suffices *)
Definition room (dd : nat) (cx : ctx) (d : nat) : Prop :=
  (d <= dd)%nat /\ (Z.of_nat (length (c_pile cx)) + Z.of_nat d + 1 = stack_limit (c_opts cx))%Z.

Lemma room_meaning : forall dd cx d,
  room dd cx d <->
  ((d <= dd)%nat /\ (Z.of_nat (length (c_pile cx)) + Z.of_nat d + 1 = stack_limit (c_opts cx))%Z).
Proof. intros. reflexivity. Qed.

Lemma room_fits : forall dd cx d, room dd cx d -> fits dd cx d.
Proof. intros dd cx d [H1 H2]. split; lia. Qed.

Lemma room_0 : forall dd cx, room dd cx 0 ->
  cmp_eval stack_limit_op (pile_len cx) (stack_limit (c_opts cx)) = true.
Proof. intros dd cx [_ H]. apply limit_check_refuses. lia. Qed.

Lemma room_S : forall dd cx d, room dd cx (S d) ->
  exists dd', dd = S dd' /\
    cmp_eval stack_limit_op (pile_len cx) (stack_limit (c_opts cx)) = false /\
    forall cur l2 file, room dd' (inner_cx cx cur l2 file) d.
Proof.
  intros dd cx d [H1 H2]. destruct dd as [|dd']; [lia|]. exists dd'. split; [reflexivity|]. split.
  - apply limit_check_passes. lia.
  - intros cur l2 file. split; [lia|]. unfold inner_cx. cbn [c_pile c_opts]. rewrite here_length. lia.
Qed.

Section Refine.
Variable fo : FloatOps.
Variable sys : store fo.
Hypothesis Hsys : nodup_keys sys.
Variable dir : path.
Variable prog : program.
Variable inc sup : bool.
Variable fs : fsys.
Hypothesis Hprog : prog_ok dir prog fs.
(* a file that is not in the program is not in the file system *)
Definition prog_closed : Prop := forall m, name_ok m = true -> lookup m prog = None -> fs (file_of dir m) = None.
Hypothesis Hmiss : prog_closed.

Notation value := (value fo).
Notation env := (env fo).
Notation st := (st fo).
Notation R := (CoreRefine.R fo sys).
Notation state_of := (CoreRefine.state_of fo sys).
Notation child_of := (CoreRefine.child_of fo).
Notation RR := (CoreAllBase.RR fo sys dir).
Notation apply_evs := (CoreAllBase.apply_evs dir).
Notation conc_frame := (CoreAllBase.conc_frame dir).
Notation cx_ok := (CoreAllRefine.cx_ok dir inc sup fs).
Notation exec := (CoreAll.exec fo sys prog inc sup).
Notation exec_list := (CoreAll.exec_list fo sys prog inc sup).
Notation fails := (CoreAllErr.fails fo sys prog inc sup).
Notation fails_list := (CoreAllErr.fails_list fo sys prog inc sup).
Notation fails_arms := (CoreAllErr.fails_arms fo sys prog inc sup).
Notation fails_repeat := (CoreAllErr.fails_repeat fo sys prog inc sup).
Notation fails_while := (CoreAllErr.fails_while fo sys prog inc sup).
Notation later_fails := (CoreAllErr.later_fails fo sys).
Notation eval_err := (CoreErr.eval_err fo sys).
Notation Q_exec := (CoreAllRefine.P_exec fo sys dir inc sup fs).
Notation Q_list := (CoreAllRefine.P_list fo sys dir inc sup fs).
Notation all_ok := (CoreAllRefine.refine_all fo sys Hsys dir prog inc sup fs Hprog).

(* the result is the error er with trace (pile of cx) ++ (frames of ch), glob g *)
Definition fail_res {A} (cx : ctx) (g : glob) (er : errcls) (ch : list sframe) (r : st * ires A) : Prop :=
  exists s', r = (s', IErr er (Some (c_pile cx ++ map conc_frame ch))) /\ s_g s' = g.

Lemma fail_res_bind : forall A B cx g er ch (m : M fo A) (k : A -> M fo B) s,
  fail_res cx g er ch (m s) -> fail_res cx g er ch (bindM fo m k s).
Proof.
  intros A B cx g er ch m k s (s' & E & Hg). exists s'. unfold bindM. rewrite E. split; [reflexivity|exact Hg].
Qed.

Lemma fail_res_here : forall A pile cf cx g er c n (inl : bool) (s' : st),
  cx_ok pile cf cx -> s_g s' = g ->
  @fail_res A cx g er [mkSF cf c n inl] (s', IErr er (Some (here cx (c, n) (if inl then Some (c, n) else None)))).
Proof.
  intros A pile cf cx g er c n inl s' (_ & Hfile & _) Hg. exists s'. split; [|exact Hg].
  unfold here. rewrite Hfile. reflexivity.
Qed.

Lemma RR_g : forall g Fs f vs s, RR g Fs f vs s -> s_g s = g.
Proof. intros g Fs f vs s (F & (H & _) & _). exact H. Qed.

Lemma RR_err : forall g Fs f vs s e er, RR g Fs f vs s -> eval_err f vs e er ->
  tokenize fo (all_vars fo (s_env s)) e = Err er.
Proof. intros g Fs f vs s e er (F & HR & _) He. rewrite (all_vars_R fo sys g F f vs s HR). exact He. Qed.

Lemma RR_clear : forall g Fs f vs s, RR g Fs f vs s -> RR g Fs f vs (clear_line2 fo s).
Proof. intros g Fs f vs s H. exact H. Qed.

(* ------------------------------------------------------------------ concrete form under uwfx *)
Lemma uwfx_items_nonempty : forall s n, uwfx s -> ustmt_items n s <> [].
Proof.
  intros s n H. destruct s; try discriminate.
  rewrite ustmt_items_if. destruct arms as [|[c b] r]; [destruct H as [H _]; contradiction|discriminate].
Qed.

Lemma uwfx_list_items_nonempty : forall p n, p <> [] -> uwfx_list p -> uitems_from n p <> [].
Proof.
  intros [|s r] n Hne H; [contradiction|]. destruct H as [Hs _].
  rewrite uitems_from_cons. intro E. apply app_eq_nil in E. destruct E as [E _].
  exact (uwfx_items_nonempty s n Hs E).
Qed.

Lemma uarms_okx : forall arms first n els,
  all_list uwfx_arm arms -> uwfx_else els -> Forall arm_ok (uarms_of first n arms els).
Proof.
  induction arms as [|[c b] r IH]; intros first n els Ha He.
  - cbn. destruct els as [b|]; [|constructor]. destruct He as [Hne Hwf].
    constructor; [|constructor]. apply else_arm_ok. apply uwfx_list_items_nonempty; assumption.
  - destruct Ha as [(Hc & Hne & Hwf) Hr]. cbn [uarms_of]. constructor.
    + apply cond_arm_ok; [destruct first; discriminate|apply expr_ok_blank; exact Hc|].
      apply uwfx_list_items_nonempty; assumption.
    + apply IH; assumption.
Qed.

(* ------------------------------------------------------------------ the statements proved by the induction *)
Definition P_fails (d0 : nat) (pile : list sframe) (cf : str) (n : Z) (Fs : utable) (f : option bool) (vs : store fo)
           (stm : ustmt) (er : errcls) (ch : list sframe) (ev : list event) : Prop :=
  forall dd cx rest acc s g,
    RR g Fs f vs s -> uwfx stm -> room dd cx d0 -> cx_ok pile cf cx -> head_ok rest ->
    fail_res cx (apply_evs ev g) er ch (exec_cmds fo (child_of dd) cx (ustmt_items n stm ++ rest) acc s).

Definition P_fails_list (d0 : nat) (pile : list sframe) (cf : str) (n : Z) (Fs : utable) (f : option bool) (vs : store fo)
           (p : list ustmt) (er : errcls) (ch : list sframe) (ev : list event) : Prop :=
  forall dd cx acc s g,
    RR g Fs f vs s -> uwfx_list p -> room dd cx d0 -> cx_ok pile cf cx ->
    fail_res cx (apply_evs ev g) er ch (exec_cmds fo (child_of dd) cx (uitems_from n p) acc s).

Definition P_fails_arms (d0 : nat) (pile : list sframe) (cf : str) (first : bool) (n : Z) (Fs : utable) (b : bool)
           (vs : store fo) (arms : list (str * list ustmt)) (els : option (list ustmt))
           (er : errcls) (ch : list sframe) (ev : list event) : Prop :=
  forall dd cx rest acc s g,
    (if first then exists f, RR g Fs f vs s /\ b = flag_or_false f /\ arms <> []
     else RR g Fs (Some false) vs s /\ b = false) ->
    all_list uwfx_arm arms -> uwfx_else els -> room dd cx d0 -> cx_ok pile cf cx ->
    fail_res cx (apply_evs ev g) er ch (exec_cmds fo (child_of dd) cx (uarms_items first n arms els ++ rest) acc s).

Definition P_fails_repeat (d0 : nat) (pile : list sframe) (cf : str) (n : Z) (Fs : utable) (f : option bool)
           (c : option str) (e : str) (body : list ustmt) (k : Z) (vs : store fo)
           (er : errcls) (ch : list sframe) (ev : list event) : Prop :=
  forall dd cx fuel a s g,
    RR g Fs f vs s -> s_line2 s = None -> CoreWf.counter_ok c -> body <> [] -> uwfx_list body ->
    room dd cx d0 -> cx_ok pile cf cx ->
    (loop_max - k < Z.of_nat fuel)%Z ->
    fail_res cx (apply_evs ev g) er ch
      (repeat_loop fo (child_of dd) cx (repeat_head c e, n) fuel c e (uitems_from (n + 1) body) k (mkCret a SNormal) s).

Definition P_fails_while (d0 : nat) (pile : list sframe) (cf : str) (n : Z) (Fs : utable)
           (c : option str) (e : str) (body : list ustmt) (k : Z) (vs : store fo)
           (er : errcls) (ch : list sframe) (ev : list event) : Prop :=
  forall dd cx fuel a s g f,
    RR g Fs f vs s -> s_line2 s = None -> CoreWf.counter_ok c -> body <> [] -> uwfx_list body ->
    room dd cx d0 -> cx_ok pile cf cx ->
    (loop_max - k < Z.of_nat fuel)%Z ->
    fail_res cx (apply_evs ev g) er ch
      (while_loop fo (child_of dd) cx (while_head c e, n) fuel c e (uitems_from (n + 1) body) k (mkCret a SNormal) s).

(* ------------------------------------------------------------------ entering a stack *)
(* no room: the stack is refused *)
Lemma block_overflow : forall A dd cx text num code file par setup pre (s : st) g pile cf (inl : bool)
    (k : option cret -> M fo A),
  room dd cx 0 -> cx_ok pile cf cx -> s_g s = g ->
  s_line2 s = (if inl then Some (text, num) else None) ->
  fail_res cx g EStackOverflow [mkSF cf text num inl]
    (bindM fo (run_child_with fo (child_of dd) cx (text, num) code file par setup pre) k s).
Proof.
  intros A dd cx text num code file par setup pre s g pile cf inl k Hroom Hcx Hg Hl2.
  apply fail_res_bind. unfold run_child_with. rewrite (room_0 dd cx Hroom), Hl2.
  apply (fail_res_here (option cret) pile cf cx g EStackOverflow text num inl s Hcx Hg).
Qed.

(* a body that fails inside its block *)
Lemma body_block_err : forall d0 dd cx text num body setup pre s g Fs f vs inner er ch ev pile cf,
  P_fails_list d0 (pile ++ [mkSF cf text num false]) cf (num + 1) Fs None inner body er ch ev ->
  RR g Fs f vs s -> s_line2 s = None -> uwfx_list body -> room dd cx (S d0) -> cx_ok pile cf cx -> nodup_keys inner ->
  (forall F', setup (mkEnv fo sys vs [] F') = Ok (mkEnv fo sys inner [] F')) ->
  (forall F', pre (mkEnv fo sys inner [] F') = Ok true) ->
  fail_res cx (apply_evs ev g) er (mkSF cf text num false :: ch)
    (run_child_with fo (child_of dd) cx (text, num) (uitems_from (num + 1) body) (c_file cx) false setup pre s).
Proof.
  intros d0 dd cx text num body setup pre s g Fs f vs inner er ch ev pile cf
         IH (F & HR & Ht) Hl2 Hwf Hroom Hcx Hnd Hsetup Hpre.
  destruct (room_S dd cx _ Hroom) as (dd' & -> & Hlim & Hroom').
  assert (HRin : RR g Fs None inner (state_of g F None inner None)).
  { exists F. split; [apply state_of_R; exact Hnd|exact Ht]. }
  destruct (IH dd' (inner_cx cx (text, num) None (c_file cx)) [] (state_of g F None inner None) g HRin Hwf
               (Hroom' (text, num) None (c_file cx)) (cx_ok_block dir inc sup fs pile cf cx text num Hcx))
    as (s2 & E & Hg2).
  pose proof HR as (H1 & _). pose proof Hcx as (_ & Hfile & _).
  exists (mkSt (apply_evs ev g) (s_env s) (s_line2 s)). split; [|reflexivity].
  unfold run_child_with. rewrite Hlim, (entry_env_tab fo sys Hsys g F f vs s HR (proj2 (proj2 Ht))), Hsetup, Hpre.
  cbn [CoreRefine.child_of]. rewrite CoreRefine.run_child_of. unfold run_with.
  unfold inner_cx, CoreRefine.state_of in E. cbn [flag_var c_pile c_file] in E. rewrite Hl2, H1.
  cbn [c_opts c_fs] in E |- *. rewrite E, Hg2.
  unfold here. rewrite <- app_assoc, Hfile. reflexivity.
Qed.

Lemma body_block_plain_err : forall d0 dd cx text num body s g Fs f vs er ch ev pile cf,
  P_fails_list d0 (pile ++ [mkSF cf text num false]) cf (num + 1) Fs None vs body er ch ev ->
  RR g Fs f vs s -> s_line2 s = None -> uwfx_list body -> room dd cx (S d0) -> cx_ok pile cf cx ->
  fail_res cx (apply_evs ev g) er (mkSF cf text num false :: ch)
    (run_child fo (child_of dd) cx (text, num) (uitems_from (num + 1) body) (c_file cx) false (fun e => Ok e) s).
Proof.
  intros d0 dd cx text num body s g Fs f vs er ch ev pile cf IH HR Hl2 Hwf Hroom Hcx.
  unfold run_child. apply fail_res_bind.
  exact (body_block_err d0 dd cx text num body (fun e => Ok e) (fun _ => Ok true) s g Fs f vs vs er ch ev pile cf
           IH HR Hl2 Hwf Hroom Hcx (RR_nodup fo sys dir g Fs f vs s HR) (fun _ => eq_refl) (fun _ => eq_refl)).
Qed.

(* ------------------------------------------------------------------ simple statements *)
Lemma case_f_emit_eval : forall d0 pile cf n Fs f vs name e er,
  eval_err f vs e er ->
  P_fails d0 pile cf n Fs f vs (UEmitEval name e) er [mkSF cf (dollar_c :: name ++ sp :: e) n true] [].
Proof.
  intros d0 pile cf n Fs f vs name e er Hv dd cx rest acc s g HR Hwf _ Hcx Hh. destruct Hwf as [Hname He].
  cbn [ustmt_items app].
  rewrite (emit_eval_line_err fo (child_of dd) cx name e n rest acc s er Hname He Hh (RR_err g Fs f vs s e er HR Hv)).
  apply (fail_res_here cret pile cf cx g er _ n true); [exact Hcx|exact (RR_g g Fs f vs s HR)].
Qed.

Lemma case_f_var_expr : forall d0 pile cf n Fs f vs x e er,
  eval_err f vs e er ->
  P_fails d0 pile cf n Fs f vs (UVar x e) er [mkSF cf (kw_VAR ++ sp :: x ++ sp :: e) n true] [].
Proof.
  intros d0 pile cf n Fs f vs x e er Hv dd cx rest acc s g HR Hwf _ Hcx Hh. destruct Hwf as [Hx He].
  cbn [ustmt_items app].
  rewrite (var_line_expr_err fo (child_of dd) cx x e n rest acc s er Hx He Hh (RR_err g Fs f vs s e er HR Hv)).
  apply (fail_res_here cret pile cf cx g er _ n true); [exact Hcx|exact (RR_g g Fs f vs s HR)].
Qed.

Lemma case_f_var_name : forall d0 pile cf n Fs f vs x e v,
  eval fo sys f vs e v -> identb x = false ->
  P_fails d0 pile cf n Fs f vs (UVar x e) EUnacceptableVarName [mkSF cf (kw_VAR ++ sp :: x ++ sp :: e) n true] [].
Proof.
  intros d0 pile cf n Fs f vs x e v Hv Hid dd cx rest acc s g HR Hwf _ Hcx Hh. destruct Hwf as [Hx He].
  cbn [ustmt_items app].
  rewrite (var_line_name_err fo (child_of dd) cx x e n rest acc s v Hx He Hh (RR_eval fo sys dir g Fs f vs s e v HR Hv) Hid).
  apply (fail_res_here cret pile cf cx g EUnacceptableVarName _ n true); [exact Hcx|exact (RR_g g Fs f vs s HR)].
Qed.

Lemma case_f_print_eval : forall d0 pile cf n Fs f vs e er,
  eval_err f vs e er ->
  P_fails d0 pile cf n Fs f vs (UPrintEval e) er [mkSF cf (print_eval_head e) n true] [].
Proof.
  intros d0 pile cf n Fs f vs e er Hv dd cx rest acc s g HR Hwf _ Hcx Hh. cbn [uwfx uwf] in Hwf.
  cbn [ustmt_items app].
  rewrite (print_eval_line_err fo (child_of dd) cx e n rest acc s er Hwf Hh (RR_err g Fs f vs s e er HR Hv)).
  apply (fail_res_here cret pile cf cx g er _ n true); [exact Hcx|exact (RR_g g Fs f vs s HR)].
Qed.

(* ------------------------------------------------------------------ statement lists *)
Lemma case_fl_here : forall d0 pile cf n Fs f vs s r er ch ev,
  P_fails d0 pile cf n Fs f vs s er ch ev -> P_fails_list d0 pile cf n Fs f vs (s :: r) er ch ev.
Proof.
  intros d0 pile cf n Fs f vs stm r er ch ev IH dd cx acc s g HR [Hwf Hwfr] Hroom Hcx.
  rewrite uitems_from_cons.
  exact (IH dd cx (uitems_from (n + usize stm)%Z r) acc s g HR Hwf Hroom Hcx (uitems_from_head r _)).
Qed.

Lemma case_fl_later : forall d0 pile cf n Fs f vs s r F1 f1 vs1 o1 e1 er ch e2,
  exec d0 pile cf n Fs f vs s Normal F1 f1 vs1 o1 e1 -> unames_ok s ->
  P_fails_list d0 pile cf (n + usize s)%Z F1 f1 vs1 r er ch e2 ->
  P_fails_list d0 pile cf n Fs f vs (s :: r) er ch (e1 ++ e2).
Proof.
  intros d0 pile cf n Fs f vs stm r F1 f1 vs1 o1 e1 er ch e2 Hex Hnm IH dd cx acc s g HR [Hwf Hwfr] Hroom Hcx.
  rewrite uitems_from_cons.
  destruct all_ok as (Hexec & _).
  destruct (Hexec _ _ _ _ _ _ _ _ _ _ _ _ _ _ Hex dd cx (uitems_from (n + usize stm)%Z r) acc s g HR
              (uwf_of_uwfx stm Hwf Hnm) (room_fits dd cx _ Hroom) Hcx (uitems_from_head r _))
    as (s1 & ol1 & HR1 & _ & E1).
  rewrite E1. cbn [continue_with]. rewrite CoreAllBase.apply_evs_app.
  exact (IH dd cx (acc ++ ol1) s1 _ HR1 Hwfr Hroom Hcx).
Qed.

(* ------------------------------------------------------------------ REPEAT *)
Lemma case_fr_count : forall d0 pile cf n Fs f c e body k vs er,
  eval_err f vs e er ->
  P_fails_repeat d0 pile cf n Fs f c e body k vs er [mkSF cf (repeat_head c e) n false] [].
Proof.
  intros d0 pile cf n Fs f c e body k vs er Hv dd cx fuel a s g HR Hl2 _ _ _ _ Hcx _.
  pose proof (tokenize_count_err_eval fo cx (repeat_head c e, n) e s er (RR_err g Fs f vs s e er HR Hv)) as Htc.
  rewrite Hl2 in Htc.
  destruct fuel; cbn [repeat_loop]; unfold bindM at 1; rewrite Htc;
    apply (fail_res_here cret pile cf cx g er _ n false); try exact Hcx; exact (RR_g g Fs f vs s HR).
Qed.

Lemma case_fr_notcount : forall d0 pile cf n Fs f c e body k vs v,
  eval fo sys f vs e v -> count_of fo v = None ->
  P_fails_repeat d0 pile cf n Fs f c e body k vs EInvalidArguments [mkSF cf (repeat_head c e) n false] [].
Proof.
  intros d0 pile cf n Fs f c e body k vs v Hv Hn dd cx fuel a s g HR Hl2 _ _ _ _ Hcx _.
  pose proof (tokenize_count_err_kind fo cx (repeat_head c e, n) e s v (RR_eval fo sys dir g Fs f vs s e v HR Hv) Hn) as Htc.
  rewrite Hl2 in Htc.
  destruct fuel; cbn [repeat_loop]; unfold bindM at 1; rewrite Htc;
    apply (fail_res_here cret pile cf cx g EInvalidArguments _ n false); try exact Hcx; exact (RR_g g Fs f vs s HR).
Qed.

Lemma case_fr_range : forall d0 pile cf n Fs f c e body k vs v m,
  eval fo sys f vs e v -> count_of fo v = Some m -> ~ (0 <= m <= loop_max)%Z ->
  P_fails_repeat d0 pile cf n Fs f c e body k vs EInvalidArguments [mkSF cf (repeat_head c e) n false] [].
Proof.
  intros d0 pile cf n Fs f c e body k vs v m Hv Hn Hr dd cx fuel a s g HR Hl2 _ _ _ _ Hcx _.
  pose proof (tokenize_count_err_range fo cx (repeat_head c e, n) e s v m (RR_eval fo sys dir g Fs f vs s e v HR Hv) Hn Hr) as Htc.
  rewrite Hl2 in Htc.
  destruct fuel; cbn [repeat_loop]; unfold bindM at 1; rewrite Htc;
    apply (fail_res_here cret pile cf cx g EInvalidArguments _ n false); try exact Hcx; exact (RR_g g Fs f vs s HR).
Qed.

Lemma case_fr_overflow : forall pile cf n Fs f c e body k vs v m,
  eval fo sys f vs e v -> count_of fo v = Some m -> (0 <= m <= loop_max)%Z -> (k < m)%Z ->
  P_fails_repeat 0 pile cf n Fs f c e body k vs EStackOverflow [mkSF cf (repeat_head c e) n false] [].
Proof.
  intros pile cf n Fs f c e body k vs v m Hv Hn Hrange Hk dd cx fuel a s g HR Hl2 Hc Hne Hwf Hroom Hcx Hfuel.
  pose proof (tokenize_count_ok fo cx (repeat_head c e, n) e s v m (RR_eval fo sys dir g Fs f vs s e v HR Hv) Hn Hrange) as Htc.
  assert (Hlt : (k <? m)%Z = true) by (apply Z.ltb_lt; lia).
  destruct fuel as [|fuel']; [unfold loop_max in *; lia|].
  cbn [repeat_loop]. unfold bindM at 1. rewrite Htc, Hlt. apply fail_res_bind. unfold run_child.
  apply (block_overflow cret dd cx (repeat_head c e) n _ _ _ _ _ s g pile cf false _ Hroom Hcx (RR_g g Fs f vs s HR) Hl2).
Qed.

Lemma case_fr_body : forall d0 pile cf n Fs f c e body k vs v m er ch ev,
  eval fo sys f vs e v -> count_of fo v = Some m -> (0 <= m <= loop_max)%Z -> (k < m)%Z ->
  P_fails_list d0 (pile ++ [mkSF cf (repeat_head c e) n false]) cf (n + 1)%Z Fs None (with_counter fo c k vs) body er ch ev ->
  P_fails_repeat (S d0) pile cf n Fs f c e body k vs er (mkSF cf (repeat_head c e) n false :: ch) ev.
Proof.
  intros d0 pile cf n Fs f c e body k vs v m er ch ev Hv Hn Hrange Hk IHb dd cx fuel a s g HR Hl2 Hc Hne Hwf Hroom Hcx Hfuel.
  pose proof (tokenize_count_ok fo cx (repeat_head c e, n) e s v m (RR_eval fo sys dir g Fs f vs s e v HR Hv) Hn Hrange) as Htc.
  assert (Hlt : (k <? m)%Z = true) by (apply Z.ltb_lt; lia).
  destruct fuel as [|fuel']; [unfold loop_max in *; lia|].
  cbn [repeat_loop]. unfold bindM at 1. rewrite Htc, Hlt. apply fail_res_bind.
  unfold run_child. apply fail_res_bind.
  exact (body_block_err d0 dd cx (repeat_head c e) n body (bind_counter fo c k) (fun _ => Ok true) s g Fs f vs
           (with_counter fo c k vs) er ch ev pile cf IHb HR Hl2 Hwf Hroom Hcx
           (nodup_with_counter fo c k vs (RR_nodup fo sys dir g Fs f vs s HR))
           (fun F' => bind_counter_entry fo sys c k vs F' Hc) (fun _ => eq_refl)).
Qed.

Lemma case_fr_iter : forall d0 pile cf n Fs f c e body k vs v m sg F1 f1 vs1 o1 e1 er ch e2,
  eval fo sys f vs e v -> count_of fo v = Some m -> (0 <= m <= loop_max)%Z -> (k < m)%Z ->
  exec_list d0 (pile ++ [mkSF cf (repeat_head c e) n false]) cf (n + 1)%Z Fs None (with_counter fo c k vs) body
            sg F1 f1 vs1 o1 e1 ->
  goes_on sg -> unames_ok_list body ->
  P_fails_repeat (S d0) pile cf n Fs f c e body (k + 1)%Z (copy_back fo vs vs1) er ch e2 ->
  P_fails_repeat (S d0) pile cf n Fs f c e body k vs er ch (e1 ++ e2).
Proof.
  intros d0 pile cf n Fs f c e body k vs v m sg F1 f1 vs1 o1 e1 er ch e2 Hv Hn Hrange Hk Hex Hsg Hnm IHr
         dd cx fuel a s g HR Hl2 Hc Hne Hwf Hroom Hcx Hfuel.
  pose proof (tokenize_count_ok fo cx (repeat_head c e, n) e s v m (RR_eval fo sys dir g Fs f vs s e v HR Hv) Hn Hrange) as Htc.
  assert (Hlt : (k <? m)%Z = true) by (apply Z.ltb_lt; lia).
  destruct fuel as [|fuel']; [unfold loop_max in *; lia|].
  destruct all_ok as (_ & Hlist & _).
  destruct (body_block_counter fo sys Hsys dir inc sup fs d0 dd cx (repeat_head c e) n body c k s g Fs f vs sg F1 f1 vs1 o1 e1 pile cf
              (Hlist _ _ _ _ _ _ _ _ _ _ _ _ _ _ Hex) HR Hl2 Hc (uwf_list_of_uwfx body Hwf Hnm) (room_fits dd cx _ Hroom) Hcx)
    as (s1 & ol1 & HR1 & Hl1 & Ho1 & Hrun).
  cbn [repeat_loop]. unfold bindM at 1. rewrite Htc, Hlt. unfold bindM at 1. rewrite Hrun.
  cbn [cr_sig cr_data]. rewrite (goes_on_signal sg Hsg). rewrite CoreAllBase.apply_evs_app.
  apply (IHr dd cx fuel' (a ++ ol1) s1 _ HR1 Hl1 Hc Hne Hwf Hroom Hcx). lia.
Qed.

(* ------------------------------------------------------------------ WHILE *)
Notation while_cond := (CoreRefine.while_cond fo).

Lemma while_limit_hit : forall k, (loop_max < k)%Z -> cmp_eval while_limit_op k while_limit = true.
Proof.
  intros k H. unfold while_limit_op, while_limit, loop_max in *. cbn [cmp_eval]. apply Z.ltb_lt. lia.
Qed.

Lemma case_fw_limit : forall d0 pile cf n Fs c e body k vs,
  (loop_max < k)%Z ->
  P_fails_while d0 pile cf n Fs c e body k vs EExceededLimit [mkSF cf (while_head c e) n false] [].
Proof.
  intros d0 pile cf n Fs c e body k vs Hk dd cx fuel a s g f HR Hl2 _ _ _ _ Hcx _.
  destruct fuel; cbn [while_loop]; rewrite (while_limit_hit k Hk); unfold raise; rewrite Hl2;
    apply (fail_res_here cret pile cf cx g EExceededLimit _ n false); try exact Hcx; exact (RR_g g Fs f vs s HR).
Qed.

Lemma case_fw_overflow : forall pile cf n Fs c e body k vs,
  (k <= loop_max)%Z ->
  P_fails_while 0 pile cf n Fs c e body k vs EStackOverflow [mkSF cf (while_head c e) n false] [].
Proof.
  intros pile cf n Fs c e body k vs Hk dd cx fuel a s g f HR Hl2 Hc Hne Hwf Hroom Hcx Hfuel.
  destruct fuel as [|fuel']; [lia|].
  cbn [while_loop]. rewrite (while_limit_ok k Hk).
  apply (block_overflow cret dd cx (while_head c e) n _ _ _ _ _ s g pile cf false _ Hroom Hcx (RR_g g Fs f vs s HR) Hl2).
Qed.

Lemma while_cond_err : forall e inner F' er,
  nodup_keys inner -> eval_err None inner e er ->
  while_cond e (mkEnv fo sys inner [] F') = Err er.
Proof.
  intros e inner F' er Hnd Hv. unfold CoreRefine.while_cond.
  change (mkEnv fo sys inner [] F') with (s_env (state_of (mkGlob [] []) F' None inner None)).
  rewrite (all_vars_R fo sys _ F' None inner _ (state_of_R fo sys (mkGlob [] []) F' None inner None Hnd)).
  unfold CoreErr.eval_err in Hv. rewrite Hv. reflexivity.
Qed.

Lemma case_fw_cond : forall d0 pile cf n Fs c e body k vs er,
  (k <= loop_max)%Z -> eval_err None (with_counter fo c k vs) e er ->
  P_fails_while (S d0) pile cf n Fs c e body k vs er [mkSF cf (while_head c e) n false] [].
Proof.
  intros d0 pile cf n Fs c e body k vs er Hk Hv dd cx fuel a s g f (F & HR & Ht) Hl2 Hc Hne Hwf Hroom Hcx Hfuel.
  destruct fuel as [|fuel']; [lia|].
  destruct (room_S dd cx _ Hroom) as (dd' & -> & Hlim & _).
  pose proof (nodup_with_counter fo c k vs (R_nodup fo sys g F f vs s HR)) as Hnd.
  cbn [while_loop]. rewrite (while_limit_ok k Hk). apply fail_res_bind. fold (while_cond e).
  unfold run_child_with.
  rewrite Hlim, (entry_env_tab fo sys Hsys g F f vs s HR (proj2 (proj2 Ht))), (bind_counter_entry fo sys c k vs _ Hc),
          (while_cond_err e _ _ er Hnd Hv), Hl2.
  apply (fail_res_here (option cret) pile cf cx g er _ n false); [exact Hcx|]. destruct HR as (H1 & _). exact H1.
Qed.

Lemma case_fw_body : forall d0 pile cf n Fs c e body k vs v er ch ev,
  (k <= loop_max)%Z -> eval fo sys None (with_counter fo c k vs) e v -> truthy fo v = true ->
  P_fails_list d0 (pile ++ [mkSF cf (while_head c e) n false]) cf (n + 1)%Z Fs None (with_counter fo c k vs) body er ch ev ->
  P_fails_while (S d0) pile cf n Fs c e body k vs er (mkSF cf (while_head c e) n false :: ch) ev.
Proof.
  intros d0 pile cf n Fs c e body k vs v er ch ev Hk Hv Ht IHb dd cx fuel a s g f HR Hl2 Hc Hne Hwf Hroom Hcx Hfuel.
  destruct fuel as [|fuel']; [lia|].
  pose proof (nodup_with_counter fo c k vs (RR_nodup fo sys dir g Fs f vs s HR)) as Hnd.
  cbn [while_loop]. rewrite (while_limit_ok k Hk). apply fail_res_bind. fold (while_cond e).
  apply (body_block_err d0 dd cx (while_head c e) n body (bind_counter fo c k) (while_cond e) s g Fs f vs
           (with_counter fo c k vs) er ch ev pile cf IHb HR Hl2 Hwf Hroom Hcx Hnd
           (fun F' => bind_counter_entry fo sys c k vs F' Hc)).
  intro F'. rewrite (while_cond_eval fo sys e _ _ v Hnd Hv), Ht. reflexivity.
Qed.

Lemma case_fw_iter : forall d0 pile cf n Fs c e body k vs v sg F1 f1 vs1 o1 e1 er ch e2,
  (k <= loop_max)%Z -> eval fo sys None (with_counter fo c k vs) e v -> truthy fo v = true ->
  exec_list d0 (pile ++ [mkSF cf (while_head c e) n false]) cf (n + 1)%Z Fs None (with_counter fo c k vs) body
            sg F1 f1 vs1 o1 e1 ->
  goes_on sg -> unames_ok_list body ->
  P_fails_while (S d0) pile cf n Fs c e body (k + 1)%Z (copy_back fo vs vs1) er ch e2 ->
  P_fails_while (S d0) pile cf n Fs c e body k vs er ch (e1 ++ e2).
Proof.
  intros d0 pile cf n Fs c e body k vs v sg F1 f1 vs1 o1 e1 er ch e2 Hk Hv Ht Hex Hsg Hnm IHw
         dd cx fuel a s g f HR Hl2 Hc Hne Hwf Hroom Hcx Hfuel.
  destruct fuel as [|fuel']; [lia|].
  destruct all_ok as (_ & Hlist & _).
  destruct (while_body_block fo sys Hsys dir inc sup fs d0 dd cx n body c e k s g Fs f vs v sg F1 f1 vs1 o1 e1 pile cf
              (Hlist _ _ _ _ _ _ _ _ _ _ _ _ _ _ Hex) Hv Ht HR Hl2 Hc (uwf_list_of_uwfx body Hwf Hnm)
              (room_fits dd cx _ Hroom) Hcx)
    as (s1 & ol1 & HR1 & Hl1 & Ho1 & Hrun).
  cbn [while_loop]. rewrite (while_limit_ok k Hk). unfold bindM at 1. fold (while_cond e). rewrite Hrun.
  cbn [cr_sig cr_data]. rewrite (goes_on_signal sg Hsg). rewrite CoreAllBase.apply_evs_app.
  apply (IHw dd cx fuel' (a ++ ol1) s1 _ f HR1 Hl1 Hc Hne Hwf Hroom Hcx). lia.
Qed.

(* ------------------------------------------------------------------ the loop lines *)
Lemma case_f_repeat : forall d0 pile cf n Fs f vs c e body er ch ev,
  P_fails_repeat d0 pile cf n Fs f c e body 0 vs er ch ev -> P_fails d0 pile cf n Fs f vs (URepeat c e body) er ch ev.
Proof.
  intros d0 pile cf n Fs f vs c e body er ch ev IH dd cx rest acc s g HR Hwf Hroom Hcx Hh.
  destruct Hwf as (Hc & He & Hne & Hwf).
  destruct (loop_arg_facts c e Hc He) as (Hblank & Hstrip & Hsplit & Hcok).
  pose proof (uwfx_list_items_nonempty body (n + 1)%Z Hne Hwf) as Hine.
  rewrite <- Hstrip in Hsplit.
  assert (E : exec_cmds fo (child_of dd) cx (ustmt_items n (URepeat c e body) ++ rest) acc s =
              bindM fo (repeat_loop fo (child_of dd) cx (repeat_head c e, n) loop_fuel c e
                          (uitems_from (n + 1)%Z body) 0 (mkCret [] SNormal))
                    (after_branch fo (child_of dd) cx rest acc) (clear_line2 fo s))
    by exact (repeat_line_lemma fo (child_of dd) cx (loop_arg c e) n (uitems_from (n + 1)%Z body) rest acc s c e
                Hblank Hine Hsplit Hcok).
  rewrite E. apply fail_res_bind.
  exact (IH dd cx loop_fuel [] (clear_line2 fo s) g (RR_clear g Fs f vs s HR) eq_refl Hc Hne Hwf Hroom Hcx loop_fuel_enough).
Qed.

Lemma case_f_while : forall d0 pile cf n Fs f vs c e body er ch ev,
  P_fails_while d0 pile cf n Fs c e body 0 vs er ch ev -> P_fails d0 pile cf n Fs f vs (UWhile c e body) er ch ev.
Proof.
  intros d0 pile cf n Fs f vs c e body er ch ev IH dd cx rest acc s g HR Hwf Hroom Hcx Hh.
  destruct Hwf as (Hc & He & Hne & Hwf).
  destruct (loop_arg_facts c e Hc He) as (Hblank & Hstrip & Hsplit & Hcok).
  pose proof (uwfx_list_items_nonempty body (n + 1)%Z Hne Hwf) as Hine.
  rewrite <- Hstrip in Hsplit.
  assert (E : exec_cmds fo (child_of dd) cx (ustmt_items n (UWhile c e body) ++ rest) acc s =
              bindM fo (while_loop fo (child_of dd) cx (while_head c e, n) loop_fuel c e
                          (uitems_from (n + 1)%Z body) 0 (mkCret [] SNormal))
                    (after_branch fo (child_of dd) cx rest acc) (clear_line2 fo s))
    by exact (while_line_lemma fo (child_of dd) cx (loop_arg c e) n (uitems_from (n + 1)%Z body) rest acc s c e
                Hblank Hine Hsplit).
  rewrite E. apply fail_res_bind.
  exact (IH dd cx loop_fuel [] (clear_line2 fo s) g f (RR_clear g Fs f vs s HR) eq_refl Hc Hne Hwf Hroom Hcx loop_fuel_enough).
Qed.

(* ------------------------------------------------------------------ IF chains *)
(* after the taken arm: the ELIFs whose condition evaluates are skipped, the first that does not fails *)
Lemma later_err : forall cf vsx n rest er fr,
  later_fails cf vsx n rest er fr ->
  forall dd cx g Fs s' els tail acc pile,
    RR g Fs (Some true) vsx s' -> s_line2 s' = None -> all_list uwfx_arm rest -> cx_ok pile cf cx ->
    fail_res cx g er [fr]
      (exec_cmds fo (child_of dd) cx (chain_items (uarms_of false n rest els) ++ tail) acc s').
Proof.
  intros cf vsx n rest er fr H.
  induction H as [n c body rest er Hv|n c body rest v er fr Hv Hl IH];
    intros dd cx g Fs s' els tail acc pile HR Hl2 Hwf Hcx;
    destruct if_family_dispatch as [bc [Hbc Hd]];
    destruct Hwf as [(Hc & Hbne & Hwfb) Hwfr];
    cbn [uarms_of chain_items flat_map];
    fold (chain_items (uarms_of false (n + 1 + sum_sizes usize body)%Z rest els));
    rewrite <- app_assoc;
    set (a1 := cond_arm AElif c n (uitems_from (n + 1)%Z body));
    assert (Hok1 : arm_ok a1)
      by (apply cond_arm_ok; [discriminate|apply expr_ok_blank; exact Hc|apply uwfx_list_items_nonempty; assumption]).
  - pose proof (RR_clear g Fs (Some true) vsx s' HR) as HRc.
    rewrite (arm_cond_err fo (child_of dd) cx bc a1 _ acc s' er Hbc Hd Hok1).
    + apply (fail_res_here cret pile cf cx g er (a_line a1) n false); [exact Hcx|].
      rewrite ensure_flag_g. exact (RR_g g Fs (Some true) vsx s' HR).
    + discriminate.
    + apply cond_errs_cond_arm; [apply expr_ok_blank; exact Hc|]. rewrite (expr_ok_strip c Hc).
      rewrite (RR_ensure_id fo sys dir g Fs true vsx _ HRc). exact (RR_err g Fs (Some true) vsx _ c er HRc Hv).
  - pose proof (skip_later fo (child_of dd) cx bc Hbc Hd [a1]
                  (chain_items (uarms_of false (n + 1 + sum_sizes usize body)%Z rest els) ++ tail) acc s') as E.
    cbn [chain_items flat_map] in E. rewrite app_nil_r in E. rewrite E.
    + exact (IH dd cx g Fs s' els tail acc pile HR Hl2 Hwfr Hcx).
    + constructor; [exact Hok1|constructor].
    + constructor; [apply non_if_elif|constructor].
    + exact (RR_flag_of fo sys dir g Fs true vsx s' HR).
    + exact Hl2.
    + constructor; [|constructor]. exists (truthy fo v).
      exact (cond_evals fo sys dir g Fs (Some true) vsx s' AElif c n _ v HR Hc Hv).
Qed.

Lemma case_fa_cond : forall d0 pile cf first n Fs b vs c body rest els er,
  eval_err (Some b) vs c er ->
  P_fails_arms d0 pile cf first n Fs b vs ((c, body) :: rest) els er [mkSF cf (if_head first c) n false] [].
Proof.
  intros d0 pile cf first n Fs b vs c body rest els er Hv dd cx tail acc s g Hfirst Hwfa Hwfe Hroom Hcx.
  destruct if_family_dispatch as [bc [Hbc Hd]].
  destruct Hwfa as [(Hc & Hbne & Hwfb) Hwfr].
  rewrite uarms_items_chain. cbn [uarms_of chain_items flat_map].
  fold (chain_items (uarms_of false (n + 1 + sum_sizes usize body)%Z rest els)).
  rewrite <- app_assoc.
  set (a1 := cond_arm (if first then AIf else AElif) c n (uitems_from (n + 1)%Z body)).
  assert (Hok1 : arm_ok a1).
  { apply cond_arm_ok; [destruct first; discriminate|apply expr_ok_blank; exact Hc|].
    apply uwfx_list_items_nonempty; assumption. }
  assert (HRe : RR g Fs (Some b) vs (ensure_flag fo (clear_line2 fo s))).
  { destruct first.
    - destruct Hfirst as (f0 & HR & -> & _). apply RR_ensure_flag. apply RR_clear. exact HR.
    - destruct Hfirst as (HR & ->). pose proof (RR_clear g Fs (Some false) vs s HR) as HRc.
      rewrite (RR_ensure_id fo sys dir g Fs false vs _ HRc). exact HRc. }
  rewrite (arm_cond_err fo (child_of dd) cx bc a1 _ acc s er Hbc Hd Hok1).
  - rewrite <- (if_head_line first c n (uitems_from (n + 1)%Z body)).
    apply (fail_res_here cret pile cf cx g er (a_line a1) n false); [exact Hcx|]. exact (RR_g _ _ _ _ _ HRe).
  - intro Hk. destruct first; discriminate Hk.
  - apply cond_errs_cond_arm; [apply expr_ok_blank; exact Hc|]. rewrite (expr_ok_strip c Hc).
    exact (RR_err g Fs (Some b) vs _ c er HRe Hv).
Qed.

(* the arm whose condition is true is entered: Stack.run reaches the block of that arm *)
Lemma enter_arm : forall (first : bool) dd cx n c bitems later tail acc s g Fs b vs v,
  (if first then exists f, RR g Fs f vs s /\ b = flag_or_false f
   else RR g Fs (Some false) vs s /\ b = false) ->
  expr_ok c -> bitems <> [] ->
  Forall arm_ok later -> Forall non_if later ->
  eval fo sys (Some b) vs c v -> truthy fo v = true ->
  let a1 := cond_arm (if first then AIf else AElif) c n bitems in
  exists sT, RR g Fs (Some true) vs sT /\ s_line2 sT = None /\
    exec_cmds fo (child_of dd) cx (arm_items a1 ++ chain_items later ++ tail) acc s =
    take_arm fo (child_of dd) cx a1 (chain_items later ++ tail) acc sT.
Proof.
  intros first dd cx n c bitems later tail acc s g Fs b vs v Hfirst Hc Hbne Hokl Hnil Hv Ht a1.
  destruct if_family_dispatch as [bc [Hbc Hd]].
  assert (Hok1 : arm_ok a1).
  { apply cond_arm_ok; [destruct first; discriminate|apply expr_ok_blank; exact Hc|exact Hbne]. }
  destruct first.
  - destruct Hfirst as (f0 & HR & ->).
    exists (with_flag fo true (clear_line2 fo s)). split; [apply (RR_with_flag fo sys dir g Fs f0); exact HR|]. split; [reflexivity|].
    apply (if_arm_true fo (child_of dd) cx bc Hbc Hd a1 _ acc s Hok1 eq_refl).
    rewrite <- Ht. apply (cond_evals fo sys dir g Fs (Some (flag_or_false f0)) vs); [|exact Hc|exact Hv].
    apply RR_ensure_flag. exact HR.
  - destruct Hfirst as (HR & ->).
    exists (with_flag fo true (clear_line2 fo s)). split; [apply (RR_with_flag fo sys dir g Fs (Some false)); exact HR|]. split; [reflexivity|].
    unfold arm_items. cbn [app]. rewrite exec_cmds_clear by (apply arm_line_nonblank; exact Hok1).
    apply (search_take fo (child_of dd) cx bc Hbc Hd [] a1 later tail acc (clear_line2 fo s)).
    + cbn [app]. constructor; [exact Hok1|exact Hokl].
    + cbn [app]. constructor; [apply non_if_elif|exact Hnil].
    + exact (RR_flag_of fo sys dir g Fs false vs (clear_line2 fo s) HR).
    + exact (RR_ensure_id fo sys dir g Fs false vs (clear_line2 fo s) HR).
    + reflexivity.
    + constructor.
    + rewrite <- Ht. apply (cond_evals fo sys dir g Fs (Some false) vs); [exact HR|exact Hc|exact Hv].
Qed.

Lemma first_hyp_weaken : forall (first : bool) g Fs b vs s (arms : list (str * list ustmt)),
  (if first then exists f, RR g Fs f vs s /\ b = flag_or_false f /\ arms <> []
   else RR g Fs (Some false) vs s /\ b = false) ->
  (if first then exists f, RR g Fs f vs s /\ b = flag_or_false f
   else RR g Fs (Some false) vs s /\ b = false).
Proof. intros [|] g Fs b vs s arms H; [destruct H as (f & H1 & H2 & _); exists f; split; assumption|exact H]. Qed.

(* the common start of the cases where the arm (c, body) is taken *)
Lemma arm_entered : forall dd cx (first : bool) n Fs b vs c body rest els v tail acc s g,
  eval fo sys (Some b) vs c v -> truthy fo v = true ->
  (if first then exists f, RR g Fs f vs s /\ b = flag_or_false f /\ ((c, body) :: rest) <> []
   else RR g Fs (Some false) vs s /\ b = false) ->
  all_list uwfx_arm ((c, body) :: rest) -> uwfx_else els ->
  let a1 := cond_arm (if first then AIf else AElif) c n (uitems_from (n + 1)%Z body) in
  let later := uarms_of false (n + 1 + sum_sizes usize body)%Z rest els in
  exists sT, RR g Fs (Some true) vs sT /\ s_line2 sT = None /\
    exec_cmds fo (child_of dd) cx (uarms_items first n ((c, body) :: rest) els ++ tail) acc s =
    take_arm fo (child_of dd) cx a1 (chain_items later ++ tail) acc sT.
Proof.
  intros dd cx first n Fs b vs c body rest els v tail acc s g Hv Ht Hfirst Hwfa Hwfe a1 later.
  destruct Hwfa as [(Hc & Hbne & Hwfb) Hwfr].
  rewrite uarms_items_chain. cbn [uarms_of chain_items flat_map].
  fold (chain_items (uarms_of false (n + 1 + sum_sizes usize body)%Z rest els)).
  rewrite <- app_assoc.
  exact (enter_arm first dd cx n c (uitems_from (n + 1)%Z body) later tail acc s g Fs b vs v
           (first_hyp_weaken first g Fs b vs s _ Hfirst) Hc (uwfx_list_items_nonempty body _ Hbne Hwfb)
           (uarms_okx rest false _ els Hwfr Hwfe) (uarms_non_if rest _ els) Hv Ht).
Qed.

Lemma case_fa_overflow : forall pile cf first n Fs b vs c body rest els v,
  eval fo sys (Some b) vs c v -> truthy fo v = true ->
  P_fails_arms 0 pile cf first n Fs b vs ((c, body) :: rest) els EStackOverflow [mkSF cf (if_head first c) n false] [].
Proof.
  intros pile cf first n Fs b vs c body rest els v Hv Ht dd cx tail acc s g Hfirst Hwfa Hwfe Hroom Hcx.
  destruct (arm_entered dd cx first n Fs b vs c body rest els v tail acc s g Hv Ht Hfirst Hwfa Hwfe)
    as (sT & HRT & HlT & Hstep).
  rewrite Hstep. unfold take_arm. apply fail_res_bind. unfold run_child.
  rewrite <- (if_head_line first c n (uitems_from (n + 1)%Z body)).
  exact (block_overflow cret dd cx _ n _ _ _ _ _ sT g pile cf false _ Hroom Hcx (RR_g _ _ _ _ _ HRT) HlT).
Qed.

Lemma case_fa_body : forall d0 pile cf first n Fs b vs c body rest els v er ch ev,
  eval fo sys (Some b) vs c v -> truthy fo v = true ->
  P_fails_list d0 (pile ++ [mkSF cf (if_head first c) n false]) cf (n + 1)%Z Fs None vs body er ch ev ->
  P_fails_arms (S d0) pile cf first n Fs b vs ((c, body) :: rest) els er (mkSF cf (if_head first c) n false :: ch) ev.
Proof.
  intros d0 pile cf first n Fs b vs c body rest els v er ch ev Hv Ht IHb dd cx tail acc s g Hfirst Hwfa Hwfe Hroom Hcx.
  destruct (arm_entered dd cx first n Fs b vs c body rest els v tail acc s g Hv Ht Hfirst Hwfa Hwfe)
    as (sT & HRT & HlT & Hstep).
  destruct Hwfa as [(Hc & Hbne & Hwfb) Hwfr].
  rewrite Hstep. unfold take_arm. apply fail_res_bind.
  rewrite <- (if_head_line first c n (uitems_from (n + 1)%Z body)) in IHb |- *.
  exact (body_block_plain_err d0 dd cx _ n body sT g Fs (Some true) vs er ch ev pile cf IHb HRT HlT Hwfb Hroom Hcx).
Qed.

Lemma case_fa_later : forall d0 pile cf first n Fs b vs c body rest els v F1 f1 vs1 out ev er fr,
  eval fo sys (Some b) vs c v -> truthy fo v = true ->
  exec_list d0 (pile ++ [mkSF cf (if_head first c) n false]) cf (n + 1)%Z Fs None vs body Normal F1 f1 vs1 out ev ->
  unames_ok_list body ->
  later_fails cf (copy_back fo vs vs1) (n + 1 + sum_sizes usize body)%Z rest er fr ->
  P_fails_arms (S d0) pile cf first n Fs b vs ((c, body) :: rest) els er [fr] ev.
Proof.
  intros d0 pile cf first n Fs b vs c body rest els v F1 f1 vs1 out ev er fr Hv Ht Hex Hnm Hlater
         dd cx tail acc s g Hfirst Hwfa Hwfe Hroom Hcx.
  destruct (arm_entered dd cx first n Fs b vs c body rest els v tail acc s g Hv Ht Hfirst Hwfa Hwfe)
    as (sT & HRT & HlT & Hstep).
  destruct Hwfa as [(Hc & Hbne & Hwfb) Hwfr].
  rewrite Hstep.
  destruct all_ok as (_ & Hlist & _).
  pose proof (Hlist _ _ _ _ _ _ _ _ _ _ _ _ _ _ Hex) as IHb.
  rewrite <- (if_head_line first c n (uitems_from (n + 1)%Z body)) in IHb.
  destruct (body_block_plain fo sys Hsys dir inc sup fs d0 dd cx _ n body sT g Fs (Some true) vs
              Normal F1 f1 vs1 out ev pile cf IHb HRT HlT (uwf_list_of_uwfx body Hwfb Hnm) (room_fits dd cx _ Hroom) Hcx)
    as (s' & ol & HR' & Hl' & Ho & Hrun).
  unfold take_arm. unfold bindM at 1.
  match goal with |- context [run_child ?a1 ?a2 ?a3 ?a4 ?a5 ?a6 ?a7 ?a8 ?a9] =>
    replace (run_child a1 a2 a3 a4 a5 a6 a7 a8 a9) with (s', @IOk cret (mkCret ol (sig_of Normal)))
      by (symmetry; exact Hrun) end.
  rewrite go_on_after_branch. change SNormal with (sig_of Normal). rewrite go_on_continue. cbn [continue_with].
  exact (later_err _ _ _ _ _ _ Hlater dd cx _ Fs s' els tail (acc ++ ol) pile HR' Hl' Hwfr Hcx).
Qed.

Lemma case_fa_skip : forall d0 pile cf first n Fs b vs c body rest els v er ch ev,
  eval fo sys (Some b) vs c v -> truthy fo v = false ->
  P_fails_arms d0 pile cf false (n + 1 + sum_sizes usize body)%Z Fs false vs rest els er ch ev ->
  P_fails_arms d0 pile cf first n Fs b vs ((c, body) :: rest) els er ch ev.
Proof.
  intros d0 pile cf first n Fs b vs c body rest els v er ch ev Hv Ht IH dd cx tail acc s g Hfirst Hwfa Hwfe Hroom Hcx.
  destruct if_family_dispatch as [bc [Hbc Hd]].
  destruct Hwfa as [(Hc & Hbne & Hwfb) Hwfr].
  rewrite uarms_items_chain. cbn [uarms_of chain_items flat_map].
  fold (chain_items (uarms_of false (n + 1 + sum_sizes usize body)%Z rest els)).
  rewrite <- app_assoc. rewrite <- uarms_items_chain.
  set (a1 := cond_arm (if first then AIf else AElif) c n (uitems_from (n + 1)%Z body)).
  assert (Hok1 : arm_ok a1).
  { apply cond_arm_ok; [destruct first; discriminate|apply expr_ok_blank; exact Hc|].
    apply uwfx_list_items_nonempty; assumption. }
  assert (Hstep : exists s1, RR g Fs (Some false) vs s1 /\
            forall T, exec_cmds fo (child_of dd) cx (arm_items a1 ++ T) acc s = exec_cmds fo (child_of dd) cx T acc s1).
  { destruct first.
    - destruct Hfirst as (f0 & HR & -> & _).
      exists (with_flag fo false (clear_line2 fo s)). split; [apply (RR_with_flag fo sys dir g Fs f0); exact HR|]. intro T.
      apply (if_arm_false fo (child_of dd) cx bc Hbc Hd a1 T acc s Hok1 eq_refl).
      rewrite <- Ht. apply (cond_evals fo sys dir g Fs (Some (flag_or_false f0)) vs); [|exact Hc|exact Hv].
      apply RR_ensure_flag. exact HR.
    - destruct Hfirst as (HR & ->).
      exists (clear_line2 fo s). split; [exact HR|]. intro T.
      unfold arm_items. cbn [app]. rewrite exec_cmds_clear by (apply arm_line_nonblank; exact Hok1).
      apply (search_none fo (child_of dd) cx bc Hbc Hd [a1] T acc (clear_line2 fo s)).
      + constructor; [exact Hok1|constructor].
      + constructor; [apply non_if_elif|constructor].
      + exact (RR_flag_of fo sys dir g Fs false vs (clear_line2 fo s) HR).
      + exact (RR_ensure_id fo sys dir g Fs false vs (clear_line2 fo s) HR).
      + reflexivity.
      + constructor; [|constructor]. rewrite <- Ht. apply (cond_evals fo sys dir g Fs (Some false) vs); [exact HR|exact Hc|exact Hv]. }
  destruct Hstep as (s1 & HR1 & Hstep). rewrite Hstep.
  apply (IH dd cx tail acc s1 g (conj HR1 eq_refl) Hwfr Hwfe Hroom Hcx).
Qed.

(* the ELSE arm is reached *)
Lemma else_entered : forall dd cx (first : bool) n Fs b vs body tail acc s g,
  (if first then exists f, RR g Fs f vs s /\ b = flag_or_false f /\ (@nil (str * list ustmt)) <> []
   else RR g Fs (Some false) vs s /\ b = false) ->
  uwfx_else (Some body) ->
  let a1 := else_arm n (uitems_from (n + 1)%Z body) in
  exists sT, RR g Fs (Some true) vs sT /\ s_line2 sT = None /\
    exec_cmds fo (child_of dd) cx (uarms_items first n [] (Some body) ++ tail) acc s =
    take_arm fo (child_of dd) cx a1 (chain_items (uarms_of false 0%Z [] None) ++ tail) acc sT.
Proof.
  intros dd cx first n Fs b vs body tail acc s g Hfirst Hwfe a1.
  destruct if_family_dispatch as [bc [Hbc Hd]].
  destruct first; [destruct Hfirst as (f0 & _ & _ & Hne); contradiction|].
  destruct Hfirst as (HR & ->). destruct Hwfe as [Hbne Hwfb].
  rewrite uarms_items_chain. cbn [uarms_of]. fold a1.
  assert (Hok1 : arm_ok a1) by (apply else_arm_ok; apply uwfx_list_items_nonempty; assumption).
  exists (with_flag fo true (clear_line2 fo s)).
  split; [exact (RR_with_flag fo sys dir g Fs (Some false) vs (clear_line2 fo s) true HR)|]. split; [reflexivity|].
  cbn [chain_items flat_map arm_items app]. rewrite exec_cmds_clear by (apply arm_line_nonblank; exact Hok1).
  apply (search_take fo (child_of dd) cx bc Hbc Hd [] a1 [] tail acc (clear_line2 fo s)).
  + constructor; [exact Hok1|constructor].
  + constructor; [apply non_if_else|constructor].
  + exact (RR_flag_of fo sys dir g Fs false vs (clear_line2 fo s) HR).
  + exact (RR_ensure_id fo sys dir g Fs false vs (clear_line2 fo s) HR).
  + reflexivity.
  + constructor.
  + apply evals_else_arm. reflexivity.
Qed.

Lemma case_fa_else_overflow : forall pile cf first n Fs b vs body,
  P_fails_arms 0 pile cf first n Fs b vs [] (Some body) EStackOverflow [mkSF cf kw_ELSE n false] [].
Proof.
  intros pile cf first n Fs b vs body dd cx tail acc s g Hfirst _ Hwfe Hroom Hcx.
  destruct (else_entered dd cx first n Fs b vs body tail acc s g Hfirst Hwfe) as (sT & HRT & HlT & Hstep).
  rewrite Hstep. unfold take_arm. apply fail_res_bind. unfold run_child.
  exact (block_overflow cret dd cx kw_ELSE n _ _ _ _ _ sT g pile cf false _ Hroom Hcx (RR_g _ _ _ _ _ HRT) HlT).
Qed.

Lemma case_fa_else : forall d0 pile cf first n Fs b vs body er ch ev,
  P_fails_list d0 (pile ++ [mkSF cf kw_ELSE n false]) cf (n + 1)%Z Fs None vs body er ch ev ->
  P_fails_arms (S d0) pile cf first n Fs b vs [] (Some body) er (mkSF cf kw_ELSE n false :: ch) ev.
Proof.
  intros d0 pile cf first n Fs b vs body er ch ev IHb dd cx tail acc s g Hfirst _ Hwfe Hroom Hcx.
  destruct (else_entered dd cx first n Fs b vs body tail acc s g Hfirst Hwfe) as (sT & HRT & HlT & Hstep).
  rewrite Hstep. unfold take_arm. apply fail_res_bind.
  exact (body_block_plain_err d0 dd cx kw_ELSE n body sT g Fs (Some true) vs er ch ev pile cf IHb HRT HlT (proj2 Hwfe) Hroom Hcx).
Qed.

Lemma case_f_if : forall d0 pile cf n Fs f vs arms els er ch ev,
  P_fails_arms d0 pile cf true n Fs (flag_or_false f) vs arms els er ch ev ->
  P_fails d0 pile cf n Fs f vs (UIf arms els) er ch ev.
Proof.
  intros d0 pile cf n Fs f vs arms els er ch ev IH dd cx rest acc s g HR Hwf Hroom Hcx _.
  apply uwfx_if_unfold in Hwf. destruct Hwf as (Hne & Hwfa & Hwfe).
  rewrite ustmt_items_if.
  apply (IH dd cx rest acc s g); [|exact Hwfa|exact Hwfe|exact Hroom|exact Hcx].
  exists f. split; [exact HR|]. split; [reflexivity|exact Hne].
Qed.

(* ------------------------------------------------------------------ RUN *)
Lemma RR_arg_values : forall g Fs f vs s args vals,
  RR g Fs f vs s -> (args = [] \/ expr_ok (comma_list args)) -> run_args fo sys f vs args vals ->
  arg_values fo (s_env s) (args_opt args) = Ok vals.
Proof.
  intros g Fs f vs s args vals HR Ha Hargs. destruct args as [|a0 ar].
  - cbn in Hargs. subst vals. reflexivity.
  - destruct Hargs as (v & Hv & ->). destruct Ha as [Ha|Ha]; [discriminate|].
    unfold args_opt, arg_values. rewrite (expr_ok_blank _ Ha).
    rewrite (RR_eval fo sys dir g Fs f vs s _ v HR Hv). reflexivity.
Qed.

(* the RUN line returns whatever error run_compile returns, located at the RUN line *)
Lemma run_line_fail : forall dd cx name args n rest acc s g pile cf er,
  identb name = true -> (args = [] \/ expr_ok (comma_list args)) -> head_ok rest ->
  cx_ok pile cf cx -> s_g s = g ->
  (forall cname sc, s_run sc = RKRun ->
     run_compile fo (child_of dd) cx (run_head name args, n) cname sc kw_RUN
                 (Some (mkLine (AStr (strip (name_args name args))) n (run_head name args, n)))
                 (mkSt (s_g s) (s_env s) (Some (run_head name args, n))) =
     (mkSt (s_g s) (s_env s) (Some (run_head name args, n)),
      IErr er (Some (here cx (run_head name args, n) (Some (run_head name args, n)))))) ->
  fail_res cx g er [mkSF cf (run_head name args) n true]
    (exec_cmds fo (child_of dd) cx (Ln (run_head name args) n :: rest) acc s).
Proof.
  intros dd cx name args n rest acc s g pile cf er Hn Ha Hh Hcx Hg Hrun.
  rewrite (run_line_err fo (child_of dd) cx name args n rest acc s _ er _ Hn Ha Hh Hrun).
  apply (fail_res_here cret pile cf cx g er _ n true); [exact Hcx|exact Hg].
Qed.

Lemma case_f_run_args : forall d0 pile cf n Fs f vs name args er,
  run_args_err fo sys f vs args er ->
  P_fails d0 pile cf n Fs f vs (URun name args) er [mkSF cf (run_head name args) n true] [].
Proof.
  intros d0 pile cf n Fs f vs name args er [Hne Hv] dd cx rest acc s g HR Hwf _ Hcx Hh.
  destruct Hwf as [Hn Ha]. cbn [ustmt_items app].
  destruct (run_line_facts name args n rest Hn Ha Hh) as (_ & _ & _ & _ & Hbr).
  apply (run_line_fail dd cx name args n rest acc s g pile cf er Hn Ha Hh Hcx (RR_g _ _ _ _ _ HR)).
  intros cname sc Hr.
  apply (run_argument_error fo (child_of dd) cx (run_head name args, n) cname sc kw_RUN
           (AStr (strip (name_args name args))) n (run_head name args, n) name (args_opt args) (mkSt (s_g s) (s_env s) (Some (run_head name args, n))) er Hr Hbr).
  destruct args as [|a0 ar]; [contradiction|]. destruct Ha as [Ha|Ha]; [discriminate|].
  unfold args_opt, arg_values. cbn [Interp.s_env]. rewrite (expr_ok_blank _ Ha).
  rewrite (RR_err g Fs f vs s _ er HR Hv). reflexivity.
Qed.

Lemma case_f_run_unknown : forall d0 pile cf n Fs f vs name args vals,
  run_args fo sys f vs args vals -> lookup name Fs = None ->
  P_fails d0 pile cf n Fs f vs (URun name args) EVarNonExistent [mkSF cf (run_head name args) n true] [].
Proof.
  intros d0 pile cf n Fs f vs name args vals Hargs Hlk dd cx rest acc s g HR Hwf _ Hcx Hh.
  destruct Hwf as [Hn Ha]. cbn [ustmt_items app].
  destruct (run_line_facts name args n rest Hn Ha Hh) as (_ & _ & _ & _ & Hbr).
  pose proof HR as (F & HR0 & Htab). pose proof HR0 as (_ & _ & _ & _ & G5 & _).
  assert (Hlf : lookup name (e_funcs fo (s_env s)) = None).
  { rewrite G5. destruct Htab as (H2 & _ & _). clear - H2 Hlk.
    induction H2 as [|[y d] [y' fn] Fs F Hrel H2 IH]; [reflexivity|].
    destruct Hrel as (Hk & _). cbn [fst] in Hk. subst y'. cbn [lookup] in Hlk |- *.
    destruct (str_eqb name y); [discriminate|]. apply IH. exact Hlk. }
  apply (run_line_fail dd cx name args n rest acc s g pile cf _ Hn Ha Hh Hcx (RR_g _ _ _ _ _ HR)).
  intros cname sc Hr.
  exact (run_undefined fo (child_of dd) cx (run_head name args, n) cname sc kw_RUN
           (AStr (strip (name_args name args))) n (run_head name args, n) name (args_opt args) (mkSt (s_g s) (s_env s) (Some (run_head name args, n))) vals Hr Hbr
           (RR_arg_values g Fs f vs s args vals HR Ha Hargs) Hlf).
Qed.

(* what every other RUN case starts with *)
Lemma run_known : forall g Fs f vs s name df,
  RR g Fs f vs s -> lookup name Fs = Some df ->
  exists F fn, R g F f vs s /\ utab_rel dir Fs F /\
    lookup name (e_funcs fo (s_env s)) = Some fn /\ fn_args fn = d_params df /\
    fn_code fn = uitems_from (d_line df + 1) (d_body df) /\
    fn_file fn = Some (file_of dir (d_file df)) /\ d_body df <> [] /\ uwf_list (d_body df).
Proof.
  intros g Fs f vs s name df (F & HR0 & Htab) Hlk.
  destruct (utab_rel_lookup dir Fs F name df Htab Hlk) as (fn & Hlf & Hfa & Hcode & Hff & Hbne & Hbwf).
  pose proof HR0 as (_ & _ & _ & _ & G5 & _). rewrite <- G5 in Hlf.
  exists F, fn. split; [exact HR0|]. split; [exact Htab|]. split; [exact Hlf|]. split; [exact Hfa|].
  split; [exact Hcode|]. split; [exact Hff|]. split; assumption.
Qed.

Lemma case_f_run_arity : forall d0 pile cf n Fs f vs name args vals df,
  run_args fo sys f vs args vals -> lookup name Fs = Some df -> length (d_params df) <> length vals ->
  P_fails d0 pile cf n Fs f vs (URun name args) EInvalidArguments [mkSF cf (run_head name args) n true] [].
Proof.
  intros d0 pile cf n Fs f vs name args vals df Hargs Hlk Hlen dd cx rest acc s g HR Hwf _ Hcx Hh.
  destruct Hwf as [Hn Ha]. cbn [ustmt_items app].
  destruct (run_line_facts name args n rest Hn Ha Hh) as (_ & _ & _ & _ & Hbr).
  destruct (run_known g Fs f vs s name df HR Hlk) as (F & fn & _ & _ & Hlf & Hfa & _).
  apply (run_line_fail dd cx name args n rest acc s g pile cf _ Hn Ha Hh Hcx (RR_g _ _ _ _ _ HR)).
  intros cname sc Hr.
  apply (run_arity fo (child_of dd) cx (run_head name args, n) cname sc kw_RUN
           (AStr (strip (name_args name args))) n (run_head name args, n) name (args_opt args) (mkSt (s_g s) (s_env s) (Some (run_head name args, n))) vals fn Hr Hbr
           (RR_arg_values g Fs f vs s args vals HR Ha Hargs) Hlf).
  rewrite Hfa. exact Hlen.
Qed.

Lemma case_f_run_overflow : forall pile cf n Fs f vs name args vals df,
  run_args fo sys f vs args vals -> lookup name Fs = Some df -> length (d_params df) = length vals ->
  P_fails 0 pile cf n Fs f vs (URun name args) EStackOverflow [mkSF cf (run_head name args) n true] [].
Proof.
  intros pile cf n Fs f vs name args vals df Hargs Hlk Hlen dd cx rest acc s g HR Hwf Hroom Hcx Hh.
  destruct Hwf as [Hn Ha]. cbn [ustmt_items app].
  destruct (run_line_facts name args n rest Hn Ha Hh) as (_ & _ & _ & _ & Hbr).
  destruct (run_known g Fs f vs s name df HR Hlk) as (F & fn & _ & _ & Hlf & Hfa & _).
  apply (run_line_fail dd cx name args n rest acc s g pile cf _ Hn Ha Hh Hcx (RR_g _ _ _ _ _ HR)).
  intros cname sc Hr.
  apply (run_stack_overflow fo (child_of dd) cx (run_head name args, n) cname sc kw_RUN
           (AStr (strip (name_args name args))) n (run_head name args, n) name (args_opt args) (mkSt (s_g s) (s_env s) (Some (run_head name args, n))) vals fn Hr Hbr
           (RR_arg_values g Fs f vs s args vals HR Ha Hargs) Hlf (eq_trans (f_equal (@length str) Hfa) Hlen)).
  exact (room_0 dd cx Hroom).
Qed.

(* the callee's stack: its environment, its context *)
Lemma callee_setup : forall g F Fs f vs s fn df vals cx pile cf c n,
  R g F f vs s -> utab_rel dir Fs F -> fn_args fn = d_params df -> fn_file fn = Some (file_of dir (d_file df)) ->
  cx_ok pile cf cx ->
  let inner := CoreFunc.bind_params fo (d_params df) vals vs in
  nodup_keys inner /\
  callee_env fo fn vals (s_env s) = mkEnv fo sys inner [] F /\
  RR g Fs None inner (state_of g F None inner None) /\
  cx_ok (pile ++ [mkSF cf c n true]) (d_file df) (callee_ctx cx (c, n) fn (Some (c, n))).
Proof.
  intros g F Fs f vs s fn df vals cx pile cf c n HR0 Htab Hfa Hff Hcx inner.
  pose proof HR0 as (G1 & G2 & G3 & G4 & G5 & G6).
  assert (Hnd : nodup_keys inner).
  { unfold inner. rewrite bind_params_upd_all. apply nodup_keys_upd_all. exact G6. }
  split; [exact Hnd|]. split; [|split].
  - unfold callee_env, RunProofs.bind_params. rewrite (entry_env_tab fo sys Hsys g F f vs s HR0 (proj2 (proj2 Htab))).
    cbn [e_sys e_user e_temp e_funcs]. rewrite Hfa. unfold inner. rewrite bind_params_upd_all. reflexivity.
  - exists F. split; [apply state_of_R; exact Hnd|exact Htab].
  - assert (Hctx : callee_ctx cx (c, n) fn (Some (c, n)) =
                   mkCtx (c_opts cx) (c_fs cx) (here cx (c, n) (Some (c, n))) (Some (file_of dir (d_file df)))).
    { unfold callee_ctx, callee_file. rewrite Hff. reflexivity. }
    rewrite Hctx. apply cx_ok_inline. exact Hcx.
Qed.

Lemma case_f_run_body : forall d0 pile cf n Fs f vs name args vals df er ch ev,
  run_args fo sys f vs args vals -> lookup name Fs = Some df -> length (d_params df) = length vals ->
  P_fails_list d0 (pile ++ [mkSF cf (run_head name args) n true]) (d_file df) (d_line df + 1) Fs None
               (CoreFunc.bind_params fo (d_params df) vals vs) (d_body df) er ch ev ->
  P_fails (S d0) pile cf n Fs f vs (URun name args) er (mkSF cf (run_head name args) n true :: ch) ev.
Proof.
  intros d0 pile cf n Fs f vs name args vals df er ch ev Hargs Hlk Hlen IHb dd cx rest acc s g HR Hwf Hroom Hcx Hh.
  destruct Hwf as [Hn Ha]. cbn [ustmt_items app].
  destruct (run_line_facts name args n rest Hn Ha Hh) as (_ & _ & _ & _ & Hbr).
  destruct (run_known g Fs f vs s name df HR Hlk) as (F & fn & HR0 & Htab & Hlf & Hfa & Hcode & Hff & Hbne & Hbwf).
  destruct (room_S dd cx _ Hroom) as (dd' & -> & Hlim & Hroom').
  set (c := run_head name args).
  destruct (callee_setup g F Fs f vs s fn df vals cx pile cf c n HR0 Htab Hfa Hff Hcx) as (Hnd & Hce & HRin & Hcx').
  destruct (IHb dd' (callee_ctx cx (c, n) fn (Some (c, n))) [] _ g HRin (uwfx_list_of_uwf _ Hbwf)
               (Hroom' (c, n) (Some (c, n)) (callee_file cx fn)) Hcx') as (s2 & E & Hg2).
  pose proof HR0 as (G1 & _). pose proof Hcx as (_ & Hfile & _).
  assert (Hchild : child_of (S dd') (callee_ctx cx (c, n) fn (Some (c, n))) (s_g s) (callee_env fo fn vals (s_env s)) (fn_code fn)
                   = (apply_evs ev g, IErr er (Some (c_pile (callee_ctx cx (c, n) fn (Some (c, n))) ++ map conc_frame ch)))).
  { cbn [CoreRefine.child_of]. rewrite CoreRefine.run_child_of. unfold run_with. rewrite Hce, Hcode, G1.
    unfold CoreRefine.state_of in E. cbn [flag_var] in E. rewrite E, Hg2. reflexivity. }
  change (Ln c n) with (Ln (run_head name args) n).
  rewrite (run_line_err fo (child_of (S dd')) cx name args n rest acc s
             (mkSt (apply_evs ev g) (s_env s) (Some (c, n))) er
             (Some (c_pile (callee_ctx cx (c, n) fn (Some (c, n))) ++ map conc_frame ch)) Hn Ha Hh).
  - exists (mkSt (apply_evs ev g) (s_env s) (Some (c, n))). split; [|reflexivity].
    unfold callee_ctx. cbn [c_pile]. unfold here. rewrite <- app_assoc, Hfile. reflexivity.
  - intros cname sc Hr.
    exact (run_body_error fo (child_of (S dd')) cx (c, n) cname sc kw_RUN
             (AStr (strip (name_args name args))) n (c, n) name (args_opt args) (mkSt (s_g s) (s_env s) (Some (c, n))) vals fn _ er _ Hr Hbr
             (RR_arg_values g Fs f vs s args vals HR Ha Hargs) Hlf (eq_trans (f_equal (@length str) Hfa) Hlen) Hlim Hchild).
Qed.

Lemma case_f_run_escape : forall d0 pile cf n Fs f vs name args vals df sg F1 f1 vs1 out ev,
  run_args fo sys f vs args vals -> lookup name Fs = Some df -> length (d_params df) = length vals ->
  exec_list d0 (pile ++ [mkSF cf (run_head name args) n true]) (d_file df) (d_line df + 1) Fs None
            (CoreFunc.bind_params fo (d_params df) vals vs) (d_body df) sg F1 f1 vs1 out ev ->
  sg = Broke \/ sg = Continued ->
  P_fails (S d0) pile cf n Fs f vs (URun name args) EStackReturnType [mkSF cf (run_head name args) n true] ev.
Proof.
  intros d0 pile cf n Fs f vs name args vals df sg F1 f1 vs1 out ev Hargs Hlk Hlen Hex Hsg dd cx rest acc s g HR Hwf Hroom Hcx Hh.
  destruct Hwf as [Hn Ha]. cbn [ustmt_items app].
  destruct (run_line_facts name args n rest Hn Ha Hh) as (_ & _ & _ & _ & Hbr).
  destruct (run_known g Fs f vs s name df HR Hlk) as (F & fn & HR0 & Htab & Hlf & Hfa & Hcode & Hff & Hbne & Hbwf).
  destruct (room_S dd cx _ Hroom) as (dd' & -> & Hlim & Hroom').
  set (c := run_head name args).
  destruct (callee_setup g F Fs f vs s fn df vals cx pile cf c n HR0 Htab Hfa Hff Hcx) as (Hnd & Hce & HRin & Hcx').
  destruct all_ok as (_ & Hlist & _).
  destruct (Hlist _ _ _ _ _ _ _ _ _ _ _ _ _ _ Hex dd' (callee_ctx cx (c, n) fn (Some (c, n))) [] _ g HRin Hbwf
              (room_fits _ _ _ (Hroom' (c, n) (Some (c, n)) (callee_file cx fn))) Hcx')
    as (s2 & ol & (F2 & HR2 & _) & Ho & E).
  cbn [app] in E. pose proof HR2 as (K1 & _). pose proof HR0 as (G1 & _).
  assert (Hchild : child_of (S dd') (callee_ctx cx (c, n) fn (Some (c, n))) (s_g s) (callee_env fo fn vals (s_env s)) (fn_code fn)
                   = (apply_evs ev g, IOk (mkCret ol (sig_of sg), s_env s2))).
  { cbn [CoreRefine.child_of]. rewrite CoreRefine.run_child_of. unfold run_with. rewrite Hce, Hcode, G1.
    unfold CoreRefine.state_of in E. cbn [flag_var] in E. rewrite E, K1. reflexivity. }
  change (Ln c n) with (Ln (run_head name args) n).
  rewrite (run_line_err fo (child_of (S dd')) cx name args n rest acc s
             (mkSt (apply_evs ev g) (update_from_env fo (s_env s) (s_env s2)) (Some (c, n))) EStackReturnType
             (Some (here cx (c, n) (Some (c, n)))) Hn Ha Hh).
  - apply (fail_res_here cret pile cf cx (apply_evs ev g) EStackReturnType c n true); [exact Hcx|reflexivity].
  - intros cname sc Hr.
    etransitivity; [exact (run_binds fo (child_of (S dd')) cx (c, n) cname sc kw_RUN
             (AStr (strip (name_args name args))) n (c, n) name (args_opt args) (mkSt (s_g s) (s_env s) (Some (c, n))) vals fn _ _ _ Hr Hbr
             (RR_arg_values g Fs f vs s args vals HR Ha Hargs) Hlf (eq_trans (f_equal (@length str) Hfa) Hlen) Hlim Hchild)|].
    cbn [cr_sig Interp.s_env Interp.s_line2]. destruct Hsg as [-> | ->]; reflexivity.
Qed.

(* ------------------------------------------------------------------ START / STARTCODE / STARTENV *)
Lemma live_circ : forall pile cf cx name,
  cx_ok pile cf cx -> In name (CoreAll.live_files pile cf) -> circ cx (file_of dir name) = true.
Proof.
  intros pile cf cx name (Hpile & Hfile & _) Hlive. apply circ_true_iff.
  unfold StartLaws.live_files. rewrite Hpile, Hfile. apply in_or_app.
  destruct Hlive as [Heq|Hin].
  - right. left. rewrite Heq. reflexivity.
  - left. rewrite map_map. apply in_map_iff in Hin. destruct Hin as (sf & Heq & Hsf).
    apply in_map_iff. exists sf. split; [|exact Hsf]. cbn [CoreAllBase.conc_frame fr_file]. rewrite Heq. reflexivity.
Qed.

Lemma start_line_fail : forall dd cx k name n rest acc s g pile cf er,
  name_ok name = true -> head_ok rest -> cx_ok pile cf cx -> s_g s = g ->
  (forall cname sc, s_run sc = RKStart ->
     run_compile fo (child_of dd) cx (start_head k name, n) cname sc (kind_word k)
                 (Some (mkLine (AStr name) n (start_head k name, n)))
                 (mkSt (s_g s) (s_env s) (Some (start_head k name, n))) =
     (mkSt (s_g s) (s_env s) (Some (start_head k name, n)),
      IErr er (Some (here cx (start_head k name, n) (Some (start_head k name, n)))))) ->
  fail_res cx g er [mkSF cf (start_head k name) n true]
    (exec_cmds fo (child_of dd) cx (Ln (start_head k name) n :: rest) acc s).
Proof.
  intros dd cx k name n rest acc s g pile cf er Hm Hh Hcx Hg Hrun.
  pose proof Hcx as (_ & Hfile & _).
  rewrite (start_line_err fo (child_of dd) cx k name n rest acc s _ er _ Hm Hh ltac:(rewrite Hfile; discriminate) Hrun).
  apply (fail_res_here cret pile cf cx g er _ n true); [exact Hcx|exact Hg].
Qed.

Lemma case_f_start_missing : forall d0 pile cf n Fs f vs k name,
  lookup name prog = None ->
  P_fails d0 pile cf n Fs f vs (UStart k name) EInvalidArguments [mkSF cf (start_head k name) n true] [].
Proof.
  intros d0 pile cf n Fs f vs k name Hlk dd cx rest acc s g HR Hwf _ Hcx Hh. cbn [uwfx uwf] in Hwf.
  cbn [ustmt_items app]. pose proof Hcx as (_ & Hfile & Hcfs & _).
  apply (start_line_fail dd cx k name n rest acc s g pile cf _ Hwf Hh Hcx (RR_g _ _ _ _ _ HR)).
  intros cname sc Hr.
  apply (start_missing fo (child_of dd) cx (start_head k name, n) cname sc (kind_word k) (mkLine (AStr name) n (start_head k name, n)) (file_of dir cf) (file_of dir name) (mkSt (s_g s) (s_env s) (Some (start_head k name, n))) Hr Hfile
           (resolve_name dir cf name Hwf)).
  rewrite Hcfs. exact (Hmiss name Hwf Hlk).
Qed.

Lemma case_f_start_circular : forall d0 pile cf n Fs f vs k name stmts,
  lookup name prog = Some stmts -> In name (CoreAll.live_files pile cf) ->
  P_fails d0 pile cf n Fs f vs (UStart k name) ECircular [mkSF cf (start_head k name) n true] [].
Proof.
  intros d0 pile cf n Fs f vs k name stmts Hlk Hlive dd cx rest acc s g HR Hwf _ Hcx Hh. cbn [uwfx uwf] in Hwf.
  cbn [ustmt_items app]. pose proof Hcx as (_ & Hfile & Hcfs & _).
  destruct (Hprog name stmts Hlk) as (_ & text & Hfs & _).
  apply (start_line_fail dd cx k name n rest acc s g pile cf _ Hwf Hh Hcx (RR_g _ _ _ _ _ HR)).
  intros cname sc Hr.
  apply (start_circular fo (child_of dd) cx (start_head k name, n) cname sc (kind_word k) (mkLine (AStr name) n (start_head k name, n)) (file_of dir cf) (file_of dir name) text (mkSt (s_g s) (s_env s) (Some (start_head k name, n))) Hr Hfile
           (resolve_name dir cf name Hwf)).
  - rewrite Hcfs. exact Hfs.
  - exact (live_circ pile cf cx name Hcx Hlive).
Qed.

Lemma case_f_start_overflow : forall pile cf n Fs f vs k name stmts,
  lookup name prog = Some stmts -> ~ In name (CoreAll.live_files pile cf) ->
  P_fails 0 pile cf n Fs f vs (UStart k name) EStackOverflow [mkSF cf (start_head k name) n true] [].
Proof.
  intros pile cf n Fs f vs k name stmts Hlk Hlive dd cx rest acc s g HR Hwf Hroom Hcx Hh. cbn [uwfx uwf] in Hwf.
  cbn [ustmt_items app]. pose proof Hcx as (_ & Hfile & Hcfs & _).
  destruct (Hprog name stmts Hlk) as (_ & text & Hfs & Hparse).
  apply (start_line_fail dd cx k name n rest acc s g pile cf _ Hwf Hh Hcx (RR_g _ _ _ _ _ HR)).
  intros cname sc Hr.
  rewrite (start_unfold fo (child_of dd) cx (start_head k name, n) cname sc (kind_word k) (mkLine (AStr name) n (start_head k name, n)) (file_of dir cf) (file_of dir name) text
             (uitems_from 1 stmts) (mkSt (s_g s) (s_env s) (Some (start_head k name, n))) Hr Hfile (resolve_name dir cf name Hwf)
             ltac:(rewrite Hcfs; exact Hfs) (not_live_circ dir inc sup fs pile cf cx name Hcx Hlive) Hparse).
  apply start_body_overflow. unfold below_stack_limit. rewrite (room_0 dd cx Hroom). discriminate.
Qed.

Lemma case_f_start_body : forall d0 pile cf n Fs f vs k name stmts er ch ev,
  lookup name prog = Some stmts -> ~ In name (CoreAll.live_files pile cf) ->
  P_fails_list d0 (pile ++ [mkSF cf (start_head k name) n true]) name 1 Fs None vs stmts er ch ev ->
  P_fails (S d0) pile cf n Fs f vs (UStart k name) er (mkSF cf (start_head k name) n true :: ch) ev.
Proof.
  intros d0 pile cf n Fs f vs k name stmts er ch ev Hlk Hlive IHb dd cx rest acc s g HR Hwf Hroom Hcx Hh.
  cbn [uwfx uwf] in Hwf. cbn [ustmt_items app]. pose proof Hcx as (_ & Hfile & Hcfs & _).
  destruct (Hprog name stmts Hlk) as (Hswf & text & Hfs & Hparse).
  pose proof HR as (F & HR0 & Htab).
  destruct (room_S dd cx _ Hroom) as (dd' & -> & Hlim & Hroom').
  set (c := start_head k name). set (target := file_of dir name).
  set (cx' := start_ctx cx (c, n) (Some (c, n)) target).
  assert (Hcx' : cx_ok (pile ++ [mkSF cf c n true]) name cx') by (apply cx_ok_inline; exact Hcx).
  pose proof HR0 as (G1 & _ & _ & _ & _ & G6).
  assert (HRin : RR g Fs None vs (state_of g F None vs None)).
  { exists F. split; [apply state_of_R; exact G6|exact Htab]. }
  destruct (IHb dd' cx' [] _ g HRin (uwfx_list_of_uwf _ Hswf) (Hroom' (c, n) (Some (c, n)) (Some target)) Hcx')
    as (s2 & E & Hg2).
  assert (Hchild : child_of (S dd') cx' (s_g s) (append_env fo (empty_env fo) (s_env s)) (uitems_from 1 stmts)
                   = (apply_evs ev g, IErr er (Some (c_pile cx' ++ map conc_frame ch)))).
  { cbn [CoreRefine.child_of]. rewrite CoreRefine.run_child_of. unfold run_with.
    rewrite (entry_env_tab fo sys Hsys g F f vs s HR0 (proj2 (proj2 Htab))), G1.
    unfold CoreRefine.state_of in E. cbn [flag_var] in E. rewrite E, Hg2. reflexivity. }
  change (Ln c n) with (Ln (start_head k name) n).
  rewrite (start_line_err fo (child_of (S dd')) cx k name n rest acc s
             (mkSt (apply_evs ev g) (s_env s) (Some (c, n))) er (Some (c_pile cx' ++ map conc_frame ch)) Hwf Hh
             ltac:(rewrite Hfile; discriminate)).
  - exists (mkSt (apply_evs ev g) (s_env s) (Some (c, n))). split; [|reflexivity].
    unfold cx', start_ctx. cbn [c_pile]. unfold here. rewrite <- app_assoc, Hfile. reflexivity.
  - intros cname sc Hr.
    rewrite (start_unfold fo (child_of (S dd')) cx (start_head k name, n) cname sc (kind_word k) (mkLine (AStr name) n (start_head k name, n)) (file_of dir cf) target text
               (uitems_from 1 stmts) (mkSt (s_g s) (s_env s) (Some (start_head k name, n))) Hr Hfile (resolve_name dir cf name Hwf)
               ltac:(rewrite Hcfs; exact Hfs) (not_live_circ dir inc sup fs pile cf cx name Hcx Hlive) Hparse).
    etransitivity; [exact (start_body_fail fo (child_of (S dd')) cx (c, n) (kind_word k) target (uitems_from 1 stmts)
               (mkSt (s_g s) (s_env s) (Some (c, n)))
               (apply_evs ev g) (IErr er (Some (c_pile cx' ++ map conc_frame ch))) Hlim Hchild ltac:(discriminate))|].
    reflexivity.
Qed.

(* ------------------------------------------------------------------ the induction *)
Theorem refine_fails_all :
  (forall d0 pile cf n Fs f vs stm er ch ev,
     fails d0 pile cf n Fs f vs stm er ch ev -> P_fails d0 pile cf n Fs f vs stm er ch ev) /\
  (forall d0 pile cf n Fs f vs p er ch ev,
     fails_list d0 pile cf n Fs f vs p er ch ev -> P_fails_list d0 pile cf n Fs f vs p er ch ev) /\
  (forall d0 pile cf first n Fs b vs arms els er ch ev,
     fails_arms d0 pile cf first n Fs b vs arms els er ch ev -> P_fails_arms d0 pile cf first n Fs b vs arms els er ch ev) /\
  (forall d0 pile cf n Fs f c e body k vs er ch ev,
     fails_repeat d0 pile cf n Fs f c e body k vs er ch ev -> P_fails_repeat d0 pile cf n Fs f c e body k vs er ch ev) /\
  (forall d0 pile cf n Fs c e body k vs er ch ev,
     fails_while d0 pile cf n Fs c e body k vs er ch ev -> P_fails_while d0 pile cf n Fs c e body k vs er ch ev).
Proof.
  apply (CoreAllErr.fails_all_mind fo sys prog inc sup P_fails P_fails_list P_fails_arms P_fails_repeat P_fails_while).
  - intros. apply case_f_emit_eval; assumption.
  - intros. apply case_f_var_expr; assumption.
  - intros. eapply case_f_var_name; eassumption.
  - intros. apply case_f_print_eval; assumption.
  - intros. apply case_f_if; assumption.
  - intros. apply case_f_repeat; assumption.
  - intros. apply case_f_while; assumption.
  - intros. apply case_f_run_args; assumption.
  - intros. eapply case_f_run_unknown; eassumption.
  - intros. eapply case_f_run_arity; eassumption.
  - intros. eapply case_f_run_overflow; eassumption.
  - intros. eapply case_f_run_body; eassumption.
  - intros. eapply case_f_run_escape; eassumption.
  - intros. apply case_f_start_missing; assumption.
  - intros. eapply case_f_start_circular; eassumption.
  - intros. eapply case_f_start_overflow; eassumption.
  - intros. eapply case_f_start_body; eassumption.
  - intros. apply case_fl_here; assumption.
  - intros. eapply case_fl_later; eassumption.
  - intros. apply case_fa_cond; assumption.
  - intros. eapply case_fa_overflow; eassumption.
  - intros. eapply case_fa_body; eassumption.
  - intros. eapply case_fa_later; eassumption.
  - intros. eapply case_fa_skip; eassumption.
  - intros. apply case_fa_else_overflow.
  - intros. apply case_fa_else; assumption.
  - intros. apply case_fr_count; assumption.
  - intros. eapply case_fr_notcount; eassumption.
  - intros. eapply case_fr_range; eassumption.
  - intros. eapply case_fr_overflow; eassumption.
  - intros. eapply case_fr_body; eassumption.
  - intros. eapply case_fr_iter; eassumption.
  - intros. apply case_fw_limit; assumption.
  - intros. apply case_fw_overflow; assumption.
  - intros. apply case_fw_cond; assumption.
  - intros. eapply case_fw_body; eassumption.
  - intros. eapply case_fw_iter; eassumption.
Qed.

(* ------------------------------------------------------------------ Stack.run of a statement list *)
Theorem refine_fails_exec_cmds : forall d0 pile cf n Fs f vs p er ch ev dd cx acc s g,
  fails_list d0 pile cf n Fs f vs p er ch ev ->
  uwfx_list p -> room dd cx d0 -> cx_ok pile cf cx -> RR g Fs f vs s ->
  exists s', s_g s' = apply_evs ev g /\
    exec_cmds fo (child_of dd) cx (uitems_from n p) acc s = (s', IErr er (Some (map conc_frame (pile ++ ch)))).
Proof.
  intros d0 pile cf n Fs f vs p er ch ev dd cx acc s g Hf Hwf Hroom Hcx HR.
  destruct refine_fails_all as (_ & Hl & _).
  destruct (Hl _ _ _ _ _ _ _ _ _ _ _ Hf dd cx acc s g HR Hwf Hroom Hcx) as (s' & E & Hg).
  exists s'. split; [exact Hg|]. rewrite E, map_app. destruct Hcx as (Hpile & _). rewrite Hpile. reflexivity.
Qed.

Theorem refine_fails_run : forall d0 pile cf n Fs vs p er ch ev dd cx g F,
  fails_list d0 pile cf n Fs None vs p er ch ev ->
  uwfx_list p -> room dd cx d0 -> cx_ok pile cf cx -> nodup_keys vs -> utab_rel dir Fs F ->
  run fo dd cx g (mkEnv fo sys vs [] F) (uitems_from n p) =
  (apply_evs ev g, IErr er (Some (map conc_frame (pile ++ ch)))).
Proof.
  intros d0 pile cf n Fs vs p er ch ev dd cx g F Hf Hwf Hroom Hcx Hnd Htab.
  assert (HR : RR g Fs None vs (state_of g F None vs None)).
  { exists F. split; [apply state_of_R; exact Hnd|exact Htab]. }
  destruct (refine_fails_exec_cmds d0 pile cf n Fs None vs p er ch ev dd cx [] _ g Hf Hwf Hroom Hcx HR) as (s' & Hg & E).
  rewrite CoreRefine.run_child_of. unfold run_with. unfold CoreRefine.state_of in E. cbn [flag_var] in E. rewrite E, Hg. reflexivity.
Qed.

End Refine.

(* ================================================================== Compiler.compile *)
Section Top.
Variable fo : FloatOps.
Variable dir : path.
Variable prog : program.
Variable fs : fsys.

(* THE REFINEMENT THEOREM FOR FAILURES: a failure derivation for the entry file, with the room that
   the stack limit leaves above the main stack, is what Compiler.compile returns: the error class,
   the trace = the frames of the chain, and the glob = the events raised before the failure *)
Theorem refine_fails_compile_items : forall o entry er ch ev,
  prog_ok dir prog fs -> prog_closed dir prog fs -> (1 <= stack_limit o)%Z ->
  ufails fo prog (include_comments o) (supress_command_not_exist o) entry (room_of_limit (stack_limit o)) er ch ev ->
  exists stmts, lookup entry prog = Some stmts /\
    compile_items fo o fs (Some (file_of dir entry)) (uitems_of stmts) =
    (CoreAllBase.apply_evs dir ev (mkGlob [] []), IErr er (Some (map (CoreAllBase.conc_frame dir) ch))).
Proof.
  intros o entry er ch ev Hprog Hmiss Hlim (stmts & Hlk & Hf).
  set (cx := mkCtx o fs [] (Some (file_of dir entry))).
  assert (Hroom : room (run_depth o) cx (room_of_limit (stack_limit o))).
  { unfold room, run_depth, room_of_limit. cbn [c_pile c_opts length cx]. split; lia. }
  assert (Hcx : cx_ok dir (include_comments o) (supress_command_not_exist o) fs [] entry cx).
  { repeat split. }
  destruct (Hprog entry stmts Hlk) as (Hwf & _).
  exists stmts. split; [exact Hlk|].
  unfold compile_items. rewrite initial_env_eq. unfold uitems_of. fold cx.
  rewrite (refine_fails_run fo (initial_sys fo) (initial_sys_nodup fo) dir prog (include_comments o)
             (supress_command_not_exist o) fs Hprog Hmiss _ [] entry 1%Z [] [] stmts er ch ev
             (run_depth o) cx (mkGlob [] []) [] Hf (uwfx_list_of_uwf _ Hwf) Hroom Hcx).
  - reflexivity.
  - constructor.
  - exact (utab_rel_nil dir).
Qed.

(* the (file, line) list of the trace is the (file, line) list of the chain *)
Lemma trace_chain_lines : forall ch,
  map (fun fr => (fr_file fr, snd (fr_line fr))) (map (CoreAllBase.conc_frame dir) ch) =
  map (fun fl : str * Z => (Some (file_of dir (fst fl)), snd fl)) (chain_lines ch).
Proof. intro ch. unfold chain_lines. rewrite !map_map. reflexivity. Qed.

(* the readable consequences: class, located trace, and the prints / warnings made before the failure *)
Corollary refine_fails_compile_items_chain : forall o entry er ch ev,
  prog_ok dir prog fs -> prog_closed dir prog fs -> (1 <= stack_limit o)%Z ->
  ufails fo prog (include_comments o) (supress_command_not_exist o) entry (room_of_limit (stack_limit o)) er ch ev ->
  exists stmts g tr, lookup entry prog = Some stmts /\
    compile_items fo o fs (Some (file_of dir entry)) (uitems_of stmts) = (g, IErr er (Some tr)) /\
    map (fun fr => (fr_file fr, snd (fr_line fr))) tr =
      map (fun fl : str * Z => (Some (file_of dir (fst fl)), snd fl)) (chain_lines ch) /\
    map fr_line2 tr = map (fun sf => if sf_inline sf then Some (sf_text sf, sf_num sf) else None) ch /\
    rev (g_prints g) = map (CoreAllBase.conc_print dir) (prints_of ev) /\
    rev (g_warnings g) = map (CoreAllBase.conc_warning dir) (warnings_of ev).
Proof.
  intros o entry er ch ev Hprog Hmiss Hlim Hf.
  destruct (refine_fails_compile_items o entry er ch ev Hprog Hmiss Hlim Hf) as (stmts & Hlk & E).
  exists stmts, (CoreAllBase.apply_evs dir ev (mkGlob [] [])), (map (CoreAllBase.conc_frame dir) ch).
  split; [exact Hlk|]. split; [exact E|]. split; [apply trace_chain_lines|].
  split; [rewrite map_map; reflexivity|].
  split; [apply CoreAllTop.prints_of_glob|apply CoreAllTop.warnings_of_glob].
Qed.

End Top.
