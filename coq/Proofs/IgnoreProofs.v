(* C16: "The lines of an IGNORE block are emitted verbatim and unchecked."
   block_compile for the BKIgnore kind, the palette class, the line of a stack, and the
   triple-quoted form of the block in the text (tab parser). *)
From Coq Require Import NArith ZArith List Bool Lia.
From DS Require Import Base PyStr Values Expr TabParse Tables Constants Interp.
From DS Require Import PipelineProofs BlockTree TabProofs TabRoundTrip.
Import ListNotations.

Arguments IOk {A}. Arguments IErr {A}. Arguments ICrash {A}. Arguments IUnmod {A}.
Arguments s_g {fo}. Arguments s_env {fo}. Arguments s_line2 {fo}. Arguments mkSt {fo}.

(* a block of plain lines *)
Definition plain_block (ls : list preline) : list item := map (fun cn => Ln (fst cn) (snd cn)) ls.

Fixpoint has_nested (b : list item) : bool :=
  match b with
  | [] => false
  | Ln _ _ :: r => has_nested r
  | Blk _ :: _ => true
  end.

Lemma block_lines_plain : forall ls,
  block_lines (plain_block ls) = Some (map (fun cn => mkLine (AStr (fst cn)) (snd cn) cn) ls).
Proof.
  induction ls as [|[c n] ls IH]; [reflexivity|].
  cbn [plain_block map block_lines fst snd]. fold (plain_block ls). rewrite IH. reflexivity.
Qed.

Lemma block_lines_nested : forall b, has_nested b = true -> block_lines b = None.
Proof.
  induction b as [|[c n|b'] r IH]; intro H; cbn [has_nested] in H; [discriminate| |reflexivity].
  cbn [block_lines]. rewrite (IH H). reflexivity.
Qed.

Lemma block_lines_not_nested : forall b, has_nested b = false -> exists ls, b = plain_block ls.
Proof.
  induction b as [|[c n|b'] r IH]; intro H; cbn [has_nested] in H; [exists []; reflexivity| |discriminate].
  destruct (IH H) as [ls ->]. exists ((c, n) :: ls). reflexivity.
Qed.

Lemma items_flat_plain : forall ls, items_flat (plain_block ls) = ls.
Proof.
  induction ls as [|[c n] ls IH]; [reflexivity|].
  unfold items_flat, plain_block in *. cbn [map flat_map item_lines fst snd app]. f_equal. exact IH.
Qed.

Lemma has_nested_plain : forall ls, has_nested (plain_block ls) = false.
Proof. induction ls as [|[c n] ls IH]; [reflexivity|exact IH]. Qed.

Definition is_ignore_class (bc : block_cls) : Prop :=
  b_kind bc = BKIgnore /\ b_flipper_only bc = false /\ b_arg_req bc = NotAllowed.

Definition no_argument (argument : option str) : Prop := argument = None \/ argument = Some [].

Section Ignore.
Variable fo : FloatOps.
Variable child : runner fo.
Variable cx : ctx.
Variable cur : preline.

(* the lines are emitted as they are: no tokenization, no validator, no upper-casing, no
   stripping; the state (environment, line_2, prints, warnings) is unchanged *)
Lemma ignore_verbatim : forall bc cname cmd num argument ls s,
  is_ignore_class bc -> no_argument argument ->
  block_compile fo child cx cur bc cname cmd num argument (Some (plain_block ls)) s =
  (s, IOk (RComp (mkCret (map (mkO ByIgnore) (map fst ls)) SNormal))).
Proof.
  intros bc cname cmd num argument ls s (Hk & Hf & Hr) Ha.
  unfold block_compile, check_flipper. rewrite Hf, Hr, Hk. cbn [andb].
  assert (Hh : match argument with Some (_ :: _) => true | _ => false end = false)
    by (destruct Ha as [-> | ->]; reflexivity).
  rewrite Hh. unfold bindM, ret. rewrite block_lines_plain.
  rewrite !map_map. reflexivity.
Qed.

(* a nested (deeper indented) group inside the block is a compile error *)
Lemma ignore_nested_rejected : forall bc cname cmd num argument b s,
  is_ignore_class bc -> no_argument argument -> has_nested b = true ->
  block_compile fo child cx cur bc cname cmd num argument (Some b) s =
  (s, IErr EGeneral (Some (here cx cur (s_line2 s)))).
Proof.
  intros bc cname cmd num argument b s (Hk & Hf & Hr) Ha Hn.
  unfold block_compile, check_flipper. rewrite Hf, Hr, Hk. cbn [andb].
  assert (Hh : match argument with Some (_ :: _) => true | _ => false end = false)
    by (destruct Ha as [-> | ->]; reflexivity).
  rewrite Hh. unfold bindM, ret. rewrite (block_lines_nested b Hn). reflexivity.
Qed.

(* an argument on the IGNORE line is a compile error, whatever the block is *)
Lemma ignore_argument_rejected : forall bc cname cmd num (a : str) code_block s,
  is_ignore_class bc -> a <> [] ->
  block_compile fo child cx cur bc cname cmd num (Some a) code_block s =
  (s, IErr EInvalidArguments (Some (here cx cur (s_line2 s)))).
Proof.
  intros bc cname cmd num a code_block s (Hk & Hf & Hr) Ha.
  unfold block_compile, check_flipper. rewrite Hf, Hr. cbn [andb].
  destruct a as [|a0 ar]; [contradiction|]. reflexivity.
Qed.

(* the three cases together decide every call *)
Lemma ignore_cases : forall bc cname cmd num argument b s,
  is_ignore_class bc ->
  block_compile fo child cx cur bc cname cmd num argument (Some b) s =
  (s, match argument with
      | Some (_ :: _) => IErr EInvalidArguments (Some (here cx cur (s_line2 s)))
      | _ => if has_nested b then IErr EGeneral (Some (here cx cur (s_line2 s)))
             else IOk (RComp (mkCret (map (mkO ByIgnore) (map fst (items_flat b))) SNormal))
      end).
Proof.
  intros bc cname cmd num argument b s Hc.
  destruct argument as [[|a0 ar]|].
  - destruct (has_nested b) eqn:Hn.
    + apply ignore_nested_rejected; [exact Hc|right; reflexivity|exact Hn].
    + destruct (block_lines_not_nested b Hn) as [ls ->].
      rewrite ignore_verbatim; [|exact Hc|right; reflexivity].
      rewrite items_flat_plain. reflexivity.
  - apply ignore_argument_rejected; [exact Hc|discriminate].
  - destruct (has_nested b) eqn:Hn.
    + apply ignore_nested_rejected; [exact Hc|left; reflexivity|exact Hn].
    + destruct (block_lines_not_nested b Hn) as [ls ->].
      rewrite ignore_verbatim; [|exact Hc|left; reflexivity].
      rewrite items_flat_plain. reflexivity.
Qed.

End Ignore.

(* ------------------------------------------------------------------ the palette class *)
Definition s_IGNORE : str := [73;71;78;79;82;69]%N.

Definition ignore_class_okb (cb : option (list item)) : bool :=
  match find_command palette s_IGNORE cb with
  | Some (_, Block bc) =>
      match b_kind bc, b_flipper_only bc, b_arg_req bc with
      | BKIgnore, false, NotAllowed => true
      | _, _, _ => false
      end
  | _ => false
  end.

(* dispatch looks at the block only through "is there a non-empty block" *)
Lemma is_this_command_block : forall c cmd x r y r',
  is_this_command c cmd (Some (x :: r)) = is_this_command c cmd (Some (y :: r')).
Proof. intros [sc|bc] cmd x r y r'; reflexivity. Qed.

Lemma find_command_block : forall pal cmd x r y r',
  find_command pal cmd (Some (x :: r)) = find_command pal cmd (Some (y :: r')).
Proof.
  induction pal as [|[n c] pal IH]; intros cmd x r y r'; [reflexivity|].
  cbn [find_command]. rewrite (is_this_command_block c cmd x r y r').
  destruct (is_this_command c cmd (Some (y :: r'))); [reflexivity|apply IH].
Qed.

Lemma palette_ignore_class : forall x r, ignore_class_okb (Some (x :: r)) = true.
Proof.
  intros x r. unfold ignore_class_okb.
  rewrite (find_command_block palette s_IGNORE x r (Ln [] 0%Z) []). vm_compute. reflexivity.
Qed.

(* IGNORE without a (non-empty) block is not the IGNORE command at all: no class claims the word *)
Lemma palette_ignore_needs_block :
  find_command palette s_IGNORE None = None /\ find_command palette s_IGNORE (Some []) = None.
Proof. split; vm_compute; reflexivity. Qed.

Section IgnoreLine.
Variable fo : FloatOps.
Variable child : runner fo.
Variable cx : ctx.

(* any casing of the word IGNORE, alone on its line, followed by a non-empty indented group *)
Lemma find_ignore : forall cmd x r, upper cmd = s_IGNORE -> starts_dollar cmd = false ->
  exists cname bc, find_command palette cmd (Some (x :: r)) = Some (cname, Block bc) /\ is_ignore_class bc.
Proof.
  intros cmd x r Hu Hd.
  pose proof (palette_ignore_class x r) as H. unfold ignore_class_okb in H.
  rewrite <- (find_command_upper palette cmd s_IGNORE (Some (x :: r)) Hu eq_refl Hd eq_refl) in H.
  destruct (find_command palette cmd (Some (x :: r))) as [[cname [sc|bc]]|]; try discriminate.
  exists cname, bc. split; [reflexivity|].
  unfold is_ignore_class.
  destruct (b_kind bc); try discriminate. destruct (b_flipper_only bc); try discriminate.
  destruct (b_arg_req bc); try discriminate. repeat split.
Qed.

Lemma exec_line_ignore : forall c cmd n x r s,
  split_ws1 c = [cmd] -> upper cmd = s_IGNORE -> starts_dollar cmd = false ->
  exec_line fo child cx c n (Some (x :: r)) s =
  (s, if has_nested (x :: r) then IErr EGeneral (Some (here cx (c, n) (s_line2 s)))
      else IOk (mkCret (map (mkO ByIgnore) (map fst (items_flat (x :: r)))) SNormal)).
Proof.
  intros c cmd n x r s Hs Hu Hd.
  destruct (find_ignore cmd x r Hu Hd) as (cname & bc & Hf & Hc).
  unfold exec_line. rewrite Hs, Hf. cbn [is_start_class andb].
  unfold bindM at 1. rewrite (ignore_cases fo child cx (c, n) bc cname cmd n None (x :: r) s Hc).
  destruct (has_nested (x :: r)); reflexivity.
Qed.

Lemma exec_line_ignore_argument : forall c cmd (a : str) more n x r s,
  split_ws1 c = cmd :: a :: more -> upper cmd = s_IGNORE -> starts_dollar cmd = false -> a <> [] ->
  exec_line fo child cx c n (Some (x :: r)) s =
  (s, IErr EInvalidArguments (Some (here cx (c, n) (s_line2 s)))).
Proof.
  intros c cmd a more n x r s Hs Hu Hd Ha.
  destruct (find_ignore cmd x r Hu Hd) as (cname & bc & Hf & Hc).
  unfold exec_line. rewrite Hs, Hf. cbn [is_start_class andb]. cbv beta iota zeta.
  unfold bindM at 1.
  rewrite (ignore_argument_rejected fo child cx (c, n) bc cname cmd n a (Some (x :: r)) s Hc Ha).
  reflexivity.
Qed.

(* in a stack: the lines of the block are spliced into the output in place, nothing else changes
   (line_2 was reset before the line), and the stack goes on with the commands after the block *)
Lemma exec_cmds_ignore : forall c cmd n ls l0 rest acc s,
  is_blank c = false -> split_ws1 c = [cmd] -> upper cmd = s_IGNORE -> starts_dollar cmd = false ->
  exec_cmds fo child cx (Ln c n :: Blk (plain_block (l0 :: ls)) :: rest) acc s =
  exec_cmds fo child cx rest (acc ++ map (mkO ByIgnore) (map fst (l0 :: ls)))
            (mkSt (s_g s) (s_env s) None).
Proof.
  intros c cmd n ls l0 rest acc s Hb Hs Hu Hd.
  cbn [exec_cmds]. rewrite Hb.
  unfold bindM at 1. unfold set_line2 at 1. unfold bindM at 1.
  change (plain_block (l0 :: ls)) with (Ln (fst l0) (snd l0) :: plain_block ls).
  rewrite (exec_line_ignore c cmd n (Ln (fst l0) (snd l0)) (plain_block ls) _ Hs Hu Hd).
  change (Ln (fst l0) (snd l0) :: plain_block ls) with (plain_block (l0 :: ls)).
  rewrite has_nested_plain. cbn [cr_sig cr_data].
  rewrite items_flat_plain. reflexivity.
Qed.

End IgnoreLine.

(* ------------------------------------------------------------------ the block written between triple quotes
   IGNORE
   u"""
   u<l1>
   ...
   u<lk>
   u"""
   Every non-blank line between the delimiters reaches the block as it is written minus ONE
   indentation unit -- whatever it begins with (further white space, a different kind of white
   space) and with no tab check inside the quotation.  Without the quotes a line beginning with
   white space would be taken for a deeper level (or a tab mismatch). *)
Section Quoted.
Variable u : str.
Hypothesis Hu : wf_unit u.

Lemma triple_nonblank : is_blank triple_quote = false.
Proof. reflexivity. Qed.

Lemma wf_content_triple_fails : startswith triple_quote triple_quote = true.
Proof. reflexivity. Qed.

(* inside a quotation (free <> 0) the lines are appended as they are *)
Lemma pd_loop_quoted : forall rec ls m rest tab ret free,
  free <> 0%Z ->
  (forall l, In l ls -> is_blank l = false /\ startswith triple_quote l = false) ->
  pd_loop rec (number_from m ls ++ rest) tab [] ret free false =
  pd_loop rec rest tab [] (rev (plain_block (number_from m ls)) ++ ret) free false.
Proof.
  intros rec ls. induction ls as [|l ls IH]; intros m rest tab ret free Hf Hl; [reflexivity|].
  cbn [number_from app pd_loop].
  destruct (Hl l (or_introl eq_refl)) as [Hb Ht]. rewrite Hb, Ht. cbn [andb].
  apply Z.eqb_neq in Hf. rewrite Hf. cbn [negb].
  apply Z.eqb_neq in Hf.
  rewrite IH; [|exact Hf|intros l' Hl'; apply Hl; right; exact Hl'].
  cbn [plain_block map rev fst snd]. rewrite <- app_assoc. reflexivity.
Qed.

Lemma discover_unit_triple : discover_tab_char (u ++ triple_quote) = u.
Proof. apply discover_ws_app; [exact (proj2 Hu)|reflexivity]. Qed.

Lemma has_tab_first_triple : forall n, has_tab (u ++ triple_quote) None n = TOk (NewTab u).
Proof.
  intro n. unfold has_tab. rewrite discover_unit_triple.
  destruct Hu as [H1 H2]. destruct u as [|x u']; [contradiction|]. cbn [app].
  assert (Hor : ((x =? sp)%N || (x =? tb)%N) = true) by (destruct H1 as [->| ->]; reflexivity).
  rewrite Hor. reflexivity.
Qed.

Definition quoted_ignore_text (word : str) (ls : list str) : list str :=
  word :: (u ++ triple_quote) :: map (app u) ls ++ [u ++ triple_quote].

Theorem quoted_block_parse : forall word ls,
  wf_content word ->
  (forall l, In l ls -> is_blank l = false /\ startswith triple_quote l = false) ->
  parse_document (convert_to (quoted_ignore_text word ls)) =
  TOk [Ln word 1%Z; Blk (plain_block (number_from 3%Z ls))].
Proof.
  intros word ls Hw Hl.
  unfold parse_document, convert_to, quoted_ignore_text.
  set (fuel := length _). cbn [number_from Z.add Pos.add Pos.succ].
  change (1 + 1)%Z with 2%Z. change (2 + 1)%Z with 3%Z.
  cbn [parse_doc].
  (* line 1: the command word *)
  cbn [pd_loop].
  rewrite (wf_content_nonblank word Hw).
  destruct Hw as [Hw1 Hw2]. rewrite Hw2. cbn [andb].
  change (negb (0 =? 0)%Z) with false. cbv iota.
  rewrite (has_tab_stmt u Hu word None 1%Z (conj Hw1 Hw2) (or_introl eq_refl)).
  (* line 2: the opening delimiter, one unit deep *)
  cbn [pd_loop].
  rewrite (is_blank_ws_app u triple_quote (proj2 Hu)). rewrite triple_nonblank.
  rewrite (unit_not_triple u Hu). cbn [andb].
  change (negb (0 =? 0)%Z) with false. cbv iota.
  rewrite has_tab_first_triple. rewrite removeprefix_app_same.
  (* the lines and the closing delimiter *)
  rewrite number_from_app. set (m := (3 + _)%Z).
  rewrite (pd_loop_indented u Hu _ ls 3%Z).
  2:{ intros l Hin. exact (proj1 (Hl l Hin)). }
  cbn [number_from app].
  rewrite (pd_loop_indented_line u Hu); [|reflexivity|left; reflexivity].
  cbn [pd_loop]. change (negb (0 =? 0)%Z) with false. cbv iota.
  (* the recursive call on the block *)
  cbn [rev app]. rewrite rev_app_distr, rev_involutive. cbn [rev app].
  assert (Hfuel : exists f, fuel = S f).
  { subst fuel. cbn [length]. eexists. reflexivity. }
  destruct Hfuel as [f ->]. cbn [parse_doc].
  cbn [pd_loop]. rewrite triple_nonblank. cbn [startswith N.eqb Pos.eqb andb orb].
  change (0 =? 0)%Z with true. cbv iota.
  rewrite (pd_loop_quoted (parse_doc f) ls 3%Z _ (Some u) [] 2%Z); [|discriminate|exact Hl].
  cbn [pd_loop]. rewrite triple_nonblank. cbn [startswith N.eqb Pos.eqb andb orb negb].
  change (2 =? 0)%Z with false. cbn [negb orb andb]. cbv iota.
  cbn [negb Z.eqb]. rewrite app_nil_r, rev_involutive. reflexivity.
Qed.

End Quoted.

Section QuotedCompile.
Variable fo : FloatOps.

(* text -> output: the whole compilation of the quoted IGNORE block as the first command *)
Theorem quoted_ignore_compiles : forall word ls child cx rest acc s,
  split_ws1 word = [word] -> is_blank word = false ->
  upper word = s_IGNORE -> starts_dollar word = false ->
  ls <> [] ->
  exec_cmds fo child cx (Ln word 1%Z :: Blk (plain_block (number_from 3%Z ls)) :: rest) acc s =
  exec_cmds fo child cx rest (acc ++ map (mkO ByIgnore) ls) (mkSt (s_g s) (s_env s) None).
Proof.
  intros word ls child cx rest acc s Hs Hb Hup Hd Hne.
  destruct ls as [|l0 ls]; [contradiction|].
  change (number_from 3 (l0 :: ls)) with ((l0, 3%Z) :: number_from 4%Z ls).
  pose proof (exec_cmds_ignore fo child cx word word 1%Z (number_from 4%Z ls) (l0, 3%Z) rest acc s Hb Hs Hup Hd) as E.
  eapply eq_trans; [exact E|]. clear E.
  f_equal. f_equal. f_equal. cbn [map fst]. f_equal.
  clear Hne. generalize 4%Z. induction ls as [|l ls IH]; intro m; [reflexivity|].
  cbn [number_from map fst]. f_equal. apply IH.
Qed.

End QuotedCompile.
