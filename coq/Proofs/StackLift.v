(* A generic two-part invariant lifted through every action of Section Stack of Interp.v:
     - a preorder [Rg] on the shared glob (prints, warnings) relating the state before and after,
     - a predicate [Et cur] on the trace carried by an error raised while line [cur] is current.
   The child runner is arbitrary; it only has to satisfy the same two-part invariant for the
   contexts it is actually called with (pile = here cur l2).  Instances: PrintsMono.v (T2),
   TraceShape.v (T1), UnknownWarn.v (T3). *)
From Coq Require Import NArith ZArith List Bool Lia.
From DS Require Import Base PyStr Values Expr TabParse Tables Constants Interp.
Import ListNotations.

Section Lift.
Variable fo : FloatOps.
Notation M := (M fo).
Notation st := (st fo).
Notation s_g := (s_g fo).
Notation bindM := (bindM fo).
Notation ret := (ret fo).

Variable Rg : glob -> glob -> Prop.
Hypothesis Rg_refl : forall g, Rg g g.
Hypothesis Rg_trans : forall a b c, Rg a b -> Rg b c -> Rg a c.
Hypothesis Rg_warn : forall w g, Rg g (add_warning w g).
Hypothesis Rg_print : forall p g, Rg g (mkGlob (p :: g_prints g) (g_warnings g)).

Variable child : runner fo.
Variable cx : ctx.
Variable Et : preline -> option (list frame) -> Prop.
Hypothesis Et_here : forall cur l2, Et cur (Some (here cx cur l2)).
Hypothesis Et_none : forall cur, Et cur None.

Definition res_sat (cur : preline) {A} (r : ires A) : Prop :=
  match r with IErr _ _ t => Et cur t | _ => True end.

(* [Call cur file code]: the child calls (made while [cur] is current) that have to be covered *)
Variable Call : preline -> option path -> list item -> Prop.

Hypothesis Hchild : forall cur l2 file g e code g' r,
  Call cur file code ->
  child (mkCtx (c_opts cx) (c_fs cx) (here cx cur l2) file) g e code = (g', r) ->
  Rg g g' /\ res_sat cur r.

(* the three kinds of call sites: block commands (IF/ELSE/REPEAT/WHILE) run their block in the same
   file; RUN runs the body of a function of the environment; START runs a parsed file *)
Definition block_of (cb : option (list item)) : list item := match cb with Some b => b | None => [] end.
Definition call_block (cur : preline) (cb : option (list item)) : Prop := Call cur (c_file cx) (block_of cb).
Definition call_run (cur : preline) : Prop :=
  forall f : func, Call cur (match fn_file f with Some p => Some p | None => c_file cx end) (fn_code f).
Definition call_start (cur : preline) : Prop :=
  forall target text code, c_fs cx target = Some text -> prepare_text text = TOk code -> Call cur (Some target) code.

Definition sat (cur : preline) {A} (m : M A) : Prop :=
  forall s s' r, m s = (s', r) -> Rg (s_g s) (s_g s') /\ res_sat cur r.

Lemma sat_ret : forall cur A (a : A), sat cur (ret a).
Proof. intros cur A a s s' r E. injection E as <- <-. split; [apply Rg_refl|exact I]. Qed.

Lemma sat_raise : forall cur A e, sat cur (@raise fo cx cur A e).
Proof. intros cur A e s s' r E. injection E as <- <-. split; [apply Rg_refl|apply Et_here]. Qed.

Lemma sat_crash : forall cur A k, sat cur (@crash fo A k).
Proof. intros cur A k s s' r E. injection E as <- <-. split; [apply Rg_refl|exact I]. Qed.

Lemma sat_unmod : forall cur A, sat cur (@unmod fo A).
Proof. intros cur A s s' r E. injection E as <- <-. split; [apply Rg_refl|exact I]. Qed.

Lemma sat_lift : forall cur A (x : res A), sat cur (lift fo cx cur x).
Proof.
  intros cur A x. destruct x; cbn [lift]; [apply sat_ret|apply sat_raise|apply sat_crash|apply sat_unmod].
Qed.

Lemma sat_bind : forall cur A B (m : M A) (f : A -> M B),
  sat cur m -> (forall a, sat cur (f a)) -> sat cur (bindM m f).
Proof.
  intros cur A B m f Hm Hf s s' r E. unfold Interp.bindM in E.
  destruct (m s) as [s1 [a|e t|k|]] eqn:Em; destruct (Hm _ _ _ Em) as [H1 H2].
  - destruct (Hf a _ _ _ E) as [H3 H4]. split; [eapply Rg_trans; eassumption|exact H4].
  - injection E as <- <-. split; assumption.
  - injection E as <- <-. split; assumption.
  - injection E as <- <-. split; assumption.
Qed.

Lemma sat_get_env : forall cur, sat cur (get_env fo).
Proof. intros cur s s' r E. injection E as <- <-. split; [apply Rg_refl|exact I]. Qed.

Lemma sat_set_env : forall cur e, sat cur (set_env fo e).
Proof. intros cur e s s' r E. injection E as <- <-. split; [apply Rg_refl|exact I]. Qed.

Lemma sat_set_line2 : forall cur l, sat cur (set_line2 fo l).
Proof. intros cur l s s' r E. injection E as <- <-. split; [apply Rg_refl|exact I]. Qed.

Lemma sat_warn : forall cur t, sat cur (warn fo cx cur t).
Proof. intros cur t s s' r E. injection E as <- <-. split; [apply Rg_warn|exact I]. Qed.

Lemma sat_add_plain_warning : forall cur t, sat cur (add_plain_warning fo t).
Proof. intros cur t s s' r E. injection E as <- <-. split; [apply Rg_warn|exact I]. Qed.

Lemma sat_print : forall cur p,
  sat cur (mod_glob fo (fun g => mkGlob (p :: g_prints g) (g_warnings g))).
Proof. intros cur p s s' r E. injection E as <- <-. split; [apply Rg_print|exact I]. Qed.

Lemma sat_run_child_with : forall cur code file parallel setup pre,
  Call cur file code ->
  sat cur (run_child_with fo child cx cur code file parallel setup pre).
Proof.
  intros cur code file parallel setup pre HC s s' r E. unfold run_child_with in E.
  destruct (cmp_eval _ _ _).
  { injection E as <- <-. split; [apply Rg_refl|apply Et_here]. }
  destruct (setup _) as [cenv1|e|k|].
  2:{ injection E as <- <-. split; [apply Rg_refl|apply Et_here]. }
  2:{ injection E as <- <-. split; [apply Rg_refl|exact I]. }
  2:{ injection E as <- <-. split; [apply Rg_refl|exact I]. }
  destruct (pre cenv1) as [[|]|e|k|].
  2:{ injection E as <- <-. split; [apply Rg_refl|exact I]. }
  2:{ injection E as <- <-. split; [apply Rg_refl|apply Et_here]. }
  2:{ injection E as <- <-. split; [apply Rg_refl|exact I]. }
  2:{ injection E as <- <-. split; [apply Rg_refl|exact I]. }
  destruct (child _ _ _ _) as [g' rr] eqn:Ec. apply (Hchild _ _ _ _ _ _ _ _ HC) in Ec. destruct Ec as [Hg Hr].
  destruct rr as [[cr cenv2]|e t|k|]; injection E as <- <-; split; try exact Hg; try exact I.
  exact Hr.
Qed.

Lemma sat_tokenizeM : forall cur a, sat cur (tokenizeM fo cx cur a).
Proof. intros. unfold tokenizeM. apply sat_bind; [apply sat_get_env|intros e; apply sat_lift]. Qed.

Ltac sat_step :=
  first
    [ apply sat_ret | apply sat_raise | apply sat_crash | apply sat_unmod | apply sat_lift
    | apply sat_get_env | apply sat_set_env | apply sat_set_line2 | apply sat_warn
    | apply sat_add_plain_warning | apply sat_print | apply sat_tokenizeM
    | assumption
    | apply sat_bind; [|intros ?]
    | match goal with
      | |- sat _ (if ?b then _ else _) => destruct b
      | |- sat _ (match ?x with _ => _ end) => destruct x
      | |- sat _ (let '(_, _) := ?x in _) => destruct x
      end ].
Ltac sat_tac := repeat sat_step.

Lemma sat_run_child : forall cur code file parallel setup,
  Call cur file code ->
  sat cur (run_child fo child cx cur code file parallel setup).
Proof.
  intros cur code file parallel setup HC. unfold run_child.
  apply sat_bind; [apply sat_run_child_with; exact HC|intros r]. sat_tac.
Qed.

Lemma sat_new_var : forall cur name v, sat cur (new_var fo cx cur name v).
Proof. intros. unfold new_var. sat_tac. Qed.

Lemma sat_listify_args : forall cur argument code_block num,
  sat cur (listify_args fo cx cur argument code_block num).
Proof. intros. unfold listify_args. sat_tac. Qed.

Lemma sat_evaluate_args : forall cur at_ args, sat cur (evaluate_args fo cx cur at_ args).
Proof.
  intros cur at_ args. induction args as [|l r IH]; cbn [evaluate_args]; sat_tac.
Qed.

Lemma sat_check_types : forall cur at_ args, sat cur (check_types fo cx cur at_ args).
Proof. intros cur at_ args. induction args as [|[l oc] r IH]; cbn [check_types]; sat_tac. Qed.

Lemma sat_verify_each : forall cur params v args, sat cur (verify_each fo cx cur params v args).
Proof. intros cur params v args. induction args as [|l r IH]; cbn [verify_each]; sat_tac. Qed.

Lemma sat_verify_plural : forall cur pv n, sat cur (verify_plural fo cx cur pv n).
Proof. intros. unfold verify_plural. sat_tac. Qed.

Lemma sat_format_each : forall cur params f args, sat cur (format_each fo cx cur params f args).
Proof. intros cur params f args. induction args as [|l r IH]; cbn [format_each]; sat_tac. Qed.

Lemma sat_check_flipper : forall cur b, sat cur (check_flipper fo cx cur b).
Proof. intros. unfold check_flipper. sat_tac. Qed.

Lemma sat_run_compile : forall cur cname sc name arg,
  (s_run sc = RKRun -> call_run cur) -> (s_run sc = RKStart -> call_start cur) ->
  sat cur (run_compile fo child cx cur cname sc name arg).
Proof.
  intros cur cname sc name arg Hrun Hstart. unfold run_compile.
  destruct (s_run sc) eqn:Ek.
  - sat_tac.
  - sat_tac.
  - sat_tac.
  - sat_tac.
  - sat_tac.
  - sat_tac.
  - sat_tac.
  - sat_tac.
  - sat_tac.
  - sat_tac.
  - (* RUN *)
    destruct arg as [l|]; [|sat_tac].
    destruct (break_arg _) as [fname var_string].
    apply sat_bind.
    { destruct var_string as [vs|]; [|sat_tac]. destruct (is_blank vs); [sat_tac|].
      apply sat_bind; [apply sat_tokenizeM|intros v]. sat_tac. }
    intros vals.
    apply sat_bind; [apply sat_get_env|intros e].
    destruct (lookup fname (e_funcs fo e)) as [f|]; [|sat_tac].
    destruct (negb _); [sat_tac|].
    apply sat_bind; [apply sat_run_child; apply (Hrun eq_refl)|intros cr]. sat_tac.
  - destruct arg as [l|]; [|sat_tac].
    destruct (split_ws1 _) as [|vname [|expr [|x y]]]; try solve [sat_tac].
    apply sat_bind; [apply sat_tokenizeM|intros v].
    apply sat_bind; [apply sat_new_var|intros u]. sat_tac.
  - sat_tac.
  - sat_tac.
  - (* START *)
    destruct arg as [l|]; [|sat_tac]. destruct (c_file cx) as [file|]; [|sat_tac].
    apply sat_bind; [sat_tac|intros target].
    destruct (c_fs cx target) as [text|] eqn:Efs; [|sat_tac].
    intros s s' r E.
    destruct (existsb _ _); [injection E as <- <-; split; [apply Rg_refl|apply Et_here]|].
    destruct (prepare_text text) as [commands|[| | | |]] eqn:Ep;
      try (injection E as <- <-; split; [apply Rg_refl|first [apply Et_none|exact I]]).
    match type of E with ?m s = _ => assert (Hp : sat cur m) end; [|exact (Hp s s' r E)].
    apply sat_bind; [apply sat_run_child; exact (Hstart eq_refl target text commands Efs Ep)|intros cr].
    apply sat_bind; [destruct (s_sig_warning _); [apply sat_add_plain_warning|sat_tac]|intros u].
    sat_tac.
Qed.

Lemma sat_multi_comp : forall cur cname tg sc name args acc,
  (s_run sc = RKRun -> call_run cur) -> (s_run sc = RKStart -> call_start cur) ->
  sat cur (multi_comp fo child cx cur cname tg sc name args acc).
Proof.
  intros cur cname tg sc name args acc Hrun Hstart. revert acc. induction args as [|a r IH]; intro acc; cbn [multi_comp].
  - sat_tac.
  - apply sat_bind; [sat_tac|intros u].
    apply sat_bind; [apply sat_run_compile; assumption|intros c]. apply IH.
Qed.

Lemma sat_simple_compile : forall cur cname tg sc cmd num argument code_block,
  (s_run sc = RKRun -> call_run cur) -> (s_run sc = RKStart -> call_start cur) ->
  sat cur (simple_compile fo child cx cur cname tg sc cmd num argument code_block).
Proof.
  intros cur cname tg sc cmd num argument code_block Hrun Hstart. unfold simple_compile.
  apply sat_bind; [apply sat_check_flipper|intros u0].
  apply sat_bind; [apply sat_listify_args|intros args0].
  apply sat_bind.
  { destruct (_ || _); [|sat_tac].
    apply sat_bind; [apply sat_evaluate_args|intros vs].
    induction vs as [|[l v] r IH]; sat_tac. }
  intros args2.
  apply sat_bind; [sat_tac|intros u1].
  apply sat_bind; [apply sat_check_types|intros args3].
  apply sat_bind; [apply sat_verify_plural|intros u2].
  apply sat_bind; [apply sat_verify_each|intros u3].
  apply sat_bind; [apply sat_format_each|intros args4].
  apply sat_multi_comp; assumption.
Qed.

Lemma sat_tokenize_count : forall cur a, sat cur (tokenize_count fo cx cur a).
Proof.
  intros. unfold tokenize_count.
  apply sat_bind; [apply sat_tokenizeM|intros v]. sat_tac.
Qed.

Lemma sat_repeat_loop : forall cur fuel v a code count acc,
  Call cur (c_file cx) code ->
  sat cur (repeat_loop fo child cx cur fuel v a code count acc).
Proof.
  intros cur fuel. induction fuel as [|f IH]; intros v a code count acc HC; cbn [repeat_loop].
  - apply sat_bind; [apply sat_tokenize_count|intros n]. sat_tac.
  - apply sat_bind; [apply sat_tokenize_count|intros n].
    destruct (count <? n)%Z; [|sat_tac].
    apply sat_bind; [apply sat_run_child; exact HC|intros cr].
    destruct (loop_signal _) as [sg brk]. destruct brk; [sat_tac|apply IH; exact HC].
Qed.

Lemma sat_while_loop : forall cur fuel v a code count acc,
  Call cur (c_file cx) code ->
  sat cur (while_loop fo child cx cur fuel v a code count acc).
Proof.
  intros cur fuel. induction fuel as [|f IH]; intros v a code count acc HC; cbn [while_loop].
  - sat_tac.
  - destruct (cmp_eval _ _ _); [sat_tac|].
    apply sat_bind; [apply sat_run_child_with; exact HC|intros [cr|]]; [|sat_tac].
    destruct (loop_signal _) as [sg brk]. destruct brk; [sat_tac|apply IH; exact HC].
Qed.

Lemma sat_get_temp_flag : forall cur, sat cur (get_temp_flag fo).
Proof. intros. unfold get_temp_flag. sat_tac. Qed.

Lemma sat_set_temp_flag : forall cur b, sat cur (set_temp_flag fo b).
Proof. intros. unfold set_temp_flag. sat_tac. Qed.

Lemma sat_block_compile : forall cur bc cname cmd num argument code_block,
  call_block cur code_block ->
  sat cur (block_compile fo child cx cur bc cname cmd num argument code_block).
Proof.
  intros cur bc cname cmd num argument code_block HC. unfold call_block, block_of in HC. unfold block_compile.
  apply sat_bind; [apply sat_check_flipper|intros u0].
  apply sat_bind; [sat_tac|intros u1].
  set (arg' := if b_strip_arg bc then _ else _). clearbody arg'.
  destruct (b_kind bc).
  - apply sat_bind; [apply sat_get_env|intros e].
    apply sat_bind; [destruct (has_key _ _); [sat_tac|apply sat_set_temp_flag]|intros u2].
    apply sat_bind; [sat_tac|intros u3].
    apply sat_bind.
    { destruct arg' as [a|]; [|sat_tac]. destruct (str_eqb _ _); [sat_tac|].
      apply sat_bind; [apply sat_tokenizeM|intros v]. sat_tac. }
    intros tok.
    apply sat_bind; [apply sat_get_temp_flag|intros flag].
    apply sat_bind.
    { destruct (str_eqb _ _); [|sat_tac]. apply sat_bind; [apply sat_set_temp_flag|intros u4]. sat_tac. }
    intros skip. destruct skip; [sat_tac|]. destruct (_ && _); [sat_tac|].
    apply sat_bind; [apply sat_set_temp_flag|intros u5].
    apply sat_bind; [apply sat_run_child; exact HC|intros cr]. sat_tac.
  - sat_tac.
  - destruct arg' as [a|]; [|sat_tac]. destruct (split_loop_arg a) as [var_name count_expr].
    destruct (match code_block with Some b => b | None => [] end) eqn:Ecode; [sat_tac|].
    destruct (match var_name with Some v => _ | None => _ end); [|sat_tac].
    apply sat_bind; [apply sat_repeat_loop; exact HC|intros cr]. sat_tac.
  - destruct arg' as [a|]; [|sat_tac]. destruct (split_loop_arg a) as [var_name cond].
    apply sat_bind; [apply sat_while_loop; exact HC|intros cr]. sat_tac.
  - destruct arg' as [a|]; [|sat_tac]. destruct (break_arg a) as [fname var_string].
    destruct (_ && _); [|sat_tac]. sat_tac.
Qed.

(* what the line [c] (followed by the block [cb]) may call, by the class that claims it *)
Definition line_calls (c : str) (n : Z) (cb : option (list item)) : Prop :=
  forall cmd more cname cl,
  split_ws1 c = cmd :: more -> find_command palette cmd cb = Some (cname, cl) ->
  match cl with
  | Block _ => call_block (c, n) cb
  | Simple sc => (s_run sc = RKRun -> call_run (c, n)) /\ (s_run sc = RKStart -> call_start (c, n))
  end.

Lemma line_calls_all : (forall cur file code, Call cur file code) -> forall c n cb, line_calls c n cb.
Proof.
  intros H c n cb cmd more cname cl _ _. destruct cl as [sc|bc].
  - split; intros _; [intros f; apply H|intros target text code _ _; apply H].
  - apply H.
Qed.

Theorem sat_exec_line : forall c n code_block,
  line_calls c n code_block -> sat (c, n) (exec_line fo child cx c n code_block).
Proof.
  intros c n code_block HL. unfold exec_line. unfold line_calls in HL.
  destruct (split_ws1 c) as [|cmd more]; [sat_tac|].
  destruct (find_command _ _ _) as [[cname cl]|] eqn:Ef.
  - specialize (HL cmd more cname cl eq_refl Ef).
    destruct (_ && _); [sat_tac|]. destruct cl as [sc|bc].
    + destruct HL as [Hrun Hstart]. apply sat_simple_compile; assumption.
    + apply sat_bind; [apply sat_block_compile; exact HL|intros r]. sat_tac.
  - apply sat_bind; [sat_tac|intros u]. apply sat_simple_compile; cbn [generic_simple s_run]; discriminate.
Qed.

(* the lines a stack running [cmds] can make current: the non-blank top-level ones *)
Definition top_lines (cmds : list item) : list preline :=
  flat_map (fun i => match i with Ln c n => if is_blank c then [] else [(c, n)] | Blk _ => [] end) cmds.

(* ... each with the block that follows it *)
Fixpoint line_blocks (cmds : list item) : list (preline * option (list item)) :=
  match cmds with
  | [] => []
  | Ln c n :: rest =>
      (if is_blank c then [] else [((c, n), match rest with Blk b :: _ => Some b | _ => None end)])
      ++ line_blocks rest
  | Blk _ :: rest => line_blocks rest
  end.

Definition cmds_calls (cmds : list item) : Prop :=
  forall c n cb, In ((c, n), cb) (line_blocks cmds) -> line_calls c n cb.

Definition res_sat_cmds (cmds : list item) {A} (r : ires A) : Prop :=
  match r with IErr _ _ t => exists cur, In cur (top_lines cmds) /\ Et cur t | _ => True end.

Lemma top_lines_ln : forall c n rest,
  top_lines (Ln c n :: rest) = (if is_blank c then [] else [(c, n)]) ++ top_lines rest.
Proof. reflexivity. Qed.

Lemma top_lines_blk : forall b rest, top_lines (Blk b :: rest) = top_lines rest.
Proof. reflexivity. Qed.

Lemma res_sat_cmds_mono : forall A a b (r : ires A),
  (forall cur, In cur (top_lines a) -> In cur (top_lines b)) -> res_sat_cmds a r -> res_sat_cmds b r.
Proof.
  intros A a b r Hab H. destruct r as [x|e t|k|]; try exact I.
  destruct H as (cur & Hin & Hcur). exists cur. split; [apply Hab; exact Hin|exact Hcur].
Qed.

Lemma line_blocks_top : forall cur cb cmds, In (cur, cb) (line_blocks cmds) -> In cur (top_lines cmds).
Proof.
  intros cur cb cmds. induction cmds as [|[c n|b] rest IH]; cbn [line_blocks]; intro H.
  - destruct H.
  - rewrite top_lines_ln. apply in_or_app. apply in_app_or in H. destruct H as [H|H]; [left|right; apply IH; exact H].
    destruct (is_blank c); [destruct H|]. destruct H as [H|[]]. injection H as <- _. left. reflexivity.
  - rewrite top_lines_blk. apply IH. exact H.
Qed.

Theorem sat_exec_cmds : forall cmds acc s s' r,
  cmds_calls cmds ->
  exec_cmds fo child cx cmds acc s = (s', r) -> Rg (s_g s) (s_g s') /\ res_sat_cmds cmds r.
Proof.
  intros cmds. induction cmds as [|[c n|b] rest IH]; intros acc s s' r HC E; cbn [exec_cmds] in E.
  - injection E as <- <-. split; [apply Rg_refl|exact I].
  - assert (HCrest : cmds_calls rest).
    { intros c0 n0 cb0 Hin. apply HC. cbn [line_blocks]. apply in_or_app. right. exact Hin. }
    assert (IH' : forall acc s s' r, exec_cmds fo child cx rest acc s = (s', r) ->
                  Rg (s_g s) (s_g s') /\ res_sat_cmds rest r).
    { intros acc0 s0 s0' r0 E0. exact (IH acc0 s0 s0' r0 HCrest E0). }
    clear IH.
    assert (Hsub : forall cur, In cur (top_lines rest) -> In cur (top_lines (Ln c n :: rest))).
    { intros cur Hin. rewrite top_lines_ln. apply in_or_app. right. exact Hin. }
    destruct (is_blank c) eqn:Eb.
    { apply IH' in E. destruct E as [Hg Hr]. split; [exact Hg|]. eapply res_sat_cmds_mono; eassumption. }
    unfold Interp.bindM at 1, set_line2 at 1 in E.
    unfold Interp.bindM at 1 in E.
    destruct (exec_line _ _ _ _ _ _ _) as [s1 r1] eqn:El.
    apply sat_exec_line in El.
    2:{ apply HC. cbn [line_blocks]. rewrite Eb. left. reflexivity. }
    cbn [Interp.s_g] in El. destruct El as [Hg1 Hr1].
    destruct r1 as [cr|e t|k|].
    + assert (Htail : forall s'' r'', exec_cmds fo child cx rest (acc ++ cr_data cr) s1 = (s'', r'') ->
                Rg (s_g s) (s_g s'') /\ res_sat_cmds (Ln c n :: rest) r'').
      { intros s'' r'' E'. apply IH' in E'. destruct E' as [Hg2 Hr2]. split; [eapply Rg_trans; eassumption|].
        eapply res_sat_cmds_mono; eassumption. }
      destruct (cr_sig cr); try (injection E as <- <-; split; [exact Hg1|exact I]).
      apply Htail. exact E.
    + injection E as <- <-. split; [exact Hg1|]. exists (c, n). split; [|exact Hr1].
      rewrite top_lines_ln, Eb. left. reflexivity.
    + injection E as <- <-. split; [exact Hg1|exact I].
    + injection E as <- <-. split; [exact Hg1|exact I].
  - apply IH in E; [|exact HC]. destruct E as [Hg Hr]. split; [exact Hg|].
    eapply res_sat_cmds_mono; [|exact Hr]. intros cur Hin. rewrite top_lines_blk. exact Hin.
Qed.

Theorem sat_run_with : forall g e cmds g' r,
  cmds_calls cmds ->
  run_with fo child cx g e cmds = (g', r) -> Rg g g' /\ res_sat_cmds cmds r.
Proof.
  intros g e cmds g' r HC E. unfold run_with in E.
  destruct (exec_cmds _ _ _ _ _ _) as [s1 r1] eqn:Ec. apply sat_exec_cmds in Ec; [|exact HC]. cbn [Interp.s_g] in Ec.
  destruct Ec as [Hg Hr]. destruct r1 as [cr|er t|k|]; injection E as <- <-; split; try exact Hg; try exact I.
  exact Hr.
Qed.

Lemma cmds_calls_all : (forall cur file code, Call cur file code) -> forall cmds, cmds_calls cmds.
Proof. intros H cmds c n cb _. apply line_calls_all. exact H. Qed.

End Lift.
