(* C14 (extension) -- calls: every RUN pushes one stack.  A chain of k nested calls compiles iff
   k is below the limit; direct recursion ends in StackOverflowError for every limit. *)
From Coq Require Import NArith ZArith List Bool Lia ZifyBool.
From DS Require Import Base PyStr Values Expr TabParse Tables Constants Interp LimitSpec NestSpec.
From DS Require Import CrashKinds LimitProofs UnknownWarn PipelineProofs RunProofs FuncProofs NestKinds.
Import ListNotations.
Arguments IOk {A}. Arguments IErr {A}. Arguments ICrash {A}. Arguments IUnmod {A}.

Lemma fnest_nonempty : forall k n, fnest n k <> [].
Proof. intros [|k] n; cbn [fnest]; discriminate. Qed.

Section Calls.
Variable fo : FloatOps.

(* the environments of these programs: nothing but (at most) the function f *)
Definition env_f (fl : list (str * func)) : env fo := mkEnv fo [(default_delay_var, VInt 0)] [] [] fl.
Definition Fn (b : list item) (file : option path) : func := mkFunc [] b file.
Definition fl_ok (fl : list (str * func)) : Prop := fl = [] \/ exists F0, fl = [(s_f, F0)].

Lemma update_env_f : forall fl e', good fo e' -> update_from_env fo (env_f fl) e' = env_f fl.
Proof. intros fl e' H. unfold good in H. unfold update_from_env, env_f. cbn [e_sys e_user e_temp e_funcs]. rewrite H. reflexivity. Qed.

Lemma good_env_f : forall fl, good fo (env_f fl).
Proof. reflexivity. Qed.

Section Step.
Variable child : runner fo.
Variable cx : ctx.
Notation limit_test := (limit_test cx).
Notation cx_in := (cx_in cx).

Lemma run_with_string_f : forall n g fl,
  run_with fo child cx g (env_f fl) [Ln s_STRING_x n] = (g, IOk (mkCret [x_line] SNormal, env_f fl)).
Proof. intros. unfold run_with. cbn. reflexivity. Qed.

(* FUNC f over a block: (re)defines f, emits nothing, pushes nothing *)
Lemma run_with_func : forall n g b fl, b <> [] -> fl_ok fl ->
  run_with fo child cx g (env_f fl) [Ln s_FUNC_f n; Blk b] =
  (g, IOk (mkCret [] SNormal, env_f [(s_f, Fn b (c_file cx))])).
Proof.
  intros n g b fl Hb Hfl. destruct b as [|x r]; [contradiction|]. unfold run_with.
  destruct Hfl as [-> | [F0 ->]]; cbn; reflexivity.
Qed.

(* RUN f where f is bound to [b], defined in this file: one push *)
Lemma run_with_run : forall m g b,
  run_with fo child cx g (env_f [(s_f, Fn b (c_file cx))]) [Ln s_RUN_f m] =
  if limit_test then (g, IErr EStackOverflow (Some (here cx (s_RUN_f, m) (Some (s_RUN_f, m)))))
  else match child (cx_in (s_RUN_f, m) (Some (s_RUN_f, m)) (c_file cx)) g (env_f [(s_f, Fn b (c_file cx))]) b with
       | (g', IOk (cr, cenv2)) =>
           match cr_sig cr with
           | SBreak | SContinue =>
               (g', IErr EStackReturnType (Some (here cx (s_RUN_f, m) (Some (s_RUN_f, m)))))
           | _ => (g', IOk (mkCret (cr_data cr) SNormal,
                           update_from_env fo (env_f [(s_f, Fn b (c_file cx))]) cenv2))
           end
       | (g', IErr e t) => (g', IErr e t)
       | (g', ICrash k) => (g', ICrash k)
       | (g', IUnmod) => (g', IUnmod)
       end.
Proof.
  intros m g b. unfold run_with.
  destruct (find_run s_RUN eq_refl eq_refl) as (cname & sc & Hf & Hdc & Hr).
  cbn [exec_cmds]. change (is_blank s_RUN_f) with false. cbv iota.
  unfold bindM at 1. unfold set_line2 at 1. unfold bindM at 1.
  unfold exec_line. change (split_ws1 s_RUN_f) with [s_RUN; s_f]. cbv beta iota. rewrite Hf.
  assert (Hst : is_start_class (Simple sc) = false) by (cbn [is_start_class]; rewrite Hr; reflexivity).
  rewrite Hst. cbn [andb]. cbv beta iota zeta.
  rewrite (direct_one_arg fo child cx (s_RUN_f, m) cname (ByCommand cname) sc s_RUN m s_f _ Hdc
             (starts_dollar_no_dollar s_RUN eq_refl) ltac:(discriminate)).
  cbn [Interp.s_g Interp.s_env].
  pose proof (run_calls fo child cx (s_RUN_f, m) cname sc s_RUN (AStr (strip s_f)) m (s_RUN_f, m) s_f None
             (@mkSt fo g (env_f [(s_f, Fn b (c_file cx))]) (Some (s_RUN_f, m))) [] (Fn b (c_file cx))
             Hr eq_refl eq_refl eq_refl eq_refl) as E.
  rew_conv E.
  unfold call_result. change (stack_full cx) with limit_test. destruct limit_test; [reflexivity|].
  cbn [Interp.s_g Interp.s_env Interp.s_line2].
  change (callee_env fo (Fn b (c_file cx)) [] (env_f [(s_f, Fn b (c_file cx))])) with (env_f [(s_f, Fn b (c_file cx))]).
  unfold callee_ctx, callee_file. cbn [fn_file fn_code Fn].
  replace (match c_file cx with Some p => Some p | None => c_file cx end) with (c_file cx)
    by (destruct (c_file cx); reflexivity).
  unfold NestKinds.cx_in.
  destruct (child _ g _ b) as [g' [[cr cenv2]|e t|k|]]; try reflexivity.
  destruct (cr_sig cr); reflexivity.
Qed.

(* FUNC f / block / RUN f *)
Lemma run_with_func_run : forall n m g b fl, b <> [] -> fl_ok fl ->
  run_with fo child cx g (env_f fl) [Ln s_FUNC_f n; Blk b; Ln s_RUN_f m] =
  run_with fo child cx g (env_f [(s_f, Fn b (c_file cx))]) [Ln s_RUN_f m].
Proof.
  intros n m g b fl Hb Hfl.
  change [Ln s_FUNC_f n; Blk b; Ln s_RUN_f m] with ([Ln s_FUNC_f n; Blk b] ++ Ln s_RUN_f m :: []).
  rewrite (run_with_app_ok fo child cx _ _ _ _ _ _ _ _ _ (run_with_func n g b fl Hb Hfl)).
  apply prepend_nil.
Qed.

End Step.

Section Chain.
Variable o : options.
Variable fs : fsys.
Variable file : option path.
Notation L := (stack_limit o).

(* ------------------------------------------------------------------ direct recursion *)
Definition rec_body : list item := [Ln s_RUN_f 2].
Definition env_rec : env fo := env_f [(s_f, Fn rec_body file)].

Lemma rec_overflow : forall j d pile m g,
  (L - Z.of_nat (length pile) - 1 <= Z.of_nat j)%Z -> (j <= d)%nat ->
  exists t, run fo d (mkCtx o fs pile file) g env_rec [Ln s_RUN_f m] = (g, IErr EStackOverflow (Some t)).
Proof.
  induction j as [|j IH]; intros d pile m g Hj Hd; rewrite run_unfold; unfold env_rec;
    rewrite (run_with_run _ (mkCtx o fs pile file) m g rec_body).
  - rewrite limit_test_true by lia. eexists. reflexivity.
  - destruct (NestKinds.limit_test (mkCtx o fs pile file)) eqn:Hlim; [eexists; reflexivity|].
    destruct d as [|d']; [lia|].
    unfold NestKinds.cx_in. cbn [c_opts c_fs c_file].
    destruct (IH d' (here (mkCtx o fs pile file) (s_RUN_f, m) (Some (s_RUN_f, m))) 2%Z g) as [t Ht].
    + rewrite here_length. cbn [c_pile]. lia.
    + lia.
    + unfold env_rec, rec_body in Ht. unfold rec_body. rewrite Ht. exists t. reflexivity.
Qed.

(* ------------------------------------------------------------------ k nested calls *)
Definition after_f (n : Z) (fl : list (str * func)) (k : nat) : env fo :=
  match k with O => env_f fl | S k' => env_f [(s_f, Fn (fnest (n + 1) k') file)] end.

Lemma fl_ok_one : forall F0, fl_ok [(s_f, F0)].
Proof. intro F0. right. exists F0. reflexivity. Qed.

Lemma fnest_within : forall k d pile n g fl, fl_ok fl ->
  (Z.of_nat (length pile) + Z.of_nat k < L)%Z -> (k <= d)%nat ->
  run fo d (mkCtx o fs pile file) g (env_f fl) (fnest n k) = (g, IOk (mkCret [x_line] SNormal, after_f n fl k)).
Proof.
  induction k as [|k IH]; intros d pile n g fl Hfl HL Hd.
  - cbn [fnest after_f]. rewrite run_unfold. apply run_with_string_f.
  - destruct d as [|d']; [lia|]. cbn [fnest after_f]. cbn [run].
    rewrite run_with_func_run by (try apply fnest_nonempty; exact Hfl).
    cbn [c_file]. rewrite run_with_run. rewrite limit_test_false by lia.
    unfold NestKinds.cx_in. cbn [c_opts c_fs c_file].
    rewrite IH.
    + cbn [cr_sig cr_data]. rewrite update_env_f; [reflexivity|].
      destruct k; cbn [after_f]; apply good_env_f.
    + apply fl_ok_one.
    + rewrite here_length. cbn [c_pile]. lia.
    + lia.
Qed.

Lemma fnest_overflow : forall k d pile n g fl, fl_ok fl ->
  (1 <= k)%nat ->
  (L <= Z.of_nat (length pile) + Z.of_nat k)%Z ->
  (L - Z.of_nat (length pile) - 1 <= Z.of_nat d)%Z ->
  exists t, run fo d (mkCtx o fs pile file) g (env_f fl) (fnest n k) = (g, IErr EStackOverflow (Some t)).
Proof.
  induction k as [|k IH]; intros d pile n g fl Hfl Hk HL Hd; [lia|].
  cbn [fnest]. rewrite run_unfold.
  rewrite run_with_func_run by (try apply fnest_nonempty; exact Hfl).
  cbn [c_file]. rewrite run_with_run.
  destruct (NestKinds.limit_test (mkCtx o fs pile file)) eqn:Hlim; [eexists; reflexivity|].
  unfold NestKinds.limit_test, stack_limit_op, pile_len in Hlim. cbn [cmp_eval c_pile c_opts] in Hlim.
  apply Z.leb_gt in Hlim.
  destruct d as [|d']; [lia|].
  unfold NestKinds.cx_in. cbn [c_opts c_fs c_file].
  destruct (IH d' (here (mkCtx o fs pile file) (s_RUN_f, (n + 1 + (2 * Z.of_nat k + 1))%Z)
                        (Some (s_RUN_f, (n + 1 + (2 * Z.of_nat k + 1))%Z)))
               (n + 1)%Z g [(s_f, Fn (fnest (n + 1) k) file)]) as [t Ht].
  - apply fl_ok_one.
  - lia.
  - rewrite here_length. cbn [c_pile]. lia.
  - rewrite here_length. cbn [c_pile]. lia.
  - rewrite Ht. exists t. reflexivity.
Qed.

End Chain.

(* ------------------------------------------------------------------ through Compiler.compile *)
Theorem unbounded_recursion_overflows_lemma : forall o fs file,
  exists t, compile_items fo o fs file rec_prog = (mkGlob [] [], IErr EStackOverflow (Some t)).
Proof.
  intros o fs file. unfold compile_items, rec_prog. rewrite run_unfold.
  change (initial_env fo) with (env_f []).
  rewrite run_with_func_run by (try discriminate; left; reflexivity).
  cbn [c_file]. rewrite <- run_unfold.
  destruct (rec_overflow o fs file (run_depth o) (run_depth o) [] 3%Z (mkGlob [] [])) as [t Ht].
  - unfold run_depth. cbn [length]. lia.
  - lia.
  - unfold env_rec, rec_body in Ht. rewrite Ht. exists t. reflexivity.
Qed.

Theorem nest_run_within_lemma : forall o fs file n k,
  (Z.of_nat k < stack_limit o)%Z ->
  compile_items fo o fs file (fnest n k) =
  (mkGlob [] [], IOk (mkCompiled fo [x_line] [] (after_f file n [] k) [])).
Proof.
  intros o fs file n k H. unfold compile_items. change (initial_env fo) with (env_f []).
  rewrite fnest_within; [reflexivity|left; reflexivity|cbn [length]; lia|unfold run_depth; lia].
Qed.

Theorem nest_run_overflow_lemma : forall o fs file n k,
  (1 <= stack_limit o)%Z -> (stack_limit o <= Z.of_nat k)%Z ->
  exists t, compile_items fo o fs file (fnest n k) = (mkGlob [] [], IErr EStackOverflow (Some t)).
Proof.
  intros o fs file n k H1 H. unfold compile_items. change (initial_env fo) with (env_f []).
  destruct (fnest_overflow o fs file k (run_depth o) [] n (mkGlob [] []) []) as [t Ht].
  - left. reflexivity.
  - lia.
  - cbn [length]. lia.
  - unfold run_depth. cbn [length]. lia.
  - rewrite Ht. exists t. reflexivity.
Qed.

Theorem nest_exact_run_lemma : forall o fs file n k,
  (1 <= stack_limit o)%Z ->
  ((exists g c, compile_items fo o fs file (fnest n k) = (g, IOk c)) <-> (Z.of_nat k < stack_limit o)%Z).
Proof.
  intros o fs file n k H1. split.
  - intros [g [c Hc]]. destruct (Z_lt_le_dec (Z.of_nat k) (stack_limit o)) as [Hlt|Hge]; [exact Hlt|].
    destruct (nest_run_overflow_lemma o fs file n k H1 Hge) as [t Ht].
    rewrite Ht in Hc. discriminate Hc.
  - intro Hlt. eexists. eexists. apply nest_run_within_lemma. exact Hlt.
Qed.

End Calls.

Example fnest_is_parsed_text :
  prepare_text (s_FUNC_f ++ [10;9] ++ s_FUNC_f ++ [10;9;9] ++ s_STRING_x ++ [10;9] ++ s_RUN_f ++ [10] ++ s_RUN_f)%N
  = TOk (fnest 1 2).
Proof. vm_compute. reflexivity. Qed.

Example rec_prog_is_parsed_text :
  prepare_text (s_FUNC_f ++ [10;9] ++ s_RUN_f ++ [10] ++ s_RUN_f)%N = TOk rec_prog.
Proof. vm_compute. reflexivity. Qed.
