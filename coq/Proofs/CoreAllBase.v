(* Base of the refinement proof for Spec/CoreAll.v: how spec-level frames, warnings, prints and
   events are read on the interpreter side ([conc_*], [apply_evs]); the function-table relation
   [utab_rel]; the simulation relation [RR] over a glob that GROWS; the concrete form of IF chains. *)
From Coq Require Import NArith ZArith List Bool Lia.
From DS Require Import Base PyStr Values Expr TabParse Tables Constants Interp IdentSpec IdentProofs.
From DS Require Import ScopeProofs LimitProofs ChainProofs LoopUnroll LoopBlock.
From DS Require Import PipelineProofs GroupProofs DollarForm NameChecks UnknownWarn RunProofs FuncProofs.
From DS Require Import ResolveSpec StartLaws StartLines ImportGraph GraphText.
From DS Require Import CoreLang CoreWf CoreLines CoreRefine CoreFunc CoreFuncLines CoreFuncRefine CoreAll CoreAllLines.
Import ListNotations.

Arguments IOk {A}. Arguments IErr {A}. Arguments ICrash {A}. Arguments IUnmod {A}.
Arguments s_g {fo}. Arguments s_env {fo}. Arguments s_line2 {fo}. Arguments mkSt {fo}.
Arguments e_sys : clear implicits. Arguments e_user : clear implicits. Arguments e_temp : clear implicits.
Arguments e_funcs : clear implicits. Arguments mkEnv : clear implicits.

(* ================================================================== reading the spec's observations *)
Section Conc.
Variable dir : path.     (* the folder of the program's files *)

Definition conc_frame (sf : sframe) : frame :=
  mkFrame (Some (file_of dir (sf_file sf))) (sf_text sf, sf_num sf)
          (if sf_inline sf then Some (sf_text sf, sf_num sf) else None).

Definition stray_text (by_break : bool) : str :=
  match s_sig_warning (if by_break then SBreak else SContinue) with Some w => w | None => [] end.

Definition conc_warning (w : uwarning) : warning :=
  match w with
  | WUnknown pile f t n =>
      mkWarn (unknown_warning_text n) (Some (map conc_frame pile ++ [mkFrame (Some (file_of dir f)) (t, n) None]))
  | WStray b => mkWarn (stray_text b) None
  end.

Definition conc_print (p : str * Z * str) : print_rec :=
  let '(t, n, f) := p in mkPrint t n (Some (file_of dir f)).

Definition apply_ev (g : glob) (e : event) : glob :=
  match e with
  | EvPrint t n f => mkGlob (mkPrint t n (Some (file_of dir f)) :: g_prints g) (g_warnings g)
  | EvWarn w => add_warning (conc_warning w) g
  end.
Definition apply_evs (ev : list event) (g : glob) : glob := fold_left apply_ev ev g.

Lemma apply_evs_app : forall a b g, apply_evs (a ++ b) g = apply_evs b (apply_evs a g).
Proof. intros. unfold apply_evs. apply fold_left_app. Qed.

Lemma apply_evs_nil : forall g, apply_evs [] g = g.
Proof. reflexivity. Qed.

(* ------------------------------------------------------------------ the function tables *)
Definition uentry_rel (se : str * udef) (ie : str * func) : Prop :=
  fst se = fst ie /\ fn_args (snd ie) = d_params (snd se) /\
  fn_code (snd ie) = uitems_from (d_line (snd se) + 1) (d_body (snd se)) /\
  fn_file (snd ie) = Some (file_of dir (d_file (snd se))).

Definition uentry_wf (se : str * udef) : Prop := d_body (snd se) <> [] /\ uwf_list (d_body (snd se)).

Definition utab_rel (Fs : utable) (F : list (str * func)) : Prop :=
  Forall2 uentry_rel Fs F /\ Forall uentry_wf Fs /\ nodup_keys F.

Lemma utab_rel_nil : utab_rel [] [].
Proof. split; [constructor|]. split; constructor. Qed.

Lemma utab_rel_lookup : forall Fs F x df,
  utab_rel Fs F -> lookup x Fs = Some df ->
  exists fn, lookup x F = Some fn /\ fn_args fn = d_params df /\
             fn_code fn = uitems_from (d_line df + 1) (d_body df) /\
             fn_file fn = Some (file_of dir (d_file df)) /\
             d_body df <> [] /\ uwf_list (d_body df).
Proof.
  intros Fs F x df (H2 & Hwf & _) Hl. induction H2 as [|[y d] [y' fn] Fs F Hrel H2 IH]; [discriminate|].
  inversion Hwf as [|? ? Hw Hwf']; subst. destruct Hrel as (Hk & Ha & Hc & Hf). cbn [fst snd] in Hk, Ha, Hc, Hf. subst y'.
  cbn [lookup] in Hl |- *. destruct (str_eqb x y).
  - injection Hl as ->. exists fn. split; [reflexivity|]. split; [exact Ha|]. split; [exact Hc|]. split; [exact Hf|]. exact Hw.
  - apply IH; assumption.
Qed.

Lemma utab_rel_set : forall Fs F x d fn,
  utab_rel Fs F -> uentry_rel (x, d) (x, fn) -> uentry_wf (x, d) ->
  utab_rel (set_def x d Fs) (upd x fn F).
Proof.
  intros Fs F x d fn (H2 & Hwf & Hnd) Hrel Hw. split; [|split].
  - clear Hwf Hnd. induction H2 as [|[y dy] [y' fy] Fs F Hr H2 IH].
    + cbn. constructor; [exact Hrel|constructor].
    + pose proof Hr as (Hk & _). cbn [fst] in Hk. subst y'. cbn [set_def upd].
      destruct (str_eqb x y); constructor; assumption.
  - clear H2 Hnd. induction Hwf as [|[y dy] Fs Hy Hwf IH].
    + cbn. constructor; [exact Hw|constructor].
    + cbn [set_def]. destruct (str_eqb x y); constructor; assumption.
  - apply nodup_keys_upd. exact Hnd.
Qed.

Lemma utab_rel_overlay : forall Fs1 F1 Fs F,
  utab_rel Fs1 F1 -> utab_rel Fs F -> utab_rel (overlay_defs Fs1 Fs) (upd_all F1 F).
Proof.
  intros Fs1 F1 Fs F (H2 & Hwf & _). revert Fs F Hwf.
  induction H2 as [|[y d] [y' fn] Fs1 F1 Hrel H2 IH]; intros Fs F Hwf Ht; [exact Ht|].
  inversion Hwf as [|? ? Hw Hwf']; subst.
  unfold overlay_defs, upd_all. cbn [fold_left fst snd].
  fold (overlay_defs Fs1 (set_def y d Fs)). fold (upd_all F1 (upd y' fn F)).
  apply IH; [exact Hwf'|].
  pose proof Hrel as (Hk & _). cbn [fst] in Hk. subst y'.
  apply utab_rel_set; assumption.
Qed.

End Conc.

(* ================================================================== association lists *)
Lemma upd_same_mid : forall A (k : str) (v : A) a b,
  ~ In k (map fst a) -> upd k v (a ++ (k, v) :: b) = a ++ (k, v) :: b.
Proof.
  intros A k v a b. induction a as [|[k' v'] a IH]; intro H.
  - cbn. rewrite str_eqb_refl. reflexivity.
  - cbn [app upd]. cbn [map fst In] in H. destruct (str_eqb k k') eqn:E.
    + apply ScopeProofs.str_eqb_eq in E. subst k'. exfalso. apply H. left. reflexivity.
    + rewrite IH; [reflexivity|]. intro Hin. apply H. right. exact Hin.
Qed.

Lemma upd_all_self_gen : forall A (l done : list (str * A)),
  NoDup (map fst (done ++ l)) -> upd_all l (done ++ l) = done ++ l.
Proof.
  intros A l. induction l as [|[k v] l IH]; intros done H; [reflexivity|].
  unfold upd_all. cbn [fold_left fst snd]. fold (upd_all l (upd k v (done ++ (k, v) :: l))).
  assert (Hk : ~ In k (map fst done)).
  { rewrite map_app in H. cbn [map fst] in H. apply NoDup_remove_2 in H.
    intro Hin. apply H. apply in_or_app. left. exact Hin. }
  rewrite (upd_same_mid A k v done l Hk).
  replace (done ++ (k, v) :: l) with ((done ++ [(k, v)]) ++ l) by (rewrite <- app_assoc; reflexivity).
  apply IH. rewrite <- app_assoc. exact H.
Qed.

Lemma upd_all_self : forall A (l : list (str * A)), nodup_keys l -> upd_all l l = l.
Proof. intros A l H. exact (upd_all_self_gen A l [] H). Qed.

(* ================================================================== the simulation relation *)
Section Refine.
Variable fo : FloatOps.
Variable sys : store fo.
Hypothesis Hsys : nodup_keys sys.
Variable dir : path.

Notation value := (value fo).
Notation env := (env fo).
Notation st := (st fo).
Notation R := (CoreRefine.R fo sys).
Notation state_of := (CoreRefine.state_of fo sys).
Notation child_of := (CoreRefine.child_of fo).

Definition RR (g : glob) (Fs : utable) (f : option bool) (vs : store fo) (s : st) : Prop :=
  exists F, R g F f vs s /\ utab_rel dir Fs F.

Lemma RR_eval : forall g Fs f vs s e v, RR g Fs f vs s -> eval fo sys f vs e v ->
  tokenize fo (all_vars fo (s_env s)) e = Ok v.
Proof. intros g Fs f vs s e v (F & HR & _) He. exact (eval_R fo sys g F f vs s e v HR He). Qed.

Lemma RR_with_flag : forall g Fs f vs s b, RR g Fs f vs s -> RR g Fs (Some b) vs (with_flag fo b s).
Proof. intros g Fs f vs s b (F & HR & Ht). exists F. split; [apply (R_with_flag fo sys g F f); exact HR|exact Ht]. Qed.

Lemma RR_ensure_flag : forall g Fs f vs s, RR g Fs f vs s -> RR g Fs (Some (flag_or_false f)) vs (ensure_flag fo s).
Proof. intros g Fs f vs s (F & HR & Ht). exists F. split; [apply R_ensure_flag; exact HR|exact Ht]. Qed.

Lemma RR_flag_of : forall g Fs b vs s, RR g Fs (Some b) vs s -> flag_of fo s = b.
Proof. intros g Fs b vs s (F & HR & _). exact (R_flag_of fo sys g F b vs s HR). Qed.

Lemma RR_ensure_id : forall g Fs b vs s, RR g Fs (Some b) vs s -> ensure_flag fo s = s.
Proof. intros g Fs b vs s (F & HR & _). exact (R_ensure_id fo sys g F b vs s HR). Qed.

Lemma RR_line2 : forall g Fs f vs s l2, RR g Fs f vs s -> RR g Fs f vs (mkSt (s_g s) (s_env s) l2).
Proof. intros g Fs f vs s l2 H. exact H. Qed.

Lemma RR_store_user : forall g Fs f vs s x v, RR g Fs f vs s -> RR g Fs f (set_var fo x v vs) (store_user fo x v s).
Proof. intros g Fs f vs s x v (F & HR & Ht). exists F. split; [apply R_store_user; exact HR|exact Ht]. Qed.

Lemma RR_nodup : forall g Fs f vs s, RR g Fs f vs s -> nodup_keys vs.
Proof. intros g Fs f vs s (F & HR & _). exact (R_nodup fo sys g F f vs s HR). Qed.

(* the glob moves, nothing else *)
Lemma RR_glob : forall g Fs f vs s g' l2, RR g Fs f vs s -> RR g' Fs f vs (mkSt g' (s_env s) l2).
Proof.
  intros g Fs f vs s g' l2 (F & (H1 & H2 & H3 & H4 & H5 & H6) & Ht). exists F. split; [|exact Ht].
  unfold CoreRefine.R. cbn. repeat split; assumption.
Qed.

Lemma RR_define : forall g Fs f vs s x ps body cf n l2,
  RR g Fs f vs s -> body <> [] -> uwf_list body ->
  RR g (set_def x (mkDef ps body cf n) Fs) f vs
     (mkSt (s_g s) (define fo x (mkFunc ps (uitems_from (n + 1) body) (Some (file_of dir cf))) (s_env s)) l2).
Proof.
  intros g Fs f vs s x ps body cf n l2 (F & HR & Ht) Hne Hwf.
  exists (upd x (mkFunc ps (uitems_from (n + 1) body) (Some (file_of dir cf))) F). split.
  - destruct HR as (H1 & H2 & H3 & H4 & H5 & H6). unfold CoreRefine.R, define. cbn.
    rewrite H5. repeat split; assumption.
  - apply utab_rel_set; [exact Ht| |split; assumption].
    split; [reflexivity|]. split; [reflexivity|]. split; reflexivity.
Qed.

(* leaving a block, a call or a STARTCODE import: the caller keeps its flag and ITS function table;
   the glob is the one the inner stack left *)
Lemma R_update_from2 : forall g g2 g3 F f vs s F1 f1 vs1 s2 l2,
  R g F f vs s -> R g2 F1 f1 vs1 s2 ->
  R g3 F f (copy_back fo vs vs1) (mkSt g3 (update_from_env fo (s_env s) (s_env s2)) l2).
Proof.
  intros g g2 g3 F f vs s F1 f1 vs1 s2 l2 (H1 & H2 & H3 & H4 & H5 & H6) (G1 & G2 & G3 & G4 & G5 & G6).
  unfold CoreRefine.R, update_from_env. cbn. rewrite H2, H3, G2, G3, (restrict_from_self sys Hsys).
  repeat split; try assumption. apply nodup_keys_restrict_from. exact H6.
Qed.

(* leaving a START / STARTENV import: every variable and function of the file is assigned *)
Lemma R_append : forall g g2 g3 F f vs s F1 f1 vs1 s2 l2,
  R g F f vs s -> R g2 F1 f1 vs1 s2 ->
  R g3 (upd_all F1 F) f (overlay fo vs1 vs) (mkSt g3 (append_env fo (s_env s) (s_env s2)) l2).
Proof.
  intros g g2 g3 F f vs s F1 f1 vs1 s2 l2 (H1 & H2 & H3 & H4 & H5 & H6) (G1 & G2 & G3 & G4 & G5 & G6).
  unfold CoreRefine.R, append_env. cbn. rewrite H2, H3, H5, G2, G3, G5, (upd_all_self _ sys Hsys).
  rewrite (overlay_upd_all fo).
  repeat split; try assumption. apply nodup_keys_upd_all. exact H6.
Qed.

Lemma block_runs2 : forall d' cx cur code file setup pre s g g2 F f vs inner s2 cr F1 f1 vs1,
  R g F f vs s -> nodup_keys F ->
  cmp_eval stack_limit_op (pile_len cx) (stack_limit (c_opts cx)) = false ->
  setup (mkEnv fo sys vs [] F) = Ok (mkEnv fo sys inner [] F) ->
  pre (mkEnv fo sys inner [] F) = Ok true ->
  exec_cmds fo (child_of d') (inner_cx cx cur (s_line2 s) file) code []
            (state_of g F None inner None) = (s2, IOk cr) ->
  R g2 F1 f1 vs1 s2 ->
  exists s', R g2 F f (copy_back fo vs vs1) s' /\ s_line2 s' = s_line2 s /\
    run_child_with fo (run fo d') cx cur code file false setup pre s = (s', IOk (Some cr)).
Proof.
  intros d' cx cur code file setup pre s g g2 F f vs inner s2 cr F1 f1 vs1 HR Hnd Hlim Hsetup Hpre Hexec HR2.
  exists (mkSt g2 (update_from_env fo (s_env s) (s_env s2)) (s_line2 s)).
  split; [exact (R_update_from2 g g2 g2 F f vs s F1 f1 vs1 s2 _ HR HR2)|]. split; [reflexivity|].
  pose proof HR as (H1 & _). pose proof HR2 as (G1 & _).
  unfold run_child_with. rewrite Hlim, (entry_env_tab fo sys Hsys g F f vs s HR Hnd), Hsetup, Hpre.
  rewrite run_child_of. unfold run_with. unfold inner_cx, CoreRefine.state_of in Hexec. cbn [flag_var] in Hexec.
  rewrite H1, Hexec, G1. reflexivity.
Qed.

End Refine.

(* ================================================================== the concrete form *)
Lemma uitems_from_cons : forall n s r,
  uitems_from n (s :: r) = ustmt_items n s ++ uitems_from (n + usize s)%Z r.
Proof. reflexivity. Qed.

Definition uarms_items (first : bool) (n : Z) (arms : list (str * list ustmt)) (els : option (list ustmt)) : list item :=
  farms_items_gen (seq_items ustmt_items usize) (sum_sizes usize) els first n arms.

Lemma ustmt_items_if : forall n arms els, ustmt_items n (UIf arms els) = uarms_items true n arms els.
Proof. reflexivity. Qed.

Fixpoint uarms_of (first : bool) (n : Z) (arms : list (str * list ustmt)) (els : option (list ustmt)) : list arm :=
  match arms with
  | [] => match els with Some b => [else_arm n (uitems_from (n + 1)%Z b)] | None => [] end
  | (c, b) :: r =>
      cond_arm (if first then AIf else AElif) c n (uitems_from (n + 1)%Z b)
      :: uarms_of false (n + 1 + sum_sizes usize b)%Z r els
  end.

Lemma uarms_items_chain : forall arms first n els,
  uarms_items first n arms els = chain_items (uarms_of first n arms els).
Proof.
  induction arms as [|[c b] r IH]; intros first n els.
  - cbn. destruct els; reflexivity.
  - unfold uarms_items in *. cbn [farms_items_gen uarms_of chain_items flat_map].
    rewrite IH. destruct first; reflexivity.
Qed.

Lemma ustmt_items_head : forall s n, ustmt_items n s = [] \/ exists c m t, ustmt_items n s = Ln c m :: t.
Proof.
  intros s n. destruct s; try (right; cbn; eauto; fail).
  rewrite ustmt_items_if. destruct arms as [|[c b] r].
  - destruct els; [right|left]; cbn; eauto.
  - right. cbn. eauto.
Qed.

Lemma uitems_from_head : forall p n, head_ok (uitems_from n p).
Proof.
  induction p as [|s r IH]; intro n; [exact I|].
  rewrite uitems_from_cons. destruct (ustmt_items_head s n) as [->|(c & m & t & ->)].
  - apply IH.
  - exact I.
Qed.

Lemma uwf_items_nonempty : forall s n, uwf s -> ustmt_items n s <> [].
Proof.
  intros s n H. destruct s; try discriminate.
  rewrite ustmt_items_if. destruct arms as [|[c b] r]; [destruct H as [H _]; contradiction|discriminate].
Qed.

Lemma uwf_list_items_nonempty : forall p n, p <> [] -> uwf_list p -> uitems_from n p <> [].
Proof.
  intros [|s r] n Hne H; [contradiction|]. destruct H as [Hs _].
  rewrite uitems_from_cons. intro E. apply app_eq_nil in E. destruct E as [E _].
  exact (uwf_items_nonempty s n Hs E).
Qed.

Lemma uarms_ok : forall arms first n els,
  all_list uwf_arm arms -> uwf_else els -> Forall arm_ok (uarms_of first n arms els).
Proof.
  induction arms as [|[c b] r IH]; intros first n els Ha He.
  - cbn. destruct els as [b|]; [|constructor]. destruct He as [Hne Hwf].
    constructor; [|constructor]. apply else_arm_ok. apply uwf_list_items_nonempty; assumption.
  - destruct Ha as [(Hc & Hne & Hwf) Hr]. cbn [uarms_of]. constructor.
    + apply cond_arm_ok; [destruct first; discriminate|apply expr_ok_blank; exact Hc|].
      apply uwf_list_items_nonempty; assumption.
    + apply IH; assumption.
Qed.

Lemma uarms_non_if : forall arms n els, Forall non_if (uarms_of false n arms els).
Proof.
  induction arms as [|[c b] r IH]; intros n els.
  - cbn. destruct els; constructor; [apply non_if_else|constructor].
  - cbn [uarms_of]. constructor; [apply non_if_elif|apply IH].
Qed.
