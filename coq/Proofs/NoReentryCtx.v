(* C13 (a), in a form that only looks at the context of a stack: a stack whose pile ends with a
   START-family line (the line that started it) and whose file is the file of a frame of its pile
   is never started.  [reentrant_start] is a boolean test of the context; the interpreter with
   ANY behaviour substituted for such stacks is the interpreter. *)
From Coq Require Import NArith ZArith List Bool Lia.
From DS Require Import Base PyStr Values Expr TabParse Tables Constants Interp.
From DS Require Import ScopeProofs ScopeInvariant StackLift TraceShape StartLaws ResolveSpec NoReentry.
Import ListNotations.

(* ------------------------------------------------------------------ START words are claimed by no block class *)
Definition start_words : list str := [s_START; s_STARTENV; s_STARTCODE].
Definition start_spellings : list str := start_words ++ map (cons 36%N) start_words.

Lemma block_names_avoid_start :
  forallb (fun nc : str * cls => match snd nc with
                     | Block bc => forallb (fun w => negb (str_in w (b_names bc))) start_spellings
                     | Simple _ => true end) palette = true.
Proof. vm_compute. reflexivity. Qed.

Lemma block_avoids_start : forall n bc w, In (n, Block bc) palette -> In w start_spellings -> str_in w (b_names bc) = false.
Proof.
  intros n bc w Hin Hw. pose proof block_names_avoid_start as H. rewrite forallb_forall in H.
  specialize (H (n, Block bc) Hin). cbn [snd] in H. rewrite forallb_forall in H.
  specialize (H w Hw). apply negb_true_iff in H. exact H.
Qed.

Lemma find_command_claims : forall pal cmd cb n c, find_command pal cmd cb = Some (n, c) -> is_this_command c cmd cb = true.
Proof.
  induction pal as [|[n0 c0] r IH]; intros cmd cb n c H; [discriminate|]. cbn [find_command] in H.
  destruct (is_this_command c0 cmd cb) eqn:E; [injection H as <- <-; exact E|eapply IH; exact H].
Qed.

Definition strip_dollar (up : str) : str := match up with 36%N :: r => r | _ => up end.

Lemma strip_dollar_cases : forall up, (exists r, up = 36%N :: r /\ strip_dollar up = r) \/ strip_dollar up = up.
Proof.
  intros [|x r]; [right; reflexivity|]. destruct x as [|p]; [right; reflexivity|].
  repeat (destruct p as [p|p|]; try (right; reflexivity)). left. exists r. split; reflexivity.
Qed.

Lemma start_claim_spelling : forall cmd cb, is_this_command (Simple start_cls) cmd cb = true -> In (upper cmd) start_spellings.
Proof.
  intros cmd cb H. cbn [is_this_command start_cls s_names] in H.
  change (match upper cmd with 36%N :: r => r | _ => upper cmd end) with (strip_dollar (upper cmd)) in H.
  apply str_in_In in H. fold start_words in H. unfold start_spellings. apply in_or_app.
  destruct (strip_dollar_cases (upper cmd)) as [(r & Hu & Hs)|Hs]; rewrite Hs in H.
  - right. rewrite Hu. apply in_map. exact H.
  - left. exact H.
Qed.

Lemma find_command_block_indep : forall pal cmd cb cb',
  (forall n bc, In (n, Block bc) pal -> str_in (upper cmd) (b_names bc) = false) ->
  find_command pal cmd cb = find_command pal cmd cb'.
Proof.
  induction pal as [|[n0 c0] r IH]; intros cmd cb cb' H; [reflexivity|]. cbn [find_command].
  assert (E : is_this_command c0 cmd cb = is_this_command c0 cmd cb').
  { destruct c0 as [sc|bc]; [reflexivity|]. cbn [is_this_command].
    rewrite (H n0 bc (or_introl eq_refl)).
    destruct (b_names bc); destruct (_ || _); destruct (_ || _); reflexivity. }
  rewrite E. destruct (is_this_command c0 cmd cb'); [reflexivity|].
  apply IH. intros n bc Hin. apply (H n bc). right. exact Hin.
Qed.

(* the dispatch of a START-family word does not depend on the block that follows the line *)
Theorem start_dispatch_any_block : forall cmd cb cb' cname sc,
  find_command palette cmd cb = Some (cname, Simple sc) -> s_run sc = RKStart ->
  find_command palette cmd cb' = Some (cname, Simple sc).
Proof.
  intros cmd cb cb' cname sc Hf Hr. rewrite <- Hf. apply find_command_block_indep.
  intros n bc Hin. apply (block_avoids_start n bc _ Hin).
  assert (Hsc : sc = start_cls) by (eapply palette_start_class; [eapply find_command_In; exact Hf|exact Hr]).
  subst sc. eapply start_claim_spelling. eapply find_command_claims. exact Hf.
Qed.

(* ------------------------------------------------------------------ the test on contexts *)
Definition is_start_line_b (c : str) : bool :=
  match split_ws1 c with
  | cmd :: _ => match find_command palette cmd None with Some (_, cl) => is_start_class cl | None => false end
  | [] => false
  end.

Definition reentrant_start (cx : ctx) : bool :=
  match rev (c_pile cx) with
  | fr :: _ => is_start_line_b (fst (fr_line fr)) &&
               existsb (fun f => opt_eqb path_eqb (fr_file f) (c_file cx)) (c_pile cx)
  | [] => false
  end.

Lemma is_start_line_b_true : forall c cb cmd more cname cl,
  is_start_line_b c = true -> split_ws1 c = cmd :: more -> find_command palette cmd cb = Some (cname, cl) ->
  exists sc, cl = Simple sc /\ s_run sc = RKStart.
Proof.
  intros c cb cmd more cname cl H Hs Hf. unfold is_start_line_b in H. rewrite Hs in H.
  destruct (find_command palette cmd None) as [[n0 cl0]|] eqn:E0; [|discriminate].
  destruct cl0 as [sc0|bc0]; [|discriminate]. cbn [is_start_class] in H.
  destruct (s_run sc0) eqn:Er; try discriminate.
  rewrite (start_dispatch_any_block cmd None cb n0 sc0 E0 Er) in Hf. injection Hf as <- <-.
  exists sc0. split; [reflexivity|exact Er].
Qed.

Lemma legal_call_not_reentrant : forall cx c n cb file code l2,
  child_call_nr cx c cb file code ->
  reentrant_start (mkCtx (c_opts cx) (c_fs cx) (here cx (c, n) l2) file) = false.
Proof.
  intros cx c n cb file code l2 H. unfold reentrant_start. cbn [c_pile c_file]. unfold here at 1. rewrite rev_unit.
  cbn [fr_line fst].
  destruct (is_start_line_b c) eqn:Eb; [|reflexivity]. cbn [andb].
  destruct H as [cmd more cname bc Hs Hf|cmd more cname sc file code Hs Hf Hk
                |cmd more cname sc target text code Hs Hf Hk Hfs Hp Hn].
  - destruct (is_start_line_b_true c cb cmd more cname _ Eb Hs Hf) as (sc & Hcl & _). discriminate.
  - destruct (is_start_line_b_true c cb cmd more cname _ Eb Hs Hf) as (sc' & Hcl & Hr). injection Hcl as <-.
    rewrite Hk in Hr. discriminate.
  - rewrite circ_test_eq. apply circ_false_iff. exact Hn.
Qed.

Lemma nr_reach_not_reentrant : forall cx0 cmds0 cx cmds,
  reentrant_start cx0 = false -> nr_reach cx0 cmds0 cx cmds -> reentrant_start cx = false.
Proof.
  intros cx0 cmds0 cx cmds H0 H. destruct H as [|cx cmds [c n] l2 file code Hr (cb & Hin & HC)]; [exact H0|].
  cbn [fst] in HC. eapply legal_call_not_reentrant. exact HC.
Qed.

Section Whole.
Variable fo : FloatOps.

(* the interpreter, at any depth, with any behaviour [badr] substituted for every stack whose
   context is a re-entering START: the same function *)
Theorem run_never_reenters : forall (badr : runner fo) d cx0 g e cmds0,
  reentrant_start cx0 = false ->
  run fo d cx0 g e cmds0 = run_poisoned fo (fun cx _ => reentrant_start cx) badr d cx0 g e cmds0.
Proof.
  intros badr d cx0 g e cmds0 H0.
  apply (run_starts_only_legal_stacks fo (fun cx _ => reentrant_start cx) badr cx0 cmds0).
  - intros cx code Hr. eapply nr_reach_not_reentrant; eassumption.
  - apply nr_root.
Qed.

Theorem compile_never_reenters : forall (badr : runner fo) o fs file cmds,
  compile_items fo o fs file cmds =
  match run_poisoned fo (fun cx _ => reentrant_start cx) badr (run_depth o) (mkCtx o fs [] file) (mkGlob [] []) (initial_env fo) cmds with
  | (g, IOk (cr, e)) =>
      let g' := match s_sig_warning (cr_sig cr) with
                | Some w => add_warning (mkWarn w None) g
                | None => g end in
      (g', IOk (mkCompiled fo (cr_data cr) (rev (g_warnings g')) e (rev (g_prints g'))))
  | (g, IErr er t) => (g, IErr er t)
  | (g, ICrash k) => (g, ICrash k)
  | (g, IUnmod) => (g, IUnmod)
  end.
Proof.
  intros badr o fs file cmds. apply compile_items_starts_only_legal_stacks.
  intros cx code Hr. exact (nr_reach_not_reentrant (mkCtx o fs [] file) cmds cx code eq_refl Hr).
Qed.

End Whole.

(* the test means what it says *)
Lemma reentrant_start_spec : forall cx, reentrant_start cx = true ->
  exists pre fr, c_pile cx = pre ++ [fr] /\ is_start_line_b (fst (fr_line fr)) = true /\
                 exists f, In f (c_pile cx) /\ opt_eqb path_eqb (fr_file f) (c_file cx) = true.
Proof.
  intros cx H. unfold reentrant_start in H. destruct (rev (c_pile cx)) as [|fr r] eqn:E; [discriminate|].
  apply andb_true_iff in H. destruct H as [H1 H2]. apply existsb_exists in H2.
  exists (rev r), fr. split; [|split; [exact H1|exact H2]].
  rewrite <- (rev_involutive (c_pile cx)), E. reflexivity.
Qed.

(* the test is not vacuous: the stack that `START lib` written in lib.txt would start *)
Example reentrant_start_example : forall o fs,
  let lib := [[108;105;98;46;116;120;116]]%N in
  reentrant_start (mkCtx o fs [mkFrame (Some lib) ([83;84;65;82;84;32;108;105;98]%N, 1%Z) None] (Some lib)) = true.
Proof. intros o fs. vm_compute. reflexivity. Qed.
