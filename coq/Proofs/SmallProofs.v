From Coq Require Import NArith ZArith List Bool Lia.
From DS Require Import Base PyStr Values Expr TabParse Interp Trace Options World Tables Constants.
Import ListNotations.

(* ------------------------------------------------------------------ C10: last n *)
Lemma get_stacktrace_all : forall A (pile : list A), get_stacktrace pile (-1) = pile.
Proof. intros. unfold get_stacktrace. reflexivity. Qed.

Lemma get_stacktrace_lastn : forall A (pile : list A) (limit : Z),
  (0 <= limit)%Z -> get_stacktrace pile limit = lastn (Z.to_nat limit) pile.
Proof.
  intros A pile limit Hl. unfold get_stacktrace, lastn.
  assert (Hneq : (limit =? -1)%Z = false) by (apply Z.eqb_neq; lia).
  rewrite Hneq. cbn [orb].
  destruct (Z.leb_spec (Z.of_nat (length pile)) limit) as [Hle|Hgt].
  - replace (length pile - Z.to_nat limit) with 0 by lia. reflexivity.
  - f_equal. lia.
Qed.

Lemma get_stacktrace_suffix : forall A (pile : list A) (limit : Z),
  exists pre, pile = pre ++ get_stacktrace pile limit.
Proof.
  intros. unfold get_stacktrace. eexists. symmetry. apply firstn_skipn.
Qed.

Lemma get_stacktrace_length : forall A (pile : list A) (limit : Z),
  (0 <= limit)%Z -> length (get_stacktrace pile limit) = Nat.min (Z.to_nat limit) (length pile).
Proof.
  intros A pile limit Hl. rewrite get_stacktrace_lastn by exact Hl.
  unfold lastn. rewrite skipn_length. lia.
Qed.

(* ------------------------------------------------------------------ C15: project merge *)
Lemma project_merge_spec : forall g proj,
  calculate_options g proj =
  match proj with
  | Some y => if use_project_config g && use_project_config (options_of_yaml y) then options_of_yaml y else g
  | None => g
  end.
Proof.
  intros g [y|]; unfold calculate_options; destruct (use_project_config g); reflexivity.
Qed.

Lemma project_replaces_iff : forall g y,
  options_of_yaml y <> g ->
  (calculate_options g (Some y) = options_of_yaml y <->
   use_project_config g = true /\ use_project_config (options_of_yaml y) = true).
Proof.
  intros g y Hne. rewrite project_merge_spec.
  destruct (use_project_config g); destruct (use_project_config (options_of_yaml y)); cbn [andb];
    split; intro H; try (destruct H; discriminate); try tauto; try (symmetry in H; contradiction).
Qed.

(* the rewritten file denotes the options that were read from it *)
Lemma rewritten_config_same_meaning : forall g y p,
  rewritten_config g (Some y) = Some p -> p = options_of_yaml y.
Proof.
  intros g y p. unfold rewritten_config.
  destruct (use_project_config g); [|discriminate].
  destruct (use_project_config (options_of_yaml y)); [|discriminate].
  intro H. injection H as <-. reflexivity.
Qed.

Lemma no_project_file : forall g, calculate_options g None = g.
Proof. intro g. unfold calculate_options. destruct (use_project_config g); reflexivity. Qed.

(* ------------------------------------------------------------------ C17: history independence *)
Section World.
Variable fo : FloatOps.

Lemma world_writes_none : world_writes = [].
Proof. reflexivity. Qed.

Lemma run_history_outputs : forall js w, snd (run_history fo w js) = map (run_job fo) js.
Proof.
  induction js as [|j r IH]; intro w; [reflexivity|].
  cbn [run_history step]. specialize (IH (w ++ world_writes)).
  destruct (run_history fo (w ++ world_writes) r) as [w2 xs]. cbn [snd] in *. rewrite IH. reflexivity.
Qed.

Lemma run_history_world : forall js w, fst (run_history fo w js) = w.
Proof.
  induction js as [|j r IH]; intro w; [reflexivity|].
  cbn [run_history step]. specialize (IH (w ++ world_writes)).
  destruct (run_history fo (w ++ world_writes) r) as [w2 xs]. cbn [fst] in *. rewrite IH.
  rewrite world_writes_none. apply app_nil_r.
Qed.

Lemma history_independent_lemma : forall (pre post : list job) (j : job) w,
  nth_error (snd (run_history fo w (pre ++ j :: post))) (length pre) = Some (run_job fo j).
Proof.
  intros pre post j w. rewrite run_history_outputs, map_app. cbn [map].
  rewrite nth_error_app2 by (rewrite map_length; lia).
  rewrite map_length, Nat.sub_diag. reflexivity.
Qed.
End World.

(* ------------------------------------------------------------------ C16: dispatch of unknown words *)
Lemma find_command_none : forall pal cmd cb,
  (forall n c, In (n, c) pal -> is_this_command c cmd cb = false) -> find_command pal cmd cb = None.
Proof.
  induction pal as [|[n c] r IH]; intros cmd cb H; [reflexivity|].
  cbn [find_command]. rewrite (H n c (or_introl eq_refl)). apply IH.
  intros n' c' Hin. apply (H n' c'). right. exact Hin.
Qed.

Lemma find_command_some : forall pal cmd cb n c,
  find_command pal cmd cb = Some (n, c) -> In (n, c) pal /\ is_this_command c cmd cb = true.
Proof.
  induction pal as [|[n0 c0] r IH]; intros cmd cb n c H; [discriminate|].
  cbn [find_command] in H. destruct (is_this_command c0 cmd cb) eqn:E.
  - injection H as <- <-. split; [left; reflexivity|exact E].
  - destruct (IH _ _ _ _ H) as [Hin Ht]. split; [right; exact Hin|exact Ht].
Qed.

(* the first class in palette order wins *)
Lemma find_command_first : forall pal cmd cb n c pre post,
  pal = pre ++ (n, c) :: post ->
  (forall n' c', In (n', c') pre -> is_this_command c' cmd cb = false) ->
  is_this_command c cmd cb = true ->
  find_command pal cmd cb = Some (n, c).
Proof.
  intros pal cmd cb n c pre. revert pal. induction pre as [|[n0 c0] pre IH]; intros pal post -> Hpre Hc.
  - cbn [app find_command]. rewrite Hc. reflexivity.
  - cbn [app find_command]. rewrite (Hpre n0 c0 (or_introl eq_refl)).
    apply (IH _ post eq_refl); [|exact Hc].
    intros n' c' Hin. apply (Hpre n' c'). right. exact Hin.
Qed.
