(* C07 (d): the values a RUN line passes.  A text that spells k >= 2 value tokens separated by
   top-level commas -- in any whitespace layout -- evaluates to the list of their k values, which
   RUN spreads into k arguments in the same order; a single non-list value is one argument. *)
From Coq Require Import NArith ZArith List Bool Lia.
From DS Require Import Base PyStr Values Expr TabParse Tables Constants Interp.
From DS Require Import ExprAst TreeProofs MoreProofs Spelling ScanSpelled RunProofs.
Import ListNotations.

Section Args.
Variable fo : FloatOps.
Notation value := (value fo).
Variable vars : vars_t fo.

Definition val_of (t : stok) : value :=
  match ptok_of fo vars t with PVal v => v | _ => VNone end.

Definition comma_tok : stok := SOp OCComma MoreProofs.comma.

Fixpoint comma_tail (ts : list stok) : list stok :=
  match ts with [] => [] | t :: r => comma_tok :: t :: comma_tail r end.

(* t1 , t2 , ... , tk *)
Definition comma_toks (t1 : stok) (ts : list stok) : list stok := t1 :: comma_tail ts.

Definition value_toks (ts : list stok) : Prop := Forall (fun t => is_sop t = false) ts.

Lemma ptok_of_value : forall t, is_sop t = false -> ptok_of fo vars t = PVal (val_of t).
Proof.
  intros t H. unfold val_of. destruct t; cbn [ptok_of is_sop] in *; try reflexivity; try discriminate.
  destruct (lookup name vars); reflexivity.
Qed.

Lemma flatten_comma_tree : forall vs (acc : ptree fo),
  flatten fo (comma_tree fo acc vs) =
  flatten fo acc ++ flat_map (fun v => [POp OCComma MoreProofs.comma; PVal v]) vs.
Proof.
  induction vs as [|v vs IH]; intro acc; cbn [comma_tree flat_map].
  - rewrite app_nil_r. reflexivity.
  - rewrite IH. cbn [flatten]. rewrite <- !app_assoc. reflexivity.
Qed.

Lemma map_comma_tail : forall ts, value_toks ts ->
  map (ptok_of fo vars) (comma_tail ts) =
  flat_map (fun v => [POp OCComma MoreProofs.comma; PVal v]) (map val_of ts).
Proof.
  induction ts as [|t ts IH]; intro H; [reflexivity|].
  inversion H as [|x l Ht Hts]; subst x l.
  cbn [comma_tail map flat_map app]. rewrite (ptok_of_value t Ht), (IH Hts). reflexivity.
Qed.

Lemma comma_tail_alt : forall ts, value_toks ts -> alt_from true (comma_tail ts).
Proof.
  induction ts as [|t ts IH]; intro H; [reflexivity|].
  inversion H as [|x l Ht Hts]; subst x l.
  cbn [comma_tail alt_from negb]. split; [reflexivity|]. split; [exact Ht|]. apply IH. exact Hts.
Qed.

Lemma comma_toks_alternating : forall t1 ts, is_sop t1 = false -> value_toks ts -> alternating (comma_toks t1 ts).
Proof.
  intros t1 ts H1 Hts. unfold alternating, comma_toks. cbn [alt_from negb].
  split; [exact H1|]. apply comma_tail_alt. exact Hts.
Qed.

(* k >= 2 comma-separated values, any layout: the list of the k values in order *)
Theorem comma_args_value : forall lay t1 t2 ts,
  is_sop t1 = false -> is_sop t2 = false -> value_toks ts ->
  well_formed fo vars (comma_toks t1 (t2 :: ts)) -> layout_ok lay ->
  boundaries_ok fo vars lay (comma_toks t1 (t2 :: ts)) ->
  not_list fo (val_of t1) ->
  tokenize fo vars (spell lay (comma_toks t1 (t2 :: ts))) =
  Ok (VList (val_of t1 :: val_of t2 :: map val_of ts)).
Proof.
  intros lay t1 t2 ts H1 H2 Hts Hw Hl Hb Hnl.
  rewrite (tokenize_spelled_tree fo vars lay _
             (comma_tree fo (Node OCComma MoreProofs.comma (Leaf (PVal (val_of t1))) (Leaf (PVal (val_of t2))))
                         (map val_of ts))).
  - rewrite (comma_list fo (fun _ => Crash KOther) (val_of t1) (val_of t2) (map val_of ts) Hnl).
    reflexivity.
  - apply comma_toks_alternating; [exact H1|constructor; assumption].
  - exact Hw.
  - exact Hl.
  - exact Hb.
  - rewrite flatten_comma_tree. unfold comma_toks. cbn [comma_tail map flatten app].
    rewrite (ptok_of_value t1 H1), (ptok_of_value t2 H2), (map_comma_tail ts Hts). reflexivity.
  - apply comma_tree_wb.
    + cbn [wb]. exists 4. repeat split; intros k Hk; cbn in Hk; discriminate.
    + intros k Hk. cbn in Hk. injection Hk as <-. lia.
Qed.

(* one value token *)
Theorem single_arg_value : forall lay t,
  is_sop t = false -> well_formed fo vars [t] -> layout_ok lay -> boundaries_ok fo vars lay [t] ->
  tokenize fo vars (spell lay [t]) = Ok (normalise fo (val_of t)).
Proof.
  intros lay t H Hw Hl Hb.
  rewrite (tokenize_spelled_tree fo vars lay [t] (Leaf (PVal (val_of t)))).
  - reflexivity.
  - split; [exact H|reflexivity].
  - exact Hw.
  - exact Hl.
  - exact Hb.
  - cbn [map flatten]. rewrite (ptok_of_value t H). reflexivity.
  - exact I.
Qed.

End Args.

Section RunArgValues.
Variable fo : FloatOps.

(* RUN f t1, t2, ..., tk : argument i is the value of token i *)
Theorem arg_values_comma : forall (e : env fo) lay t1 t2 ts,
  let vars := all_vars fo e in
  let toks := comma_toks t1 (t2 :: ts) in
  is_sop t1 = false -> is_sop t2 = false -> value_toks ts ->
  well_formed fo vars toks -> layout_ok lay -> boundaries_ok fo vars lay toks ->
  not_list fo (val_of fo vars t1) ->
  is_blank (spell lay toks) = false ->
  arg_values fo e (Some (spell lay toks)) = Ok (map (val_of fo vars) (t1 :: t2 :: ts)).
Proof.
  intros e lay t1 t2 ts vars toks H1 H2 Hts Hw Hl Hb Hnl Hnb. subst vars toks.
  apply arg_values_list; [exact Hnb|].
  apply comma_args_value; assumption.
Qed.

(* RUN f t : one argument, unless the value of t is itself a list, which is spread *)
Theorem arg_values_one : forall (e : env fo) lay t,
  let vars := all_vars fo e in
  is_sop t = false -> well_formed fo vars [t] -> layout_ok lay -> boundaries_ok fo vars lay [t] ->
  is_blank (spell lay [t]) = false ->
  arg_values fo e (Some (spell lay [t])) = Ok (spread fo (normalise fo (val_of fo vars t))).
Proof.
  intros e lay t vars H Hw Hl Hb Hnb. subst vars. unfold arg_values. rewrite Hnb.
  rewrite (single_arg_value fo _ lay t H Hw Hl Hb). reflexivity.
Qed.

End RunArgValues.
