(* C14 (extension) -- k functions f_0 .. f_(k-1), the body of f_i is `RUN f_(i+1)`, the last one
   emits a line; the program ends with `RUN f_0`: it compiles iff k is below the limit. *)
From Coq Require Import NArith ZArith List Bool Lia ZifyBool.
From DS Require Import Base PyStr Values Expr TabParse Tables Constants Interp LimitSpec NestSpec.
From DS Require Import ScopeProofs CrashKinds LimitProofs UnknownWarn PipelineProofs ChainProofs RunProofs FuncProofs.
From DS Require Import NestKinds NestRun.
Import ListNotations.

(* ------------------------------------------------------------------ the program *)
(* the name of the i-th function: f, fa, faa, ... *)
Definition fname (i : nat) : str := 102%N :: repeat 97%N i.
Definition func_hdr (i : nat) : str := s_FUNC ++ 32%N :: fname i.      (* "FUNC fa..a" *)
Definition run_ln (i : nat) : str := s_RUN ++ 32%N :: fname i.         (* "RUN fa..a" *)

Definition body (k i : nat) : list item :=
  if (S i <? k)%nat then [Ln (run_ln (S i)) (2 * Z.of_nat i + 2)] else [Ln s_STRING_x (2 * Z.of_nat i + 2)].

(* the definitions of f_i .. f_(i+n-1) *)
Fixpoint defs_from (k n i : nat) : list item :=
  match n with
  | O => []
  | S n' => Ln (func_hdr i) (2 * Z.of_nat i + 1) :: Blk (body k i) :: defs_from k n' (S i)
  end.

Definition call_chain (k : nat) : list item := defs_from k k 0 ++ [Ln (run_ln 0) (2 * Z.of_nat k + 1)].

(* ------------------------------------------------------------------ strings *)
Lemma no_ws_fname : forall i, no_ws (fname i).
Proof.
  intro i. unfold no_ws, fname. cbn [forallb]. change (negb (isspace_c 102)) with true. cbn [andb].
  induction i as [|i IH]; [reflexivity|]. cbn [repeat forallb]. rewrite IH. reflexivity.
Qed.

Lemma lstrip_no_ws : forall s, no_ws s -> lstrip s = s.
Proof.
  intros [|c r] H; [reflexivity|]. unfold no_ws in H. cbn [forallb] in H. apply andb_true_iff in H.
  destruct H as [H _]. apply negb_true_iff in H. cbn [lstrip]. rewrite H. reflexivity.
Qed.

Lemma no_ws_rev : forall s, no_ws s -> no_ws (rev s).
Proof.
  intros s H. unfold no_ws in *. rewrite forallb_forall in *. intros x Hx. apply H. apply in_rev. exact Hx.
Qed.

Lemma strip_no_ws : forall s, no_ws s -> strip s = s.
Proof.
  intros s H. unfold strip, rstrip. rewrite (lstrip_no_ws s H), (lstrip_no_ws _ (no_ws_rev s H)). apply rev_involutive.
Qed.

Lemma split_char1_no_ws : forall s, no_ws s -> split_char1 space s = (s, None).
Proof.
  induction s as [|x r IH]; intro H; [reflexivity|]. unfold no_ws in H. cbn [forallb] in H.
  apply andb_true_iff in H. destruct H as [Hx Hr]. cbn [split_char1].
  destruct (x =? space)%N eqn:E.
  - apply N.eqb_eq in E. subst x. discriminate Hx.
  - rewrite (IH Hr). reflexivity.
Qed.

Lemma break_arg_fname : forall i, break_arg (strip (fname i)) = (fname i, None).
Proof.
  intro i. rewrite (strip_no_ws _ (no_ws_fname i)). unfold break_arg.
  rewrite (split_char1_no_ws _ (no_ws_fname i)). reflexivity.
Qed.

Lemma is_var_fname : forall i, is_var (fname i) false = true.
Proof.
  intro i. unfold is_var, fname. cbn [is_var_chars]. change (true && (102 =? 36)%N) with false.
  change (true && isdigit_c 102) with false. change (negb (char_in 102 acceptable_vars)) with false. cbv iota.
  induction i as [|i IH]; [reflexivity|]. cbn [repeat is_var_chars]. cbn [andb].
  change (negb (char_in 97 acceptable_vars)) with false. cbv iota. exact IH.
Qed.

Lemma fname_inj : forall i j, fname i = fname j -> i = j.
Proof.
  intros i j H. apply (f_equal (@length N)) in H. unfold fname in H. cbn [length] in H.
  rewrite !repeat_length in H. lia.
Qed.

Lemma fname_neq : forall i j, i <> j -> str_eqb (fname i) (fname j) = false.
Proof. intros i j H. apply str_eqb_neq. intro E. apply H. apply fname_inj. exact E. Qed.

Lemma split_func_hdr : forall i, split_ws1 (func_hdr i) = [s_FUNC; fname i].
Proof.
  intro i. unfold func_hdr. rewrite split_ws1_kw; [|discriminate|reflexivity].
  rewrite (lstrip_no_ws _ (no_ws_fname i)). reflexivity.
Qed.

Lemma split_run_ln : forall i, split_ws1 (run_ln i) = [s_RUN; fname i].
Proof.
  intro i. unfold run_ln. rewrite split_ws1_kw; [|discriminate|reflexivity].
  rewrite (lstrip_no_ws _ (no_ws_fname i)). reflexivity.
Qed.

Lemma blank_func_hdr : forall i, is_blank (func_hdr i) = false.
Proof. intro i. apply is_blank_split. rewrite split_func_hdr. discriminate. Qed.

Lemma blank_run_ln : forall i, is_blank (run_ln i) = false.
Proof. intro i. apply is_blank_split. rewrite split_run_ln. discriminate. Qed.

Lemma body_nonempty : forall k i, body k i <> [].
Proof. intros k i. unfold body. destruct (S i <? k)%nat; discriminate. Qed.

Section Calls.
Variable fo : FloatOps.
Notation sys0 := [(default_delay_var, @VInt fo 0)].

Section Step.
Variable child : runner fo.
Variable cx : ctx.
Notation limit_test := (limit_test cx).
Notation cx_in := (cx_in cx).

(* FUNC f_i over a block: defines f_i, emits nothing, pushes nothing *)
Lemma run_with_func_i : forall i n g e b, b <> [] ->
  run_with fo child cx g e [Ln (func_hdr i) n; Blk b] =
  (g, IOk (mkCret [] SNormal, define fo (fname i) (mkFunc [] b (c_file cx)) e)).
Proof.
  intros i n g e b Hb. destruct b as [|x r]; [contradiction|]. unfold run_with.
  destruct (find_func s_FUNC s_FUNC x r (or_introl eq_refl) eq_refl eq_refl) as (cname & bc & Hf & Hbc).
  cbn [exec_cmds]. rewrite blank_func_hdr.
  unfold bindM at 1. unfold set_line2 at 1. unfold bindM at 1.
  unfold exec_line. rewrite split_func_hdr. cbv beta iota. rewrite Hf.
  cbn [is_start_class andb]. cbv beta iota.
  unfold bindM at 1.
  rewrite (func_defines fo child cx (func_hdr i, n) bc cname s_FUNC n (fname i) (Some (x :: r)) (fname i) None _ Hbc
             ltac:(discriminate) (break_arg_fname i)
             ltac:(unfold names_ok, func_params; rewrite is_var_fname; reflexivity)).
  cbn. reflexivity.
Qed.

(* RUN f_i where f_i is bound to a parameterless function of this file: one push *)
Lemma run_with_run_i : forall i m g e f,
  lookup (fname i) (e_funcs fo e) = Some f -> fn_args f = [] -> fn_file f = c_file cx ->
  run_with fo child cx g e [Ln (run_ln i) m] =
  if limit_test then (g, IErr EStackOverflow (Some (here cx (run_ln i, m) (Some (run_ln i, m)))))
  else match child (cx_in (run_ln i, m) (Some (run_ln i, m)) (c_file cx)) g (callee_env fo f [] e) (fn_code f) with
       | (g', IOk (cr, cenv2)) =>
           match cr_sig cr with
           | SBreak | SContinue =>
               (g', IErr EStackReturnType (Some (here cx (run_ln i, m) (Some (run_ln i, m)))))
           | _ => (g', IOk (mkCret (cr_data cr) SNormal, update_from_env fo e cenv2))
           end
       | (g', IErr er t) => (g', IErr er t)
       | (g', ICrash k) => (g', ICrash k)
       | (g', IUnmod) => (g', IUnmod)
       end.
Proof.
  intros i m g e f Hl Ha Hfile. unfold run_with.
  destruct (find_run s_RUN eq_refl eq_refl) as (cname & sc & Hf & Hdc & Hr).
  cbn [exec_cmds]. rewrite blank_run_ln.
  unfold bindM at 1. unfold set_line2 at 1. unfold bindM at 1.
  unfold exec_line. rewrite split_run_ln. cbv beta iota. rewrite Hf.
  assert (Hst : is_start_class (Simple sc) = false) by (cbn [is_start_class]; rewrite Hr; reflexivity).
  rewrite Hst. cbn [andb]. cbv beta iota zeta.
  rewrite (direct_one_arg fo child cx (run_ln i, m) cname (ByCommand cname) sc s_RUN m (fname i) _ Hdc
             (starts_dollar_no_dollar s_RUN eq_refl) ltac:(discriminate)).
  cbn [Interp.s_g Interp.s_env].
  pose proof (run_calls fo child cx (run_ln i, m) cname sc s_RUN (AStr (strip (fname i))) m (run_ln i, m) (fname i) None
             (@mkSt fo g e (Some (run_ln i, m))) [] f
             Hr (break_arg_fname i) eq_refl Hl ltac:(rewrite Ha; reflexivity)) as E.
  rew_conv E.
  unfold call_result. change (stack_full cx) with limit_test. destruct limit_test; [reflexivity|].
  cbn [Interp.s_g Interp.s_env Interp.s_line2].
  unfold callee_ctx, callee_file. rewrite Hfile.
  replace (match c_file cx with Some p => Some p | None => c_file cx end) with (c_file cx)
    by (destruct (c_file cx); reflexivity).
  unfold NestKinds.cx_in.
  destruct (child _ g _ (fn_code f)) as [g' [[cr cenv2]|er t|k|]]; try reflexivity.
  destruct (cr_sig cr); reflexivity.
Qed.

Lemma run_with_string_sys : forall n g e,
  e_sys fo e = sys0 -> e_user fo e = [] -> e_temp fo e = [] ->
  run_with fo child cx g e [Ln s_STRING_x n] = (g, IOk (mkCret [x_line] SNormal, e)).
Proof.
  intros n g [sy us te fu] Hs Hu Ht. cbn [e_sys e_user e_temp] in *. subst sy us te.
  unfold run_with. cbn. reflexivity.
Qed.

End Step.

Section Chain.
Variable o : options.
Variable fs : fsys.
Variable file : option path.
Variable k : nat.
Notation L := (stack_limit o).

Definition Fj (j : nat) : func := mkFunc [] (body k j) file.

(* the environments of the stacks of this program once f_0 .. f_(i-1) are defined *)
Definition Inv (i : nat) (e : env fo) : Prop :=
  e_sys fo e = sys0 /\ e_user fo e = [] /\ e_temp fo e = [] /\ nodup_keys (e_funcs fo e) /\
  forall j, (j < i)%nat -> lookup (fname j) (e_funcs fo e) = Some (Fj j).

Lemma Inv_initial : Inv 0 (initial_env fo).
Proof. repeat split; try reflexivity; [apply nodup_keys_nil|intros j Hj; lia]. Qed.

Lemma Inv_define : forall i e, Inv i e -> Inv (S i) (define fo (fname i) (Fj i) e).
Proof.
  intros i e (Hs & Hu & Ht & Hn & Hl). unfold define. repeat split; cbn [e_sys e_user e_temp e_funcs]; try assumption.
  - apply nodup_keys_upd. exact Hn.
  - intros j Hj. destruct (Nat.eq_dec j i) as [->|Hne].
    + apply lookup_upd_same.
    + rewrite lookup_upd_other by (apply fname_neq; exact Hne). apply Hl. lia.
Qed.

Lemma Inv_callee : forall i f e, Inv i e -> Inv i (callee_env fo f [] e).
Proof.
  intros i f e (Hs & Hu & Ht & Hn & Hl). unfold callee_env, bind_params.
  cbn [e_sys e_user e_temp e_funcs append_env empty_env]. rewrite Hs, Hu.
  destruct (combine (fn_args f) []) eqn:Ec; [|destruct (fn_args f); discriminate Ec].
  repeat split; try reflexivity.
  - cbn [e_funcs]. apply nodup_keys_upd_all. apply nodup_keys_nil.
  - intros j Hj. cbn [e_funcs]. rewrite lookup_upd_all_nil by exact Hn. apply Hl. exact Hj.
Qed.

Lemma Inv_update : forall i e c, Inv i e -> e_sys fo c = sys0 -> Inv i (update_from_env fo e c).
Proof.
  intros i e c (Hs & Hu & Ht & Hn & Hl) Hc. unfold update_from_env.
  cbn [e_sys e_user e_temp e_funcs]. rewrite Hs, Hu, Hc. repeat split; try assumption; reflexivity.
Qed.

Lemma body_last : forall j, S j = k -> body k j = [Ln s_STRING_x (2 * Z.of_nat j + 2)].
Proof. intros j H. unfold body. replace (S j <? k)%nat with false by (symmetry; apply Nat.ltb_ge; lia). reflexivity. Qed.

Lemma body_next : forall j, (S j < k)%nat -> body k j = [Ln (run_ln (S j)) (2 * Z.of_nat j + 2)].
Proof. intros j H. unfold body. replace (S j <? k)%nat with true by (symmetry; apply Nat.ltb_lt; lia). reflexivity. Qed.

(* r calls remain: f_i .. f_(k-1) *)
Lemma call_within : forall r i d pile n g e, (i + r = k)%nat -> (1 <= r)%nat -> Inv k e ->
  (Z.of_nat (length pile) + Z.of_nat r < L)%Z -> (r <= d)%nat ->
  exists e', Inv k e' /\
    run fo d (mkCtx o fs pile file) g e [Ln (run_ln i) n] = (g, IOk (mkCret [x_line] SNormal, e')).
Proof.
  induction r as [|r IH]; intros i d pile n g e Hir Hr He HL Hd; [lia|].
  destruct d as [|d']; [lia|]. cbn [run].
  destruct He as (Hs & Hu & Ht & Hn & Hl).
  assert (He : Inv k e) by (repeat split; assumption).
  rewrite (run_with_run_i _ (mkCtx o fs pile file) i n g e (Fj i) (Hl i ltac:(lia)) eq_refl eq_refl).
  rewrite limit_test_false by lia.
  unfold NestKinds.cx_in. cbn [c_opts c_fs c_file fn_code Fj].
  destruct r as [|r'].
  - (* the last function: STRING x *)
    rewrite body_last by lia. rewrite run_unfold.
    destruct (Inv_callee k (Fj i) e He) as (Hs' & Hu' & Ht' & _).
    rewrite run_with_string_sys by assumption. cbn [cr_sig cr_data].
    exists (update_from_env fo e (callee_env fo (Fj i) [] e)). split; [|reflexivity].
    apply Inv_update; assumption.
  - rewrite body_next by lia.
    destruct (IH (S i) d' (here (mkCtx o fs pile file) (run_ln i, n) (Some (run_ln i, n)))
                 (2 * Z.of_nat i + 2)%Z g (callee_env fo (Fj i) [] e)) as (e' & He' & Hrun).
    + lia.
    + lia.
    + apply Inv_callee. exact He.
    + rewrite here_length. cbn [c_pile]. lia.
    + lia.
    + rewrite Hrun. cbn [cr_sig cr_data]. exists (update_from_env fo e e'). split; [|reflexivity].
      apply Inv_update; [exact He|]. destruct He' as (Hs' & _). exact Hs'.
Qed.

Lemma call_overflow : forall r i d pile n g e, (i + r = k)%nat -> (1 <= r)%nat -> Inv k e ->
  (L <= Z.of_nat (length pile) + Z.of_nat r)%Z ->
  (L - Z.of_nat (length pile) - 1 <= Z.of_nat d)%Z ->
  exists t, run fo d (mkCtx o fs pile file) g e [Ln (run_ln i) n] = (g, IErr EStackOverflow (Some t)).
Proof.
  induction r as [|r IH]; intros i d pile n g e Hir Hr He HL Hd; [lia|].
  rewrite run_unfold.
  destruct He as (Hs & Hu & Ht & Hn & Hl).
  assert (He : Inv k e) by (repeat split; assumption).
  rewrite (run_with_run_i _ (mkCtx o fs pile file) i n g e (Fj i) (Hl i ltac:(lia)) eq_refl eq_refl).
  destruct (NestKinds.limit_test (mkCtx o fs pile file)) eqn:Hlim; [eexists; reflexivity|].
  unfold NestKinds.limit_test, stack_limit_op, pile_len in Hlim. cbn [cmp_eval c_pile c_opts] in Hlim.
  apply Z.leb_gt in Hlim.
  destruct d as [|d']; [lia|].
  unfold NestKinds.cx_in. cbn [c_opts c_fs c_file fn_code Fj].
  destruct r as [|r']; [lia|].
  rewrite body_next by lia.
  destruct (IH (S i) d' (here (mkCtx o fs pile file) (run_ln i, n) (Some (run_ln i, n)))
               (2 * Z.of_nat i + 2)%Z g (callee_env fo (Fj i) [] e)) as [t Hov].
  - lia.
  - lia.
  - apply Inv_callee. exact He.
  - rewrite here_length. cbn [c_pile]. lia.
  - rewrite here_length. cbn [c_pile]. lia.
  - rewrite Hov. exists t. reflexivity.
Qed.

(* the definitions: a stack of this file that runs them ends up knowing f_0 .. f_(k-1) *)
Lemma defs_run : forall child pile n i g e c0 m0 rest0, (i + n = k)%nat -> Inv i e ->
  exists e', Inv k e' /\
    run_with fo child (mkCtx o fs pile file) g e (defs_from k n i ++ Ln c0 m0 :: rest0) =
    run_with fo child (mkCtx o fs pile file) g e' (Ln c0 m0 :: rest0).
Proof.
  intros child pile n. induction n as [|n IH]; intros i g e c0 m0 rest0 Hin He.
  - exists e. split; [|reflexivity]. replace k with i by lia. exact He.
  - cbn [defs_from].
    destruct (IH (S i) g (define fo (fname i) (Fj i) e) c0 m0 rest0 ltac:(lia) (Inv_define i e He)) as (e' & He' & Hrun).
    exists e'. split; [exact He'|]. rewrite <- Hrun. rewrite <- !app_comm_cons.
    set (tl := defs_from k n (S i) ++ Ln c0 m0 :: rest0).
    assert (Htl : exists c m r, tl = Ln c m :: r)
      by (unfold tl; destruct n; cbn [defs_from app]; do 3 eexists; reflexivity).
    destruct Htl as (c & m & r & Htl). rewrite Htl.
    pose proof (run_with_func_i (child) (mkCtx o fs pile file) i (2 * Z.of_nat i + 1)%Z g e (body k i) (body_nonempty k i)) as Hdef.
    cbn [c_file] in Hdef. fold (Fj i) in Hdef.
    change (Ln (func_hdr i) (2 * Z.of_nat i + 1) :: Blk (body k i) :: Ln c m :: r)
      with ([Ln (func_hdr i) (2 * Z.of_nat i + 1); Blk (body k i)] ++ Ln c m :: r).
    rewrite (run_with_app_ok fo child _ _ _ _ _ _ _ _ _ _ Hdef). apply prepend_nil.
Qed.

End Chain.

(* ------------------------------------------------------------------ through Compiler.compile *)
Theorem call_chain_within_lemma : forall o fs file k,
  (1 <= k)%nat -> (Z.of_nat k < stack_limit o)%Z ->
  exists e', compile_items fo o fs file (call_chain k) =
             (mkGlob [] [], IOk (mkCompiled fo [x_line] [] e' [])).
Proof.
  intros o fs file k Hk H. unfold compile_items, call_chain. rewrite run_unfold.
  set (ch := match run_depth o with O => no_child fo | S d' => run fo d' end).
  destruct (defs_run o fs file k ch [] k 0 (mkGlob [] []) (initial_env fo) (run_ln 0) (2 * Z.of_nat k + 1)%Z []
              eq_refl (Inv_initial file k)) as (e1 & He1 & Hrun).
  rewrite Hrun. unfold ch. rewrite <- run_unfold.
  destruct (call_within o fs file k k 0 (run_depth o) [] (2 * Z.of_nat k + 1)%Z (mkGlob [] []) e1) as (e' & _ & Hc).
  - reflexivity.
  - exact Hk.
  - exact He1.
  - cbn [length]. lia.
  - unfold run_depth. lia.
  - rewrite Hc. exists e'. reflexivity.
Qed.

Theorem call_chain_overflow_lemma : forall o fs file k,
  (1 <= k)%nat -> (stack_limit o <= Z.of_nat k)%Z ->
  exists t, compile_items fo o fs file (call_chain k) = (mkGlob [] [], IErr EStackOverflow (Some t)).
Proof.
  intros o fs file k Hk H. unfold compile_items, call_chain. rewrite run_unfold.
  set (ch := match run_depth o with O => no_child fo | S d' => run fo d' end).
  destruct (defs_run o fs file k ch [] k 0 (mkGlob [] []) (initial_env fo) (run_ln 0) (2 * Z.of_nat k + 1)%Z []
              eq_refl (Inv_initial file k)) as (e1 & He1 & Hrun).
  rewrite Hrun. unfold ch. rewrite <- run_unfold.
  destruct (call_overflow o fs file k k 0 (run_depth o) [] (2 * Z.of_nat k + 1)%Z (mkGlob [] []) e1) as [t Ht].
  - reflexivity.
  - exact Hk.
  - exact He1.
  - cbn [length]. lia.
  - unfold run_depth. cbn [length]. lia.
  - rewrite Ht. exists t. reflexivity.
Qed.

(* k >= 1 functions: every RUN pushes one stack, the chain needs k of them.  (For limits below 1
   the very first RUN is refused, which is the right-hand side being false.) *)
Theorem call_chain_exact_lemma : forall o fs file k,
  (1 <= k)%nat ->
  ((exists g c, compile_items fo o fs file (call_chain k) = (g, IOk c)) <-> (Z.of_nat k < stack_limit o)%Z).
Proof.
  intros o fs file k Hk. split.
  - intros [g [c Hc]]. destruct (Z_lt_le_dec (Z.of_nat k) (stack_limit o)) as [Hlt|Hge]; [exact Hlt|].
    destruct (call_chain_overflow_lemma o fs file k Hk Hge) as [t Ht].
    rewrite Ht in Hc. discriminate Hc.
  - intro Hlt. destruct (call_chain_within_lemma o fs file k Hk Hlt) as [e' H]. eexists. eexists. exact H.
Qed.

End Calls.

(* sanity: the program for k = 2 is what the tab parser produces for
   FUNC f / <tab>RUN fa / FUNC fa / <tab>STRING x / RUN f *)
Example call_chain_is_parsed_text :
  prepare_text (func_hdr 0 ++ [10;9] ++ run_ln 1 ++ [10] ++ func_hdr 1 ++ [10;9] ++ s_STRING_x ++ [10] ++ run_ln 0)%N
  = TOk (call_chain 2).
Proof. vm_compute. reflexivity. Qed.
