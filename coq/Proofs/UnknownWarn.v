(* T3 (C16): a line whose first word no palette class claims produces, unless suppressed, a warning
   that locates that line -- and the warning is still in the glob at the end of the stack, of the
   run and of the compilation, whatever the outcome (success, error, crash). *)
From Coq Require Import NArith ZArith List Bool Lia.
From DS Require Import Base PyStr Values Expr TabParse Tables Constants Interp.
From DS Require Import StackLift PrintsMono CrashFree.
Import ListNotations.

(* ------------------------------------------------------------------ warning_eqb decides equality *)
Lemma seqb_true : forall a b : str, str_eqb a b = true -> a = b.
Proof.
  induction a as [|x a IH]; intros [|y b] H; cbn [str_eqb] in H; try reflexivity; try discriminate.
  apply andb_true_iff in H. destruct H as [Hx Hr]. apply N.eqb_eq in Hx. apply IH in Hr. subst. reflexivity.
Qed.

Lemma list_eqb_true : forall A (eqb : A -> A -> bool),
  (forall x y, eqb x y = true -> x = y) -> forall a b, list_eqb eqb a b = true -> a = b.
Proof.
  intros A eqb Heq. induction a as [|x a IH]; intros [|y b] H; cbn [list_eqb] in H;
    try reflexivity; try discriminate.
  apply andb_true_iff in H. destruct H as [Hx Hr]. apply Heq in Hx. apply IH in Hr. subst. reflexivity.
Qed.

Lemma opt_eqb_true : forall A (eqb : A -> A -> bool),
  (forall x y, eqb x y = true -> x = y) -> forall a b, opt_eqb eqb a b = true -> a = b.
Proof.
  intros A eqb Heq [x|] [y|] H; cbn [opt_eqb] in H; try reflexivity; try discriminate.
  apply Heq in H. subst. reflexivity.
Qed.

Lemma preline_eqb_true : forall a b, preline_eqb a b = true -> a = b.
Proof.
  intros [c n] [c' n'] H. unfold preline_eqb in H. cbn [fst snd] in H. apply andb_true_iff in H.
  destruct H as [H1 H2]. apply seqb_true in H1. apply Z.eqb_eq in H2. subst. reflexivity.
Qed.

Lemma frame_eqb_true : forall a b, frame_eqb a b = true -> a = b.
Proof.
  intros [f l l2] [f' l' l2'] H. unfold frame_eqb in H. cbn [fr_file fr_line fr_line2] in H.
  apply andb_true_iff in H. destruct H as [H H3]. apply andb_true_iff in H. destruct H as [H1 H2].
  apply (opt_eqb_true _ _ (list_eqb_true _ _ seqb_true)) in H1.
  apply preline_eqb_true in H2. apply (opt_eqb_true _ _ preline_eqb_true) in H3. subst. reflexivity.
Qed.

Lemma warning_eqb_true : forall a b, warning_eqb a b = true -> a = b.
Proof.
  intros [t tr] [t' tr'] H. unfold warning_eqb in H. cbn [w_text w_trace] in H.
  apply andb_true_iff in H. destruct H as [H1 H2]. apply seqb_true in H1.
  apply (opt_eqb_true _ _ (list_eqb_true _ _ frame_eqb_true)) in H2. subst. reflexivity.
Qed.

(* add_warning: the warning is present afterwards (added, or it already was) *)
Lemma add_warning_In : forall w g, In w (g_warnings (add_warning w g)).
Proof.
  intros w g. unfold add_warning. destruct (existsb _ _) eqn:E.
  - apply existsb_exists in E. destruct E as (x & Hin & Heq). apply warning_eqb_true in Heq. subst x. exact Hin.
  - left. reflexivity.
Qed.

(* ------------------------------------------------------------------ splitting a stack at a line *)
Section Unknown.
Variable fo : FloatOps.

Definition continue_with (x : st fo * ires cret) (k : list oline -> st fo -> st fo * ires cret) :=
  match x with
  | (s1, IOk _ cr) => match cr_sig cr with SNormal => k (cr_data cr) s1 | _ => x end
  | _ => x
  end.

(* the lines before a line (not before a block: that block would belong to the last of them)
   run first; the rest runs iff they complete without a signal *)
Lemma exec_cmds_app : forall child cx pre c n rest acc s,
  exec_cmds fo child cx (pre ++ Ln c n :: rest) acc s =
  continue_with (exec_cmds fo child cx pre acc s) (exec_cmds fo child cx (Ln c n :: rest)).
Proof.
  intros child cx pre c n rest. induction pre as [|[c' n'|b] pre IH]; intros acc s.
  - reflexivity.
  - cbn [app]. cbn [exec_cmds]. fold (exec_cmds fo child cx). destruct (is_blank c'); [apply IH|].
    replace (match pre ++ Ln c n :: rest with Blk b :: _ => Some b | _ => None end)
      with (match pre with Blk b :: _ => Some b | _ => None end) by (destruct pre as [|[?c ?n|?b] ?]; reflexivity).
    unfold bindM at 1 3. unfold set_line2. unfold bindM.
    destruct (exec_line _ _ _ _ _ _ _) as [s1 [cr|e t|k|]]; try reflexivity.
    destruct (cr_sig cr) eqn:Es; try (unfold ret, continue_with; cbn [cr_sig]; reflexivity).
    apply IH.
  - cbn [app exec_cmds]. apply IH.
Qed.

Definition first_word (c : str) : str := hd [] (split_ws1 c).
Definition block_after (rest : list item) : option (list item) :=
  match rest with Blk b :: _ => Some b | _ => None end.

Definition unknown_line (cx : ctx) (c : str) (rest : list item) : Prop :=
  is_blank c = false /\
  find_command palette (first_word c) (block_after rest) = None /\
  supress_command_not_exist (c_opts cx) = false.

Definition locating_warning (cx : ctx) (c : str) (n : Z) (l2 : option preline) : warning :=
  mkWarn (unknown_warning_text n) (Some (here cx (c, n) l2)).

(* one line: right after dispatch the warning is in the glob, and the rest of the line keeps it *)
Theorem unknown_warning_line : forall child cx, warnings_runner fo child ->
  forall c n cb cmd more s s' r,
  split_ws1 c = cmd :: more ->
  find_command palette cmd cb = None ->
  supress_command_not_exist (c_opts cx) = false ->
  exec_line fo child cx c n cb s = (s', r) ->
  In (locating_warning cx c n (s_line2 fo s)) (g_warnings (s_g fo s')).
Proof.
  intros child cx Hc c n cb cmd more s s' r Hsplit Hfind Hsup E.
  unfold exec_line in E. rewrite Hsplit, Hfind, Hsup in E.
  unfold bindM at 1, warn at 1 in E.
  eapply (sat_simple_compile fo warns_incl warns_incl_refl warns_incl_trans warns_incl_warn warns_incl_print
            child cx (fun _ _ => True) (fun _ _ => I) (fun _ => I) (fun _ _ _ => True)) in E.
  - destruct E as [Hincl _]. cbn [Interp.s_g] in Hincl. apply Hincl. apply add_warning_In.
  - intros cur l2 file g e code g' r0 _ Ec. split; [eapply Hc; exact Ec|]. destruct r0; exact I.
  - discriminate.
  - discriminate.
Qed.

(* the line is the first of the commands: line_2 has just been reset *)
Theorem unknown_warning_head : forall child cx, warnings_runner fo child ->
  forall c n rest acc s s' r,
  unknown_line cx c rest ->
  exec_cmds fo child cx (Ln c n :: rest) acc s = (s', r) ->
  In (locating_warning cx c n None) (g_warnings (s_g fo s')).
Proof.
  intros child cx Hc c n rest acc s s' r (Hb & Hfind & Hsup) E.
  destruct (exec_cmds_after_line fo warns_incl warns_incl_refl warns_incl_trans warns_incl_warn warns_incl_print
              child cx Hc c n rest acc s s' r Hb E) as (s1 & r1 & El & _ & Hincl).
  apply Hincl. unfold first_word in Hfind. pose proof (split_ws1_nonblank c Hb) as Hne.
  destruct (split_ws1 c) as [|cmd more] eqn:Es; [contradiction|]. cbn [hd] in Hfind.
  exact (unknown_warning_line child cx Hc c n _ cmd more _ s1 r1 Es Hfind Hsup El).
Qed.

(* the line is anywhere in the commands of the stack and is reached *)
Theorem unknown_warning_reached : forall child cx, warnings_runner fo child ->
  forall pre c n rest acc s s1 acc1 s' r,
  unknown_line cx c rest ->
  exec_cmds fo child cx pre acc s = (s1, IOk _ (mkCret acc1 SNormal)) ->
  exec_cmds fo child cx (pre ++ Ln c n :: rest) acc s = (s', r) ->
  In (locating_warning cx c n None) (g_warnings (s_g fo s')).
Proof.
  intros child cx Hc pre c n rest acc s s1 acc1 s' r Hu Epre E.
  rewrite exec_cmds_app, Epre in E. cbn [continue_with cr_sig cr_data] in E.
  eapply unknown_warning_head; eassumption.
Qed.

(* the same for a whole stack, the depth-indexed interpreter and the compiler *)
Theorem unknown_warning_run_with : forall child, warnings_runner fo child ->
  forall cx c n rest g e g' r,
  unknown_line cx c rest ->
  run_with fo child cx g e (Ln c n :: rest) = (g', r) ->
  In (locating_warning cx c n None) (g_warnings g').
Proof.
  intros child Hc cx c n rest g e g' r Hu E. unfold run_with in E.
  destruct (exec_cmds _ _ _ _ _ _) as [s1 r1] eqn:Ec.
  pose proof (unknown_warning_head child cx Hc c n rest _ _ _ _ Hu Ec) as H.
  destruct r1; injection E as <- _; exact H.
Qed.

Theorem unknown_warning_run : forall d cx c n rest g e g' r,
  unknown_line cx c rest ->
  run fo d cx g e (Ln c n :: rest) = (g', r) ->
  In (locating_warning cx c n None) (g_warnings g').
Proof.
  intros d cx c n rest g e g' r Hu E. destruct d as [|d]; cbn [run] in E.
  - eapply unknown_warning_run_with; [|exact Hu|exact E].
    apply (no_child_rel fo warns_incl warns_incl_refl).
  - eapply unknown_warning_run_with; [|exact Hu|exact E]. apply run_warnings_mono.
Qed.

Theorem unknown_warning_compile_items : forall o fs file c n rest g res,
  is_blank c = false ->
  find_command palette (first_word c) (block_after rest) = None ->
  supress_command_not_exist o = false ->
  compile_items fo o fs file (Ln c n :: rest) = (g, res) ->
  In (mkWarn (unknown_warning_text n) (Some [mkFrame file (c, n) None])) (g_warnings g) /\
  (forall cp, res = IOk _ cp ->
     In (mkWarn (unknown_warning_text n) (Some [mkFrame file (c, n) None])) (warnings fo cp)).
Proof.
  intros o fs file c n rest g res Hb Hfind Hsup E.
  destruct (compile_items_prints fo o fs file _ g res E) as (g0 & res0 & Er & _ & Hincl & _).
  assert (Hu : unknown_line (mkCtx o fs [] file) c rest) by (repeat split; assumption).
  pose proof (unknown_warning_run _ _ c n rest _ _ _ _ Hu Er) as H0.
  unfold locating_warning, here in H0. cbn [c_pile c_file app] in H0.
  split; [apply Hincl; exact H0|].
  intros cp ->. unfold compile_items in E. rewrite Er in E.
  destruct res0 as [[cr e]|er t|k|]; try discriminate. injection E as Eg <-. cbn [warnings].
  apply -> in_rev. rewrite Eg. apply Hincl. exact H0.
Qed.

(* ... and for a line anywhere in the main stack that is reached *)
Definition child_of (d : nat) : runner fo := match d with O => no_child fo | S d' => run fo d' end.

Lemma run_child_of : forall d, run fo d = run_with fo (child_of d).
Proof. intros [|d]; reflexivity. Qed.

Lemma child_of_warnings : forall d, warnings_runner fo (child_of d).
Proof.
  intros [|d]; cbn [child_of]; [apply (no_child_rel fo warns_incl warns_incl_refl)|apply run_warnings_mono].
Qed.

Theorem unknown_warning_run_reached : forall d cx pre c n rest g e s1 acc1 g' r,
  unknown_line cx c rest ->
  exec_cmds fo (child_of d) cx pre [] (mkSt fo g e None) = (s1, IOk _ (mkCret acc1 SNormal)) ->
  run fo d cx g e (pre ++ Ln c n :: rest) = (g', r) ->
  In (locating_warning cx c n None) (g_warnings g').
Proof.
  intros d cx pre c n rest g e s1 acc1 g' r Hu Epre E. rewrite run_child_of in E. unfold run_with in E.
  destruct (exec_cmds fo (child_of d) cx (pre ++ _) _ _) as [s2 r2] eqn:Ec.
  pose proof (unknown_warning_reached (child_of d) cx (child_of_warnings d) pre c n rest _ _ _ _ _ _ Hu Epre Ec) as H.
  destruct r2; injection E as <- _; exact H.
Qed.

Theorem unknown_warning_compile_items_reached : forall o fs file pre c n rest s1 acc1 g res,
  is_blank c = false ->
  find_command palette (first_word c) (block_after rest) = None ->
  supress_command_not_exist o = false ->
  exec_cmds fo (child_of (run_depth o)) (mkCtx o fs [] file) pre []
            (mkSt fo (mkGlob [] []) (initial_env fo) None) = (s1, IOk _ (mkCret acc1 SNormal)) ->
  compile_items fo o fs file (pre ++ Ln c n :: rest) = (g, res) ->
  In (mkWarn (unknown_warning_text n) (Some [mkFrame file (c, n) None])) (g_warnings g) /\
  (forall cp, res = IOk _ cp ->
     In (mkWarn (unknown_warning_text n) (Some [mkFrame file (c, n) None])) (warnings fo cp)).
Proof.
  intros o fs file pre c n rest s1 acc1 g res Hb Hfind Hsup Epre E.
  destruct (compile_items_prints fo o fs file _ g res E) as (g0 & res0 & Er & _ & Hincl & _).
  assert (Hu : unknown_line (mkCtx o fs [] file) c rest) by (repeat split; assumption).
  pose proof (unknown_warning_run_reached _ _ pre c n rest _ _ _ _ _ _ Hu Epre Er) as H0.
  unfold locating_warning, here in H0. cbn [c_pile c_file app] in H0.
  split; [apply Hincl; exact H0|].
  intros cp ->. unfold compile_items in E. rewrite Er in E.
  destruct res0 as [[cr e]|er t|k|]; try discriminate. injection E as Eg <-. cbn [warnings].
  apply -> in_rev. rewrite Eg. apply Hincl. exact H0.
Qed.

End Unknown.
