(* Well-formed core programs: the side conditions under which the concrete form [items_of] of a
   CoreLang program is read back by the interpreter as that program.  They talk about spelling
   only (names are identifiers, texts have no surrounding blanks, the NAME of an output line is
   one of the pass-through commands of the generated palette). *)
From Coq Require Import NArith ZArith List Bool.
From DS Require Import Base PyStr Values Expr TabParse Tables Constants Interp IdentSpec.
From DS Require Import PipelineProofs GroupProofs CoreLang.
Import ListNotations.

(* an expression / condition / count as written: not empty, no blank at either end *)
Definition expr_ok (e : str) : Prop := e <> [] /\ lstrip e = e /\ rstrip e = e.

Definition word_okb (w : str) : bool :=
  match w with [] => false | _ => forallb (fun c => negb (isspace_c c)) w end
  && str_eqb (upper w) w && negb (PipelineProofs.starts_dollar w).

(* NAME is an upper-case word that the generated palette gives to a pass-through class (no
   validator, no formatter, default run_compile, not flipper-only) that accepts an argument *)
Definition emit_name_ok (name : str) : bool :=
  word_okb name &&
  match find_command palette name None with
  | Some (_, Simple sc) => is_plainb sc && takes_args sc
  | _ => false
  end.

Definition emit_strips (name : str) : bool :=
  match find_command palette name None with
  | Some (_, Simple sc) => s_strip_args sc
  | _ => false
  end.

(* the text of an output line: starts with a non-blank; no trailing blanks when the class
   strips its argument (STRING / STRINGLN do not) *)
Definition emit_ok (name text : str) : Prop :=
  emit_name_ok name = true /\ text <> [] /\ lstrip text = text /\
  (emit_strips name = true -> rstrip text = text).

(* $NAME: the same, looked up with the dollar *)
Definition eval_name_ok (name : str) : bool :=
  word_okb name &&
  match find_command palette (dollar_c :: name) None with
  | Some (_, Simple sc) => is_plainb sc && takes_args sc
  | _ => false
  end.

Definition counter_ok (c : option str) : Prop :=
  match c with Some x => identb x = true | None => True end.

(* without a counter the text up to the first comma would be taken for one *)
Definition loop_expr_ok (c : option str) (e : str) : Prop :=
  expr_ok e /\ match c with None => char_in comma_c e = false | Some _ => True end.

Definition all_list {A} (P : A -> Prop) : list A -> Prop :=
  fix go l := match l with [] => True | a :: r => P a /\ go r end.

Fixpoint wf (s : stmt) : Prop :=
  match s with
  | SEmit name text => emit_ok name text
  | SEmitEval name e => eval_name_ok name = true /\ expr_ok e
  | SVar x e => identb x = true /\ expr_ok e
  | SIf arms els =>
      arms <> [] /\
      all_list (fun cb : str * list stmt => let (c, b) := cb in expr_ok c /\ b <> [] /\ all_list wf b) arms /\
      match els with Some b => b <> [] /\ all_list wf b | None => True end
  | SRepeat c e b => counter_ok c /\ loop_expr_ok c e /\ b <> [] /\ all_list wf b
  | SWhile c e b => counter_ok c /\ loop_expr_ok c e /\ b <> [] /\ all_list wf b
  | SBreakLoop => True
  | SContinueLoop => True
  end.

Definition wf_list (p : list stmt) : Prop := all_list wf p.
Definition wf_arm (cb : str * list stmt) : Prop := let (c, b) := cb in expr_ok c /\ b <> [] /\ wf_list b.
Definition wf_else (els : option (list stmt)) : Prop :=
  match els with Some b => b <> [] /\ wf_list b | None => True end.

Lemma wf_if_unfold : forall arms els,
  wf (SIf arms els) <-> (arms <> [] /\ all_list wf_arm arms /\ wf_else els).
Proof. intros. reflexivity. Qed.
