(* C09 (whole model) -- no outcome of the interpreter model is a crash.
   Every remaining [crash] / [Crash] / [ICrash] site of Model/Interp.v is guarded by an earlier check;
   this file proves each guard and threads them through the command pipeline:
     1  exec_line, split_ws1 c = []           : exec_cmds skips blank lines
     2  run_compile with arg = None           : arg_req = Required in the generated palette
     3  Enter / Whitespace on a str content   : contents are typed by arg_type, and those run kinds
                                                only occur with arg_type = int in the palette
     4  Var, content not of two words         : rejected by the generated validator of Var
     5  validator / formatter DSL ill-typed   : every DSL term of the palette is well-typed for the
                                                arg_type of its class
     6  run_child, None                       : pre = fun _ => Ok true
     7  block_compile, argument = None        : arg_req = Required in the generated palette
     8  tokenizer and loop fuel               : ExprTotal.tokenize_never_crashes, LimitProofs
     9  TabFuel                               : TabProofs.parse_document_total
     10 no_child (KRecursion)                 : the stack-limit check refuses the push first.
   The lemmas are stated for an arbitrary set K of allowed crash kinds and have NO premise of the
   form  K k ; the final theorems instantiate K := fun _ => False. *)
From Coq Require Import NArith ZArith List Bool Lia.
From DS Require Import Base PyStr Values Expr TabParse Tables Constants Interp.
From DS Require Import CrashKinds LimitProofs TabProofs ExprTotal.
Import ListNotations.

(* ================================================================== string facts (sites 1 and 4) *)
Lemma lstrip_head_nonspace : forall s c r, lstrip s = c :: r -> isspace_c c = false.
Proof.
  induction s as [|a s IH]; intros c r H; cbn [lstrip] in H; [discriminate|].
  destruct (isspace_c a) eqn:Ha; [exact (IH _ _ H)|]. injection H as <- _. exact Ha.
Qed.

Lemma lstrip_idem : forall s, lstrip (lstrip s) = lstrip s.
Proof.
  intro s. destruct (lstrip s) as [|c r] eqn:E; [reflexivity|].
  cbn [lstrip]. rewrite (lstrip_head_nonspace _ _ _ E). reflexivity.
Qed.

(* site 1 *)
Lemma split_ws1_nonblank : forall c, is_blank c = false -> split_ws1 c <> [].
Proof.
  intros c H. unfold is_blank in H. unfold split_ws1.
  destruct (lstrip c) as [|a r]; [discriminate|].
  destruct (take_word (a :: r)) as [w rest]. destruct (lstrip rest); discriminate.
Qed.

Lemma lstrip_app_ws : forall s w, forallb isspace_c w = true ->
  lstrip (s ++ w) = match lstrip s with [] => [] | t => t ++ w end.
Proof.
  induction s as [|a s IH]; intros w Hw; cbn [app lstrip].
  - rewrite <- (app_nil_r w) at 1. rewrite lstrip_ws_app by exact Hw. reflexivity.
  - destruct (isspace_c a); [apply IH; exact Hw | reflexivity].
Qed.

Lemma take_word_app_ws : forall t w, forallb isspace_c w = true ->
  take_word (t ++ w) = (fst (take_word t), snd (take_word t) ++ w).
Proof.
  induction t as [|c r IH]; intros w Hw; cbn [app].
  - destruct w as [|x w']; [reflexivity|]. cbn [forallb] in Hw. apply andb_true_iff in Hw.
    destruct Hw as [Hx _]. cbn [take_word]. rewrite Hx. reflexivity.
  - cbn [take_word]. destruct (isspace_c c); [reflexivity|].
    rewrite (IH w Hw). destruct (take_word r) as [a rest]. reflexivity.
Qed.

Lemma split_ws1_app_ws_len : forall s w, forallb isspace_c w = true ->
  length (split_ws1 (s ++ w)) = length (split_ws1 s).
Proof.
  intros s w Hw. unfold split_ws1. rewrite (lstrip_app_ws s w Hw).
  destruct (lstrip s) as [|c r]; [reflexivity|].
  cbn [app]. change (c :: r ++ w) with ((c :: r) ++ w).
  rewrite (take_word_app_ws (c :: r) w Hw).
  destruct (take_word (c :: r)) as [a rest]. cbn [fst snd].
  rewrite (lstrip_app_ws rest w Hw).
  destruct (lstrip rest) as [|x y]; reflexivity.
Qed.

Lemma rstrip_decomp : forall t, exists w, forallb isspace_c w = true /\ t = rstrip t ++ w.
Proof.
  intro t. unfold rstrip. exists (rev (discover_tab_char (rev t))). split.
  - rewrite forallb_rev. apply discover_ws.
  - rewrite <- rev_app_distr. rewrite <- discover_split. symmetry. apply rev_involutive.
Qed.

(* site 4: s.strip().split(maxsplit=1) and s.split(maxsplit=1) have the same number of parts *)
Lemma split_ws1_strip_len : forall s, length (split_ws1 (strip s)) = length (split_ws1 s).
Proof.
  intro s. unfold strip.
  destruct (rstrip_decomp (lstrip s)) as [w [Hw Hd]].
  transitivity (length (split_ws1 (lstrip s))).
  - rewrite Hd at 2. symmetry. apply split_ws1_app_ws_len. exact Hw.
  - unfold split_ws1. rewrite lstrip_idem. reflexivity.
Qed.

(* ================================================================== site 9: the tab parser *)
Lemma prepare_text_total : forall text, prepare_text text <> TErr TabFuel.
Proof. intro text. unfold prepare_text. apply parse_document_total. Qed.

(* ================================================================== palette-level checks *)
Definition needs_arg (r : runkind) : bool :=
  match r with RKDefaultDelay | RKRun | RKVar | RKExist | RKNotExist | RKStart => true | _ => false end.
Definition int_run (r : runkind) : bool :=
  match r with RKEnter | RKWhitespace | RKDefaultDelay => true | _ => false end.
Definition is_var_run (r : runkind) : bool := match r with RKVar => true | _ => false end.
Definition is_required (a : argreq) : bool := match a with Required => true | _ => false end.
Definition is_int (a : argtype) : bool := match a with ATInt => true | _ => false end.

(* DSL terms that only use string operations / only numeric comparison *)
Fixpoint bexpr_str (b : bexpr) : bool :=
  match b with
  | BNum _ _ => false
  | BNot b' => bexpr_str b'
  | BAnd x y => bexpr_str x && bexpr_str y
  | BOr x y => bexpr_str x && bexpr_str y
  | _ => true
  end.
Fixpoint bexpr_int (b : bexpr) : bool :=
  match b with
  | BNum _ _ => true
  | BNot b' => bexpr_int b'
  | BAnd x y => bexpr_int x && bexpr_int y
  | BOr x y => bexpr_int x && bexpr_int y
  | _ => false
  end.
Definition bexpr_typed (at_ : argtype) (b : bexpr) : bool :=
  if is_int at_ then bexpr_int b else bexpr_str b.

Definition validator_typed (at_ : argtype) (v : validator) : bool :=
  forallb (fun r => bexpr_typed at_ (fst r)) (v_rules v).

(* the identity formatter of the base class *)
Definition fmt_id (f : formatter) : bool :=
  match f_rules f, f_default f with [], SContent => true | _, _ => false end.
Definition formatter_typed (at_ : argtype) (f : formatter) : bool :=
  if is_int at_ then fmt_id f else forallb (fun r => bexpr_str (fst r)) (f_rules f).

(* the validator of Var: its first rule rejects every content that is not made of two words *)
Definition var_guard (v : validator) : bool :=
  match v_rules v with
  | (BSplitLen (SStrip SContent) CNe 2%Z, false) :: _ => true
  | _ => false
  end.

Definition simple_ok (sc : simple_cls) : bool :=
  implb (needs_arg (s_run sc)) (is_required (s_arg_req sc))
  && implb (int_run (s_run sc)) (is_int (s_arg_type sc))
  && validator_typed (s_arg_type sc) (s_verify_arg sc)
  && formatter_typed (s_arg_type sc) (s_format_arg sc)
  && implb (is_var_run (s_run sc))
           (negb (is_int (s_arg_type sc)) && var_guard (s_verify_arg sc) && fmt_id (s_format_arg sc)).

Definition block_ok (bc : block_cls) : bool :=
  match b_kind bc with
  | BKRepeat | BKWhile | BKFunc => is_required (b_arg_req bc)
  | _ => true
  end.

Definition cls_ok (c : cls) : bool :=
  match c with Simple sc => simple_ok sc | Block bc => block_ok bc end.

Definition palette_ok : bool := forallb (fun nc => cls_ok (snd nc)) palette.

(* the fact about the GENERATED palette *)
Lemma palette_ok_true : palette_ok = true.
Proof. vm_compute. reflexivity. Qed.

Lemma generic_simple_ok : simple_ok generic_simple = true.
Proof. vm_compute. reflexivity. Qed.

Lemma find_command_In : forall pal cmd cb n c, find_command pal cmd cb = Some (n, c) -> In (n, c) pal.
Proof.
  induction pal as [|[n0 c0] r IH]; intros cmd cb n c H; cbn [find_command] in H; [discriminate|].
  destruct (is_this_command c0 cmd cb).
  - injection H as <- <-. left. reflexivity.
  - right. exact (IH _ _ _ _ H).
Qed.

Lemma find_command_ok : forall cmd cb n c, find_command palette cmd cb = Some (n, c) -> cls_ok c = true.
Proof.
  intros cmd cb n c H. apply find_command_In in H.
  pose proof palette_ok_true as Hp. unfold palette_ok in Hp. rewrite forallb_forall in Hp.
  exact (Hp _ H).
Qed.

(* projections of [simple_ok] *)
Section SimpleOk.
Variable sc : simple_cls.
Hypothesis Hok : simple_ok sc = true.

Lemma simple_ok_parts :
  implb (needs_arg (s_run sc)) (is_required (s_arg_req sc)) = true
  /\ implb (int_run (s_run sc)) (is_int (s_arg_type sc)) = true
  /\ validator_typed (s_arg_type sc) (s_verify_arg sc) = true
  /\ formatter_typed (s_arg_type sc) (s_format_arg sc) = true
  /\ implb (is_var_run (s_run sc))
           (negb (is_int (s_arg_type sc)) && var_guard (s_verify_arg sc) && fmt_id (s_format_arg sc)) = true.
Proof.
  unfold simple_ok in Hok. repeat rewrite andb_true_iff in Hok.
  destruct Hok as [[[[H1 H2] H3] H4] H5]. repeat split; assumption.
Qed.

Lemma simple_ok_required : needs_arg (s_run sc) = true -> s_arg_req sc = Required.
Proof.
  intro Hn. destruct simple_ok_parts as [H1 _]. rewrite Hn in H1. cbn [implb] in H1.
  destruct (s_arg_req sc); [reflexivity | discriminate H1 | discriminate H1].
Qed.

Lemma simple_ok_int : int_run (s_run sc) = true -> s_arg_type sc = ATInt.
Proof.
  intro Hn. destruct simple_ok_parts as [_ [H2 _]]. rewrite Hn in H2. cbn [implb] in H2.
  destruct (s_arg_type sc); [discriminate H2 | reflexivity | discriminate H2].
Qed.

Lemma simple_ok_validator : validator_typed (s_arg_type sc) (s_verify_arg sc) = true.
Proof. apply simple_ok_parts. Qed.

Lemma simple_ok_formatter : formatter_typed (s_arg_type sc) (s_format_arg sc) = true.
Proof. apply simple_ok_parts. Qed.

Lemma simple_ok_var : s_run sc = RKVar ->
  is_int (s_arg_type sc) = false /\ var_guard (s_verify_arg sc) = true /\ fmt_id (s_format_arg sc) = true.
Proof.
  intro Hr. destruct simple_ok_parts as [_ [_ [_ [_ H5]]]]. rewrite Hr in H5. cbn [is_var_run implb] in H5.
  repeat rewrite andb_true_iff in H5. destruct H5 as [[Ha Hb] Hc].
  apply negb_true_iff in Ha. repeat split; assumption.
Qed.
End SimpleOk.

(* ================================================================== typed contents and the DSL (site 5) *)
Definition typed (at_ : argtype) (c : acontent) : Prop :=
  match c with
  | AInt _ => is_int at_ = true
  | AStr _ => is_int at_ = false
  end.

Lemma eval_bexpr_str_total : forall params b s,
  bexpr_str b = true -> exists x, eval_bexpr params b (AStr s) = Ok x.
Proof.
  intros params b s. induction b as [e|e op k|op k|e|e|e lit|e op k|op k|b IH|x IHx y IHy|x IHx y IHy];
    intro H; cbn [bexpr_str] in H; cbn [eval_bexpr]; try (eexists; reflexivity); try discriminate H.
  - destruct (IH H) as [v ->]. cbn [bind]. eexists; reflexivity.
  - apply andb_true_iff in H. destruct H as [Hx Hy].
    destruct (IHx Hx) as [vx ->]. cbn [bind]. destruct vx; [exact (IHy Hy) | eexists; reflexivity].
  - apply andb_true_iff in H. destruct H as [Hx Hy].
    destruct (IHx Hx) as [vx ->]. cbn [bind]. destruct vx; [eexists; reflexivity | exact (IHy Hy)].
Qed.

Lemma eval_bexpr_int_total : forall params b z,
  bexpr_int b = true -> exists x, eval_bexpr params b (AInt z) = Ok x.
Proof.
  intros params b z. induction b as [e|e op k|op k|e|e|e lit|e op k|op k|b IH|x IHx y IHy|x IHx y IHy];
    intro H; cbn [bexpr_int] in H; cbn [eval_bexpr]; try (eexists; reflexivity); try discriminate H.
  - destruct (IH H) as [v ->]. cbn [bind]. eexists; reflexivity.
  - apply andb_true_iff in H. destruct H as [Hx Hy].
    destruct (IHx Hx) as [vx ->]. cbn [bind]. destruct vx; [exact (IHy Hy) | eexists; reflexivity].
  - apply andb_true_iff in H. destruct H as [Hx Hy].
    destruct (IHx Hx) as [vx ->]. cbn [bind]. destruct vx; [eexists; reflexivity | exact (IHy Hy)].
Qed.

Lemma eval_bexpr_typed_total : forall params at_ b c,
  bexpr_typed at_ b = true -> typed at_ c -> exists x, eval_bexpr params b c = Ok x.
Proof.
  intros params at_ b c Hb Hc. unfold bexpr_typed in Hb. destruct c as [s|z]; cbn [typed] in Hc; rewrite Hc in Hb.
  - apply eval_bexpr_str_total. exact Hb.
  - apply eval_bexpr_int_total. exact Hb.
Qed.

(* a well-typed validator always returns a verdict *)
Lemma eval_validator_total : forall params at_ v c,
  validator_typed at_ v = true -> typed at_ c -> exists x, eval_validator params v c = Ok x.
Proof.
  intros params at_ v c Hv Hc. unfold eval_validator, validator_typed in *.
  induction (v_rules v) as [|[b verdict] r IH]; cbn [eval_validator_rules]; [eexists; reflexivity|].
  cbn [forallb fst] in Hv. apply andb_true_iff in Hv. destruct Hv as [Hb Hr].
  destruct (eval_bexpr_typed_total params at_ b c Hb Hc) as [x ->]. cbn [bind].
  destruct x; [eexists; reflexivity | exact (IH Hr)].
Qed.

Lemma eval_formatter_rules_total : forall params rules dflt s,
  forallb (fun r => bexpr_str (fst r)) rules = true ->
  exists s', eval_formatter_rules params rules dflt s = Ok s'.
Proof.
  intros params rules dflt s. induction rules as [|[b e] r IH]; intro H; cbn [eval_formatter_rules];
    [eexists; reflexivity|].
  cbn [forallb fst] in H. apply andb_true_iff in H. destruct H as [Hb Hr].
  destruct (eval_bexpr_str_total params b s Hb) as [x ->]. cbn [bind].
  destruct x; [eexists; reflexivity | exact (IH Hr)].
Qed.

Lemma fmt_id_eval : forall params f c, fmt_id f = true -> eval_formatter params f c = Ok c.
Proof.
  intros params f c H. unfold fmt_id in H. unfold eval_formatter.
  destruct (f_rules f); [|discriminate H]. destruct (f_default f); [reflexivity | discriminate H | discriminate H].
Qed.

(* a well-typed formatter always returns a content of the same type *)
Lemma eval_formatter_total : forall params at_ f c,
  formatter_typed at_ f = true -> typed at_ c ->
  exists c', eval_formatter params f c = Ok c' /\ typed at_ c'.
Proof.
  intros params at_ f c Hf Hc. unfold formatter_typed in Hf.
  destruct c as [s|z]; cbn [typed] in Hc; rewrite Hc in Hf.
  - destruct (eval_formatter_rules_total params (f_rules f) (f_default f) s Hf) as [s' Hs'].
    unfold eval_formatter.
    destruct (f_rules f) as [|r0 rs] eqn:Er.
    + destruct (f_default f) eqn:Ed.
      * exists (AStr s). split; [reflexivity | exact Hc].
      * rewrite Hs'. cbn [bind]. exists (AStr s'). split; [reflexivity | exact Hc].
      * rewrite Hs'. cbn [bind]. exists (AStr s'). split; [reflexivity | exact Hc].
    + rewrite Hs'. cbn [bind]. exists (AStr s'). split; [reflexivity | exact Hc].
  - rewrite (fmt_id_eval params f (AInt z) Hf). exists (AInt z). split; [reflexivity | exact Hc].
Qed.

(* site 4: what an accepting verdict of Var's validator says about the content *)
Lemma var_guard_accepts : forall params v s,
  var_guard v = true -> eval_validator params v (AStr s) = Ok true -> length (split_ws1 s) = 2.
Proof.
  intros params v s Hg Hv. unfold var_guard in Hg. unfold eval_validator in Hv.
  destruct (v_rules v) as [|[b verdict] r]; [discriminate Hg|].
  destruct b as [e|e op k|op k|e|e|e lit|e op k|op k|b|x y|x y]; try discriminate Hg.
  destruct e as [|e|e]; try discriminate Hg. destruct e as [|e|e]; try discriminate Hg.
  destruct op; try discriminate Hg.
  destruct k as [|p|p]; try discriminate Hg.
  destruct p as [p|p|]; try discriminate Hg. destruct p as [p|p|]; try discriminate Hg.
  destruct verdict; [discriminate Hg|].
  cbn [eval_validator_rules eval_bexpr eval_sexpr bind cmp_eval] in Hv.
  rewrite split_ws1_strip_len in Hv.
  destruct (Z.of_nat (length (split_ws1 s)) =? 2)%Z eqn:E; cbn [negb] in Hv.
  - apply Z.eqb_eq in E. lia.
  - discriminate Hv.
Qed.

(* ================================================================== post-conditions in the monad *)
Definition M_post {fo A} (K : crashkind -> Prop) (P : A -> Prop) (m : M fo A) : Prop :=
  forall s, match m s with
            | (_, IOk _ a) => P a
            | (_, ICrash _ k) => K k
            | (_, _) => True
            end.

Section PostMonad.
Variable fo : FloatOps.
Variable K : crashkind -> Prop.

Lemma M_post_ok : forall A (P : A -> Prop) (m : M fo A), M_post K P m -> M_ok K m.
Proof.
  intros A P m H s k Hk. specialize (H s). destruct (m s) as [s' [a|e t|k'|]]; cbn [snd] in Hk;
    try discriminate Hk. injection Hk as <-. exact H.
Qed.

Lemma M_ok_post : forall A (m : M fo A), M_ok K m -> M_post K (fun _ => True) m.
Proof.
  intros A m H s. specialize (H s). destruct (m s) as [s' [a|e t|k'|]]; try exact I.
  apply H. reflexivity.
Qed.

Lemma M_post_weaken : forall A (P Q : A -> Prop) (m : M fo A),
  (forall a, P a -> Q a) -> M_post K P m -> M_post K Q m.
Proof.
  intros A P Q m HPQ H s. specialize (H s). destruct (m s) as [s' [a|e t|k'|]]; try exact H.
  apply HPQ. exact H.
Qed.

Lemma M_post_bind : forall A B (P : A -> Prop) (Q : B -> Prop) (m : M fo A) (f : A -> M fo B),
  M_post K P m -> (forall a, P a -> M_post K Q (f a)) -> M_post K Q (bindM fo m f).
Proof.
  intros A B P Q m f Hm Hf s. unfold bindM. specialize (Hm s).
  destruct (m s) as [s' [a|e t|k'|]]; try exact I.
  - exact (Hf a Hm s').
  - exact Hm.
Qed.

Lemma M_ok_bind_post : forall A B (P : A -> Prop) (m : M fo A) (f : A -> M fo B),
  M_post K P m -> (forall a, P a -> M_ok K (f a)) -> M_ok K (bindM fo m f).
Proof.
  intros A B P m f Hm Hf. apply (M_post_ok _ (fun _ => True)).
  apply (M_post_bind _ _ P); [exact Hm|]. intros a Ha. apply M_ok_post. exact (Hf a Ha).
Qed.

Lemma M_post_ret : forall A (P : A -> Prop) (a : A), P a -> M_post K P (ret fo a).
Proof. intros A P a H s. exact H. Qed.

Lemma M_post_raise : forall cx cur A (P : A -> Prop) e, M_post K P (raise fo cx cur (A:=A) e).
Proof. intros cx cur A P e s. exact I. Qed.

Lemma M_post_unmod : forall A (P : A -> Prop), M_post K P (unmod fo (A:=A)).
Proof. intros A P s. exact I. Qed.

Lemma M_post_lift : forall cx cur A (P : A -> Prop) (r : res A),
  res_ok K r -> (forall a, r = Ok a -> P a) -> M_post K P (lift fo cx cur r).
Proof.
  intros cx cur A P r Hr HP. destruct r as [a|e|k|]; cbn [lift].
  - apply M_post_ret. apply HP. reflexivity.
  - apply M_post_raise.
  - intro s. apply Hr. reflexivity.
  - apply M_post_unmod.
Qed.

End PostMonad.

(* ================================================================== the command pipeline *)
Definition strc (c : acontent) : Prop := match c with AStr _ => True | AInt _ => False end.

Lemma strc_typed : forall at_ c, is_int at_ = false -> strc c -> typed at_ c.
Proof. intros at_ [s|z] H Hc; [exact H | contradiction]. Qed.

Lemma block_lines_str : forall b ls, block_lines b = Some ls -> Forall (fun l => strc (l_content l)) ls.
Proof.
  induction b as [|[c n|b'] r IH]; intros ls H; cbn [block_lines] in H.
  - injection H as <-. constructor.
  - destruct (block_lines r) as [t|]; [|discriminate H]. cbn [option_map] in H. injection H as <-.
    constructor; [exact I | apply IH; reflexivity].
  - discriminate H.
Qed.

Lemma strip_line_str : forall l, strc (l_content l) -> strc (l_content (strip_line l)).
Proof.
  intros l H. unfold strip_line. destruct (l_content l) as [s|z] eqn:E; [exact I|].
  rewrite E. exact H.
Qed.

Section Pipeline.
Variable fo : FloatOps.
Variable K : crashkind -> Prop.
Variable child : runner fo.
Variable cx : ctx.
Hypothesis Hchild : child_ok fo K child cx.
Hypothesis Htok : forall vars s, res_ok K (tokenize fo vars s).

Lemma tokM : forall cur s, M_ok K (tokenizeM fo cx cur s).
Proof. exact (tokenizeM_ok fo K cx Htok). Qed.
Lemma tokCount : forall cur a, M_ok K (tokenize_count fo cx cur a).
Proof. exact (tokenize_count_ok fo K cx Htok). Qed.
Lemma evalArgs : forall cur at_ args, M_ok K (evaluate_args fo cx cur at_ args).
Proof. exact (evaluate_args_ok fo K cx Htok). Qed.
Hint Resolve tokM tokCount evalArgs new_var_ok listify_args_ok check_types_ok verify_plural_ok
     add_plain_warning_ok check_flipper_ok get_temp_flag_ok set_temp_flag_ok : core.

(* ---------------------------------------------------------------- site 6: run_child *)
Lemma run_child_with_some : forall cur code file parallel setup s s' r,
  run_child_with fo child cx cur code file parallel setup (fun _ => Ok true) s = (s', IOk _ r) -> r <> None.
Proof.
  intros cur code file parallel setup s s' r H. unfold run_child_with in H.
  destruct (cmp_eval _ _ _); [discriminate H|].
  destruct (setup _) as [cenv1|er|k|]; try discriminate H.
  destruct (child _ _ _ _) as [g' [[cr cenv2]|er t|k|]]; try discriminate H.
  injection H as _ <-. discriminate.
Qed.

Lemma run_child_ok' : forall cur code file parallel setup,
  (forall e, res_ok K (setup e)) -> M_ok K (run_child fo child cx cur code file parallel setup).
Proof.
  intros cur code file parallel setup Hsetup s. unfold run_child, bindM.
  pose proof (run_child_with_ok fo K child cx Hchild cur code file parallel setup (fun _ => Ok true)
                Hsetup (fun _ => ltac:(ok_leaf)) s) as Hw.
  destruct (run_child_with _ _ _ _ _ _ _ _ _ s) as [s1 [r|er t|k|]] eqn:E; try iok_leaf.
  - destruct r as [cr|]; [unfold ret; iok_leaf|].
    exfalso. exact (run_child_with_some _ _ _ _ _ _ _ _ E eq_refl).
  - intros k' Hk'. cbn [snd] in Hk'. injection Hk' as <-. apply Hw. reflexivity.
Qed.

(* ---------------------------------------------------------------- site 8: loop fuel *)
Lemma repeat_loop_ok' : forall cur var_name argument code fuel count acc,
  (20000 <= Z.of_nat fuel + count)%Z ->
  M_ok K (repeat_loop fo child cx cur fuel var_name argument code count acc).
Proof.
  intros cur var_name argument code fuel.
  induction fuel as [|f IH]; intros count acc Hf s; cbn [repeat_loop];
    (apply ires_ok_bind_dep; [apply tokCount|]);
    intros n s1 Htc; apply tokenize_count_range in Htc;
    destruct (count <? n)%Z eqn:E; try apply M_ok_ret.
  - apply Z.ltb_lt in E. lia.
  - revert s1. apply M_ok_bind.
    + apply run_child_ok'. intro; apply bind_counter_ok.
    + intro cr. destruct (loop_signal (cr_sig cr)) as [sg brk].
      destruct brk; [apply M_ok_ret | apply IH; lia].
Qed.

Lemma while_loop_ok' : forall cur var_name argument code fuel count acc,
  (20001 <= Z.of_nat fuel + count)%Z ->
  M_ok K (while_loop fo child cx cur fuel var_name argument code count acc).
Proof.
  intros cur var_name argument code fuel.
  induction fuel as [|f IH]; intros count acc Hf; cbn [while_loop];
    destruct (cmp_eval while_limit_op count while_limit) eqn:E; try apply M_ok_raise;
    unfold while_limit_op, while_limit in E; cbn [cmp_eval] in E; apply Z.ltb_ge in E;
    try lia.
  apply M_ok_bind.
  - apply run_child_with_ok; try assumption; [intro; apply bind_counter_ok|].
    intro ce. apply res_ok_bind; [apply Htok | intro; ok_leaf].
  - intros [cr|]; [|apply M_ok_ret].
    destruct (loop_signal (cr_sig cr)) as [sg brk].
    destruct brk; [apply M_ok_ret | apply IH; lia].
Qed.

(* ---------------------------------------------------------------- the argument pipeline of SimpleCommand *)
Lemma listify_args_post : forall cur argument code_block num,
  M_post K (Forall (fun l => strc (l_content l))) (listify_args fo cx cur argument code_block num).
Proof.
  intros cur argument code_block num. unfold listify_args.
  set (first := match argument with Some a => match a with [] => [] | _ => _ end | None => [] end).
  assert (Hfirst : Forall (fun l => strc (l_content l)) first).
  { subst first. destruct argument as [[|x a]|]; repeat constructor. }
  destruct code_block as [b|]; [|apply M_post_ret; exact Hfirst].
  destruct (block_lines b) as [ls|] eqn:Hb; [|apply M_post_raise].
  apply M_post_ret. apply Forall_app. split; [exact Hfirst | exact (block_lines_str _ _ Hb)].
Qed.

Definition opt_typed (at_ : argtype) (lc : line * option acontent) : Prop :=
  match snd lc with Some c => typed at_ c | None => True end.

Lemma typed_content_typed : forall at_ v c, typed_content fo at_ v = Ok (Some c) -> typed at_ c.
Proof.
  intros at_ v c H. unfold typed_content in H.
  destruct at_; [ | destruct v; try discriminate H; injection H as <-; reflexivity | ];
    (destruct (py_str fo v); [injection H as <-; reflexivity | discriminate H]).
Qed.

Lemma check_types_post : forall cur at_ args, Forall (opt_typed at_) args ->
  M_post K (fun ls => Forall (fun l => typed at_ (l_content l)) ls /\ length ls = length args)
         (check_types fo cx cur at_ args).
Proof.
  intros cur at_ args. induction args as [|[l oc] r IH]; intro H; cbn [check_types].
  - apply (M_post_bind _ _ _ _ (fun _ => True)); [apply M_ok_post; apply M_ok_set_line2|].
    intros _ _. apply M_post_ret. split; [constructor | reflexivity].
  - apply (M_post_bind _ _ _ _ (fun _ => True)); [apply M_ok_post; apply M_ok_set_line2|].
    intros _ _. inversion H as [|x y Hx Hr]; subst.
    destruct oc as [c|]; [|apply M_post_raise].
    apply (M_post_bind _ _ _ _ _ _ _ _ (IH Hr)). intros t [Ht Hlen]. apply M_post_ret. split.
    + constructor; [exact Hx | exact Ht].
    + cbn [length]. rewrite Hlen. reflexivity.
Qed.

Lemma verify_each_post : forall cur params at_ v args,
  validator_typed at_ v = true -> Forall (fun l => typed at_ (l_content l)) args ->
  M_post K (fun _ => Forall (fun l => eval_validator params v (l_content l) = Ok true) args)
         (verify_each fo cx cur params v args).
Proof.
  intros cur params at_ v args Hv. induction args as [|l r IH]; intro H; cbn [verify_each].
  - intro s. cbn. constructor.
  - apply (M_post_bind _ _ _ _ (fun _ => True)); [apply M_ok_post; apply M_ok_set_line2|].
    intros _ _. inversion H as [|x y Hx Hr]; subst.
    destruct (eval_validator_total params at_ v (l_content l) Hv Hx) as [ok Hok].
    rewrite Hok. cbn [lift].
    apply (M_post_bind _ _ _ _ (fun a => a = ok)); [apply M_post_ret; reflexivity|].
    intros a ->. destruct ok; [|apply M_post_raise].
    apply (M_post_weaken _ _ _ _ _ _ (fun _ Ht => Forall_cons l Hok Ht)). exact (IH Hr).
Qed.

(* what run_compile may assume of an argument: it is typed, and it is the formatted image of a
   typed content that the validator accepted *)
Definition arg_good (sc : simple_cls) (l : line) : Prop :=
  typed (s_arg_type sc) (l_content l) /\
  exists c0, typed (s_arg_type sc) c0
             /\ eval_validator (s_params sc) (s_verify_arg sc) c0 = Ok true
             /\ eval_formatter (s_params sc) (s_format_arg sc) c0 = Ok (l_content l).

Definition arg_pre (sc : simple_cls) (a : option line) : Prop :=
  match a with
  | None => s_arg_req sc <> Required
  | Some l => arg_good sc l
  end.

Lemma format_each_post : forall cur sc args,
  formatter_typed (s_arg_type sc) (s_format_arg sc) = true ->
  Forall (fun l => typed (s_arg_type sc) (l_content l)
                   /\ eval_validator (s_params sc) (s_verify_arg sc) (l_content l) = Ok true) args ->
  M_post K (fun ls => Forall (arg_good sc) ls /\ length ls = length args)
         (format_each fo cx cur (s_params sc) (s_format_arg sc) args).
Proof.
  intros cur sc args Hf. induction args as [|l r IH]; intro H; cbn [format_each].
  - apply M_post_ret. split; [constructor | reflexivity].
  - inversion H as [|x y [Hx Hv] Hr]; subst.
    destruct (eval_formatter_total (s_params sc) _ _ _ Hf Hx) as [c' [Hc' Htc']].
    rewrite Hc'. cbn [lift].
    apply (M_post_bind _ _ _ _ (fun a => a = c')); [apply M_post_ret; reflexivity|].
    intros a ->.
    apply (M_post_bind _ _ _ _ _ _ _ _ (IH Hr)). intros t [Ht Hlen]. apply M_post_ret. split.
    + constructor; [|exact Ht]. split; [exact Htc'|]. exists (l_content l). repeat split; assumption.
    + cbn [length]. rewrite Hlen. reflexivity.
Qed.

(* ---------------------------------------------------------------- sites 2, 3, 4, 9: run_compile *)
Lemma arg_none_contra : forall sc, simple_ok sc = true -> needs_arg (s_run sc) = true -> arg_pre sc None -> False.
Proof. intros sc Hok Hn Ha. apply Ha. exact (simple_ok_required sc Hok Hn). Qed.

Lemma arg_str_contra : forall sc l s, simple_ok sc = true -> int_run (s_run sc) = true ->
  arg_pre sc (Some l) -> l_content l = AStr s -> False.
Proof.
  intros sc l s Hok Hn [Ht _] Hc. rewrite Hc in Ht. cbn [typed] in Ht.
  rewrite (simple_ok_int sc Hok Hn) in Ht. discriminate Ht.
Qed.

Lemma var_arg_two_words : forall sc l, simple_ok sc = true -> s_run sc = RKVar -> arg_pre sc (Some l) ->
  length (split_ws1 (content_text (l_content l))) = 2.
Proof.
  intros sc l Hok Hr [Ht [c0 [Ht0 [Hv Hf]]]].
  destruct (simple_ok_var sc Hok Hr) as [Hint [Hg Hid]].
  rewrite (fmt_id_eval _ _ c0 Hid) in Hf. injection Hf as Hf. subst c0.
  destruct (l_content l) as [s|z]; cbn [typed] in Ht.
  - cbn [content_text]. exact (var_guard_accepts _ _ _ Hg Hv).
  - rewrite Hint in Ht. discriminate Ht.
Qed.

Lemma run_compile_ok' : forall cur cname sc name arg,
  simple_ok sc = true -> arg_pre sc arg -> (s_run sc = RKStart -> c_file cx <> None) ->
  M_ok K (run_compile fo child cx cur cname sc name arg).
Proof.
  intros cur cname sc name arg Hok Harg Hstart. unfold run_compile.
  destruct (s_run sc) eqn:Hrun.
  - (* RKDefault *) m_auto.
  - (* RKEnter *)
    destruct arg as [l|]; [|m_auto]. destruct (l_content l) as [s|n] eqn:Hc; [|m_auto].
    exfalso. refine (arg_str_contra sc l s Hok _ Harg Hc). rewrite Hrun. reflexivity.
  - (* RKWhitespace *)
    destruct arg as [l|]; [|m_auto]. destruct (l_content l) as [s|n] eqn:Hc; [|m_auto].
    exfalso. refine (arg_str_contra sc l s Hok _ Harg Hc). rewrite Hrun. reflexivity.
  - (* RKRem *) m_auto.
  - (* RKDefaultDelay *)
    destruct arg as [l|].
    2:{ exfalso. refine (arg_none_contra sc Hok _ Harg). rewrite Hrun. reflexivity. }
    m_auto.
  - (* RKPass *) m_auto.
  - (* RKPrint *) m_auto.
  - m_auto.
  - m_auto.
  - m_auto.
  - (* RKRun *)
    destruct arg as [l|].
    2:{ exfalso. refine (arg_none_contra sc Hok _ Harg). rewrite Hrun. reflexivity. }
    destruct (break_arg _) as [fname var_string].
    apply M_ok_bind; [m_auto|]. intro vals. apply M_ok_bind; [m_auto|]. intro e.
    destruct (lookup _ _) as [f|]; [|m_auto].
    destruct (negb _); [m_auto|].
    apply M_ok_bind; [|intro; m_auto].
    apply run_child_ok'. intro; ok_leaf.
  - (* RKVar *)
    destruct arg as [l|].
    2:{ exfalso. refine (arg_none_contra sc Hok _ Harg). rewrite Hrun. reflexivity. }
    pose proof (var_arg_two_words sc l Hok Hrun Harg) as Hlen.
    destruct (split_ws1 _) as [|vname [|expr [|x y]]]; cbn [length] in Hlen; try lia.
    m_auto.
  - (* RKExist *)
    destruct arg as [l|].
    2:{ exfalso. refine (arg_none_contra sc Hok _ Harg). rewrite Hrun. reflexivity. }
    m_auto.
  - (* RKNotExist *)
    destruct arg as [l|].
    2:{ exfalso. refine (arg_none_contra sc Hok _ Harg). rewrite Hrun. reflexivity. }
    m_auto.
  - (* RKStart *)
    destruct arg as [l|].
    2:{ exfalso. refine (arg_none_contra sc Hok _ Harg). rewrite Hrun. reflexivity. }
    destruct (c_file cx) as [file|] eqn:Hfile; [|exfalso; exact (Hstart eq_refl eq_refl)].
    apply M_ok_bind; [apply M_ok_lift; apply resolve_start_ok|]. intro target.
    destruct (c_fs cx target) as [text|]; [|m_auto].
    intro s. destruct (existsb _ _); [iok_leaf|].
    pose proof (prepare_text_total text) as Htab.
    destruct (prepare_text text) as [commands|[| | | |]]; try iok_leaf;
      try (exfalso; apply Htab; reflexivity).
    revert s. apply M_ok_bind; [apply run_child_ok'; intro; ok_leaf|]. intro cr. m_auto.
Qed.

Lemma multi_comp_ok' : forall cur cname tg sc name args acc,
  simple_ok sc = true -> Forall (arg_pre sc) args -> (s_run sc = RKStart -> c_file cx <> None) ->
  M_ok K (multi_comp fo child cx cur cname tg sc name args acc).
Proof.
  intros cur cname tg sc name args acc Hok Hargs Hstart. revert acc.
  induction args as [|a r IH]; intro acc; cbn [multi_comp].
  - apply M_ok_ret.
  - inversion Hargs as [|x y Ha Hr]; subst.
    apply M_ok_bind; [apply M_ok_set_line2|]. intros _.
    apply M_ok_bind; [apply run_compile_ok'; assumption|]. intro c. apply IH. exact Hr.
Qed.

Lemma length_zero_nil : forall A (l : list A), length l = 0 -> l = [].
Proof. intros A [|x l] H; [reflexivity | discriminate H]. Qed.

Lemma simple_compile_ok' : forall cur cname tg sc cmd num argument code_block,
  simple_ok sc = true -> (s_run sc = RKStart -> c_file cx <> None) ->
  M_ok K (simple_compile fo child cx cur cname tg sc cmd num argument code_block).
Proof.
  intros cur cname tg sc cmd num argument code_block Hok Hstart. unfold simple_compile.
  apply M_ok_bind; [auto|]. intros _.
  apply (M_ok_bind_post _ _ _ _ _ _ _ (listify_args_post cur argument code_block num)).
  intros args0 Hargs0.
  set (args1 := if s_strip_args sc then map strip_line args0 else args0).
  assert (Hargs1 : Forall (fun l => strc (l_content l)) args1).
  { subst args1. destruct (s_strip_args sc); [|exact Hargs0].
    apply Forall_forall. intros l Hl. apply in_map_iff in Hl. destruct Hl as [l0 [<- Hl0]].
    apply strip_line_str. rewrite Forall_forall in Hargs0. exact (Hargs0 _ Hl0). }
  clearbody args1.
  apply (M_ok_bind_post _ _ _ _ (Forall (opt_typed (s_arg_type sc)))).
  { destruct (_ || _).
    - apply (M_post_bind _ _ _ _ (fun _ => True)); [apply M_ok_post; auto|]. intros vs _.
      induction vs as [|[l v] r IH]; [apply M_post_ret; constructor|].
      apply (M_post_bind _ _ _ _ (fun c => match c with Some c' => typed (s_arg_type sc) c' | None => True end)).
      { apply M_post_lift; [apply typed_content_ok|]. intros [c|] Hc; [|exact I].
        exact (typed_content_typed _ _ _ Hc). }
      intros c Hc. apply (M_post_bind _ _ _ _ _ _ _ _ IH). intros t Ht. apply M_post_ret.
      constructor; [exact Hc | exact Ht].
    - apply M_post_ret. apply Forall_forall. intros lc Hlc. apply in_map_iff in Hlc.
      destruct Hlc as [l [<- Hl]]. unfold opt_typed. cbn [snd].
      rewrite Forall_forall in Hargs1. specialize (Hargs1 _ Hl).
      destruct (s_arg_type sc); [apply strc_typed; [reflexivity | exact Hargs1] | exact I
                                | apply strc_typed; [reflexivity | exact Hargs1]]. }
  intros args2 Hargs2.
  apply (M_ok_bind_post _ _ _ _ (fun _ => s_arg_req sc = Required -> args2 <> [])).
  { destruct args2 as [|x y]; destruct (s_arg_req sc);
      first [apply M_post_raise | apply M_post_ret; intro; discriminate]. }
  intros _ Hreq.
  apply (M_ok_bind_post _ _ _ _ _ _ _ (check_types_post cur _ _ Hargs2)). intros args3 [Hargs3 Hlen3].
  apply M_ok_bind; [auto|]. intros _.
  apply (M_ok_bind_post _ _ _ _ _ _ _
           (verify_each_post cur (s_params sc) _ _ _ (simple_ok_validator sc Hok) Hargs3)).
  intros _ Hver.
  assert (Hboth : Forall (fun l => typed (s_arg_type sc) (l_content l)
                   /\ eval_validator (s_params sc) (s_verify_arg sc) (l_content l) = Ok true) args3).
  { rewrite Forall_forall in *. intros l Hl. split; [exact (Hargs3 _ Hl) | exact (Hver _ Hl)]. }
  apply (M_ok_bind_post _ _ _ _ _ _ _ (format_each_post cur sc _ (simple_ok_formatter sc Hok) Hboth)).
  intros args4 [Hargs4 Hlen4].
  apply multi_comp_ok'; [exact Hok | | exact Hstart].
  destruct args4 as [|l4 r4].
  - constructor; [|constructor]. cbn [arg_pre]. intro Hr.
    apply (Hreq Hr). apply length_zero_nil. rewrite <- Hlen3, <- Hlen4. reflexivity.
  - apply Forall_forall. intros a Ha. apply in_map_iff in Ha. destruct Ha as [l [<- Hl]].
    rewrite Forall_forall in Hargs4. exact (Hargs4 _ Hl).
Qed.

(* ---------------------------------------------------------------- site 7: block commands *)
Lemma block_compile_ok' : forall cur bc cname cmd num argument code_block,
  block_ok bc = true ->
  M_ok K (block_compile fo child cx cur bc cname cmd num argument code_block).
Proof.
  intros cur bc cname cmd num argument code_block Hbok. unfold block_compile.
  apply M_ok_bind; [auto|]. intros _.
  apply (M_ok_bind_post _ _ _ _ (fun _ => b_arg_req bc = Required -> exists x a, argument = Some (x :: a))).
  { destruct (b_arg_req bc); destruct argument as [[|x a]|];
      first [apply M_post_raise | apply M_post_ret; intro Hr; first [discriminate Hr | eexists; eexists; reflexivity]]. }
  intros _ Hreq. unfold block_ok in Hbok.
  destruct (b_kind bc) eqn:Hk.
  - (* IF / ELSE_IF / ELSE *)
    apply M_ok_bind; [m_auto|]. intro e.
    apply M_ok_bind; [m_auto|]. intros _.
    apply M_ok_bind; [m_auto|]. intros _.
    apply M_ok_bind; [m_auto|]. intro tok.
    apply M_ok_bind; [m_auto|]. intro flag.
    apply M_ok_bind; [m_auto|]. intro skip.
    destruct skip; [m_auto|]. destruct (_ && _); [m_auto|].
    apply M_ok_bind; [auto|]. intros _.
    apply M_ok_bind; [apply run_child_ok'; intro; ok_leaf|]. intro cr; m_auto.
  - m_auto.
  - (* REPEAT *)
    assert (Hr : b_arg_req bc = Required) by (destruct (b_arg_req bc); [reflexivity | discriminate Hbok | discriminate Hbok]).
    destruct (Hreq Hr) as [x [a ->]].
    destruct (b_strip_arg bc); cbn [option_map];
      (destruct (split_loop_arg _) as [var_name count_expr];
       destruct (match code_block with Some b => b | None => [] end); [m_auto|];
       destruct (match var_name with Some v => is_var v false | None => true end); [|m_auto];
       apply M_ok_bind; [apply repeat_loop_ok'; rewrite loop_fuel_value; lia | intro; m_auto]).
  - (* WHILE *)
    assert (Hr : b_arg_req bc = Required) by (destruct (b_arg_req bc); [reflexivity | discriminate Hbok | discriminate Hbok]).
    destruct (Hreq Hr) as [x [a ->]].
    destruct (b_strip_arg bc); cbn [option_map];
      (destruct (split_loop_arg _) as [var_name cond];
       apply M_ok_bind; [apply while_loop_ok'; rewrite loop_fuel_value; lia | intro; m_auto]).
  - (* FUNC *)
    assert (Hr : b_arg_req bc = Required) by (destruct (b_arg_req bc); [reflexivity | discriminate Hbok | discriminate Hbok]).
    destruct (Hreq Hr) as [x [a ->]].
    destruct (b_strip_arg bc); cbn [option_map]; m_auto.
Qed.

(* ---------------------------------------------------------------- site 1: dispatch, Stack.run *)
Lemma exec_line_ok' : forall c n code_block, is_blank c = false ->
  M_ok K (exec_line fo child cx c n code_block).
Proof.
  intros c n code_block Hnb. unfold exec_line.
  pose proof (split_ws1_nonblank c Hnb) as Hne.
  destruct (split_ws1 c) as [|cmd more]; [contradiction|].
  destruct (find_command _ _ _) as [[cname cl]|] eqn:Hfind.
  - pose proof (find_command_ok _ _ _ _ Hfind) as Hcls.
    destruct (is_start_class cl && _) eqn:Hst; [m_auto|].
    destruct cl as [sc|bc]; cbn [cls_ok] in Hcls.
    + apply simple_compile_ok'; [exact Hcls|]. intros Hr Hf.
      cbn [is_start_class] in Hst. rewrite Hr, Hf in Hst. discriminate Hst.
    + apply M_ok_bind; [apply block_compile_ok'; exact Hcls|]. intro r; m_auto.
  - apply M_ok_bind; [m_auto|]. intros _.
    apply simple_compile_ok'; [exact generic_simple_ok|]. intro Hr. discriminate Hr.
Qed.

Theorem exec_cmds_ok' : forall cmds acc, M_ok K (exec_cmds fo child cx cmds acc).
Proof.
  intro cmds. induction cmds as [|[c n|b] rest IH]; intro acc; cbn [exec_cmds].
  - m_auto.
  - destruct (is_blank c) eqn:Hb; [apply IH|].
    apply M_ok_bind; [m_auto|]. intros _.
    apply M_ok_bind; [apply exec_line_ok'; exact Hb|]. intro cr.
    destruct (cr_sig cr); first [apply IH | m_auto].
  - apply IH.
Qed.

Theorem run_with_ok' : forall g e cmds, ires_ok K (run_with fo child cx g e cmds).
Proof.
  intros g e cmds. unfold run_with.
  pose proof (exec_cmds_ok' cmds [] (mkSt fo g e None)) as H.
  destruct (exec_cmds _ _ _ _ _ _) as [s [cr|er t|k|]]; try iok_leaf.
  intros k' Hk'. cbn [snd] in Hk'. injection Hk' as <-. apply H. reflexivity.
Qed.

End Pipeline.

(* ================================================================== site 10: the depth-indexed interpreter *)
Definition never (k : crashkind) : Prop := False.

Section Depth.
Variable fo : FloatOps.

Lemma tokenize_never : forall vars s, res_ok never (tokenize fo vars s).
Proof. intros vars s k Hk. exact (tokenize_never_crashes fo vars s k Hk). Qed.

(* a runner that never crashes, given [bound] more levels of model depth than the configured
   limit can use *)
Definition NoCrash (r : runner fo) (bound : nat) : Prop :=
  forall cx g e cmds,
    (stack_limit (c_opts cx) <= Z.of_nat (length (c_pile cx)) + 1 + Z.of_nat bound)%Z ->
    forall g' k, r cx g e cmds <> (g', ICrash _ k).

Lemma run_with_NoCrash_0 : forall child, NoCrash (run_with fo child) 0.
Proof.
  intros child cx g e cmds Hlim g' k Hrun.
  refine (run_with_ok' fo never child cx _ tokenize_never g e cmds k _).
  - intro Hcmp. rewrite limit_check_refuses in Hcmp by lia. discriminate Hcmp.
  - rewrite Hrun. reflexivity.
Qed.

Lemma run_with_NoCrash_S : forall child b, NoCrash child b -> NoCrash (run_with fo child) (S b).
Proof.
  intros child b Hc cx g e cmds Hlim g' k Hrun.
  refine (run_with_ok' fo never child cx _ tokenize_never g e cmds k _).
  - intros _ cur l2 file g0 e0 code k0 Hk0.
    destruct (child _ g0 e0 code) as [g1 r1] eqn:Hch. cbn [snd] in Hk0. subst r1.
    refine (Hc _ _ _ _ _ _ _ Hch). cbn [c_opts c_pile]. rewrite here_length. lia.
  - rewrite Hrun. reflexivity.
Qed.

Lemma run_NoCrash : forall d, NoCrash (run fo d) d.
Proof.
  induction d as [|d IH]; cbn [run].
  - apply run_with_NoCrash_0.
  - apply run_with_NoCrash_S. exact IH.
Qed.

Theorem run_never_crashes : forall d cx g e cmds,
  (stack_limit (c_opts cx) <= Z.of_nat (length (c_pile cx)) + 1 + Z.of_nat d)%Z ->
  forall g' k, run fo d cx g e cmds <> (g', ICrash _ k).
Proof. intros d cx g e cmds H. exact (run_NoCrash d cx g e cmds H). Qed.

(* ================================================================== Compiler.compile *)
Theorem compile_items_never_crashes : forall o fs file cmds g k,
  compile_items fo o fs file cmds <> (g, ICrash _ k).
Proof.
  intros o fs file cmds g k H. unfold compile_items in H.
  destruct (run fo (run_depth o) _ _ _ cmds) as [g1 [[cr e1]|er t|k1|]] eqn:Hrun; try discriminate H.
  refine (run_never_crashes _ _ _ _ _ _ _ _ Hrun).
  cbn [c_opts c_pile length]. unfold run_depth. lia.
Qed.

Theorem compile_raw_never_crashes : forall o fs file lines g k,
  compile_raw fo o fs file lines <> (g, ICrash _ k).
Proof. intros. unfold compile_raw. apply compile_items_never_crashes. Qed.

Theorem compile_text_never_crashes : forall o fs file text g k,
  compile_text fo o fs file text <> (g, ICrash _ k).
Proof.
  intros o fs file text g k. unfold compile_text.
  pose proof (prepare_text_total text) as Htab.
  destruct (prepare_text text) as [cmds|[| | | |]]; try discriminate.
  - apply compile_items_never_crashes.
  - exfalso. apply Htab. reflexivity.
Qed.

(* every outcome of compiling a text is a result, a documented compile error, or outside the
   modelled fragment *)
Corollary compile_text_outcomes : forall o fs file text,
  exists g, (exists c, compile_text fo o fs file text = (g, IOk _ c))
         \/ (exists e t, compile_text fo o fs file text = (g, IErr _ e t))
         \/ compile_text fo o fs file text = (g, IUnmod _).
Proof.
  intros o fs file text.
  pose proof (compile_text_never_crashes o fs file text) as H.
  destruct (compile_text fo o fs file text) as [g [c|e t|k|]].
  - exists g. left. exists c. reflexivity.
  - exists g. right. left. exists e, t. reflexivity.
  - exfalso. exact (H g k eq_refl).
  - exists g. right. right. reflexivity.
Qed.

End Depth.
