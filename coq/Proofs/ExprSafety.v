(* C09 (tokenizer part): every failure of the expression tokenizer is a compile error, never a crash.
   E1 alternation invariant of the scanner, E2 structure never fails on scanner output,
   E3 operator symbols reaching the evaluator are complete operators, E4 the only modelled crash of
   [tokenize] is exhaustion of the model's own step budget. *)
From Coq Require Import NArith ZArith List Bool Lia.
From DS Require Import Base PyStr Values Tables Constants Expr.
Import ListNotations.

(* ------------------------------------------------------------------ generic helpers *)
Lemma str_eqb_eq : forall a b : str, str_eqb a b = true -> a = b.
Proof.
  induction a as [|x a IH]; intros [|y b] H; cbn [str_eqb] in H; try discriminate.
  - reflexivity.
  - apply andb_true_iff in H. destruct H as [Hxy Hab].
    apply N.eqb_eq in Hxy. apply IH in Hab. congruence.
Qed.

Lemma str_eqb_refl : forall a : str, str_eqb a a = true.
Proof.
  induction a as [|x a IH]; cbn [str_eqb]; [reflexivity|].
  rewrite N.eqb_refl, IH. reflexivity.
Qed.

(* [safe P r]: r is not a crash, and satisfies P when it is a value.
   [fsafe P r]: the same, except that the model's own fuel exhaustion is tolerated. *)
Definition safe {A} (P : A -> Prop) (r : res A) : Prop :=
  match r with Ok a => P a | Crash _ => False | _ => True end.
Definition fsafe {A} (P : A -> Prop) (r : res A) : Prop :=
  match r with Ok a => P a | Crash k => k = KOutOfFuel | _ => True end.

Lemma safe_fsafe : forall A (P : A -> Prop) r, safe P r -> fsafe P r.
Proof. intros A P [a|e|k|] H; cbn in *; auto; contradiction. Qed.

Lemma safe_bind : forall A B (P : A -> Prop) (Q : B -> Prop) (r : res A) (f : A -> res B),
  safe P r -> (forall a, P a -> safe Q (f a)) -> safe Q (bind r f).
Proof. intros A B P Q [a|e|k|] f Hr Hf; cbn in *; auto. Qed.

Lemma fsafe_bind : forall A B (P : A -> Prop) (Q : B -> Prop) (r : res A) (f : A -> res B),
  fsafe P r -> (forall a, P a -> fsafe Q (f a)) -> fsafe Q (bind r f).
Proof. intros A B P Q [a|e|k|] f Hr Hf; cbn in *; auto. Qed.

Lemma safe_weaken : forall A (P Q : A -> Prop) r, safe P r -> (forall a, P a -> Q a) -> safe Q r.
Proof. intros A P Q [a|e|k|] H HPQ; cbn in *; auto. Qed.

Lemma fsafe_weaken : forall A (P Q : A -> Prop) r, fsafe P r -> (forall a, P a -> Q a) -> fsafe Q r.
Proof. intros A P Q [a|e|k|] H HPQ; cbn in *; auto. Qed.

(* ------------------------------------------------------------------ the keyword matcher *)
Definition exp_incl (k : kwstate) : Prop :=
  forall e, kw_expected k = Some e -> incl e (kw_list k).

Lemma kw_step_spec : forall k c k' it,
  kw_step k c = (k', it) ->
  kw_list k' = kw_list k /\
  kw_cur k' = kw_cur k ++ [c] /\
  (exp_incl k -> exp_incl k') /\
  (it = IContinue -> exp_incl k -> In (kw_cur k ++ [c]) (kw_list k)) /\
  (it = IFalse -> exp_incl k -> In (kw_cur k) (kw_list k)) /\
  it <> IFalseSkip /\ it <> ITrueContinue.
Proof.
  intros k c k' it H. unfold kw_step in H.
  set (cur' := kw_cur k ++ [c]) in *.
  set (listable := match kw_expected k with Some e => e | None => kw_list k end) in *.
  assert (Hl : exp_incl k -> incl listable (kw_list k)).
  { intro Hk. unfold listable. destruct (kw_expected k) as [e|] eqn:He.
    - apply (Hk e He).
    - apply incl_refl. }
  destruct (filter (fun w => startswith cur' w) listable) as [|w [|w2 more]] eqn:Hf.
  - (* no candidate left *)
    assert (Hk' : exp_incl k -> exp_incl (mkKw (kw_list k) (kw_expected k) cur')).
    { intros Hk e He. cbn in *. apply Hk. exact He. }
    destruct (kw_expected k) as [ev|] eqn:He.
    + destruct (existsb (fun w => str_eqb w (kw_cur k)) ev) eqn:Hex;
        inversion H; subst k' it; cbn [kw_list kw_cur];
        repeat split; auto; try discriminate.
      intros _ Hk. apply existsb_exists in Hex. destruct Hex as [w [Hin Heq]].
      apply str_eqb_eq in Heq. subst w. apply (Hk ev); [exact He|exact Hin].
    + inversion H; subst k' it; cbn [kw_list kw_cur]; repeat split; auto; discriminate.
  - (* exactly one candidate *)
    assert (Hw : In w listable).
    { assert (Hin : In w (filter (fun w => startswith cur' w) listable)) by (rewrite Hf; left; reflexivity).
      apply filter_In in Hin. apply Hin. }
    assert (Hk' : exp_incl k -> exp_incl (mkKw (kw_list k) (Some [w]) cur')).
    { intros Hk e He. cbn in *. inversion He; subst e. intros x [Hx|[]]. subst x. apply Hl; assumption. }
    destruct (str_eqb w cur') eqn:Heq; inversion H; subst k' it; cbn [kw_list kw_cur];
      repeat split; auto; try discriminate.
    intros _ Hk. apply str_eqb_eq in Heq. rewrite <- Heq. apply Hl; assumption.
  - (* several candidates *)
    inversion H; subst k' it; cbn [kw_list kw_cur]; repeat split; auto; try discriminate.
    intros Hk e He. cbn in *. inversion He; subst e. intros x Hx.
    apply Hl; [exact Hk|]. rewrite <- Hf in Hx. apply filter_In in Hx. apply Hx.
Qed.

(* ------------------------------------------------------------------ token classes *)
Definition is_op_class (c : tclass) : bool := match c with COp _ => true | _ => false end.

(* the operators of a generated operator class, as [new_tok] finds them *)
Definition ops_of (oc : opclassid) : list str :=
  match find (fun o => match oc_id o, oc with
                       | OCMath, OCMath | OCCond, OCCond | OCComma, OCComma => true
                       | _, _ => false end) operands with
  | Some o => oc_operators o
  | None => []
  end.

Lemma ops_of_nonempty : forall oc, ops_of oc <> [].
Proof. intros [| |]; vm_compute; discriminate. Qed.

Lemma value_classes_not_op : Forall (fun c => is_op_class c = false) value_classes.
Proof. vm_compute. repeat constructor. Qed.

Lemma operand_classes_op : Forall (fun c => is_op_class c = true) operand_classes.
Proof. vm_compute. repeat constructor. Qed.

Definition tok_wf (t : tok) : Prop :=
  match t with
  | TKw c _ => match c with CBool | CVar | COp _ => True | _ => False end
  | _ => True
  end.

(* what the scanner knows about the token it holds; [sr] is the reversed text collected so far *)
Definition tok_inv (t : tok) (sr : str) : Prop :=
  match t with
  | TKw c k =>
      match c with
      | COp oc => kw_list k = ops_of oc /\ kw_cur k = rev sr /\ exp_incl k
      | CBool | CVar => True
      | _ => False
      end
  | _ => True
  end.

Lemma tok_inv_wf : forall t sr, tok_inv t sr -> tok_wf t.
Proof. intros [| |c k|] sr H; cbn in *; auto. destruct c; auto. Qed.

Section WithFloats.
Variable fo : FloatOps.
Notation value := (value fo).
Notation ptok := (ptok fo).
Notation sd := (sd fo).
Notation vars_t := (vars_t fo).
Notation sd_start := (Expr.sd_start fo).
Notation sd_rest := (Expr.sd_rest fo).
Notation sd_token := (Expr.sd_token fo).
Notation sd_is_op := (Expr.sd_is_op fo).
Notation sd_string := (Expr.sd_string fo).
Notation sd_out := (Expr.sd_out fo).
Notation sd_black := (Expr.sd_black fo).

Lemma new_tok_class : forall (vars : vars_t) c, tok_class (new_tok fo vars c) = c.
Proof. intros vars [| | | | |oc]; reflexivity. Qed.

Lemma new_tok_inv : forall (vars : vars_t) c, tok_inv (new_tok fo vars c) [].
Proof.
  intros vars [| | | | |oc]; cbn; auto.
  repeat split. intros e He. discriminate He.
Qed.

Definition add_char_post (t : tok) (sr : str) (c : N) (r : tok * istoken) : Prop :=
  let '(t', it) := r in
  tok_class t' = tok_class t /\
  tok_wf t' /\
  (it = ITrue -> tok_inv t' (c :: sr)) /\
  (it = ITrueContinue -> tok_inv t' sr) /\
  (it = IContinue -> forall oc, tok_class t = COp oc -> In (rev (c :: sr)) (ops_of oc)) /\
  (it = IFalse -> forall oc, tok_class t = COp oc -> In (rev sr) (ops_of oc)) /\
  (it = IFalseSkip -> tok_class t = CStr).

Ltac triv_post :=
  cbn; repeat split; auto;
  try (let Hd := fresh "Hd" in intro Hd; discriminate Hd);
  try (let Hd := fresh "Hd" in let oc := fresh "oc" in let Hoc := fresh "Hoc" in
       intros Hd oc Hoc; discriminate Hoc).

(* add_char never crashes, preserves the class of the token and keeps the keyword matcher of an
   operator token in step with the collected text *)
Lemma add_char_spec : forall t sr c,
  tok_inv t sr -> safe (add_char_post t sr c) (add_char t c).
Proof.
  intros t sr c Hinv. destruct t as [in_s closed|idx is_fp is_neg closed|cl k|depth ign closed opp].
  - cbn [add_char].
    destruct (negb (c =? q)%N && in_s); [triv_post|].
    destruct in_s; [triv_post|].
    destruct (c =? q)%N; triv_post.
  - cbn [add_char].
    destruct (isnumeric_c c); [triv_post|].
    destruct (Z.eqb (idx + 1) 0 && (c =? dash)%N); [triv_post|].
    destruct ((c =? dot)%N && negb is_fp); [triv_post|].
    destruct (is_neg && Z.eqb (idx + 1) 1); triv_post.
  - cbn [add_char]. destruct (kw_list k) as [|w0 ws] eqn:Hkl.
    + cbn. repeat split; auto; try (intro Hd; discriminate Hd).
      * exact (tok_inv_wf _ _ Hinv).
      * intros _ oc Hoc. subst cl. cbn in Hinv. destruct Hinv as [Hl _].
        rewrite Hkl in Hl. symmetry in Hl. apply ops_of_nonempty in Hl. contradiction.
    + destruct (kw_step k c) as [k' it] eqn:Hks.
      apply kw_step_spec in Hks.
      destruct Hks as [Hlist [Hcur [Hexp [Hcont [Hfalse [Hns Hnt]]]]]].
      cbn. split; [reflexivity|]. split.
      { exact (tok_inv_wf _ _ Hinv). }
      split.
      { intros ->. destruct cl as [| | | | |oc]; cbn in *; auto.
        destruct Hinv as [Hl [Hc He]]. repeat split.
        - congruence.
        - rewrite Hcur, Hc. reflexivity.
        - auto. }
      split.
      { intros ->. exfalso. apply Hnt. reflexivity. }
      split.
      { intros -> oc ->. cbn in Hinv. destruct Hinv as [Hl [Hc He]].
        cbn [rev]. rewrite <- Hc, <- Hl. apply Hcont; auto. }
      split.
      { intros -> oc ->. cbn in Hinv. destruct Hinv as [Hl [Hc He]].
        rewrite <- Hc, <- Hl. apply Hfalse; auto. }
      { intros ->. exfalso. apply Hns. reflexivity. }
  - cbn [add_char].
    destruct ((negb ((c =? lpar)%N || (c =? rpar)%N) || ign) && negb (Z.eqb depth 0)); [triv_post|].
    set (depth' := if ((c =? lpar)%N || (c =? rpar)%N) then _ else depth).
    destruct (depth' <? 0)%Z; [exact I|].
    destruct (cmp_eval paren_limit_op depth' paren_limit); [exact I|].
    destruct (0 <? depth')%Z; [triv_post|].
    destruct (negb ((c =? lpar)%N || (c =? rpar)%N)); [|triv_post].
    destruct (c =? bang)%N; triv_post.
Qed.

(* a fresh token never answers IFalseSkip (only a string that is already open does) *)
Lemma add_char_new_not_skip : forall (vars : vars_t) cl c t,
  add_char (new_tok fo vars cl) c <> Ok (t, IFalseSkip).
Proof.
  intros vars cl c t H.
  pose proof (add_char_spec (new_tok fo vars cl) [] c (new_tok_inv vars cl)) as Hs.
  rewrite H in Hs. cbn in Hs. destruct Hs as [_ [_ [_ [_ [_ [_ Hskip]]]]]].
  specialize (Hskip eq_refl). rewrite new_tok_class in Hskip. subst cl.
  cbn in H. rewrite andb_false_r in H. destruct (c =? q)%N; discriminate H.
Qed.


(* ------------------------------------------------------------------ E1: alternation *)
Definition is_val (p : ptok) : bool := match p with POp _ _ => false | _ => true end.

(* [alt expect_op l]: l alternates value / operator, starting with an operator iff expect_op *)
Fixpoint alt (expect_op : bool) (l : list ptok) : Prop :=
  match l with
  | [] => True
  | p :: r => is_val p = negb expect_op /\ alt (negb expect_op) r
  end.

(* the same on the reversed output list: [ralt is_op out] says that (rev out) alternates starting
   with a value and that the scanner is in phase is_op after it *)
Fixpoint ralt (is_op : bool) (out : list ptok) : Prop :=
  match out with
  | [] => is_op = false
  | p :: r => is_val p = is_op /\ ralt (negb is_op) r
  end.

Lemma ralt_alt : forall out b tail, ralt b out -> alt b tail -> alt false (rev out ++ tail).
Proof.
  induction out as [|p r IH]; intros b tail Hr Ht; cbn in *.
  - subst b. exact Ht.
  - destruct Hr as [Hp Hr]. rewrite <- app_assoc. cbn [app].
    apply (IH (negb b)); [exact Hr|]. cbn. rewrite negb_involutive. auto.
Qed.

Lemma ralt_parity : forall out b, ralt b out -> Nat.even (length out) = negb b.
Proof.
  induction out as [|p r IH]; intros b Hr; cbn [ralt length] in *.
  - subst b. reflexivity.
  - destruct Hr as [_ Hr]. apply IH in Hr. rewrite Nat.even_succ, <- Nat.negb_even, Hr.
    rewrite negb_involutive. reflexivity.
Qed.

Definition good_sym (p : ptok) : Prop :=
  match p with POp oc sym => In sym (ops_of oc) | _ => True end.

(* invariant of the scanner state between two iterations of the while loop *)
Definition Pre (s : sd) : Prop := ralt (sd_is_op s) (sd_out s) /\ Forall good_sym (sd_out s).

Definition Inv (s : sd) : Prop :=
  Pre s /\
  match sd_token s with
  | None => sd_string s = []
  | Some t => is_op_class (tok_class t) = sd_is_op s /\ tok_inv t (sd_string s)
  end.

Lemma number_value_safe : forall s, safe (fun _ => True) (number_value fo s).
Proof.
  intro s. unfold number_value.
  destruct (endswith [dot] s).
  - destruct (py_int (removelast s)); exact I.
  - destruct (py_int s); [exact I|].
    destruct (py_float_parts s) as [[[neg m] k]|]; exact I.
Qed.

Lemma set_value_spec : forall (vars : vars_t) t s,
  tok_wf t ->
  safe (fun p => is_val p = negb (is_op_class (tok_class t)) /\
                 forall oc sym, p = POp oc sym -> tok_class t = COp oc /\ sym = s)
       (set_value fo vars t s).
Proof.
  intros vars t s Hwf. destruct t as [a b|a b c d|cl k|a b c d]; cbn [set_value].
  - cbn. split; [reflexivity|]. intros oc sym H. discriminate H.
  - pose proof (number_value_safe s) as Hn. destruct (number_value fo s); cbn in *; auto.
    split; [reflexivity|]. intros oc sym H. discriminate H.
  - destruct cl as [| | | | |oc]; cbn in Hwf; try contradiction.
    + destruct (str_eqb s s_TRUE); [|destruct (str_eqb s s_FALSE)]; cbn; auto;
        (split; [reflexivity|]; intros oc sym H; discriminate H).
    + destruct (lookup s vars); cbn; auto.
      split; [reflexivity|]. intros oc sym H. discriminate H.
    + cbn. split; [reflexivity|]. intros oc' sym H. inversion H. auto.
  - cbn. split; [reflexivity|]. intros oc sym H. discriminate H.
Qed.

Lemma append_shape : forall (vars : vars_t) (s : sd) t rest string,
  is_op_class (tok_class t) = sd_is_op s -> tok_wf t ->
  safe (fun s' => exists p,
          s' = mkSd fo rest rest None (negb (sd_is_op s)) [] (p :: sd_out s) [] /\
          is_val p = negb (sd_is_op s) /\
          (forall oc sym, p = POp oc sym -> tok_class t = COp oc /\ sym = rev string))
       (append_and_switch fo vars s t rest string).
Proof.
  intros vars s t rest string Hcl Hwf. unfold append_and_switch.
  eapply safe_bind; [apply set_value_spec; exact Hwf|].
  intros p [Hv Hp]. cbn. exists p. rewrite <- Hcl. auto.
Qed.

Lemma append_spec : forall (vars : vars_t) (s : sd) t rest string,
  Pre s -> is_op_class (tok_class t) = sd_is_op s -> tok_wf t ->
  (forall oc, tok_class t = COp oc -> In (rev string) (ops_of oc)) ->
  safe Inv (append_and_switch fo vars s t rest string).
Proof.
  intros vars s t rest string [Hr Hg] Hcl Hwf Hsym.
  eapply safe_weaken; [apply append_shape; assumption|].
  intros s' [p [-> [Hv Hp]]]. split; [|reflexivity]. split; cbn.
  - rewrite negb_involutive. auto.
  - constructor; [|exact Hg]. destruct p as [v|inner opp|oc sym]; cbn; auto.
    destruct (Hp oc sym eq_refl) as [Hc ->]. apply Hsym. exact Hc.
Qed.

Definition try_post (s : sd) (r : sd + sd) : Prop :=
  match r with
  | inl s' => Inv s'
  | inr s' => Pre s' /\ sd_string s' = [] /\ sd_is_op s' = sd_is_op s
  end.

Lemma try_class_spec : forall (vars : vars_t) (s : sd) c rest' cl,
  Pre s -> sd_string s = [] -> is_op_class cl = sd_is_op s ->
  safe (try_post s) (try_class fo vars s c rest' cl).
Proof.
  intros vars s c rest' cl Hpre Hstr Hcl. unfold try_class.
  pose proof (add_char_spec (new_tok fo vars cl) [] c (new_tok_inv vars cl)) as Ha.
  pose proof (add_char_new_not_skip vars cl c) as Hns.
  destruct (add_char (new_tok fo vars cl) c) as [[t it]|e|k|]; cbn [bind]; cbn in Ha; auto.
  destruct Ha as [Hc [Hwf [Htrue [Htc [Hcont [Hfalse Hskip]]]]]].
  rewrite new_tok_class in *.
  destruct it; cbn.
  - (* IFalse *) repeat split; try apply Hpre; auto.
  - (* ITrue *) split; [exact Hpre|]. cbn. split; [congruence|]. rewrite Hstr. auto.
  - (* IContinue *)
    eapply safe_bind.
    + apply append_spec; auto; [congruence|]. rewrite Hstr, Hc. apply (Hcont eq_refl).
    + intros s' Hs'. exact Hs'.
  - (* IFalseSkip *) exfalso. apply (Hns t). reflexivity.
  - (* IResetContinue *) repeat split; try apply Hpre; auto.
  - (* ITrueContinue *) split; [exact Hpre|]. cbn. split; [congruence|]. rewrite Hstr. auto.
Qed.

Lemma verify_char_spec : forall (vars : vars_t) c rest' cls (s : sd),
  Pre s -> sd_string s = [] ->
  Forall (fun cl => is_op_class cl = sd_is_op s) cls ->
  safe Inv (verify_char fo vars s c rest' cls).
Proof.
  intros vars c rest'. induction cls as [|cl more IH]; intros s Hpre Hstr Hcls; cbn [verify_char].
  - exact I.
  - inversion Hcls as [|x l Hcl Hmore]; subst x l.
    destruct (in_black cl (sd_black s)).
    + apply IH; assumption.
    + eapply safe_bind; [apply try_class_spec; assumption|].
      intros [s'|s'] Hpost; cbn in Hpost.
      * exact Hpost.
      * destruct Hpost as [Hpre' [Hstr' Hop']]. apply IH; auto.
        rewrite Hop'. exact Hmore.
Qed.

(* E1, step form: one iteration of the scanner loop never crashes and preserves the invariant *)
Lemma scan_step_spec : forall (vars : vars_t) (s : sd) r,
  Inv s -> scan_step fo vars s = Some r -> safe Inv r.
Proof.
  intros vars s r [Hpre Htok] Hstep. unfold scan_step in Hstep.
  destruct (sd_rest s) as [|c rest'] eqn:Hrest; [discriminate Hstep|].
  inversion Hstep as [Hr]; clear Hstep Hr.
  destruct (sd_token s) as [t|] eqn:Ht.
  - destruct Htok as [Hcl Hinv].
    pose proof (add_char_spec t (sd_string s) c Hinv) as Ha.
    destruct (add_char t c) as [[t' it]|e|k|]; cbn [bind]; cbn in Ha; auto.
    destruct Ha as [Hc [Hwf [Htrue [Htc [Hcont [Hfalse Hskip]]]]]].
    destruct it.
    + apply append_spec; auto; [congruence|]. intros oc Hoc. apply Hfalse; congruence.
    + cbn. split; [exact Hpre|]. cbn. split; [congruence|auto].
    + apply append_spec; auto; [congruence|]. intros oc Hoc. apply Hcont; congruence.
    + apply append_spec; auto; [congruence|]. intros oc Hoc.
      rewrite Hc, Hskip in Hoc by reflexivity. discriminate Hoc.
    + cbn. split; [exact Hpre|]. reflexivity.
    + cbn. split; [exact Hpre|]. cbn. split; [congruence|auto].
  - destruct (isspace_c c).
    + cbn. split; [exact Hpre|]. exact Htok.
    + apply verify_char_spec; auto.
      destruct (sd_is_op s); [exact operand_classes_op|exact value_classes_not_op].
Qed.

(* what the scanner returns *)
Definition Final (toks : list ptok) : Prop :=
  alt false toks /\ Nat.even (length toks) = false /\ Forall good_sym toks.

Lemma finish_from_pre : forall (s : sd), Pre s ->
  safe Final (if Nat.even (length (sd_out s)) then Err EExpectedToken else Ok (rev (sd_out s))).
Proof.
  intros s [Hr Hg]. destruct (Nat.even (length (sd_out s))) eqn:He; cbn; [exact I|].
  split; [|split].
  - rewrite <- (app_nil_r (rev (sd_out s))). eapply ralt_alt; [exact Hr|exact I].
  - rewrite rev_length. exact He.
  - apply Forall_rev. exact Hg.
Qed.

Lemma scan_finish_spec : forall (vars : vars_t) (s : sd),
  Inv s -> safe Final (scan_finish fo vars s).
Proof.
  intros vars s [Hpre Htok]. unfold scan_finish.
  destruct (sd_token s) as [t|] eqn:Ht.
  - destruct Htok as [Hcl Hinv]. destruct (tok_closed t); [|exact I].
    pose proof (append_shape vars s t (sd_rest s) (sd_string s) Hcl (tok_inv_wf _ _ Hinv)) as Ha.
    destruct (append_and_switch fo vars s t (sd_rest s) (sd_string s)) as [s'|e|k|];
      cbn [bind]; cbn in Ha; auto.
    destruct Ha as [p [-> [Hv Hp]]]. cbn [sd_out].
    destruct Hpre as [Hr Hg].
    destruct (sd_is_op s) eqn:Hop.
    + (* a trailing operator: the parity check rejects it *)
      apply ralt_parity in Hr. cbn [length]. rewrite Nat.even_succ, <- Nat.negb_even, Hr. exact I.
    + apply (finish_from_pre (mkSd fo (sd_rest s) (sd_rest s) None true [] (p :: sd_out s) [])).
      split; cbn.
      * split; [exact Hv|exact Hr].
      * constructor; [|exact Hg]. destruct p; cbn; auto. discriminate Hv.
  - cbn [bind]. apply finish_from_pre. exact Hpre.
Qed.

Lemma scan_loop_spec : forall (vars : vars_t) fuel (s : sd),
  Inv s -> fsafe Final (scan_loop fo fuel vars s).
Proof.
  intros vars. induction fuel as [|f IH]; intros s Hinv; cbn [scan_loop];
    destruct (scan_step fo vars s) as [r|] eqn:Hstep.
  - reflexivity.
  - apply safe_fsafe. apply scan_finish_spec. exact Hinv.
  - apply fsafe_bind with (P := Inv).
    + apply safe_fsafe. eapply scan_step_spec; eassumption.
    + intros s' Hs'. apply IH. exact Hs'.
  - apply safe_fsafe. apply scan_finish_spec. exact Hinv.
Qed.

Lemma Inv_init : forall s : str, Inv (mkSd fo s s None false [] [] []).
Proof. intro s. split; [split|]; cbn; auto. Qed.

Theorem convert_string_spec : forall (vars : vars_t) (s : str),
  fsafe Final (convert_string fo vars s).
Proof. intros vars s. unfold convert_string. apply scan_loop_spec. apply Inv_init. Qed.


(* E1, as a statement about the result of the scanner *)
Theorem convert_string_alternates : forall (vars : vars_t) (s : str) toks,
  convert_string fo vars s = Ok toks -> alt false toks /\ Nat.even (length toks) = false.
Proof.
  intros vars s toks H. pose proof (convert_string_spec vars s) as Hs. rewrite H in Hs.
  destruct Hs as [Ha [He _]]. auto.
Qed.

Theorem convert_string_crash : forall (vars : vars_t) (s : str) k,
  convert_string fo vars s = Crash k -> k = KOutOfFuel.
Proof.
  intros vars s k H. pose proof (convert_string_spec vars s) as Hs. rewrite H in Hs. exact Hs.
Qed.

(* ------------------------------------------------------------------ E2: structure *)
Lemma list_ind2 : forall (A : Type) (P : list A -> Prop),
  P [] -> (forall a, P [a]) -> (forall a b l, P l -> P (a :: b :: l)) -> forall l, P l.
Proof.
  intros A P H0 H1 H2 l.
  assert (H : P l /\ forall a, P (a :: l)).
  { induction l as [|x l [IHa IHb]]; split; auto. }
  apply H.
Qed.

Notation ptree := (ptree fo).
Notation oplist := (oplist fo).

Lemma structure_rest_some : forall l : list ptok,
  alt true l -> Nat.even (length l) = true -> structure_rest fo l <> None.
Proof.
  intro l. induction l as [|a|a b l IH] using list_ind2; intros Ha He.
  - cbn. discriminate.
  - cbn in He. discriminate He.
  - cbn in Ha. destruct Ha as [Hva [Hvb Hl]].
    cbn [length] in He. rewrite Nat.even_succ_succ in He.
    specialize (IH Hl He).
    destruct a as [v|i o|oc sym]; try discriminate Hva.
    destruct b as [v|i o|oc' sym']; try discriminate Hvb; cbn [structure_rest];
      destruct (structure_rest fo l); try contradiction; cbn; discriminate.
Qed.

Theorem structure_some : forall l : list ptok,
  alt false l -> Nat.even (length l) = false -> structure fo l <> None.
Proof.
  intros l Ha He. destruct l as [|a l].
  - cbn in He. discriminate He.
  - cbn in Ha. destruct Ha as [Hva Hl]. cbn [length] in He.
    rewrite Nat.even_succ, <- Nat.negb_even in He. apply negb_false_iff in He.
    pose proof (structure_rest_some l Hl He) as Hr.
    destruct a as [v|i o|oc sym]; try discriminate Hva; cbn [structure];
      destruct (structure_rest fo l); try contradiction; cbn; discriminate.
Qed.

(* E2 *)
Theorem convert_string_structure : forall (vars : vars_t) (s : str) toks,
  convert_string fo vars s = Ok toks -> structure fo toks <> None.
Proof.
  intros vars s toks H. apply convert_string_alternates in H. destruct H as [Ha He].
  apply structure_some; assumption.
Qed.

(* ------------------------------------------------------------------ E3: trees *)
Fixpoint good_tree (t : ptree) : Prop :=
  match t with
  | Leaf p => is_val p = true
  | Node oc sym l r => In sym (ops_of oc) /\ good_tree l /\ good_tree r
  end.

Definition good_item (x : opclassid * str * ptree) : Prop :=
  let '(oc, sym, t) := x in In sym (ops_of oc) /\ good_tree t.

Lemma structure_rest_good : forall (l : list ptok) ol,
  Forall good_sym l -> structure_rest fo l = Some ol -> Forall good_item ol.
Proof.
  intro l. induction l as [|a|a b l IH] using list_ind2; intros ol Hg Hs.
  - cbn in Hs. inversion Hs. constructor.
  - cbn in Hs. destruct a; discriminate Hs.
  - inversion Hg as [|x1 l1 Hga Hg1]; subst x1 l1.
    inversion Hg1 as [|x2 l2 Hgb Hgl]; subst x2 l2.
    destruct a as [v|i o|oc sym]; cbn [structure_rest] in Hs; try discriminate Hs.
    destruct b as [v|i o|oc' sym']; try discriminate Hs;
      destruct (structure_rest fo l) as [t|] eqn:Hr; cbn in Hs; try discriminate Hs;
      inversion Hs; subst ol; constructor; auto; cbn; auto.
Qed.

Lemma structure_good : forall (l : list ptok) t0 rest,
  Forall good_sym l -> structure fo l = Some (t0, rest) ->
  good_tree t0 /\ Forall good_item rest.
Proof.
  intros l t0 rest Hg Hs. destruct l as [|a l]; [discriminate Hs|].
  inversion Hg as [|x1 l1 Hga Hgl]; subst x1 l1.
  destruct a as [v|i o|oc sym]; cbn [structure] in Hs; try discriminate Hs;
    destruct (structure_rest fo l) as [t|] eqn:Hr; cbn in Hs; try discriminate Hs;
    inversion Hs; subst t0 rest; (split; [reflexivity|]); eapply structure_rest_good; eassumption.
Qed.

Lemma pass_good : forall row (rest : oplist) (acc : ptree),
  good_tree acc -> Forall good_item rest ->
  good_tree (fst (pass fo row acc rest)) /\ Forall good_item (snd (pass fo row acc rest)).
Proof.
  intros row. induction rest as [|[[oc sym] t] r IH]; intros acc Hacc Hrest; cbn [pass].
  - cbn. auto.
  - inversion Hrest as [|x l Hit Hr]; subst x l. cbn in Hit. destruct Hit as [Hsym Ht].
    destruct (str_in sym row).
    + apply IH; [|exact Hr]. cbn. auto.
    + specialize (IH t Ht Hr). destruct (pass fo row t r) as [a r'] eqn:Hp. cbn in *.
      destruct IH as [Ha Hr']. split; [exact Hacc|]. constructor; [|exact Hr']. cbn. auto.
Qed.

Definition good_pair (p : ptree * oplist) : Prop := good_tree (fst p) /\ Forall good_item (snd p).

Lemma fold_pass_good : forall rows (p : ptree * oplist),
  good_pair p -> good_pair (fold_left (fun '(a, r) row => pass fo row a r) rows p).
Proof.
  induction rows as [|row rows IH]; intros [a r] Hp; cbn [fold_left].
  - exact Hp.
  - apply IH. destruct Hp as [Ha Hr]. apply pass_good; assumption.
Qed.

Theorem build_tree_spec : forall (toks : list ptok),
  Final toks -> safe good_tree (build_tree fo toks).
Proof.
  intros toks [Ha [He Hg]]. unfold build_tree.
  pose proof (structure_some toks Ha He) as Hs.
  destruct (structure fo toks) as [[t0 rest]|] eqn:Hst; [|contradiction].
  pose proof (structure_good toks t0 rest Hg Hst) as Hgood.
  pose proof (fold_pass_good all_rows (t0, rest) Hgood) as Hf.
  destruct (fold_left _ all_rows (t0, rest)) as [t rest'].
  destruct rest'; cbn; [apply Hf|exact I].
Qed.

(* ------------------------------------------------------------------ the operators never crash *)
Section ValueInd.
Variable P : value -> Prop.
Hypothesis HInt : forall z, P (VInt z).
Hypothesis HFlt : forall f, P (VFlt f).
Hypothesis HStr : forall s, P (VStr s).
Hypothesis HBool : forall b, P (VBool b).
Hypothesis HNone : P VNone.
Hypothesis HList : forall l, Forall P l -> P (VList l).

Fixpoint value_ind_nested (v : value) : P v :=
  match v with
  | VInt z => HInt z
  | VFlt f => HFlt f
  | VStr s => HStr s
  | VBool b => HBool b
  | VNone => HNone
  | VList l =>
      HList l ((fix go (l : list value) : Forall P l :=
                  match l with
                  | [] => Forall_nil P
                  | x :: r => Forall_cons x (value_ind_nested x) (go r)
                  end) l)
  end.
End ValueInd.

Definition nocrash {A} (r : res A) : Prop := safe (fun _ => True) r.

Ltac break_match :=
  match goal with
  | |- context [match ?x with _ => _ end] => destruct x
  end.

Lemma to_float_nocrash : forall n, nocrash (to_float fo n).
Proof. intros [z|f]; cbn; [destruct (f_of_Z fo z)|]; exact I. Qed.

Lemma py_eq_nocrash : forall a b : value, nocrash (py_eq fo a b).
Proof.
  intro a. induction a as [z|f|s|b0| |l IH] using value_ind_nested; intro b.
  - destruct b; cbn; repeat break_match; exact I.
  - destruct b; cbn; repeat break_match; exact I.
  - destruct b; cbn; repeat break_match; exact I.
  - destruct b; cbn; repeat break_match; exact I.
  - destruct b; cbn; repeat break_match; exact I.
  - destruct b as [z|f|s|b0|l'|]; cbn; try exact I.
    revert l'. induction IH as [|x l Hx Hl IHl]; intros [|y l']; cbn; try exact I.
    specialize (Hx y). unfold nocrash in Hx.
    destruct (py_eq fo x y) as [e|e|k|]; cbn in *; auto.
    destruct e; [apply IHl|exact I].
Qed.

Lemma py_lt_nocrash : forall a b : value, nocrash (py_lt fo a b).
Proof.
  intros a b. unfold py_lt, nocrash, to_float, of_option.
  destruct a; destruct b; cbn; repeat break_match; exact I.
Qed.

Lemma arith2_nocrash : forall fz ff x y, nocrash (arith2 fo fz ff x y).
Proof.
  intros fz ff x y. unfold arith2, nocrash, to_float, of_option.
  destruct x; destruct y; cbn; repeat break_match; cbn; exact I.
Qed.

Lemma py_pow_nocrash : forall x y, nocrash (py_pow fo x y).
Proof.
  intros x y. unfold py_pow, nocrash, to_float, of_option.
  destruct x; destruct y; cbn; repeat (break_match; cbn); exact I.
Qed.

Lemma math_op_nocrash : forall sym l r, nocrash (math_op fo sym l r).
Proof.
  intros sym l r. unfold math_op.
  destruct (str_eqb sym sym_plus).
  - destruct (is_str fo l || is_str fo r).
    + destruct (py_str fo l); [destruct (py_str fo r)|]; exact I.
    + destruct (as_num fo l); [destruct (as_num fo r)|]; try apply arith2_nocrash;
        destruct l; try exact I; destruct r; exact I.
  - assert (Hnum : forall x y, nocrash
      (if str_eqb sym sym_minus then arith2 fo Z.sub (f_sub fo) x y
       else if str_eqb sym sym_times then arith2 fo Z.mul (f_mul fo) x y
       else if str_eqb sym sym_div then
         if num_is_zero fo y then Err EDivideByZero
         else if big_int fo x || big_int fo y then Unmodelled
         else do fx <- to_float fo x; do fy <- to_float fo y; Ok (VFlt (f_div fo fx fy))
       else if str_eqb sym sym_fdiv then
         if num_is_zero fo y then Err EDivideByZero else arith2 fo Z.div (f_floordiv fo) x y
       else if str_eqb sym sym_pow then py_pow fo x y
       else if num_is_zero fo y then Err EDivideByZero else arith2 fo Z.modulo (f_mod fo) x y)).
    { intros x y.
      destruct (str_eqb sym sym_minus); [apply arith2_nocrash|].
      destruct (str_eqb sym sym_times); [apply arith2_nocrash|].
      destruct (str_eqb sym sym_div).
      { destruct (num_is_zero fo y); [exact I|].
        destruct (big_int fo x || big_int fo y); [exact I|].
        eapply safe_bind; [apply to_float_nocrash|]. intros fx _.
        eapply safe_bind; [apply to_float_nocrash|]. intros fy _. exact I. }
      destruct (str_eqb sym sym_fdiv).
      { destruct (num_is_zero fo y); [exact I|apply arith2_nocrash]. }
      destruct (str_eqb sym sym_pow); [apply py_pow_nocrash|].
      destruct (num_is_zero fo y); [exact I|apply arith2_nocrash]. }
    assert (Hrep : nocrash
      (if str_eqb sym sym_times then
         match l, r with
         | VInt n, VStr s =>
             if (n <=? rep_limit)%Z then Ok (VStr (repeat_list (Z.to_nat n) s)) else Unmodelled
         | VInt n, VList s =>
             if (n <=? rep_limit)%Z then Ok (VList (repeat_list (Z.to_nat n) s)) else Unmodelled
         | _, _ => Err EMismatch
         end
       else Err EMismatch)).
    { destruct (str_eqb sym sym_times); [|exact I].
      destruct l; try exact I; destruct r; try exact I; destruct (_ <=? _)%Z; exact I. }
    destruct l; try exact I.
    + destruct (as_num fo (VInt z)); [destruct (as_num fo r)|]; auto.
    + destruct (as_num fo (VFlt f)); [destruct (as_num fo r)|]; auto.
Qed.

Definition cond_ops : list str := [sym_eq; sym_ne; sym_lt; sym_gt; sym_le; sym_ge].

Lemma ops_of_cond : ops_of OCCond = cond_ops.
Proof. reflexivity. Qed.

(* cond_op raises NotImplementedError only on a symbol outside the six comparison operators *)
Lemma cond_op_nocrash : forall sym l r, In sym cond_ops -> nocrash (cond_op fo sym l r).
Proof.
  intros sym l r Hin. unfold cond_op.
  assert (Heq : nocrash (do e <- py_eq fo l r; Ok (@VBool fo e))).
  { eapply safe_bind; [apply py_eq_nocrash|]. intros e _. exact I. }
  destruct (str_eqb sym sym_eq) eqn:H1.
  { eapply safe_bind; [apply py_eq_nocrash|]. intros e _. exact I. }
  destruct (str_eqb sym sym_ne) eqn:H2.
  { eapply safe_bind; [apply py_eq_nocrash|]. intros e _. exact I. }
  destruct (str_eqb sym sym_lt) eqn:H3.
  { eapply safe_bind; [apply py_lt_nocrash|]. intros e _. exact I. }
  destruct (str_eqb sym sym_gt) eqn:H4.
  { eapply safe_bind; [apply py_lt_nocrash|]. intros e _. exact I. }
  destruct (str_eqb sym sym_le) eqn:H5.
  { eapply safe_bind; [apply py_lt_nocrash|]. intros [|] _; [exact I|].
    destruct (as_num fo l); destruct (as_num fo r); destruct l; try exact I; try exact Heq;
      destruct r; try exact I; exact Heq. }
  destruct (str_eqb sym sym_ge) eqn:H6.
  { eapply safe_bind; [apply py_lt_nocrash|]. intros [|] _; [exact I|].
    destruct (as_num fo l); destruct (as_num fo r); destruct l; try exact I; try exact Heq;
      destruct r; try exact I; exact Heq. }
  exfalso. unfold cond_ops in Hin. cbn [In] in Hin.
  destruct Hin as [<-|[<-|[<-|[<-|[<-|[<-|[]]]]]]]; rewrite str_eqb_refl in *; discriminate.
Qed.

Lemma apply_op_nocrash : forall oc sym l r,
  In sym (ops_of oc) -> nocrash (apply_op fo oc sym l r).
Proof.
  intros oc sym l r Hin. unfold apply_op. eapply safe_bind with (P := fun _ => True).
  - destruct oc.
    + apply math_op_nocrash.
    + apply cond_op_nocrash. rewrite <- ops_of_cond. exact Hin.
    + unfold comma_op. destruct l; exact I.
  - intros v _. exact I.
Qed.

(* ------------------------------------------------------------------ E3/E4: evaluation *)
Lemma solve_fsafe : forall rec : str -> res value,
  (forall s, fsafe (fun _ => True) (rec s)) ->
  forall t : ptree, good_tree t -> fsafe (fun _ => True) (solve fo rec t).
Proof.
  intros rec Hrec. induction t as [p|oc sym l IHl r IHr]; intro Hg; cbn [solve].
  - destruct p as [v|inner opp|oc sym]; cbn in Hg; try discriminate Hg.
    + exact I.
    + eapply fsafe_bind; [apply Hrec|]. intros v _. exact I.
  - cbn in Hg. destruct Hg as [Hsym [Hl Hr]].
    eapply fsafe_bind; [apply IHl; exact Hl|]. intros lv _.
    eapply fsafe_bind; [apply IHr; exact Hr|]. intros rv _.
    apply safe_fsafe. apply apply_op_nocrash. exact Hsym.
Qed.

Theorem tokenize_fuel_fsafe : forall fuel (vars : vars_t) (s : str),
  fsafe (fun _ => True) (tokenize_fuel fo fuel vars s).
Proof.
  induction fuel as [|f IH]; intros vars s; cbn [tokenize_fuel].
  - reflexivity.
  - eapply fsafe_bind; [apply convert_string_spec|]. intros toks Htoks.
    eapply fsafe_bind; [apply safe_fsafe; apply build_tree_spec; exact Htoks|]. intros tree Htree.
    eapply fsafe_bind; [apply solve_fsafe; [intro s'; apply IH|exact Htree]|]. intros v _. exact I.
Qed.

(* E4 *)
Theorem tokenize_crash_only_fuel : forall (vars : vars_t) (s : str) k,
  tokenize fo vars s = Crash k -> k = KOutOfFuel.
Proof.
  intros vars s k H. unfold tokenize in H.
  pose proof (tokenize_fuel_fsafe (S (length s)) vars s) as Hs. rewrite H in Hs. exact Hs.
Qed.

End WithFloats.
